#!/bin/sh
# Run the repository's test suite (guard OFF) on a scratch worktree of /repo's HEAD and compare
# with the stable-pass list of /root/.vp/BASELINE.json.  Usage: tools/baseline_check.sh [outfile]
set -e
OUT=${1:-/tmp/baseline-result.txt}
WT=$(mktemp -d /tmp/wt-baseline-XXXX)
git -C /repo worktree add -q --detach "$WT" HEAD
trap 'git -C /repo worktree remove --force "$WT" >/dev/null 2>&1; rm -rf "$WT"' EXIT
cd "$WT"
export GOFLAGS=-mod=mod GOPROXY=off GOSUMDB=off GOTOOLCHAIN=local
go test -json -vet=off -count=1 -timeout 25m ./... > "$WT.json" 2>/dev/null || true
python3 - "$WT.json" > "$OUT" <<'PY'
import json,sys
res={}
for line in open(sys.argv[1]):
    try: e=json.loads(line)
    except Exception: continue
    if e.get("Action") in ("pass","fail","skip") and e.get("Test"):
        res[e["Package"]+"::"+e["Test"]]=e["Action"]
base=json.load(open("/root/.vp/BASELINE.json"))
stable=base["stable_pass"]
bad=[t for t in stable if res.get(t)!="pass"]
print("stable_pass total",len(stable),"passing now",len(stable)-len(bad))
for t in bad: print("NOT PASSING:",t,res.get(t))
PY
rm -f "$WT.json"
cat "$OUT"
