#!/bin/bash
# tools/stress.sh [parallel=4] [rounds=2]  —  run every quick check on the unchanged /repo, several at a time,
# and list every run that exited non-zero or printed a VIOLATION (a false alarm, since the tree is clean).
# Evidence is rewritten by these runs like by any other run against /repo.
cd "$(dirname "$0")/.."
PAR=${1:-4}; ROUNDS=${2:-2}
mkdir -p .build/stress
for r in $(seq 1 $ROUNDS); do
  ls props/C*.json | sed 's#props/##; s#.json##' | shuf --random-source=<(yes $r) | \
    xargs -P $PAR -I{} sh -c 'VERIF_SEED='$r' ./check {} quick > .build/stress/{}-'$r'.log 2>&1; echo "{} round '$r' exit $?"'
done | tee .build/stress/summary.txt
echo "---- runs that need attention:"
grep -v 'exit 0$' .build/stress/summary.txt || echo none
grep -l '^VIOLATION' .build/stress/*.log 2>/dev/null || true
