#!/usr/bin/env python3
"""tools/seed_eval.py <Cxx> <A|B|...> [--src /tmp/seed-out] [--keep]

Confirm a seeded change ourselves and run the property's check against it:
  1. fresh worktree of /repo HEAD; the demonstration must PASS on it (unchanged tree);
  2. apply patch.diff; `go build ./pkg/... ./cmd/...`; the tests of the touched packages must give the
     same pass/fail list as on the unchanged tree;
  3. the demonstration must FAIL with the change;
  4. `VERIF_REPO=<worktree> ./check Cxx quick` must report a VIOLATION (exit 1).
Writes /verif/seeded/<Cxx>-<X>/ (patch.diff, demo/, meta.json with what we ran and saw)."""
import json, os, re, shutil, subprocess, sys, tempfile, time

ROOT = os.path.dirname(os.path.dirname(os.path.abspath(__file__)))
ENV = dict(os.environ, GOFLAGS="-mod=mod", GOPROXY="off", GOSUMDB="off", GOTOOLCHAIN="local")


def sh(cmd, cwd=None, timeout=1800, env=ENV):
    p = subprocess.run(cmd, shell=True, cwd=cwd, env=env, stdout=subprocess.PIPE, stderr=subprocess.STDOUT,
                       text=True, errors="replace", timeout=timeout)
    return p.returncode, p.stdout


def test_results(wt, pkgs):
    rc, out = sh("go test -count=1 -json -vet=off %s" % " ".join(pkgs), cwd=wt, timeout=2400)
    res = {}
    for line in out.splitlines():
        try:
            e = json.loads(line)
        except Exception:
            continue
        if e.get("Action") in ("pass", "fail") and e.get("Test"):
            res[e["Package"] + "::" + e["Test"]] = e["Action"]
    return res


def main():
    prop, x = sys.argv[1], sys.argv[2]
    src = "/tmp/seed-out"
    if "--src" in sys.argv:
        src = sys.argv[sys.argv.index("--src") + 1]
    d = os.path.join(src, prop, x)
    patch = os.path.join(d, "patch.diff")
    demo = os.path.join(d, "demo")
    run_md = open(os.path.join(demo, "RUN.md")).read()
    meta_in = json.load(open(os.path.join(d, "meta.json")))
    # demonstration: files to copy and the command to run
    copies = []
    for m in re.finditer(r"cp\s+(\S+)\s+(\S+)", run_md):
        name, dest = os.path.basename(m.group(1)), m.group(2)
        if os.path.exists(os.path.join(demo, name)):
            if dest.endswith("/") or os.path.isdir(os.path.join("/repo", dest)):
                dest = os.path.join(dest, name)
            copies.append((os.path.join(demo, name), dest))
    cmds = [c.strip() for c in re.findall(r"^\s+(go (?:test|run)[^\n`]*)", run_md, re.M)]
    if not cmds:
        cmds = [c.strip() for c in re.findall(r"(go (?:test|run)[^\n`]*)", run_md)][:1]
    if "--demo-cmd" in sys.argv:
        cmds = [sys.argv[sys.argv.index("--demo-cmd") + 1]]
    if not cmds:
        print("cannot find the demo command in RUN.md"); sys.exit(2)
    demo_cmd = " && ".join(dict.fromkeys(cmds))
    if not copies:
        for dp, _, fs in os.walk(demo):
            for f in fs:
                rel = os.path.relpath(os.path.join(dp, f), demo)
                if rel.startswith("pkg/") and f.endswith(".go"):
                    copies.append((os.path.join(dp, f), rel))
    if not copies:
        for f in os.listdir(demo):
            if f.endswith("_test.go"):
                pk = re.search(r"\./(pkg/\S+?)/?(?:\s|$)", demo_cmd)
                if pk:
                    copies.append((os.path.join(demo, f), os.path.join(pk.group(1), f)))
    wt = tempfile.mkdtemp(prefix="wt-seedeval-")
    os.rmdir(wt)
    report = {"property": prop, "id": "%s-%s" % (prop, x), "demo_cmd": demo_cmd, "ran": []}
    try:
        sh("git -C /repo worktree add -q --detach %s HEAD" % wt)
        changed = [l[6:] for l in open(patch).read().splitlines() if l.startswith("+++ b/")]
        pkgs = sorted({"./" + os.path.dirname(f) + "/" for f in changed if f.endswith(".go")})
        # 1. baseline of the touched packages + demo on the unchanged tree
        base = test_results(wt, pkgs)
        for s, dst in copies:
            shutil.copy(s, os.path.join(wt, dst))
        rc0, out0 = sh(demo_cmd, cwd=wt)
        report["demo_without_change"] = "PASS" if rc0 == 0 else "FAIL(rc=%d)" % rc0
        for s, dst in copies:
            os.remove(os.path.join(wt, dst))
        # 2. apply, build, same test results
        rc, out = sh("git apply %s" % patch, cwd=wt)
        if rc != 0:
            report["apply"] = out[-500:]; print(json.dumps(report, indent=1)); sys.exit(2)
        rcb, outb = sh("go build ./pkg/... ./cmd/...", cwd=wt)
        report["build"] = "ok" if rcb == 0 else outb[-500:]
        withc = test_results(wt, pkgs)
        flaky = ("TestCreatePing",)
        diff = sorted(t for t in set(base) | set(withc)
                      if base.get(t) != withc.get(t) and not any(f in t for f in flaky))
        report["existing_tests_changed"] = diff
        report["existing_tests_compared"] = len(base)
        # 3. demo with the change
        for s, dst in copies:
            shutil.copy(s, os.path.join(wt, dst))
        rc1, out1 = sh(demo_cmd, cwd=wt)
        report["demo_with_change"] = "PASS" if rc1 == 0 else "FAIL(rc=%d)" % rc1
        report["demo_with_change_tail"] = [l for l in out1.splitlines() if "VIOLAT" in l or "FAIL" in l][:6]
        for s, dst in copies:
            os.remove(os.path.join(wt, dst))
        # 4. our check against the changed tree
        t0 = time.time()
        rcc, outc = sh("./check %s quick" % prop, cwd=ROOT, env=dict(os.environ, VERIF_REPO=wt), timeout=3000)
        report["check_exit"] = rcc
        report["check_wall_s"] = round(time.time() - t0)
        report["check_lines"] = [l for l in outc.splitlines() if l.startswith(("VIOLATION", "KNOWN-FINDING", prop)) or "violation [" in l][:12]
        report["caught"] = (rcc == 1 and any(l.startswith("VIOLATION") for l in outc.splitlines()))
        report["also"] = {}
        if "--also" in sys.argv:
            for other in sys.argv[sys.argv.index("--also") + 1].split(","):
                rco, outo = sh("./check %s quick" % other, cwd=ROOT, env=dict(os.environ, VERIF_REPO=wt), timeout=3000)
                report["also"][other] = {"exit": rco, "caught": rco == 1 and any(l.startswith("VIOLATION") for l in outo.splitlines()),
                                         "lines": [l for l in outo.splitlines() if l.startswith(("VIOLATION", other)) or "violation [" in l][:8]}
        report["confirmed"] = (rc0 == 0 and rc1 != 0 and rcb == 0 and not diff)
    finally:
        sh("git -C /repo worktree remove --force %s" % wt)
        shutil.rmtree(wt, ignore_errors=True)
    out_dir = os.path.join(ROOT, "seeded", "%s-%s" % (prop, x))
    if os.path.exists(out_dir):
        shutil.rmtree(out_dir)
    os.makedirs(out_dir)
    shutil.copy(patch, os.path.join(out_dir, "patch.diff"))
    shutil.copytree(demo, os.path.join(out_dir, "demo"))
    meta = {"property": prop, "id": "%s-%s" % (prop, x), "title": meta_in.get("title", ""),
            "summary": meta_in.get("summary", ""), "needs_to_manifest": meta_in.get("needs_to_manifest", ""),
            "files_changed": meta_in.get("files_changed", []), "seeder_report": meta_in,
            "our_confirmation": report}
    json.dump(meta, open(os.path.join(out_dir, "meta.json"), "w"), indent=1)
    print(json.dumps({k: report[k] for k in ("id", "confirmed", "caught", "demo_without_change", "demo_with_change",
                                             "existing_tests_changed", "check_exit", "check_lines", "also") if k in report}, indent=1))


if __name__ == "__main__":
    main()
