#!/bin/sh
# run every claimed check (quick by default) one after the other and summarise
cd "$(dirname "$0")/.."
TIER=${1:-quick}
for p in $(cat props/claimed.txt); do
  out=$(./check "$p" "$TIER" 2>&1); rc=$?
  echo "$out" | grep -E "^(VIOLATION|KNOWN-FINDING|ERROR)" | cut -c1-160
  echo "$out" | tail -1 | sed "s/^/[rc=$rc] /"
done
