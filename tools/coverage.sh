#!/bin/bash
# tools/coverage.sh Cxx [file-regex]  —  which lines of the real code does the quick tier of a check execute?
# Copies /repo's working tree to a scratch directory, puts the property's harness inside that module (so
# that `go build -cover` instruments receptor's packages), runs the quick tier with GOCOVERDIR set and prints
# per-function coverage (filtered by the regex).  The profile is kept in .build/cover-Cxx.txt for
# `go tool cover -html`.  A diagnostic for generator gaps, not part of any check.
set -e
P=$1; FILT=${2:-pkg/}
p=$(echo $P | tr A-Z a-z)
export GOFLAGS=-mod=mod GOPROXY=off GOSUMDB=off GOTOOLCHAIN=local
S=$(mktemp -d /tmp/vcover-$P-XXXX); trap "rm -rf $S" EXIT
mkdir -p $S/repo $S/cov $S/out
rsync -a --exclude .git /repo/ $S/repo/
mkdir -p $S/repo/verifh/cmd
cp -r /verif/harness/lib $S/repo/verifh/lib; cp -r /verif/harness/cmd/$p $S/repo/verifh/cmd/$p
find $S/repo/verifh -name '*.go' | xargs sed -i 's#"verifharness/#"github.com/ansible/receptor/verifh/#'
cd $S/repo
go build -tags verif -cover -o $S/vh ./verifh/cmd/$p
go build -tags verif -cover -o $S/receptor ./cmd/receptor-cl
cd $S/out
GOCOVERDIR=$S/cov VERIF_BIN=$S/receptor VERIF_ROOT=/verif VERIF_REPO=/repo timeout 900 $S/vh -seed 1 -tier quick -out $S/out > $S/run.log 2>&1 || true
cd $S/repo
go tool covdata textfmt -i=$S/cov -o=$S/cover.txt
mkdir -p /verif/.build; cp $S/cover.txt /verif/.build/cover-$P.txt
go tool cover -func=$S/cover.txt | grep -E "$FILT" | awk '{print $NF, $1, $2}' | sort -n
