#!/bin/bash
# tools/coverage.sh Cxx [file-regex]  —  which lines of the real code does the quick tier of a check execute?
# Builds the property's harness (and the receptor binary) with -cover from /repo, runs the quick tier with
# GOCOVERDIR set and prints per-function coverage of pkg/ (filtered by the regex) plus the uncovered blocks
# of functions that are partly covered.  A diagnostic for generator gaps, not part of any check.
set -e
P=$1; FILT=${2:-pkg/}
p=$(echo $P | tr A-Z a-z)
export GOFLAGS=-mod=mod GOPROXY=off GOSUMDB=off GOTOOLCHAIN=local
S=$(mktemp -d /tmp/vcover-$P-XXXX); trap "rm -rf $S" EXIT
mkdir -p $S/h/cmd $S/cov $S/out
cp -r /verif/harness/lib $S/h/lib; cp -r /verif/harness/cmd/$p $S/h/cmd/$p
sed '0,/^module .*/s//module verifharness/' /repo/go.mod > $S/h/go.mod
printf '\nrequire github.com/ansible/receptor v0.0.0\nreplace github.com/ansible/receptor => /repo\n' >> $S/h/go.mod
cp /repo/go.sum $S/h/go.sum
cd $S/h
go build -tags verif -cover -coverpkg=github.com/ansible/receptor/pkg/... -o $S/vh ./cmd/$p
go build -tags verif -cover -coverpkg=github.com/ansible/receptor/pkg/... -o $S/receptor github.com/ansible/receptor/cmd/receptor-cl
cd $S/out
GOCOVERDIR=$S/cov VERIF_BIN=$S/receptor VERIF_ROOT=/verif VERIF_REPO=/repo timeout 900 $S/vh -seed 1 -tier quick -out $S/out > $S/run.log 2>&1 || true; tail -3 $S/run.log; ls $S/cov | head -3
go tool covdata textfmt -i=$S/cov -o=$S/cover.txt
mkdir -p /verif/.build; cp $S/cover.txt /verif/.build/cover-$P.txt
cd /repo && go tool cover -func=$S/cover.txt | grep -E "$FILT" | awk '{print $NF, $1, $2}' | sort -n
