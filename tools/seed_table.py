#!/usr/bin/env python3
"""tools/seed_table.py — markdown table of seeded/*/meta.json (for DESIGN.md section 14)."""
import glob, json, os
ROOT = os.path.dirname(os.path.dirname(os.path.abspath(__file__)))
rows = []
for f in sorted(glob.glob(os.path.join(ROOT, "seeded", "*", "meta.json"))):
    m = json.load(open(f)); r = m["our_confirmation"]
    by = []
    if r.get("caught"):
        sigs = []
        for l in r.get("check_lines", []):
            if "violation [" in l:
                s = l.split("violation [")[1].split("]")[0]
                if s not in sigs:
                    sigs.append(s)
            elif "disagree" in l and "disagreements 0" not in l and not sigs:
                pass
        by.append("%s (%s)" % (m["property"], ", ".join(sigs[:3]) if sigs else "correspondence/proof"))
    for o, v in r.get("also", {}).items():
        if v.get("caught"):
            by.append(o)
    rows.append("| %s | %s | %s | %s |" % (m["id"], m["title"].replace("|", "/")[:150], (m.get("files_changed") or [""])[0],
                                         "; ".join(by) if by else "**missed**"))
table = "| seed | change | file | caught by (`./check Cxx quick`, oracle signature) |\n|---|---|---|---|\n" + "\n".join(rows)
import sys
if "--update" in sys.argv:
    p = os.path.join(ROOT, "DESIGN.md"); s = open(p).read()
    a = s.index("<!-- SEED-TABLE-BEGIN -->") + len("<!-- SEED-TABLE-BEGIN -->"); b = s.index("<!-- SEED-TABLE-END -->")
    open(p, "w").write(s[:a] + "\n" + table + "\n" + s[b:])
else:
    print(table)
