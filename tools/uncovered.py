#!/usr/bin/env python3
"""tools/uncovered.py Cxx <file-suffix> <from-line> <to-line>: uncovered blocks of the profile .build/cover-Cxx.txt"""
import sys
prop, suf, a, b = sys.argv[1], sys.argv[2], int(sys.argv[3]), int(sys.argv[4])
cov = {}
for l in open('/verif/.build/cover-%s.txt' % prop):
    if l.startswith('mode:'): continue
    loc, n, c = l.rsplit(' ', 2)
    f, rng = loc.split(':')
    if not f.endswith(suf): continue
    s, e = rng.split(',')
    sl, el = int(s.split('.')[0]), int(e.split('.')[0])
    if sl >= a and el <= b:
        cov[(sl, el)] = cov.get((sl, el), 0) + int(c)
src = open('/repo/' + suf if suf.startswith('pkg') else suf).read().split('\n')
for (sl, el), c in sorted(cov.items()):
    if c == 0:
        print('--- lines %d-%d' % (sl, el))
        for i in range(sl, min(el, sl + 6) + 1):
            print('   ', src[i - 1])
