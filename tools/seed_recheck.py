#!/usr/bin/env python3
"""tools/seed_recheck.py Cxx-L [...]  — run the property's CURRENT quick check against kept seeded changes again.

The confirmation of the change itself (demonstration passes without / fails with the patch, build ok, existing
tests unchanged) was done by tools/seed_eval.py when the change was delivered and is kept; only step 4
(`VERIF_REPO=<worktree with the patch> ./check Cxx quick`) is repeated, and the outcome replaces the check_* fields
of seeded/<id>/meta.json (the first evaluation is kept under `first_evaluation`)."""
import json, os, shutil, subprocess, sys, tempfile, time
ROOT = os.path.dirname(os.path.dirname(os.path.abspath(__file__)))

def sh(cmd, cwd=None, env=None, timeout=3000):
    p = subprocess.run(cmd, shell=True, cwd=cwd, env=env, stdout=subprocess.PIPE, stderr=subprocess.STDOUT, text=True, errors="replace", timeout=timeout)
    return p.returncode, p.stdout

for sid in sys.argv[1:]:
    d = os.path.join(ROOT, "seeded", sid)
    meta = json.load(open(os.path.join(d, "meta.json")))
    prop = meta["property"]
    wt = tempfile.mkdtemp(prefix="wt-recheck-"); os.rmdir(wt)
    try:
        sh("git -C /repo worktree add -q --detach %s HEAD" % wt)
        rc, out = sh("git apply %s" % os.path.join(d, "patch.diff"), cwd=wt)
        if rc != 0:
            print(sid, "patch no longer applies to /repo HEAD:", out[-300:]); continue
        t0 = time.time()
        rcc, outc = sh("./check %s quick" % prop, cwd=ROOT, env=dict(os.environ, VERIF_REPO=wt))
        r = meta["our_confirmation"]
        if "first_evaluation" not in r:
            r["first_evaluation"] = {k: r.get(k) for k in ("check_exit", "check_wall_s", "check_lines", "caught")}
        r["check_exit"] = rcc
        r["check_wall_s"] = round(time.time() - t0)
        r["check_lines"] = [l for l in outc.splitlines() if l.startswith(("VIOLATION", prop)) or "violation [" in l][:12]
        r["caught"] = (rcc == 1 and any(l.startswith("VIOLATION") for l in outc.splitlines()))
        r["rechecked_at_verif"] = subprocess.run("git -C %s rev-parse --short HEAD" % ROOT, shell=True, capture_output=True, text=True).stdout.strip()
        json.dump(meta, open(os.path.join(d, "meta.json"), "w"), indent=1)
        print(sid, "caught" if r["caught"] else "MISSED", [l[:160] for l in r["check_lines"][:2]])
    finally:
        sh("git -C /repo worktree remove --force %s" % wt)
        shutil.rmtree(wt, ignore_errors=True)
