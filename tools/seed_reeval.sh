#!/bin/sh
# tools/seed_reeval.sh Cxx-L ...  — evaluate kept seeded changes again (against the current checks and /repo HEAD):
# rebuilds the delivery layout from seeded/<id>/ in a scratch directory and runs tools/seed_eval.py on it.
cd "$(dirname "$0")/.."
for id in "$@"; do
  p=${id%-*}; l=${id#*-}
  src=$(mktemp -d /tmp/seed-re-XXXXXX)
  mkdir -p "$src/$p/$l"
  cp seeded/$id/patch.diff "$src/$p/$l/"
  cp -r seeded/$id/demo "$src/$p/$l/demo"
  python3 -c "import json,sys; m=json.load(open('seeded/$id/meta.json')); json.dump(m.get('seeder_report',m), open('$src/$p/$l/meta.json','w'), indent=1)"
  # RUN.md names the original delivery directory: point it at the scratch copy
  sed -i "s#/tmp/seed-out/$p/$l/#$src/$p/$l/#g" "$src/$p/$l/demo/RUN.md" 2>/dev/null
  python3 tools/seed_eval.py "$p" "$l" --src "$src" 2>&1 | tail -25
  rm -rf "$src"
done
