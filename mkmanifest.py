#!/usr/bin/env python3
"""regenerate MANIFEST.json from props/*.json (one file per claimed property) and
props/not_applicable.json; keeps the manifest valid at all times."""
import glob, json, os
ROOT = os.path.dirname(os.path.abspath(__file__))
ids = [json.loads(l)["id"] for l in open(os.path.join(ROOT, "properties.jsonl"))]
checks, claimed = [], set()
for pid in ids:
    p = os.path.join(ROOT, "props", pid + ".json")
    if not os.path.exists(p):
        continue
    c = json.load(open(p))
    if c.get("disabled") or pid not in open(os.path.join(ROOT, "props", "claimed.txt")).read().split():
        continue
    claimed.add(pid)
    checks.append({
        "property_id": pid,
        "quick_cmd": "./check %s quick" % pid,
        "thorough_cmd": "./check %s thorough" % pid,
        "evidence_file": "evidence/%s.json" % pid,
        "replay_cmd_template": "./check replay {path}",
        "engine": "coq-proof+correspondence",
        "level_claimed": {"category": "proof", "text": c["level_text"], "design_ref": c.get("design_ref", "DESIGN.md section 8, " + pid)},
        "level_note": c["level_note"],
        "technique": c.get("technique", "machine-checked proof in Coq 8.16.1 over a Gallina model + differential correspondence check against the Go implementation"),
    })
na_file = os.path.join(ROOT, "props", "not_applicable.json")
na = json.load(open(na_file)) if os.path.exists(na_file) else {}
not_app = [{"property_id": pid, "reason": na.get(pid, "not claimed yet: model, theorems and correspondence harness for this property are not built at this commit")}
           for pid in ids if pid not in claimed]
hooks_file = os.path.join(ROOT, "props", "hooks.json")
hooks = json.load(open(hooks_file)) if os.path.exists(hooks_file) else {"source_commits": []}
m = {
    "version": 1,
    "setup_cmd": "./setup.sh",
    "hooks": {
        "guard": "verif",
        "enable": "Go build tag: go build -tags verif (the harness module in /verif/harness replaces github.com/ansible/receptor with /repo)",
        "baseline_off_cmd": "for m in $(cat /w/out/gomods.txt); do MF=$(cd /repo/$m && . /w/out/goenv.sh && gomodflag); (cd /repo/$m && go test $MF -json -vet=off -count=1 -timeout 25m ./...); done",
        "source_commits": hooks.get("source_commits", []),
        "add_only": True,
    },
    "engines": [{"name": "coq-proof+correspondence", "path": "check", "serves_properties": sorted(claimed),
                 "kind_free_text": "Coq 8.16.1 development (coq/theories: Model, Proofs, Props) + Go differential harness (harness/cmd/vh) whose observations are evaluated against the Gallina model inside coqc"}],
    "checks": checks,
    "not_applicable": not_app,
    "notes": "See DESIGN.md. Every check: full Coq build + Print Assumptions, forbidden-declaration scan, harness built from /repo with -tags verif, model-independent oracle on the implementation, model-vs-implementation comparison inside coqc.",
}
json.dump(m, open(os.path.join(ROOT, "MANIFEST.json"), "w"), indent=1)
print("MANIFEST.json: %d checks, %d not_applicable" % (len(checks), len(not_app)))
