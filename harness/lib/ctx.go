package lib

import (
	"flag"
	"fmt"
	"os"
)

// Ctx is the invocation context of one property harness:
//
//	vh-<PROP> -seed N -tier quick|thorough -out DIR [-replay FILE]
type Ctx struct {
	Prop   string
	Seed   uint64
	Tier   string
	Out    string
	Replay string // path of a replay file, or ""
	Rng    *Rng
	Bin    string // path of the receptor binary built from /repo (env VERIF_BIN), for process-level harnesses
}

func (c *Ctx) Thorough() bool { return c.Tier == "thorough" }

// Main parses the command line and runs f.  helpers are sub-commands that the harness binary
// runs as child processes of itself (first argument = helper name), e.g. a node under test that
// may crash.
func Main(prop string, f func(*Ctx), helpers map[string]func([]string)) {
	if len(os.Args) >= 2 {
		if h, ok := helpers[os.Args[1]]; ok {
			h(os.Args[2:])
			return
		}
	}
	fs := flag.NewFlagSet("vh-"+prop, flag.ExitOnError)
	seed := fs.Uint64("seed", 1, "PRNG seed")
	tier := fs.String("tier", "quick", "quick|thorough")
	out := fs.String("out", ".", "output directory")
	replay := fs.String("replay", "", "replay file")
	_ = fs.Parse(os.Args[1:])
	if err := os.MkdirAll(*out, 0o755); err != nil {
		fmt.Fprintln(os.Stderr, err)
		os.Exit(3)
	}
	f(&Ctx{Prop: prop, Seed: *seed, Tier: *tier, Out: *out, Replay: *replay, Rng: NewRng(*seed), Bin: os.Getenv("VERIF_BIN")})
}
