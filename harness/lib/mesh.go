package lib

// In-process meshes of real Netceptor nodes joined by harness-controlled links, and scripted
// peers (a harness-driven BackendSession talking to one real node byte for byte).

import (
	"context"
	"fmt"
	"io"
	"runtime"
	"sync"
	"time"

	"github.com/ansible/receptor/pkg/logger"
	"github.com/ansible/receptor/pkg/netceptor"
)

// QuietLogs silences receptor's global logger (harness output stays readable).
func QuietLogs() { logger.SetGlobalQuietMode() }

// ---------- a session end backed by channels ----------

// Pipe is one direction-pair end of a link: Send goes to out, Recv takes from in.
type Pipe struct {
	in, out chan []byte
	closed  chan struct{}
	peer    *Pipe
	once    sync.Once
	// Tap, when set, sees every message this end sends (before fault injection).
	Tap func(b []byte)
	// Filter, when set, decides the fate of each message this end sends: it returns the list of
	// copies to deliver (nil = drop, two entries = duplicate) and a delay.
	Filter func(b []byte) (deliver [][]byte, delay time.Duration)
	// Silent, when set to true, swallows everything this end sends without closing (silent failure).
	Silent bool
	// Detached, when set, turns this end into the end of a machine that vanished without a trace: what it
	// sends is swallowed and its Close is not seen by the other end (ForceClose still ends the link).
	Detached bool
	mu       sync.Mutex
}

// NewPipePair makes the two ends of one link.
func NewPipePair(buffer int) (*Pipe, *Pipe) {
	ab, ba := make(chan []byte, buffer), make(chan []byte, buffer)
	closed := make(chan struct{})
	a := &Pipe{in: ba, out: ab, closed: closed}
	b := &Pipe{in: ab, out: ba, closed: closed}
	a.peer, b.peer = b, a
	return a, b
}

func (p *Pipe) Send(b []byte) error {
	select {
	case <-p.closed:
		return io.EOF
	default:
	}
	cp := append([]byte{}, b...)
	if p.Tap != nil {
		p.Tap(cp)
	}
	p.mu.Lock()
	silent, filter := p.Silent || p.Detached, p.Filter
	p.mu.Unlock()
	if silent {
		return nil
	}
	msgs, delay := [][]byte{cp}, time.Duration(0)
	if filter != nil {
		msgs, delay = filter(cp)
	}
	put := func() {
		for _, m := range msgs {
			select {
			case p.out <- m:
			case <-p.closed:
			}
		}
	}
	if delay > 0 {
		go func() { time.Sleep(delay); put() }()
	} else {
		put()
	}
	return nil
}

func (p *Pipe) Recv(timeout time.Duration) ([]byte, error) {
	select {
	case b := <-p.in:
		return b, nil
	case <-p.closed:
		return nil, io.EOF
	case <-time.After(timeout):
		return nil, netceptor.ErrTimeout
	}
}

func (p *Pipe) Close() error {
	p.mu.Lock()
	det := p.Detached
	p.mu.Unlock()
	if det {
		return nil
	}
	return p.ForceClose()
}

// SetDetached: see the Detached field.
func (p *Pipe) SetDetached(v bool) { p.mu.Lock(); p.Detached = v; p.mu.Unlock() }

// ForceClose ends the link for both ends, detached or not.
func (p *Pipe) ForceClose() error {
	p.once.Do(func() {
		defer func() { _ = recover() }()
		close(p.closed)
	})
	return nil
}

// SetSilent makes this end swallow (true) or pass (false) what it sends.
func (p *Pipe) SetSilent(v bool) { p.mu.Lock(); p.Silent = v; p.mu.Unlock() }

// SetFilter installs a fault-injection filter on what this end sends.
func (p *Pipe) SetFilter(f func([]byte) ([][]byte, time.Duration)) {
	p.mu.Lock()
	p.Filter = f
	p.mu.Unlock()
}

// Closed reports whether the link has been closed by either side.
func (p *Pipe) Closed() bool {
	select {
	case <-p.closed:
		return true
	default:
		return false
	}
}

// OneShotBackend hands exactly one prepared session to AddBackend.
type OneShotBackend struct{ Sess netceptor.BackendSession }

func (b *OneShotBackend) Start(ctx context.Context, wg *sync.WaitGroup) (chan netceptor.BackendSession, error) {
	ch := make(chan netceptor.BackendSession, 1)
	ch <- b.Sess
	go func() {
		<-ctx.Done()
		_ = b.Sess.Close()
	}()
	return ch, nil
}

// ---------- mesh ----------

// MeshConsts are the protocol constants handed to NewWithConsts.
type MeshConsts struct {
	MTU         int
	RouteUpdate time.Duration
	ServiceAd   time.Duration
	SeenExpire  time.Duration
	MaxHops     byte
	MaxIdle     time.Duration
}

// FastConsts: short periods so that convergence takes tenths of seconds.
func FastConsts() MeshConsts {
	return MeshConsts{MTU: 16384, RouteUpdate: 200 * time.Millisecond, ServiceAd: 300 * time.Millisecond,
		SeenExpire: time.Hour, MaxHops: 30, MaxIdle: time.Hour}
}

type Link struct {
	A, B string
	Cost float64
	EndA *Pipe // the session held by node A
	EndB *Pipe
}

type Mesh struct {
	// NodeCostStyle makes Connect configure link costs through per-node overrides (BackendNodeCost)
	NodeCostStyle bool
	Consts        MeshConsts
	Nodes         map[string]*netceptor.Netceptor
	Cancel        map[string]context.CancelFunc
	Links         []*Link
	mu            sync.Mutex
}

func NewMesh(c MeshConsts) *Mesh {
	return &Mesh{Consts: c, Nodes: map[string]*netceptor.Netceptor{}, Cancel: map[string]context.CancelFunc{}}
}

// AddNode creates and starts a real node.
func (m *Mesh) AddNode(id string) *netceptor.Netceptor {
	ctx, cancel := context.WithCancel(context.Background())
	n := netceptor.NewWithConsts(ctx, id, m.Consts.MTU, m.Consts.RouteUpdate, m.Consts.ServiceAd, m.Consts.SeenExpire,
		m.Consts.MaxHops, m.Consts.MaxIdle)
	m.mu.Lock()
	m.Nodes[id], m.Cancel[id] = n, cancel
	m.mu.Unlock()
	return n
}

// Connect joins two nodes with a link of the given cost (both sides configure the same cost).
func (m *Mesh) Connect(a, b string, cost float64) (*Link, error) {
	return m.ConnectPrepared(a, b, cost, nil)
}

// ConnectPrepared is Connect with a hook that sees the link before either node gets its session (to
// install taps or fault filters that must already act on the very first message).
func (m *Mesh) ConnectPrepared(a, b string, cost float64, prep func(*Link)) (*Link, error) {
	ea, eb := NewPipePair(4096)
	l := &Link{A: a, B: b, Cost: cost, EndA: ea, EndB: eb}
	if prep != nil {
		prep(l)
	}
	modsA := []func(*netceptor.BackendInfo){netceptor.BackendConnectionCost(cost)}
	modsB := []func(*netceptor.BackendInfo){netceptor.BackendConnectionCost(cost)}
	if m.NodeCostStyle {
		// the same effective cost, configured the other way: a backend-wide default that differs on the
		// two sides and a per-node override naming the peer (plus an unrelated entry)
		modsA = []func(*netceptor.BackendInfo){netceptor.BackendConnectionCost(cost + 3),
			netceptor.BackendNodeCost(map[string]float64{b: cost, "someone-else": cost + 5})}
		modsB = []func(*netceptor.BackendInfo){netceptor.BackendConnectionCost(cost + 7),
			netceptor.BackendNodeCost(map[string]float64{a: cost})}
	}
	if err := m.Nodes[a].AddBackend(&OneShotBackend{Sess: ea}, modsA...); err != nil {
		return nil, err
	}
	if err := m.Nodes[b].AddBackend(&OneShotBackend{Sess: eb}, modsB...); err != nil {
		return nil, err
	}
	m.mu.Lock()
	m.Links = append(m.Links, l)
	m.mu.Unlock()
	return l, nil
}

// Cut closes a link (both nodes see their session end).
func (l *Link) Cut() { _ = l.EndA.Close() }

// StopNode shuts a node down (its sessions close).
func (m *Mesh) StopNode(id string) {
	m.mu.Lock()
	n, c := m.Nodes[id], m.Cancel[id]
	delete(m.Nodes, id)
	delete(m.Cancel, id)
	m.mu.Unlock()
	if n != nil {
		n.Shutdown()
		c()
	}
}

// Shutdown stops every node.
func (m *Mesh) Shutdown() {
	m.mu.Lock()
	ids := make([]string, 0, len(m.Nodes))
	for id := range m.Nodes {
		ids = append(ids, id)
	}
	m.mu.Unlock()
	for _, id := range ids {
		m.StopNode(id)
	}
}

// WaitFor polls cond every 10 ms until it holds or the timeout expires.
func WaitFor(timeout time.Duration, cond func() bool) bool {
	deadline := time.Now().Add(timeout)
	for {
		if cond() {
			return true
		}
		if time.Now().After(deadline) {
			return false
		}
		time.Sleep(10 * time.Millisecond)
	}
}

// WaitRoutes waits until every node has a route to every other node of want (node -> reachable set).
func (m *Mesh) WaitRoutes(want map[string][]string, timeout time.Duration) bool {
	return WaitFor(timeout, func() bool {
		for id, dests := range want {
			n := m.Nodes[id]
			if n == nil {
				return false
			}
			rt := n.Status().RoutingTable
			for _, d := range dests {
				if _, ok := rt[d]; !ok {
					return false
				}
			}
		}
		return true
	})
}

// ---------- goroutine quiescence for white-box driving ----------

// Settle waits until the number of goroutines is back to base (or timeout); used after calling
// a hook that spawns short-lived flood goroutines.
func Settle(base int, timeout time.Duration) bool {
	return WaitFor(timeout, func() bool { runtime.Gosched(); return runtime.NumGoroutine() <= base })
}

// StableGoroutines waits until the goroutine count has stopped changing (three equal readings
// 300 microseconds apart) and returns it; used to take a baseline after a node was created and
// after the previous node's goroutines have gone.
func StableGoroutines(timeout time.Duration) int {
	deadline := time.Now().Add(timeout)
	last, same := -1, 0
	for time.Now().Before(deadline) {
		runtime.Gosched()
		n := runtime.NumGoroutine()
		if n == last {
			same++
			if same >= 3 {
				return n
			}
		} else {
			last, same = n, 0
		}
		time.Sleep(300 * time.Microsecond)
	}
	return runtime.NumGoroutine()
}

// WaitGoroutinesAtMost waits until at most n goroutines exist (or the timeout expires).
func WaitGoroutinesAtMost(n int, timeout time.Duration) bool {
	deadline := time.Now().Add(timeout)
	for time.Now().Before(deadline) {
		runtime.Gosched()
		if runtime.NumGoroutine() <= n {
			return true
		}
		time.Sleep(200 * time.Microsecond)
	}
	return false
}

// Drain empties a buffered channel without blocking.
func Drain(ch chan []byte) [][]byte {
	var out [][]byte
	for {
		select {
		case b := <-ch:
			out = append(out, b)
		default:
			return out
		}
	}
}

// DrainFor collects messages from ch until it has been quiet for the given time.
func DrainFor(ch chan []byte, quiet time.Duration) [][]byte {
	var out [][]byte
	for {
		select {
		case b := <-ch:
			out = append(out, b)
		case <-time.After(quiet):
			return out
		}
	}
}

var _ = fmt.Sprintf
