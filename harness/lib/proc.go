package lib

// Process-level harness: run the real receptor binary (built from /repo with -tags verif,
// path in env VERIF_BIN / Ctx.Bin) on a generated YAML configuration, talk to its control
// socket, kill and restart it on the same data directory.

import (
	"bufio"
	"encoding/json"
	"fmt"
	"net"
	"os"
	"os/exec"
	"path/filepath"
	"strings"
	"syscall"
	"time"
)

// Node is one receptor daemon process.
type Node struct {
	Bin     string
	ID      string
	Dir     string // scratch directory of this node: config, logs, socket, data directory
	DataDir string
	Sock    string
	Extra   string   // extra YAML list items (each starting with "- ")
	Env     []string // extra environment (VERIF_CRASH=..., VERIF_STATUS_LOG=...)
	Cmd     *exec.Cmd
	runs    int
	done    chan struct{}
	exitErr error
}

// NewNode prepares (does not start) a node with a unix control socket and a local-only backend.
// extra is appended to the YAML list, e.g. "- work-command:\n    worktype: cat\n    command: cat\n".
func NewNode(bin, id, dir, extra string) *Node {
	_ = os.MkdirAll(dir, 0o755)
	return &Node{Bin: bin, ID: id, Dir: dir, DataDir: filepath.Join(dir, "data"), Sock: filepath.Join(dir, "ctl.sock"), Extra: extra}
}

func (n *Node) ConfigPath() string { return filepath.Join(n.Dir, "receptor.yml") }
func (n *Node) LogPath() string    { return filepath.Join(n.Dir, fmt.Sprintf("log.%d", n.runs)) }

// UnitDir is the directory of a work unit of this node.
func (n *Node) UnitDir(unit string) string { return filepath.Join(n.DataDir, n.ID, unit) }

func (n *Node) writeConfig() error {
	var sb strings.Builder
	sb.WriteString("---\n")
	fmt.Fprintf(&sb, "- node:\n    id: %s\n    datadir: %s\n", n.ID, n.DataDir)
	sb.WriteString("- log-level: debug\n")
	fmt.Fprintf(&sb, "- control-service:\n    service: control\n    filename: %s\n", n.Sock)
	if !strings.Contains(n.Extra, "-listener:") && !strings.Contains(n.Extra, "-peer:") {
		sb.WriteString("- local-only:\n")
	}
	sb.WriteString(n.Extra)
	return os.WriteFile(n.ConfigPath(), []byte(sb.String()), 0o600)
}

// Start launches the daemon and waits until its control socket answers (or it exits).
func (n *Node) Start() error {
	if err := n.writeConfig(); err != nil {
		return err
	}
	_ = os.Remove(n.Sock)
	n.runs++
	logf, err := os.Create(n.LogPath())
	if err != nil {
		return err
	}
	cmd := exec.Command(n.Bin, "--config", n.ConfigPath())
	cmd.Stdout, cmd.Stderr = logf, logf
	cmd.Env = append(os.Environ(), n.Env...)
	cmd.SysProcAttr = &syscall.SysProcAttr{Setpgid: true}
	if err := cmd.Start(); err != nil {
		logf.Close()
		return err
	}
	n.Cmd = cmd
	n.done = make(chan struct{})
	done := n.done
	go func() {
		n.exitErr = cmd.Wait()
		logf.Close()
		close(done)
	}()
	deadline := time.Now().Add(15 * time.Second)
	for time.Now().Before(deadline) {
		select {
		case <-done:
			return fmt.Errorf("receptor exited during start-up: %v (log %s)", n.exitErr, n.LogPath())
		default:
		}
		c, err := net.DialTimeout("unix", n.Sock, 200*time.Millisecond)
		if err == nil {
			c.Close()
			return nil
		}
		time.Sleep(20 * time.Millisecond)
	}
	return fmt.Errorf("control socket %s did not come up", n.Sock)
}

// Alive reports whether the daemon process is still running.
func (n *Node) Alive() bool {
	if n.Cmd == nil || n.done == nil {
		return false
	}
	select {
	case <-n.done:
		return false
	default:
		return true
	}
}

// WaitExit waits for the process to exit; false on timeout.
func (n *Node) WaitExit(d time.Duration) bool {
	if n.done == nil {
		return true
	}
	select {
	case <-n.done:
		return true
	case <-time.After(d):
		return false
	}
}

// ExitState describes how the process ended ("" while alive).
func (n *Node) ExitState() string {
	if n.Alive() || n.Cmd == nil || n.Cmd.ProcessState == nil {
		return ""
	}
	return n.Cmd.ProcessState.String()
}

// Kill sends SIGKILL to the daemon only (its detached command runners survive, as in a real crash).
func (n *Node) Kill() {
	if n.Cmd != nil && n.Cmd.Process != nil {
		_ = n.Cmd.Process.Kill()
		n.WaitExit(5 * time.Second)
	}
}

// Stop terminates the daemon with SIGTERM (SIGKILL after 3 s).
func (n *Node) Stop() {
	if n.Cmd != nil && n.Cmd.Process != nil && n.Alive() {
		_ = n.Cmd.Process.Signal(syscall.SIGTERM)
		if !n.WaitExit(3 * time.Second) {
			n.Kill()
		}
	}
}

// Log returns the log of the current/last run.
func (n *Node) Log() string {
	b, _ := os.ReadFile(n.LogPath())
	return string(b)
}

// KillStrays kills every process whose command line mentions this node's directory
// (detached command runners and their children).  Call at the end of a scenario.
func (n *Node) KillStrays() {
	ents, _ := os.ReadDir("/proc")
	for _, e := range ents {
		pid := 0
		if _, err := fmt.Sscanf(e.Name(), "%d", &pid); err != nil || pid <= 1 || pid == os.Getpid() {
			continue
		}
		b, err := os.ReadFile("/proc/" + e.Name() + "/cmdline")
		if err != nil {
			continue
		}
		if strings.Contains(string(b), n.Dir) {
			_ = syscall.Kill(pid, syscall.SIGKILL)
		}
	}
}

// ---------- control socket client ----------

// Ctl is one control-service session.
type Ctl struct {
	Conn     net.Conn
	R        *bufio.Reader
	Greeting string
}

// DialCtl opens a session on a unix socket path or "tcp:host:port" and reads the greeting line.
func DialCtl(addr string, timeout time.Duration) (*Ctl, error) {
	network := "unix"
	if strings.HasPrefix(addr, "tcp:") {
		network, addr = "tcp", addr[4:]
	}
	c, err := net.DialTimeout(network, addr, timeout)
	if err != nil {
		return nil, err
	}
	ctl := &Ctl{Conn: c, R: bufio.NewReaderSize(c, 1<<16)}
	_ = c.SetReadDeadline(time.Now().Add(timeout))
	g, err := ctl.R.ReadString('\n')
	if err != nil {
		c.Close()
		return nil, fmt.Errorf("no greeting: %w", err)
	}
	ctl.Greeting = strings.TrimRight(g, "\n")
	return ctl, nil
}

func (c *Ctl) Close() { _ = c.Conn.Close() }

// Send writes raw bytes.
func (c *Ctl) Send(b []byte) error {
	_ = c.Conn.SetWriteDeadline(time.Now().Add(10 * time.Second))
	_, err := c.Conn.Write(b)
	return err
}

// ReadLine reads one reply line (without the newline) within the timeout.
func (c *Ctl) ReadLine(timeout time.Duration) (string, error) {
	_ = c.Conn.SetReadDeadline(time.Now().Add(timeout))
	l, err := c.R.ReadString('\n')
	return strings.TrimRight(l, "\n"), err
}

// Cmd sends one command line and returns the reply line.
func (c *Ctl) Cmd(line string, timeout time.Duration) (string, error) {
	if err := c.Send([]byte(line + "\n")); err != nil {
		return "", err
	}
	return c.ReadLine(timeout)
}

// CmdJSON sends a JSON command object and decodes a JSON object reply; a reply starting with
// "ERROR" is returned as err.
func (c *Ctl) CmdJSON(obj map[string]interface{}, timeout time.Duration) (map[string]interface{}, error) {
	b, _ := json.Marshal(obj)
	l, err := c.Cmd(string(b), timeout)
	if err != nil {
		return nil, err
	}
	if strings.HasPrefix(l, "ERROR") {
		return nil, fmt.Errorf("%s", l)
	}
	var out map[string]interface{}
	if err := json.Unmarshal([]byte(l), &out); err != nil {
		return nil, fmt.Errorf("unparsable reply %q: %w", l, err)
	}
	return out, nil
}

// CloseWrite half-closes the connection (end of stdin for work submit).
func (c *Ctl) CloseWrite() error {
	switch cc := c.Conn.(type) {
	case *net.UnixConn:
		return cc.CloseWrite()
	case *net.TCPConn:
		return cc.CloseWrite()
	}
	return fmt.Errorf("cannot half-close")
}

// ReadAll reads until EOF or timeout and returns what arrived (err == nil on EOF).
func (c *Ctl) ReadAll(timeout time.Duration) ([]byte, error) {
	_ = c.Conn.SetReadDeadline(time.Now().Add(timeout))
	var out []byte
	buf := make([]byte, 65536)
	for {
		n, err := c.R.Read(buf)
		out = append(out, buf[:n]...)
		if err != nil {
			if err.Error() == "EOF" {
				return out, nil
			}
			return out, err
		}
	}
}

// Submit runs "work submit" with the given fields (node, worktype, extra params) and stdin
// payload on a fresh session; returns the unit ID and the final reply.
func Submit(addr string, fields map[string]interface{}, stdin []byte, timeout time.Duration) (string, map[string]interface{}, error) {
	c, err := DialCtl(addr, timeout)
	if err != nil {
		return "", nil, err
	}
	defer c.Close()
	obj := map[string]interface{}{"command": "work", "subcommand": "submit"}
	for k, v := range fields {
		obj[k] = v
	}
	if _, ok := obj["node"]; !ok {
		obj["node"] = "localhost"
	}
	b, _ := json.Marshal(obj)
	l, err := c.Cmd(string(b), timeout)
	if err != nil {
		return "", nil, err
	}
	if strings.HasPrefix(l, "ERROR") {
		return "", nil, fmt.Errorf("%s", l)
	}
	// "Work unit created with ID XXXXXXXX. Send stdin data and EOF."
	unit := ""
	if i := strings.Index(l, "with ID "); i >= 0 {
		unit = strings.TrimSuffix(strings.Fields(l[i+8:])[0], ".")
	}
	if err := c.Send(stdin); err != nil {
		return unit, nil, err
	}
	if err := c.CloseWrite(); err != nil {
		return unit, nil, err
	}
	l, err = c.ReadLine(timeout)
	if err != nil {
		return unit, nil, fmt.Errorf("no final reply: %w", err)
	}
	if strings.HasPrefix(l, "ERROR") {
		return unit, nil, fmt.Errorf("%s", l)
	}
	var out map[string]interface{}
	_ = json.Unmarshal([]byte(l), &out)
	return unit, out, nil
}

// OneShot opens a session, sends one JSON command, returns the raw reply line.
func OneShot(addr string, obj map[string]interface{}, timeout time.Duration) (string, error) {
	c, err := DialCtl(addr, timeout)
	if err != nil {
		return "", err
	}
	defer c.Close()
	b, _ := json.Marshal(obj)
	return c.Cmd(string(b), timeout)
}

// WorkStatus returns the status object of one unit.
func WorkStatus(addr, unit string, timeout time.Duration) (map[string]interface{}, error) {
	c, err := DialCtl(addr, timeout)
	if err != nil {
		return nil, err
	}
	defer c.Close()
	return c.CmdJSON(map[string]interface{}{"command": "work", "subcommand": "status", "unitid": unit}, timeout)
}

// WorkList returns unit -> status object.
func WorkList(addr string, timeout time.Duration) (map[string]interface{}, error) {
	c, err := DialCtl(addr, timeout)
	if err != nil {
		return nil, err
	}
	defer c.Close()
	return c.CmdJSON(map[string]interface{}{"command": "work", "subcommand": "list"}, timeout)
}

// WorkResults fetches the output of a unit from startpos until the stream ends or the timeout
// expires; ended tells which.
func WorkResults(addr, unit string, startpos int64, timeout time.Duration) (data []byte, ended bool, err error) {
	c, err := DialCtl(addr, timeout)
	if err != nil {
		return nil, false, err
	}
	defer c.Close()
	b, _ := json.Marshal(map[string]interface{}{"command": "work", "subcommand": "results", "unitid": unit, "startpos": startpos})
	l, err := c.Cmd(string(b), timeout)
	if err != nil {
		return nil, false, err
	}
	if strings.HasPrefix(l, "ERROR") {
		return nil, false, fmt.Errorf("%s", l)
	}
	// first line: "Streaming results for work unit X"
	out, rerr := c.ReadAll(timeout)
	return out, rerr == nil, nil
}

// WaitState polls work status until State is one of want (numbers) or timeout.
func WaitState(addr, unit string, want []int, timeout time.Duration) (map[string]interface{}, error) {
	deadline := time.Now().Add(timeout)
	var last map[string]interface{}
	var err error
	for time.Now().Before(deadline) {
		last, err = WorkStatus(addr, unit, 3*time.Second)
		if err == nil {
			if st, ok := last["State"].(float64); ok {
				for _, w := range want {
					if int(st) == w {
						return last, nil
					}
				}
			}
		}
		time.Sleep(50 * time.Millisecond)
	}
	return last, fmt.Errorf("timeout waiting for state %v (last %v, err %v)", want, last, err)
}
