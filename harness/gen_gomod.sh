#!/bin/sh
# Generate harness/go.mod + go.sum from /repo's current go.mod (its replace directives must be
# repeated here: replace directives of a dependency are ignored).  Nothing is written under /repo.
set -e
cd "$(dirname "$0")"
REPO=${VERIF_REPO:-/repo}
{
  sed 's#^module .*#module verifharness#' "$REPO/go.mod"
  echo
  echo "require github.com/ansible/receptor v0.0.0"
  echo "replace github.com/ansible/receptor => $REPO"
} > go.mod.new
if ! cmp -s go.mod.new go.mod 2>/dev/null; then mv go.mod.new go.mod; else rm go.mod.new; fi
cp "$REPO/go.sum" go.sum
