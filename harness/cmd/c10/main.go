package main

// C10 — hop limit bounds forwarding: reach iff distance <= hops; expiry is reported.
//
// Real meshes of 2-6 nodes (lib mesh, message links, every link tapped).  Routing tables are
// either the converged ones or injected through VerifSetRoutingTable: two- and three-node
// loops through a phantom destination (as in TestHopCountLimit), a loop that hides a real
// node, routes over a missing connection, a forwarder that lacks the name hash, return paths
// that are missing or loop.  For every send the harness records, in order, every data packet
// on every link with its TTL byte, what the listeners read, what the unreachable brokers
// published and the error returned to the caller; Ping and Traceroute results likewise.
// Correspondence: Model/Forward.v send / ping / traceroute evaluated by coqc on the world
// description read from the real nodes.  Model-independent oracle: at most h data packets per
// send with TTL h-1, h-2, ...; at most one notice, of at most maxHops packets, never a notice
// about a notice; on converged tables delivered iff distance <= h, otherwise "message expired"
// from the node h links down the path reaches the sending socket.

import (
	"context"
	"fmt"
	"strings"
	"sync"
	"time"

	. "verifharness/lib"

	"github.com/ansible/receptor/pkg/netceptor"
)

func main() { Main("C10", run, nil) }

type scenario struct {
	name     string
	n        int
	links    [][2]int
	maxHops  byte
	phantoms []string
	ids      []string // node IDs (default n0, n1, ...)
	// setup may inject tables / add name hashes once the mesh has converged; it returns the
	// (src, target) pairs worth probing in addition to the generic ones
	setup func(w *world) [][2]string
	loopy bool // tables are adversarial: the converged-world oracle does not apply
}

func (s *scenario) nodeIDs() []string {
	if s.ids != nil {
		return s.ids
	}
	return names(s.n)
}

func names(n int) []string {
	out := make([]string, n)
	for i := range out {
		out[i] = fmt.Sprintf("n%d", i)
	}
	return out
}

func chain(n int) [][2]int {
	var l [][2]int
	for i := 0; i+1 < n; i++ {
		l = append(l, [2]int{i, i + 1})
	}
	return l
}

// converged tables of a world, as a mutable copy
func tablesOf(w *world) map[string]map[string]string {
	t := map[string]map[string]string{}
	for _, id := range w.nodes {
		t[id] = map[string]string{}
		for k, v := range w.mesh.Nodes[id].Status().RoutingTable {
			t[id][k] = v
		}
	}
	return t
}

func addHash(w *world, name string, at ...string) {
	for _, id := range at {
		w.mesh.Nodes[id].AddNameHash(name)
	}
}

func scenarios(c *Ctx) []*scenario {
	all := func(w *world) []string { return w.nodes }
	ss := []*scenario{
		{name: "chain2", n: 2, links: chain(2), maxHops: 30},
		{name: "chain4", n: 4, links: chain(4), maxHops: 30},
		{name: "chain6-maxhops3", n: 6, links: chain(6), maxHops: 3},
		{name: "tree5", n: 5, links: [][2]int{{0, 1}, {0, 2}, {2, 3}, {2, 4}}, maxHops: 30},
		{name: "ring4", n: 4, links: [][2]int{{0, 1}, {1, 2}, {2, 3}, {3, 0}}, maxHops: 30},
		// node IDs with the separators of address formatting ("node:service", IPv6-looking IDs, paths,
		// user@host, spaces, percent escapes) as origin, transit and destination: what Ping and
		// Traceroute report must be the exact ID
		{name: "chain5-colon-ids", n: 5, links: chain(5), maxHops: 30, ids: []string{"fd00::5", "a:b", ":x", "x:", "::"}},
		{name: "tree5-separator-ids", n: 5, links: [][2]int{{0, 1}, {0, 2}, {2, 3}, {2, 4}}, maxHops: 30,
			ids: []string{"n/0", "u@h", "sp ace", "p%41", "fd00::7"}},
		// TestHopCountLimit: both nodes believe the other one leads to the phantom
		{name: "loop2-phantom", n: 2, links: chain(2), maxHops: 30, phantoms: []string{"ghost"}, loopy: true,
			setup: func(w *world) [][2]string {
				addHash(w, "ghost", all(w)...)
				t := tablesOf(w)
				t["n0"]["ghost"], t["n1"]["ghost"] = "n1", "n0"
				w.inject(t)
				return [][2]string{{"n0", "ghost"}, {"n1", "ghost"}}
			}},
		// the same loop on nodes whose hop limit is the largest a byte holds: budgets 0..255 all expire
		{name: "loop2-phantom-maxhops255", n: 2, links: chain(2), maxHops: 255, phantoms: []string{"ghost"}, loopy: true,
			setup: func(w *world) [][2]string {
				addHash(w, "ghost", all(w)...)
				t := tablesOf(w)
				t["n0"]["ghost"], t["n1"]["ghost"] = "n1", "n0"
				w.inject(t)
				return [][2]string{{"n0", "ghost"}}
			}},
		{name: "loop3-phantom", n: 3, links: [][2]int{{0, 1}, {1, 2}, {2, 0}}, maxHops: 30, phantoms: []string{"ghost"}, loopy: true,
			setup: func(w *world) [][2]string {
				addHash(w, "ghost", all(w)...)
				t := tablesOf(w)
				t["n0"]["ghost"], t["n1"]["ghost"], t["n2"]["ghost"] = "n1", "n2", "n0"
				w.inject(t)
				return [][2]string{{"n0", "ghost"}, {"n2", "ghost"}}
			}},
		// a loop between n1 and n2 hides the real node n3 from n0; maxHops 4 so that a notice
		// can itself run out of budget
		{name: "loop-hides-real-node", n: 4, links: chain(4), maxHops: 4, loopy: true,
			setup: func(w *world) [][2]string {
				t := tablesOf(w)
				t["n2"]["n3"] = "n1"
				w.inject(t)
				return [][2]string{{"n0", "n3"}, {"n1", "n3"}, {"n2", "n3"}, {"n3", "n0"}}
			}},
		// phantom reached over a connection that does not exist; a forwarder without the name
		// hash; a return path that is missing; a return path that loops
		{name: "broken-tables", n: 4, links: chain(4), maxHops: 5, phantoms: []string{"ghost", "spook", "wraith"}, loopy: true,
			setup: func(w *world) [][2]string {
				addHash(w, "ghost", "n0")                    // next hop n3 is not a neighbour of n0
				addHash(w, "spook", "n0", "n1")              // n2 does not know the name
				addHash(w, "wraith", "n0", "n1", "n2", "n3") // chain ends at n3 which has no route
				t := tablesOf(w)
				t["n0"]["ghost"] = "n3"
				t["n0"]["spook"], t["n1"]["spook"], t["n2"]["spook"] = "n1", "n2", "n3"
				t["n0"]["wraith"], t["n1"]["wraith"], t["n2"]["wraith"] = "n1", "n2", "n3"
				delete(t["n2"], "n0")                     // n2 cannot answer n0
				t["n3"]["n0"] = "n2"                      // ... and n3's answers to n0 die at n2 ("no route")
				t["n3"]["n1"], t["n2"]["n1"] = "n2", "n3" // answers to n1 loop between n2 and n3
				w.inject(t)
				return [][2]string{{"n0", "ghost"}, {"n0", "spook"}, {"n0", "wraith"}, {"n1", "wraith"}, {"n0", "n3"}, {"n1", "n3"}, {"n0", "n2"}}
			}},
	}
	if c.Thorough() {
		ss = append(ss,
			&scenario{name: "chain6", n: 6, links: chain(6), maxHops: 30},
			&scenario{name: "star5", n: 5, links: [][2]int{{0, 1}, {0, 2}, {0, 3}, {0, 4}}, maxHops: 30},
			&scenario{name: "chain3-maxhops255", n: 3, links: chain(3), maxHops: 255},
		)
	}
	return ss
}

func budgets(c *Ctx, d int, maxHops byte, sweep bool) []int {
	if c.Thorough() && sweep {
		out := make([]int, 256)
		for i := range out {
			out[i] = i
		}
		return out
	}
	seen := map[int]bool{}
	var out []int
	for _, h := range []int{0, 1, d - 1, d, d + 1, int(maxHops), 30, 255} {
		if h >= 0 && h <= 255 && !seen[h] {
			seen[h] = true
			out = append(out, h)
		}
	}
	return out
}

func errClass(err error) int {
	if err == nil {
		return 0
	}
	switch {
	case strings.Contains(err.Error(), "no route to node"):
		return 1
	case strings.Contains(err.Error(), "no connection to next hop"):
		return 2 // retired by /repo commit 75da92d (silent drop): the model never answers 2
	case strings.Contains(err.Error(), netceptor.ProblemServiceUnknown):
		return 3
	case strings.Contains(err.Error(), "too long"): // service name longer than the 8-byte field: refused
		return 4
	}
	return 9
}

func run(c *Ctx) {
	QuietLogs()
	im := NewImpl("C10", c.Seed, c.Tier)
	im.Rule = "per scenario (converged chains/trees/ring of 2-6 real nodes; injected tables: 2- and 3-node loops through a phantom, loop hiding a real node, route over a missing connection, forwarder without the name hash, missing and looping return paths) every probed (source, target) pair is sent to with budgets {0,1,d-1,d,d+1,maxHops,30,255} (thorough: 0..255) and target services svc (bound), none (unbound), from service src or unreach; Ping with the same budgets and Traceroute per pair; non-trivial = the packet leaves the source node or expires there; distinct by (scenario, source, target, services, budget)"
	cf := &CaseFile{Dir: c.Out, Prop: "C10", Imports: []string{"Model.Forward"}, CaseType: "fwd_case", CheckFn: "fwd_check", PerShard: 8}
	slow := make(chan slowResult, 1)
	go func() { slow <- slowConsumers() }() // beside the scenarios: it mostly waits
	for _, s := range scenarios(c) {
		runScenario(c, im, cf, s)
	}
	sr := <-slow
	for _, v := range sr.violations {
		im.Violate(v, "expiry-not-reported:slow-consumer", sr.detail)
	}
	im.Histogram["slow-consumer:expiries-sent"] += sr.sent
	im.Histogram["slow-consumer:expiries-reported-once"] += sr.reported
	for i := 0; i < sr.sent; i++ {
		im.Count(fmt.Sprintf("slow consumer expiry %d", i), true)
	}
	im.Extra["slow-consumer"] = sr.detail
	observeNonUTF8Service(im)
	Must(cf.Write())
	Must(im.Write(c.Out))
	fmt.Printf("C10: %d evaluations, %d violations, %d coq cases\n", im.Evaluations, len(im.Violations), len(cf.Cases))
}

func runScenario(c *Ctx, im *Impl, cf *CaseFile, s *scenario) {
	r := c.Rng
	w, err := newWorld(s.name, s.nodeIDs(), s.links, s.maxHops, s.phantoms)
	if err != nil { // a bounded wait ran out: once more on a fresh mesh before it counts
		im.Hist("scenario-setup-repeated")
		w, err = newWorld(s.name, s.nodeIDs(), s.links, s.maxHops, s.phantoms)
	}
	if err != nil {
		im.Violate("scenario "+s.name+" (second attempt): "+err.Error(), "mesh-no-convergence", s.name)
		return
	}
	defer w.close()
	var pairs [][2]string
	if s.setup != nil {
		pairs = s.setup(w)
	}
	// thorough: every budget 0..255 for the scenario's own pairs and three generic ones
	// (first->last, last->first, first->second); the other pairs get the boundary budgets
	nSweep := len(pairs) + 3
	pairs = append(pairs, [2]string{w.nodes[0], w.nodes[len(w.nodes)-1]}, [2]string{w.nodes[len(w.nodes)-1], w.nodes[0]}, [2]string{w.nodes[0], w.nodes[1]})
	// generic pairs: from the first and the last node to everybody (incl. itself), plus random ones
	for _, a := range []string{w.nodes[0], w.nodes[len(w.nodes)-1]} {
		for _, b := range w.nodes {
			pairs = append(pairs, [2]string{a, b})
		}
	}
	for k := 0; k < 3; k++ {
		pairs = append(pairs, [2]string{w.nodes[r.Intn(len(w.nodes))], w.nodes[r.Intn(len(w.nodes))]})
	}
	seen := map[[2]string]bool{}
	overwritten := 0
	for pi, p := range pairs {
		if seen[p] || w.isRunaway() {
			continue
		}
		seen[p] = true
		src, dst := p[0], p[1]
		d := w.dist(src, dst)
		dd := d
		if dd < 0 {
			dd = 3
		}
		for _, h := range budgets(c, dd, s.maxHops, pi < nSweep) {
			if w.isRunaway() {
				break
			}
			variants := [][2]string{{"src", "svc"}}
			if h == dd || h == 1 || h == 255 {
				variants = append(variants, [2]string{"src", "none"})
			}
			if (h == dd-1 || h == 0) && (pi < nSweep || pi%4 == 0) {
				variants = append(variants, [2]string{"unreach", "svc"})
			}
			for _, v := range variants {
				for attempt := 0; attempt < 3 && !w.isRunaway(); attempt++ {
					if sendCase(c, im, cf, w, s, src, dst, v[0], v[1], h, d) {
						break
					}
					overwritten++ // a table rebuild replaced the injected tables: put them back, retry
					w.reinject()
				}
			}
			if (!c.Thorough() || h <= int(s.maxHops)+2 || h == 255) && w.timeouts[p] < 1 && !w.isRunaway() {
				pingCase(c, im, cf, w, s, src, dst, h, d)
			}
		}
		if !w.isRunaway() && (w.timeouts[p] == 0 || w.silentTraces < 1) { // unanswered pairs: one traceroute per scenario
			if w.timeouts[p] > 0 {
				w.silentTraces++
			}
			traceCase(c, im, cf, w, s, src, dst, d)
		}
	}
	if s.n >= 2 && !w.isRunaway() {
		first, last := w.nodes[0], w.nodes[len(w.nodes)-1]
		// a service name that does not fit the wire field: refused at the origin, nothing is sent
		sendCase(c, im, cf, w, s, first, last, "src", "svcsvcsvc", 5, w.dist(first, last))
		// a packet that claims to come from the ping service is not answered (else two nodes would
		// answer each other for ever)
		sendCase(c, im, cf, w, s, first, last, "ping", "ping", int(s.maxHops), w.dist(first, last))
		// a node nobody has heard of: no route at the origin, the error comes back from WriteTo/Ping
		sendCase(c, im, cf, w, s, first, "nowhere", "src", "svc", 3, -1)
		pingCase(c, im, cf, w, s, first, "nowhere", 3, -1)
	}
	if s.n >= 2 && !w.isRunaway() { // the alias
		pingCase(c, im, cf, w, s, w.nodes[0], "localhost", 0, 0)
		sendCase(c, im, cf, w, s, w.nodes[0], "LocalHost", "src", "svc", 1, 0)
	}
	w.flush(cf, im)
	im.Extra["scenario:"+s.name] = map[string]interface{}{"nodes": w.nodes, "links": s.links, "maxHops": s.maxHops, "injected_tables": w.injected != nil,
		"table_rebuilds_seen_while_injected": overwritten}
}

// sendCase: one datagram.  Returns false when the injected tables were found replaced.
func sendCase(c *Ctx, im *Impl, cf *CaseFile, w *world, s *scenario, src, dst, fsvc, tsvc string, h, d int) bool {
	if w.injected != nil {
		w.reinject()
	}
	viaSocket := fsvc == "src" // the anchored path: PacketConn.SetHopsToLive + WriteTo on socket src<probe mod 4>
	if viaSocket {
		fsvc = srcName(w.probeNo + 1)
	}
	no := w.begin(true, src, fsvc, dst, tsvc, viaSocket)
	// the payload starts with the probe's number: whatever of an earlier probe is still travelling is
	// recognised by the observers and kept out of this record
	payload := append([]byte{byte(no >> 24), byte(no >> 16), byte(no >> 8), byte(no)}, c.Rng.Bytes(c.Rng.Intn(20))...)
	desc := w.desc(nil)
	n := w.mesh.Nodes[src]
	var err error
	if viaSocket {
		pc := w.socks[src][no%nSrc]
		pc.SetHopsToLive(byte(h))
		if got := pc.GetHopsToLive(); got != byte(h) {
			im.Violate(fmt.Sprintf("SetHopsToLive(%d) then GetHopsToLive() = %d", h, got), "hop-setter", nil)
		}
		_, err = pc.WriteTo(payload, n.NewAddr(dst, tsvc))
	} else {
		err = n.SendMessageWithHopsToLive(fsvc, dst, tsvc, payload, byte(h))
	}
	w.awaitEnd(src, viaSocket, err != nil)
	// On converged tables the property itself says what must still come (the delivery, or the expiry
	// notice at the sending socket): give that a generous time before anything is judged or recorded,
	// so that a slow machine cannot turn a late but correct event into a verdict.
	if !s.loopy && d >= 0 && tsvc == "svc" && err == nil {
		patience := 10 * time.Second
		if w.longWaits >= 3 { // it is established by now that the event does not come
			patience = 300 * time.Millisecond
		}
		got := true
		if d <= h {
			got = w.waitUntil(patience, func() bool { return len(w.dlvs) > 0 })
		} else if viaSocket && h <= int(s.maxHops) {
			got = w.waitUntil(patience, func() bool {
				for _, x := range w.sockNtfs {
					if x.Node == src {
						return true
					}
				}
				return false
			})
		}
		if !got {
			w.longWaits++
		}
	}
	if w.isRunaway() {
		im.Violate(fmt.Sprintf("send %s %s:%s -> %s:%s hops=%d: more than 2000 data packets on the links, forwarding does not stop", s.name, src, fsvc, dst, tsvc, h),
			"hop-bound-exceeded", map[string]interface{}{"scenario": s.name, "src": src, "fsvc": fsvc, "dst": dst, "tsvc": tsvc, "hops": h, "maxHops": s.maxHops})
		return true
	}
	if w.injected != nil && !w.tablesIntact() {
		return false
	}
	w.mu.Lock()
	taps, dlvs, ntfs, sockNtfs, bad := w.taps, w.dlvs, w.ntfs, w.sockNtfs, w.rawBad
	w.taps, w.dlvs, w.ntfs, w.sockNtfs, w.rawBad = nil, nil, nil, nil, nil
	w.mu.Unlock()
	label := fmt.Sprintf("send %s %s:%s -> %s:%s hops=%d", s.name, src, fsvc, dst, tsvc, h)
	replay := map[string]interface{}{"scenario": s.name, "src": src, "fsvc": fsvc, "dst": dst, "tsvc": tsvc, "hops": h, "maxHops": s.maxHops}

	// ----- Coq case -----
	var ts, ds, ns []string
	sy := &dataSyms{}
	for _, t := range taps {
		ts = append(ts, fmt.Sprintf("(%s, %s, %s)", w.S(t.A), w.S(t.B), w.coqPkt(t.P, sy)))
	}
	for _, x := range dlvs {
		ds = append(ds, fmt.Sprintf("(%s, %s)", w.S(x.Node), w.coqPkt(pkt{From: x.From, FSvc: x.FSvc, To: x.Node, TSvc: x.Svc, Data: x.Data}, sy)))
	}
	for _, x := range ntfs {
		ns = append(ns, fmt.Sprintf("(%s, %s, %s)", w.S(x.Node), w.S(x.RecvFrom), sy.D(x.Body)))
	}
	pl := sy.D(payload)
	w.addProbe(cf, desc, fmt.Sprintf("(%sPSend %s %s %s %s %s %d %s %d %s %s)", sy.decl.String(), w.S(src), w.S(fsvc), w.S(dst), w.S(tsvc), pl, h,
		CoqList(ts), errClass(err), CoqList(ds), CoqList(ns)), label)

	// ----- model-independent oracle -----
	var data, notice []tapEv
	for _, t := range taps {
		if t.P.Notice {
			notice = append(notice, t)
		} else {
			data = append(data, t)
		}
	}
	im.Count(label, len(data) > 0 || h == 0)
	im.Hist(fmt.Sprintf("send:forwards=%s", bucket(len(data))))
	if len(bad) > 0 {
		im.Violate("undecodable data packet on a link: "+bad[0], "wire-undecodable", replay)
	}
	if len(data) > h {
		im.Violate(fmt.Sprintf("%s: %d data packets on the links for hop budget %d", label, len(data), h), "hop-bound-exceeded", replay)
	}
	for i, t := range data {
		if int(t.P.Hops) != h-1-i {
			im.Violate(fmt.Sprintf("%s: packet %d on link %s>%s has TTL %d, expected %d", label, i, t.A, t.B, t.P.Hops, h-1-i), "ttl-not-decremented", replay)
			break
		}
		if i > 0 && data[i-1].B != t.A {
			im.Violate(fmt.Sprintf("%s: packet %d leaves %s but the previous one went to %s", label, i, t.A, data[i-1].B), "trace-not-a-path", replay)
			break
		}
	}
	if len(notice) > int(s.maxHops) {
		im.Violate(fmt.Sprintf("%s: the unreachable notice was forwarded %d times, maxHops is %d", label, len(notice), s.maxHops), "notice-bound-exceeded", replay)
	}
	origins := map[string]bool{}
	for _, t := range notice {
		origins[t.P.From] = true
		if t.P.About.FromService == "unreach" && t.P.About.ToService == "unreach" {
			im.Violate(label+": a notice about a notice is on the wire", "notice-about-notice", replay)
		}
	}
	if len(origins) > 1 {
		im.Violate(fmt.Sprintf("%s: notices from %d different nodes for one datagram", label, len(origins)), "several-notices", replay)
	}
	if len(dlvs) > 1 {
		im.Violate(label+": delivered more than once", "delivered-twice", replay)
	}
	for _, x := range dlvs {
		if x.Node != dst && !(strings.EqualFold(dst, "localhost") && x.Node == src) || x.Svc != tsvc || x.From != src || x.FSvc != fsvc {
			im.Violate(fmt.Sprintf("%s: read by %s:%s as coming from %s:%s", label, x.Node, x.Svc, x.From, x.FSvc), "misdelivered", replay)
		}
	}
	if len(notice) > 0 {
		im.Hist("send:notice-on-the-wire")
	}
	if !s.loopy && d >= 0 && tsvc == "svc" { // converged tables: the statement itself
		reach := d <= h
		if reach != (len(dlvs) == 1) {
			im.Violate(fmt.Sprintf("%s: distance %d, budget %d, delivered=%v", label, d, h, len(dlvs) == 1), "reach-iff-distance<=hops", replay)
		}
		if reach {
			im.Hist("send:delivered")
		} else {
			im.Hist("send:expired")
		}
		if !reach && viaSocket {
			// the notice comes back if the expiry node is within maxHops of the source
			expectNotice := h <= int(s.maxHops)
			got := 0
			for _, x := range sockNtfs {
				if x.Node == src && x.Msg.Problem == netceptor.ProblemExpiredInTransit {
					got++
					if w.dist(src, x.RecvFrom) != h || w.dist(x.RecvFrom, dst) != d-h {
						im.Violate(fmt.Sprintf("%s: expiry reported by %s, which is not %d links down the route", label, x.RecvFrom, h), "expiry-reported-by-wrong-node", replay)
					}
				}
			}
			if expectNotice && got != 1 {
				im.Violate(fmt.Sprintf("%s: distance %d > budget %d but the sending socket saw %d 'message expired' notices", label, d, h, got), "expiry-not-reported", replay)
			}
			if !expectNotice && got != 0 {
				im.Violate(fmt.Sprintf("%s: a notice crossed %d links with maxHops %d", label, h, s.maxHops), "notice-bound-exceeded", replay)
			}
			if expectNotice {
				im.Hist("send:expiry-reported-to-socket")
			} else {
				im.Hist("send:notice-ran-out-of-hops")
			}
		}
		if !reach && fsvc == "unreach" && (len(notice) > 0 || len(ntfs) > 0) {
			im.Violate(label+": a packet from service unreach caused a notice when it expired", "notice-about-notice", replay)
		}
	}
	if s.loopy {
		im.Hist("send:adversarial-tables")
	}
	if (len(data) >= 2 && len(notice) > 0) || len(data) > 30 {
		im.Sample(map[string]interface{}{"kind": "send", "case": replay, "links_crossed": len(data), "notice_links": len(notice), "delivered": len(dlvs), "notifications": len(ntfs), "error": fmt.Sprint(err)})
	}
	return true
}

func bucket(n int) string {
	switch {
	case n == 0:
		return "0"
	case n <= 5:
		return fmt.Sprint(n)
	case n <= 30:
		return "6-30"
	default:
		return "31-255"
	}
}

func pingRes(w *world, self string, from string, err error) (string, string) {
	switch {
	case err == nil:
		return fmt.Sprintf("(PReply %s)", w.S(from)), "reply"
	case err.Error() == netceptor.ProblemExpiredInTransit:
		return fmt.Sprintf("(PErr %s 1)", w.S(from)), "expired"
	case err.Error() == netceptor.ProblemServiceUnknown && from != self:
		return fmt.Sprintf("(PErr %s 2)", w.S(from)), "unknown"
	case errClass(err) != 9 && errClass(err) != 0:
		return fmt.Sprintf("(PSendErr %d)", errClass(err)), "senderr"
	case strings.Contains(err.Error(), "user cancelled") || strings.Contains(err.Error(), "timeout"):
		return "PTimeout", "timeout"
	}
	return "(PSendErr 9)", "other:" + err.Error()
}

const eph = "ephemerl"

func pingCase(c *Ctx, im *Impl, cf *CaseFile, w *world, s *scenario, src, dst string, h, d int) {
	if w.injected != nil {
		w.reinject()
	}
	w.begin(false, src, "", dst, "ping", false)
	desc := w.desc(nil)
	from, err := patientPing(context.Background(), w.mesh.Nodes[src], dst, byte(h), im)
	w.settle()
	if w.injected != nil && !w.tablesIntact() {
		w.reinject()
		return
	}
	term, kind := pingRes(w, src, from, err)
	label := fmt.Sprintf("ping %s %s -> %s hops=%d", s.name, src, dst, h)
	w.addProbe(cf, desc, fmt.Sprintf("PPing %s %s %s %d %s", w.S(src), w.S(dst), w.S(eph), h, term), label)
	if kind == "timeout" {
		w.timeouts[[2]string{src, dst}]++
	}
	im.Count(label, true)
	im.Hist("ping:" + kind)
	replay := map[string]interface{}{"scenario": s.name, "src": src, "dst": dst, "hops": h, "ping": true}
	if !s.loopy && d >= 0 && dst != "localhost" {
		switch {
		case d <= h && d <= int(s.maxHops):
			if err != nil || from != dst {
				im.Violate(fmt.Sprintf("%s: distance %d but the ping returns (%q, %v)", label, d, from, err), "ping-reach-iff-distance<=hops", replay)
			}
		case d > h && h <= int(s.maxHops):
			if err == nil || err.Error() != netceptor.ProblemExpiredInTransit || w.dist(src, from) != h {
				im.Violate(fmt.Sprintf("%s: distance %d > budget: expected 'message expired' from the node %d links away, got (%q, %v)", label, d, h, from, err), "ping-expiry-not-reported", replay)
			}
		}
	}
	w.reset()
}

// patientPing: a ping that gets no answer within 250 ms is repeated once with 750 ms; only two silences
// in a row count as "no answer" (a loaded machine can take longer than the first bound).
func patientPing(ctx context.Context, n *netceptor.Netceptor, target string, h byte, im *Impl) (string, error) {
	ctx1, cancel1 := context.WithTimeout(ctx, 250*time.Millisecond)
	_, from, err := n.Ping(ctx1, target, h)
	cancel1()
	if err != nil && (strings.Contains(err.Error(), "user cancelled") || strings.Contains(err.Error(), "timeout")) {
		ctx2, cancel2 := context.WithTimeout(ctx, 750*time.Millisecond)
		_, from2, err2 := n.Ping(ctx2, target, h)
		cancel2()
		if im != nil && (err2 == nil || !(strings.Contains(err2.Error(), "user cancelled") || strings.Contains(err2.Error(), "timeout"))) {
			im.Hist("ping:late-answer-on-second-attempt")
		}
		return from2, err2
	}
	return from, err
}

type recPing struct {
	w    *world
	n    *netceptor.Netceptor
	raw  []string
	kind []string
	self string
}

func (p *recPing) MaxForwardingHops() byte  { return p.n.MaxForwardingHops() }
func (p *recPing) Context() context.Context { return p.n.Context() }
func (p *recPing) Ping(ctx context.Context, target string, hopsToLive byte) (time.Duration, string, error) {
	from, err := patientPing(ctx, p.n, target, hopsToLive, nil)
	d := time.Duration(0)
	t, k := pingRes(p.w, p.self, from, err)
	p.raw = append(p.raw, t)
	p.kind = append(p.kind, k)
	return d, from, err
}

func traceCase(c *Ctx, im *Impl, cf *CaseFile, w *world, s *scenario, src, dst string, d int) {
	if w.injected != nil {
		w.reinject()
	}
	w.begin(false, src, "", dst, "ping", false)
	desc := w.desc(nil)
	rp := &recPing{w: w, n: w.mesh.Nodes[src], self: src}
	var hops []string
	var lastErr error
	tctx, tcancel := context.WithCancel(context.Background())
	runaway := false
	for res := range netceptor.CreateTraceroute(tctx, rp, dst) {
		hops = append(hops, res.From)
		lastErr = res.Err
		if len(hops) > int(s.maxHops)+1 && !runaway {
			// one probe per budget 0..maxHops: a traceroute that goes on after that never ends
			runaway = true
			tcancel()
		}
	}
	tcancel()
	if runaway {
		im.Violate(fmt.Sprintf("traceroute %s %s -> %s: more than %d results (one per hop budget 0..%d): it does not end", s.name, src, dst, int(s.maxHops)+1, s.maxHops),
			"traceroute-never-ends", map[string]interface{}{"scenario": s.name, "src": src, "dst": dst, "maxHops": s.maxHops, "results": len(hops)})
		w.settle()
		return
	}
	w.settle()
	if w.injected != nil && !w.tablesIntact() {
		w.reinject()
		return
	}
	label := fmt.Sprintf("traceroute %s %s -> %s", s.name, src, dst)
	w.addProbe(cf, desc, fmt.Sprintf("PTrace %s %s %s %s", w.S(src), w.S(dst), w.S(eph), CoqList(rp.raw)), label)
	im.Count(label, len(hops) > 1)
	im.Hist(fmt.Sprintf("traceroute:%s-results", bucket(len(hops))))
	replay := map[string]interface{}{"scenario": s.name, "src": src, "dst": dst, "traceroute": hops}
	if !s.loopy && d >= 1 && d <= int(s.maxHops) && (len(hops)+len(src)+len(dst))%2 == 0 { // the method the control service calls (every other pair)
		var hops2 []string
		var lastErr2 error
		ctx, cancel := context.WithTimeout(context.Background(), 3*time.Second)
		for res := range w.mesh.Nodes[src].Traceroute(ctx, dst) {
			hops2 = append(hops2, res.From)
			lastErr2 = res.Err
		}
		cancel()
		w.settle()
		if strings.Join(hops2, ",") != strings.Join(hops, ",") || (lastErr2 == nil) != (lastErr == nil) {
			// its pings wait 10 s, the context 3 s: once more, with time, before it counts
			hops2, lastErr2 = nil, nil
			ctx, cancel := context.WithTimeout(context.Background(), 20*time.Second)
			for res := range w.mesh.Nodes[src].Traceroute(ctx, dst) {
				hops2 = append(hops2, res.From)
				lastErr2 = res.Err
			}
			cancel()
			w.settle()
			im.Hist("traceroute:method-repeated")
		}
		if strings.Join(hops2, ",") != strings.Join(hops, ",") || (lastErr2 == nil) != (lastErr == nil) {
			im.Violate(fmt.Sprintf("%s: Netceptor.Traceroute returns %v (err %v), CreateTraceroute over the same node returned %v (err %v)", label, hops2, lastErr2, hops, lastErr),
				"traceroute-method-differs", replay)
		}
		im.Hist("traceroute:netceptor-method")
	}
	if !s.loopy && d >= 0 && d <= int(s.maxHops) {
		// the nodes of one least-cost path, in order, ending with the target
		ok := len(hops) == d+1 && lastErr == nil
		for i := 0; ok && i < len(hops); i++ {
			ok = w.dist(src, hops[i]) == i && w.dist(hops[i], dst) == d-i
			if i > 0 {
				ok = ok && w.dist(hops[i-1], hops[i]) == 1
			}
		}
		if !ok {
			im.Violate(fmt.Sprintf("%s: result %v (err %v) is not a least-cost path of %d links", label, hops, lastErr, d), "traceroute-not-the-path", replay)
		}
	}
	if len(hops) >= 3 {
		im.Sample(map[string]interface{}{"kind": "traceroute", "case": replay})
	}
	w.reset()
}

// observeNonUTF8Service records (it does not judge: C10 does not quantify over service names)
// what happens to the expiry notice of a sending socket whose service name is not valid UTF-8.
// The notice body is JSON: json.Marshal replaces the invalid bytes by U+FFFD, so the name in the
// notice no longer equals the socket's name and PacketConn.StartUnreachable filters it out.
func observeNonUTF8Service(im *Impl) {
	w, err := newWorld("observe-nonutf8", names(3), chain(3), 30, nil)
	if err != nil {
		return
	}
	defer w.close()
	res := map[string]string{}
	for _, svc := range []string{"plain", "caf\xc3\xa9", "\xff\xfe"} {
		pc, err := w.mesh.Nodes["n0"].ListenPacket(svc)
		if err != nil {
			res[fmt.Sprintf("%q", svc)] = "listen: " + err.Error()
			continue
		}
		done := make(chan struct{})
		ch := pc.SubscribeUnreachable(done)
		pc.SetHopsToLive(1)
		_, _ = pc.WriteTo([]byte("x"), w.mesh.Nodes["n0"].NewAddr("n2", "svc"))
		select {
		case n := <-ch:
			res[fmt.Sprintf("%q", svc)] = fmt.Sprintf("socket notified: %s from %s", n.Problem, n.ReceivedFromNode)
		case <-time.After(400 * time.Millisecond):
			res[fmt.Sprintf("%q", svc)] = "socket NOT notified within 400 ms"
			im.Hist("observation:expiry-notice-lost-for-non-utf8-service-name")
		}
		close(done)
		_ = pc.Close()
	}
	im.Extra["observation:expiry-notice-by-sending-service-name"] = res
}

// ---------- the sender is told, however slowly it listens ----------

type slowResult struct {
	violations     []string
	sent, reported int
	detail         map[string]interface{}
}

// slowConsumers: two sockets on one node of a chain n0 - n1 - n2 send datagrams that expire (budget
// 0: at n0 itself; budget d-1 = 1: at n1) and start to read their unreachable notifications only
// 3.5 s later.  C10: the node where the budget ran out tells the sender — every expiry must reach
// its socket exactly once, with the right reporting node, whatever the pace of the consumer.
func slowConsumers() slowResult {
	res := slowResult{detail: map[string]interface{}{}}
	consts := FastConsts()
	consts.RouteUpdate, consts.ServiceAd = 10*time.Second, time.Hour
	m := NewMesh(consts)
	defer m.Shutdown()
	ids := []string{"s0", "s1", "s2"}
	for _, id := range ids {
		m.AddNode(id)
	}
	if _, err := m.Connect("s0", "s1", 1); err != nil {
		res.detail["inconclusive"] = err.Error()
		return res
	}
	if _, err := m.Connect("s1", "s2", 1); err != nil {
		res.detail["inconclusive"] = err.Error()
		return res
	}
	if !m.WaitRoutes(map[string][]string{"s0": {"s1", "s2"}, "s2": {"s0", "s1"}, "s1": {"s0", "s2"}}, 60*time.Second) {
		res.detail["inconclusive"] = "no convergence"
		return res
	}
	time.Sleep(400 * time.Millisecond)
	if _, err := m.Nodes["s2"].ListenPacket("svc"); err != nil {
		res.detail["inconclusive"] = err.Error()
		return res
	}
	type sock struct {
		name string
		pc   netceptor.PacketConner
		ch   chan netceptor.UnreachableNotification
		done chan struct{}
	}
	var socks []*sock
	for _, name := range []string{"slowA", "slowB"} {
		pc, err := m.Nodes["s0"].ListenPacket(name)
		if err != nil {
			res.detail["inconclusive"] = err.Error()
			return res
		}
		sk := &sock{name: name, pc: pc, done: make(chan struct{})}
		sk.ch = pc.SubscribeUnreachable(sk.done)
		socks = append(socks, sk)
	}
	budgets := []byte{0, 1, 0, 1} // expires at s0, at s1, ...
	want := map[string]int{}      // socket|reporting node -> count
	for _, sk := range socks {
		for i, h := range budgets {
			res.sent++
			if h == 0 {
				want[sk.name+"|s0"]++
			} else {
				want[sk.name+"|s1"]++
			}
			// each send in its own goroutine: with an unread notice pending, WriteTo of a datagram that
			// expires on the node itself waits for the consumer
			go func(sk *sock, i int, h byte) {
				_ = m.Nodes["s0"].SendMessageWithHopsToLive(sk.name, "s2", "svc", []byte{byte(i)}, h)
			}(sk, i, h)
			time.Sleep(30 * time.Millisecond)
		}
	}
	time.Sleep(3500 * time.Millisecond) // the consumers come round to their notifications only now
	got := map[string]int{}
	var mu sync.Mutex
	var wg sync.WaitGroup
	for _, sk := range socks {
		wg.Add(1)
		go func(sk *sock) {
			defer wg.Done()
			idle := time.NewTimer(6 * time.Second)
			for n := 0; n < 2*len(budgets); {
				select {
				case x, ok := <-sk.ch:
					if !ok {
						return
					}
					mu.Lock()
					if x.Problem == netceptor.ProblemExpiredInTransit && x.FromService == sk.name {
						got[sk.name+"|"+x.ReceivedFromNode]++
						n++
					} else {
						got[sk.name+"|other:"+x.Problem]++
					}
					mu.Unlock()
					if !idle.Stop() {
						select {
						case <-idle.C:
						default:
						}
					}
					idle.Reset(6 * time.Second)
					if n == len(budgets) { // all there: a short look for anything reported twice
						idle.Reset(700 * time.Millisecond)
					}
				case <-idle.C:
					return
				}
			}
		}(sk)
	}
	wg.Wait()
	for _, sk := range socks {
		close(sk.done)
		_ = sk.pc.Close()
	}
	for k, w := range want {
		if got[k] == w {
			res.reported += w
		} else {
			res.violations = append(res.violations, fmt.Sprintf("socket|reporting node %s: %d datagrams expired there, the socket's slow consumer (first read 3.5 s later) received %d 'message expired' notifications", k, w, got[k]))
		}
	}
	for k, g := range got {
		if _, ok := want[k]; !ok {
			res.violations = append(res.violations, fmt.Sprintf("slow consumer received %d unexpected notification(s) %s", g, k))
		}
	}
	res.detail["expected"] = want
	res.detail["received"] = got
	return res
}
