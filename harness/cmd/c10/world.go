package main

// Real meshes with taps on every link, a reader on every listener and on every unreachable
// broker; reading the nodes' actual routing tables, connection sets and name tables into the
// world description handed to the model.

import (
	"context"
	"encoding/json"
	"fmt"
	"sort"
	"strings"
	"sync"
	"sync/atomic"
	"time"

	. "verifharness/lib"

	"github.com/ansible/receptor/pkg/netceptor"
	"github.com/minio/highwayhash"
)

var zeroKey = make([]byte, 32)

func hwh(name string) uint64 {
	h, _ := highwayhash.New64(zeroKey)
	_, _ = h.Write([]byte(name))
	return h.Sum64()
}

type pkt struct {
	From, FSvc, To, TSvc string
	Hops                 byte
	Data                 []byte // notices: canonical body
	Notice               bool
	About                netceptor.UnreachableMessage
}

type tapEv struct {
	A, B string
	P    pkt
	Raw  []byte
}

type dlvEv struct {
	Node, Svc, From, FSvc string
	Data                  []byte
}

type ntfEv struct {
	Node, RecvFrom string
	Body           []byte
	Msg            netceptor.UnreachableNotification
}

type world struct {
	name     string
	nodes    []string
	links    [][2]int
	maxHops  byte
	mesh     *Mesh
	observer *netceptor.Netceptor
	obsStop  context.CancelFunc
	universe []string // every name a packet may carry (nodes + phantoms)
	services map[string][]string
	socks    map[string][]netceptor.PacketConner // sending sockets src0..src3 of every node (probe n uses n mod 4)
	sockNtf  map[string]chan netceptor.UnreachableNotification
	injected map[string]map[string]string // tables to keep in place (nil = converged)
	timeouts map[[2]string]int            // pings without any answer, per (source, target)

	mu       sync.Mutex
	taps     []tapEv
	dlvs     []dlvEv
	ntfs     []ntfEv
	sockNtfs []ntfEv // what the sending sockets' own subscriptions saw
	activity int64
	rawBad   []string

	// probes made under one world description, flushed as one Coq case
	grpDesc      string
	grpProbes    []string
	grpLabels    []string
	records      []probeRec      // every probe of the scenario, committed at its end
	truncated    map[uint32]bool // probes of which something arrived after their observation window
	cur          curProbe
	probeNo      uint32
	silentTraces int
	longWaits    int  // expected events that did not come within the generous wait
	runaway      bool // far more packets than any budget allows: forwarding does not stop
}

// Attribution.  Every probe has a number.  A send probe's payload starts with that number and its
// sending socket is src<number mod 4>, so every packet, delivery and notice that the observers
// see can be attributed: what belongs to an EARLIER probe (its observation window was closed
// too early: a loaded machine can stall a chain for longer than any silence we wait for) is
// kept out of the current record and marks that earlier probe as truncated.  Records are
// committed at the end of the scenario, without the truncated ones.
const nSrc = 4

type curProbe struct {
	no         uint32
	send       bool // a send probe (taps, deliveries and notices are recorded); otherwise ping/traceroute
	src, fsvc  string
	to, tsvc   string
	viaSocket  bool
	payloadTag [4]byte
}

type probeRec struct {
	no                 uint32
	desc, probe, label string
}

func srcName(no uint32) string { return fmt.Sprintf("src%d", no%nSrc) }

// begin starts a probe (nothing of it is in flight yet).
func (w *world) begin(send bool, src, fsvc, to, tsvc string, viaSocket bool) uint32 {
	w.mu.Lock()
	defer w.mu.Unlock()
	w.probeNo++
	n := w.probeNo
	w.cur = curProbe{no: n, send: send, src: src, fsvc: fsvc, to: to, tsvc: tsvc, viaSocket: viaSocket,
		payloadTag: [4]byte{byte(n >> 24), byte(n >> 16), byte(n >> 8), byte(n)}}
	w.taps, w.dlvs, w.ntfs, w.sockNtfs = nil, nil, nil, nil
	return n
}

// ownData: does a data payload belong to the current send probe?  (call with w.mu held)
func (w *world) ownData(data []byte) bool {
	if len(data) < 4 {
		return false // ping traffic and the like
	}
	tag := uint32(data[0])<<24 | uint32(data[1])<<16 | uint32(data[2])<<8 | uint32(data[3])
	if w.cur.send && tag == w.cur.no {
		return true
	}
	if tag < w.probeNo+1 && tag > 0 && tag != w.cur.no {
		w.truncated[tag] = true
	}
	return false
}

// ownNotice: is a notice about the current send probe's datagram?  (call with w.mu held)
func (w *world) ownNotice(m netceptor.UnreachableMessage) bool {
	if w.cur.send && m.FromNode == w.cur.src && m.FromService == w.cur.fsvc && m.ToService == w.cur.tsvc {
		return true
	}
	if strings.HasPrefix(m.FromService, "src") && len(m.FromService) == 4 { // an earlier send probe's socket
		k := uint32(m.FromService[3] - '0')
		for n := w.cur.no - 1; n > 0 && n+2*nSrc > w.cur.no; n-- { // the most recent one that used it
			if n%nSrc == k {
				w.truncated[n] = true
				break
			}
		}
	}
	return false
}

func (w *world) addProbe(cf *CaseFile, desc, probe, label string) {
	w.records = append(w.records, probeRec{w.cur.no, desc, probe, label})
}

// flush commits the scenario's records, except those of probes that turned out truncated.
func (w *world) flush(cf *CaseFile, im *Impl) {
	w.begin(false, "", "", "", "", false) // whatever still arrives is attributed, not recorded
	w.quiet(250 * time.Millisecond)
	w.mu.Lock()
	trunc := w.truncated
	w.mu.Unlock()
	for _, r := range w.records {
		if trunc[r.no] {
			im.Hist("discarded:something-of-the-probe-arrived-after-its-observation-window")
			continue
		}
		if r.desc != w.grpDesc || len(w.grpProbes) >= 12 {
			w.flushGroup(cf)
		}
		w.grpDesc = r.desc
		w.grpProbes = append(w.grpProbes, r.probe)
		w.grpLabels = append(w.grpLabels, r.label)
	}
	w.records = nil
	w.flushGroup(cf)
}

func (w *world) flushGroup(cf *CaseFile) {
	if len(w.grpProbes) > 0 {
		cf.Add(fmt.Sprintf("(CGroup %s %s)", w.grpDesc, CoqList(w.grpProbes)), w.name+": "+strings.Join(w.grpLabels, " | "))
	}
	w.grpDesc, w.grpProbes, w.grpLabels = "", nil, nil
}

func problemCode(p string) byte {
	switch p {
	case netceptor.ProblemExpiredInTransit:
		return 1
	case netceptor.ProblemServiceUnknown:
		return 2
	case netceptor.ProblemRejected:
		return 3
	}
	return 9
}

func lp(s string) []byte { return append([]byte{byte(len(s))}, s...) }

func noticeBody(m netceptor.UnreachableMessage) []byte {
	b := []byte{problemCode(m.Problem)}
	b = append(b, lp(m.FromNode)...)
	b = append(b, lp(m.FromService)...)
	b = append(b, lp(m.ToNode)...)
	b = append(b, lp(m.ToService)...)
	return b
}

func (w *world) tap(a, b string) func([]byte) {
	return func(raw []byte) {
		if len(raw) == 0 || raw[0] != netceptor.MsgTypeData {
			return
		}
		md, err := w.observer.VerifTranslateDataToMessage(raw)
		w.mu.Lock()
		defer w.mu.Unlock()
		atomic.AddInt64(&w.activity, 1)
		if err != nil {
			w.rawBad = append(w.rawBad, fmt.Sprintf("%s>%s %x: %v", a, b, raw[:min(len(raw), 48)], err))
			return
		}
		p := pkt{From: md.FromNode, FSvc: md.FromService, To: md.ToNode, TSvc: md.ToService, Hops: md.HopsToLive, Data: append([]byte{}, md.Data...)}
		if md.FromService == "unreach" && md.ToService == "unreach" {
			var um netceptor.UnreachableMessage
			if json.Unmarshal(md.Data, &um) == nil {
				p.Data, p.Notice, p.About = noticeBody(um), true, um
			}
		}
		if p.Notice {
			if !w.ownNotice(p.About) {
				return
			}
		} else if !w.ownData(md.Data) {
			return
		}
		if len(w.taps) > 2000 {
			w.runaway = true
			return
		}
		w.taps = append(w.taps, tapEv{a, b, p, raw})
	}
}

func (w *world) isRunaway() bool {
	w.mu.Lock()
	defer w.mu.Unlock()
	return w.runaway
}

// newWorld builds a real mesh (message links, every link tapped), waits for convergence, binds
// the listeners and starts the observers.
func newWorld(name string, nodes []string, links [][2]int, maxHops byte, phantoms []string) (*world, error) {
	consts := FastConsts()
	consts.MaxHops = maxHops
	consts.RouteUpdate = 10 * time.Second // keep periodic floods rare once converged
	consts.ServiceAd = time.Hour
	w := &world{name: name, nodes: nodes, links: links, maxHops: maxHops, mesh: NewMesh(consts),
		timeouts: map[[2]string]int{}, services: map[string][]string{}, socks: map[string][]netceptor.PacketConner{}, truncated: map[uint32]bool{}, sockNtf: map[string]chan netceptor.UnreachableNotification{}}
	octx, ocancel := context.WithCancel(context.Background())
	w.obsStop = ocancel
	w.observer = netceptor.NewWithConsts(octx, "observer", 16384, time.Hour, time.Hour, time.Hour, 30, time.Hour)
	w.universe = append(append([]string{}, nodes...), phantoms...)
	for _, n := range w.universe {
		w.observer.AddNameHash(n)
	}
	for _, id := range nodes {
		w.mesh.AddNode(id)
	}
	for _, l := range links {
		a, b := nodes[l[0]], nodes[l[1]]
		ea, eb := NewPipePair(4096)
		ea.Tap, eb.Tap = w.tap(a, b), w.tap(b, a)
		if err := w.mesh.Nodes[a].AddBackend(&OneShotBackend{Sess: ea}, netceptor.BackendConnectionCost(1.0)); err != nil {
			return nil, err
		}
		if err := w.mesh.Nodes[b].AddBackend(&OneShotBackend{Sess: eb}, netceptor.BackendConnectionCost(1.0)); err != nil {
			return nil, err
		}
	}
	want := map[string][]string{}
	for _, a := range nodes {
		for _, b := range w.component(a) {
			if a != b {
				want[a] = append(want[a], b)
			}
		}
	}
	if !w.mesh.WaitRoutes(want, 60*time.Second) {
		return nil, fmt.Errorf("mesh %s did not converge", name)
	}
	// every node must also have heard of every other node (name hashes) before tables are frozen
	WaitFor(30*time.Second, func() bool {
		for _, a := range nodes {
			for _, b := range w.component(a) {
				if got, err := w.mesh.Nodes[a].GetNameFromHash(hwh(b)); err != nil || got != b {
					return false
				}
			}
		}
		return true
	})
	time.Sleep(350 * time.Millisecond) // let the last routing-table rebuild (100 ms debounce) finish
	for _, id := range nodes {
		n := w.mesh.Nodes[id]
		for _, svc := range []string{"src0", "src1", "src2", "src3", "svc"} {
			pc, err := n.ListenPacket(svc)
			if err != nil {
				return nil, err
			}
			w.services[id] = append(w.services[id], svc)
			if strings.HasPrefix(svc, "src") {
				w.socks[id] = append(w.socks[id], pc)
				done := make(chan struct{})
				ch := pc.SubscribeUnreachable(done)
				go func(id string) {
					for m := range ch {
						w.mu.Lock()
						atomic.AddInt64(&w.activity, 1)
						if w.ownNotice(m.UnreachableMessage) {
							w.sockNtfs = append(w.sockNtfs, ntfEv{id, m.ReceivedFromNode, noticeBody(m.UnreachableMessage), m})
						}
						w.mu.Unlock()
					}
				}(id)
			}
			go func(id, svc string, pc netceptor.PacketConner) {
				buf := make([]byte, 20000)
				for {
					k, addr, err := pc.ReadFrom(buf)
					if err != nil {
						return
					}
					s := addr.String()
					i := strings.LastIndex(s, ":")
					w.mu.Lock()
					atomic.AddInt64(&w.activity, 1)
					if w.ownData(buf[:k]) {
						w.dlvs = append(w.dlvs, dlvEv{id, svc, s[:i], s[i+1:], append([]byte{}, buf[:k]...)})
					}
					w.mu.Unlock()
				}
			}(id, svc, pc)
		}
		bch := n.GetUnreachableBroker().Subscribe()
		go func(id string) {
			for x := range bch {
				if m, ok := x.(netceptor.UnreachableNotification); ok {
					w.mu.Lock()
					atomic.AddInt64(&w.activity, 1)
					if w.ownNotice(m.UnreachableMessage) {
						w.ntfs = append(w.ntfs, ntfEv{id, m.ReceivedFromNode, noticeBody(m.UnreachableMessage), m})
					}
					w.mu.Unlock()
				}
			}
		}(id)
	}
	return w, nil
}

func (w *world) close() {
	w.mesh.Shutdown()
	w.observer.Shutdown()
	w.obsStop()
}

// component: nodes connected to a by links.
func (w *world) component(a string) []string {
	idx := map[string]int{}
	for i, n := range w.nodes {
		idx[n] = i
	}
	seen := map[int]bool{idx[a]: true}
	q := []int{idx[a]}
	for len(q) > 0 {
		x := q[0]
		q = q[1:]
		for _, l := range w.links {
			for _, pr := range [][2]int{{l[0], l[1]}, {l[1], l[0]}} {
				if pr[0] == x && !seen[pr[1]] {
					seen[pr[1]] = true
					q = append(q, pr[1])
				}
			}
		}
	}
	var out []string
	for i := range w.nodes {
		if seen[i] {
			out = append(out, w.nodes[i])
		}
	}
	return out
}

// dist: link distance in the topology (-1 = unreachable).
func (w *world) dist(a, b string) int {
	idx := map[string]int{}
	for i, n := range w.nodes {
		idx[n] = i
	}
	if _, ok := idx[b]; !ok {
		return -1
	}
	d := map[int]int{idx[a]: 0}
	q := []int{idx[a]}
	for len(q) > 0 {
		x := q[0]
		q = q[1:]
		for _, l := range w.links {
			for _, pr := range [][2]int{{l[0], l[1]}, {l[1], l[0]}} {
				if pr[0] == x {
					if _, ok := d[pr[1]]; !ok {
						d[pr[1]] = d[x] + 1
						q = append(q, pr[1])
					}
				}
			}
		}
	}
	if v, ok := d[idx[b]]; ok {
		return v
	}
	return -1
}

// inject replaces the routing tables (and remembers them, to detect a rebuild).
func (w *world) inject(tables map[string]map[string]string) {
	w.injected = tables
	w.reinject()
}

func (w *world) reinject() {
	for id, t := range w.injected {
		w.mesh.Nodes[id].VerifSetRoutingTable(t)
	}
}

// tablesIntact: the injected tables are still what the nodes use.
func (w *world) tablesIntact() bool {
	for id, t := range w.injected {
		rt := w.mesh.Nodes[id].Status().RoutingTable
		if len(rt) != len(t) {
			return false
		}
		for k, v := range t {
			if rt[k] != v {
				return false
			}
		}
	}
	return true
}

// quiet waits until taps, listeners and brokers have shown no activity for d.
func (w *world) quiet(d time.Duration) {
	last := atomic.LoadInt64(&w.activity)
	since, start := time.Now(), time.Now()
	for time.Since(since) < d && time.Since(start) < 3*time.Second && !w.isRunaway() {
		time.Sleep(200 * time.Microsecond)
		if now := atomic.LoadInt64(&w.activity); now != last {
			last, since = now, time.Now()
		}
	}
}

func (w *world) settle() { w.quiet(2 * time.Millisecond) }

// awaitEnd waits for the end of the causal chain started by one send from src.  The chain ends
// visibly when a listener reads the datagram, or when a notice reaches the origin's broker
// (and, for a send through the socket "src", that socket's own subscription).  Otherwise
// (dropped, expired silently, notice lost) only a long silence tells: short silences are not
// trusted, a loaded machine produces gaps of tens of milliseconds in the middle of a chain.
func (w *world) awaitEnd(src string, viaSocket bool, syncErr bool) {
	if syncErr {
		w.quiet(time.Millisecond)
		return
	}
	last := atomic.LoadInt64(&w.activity)
	since, start := time.Now(), time.Now()
	for time.Since(since) < 120*time.Millisecond && time.Since(start) < 4*time.Second && !w.isRunaway() {
		w.mu.Lock()
		done := len(w.dlvs) > 0
		atBroker, atSocket := false, false
		for _, x := range w.ntfs {
			if x.Node == src {
				atBroker = true
			}
		}
		for _, x := range w.sockNtfs {
			if x.Node == src {
				atSocket = true
			}
		}
		w.mu.Unlock()
		if done || (atBroker && (!viaSocket || atSocket)) {
			w.quiet(time.Millisecond)
			return
		}
		time.Sleep(200 * time.Microsecond)
		if now := atomic.LoadInt64(&w.activity); now != last {
			last, since = now, time.Now()
		}
	}
}

// waitUntil polls cond (evaluated under the lock) until it holds or the time is up.
func (w *world) waitUntil(d time.Duration, cond func() bool) bool {
	deadline := time.Now().Add(d)
	for {
		w.mu.Lock()
		ok := cond()
		w.mu.Unlock()
		if ok || time.Now().After(deadline) || w.isRunaway() {
			if ok {
				w.quiet(time.Millisecond)
			}
			return ok
		}
		time.Sleep(200 * time.Microsecond)
	}
}

func (w *world) reset() {
	w.mu.Lock()
	w.taps, w.dlvs, w.ntfs, w.sockNtfs = nil, nil, nil, nil
	w.mu.Unlock()
}

// ---------- Coq terms ----------

func sortedKeys(m map[string]string) []string {
	ks := make([]string, 0, len(m))
	for k := range m {
		ks = append(ks, k)
	}
	sort.Strings(ks)
	return ks
}

// desc reads the world description from the real nodes.
func (w *world) desc(extraListener map[string]string) string {
	var routes, conns, knows, listen []string
	for _, id := range w.nodes {
		n := w.mesh.Nodes[id]
		rt := n.Status().RoutingTable
		var es []string
		for _, k := range sortedKeys(rt) {
			es = append(es, fmt.Sprintf("(%s, %s)", w.S(k), w.S(rt[k])))
		}
		routes = append(routes, fmt.Sprintf("(%s, %s)", w.S(id), CoqList(es)))
		cs := n.VerifConnectionIDs()
		sort.Strings(cs)
		conns = append(conns, fmt.Sprintf("(%s, %s)", w.S(id), w.SList(cs)))
		var ks []string
		for _, u := range w.universe {
			if got, err := n.GetNameFromHash(hwh(u)); err == nil && got == u {
				ks = append(ks, u)
			}
		}
		knows = append(knows, fmt.Sprintf("(%s, %s)", w.S(id), w.SList(ks)))
		svcs := append([]string{}, w.services[id]...)
		if s, ok := extraListener[id]; ok {
			svcs = append(svcs, s)
		}
		listen = append(listen, fmt.Sprintf("(%s, %s)", w.S(id), w.SList(svcs)))
	}
	return fmt.Sprintf("(Build_world_desc %s %s %s %s %d)", CoqList(routes), CoqList(conns), CoqList(knows), CoqList(listen), w.maxHops)
}

// S prints a name (sharing names through let-bound variables was tried: coqc elaborates terms under
// local definitions several times slower than the literals).
func (w *world) S(name string) string {
	return HxS(name)
}

func (w *world) SList(xs []string) string {
	ys := make([]string, len(xs))
	for i, x := range xs {
		ys[i] = w.S(x)
	}
	return CoqList(ys)
}

// dataSyms prints payloads.
type dataSyms struct{ decl strings.Builder }

func (d *dataSyms) D(b []byte) string {
	if len(b) == 0 {
		return "[]"
	}
	return Hx(b)
}

func (w *world) coqPkt(p pkt, d *dataSyms) string {
	return fmt.Sprintf("(Build_msg %s %s %s %s %d %s)", w.S(p.From), w.S(p.FSvc), w.S(p.To), w.S(p.TSvc), p.Hops, d.D(p.Data))
}
