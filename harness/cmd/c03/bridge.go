package main

import (
	"bytes"
	"errors"
	"fmt"
	"io"
	"strings"
	"sync"
	"time"

	. "verifharness/lib"

	"github.com/ansible/receptor/pkg/logger"
	"github.com/ansible/receptor/pkg/utils"
)

type rdRes struct {
	data []byte
	stat string // "ok" | "eof" | "closed" | "err"
}
type wRes string // "ok" | "short" | "err"

type callRec struct {
	write bool
	data  []byte
}

// scriptConn plays a fixed sequence of Read results and Write results and records what is done
// to it.  Reads and writes are independent (as the two directions of a connection are).
type scriptConn struct {
	mu     sync.Mutex
	reads  []rdRes
	ri     int
	writes []wRes
	wi     int
	calls  []callRec
	over   chan struct{} // closed when the read script is exhausted without an error (never in generated scripts)
}

func (s *scriptConn) Read(p []byte) (int, error) {
	s.mu.Lock()
	if s.ri >= len(s.reads) {
		s.mu.Unlock()
		return 0, io.EOF
	}
	r := s.reads[s.ri]
	s.ri++
	s.mu.Unlock()
	n := copy(p, r.data)
	switch r.stat {
	case "eof":
		return n, io.EOF
	case "closed":
		return n, errors.New("read tcp 127.0.0.1:1->127.0.0.1:2: use of closed network connection")
	case "err":
		return n, errors.New("connection reset by peer")
	}
	return n, nil
}

func (s *scriptConn) Write(p []byte) (int, error) {
	s.mu.Lock()
	defer s.mu.Unlock()
	s.calls = append(s.calls, callRec{true, append([]byte{}, p...)})
	w := wRes("ok")
	if s.wi < len(s.writes) {
		w = s.writes[s.wi]
	}
	s.wi++
	switch w {
	case "short":
		return len(p) / 2, nil
	case "err":
		return 0, errors.New("broken pipe")
	}
	return len(p), nil
}

func (s *scriptConn) Close() error {
	s.mu.Lock()
	defer s.mu.Unlock()
	s.calls = append(s.calls, callRec{false, nil})
	return nil
}

func genReads(r *Rng, big bool) []rdRes {
	n := r.Intn(13)
	var out []rdRes
	for i := 0; i < n; i++ {
		var sz int
		switch x := r.Intn(100); {
		case x < 12:
			sz = 0
		case x < 70:
			sz = 1 + r.Intn(64)
		case x < 95:
			sz = 65 + r.Intn(1936)
		default:
			sz = 1 + r.Intn(8)
			if big {
				sz = utils.NormalBufferSize // a full buffer
			}
		}
		st := "ok"
		if r.Chance(7) {
			st = []string{"eof", "closed", "err"}[r.Intn(3)]
		}
		out = append(out, rdRes{r.Bytes(sz), st})
	}
	// the script always ends with an error so that the relay ends
	last := rdRes{nil, []string{"eof", "eof", "eof", "closed", "err"}[r.Intn(5)]}
	if r.Chance(30) {
		last.data = r.Bytes(1 + r.Intn(40))
	}
	return append(out, last)
}

func genWrites(r *Rng) []wRes {
	if r.Chance(70) {
		return nil
	}
	n := r.Intn(8)
	out := make([]wRes, n)
	for i := range out {
		out[i] = "ok"
	}
	out = append(out, []wRes{"short", "err"}[r.Intn(2)])
	return out
}

func coqReads(rs []rdRes) string {
	var xs []string
	for _, r := range rs {
		st := map[string]string{"ok": "ROk", "eof": "REof", "closed": "RErr", "err": "RErr"}[r.stat]
		xs = append(xs, fmt.Sprintf("mkrd %s %s", Hx(r.data), st))
	}
	return CoqList(xs)
}
func coqWrites(ws []wRes) string {
	var xs []string
	for _, w := range ws {
		xs = append(xs, map[wRes]string{"ok": "WOk", "short": "WShort", "err": "WErr"}[w])
	}
	return CoqList(xs)
}
func coqCalls(cs []callRec) string {
	var xs []string
	for _, c := range cs {
		if c.write {
			xs = append(xs, "CWrite "+Hx(c.data))
		} else {
			xs = append(xs, "CClose")
		}
	}
	return CoqList(xs)
}

func describe(rs []rdRes, ws []wRes) string {
	var sb strings.Builder
	for _, r := range rs {
		fmt.Fprintf(&sb, "%d%s ", len(r.data), map[string]string{"ok": "", "eof": "+EOF", "closed": "+closed", "err": "+err"}[r.stat])
	}
	if len(ws) > 0 {
		fmt.Fprintf(&sb, "| writes %v", ws)
	}
	return sb.String()
}

// oracleHalf judges one direction by the property text alone.
func oracleHalf(im *Impl, rs []rdRes, ws []wRes, calls []callRec, label string) bool {
	// the stream that was read: bytes up to and including the first error
	var stream []byte
	ended := false
	for _, r := range rs {
		stream = append(stream, r.data...)
		if r.stat != "ok" {
			ended = true
			break
		}
	}
	var written []byte
	closes, closeLast := 0, false
	for i, c := range calls {
		if c.write {
			written = append(written, c.data...)
		} else {
			closes++
			closeLast = i == len(calls)-1
		}
	}
	failing := false
	for _, w := range ws {
		if w != "ok" {
			failing = true
		}
	}
	ok := true
	if !bytes.HasPrefix(stream, written) {
		im.Violate("relay wrote bytes that are not a prefix of the bytes read: "+label, "bridge-bytes-differ", label)
		ok = false
	}
	if !failing && !bytes.Equal(stream, written) {
		im.Violate(fmt.Sprintf("relay wrote %d of the %d bytes read before the end of the stream although every write succeeded: %s", len(written), len(stream), label), "bridge-bytes-missing", label)
		ok = false
	}
	if (ended || failing) && (closes != 1 || !closeLast) {
		im.Violate(fmt.Sprintf("relay closed the far side %d time(s) (last call is Close: %v), want exactly once, at the end: %s", closes, closeLast, label), "bridge-close-count", label)
		ok = false
	}
	return ok
}

func bridgeCases(c *Ctx, im *Impl, cf *CaseFile) {
	r := c.Rng
	lg := logger.NewReceptorLogger("")
	n := 220
	if c.Thorough() {
		n = 2500
	}
	type pair struct{ a, b *scriptConn }
	var fixed []pair
	mk := func(ra []rdRes, wa []wRes, rb []rdRes, wb []wRes) pair {
		return pair{&scriptConn{reads: ra, writes: wa}, &scriptConn{reads: rb, writes: wb}}
	}
	eof := rdRes{nil, "eof"}
	// boundary cases first
	fixed = append(fixed,
		mk([]rdRes{eof}, nil, []rdRes{eof}, nil),
		mk([]rdRes{{[]byte("x"), "eof"}}, nil, []rdRes{{nil, "err"}}, nil),
		mk([]rdRes{{nil, "ok"}, {nil, "ok"}, {[]byte("ab"), "ok"}, eof}, nil, []rdRes{{[]byte("cd"), "closed"}, {[]byte("never"), "ok"}, eof}, nil),
		mk([]rdRes{{[]byte("ab"), "ok"}, {[]byte("cd"), "ok"}, {[]byte("ef"), "ok"}, eof}, []wRes{"ok", "short"}, []rdRes{{[]byte("12"), "ok"}, {[]byte("34"), "ok"}, eof}, []wRes{"err"}),
		mk([]rdRes{{bytes.Repeat([]byte{7}, utils.NormalBufferSize), "ok"}, {[]byte{8}, "eof"}}, nil, []rdRes{eof}, nil),
	)
	run := func(p pair, idx int) {
		done := make(chan struct{})
		go func() {
			utils.BridgeConns(p.a, "a", p.b, "b", lg)
			close(done)
		}()
		select {
		case <-done:
		case <-time.After(10 * time.Second):
			im.Violate("BridgeConns did not return although both scripts end with an error: "+describe(p.a.reads, p.b.writes), "bridge-stuck", nil)
			return
		}
		// direction a -> b: reads of a, write results of b, calls on b; and the reverse
		for d, x := range [][2]*scriptConn{{p.a, p.b}, {p.b, p.a}} {
			from, to := x[0], x[1]
			label := fmt.Sprintf("bridge #%d dir %d: reads %s", idx, d, describe(from.reads, to.writes))
			cf.Add(fmt.Sprintf("CHalf %s %s %s", coqReads(from.reads), coqWrites(to.writes), coqCalls(to.calls)), label)
			oracleHalf(im, from.reads, to.writes, to.calls, label)
			nontrivial := false
			for i, rr := range from.reads {
				if rr.stat != "ok" && (i < len(from.reads)-1 || len(rr.data) > 0) {
					nontrivial = true
				}
			}
			if len(to.writes) > 0 {
				nontrivial = true
			}
			im.Count("bridge|"+describe(from.reads, to.writes)+fmt.Sprint(idx), nontrivial)
			im.Hist(fmt.Sprintf("bridge:reads=%d", len(from.reads)))
			if idx < 3 {
				im.Sample(label)
			}
		}
	}
	for i, p := range fixed {
		run(p, i)
	}
	for i := 0; i < n; i++ {
		big := i%40 == 7
		run(mk(genReads(r, big), genWrites(r), genReads(r, false), genWrites(r)), len(fixed)+i)
	}
}
