package main

import (
	"bytes"
	"context"
	"errors"
	"fmt"
	"io"
	"net"
	"sync"
	"time"

	. "verifharness/lib"
)

// A stream that lives longer than every timer receptor arms around a connection (the 60 s accept
// context of Listener.acceptLoop, the 15 s handshake timeout, the 30 s idle timeout bridged by
// keep-alives): some data in both directions, more than a minute of silence with a Read pending
// on both ends, more data, half-close.  Oracle: each end reads exactly the other end's bytes, in
// order, then end-of-stream; no error at any time.  It runs beside the rest of the harness (own
// mesh, own PRNG stream) and is joined at the end.

type longResult struct {
	violations []OracleViolation
	cases      []caseRec
	wall       time.Duration
	label      string
	done       bool
}
type caseRec struct{ term, label string }

type sideLog struct {
	mu     sync.Mutex
	chunks [][]byte
	at     []time.Duration
	n      int
	eof    bool
	err    error
	end    chan struct{}
}

func (s *sideLog) run(rd io.Reader, t0 time.Time) {
	buf := make([]byte, 4096)
	for {
		n, err := rd.Read(buf)
		s.mu.Lock()
		if n > 0 {
			s.chunks = append(s.chunks, append([]byte{}, buf[:n]...))
			s.at = append(s.at, time.Since(t0))
			s.n += n
		}
		if err != nil {
			if errors.Is(err, io.EOF) {
				s.eof = true
			} else {
				s.err = err
			}
			s.mu.Unlock()
			close(s.end)
			return
		}
		s.mu.Unlock()
	}
}
func (s *sideLog) got() int { s.mu.Lock(); defer s.mu.Unlock(); return s.n }

func startLongLived(c *Ctx, silence time.Duration) (*longResult, *sync.WaitGroup) {
	res := &longResult{label: fmt.Sprintf("long-lived stream (%.0fs of silence with reads pending at both ends)", silence.Seconds())}
	var wg sync.WaitGroup
	wg.Add(1)
	r := NewRng(c.Seed*7919 + 17)
	go func() {
		defer wg.Done()
		t0 := time.Now()
		defer func() { res.wall = time.Since(t0); res.done = true }()
		viol := func(what, sig string) {
			res.violations = append(res.violations, OracleViolation{What: res.label + ": " + what, Sig: sig, Replay: res.label})
		}
		w := buildWorld(c, topoSpec{name: "chain2-long", n: 2, links: [][3]int{{0, 1, 1}}, cutLink: -1}, profile{"delay1ms", 0, 0, time.Millisecond})
		if w == nil {
			viol("mesh did not come up", "mesh-setup")
			return
		}
		defer w.close()
		_, ct := fastTLSOnce()
		ctx, cancel := context.WithTimeout(context.Background(), 15*time.Second)
		tDial := time.Now()
		conn, err := w.nodes[0].DialContext(ctx, w.names[1], "stream", ct)
		cancel()
		if err != nil {
			viol("dial failed: "+err.Error(), "stream-dial-failed")
			return
		}
		var ac net.Conn
		select {
		case ac = <-w.acc:
		case <-time.After(10 * time.Second):
			viol("connection was not accepted", "stream-accept-missing")
			return
		}
		up1, up2 := r.Bytes(1024+r.Intn(1024)), r.Bytes(1024+r.Intn(1024))
		down1, down2 := r.Bytes(1024+r.Intn(1024)), r.Bytes(1024+r.Intn(1024))
		atAcc := &sideLog{end: make(chan struct{})}
		atDial := &sideLog{end: make(chan struct{})}
		go atAcc.run(ac, t0)
		go atDial.run(conn, t0)
		var upSizes, downSizes []int
		write := func(wr io.Writer, data []byte, sizes *[]int, dir string) bool {
			for off := 0; off < len(data); {
				n := 1 + r.Intn(700)
				if off+n > len(data) {
					n = len(data) - off
				}
				if m, err := wr.Write(data[off : off+n]); err != nil || m != n {
					viol(fmt.Sprintf("%s: Write of %d bytes at offset %d returned (%d, %v)", dir, n, off, m, err), "stream-write-error")
					return false
				}
				*sizes = append(*sizes, n)
				off += n
			}
			return true
		}
		if !write(conn, up1, &upSizes, "dialler->acceptor") || !write(ac, down1, &downSizes, "acceptor->dialler") {
			return
		}
		if !WaitFor(10*time.Second, func() bool { return atAcc.got() == len(up1) && atDial.got() == len(down1) }) {
			viol(fmt.Sprintf("first part: %d of %d and %d of %d bytes arrived within 10s", atAcc.got(), len(up1), atDial.got(), len(down1)), "stream-stalled")
			return
		}
		// silence, with a Read pending on both ends, until well past one minute after the dial
		time.Sleep(time.Until(tDial.Add(silence)))
		ok := write(ac, down2, &downSizes, "acceptor->dialler") && write(conn, up2, &upSizes, "dialler->acceptor")
		if ok {
			if err := conn.Close(); err != nil {
				viol("dialler's Close: "+err.Error(), "stream-close-error")
			}
			if err := ac.Close(); err != nil {
				viol("acceptor's Close: "+err.Error(), "stream-close-error")
			}
		}
		for _, s := range []*sideLog{atAcc, atDial} {
			select {
			case <-s.end:
			case <-time.After(20 * time.Second):
				viol("a reader saw neither end-of-stream nor an error within 20s of the half-close", "stream-no-eof")
			}
		}
		check := func(dir string, sent []byte, s *sideLog) {
			s.mu.Lock()
			defer s.mu.Unlock()
			var all []byte
			for _, ch := range s.chunks {
				all = append(all, ch...)
			}
			switch {
			case s.err != nil:
				viol(fmt.Sprintf("%s: reader got error %q after %d of %d bytes (%.1fs after the stream was opened)", dir, s.err, len(all), len(sent), time.Since(tDial).Seconds()), "stream-read-error")
			case !bytes.Equal(all, sent):
				viol(fmt.Sprintf("%s: %d bytes written, %d read, first difference at offset %d", dir, len(sent), len(all), firstDiff(sent, all)), "stream-bytes-differ")
			case !s.eof:
				viol(dir+": all bytes arrived but no end-of-stream", "stream-no-eof")
			}
		}
		up := append(append([]byte{}, up1...), up2...)
		down := append(append([]byte{}, down1...), down2...)
		check("dialler->acceptor", up, atAcc)
		check("acceptor->dialler", down, atDial)
		add := func(dialler bool, data []byte, sizes []int, s *sideLog) {
			s.mu.Lock()
			defer s.mu.Unlock()
			var calls, reads []string
			off := 0
			for _, n := range sizes {
				calls = append(calls, "CWrite "+Hx(data[off:off+n]))
				off += n
			}
			if ok {
				calls = append(calls, "CClose")
			}
			for _, ch := range s.chunks {
				reads = append(reads, fmt.Sprintf("mkrd %s ROk", Hx(ch)))
			}
			switch {
			case s.eof:
				reads = append(reads, "mkrd [] REof")
			case s.err != nil:
				reads = append(reads, "mkrd [] RErr")
			}
			res.cases = append(res.cases, caseRec{fmt.Sprintf("CStream %s %s %s", CoqBool(dialler), CoqList(calls), CoqList(reads)),
				fmt.Sprintf("%s dialler-wrote=%v %d bytes in %d writes, read in %d chunks", res.label, dialler, len(data), len(sizes), len(s.chunks))})
		}
		add(true, up, upSizes, atAcc)
		add(false, down, downSizes, atDial)
		_ = conn.CloseConnection()
	}()
	return res, &wg
}

func joinLongLived(im *Impl, cf *CaseFile, res *longResult, wg *sync.WaitGroup) {
	wg.Wait()
	im.Violations = append(im.Violations, res.violations...)
	for _, cs := range res.cases {
		cf.Add(cs.term, cs.label)
	}
	im.Count(res.label, true)
	im.Hist("own-mesh-scenario")
	im.Extra["wall_s:"+res.label] = res.wall.Seconds()
}
