package main

import (
	"context"
	"crypto/ecdsa"
	"crypto/elliptic"
	"crypto/rand"
	"crypto/sha256"
	"crypto/tls"
	"crypto/x509"
	"crypto/x509/pkix"
	"errors"
	"fmt"
	"io"
	"math/big"
	"net"
	"sync"
	"time"

	. "verifharness/lib"

	"github.com/ansible/receptor/pkg/logger"
	"github.com/ansible/receptor/pkg/netceptor"
	"github.com/ansible/receptor/pkg/utils"
)

type profile struct {
	name     string
	drop     int // percent per link and direction
	dup      int
	maxDelay time.Duration
}

type topoSpec struct {
	name    string
	n       int
	links   [][3]int // a, b, cost
	cutLink int      // index of the link to cut mid-transfer, -1 none
}

func fastTLS() (*tls.Config, *tls.Config) {
	key, err := ecdsa.GenerateKey(elliptic.P256(), rand.Reader)
	Must(err)
	tmpl := x509.Certificate{SerialNumber: big.NewInt(1), Subject: pkix.Name{CommonName: "verif"},
		NotBefore: time.Now().Add(-time.Hour), NotAfter: time.Now().Add(24 * time.Hour), DNSNames: []string{"verif"}}
	der, err := x509.CreateCertificate(rand.Reader, &tmpl, &tmpl, &key.PublicKey, key)
	Must(err)
	return &tls.Config{Certificates: []tls.Certificate{{Certificate: [][]byte{der}, PrivateKey: key}}, MinVersion: tls.VersionTLS12},
		&tls.Config{InsecureSkipVerify: true, MinVersion: tls.VersionTLS12} //nolint:gosec
}

// faultFilter: drop / duplicate / delay decisions from its own PRNG stream (links run concurrently)
func faultFilter(seed uint64, p profile, stats *linkStats) func([]byte) ([][]byte, time.Duration) {
	var mu sync.Mutex
	r := NewRng(seed)
	return func(b []byte) ([][]byte, time.Duration) {
		mu.Lock()
		defer mu.Unlock()
		stats.seen++
		if len(b) > 0 && b[0] != netceptor.MsgTypeData {
			return [][]byte{b}, 0 // routing and advertisement traffic is left alone
		}
		if r.Intn(100) < p.drop {
			stats.dropped++
			return nil, 0
		}
		out := [][]byte{b}
		if r.Intn(100) < p.dup {
			stats.duplicated++
			out = append(out, append([]byte{}, b...))
		}
		var d time.Duration
		if p.maxDelay > 0 && r.Intn(100) < 50 {
			d = time.Duration(r.Intn(int(p.maxDelay)))
			stats.delayed++
		}
		return out, d
	}
}

type linkStats struct{ seen, dropped, duplicated, delayed int }

type readLog struct {
	chunks [][]byte // only kept for small transfers
	n      int
	sum    [32]byte
	err    error
	eof    bool
}

// pump writes data in random-sized writes and then half-closes; returns the sizes written
func pump(w io.WriteCloser, data []byte, r *Rng, maxChunk int) ([]int, error) {
	var sizes []int
	for off := 0; off < len(data); {
		n := 1 + r.Intn(maxChunk)
		if r.Chance(10) {
			n = 1 + r.Intn(7)
		}
		if off+n > len(data) {
			n = len(data) - off
		}
		m, err := w.Write(data[off : off+n])
		if err != nil {
			return sizes, fmt.Errorf("write at offset %d: %w", off, err)
		}
		if m != n {
			return sizes, fmt.Errorf("short write at offset %d: %d of %d", off, m, n)
		}
		sizes = append(sizes, n)
		off += n
	}
	return sizes, w.Close()
}

func drain(rd io.Reader, keep bool) *readLog {
	lg := &readLog{}
	h := sha256.New()
	buf := make([]byte, 32768)
	for {
		n, err := rd.Read(buf)
		if n > 0 {
			h.Write(buf[:n])
			lg.n += n
			if keep {
				lg.chunks = append(lg.chunks, append([]byte{}, buf[:n]...))
			}
		}
		if err != nil {
			if errors.Is(err, io.EOF) {
				lg.eof = true
			} else {
				lg.err = err
			}
			break
		}
	}
	copy(lg.sum[:], h.Sum(nil))
	return lg
}

func firstDiff(a, b []byte) int {
	for i := 0; i < len(a) && i < len(b); i++ {
		if a[i] != b[i] {
			return i
		}
	}
	if len(a) != len(b) {
		if len(a) < len(b) {
			return len(a)
		}
		return len(b)
	}
	return -1
}

type world struct {
	m     *Mesh
	names []string
	nodes []*netceptor.Netceptor
	links []*Link
	stats []*linkStats
	li    *netceptor.Listener
	acc   chan net.Conn
}

func buildWorld(c *Ctx, spec topoSpec, p profile) *world {
	consts := FastConsts()
	w := &world{m: NewMesh(consts)}
	for i := 0; i < spec.n; i++ {
		id := fmt.Sprintf("n%d", i)
		w.names = append(w.names, id)
		w.nodes = append(w.nodes, w.m.AddNode(id))
	}
	for _, l := range spec.links {
		lk, err := w.m.Connect(w.names[l[0]], w.names[l[1]], float64(l[2]))
		if err != nil {
			return nil
		}
		w.links = append(w.links, lk)
	}
	want := map[string][]string{}
	for i, a := range w.names {
		for j, b := range w.names {
			if i != j {
				want[a] = append(want[a], b)
			}
		}
	}
	if !w.m.WaitRoutes(want, 10*time.Second) {
		w.m.Shutdown()
		return nil
	}
	time.Sleep(300 * time.Millisecond) // let the least-cost routes settle
	for i, lk := range w.links {
		sa, sb := &linkStats{}, &linkStats{}
		w.stats = append(w.stats, sa, sb)
		lk.EndA.SetFilter(faultFilter(c.Seed*1000+uint64(2*i), p, sa))
		lk.EndB.SetFilter(faultFilter(c.Seed*1000+uint64(2*i+1), p, sb))
	}
	st, _ := fastTLSOnce()
	li, err := w.nodes[spec.n-1].Listen("stream", st)
	if err != nil {
		w.m.Shutdown()
		return nil
	}
	w.li = li
	w.acc = make(chan net.Conn, 16)
	go func() {
		for {
			cn, err := li.Accept()
			if err != nil {
				return
			}
			w.acc <- cn
		}
	}()
	return w
}

var (
	tlsOnce sync.Once
	stCfg   *tls.Config
	ctCfg   *tls.Config
)

func fastTLSOnce() (*tls.Config, *tls.Config) {
	tlsOnce.Do(func() { stCfg, ctCfg = fastTLS() })
	return stCfg, ctCfg
}

func (w *world) close() {
	done := make(chan struct{})
	go func() { _ = w.li.Close(); close(done) }()
	select {
	case <-done:
	case <-time.After(5 * time.Second):
	}
	w.m.Shutdown()
}

// transfer runs one bidirectional transfer over (a, b): a is the dialling side's view, b the
// accepting side's view (possibly through relays).  Returns false if it could not be judged.
func transfer(c *Ctx, im *Impl, cf *CaseFile, label string, a, b io.ReadWriteCloser, up, down []byte, limit time.Duration, nontrivial bool, midway func()) bool {
	r := c.Rng
	keep := len(up) <= 2048 && len(down) <= 2048
	seedA, seedB := r.U64(), r.U64()
	var wg sync.WaitGroup
	var upSizes, downSizes []int
	var upErr, downErr error
	var gotUp, gotDown *readLog
	wg.Add(4)
	go func() { defer wg.Done(); upSizes, upErr = pump(a, up, NewRng(seedA), 32768) }()
	go func() { defer wg.Done(); downSizes, downErr = pump(b, down, NewRng(seedB), 32768) }()
	go func() { defer wg.Done(); gotUp = drain(b, keep) }()
	go func() { defer wg.Done(); gotDown = drain(a, keep) }()
	if midway != nil {
		go func() { time.Sleep(40 * time.Millisecond); midway() }()
	}
	done := make(chan struct{})
	go func() { wg.Wait(); close(done) }()
	t0 := time.Now()
	select {
	case <-done:
	case <-time.After(limit):
		im.Violate(fmt.Sprintf("%s: transfer of %d/%d bytes not finished after %s", label, len(up), len(down), limit), "stream-stalled", label)
		return false
	}
	dt := time.Since(t0)
	im.Count(label, nontrivial)
	im.Hist(fmt.Sprintf("transfer:bytes<=%d", sizeBucket(len(up)+len(down))))
	im.Extra["bytes_total"] = toInt(im.Extra["bytes_total"]) + len(up) + len(down)
	if dt > 10*time.Second {
		im.Hist("transfer:slower-than-10s")
	}
	check := func(dir string, sent []byte, got *readLog, werr error) {
		if werr != nil {
			im.Violate(fmt.Sprintf("%s %s: writer failed: %v", label, dir, werr), "stream-write-error", label)
			return
		}
		if got.err != nil {
			im.Violate(fmt.Sprintf("%s %s: reader got error %v after %d of %d bytes", label, dir, got.err, got.n, len(sent)), "stream-read-error", label)
			return
		}
		want := sha256.Sum256(sent)
		if got.n != len(sent) || got.sum != want {
			where := ""
			if keep {
				var all []byte
				for _, ch := range got.chunks {
					all = append(all, ch...)
				}
				where = fmt.Sprintf(", first difference at offset %d", firstDiff(sent, all))
			}
			im.Violate(fmt.Sprintf("%s %s: %d bytes written, %d bytes read, SHA-256 %v%s", label, dir, len(sent), got.n, got.sum == want, where), "stream-bytes-differ", label)
			return
		}
		if !got.eof {
			im.Violate(fmt.Sprintf("%s %s: all %d bytes arrived but the reader did not see end-of-stream", label, dir, len(sent)), "stream-no-eof", label)
		}
	}
	check("dialler->acceptor", up, gotUp, upErr)
	check("acceptor->dialler", down, gotDown, downErr)
	if keep && cf != nil {
		add := func(dialler bool, data []byte, sizes []int, got *readLog) {
			var calls []string
			off := 0
			for _, n := range sizes {
				calls = append(calls, "CWrite "+Hx(data[off:off+n]))
				off += n
			}
			calls = append(calls, "CClose")
			var reads []string
			for _, ch := range got.chunks {
				reads = append(reads, fmt.Sprintf("mkrd %s ROk", Hx(ch)))
			}
			switch {
			case got.eof:
				reads = append(reads, "mkrd [] REof")
			case got.err != nil:
				reads = append(reads, "mkrd [] RErr")
			}
			cf.Add(fmt.Sprintf("CStream %s %s %s", CoqBool(dialler), CoqList(calls), CoqList(reads)), fmt.Sprintf("%s dialler-wrote=%v %d bytes in %d writes, read in %d chunks", label, dialler, len(data), len(sizes), len(got.chunks)))
		}
		add(true, up, upSizes, gotUp)
		add(false, down, downSizes, gotDown)
	}
	return true
}

func toInt(x interface{}) int {
	if v, ok := x.(int); ok {
		return v
	}
	return 0
}

func sizeBucket(n int) int {
	for _, b := range []int{0, 64, 4096, 65536, 1 << 20, 4 << 20, 16 << 20} {
		if n <= b {
			return b
		}
	}
	return 1 << 30
}

func meshCases(c *Ctx, im *Impl, cf *CaseFile) {
	r := c.Rng
	chain := func(n int) topoSpec {
		t := topoSpec{name: fmt.Sprintf("chain%d", n), n: n, cutLink: -1}
		for i := 0; i+1 < n; i++ {
			t.links = append(t.links, [3]int{i, i + 1, 1})
		}
		return t
	}
	// diamond: 0-1-3 costs 1+1, 0-2-3 costs 2+2; link 0 (0-1) is cut mid-transfer
	diamond := topoSpec{name: "diamond-cut", n: 4, links: [][3]int{{0, 1, 1}, {1, 3, 1}, {0, 2, 2}, {2, 3, 2}}, cutLink: 0}
	clean := profile{"clean", 0, 0, 0}
	mild := profile{"drop3-dup3-delay2ms", 3, 3, 2 * time.Millisecond}
	lossy := profile{"drop10-dup5-delay3ms", 10, 5, 3 * time.Millisecond}
	heavy := profile{"drop18-dup5-delay3ms", 18, 5, 3 * time.Millisecond}
	type plan struct {
		t     topoSpec
		p     profile
		sizes [][2]int
	}
	rnd := func(max int) int { return r.Intn(max + 1) }
	plans := []plan{
		{chain(2), clean, [][2]int{{0, 0}, {1, 0}, {0, 1}, {17, 4096}, {1000, 1000}, {300000, 200000}}},
		{chain(2), lossy, [][2]int{{rnd(2000), rnd(2000)}, {1 << 20, 100000}}},
		{chain(2), heavy, [][2]int{{60000, 90000}}},
		{chain(3), lossy, [][2]int{{rnd(2000), rnd(2000)}, {200000, 300000}}},
		{chain(4), mild, [][2]int{{rnd(2000), rnd(2000)}, {250000, 150000}}},
		{chain(5), mild, [][2]int{{rnd(1500), rnd(1500)}, {150000, 250000}}},
		{diamond, mild, [][2]int{{400000, 400000}}},
	}
	if c.Thorough() {
		plans = append(plans,
			plan{chain(2), lossy, [][2]int{{8 << 20, 1 << 20}, {rnd(2000), rnd(2000)}, {rnd(2000), rnd(2000)}}},
			plan{chain(3), heavy, [][2]int{{300000, 300000}}},
			plan{chain(4), lossy, [][2]int{{2 << 20, 1 << 20}, {rnd(2000), rnd(2000)}}},
			plan{chain(5), lossy, [][2]int{{1 << 20, 2 << 20}}},
			plan{diamond, lossy, [][2]int{{3 << 20, 3 << 20}}},
			plan{diamond, clean, [][2]int{{4 << 20, 4 << 20}}},
		)
		for k := 0; k < 12; k++ {
			plans = append(plans, plan{chain(2 + r.Intn(4)), []profile{clean, mild, lossy}[r.Intn(3)], [][2]int{{rnd(2000), rnd(2000)}, {rnd(500000), rnd(500000)}}})
		}
	}
	_, ct := fastTLSOnce()
	for _, pl := range plans {
		w := buildWorld(c, pl.t, pl.p)
		if w == nil {
			im.Violate("mesh "+pl.t.name+" did not come up", "mesh-setup", pl.t.name)
			continue
		}
		for k, sz := range pl.sizes {
			label := fmt.Sprintf("%s/%s #%d %d+%d bytes", pl.t.name, pl.p.name, k, sz[0], sz[1])
			ctx, cancel := context.WithTimeout(context.Background(), 12*time.Second)
			conn, err := w.nodes[0].DialContext(ctx, w.names[pl.t.n-1], "stream", ct)
			cancel()
			if err != nil {
				im.Violate(fmt.Sprintf("%s: dial failed: %v", label, err), "stream-dial-failed", label)
				break // the other transfers of this world would only wait for the same timeout
			}
			var ac net.Conn
			select {
			case ac = <-w.acc:
			case <-time.After(10 * time.Second):
				im.Violate(label+": connection was not accepted", "stream-accept-missing", label)
				continue
			}
			var midway func()
			var cutAt time.Time
			var cutMu sync.Mutex
			if pl.t.cutLink >= 0 {
				lk := w.links[pl.t.cutLink]
				midway = func() { lk.Cut(); cutMu.Lock(); cutAt = time.Now(); cutMu.Unlock() }
			}
			limit := 60 * time.Second
			if c.Thorough() {
				limit = 240 * time.Second
			}
			transfer(c, im, cf, label, conn, ac, r.Bytes(sz[0]), r.Bytes(sz[1]), limit, pl.p.drop+pl.p.dup > 0 || pl.t.cutLink >= 0, midway)
			if pl.t.cutLink >= 0 {
				ended := time.Now()
				dst := w.names[pl.t.n-1]
				// the cut may come after a fast transfer has ended: then this was no re-routing sample
				WaitFor(3*time.Second, func() bool { cutMu.Lock(); defer cutMu.Unlock(); return !cutAt.IsZero() })
				cutMu.Lock()
				during := !cutAt.IsZero() && cutAt.Before(ended)
				cutMu.Unlock()
				im.Hist(fmt.Sprintf("reroute:link-cut-during-transfer=%v", during))
				if !WaitFor(5*time.Second, func() bool { return w.nodes[0].Status().RoutingTable[dst] == w.names[2] }) {
					im.Violate(fmt.Sprintf("%s: 5s after the cut the route to %s still goes via %q", label, dst, w.nodes[0].Status().RoutingTable[dst]), "reroute-did-not-happen", label)
				}
			}
			_ = conn.CloseConnection()
			_ = ac.Close()
		}
		tot := linkStats{}
		for _, s := range w.stats {
			tot.seen += s.seen
			tot.dropped += s.dropped
			tot.duplicated += s.duplicated
			tot.delayed += s.delayed
		}
		im.Extra["links_"+pl.t.name+"_"+pl.p.name] = fmt.Sprintf("messages %d dropped %d duplicated %d delayed %d", tot.seen, tot.dropped, tot.duplicated, tot.delayed)
		w.close()
	}
	relayCases(c, im, cf)
}

// relayCases: TCP client -> [BridgeConns: TCP <-> stream] -> mesh -> [BridgeConns: stream <-> TCP]
// -> TCP server, which is what the services TCP proxies (TCPProxyServiceInbound/Outbound) and the
// control service's connect do with a stream.  The relays are the real utils.BridgeConns; the
// TCP ends are real loopback sockets.
func relayCases(c *Ctx, im *Impl, cf *CaseFile) {
	r := c.Rng
	lg := logger.NewReceptorLogger("")
	p := profile{"drop5-dup3-delay2ms", 5, 3, 2 * time.Millisecond}
	t := topoSpec{name: "chain3-relays", n: 3, links: [][3]int{{0, 1, 1}, {1, 2, 1}}, cutLink: -1}
	w := buildWorld(c, t, p)
	if w == nil {
		im.Violate("mesh for the relay cases did not come up", "mesh-setup", t.name)
		return
	}
	defer w.close()
	_, ct := fastTLSOnce()
	// the TCP server: a sink/source pair handed to transfer()
	srv, err := net.Listen("tcp", "127.0.0.1:0")
	if err != nil {
		im.Hist("relay:no-loopback")
		return
	}
	defer srv.Close()
	srvConns := make(chan net.Conn, 4)
	go func() {
		for {
			cn, err := srv.Accept()
			if err != nil {
				return
			}
			srvConns <- cn
		}
	}()
	// outbound side: every accepted stream is bridged to a new TCP connection to the server
	go func() {
		for qc := range w.acc {
			tc, err := net.Dial("tcp", srv.Addr().String())
			if err != nil {
				_ = qc.Close()
				continue
			}
			go utils.BridgeConns(qc, "receptor service", tc, "tcp connection", lg)
		}
	}()
	// inbound side: a TCP listener whose connections are bridged to a dialled stream
	in, err := net.Listen("tcp", "127.0.0.1:0")
	if err != nil {
		return
	}
	defer in.Close()
	go func() {
		for {
			tc, err := in.Accept()
			if err != nil {
				return
			}
			qc, err := w.nodes[0].Dial(w.names[2], "stream", ct)
			if err != nil {
				_ = tc.Close()
				continue
			}
			go utils.BridgeConns(tc, "tcp service", qc, "receptor connection", lg)
		}
	}()
	sizes := [][2]int{{r.Intn(1500), r.Intn(1500)}, {120000, 0}, {0, 90000}}
	if c.Thorough() {
		sizes = append(sizes, [2]int{1 << 20, 1 << 20}, [2]int{r.Intn(2000), r.Intn(2000)})
	}
	for k, sz := range sizes {
		label := fmt.Sprintf("tcp-relay-pair/%s #%d %d+%d bytes", p.name, k, sz[0], sz[1])
		cl, err := net.Dial("tcp", in.Addr().String())
		if err != nil {
			im.Violate(label+": "+err.Error(), "relay-setup", label)
			continue
		}
		var sc net.Conn
		select {
		case sc = <-srvConns:
		case <-time.After(20 * time.Second):
			im.Violate(label+": the connection did not reach the TCP server", "relay-no-connection", label)
			return
		}
		// BridgeConns closes the whole far connection when one direction ends, so only one
		// direction carries data per case and the other ends by that close
		a := halfCloser{cl.(*net.TCPConn)}
		b := halfCloser{sc.(*net.TCPConn)}
		relayTransfer(c, im, label, a, b, r.Bytes(sz[0]), r.Bytes(sz[1]))
		_ = cl.Close()
		_ = sc.Close()
	}
}

type halfCloser struct{ *net.TCPConn }

func (h halfCloser) Close() error { return h.TCPConn.CloseWrite() }

// relayTransfer: both ends write their bytes and half-close; each must read exactly the other's
// bytes.  (End-of-stream is NOT required here to come after a half-close of the OTHER direction:
// a relay's Close on a TCP connection closes both directions.)
func relayTransfer(c *Ctx, im *Impl, label string, a, b halfCloser, up, down []byte) {
	var wg sync.WaitGroup
	var gotUp, gotDown *readLog
	var e1, e2 error
	wg.Add(2)
	// sequential per direction to stay clear of the full-close semantics: first up, then down
	go func() { defer wg.Done(); gotUp = drainN(b, len(up)) }()
	go func() { defer wg.Done(); gotDown = drainN(a, len(down)) }()
	_, e1 = pumpNoClose(a, up, NewRng(c.Rng.U64()))
	_, e2 = pumpNoClose(b, down, NewRng(c.Rng.U64()))
	done := make(chan struct{})
	go func() { wg.Wait(); close(done) }()
	select {
	case <-done:
	case <-time.After(60 * time.Second):
		im.Violate(label+": relayed transfer not finished after 60s", "relay-stalled", label)
		return
	}
	im.Count(label, true)
	im.Hist("relay:transfer")
	for _, x := range []struct {
		dir  string
		sent []byte
		got  *readLog
		err  error
	}{{"client->server", up, gotUp, e1}, {"server->client", down, gotDown, e2}} {
		want := sha256.Sum256(x.sent)
		if x.err != nil || x.got.n != len(x.sent) || x.got.sum != want {
			im.Violate(fmt.Sprintf("%s %s: wrote %d bytes (err %v), read %d bytes (err %v), SHA-256 equal %v", label, x.dir, len(x.sent), x.err, x.got.n, x.got.err, x.got.sum == want), "relay-bytes-differ", label)
		}
	}
	// now the client ends its direction: the server must see end-of-stream
	_ = a.Close()
	_ = b.TCPConn.SetReadDeadline(time.Now().Add(15 * time.Second))
	buf := make([]byte, 16)
	if n, err := b.Read(buf); n != 0 || !errors.Is(err, io.EOF) {
		im.Violate(fmt.Sprintf("%s: after the client closed its side the server read (%d, %v), want end-of-stream", label, n, err), "relay-no-eof", label)
	}
}

func pumpNoClose(w io.Writer, data []byte, r *Rng) (int, error) {
	for off := 0; off < len(data); {
		n := 1 + r.Intn(20000)
		if off+n > len(data) {
			n = len(data) - off
		}
		if _, err := w.Write(data[off : off+n]); err != nil {
			return off, err
		}
		off += n
	}
	return len(data), nil
}

func drainN(rd io.Reader, want int) *readLog {
	lg := &readLog{}
	h := sha256.New()
	buf := make([]byte, 32768)
	for lg.n < want {
		n, err := rd.Read(buf)
		h.Write(buf[:n])
		lg.n += n
		if err != nil {
			lg.err = err
			break
		}
	}
	copy(lg.sum[:], h.Sum(nil))
	return lg
}
