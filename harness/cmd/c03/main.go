package main

// C03 — mesh streams are reliable ordered byte pipes despite loss and re-routing.
//
//	bridge.go  utils.BridgeConns over scripted io.ReadWriteClosers (arbitrary chunk / error /
//	           write-failure sequences): the calls recorded on the far side against
//	           Model/Bridge.v bridge_half, and against the property text (a prefix of the bytes
//	           read, all of them when writes work, exactly one Close at the end)
//	mesh.go    bulk bidirectional transfers over real stream connections across 1-4 hops whose
//	           links drop, duplicate, delay and reorder datagrams, and over a diamond whose active
//	           path is cut mid-transfer: lengths and SHA-256 at both ends, end-of-stream after all
//	           data (half-close), the same through utils.BridgeConns relays and a TCP proxy pair;
//	           small transfers also go to Coq as samples of the quic_ok hypothesis of Props/C03.v
//	services.go  the real TCP and unix proxy service pairs and the control service's connect, and
//	           raw QUIC clients against the accept handshake (Model/Bridge.v accept_stream)
//	concurrent.go  several paced streams on one listener between the same two nodes while other
//	           streams between them are aborted mid-transfer by the dialler or by the acceptor
//	abrupt.go  the writer ends the whole connection (CloseConnection) right after its writes while the
//	           reader is late or slow or the links lose and reorder: a prefix, and never an early
//	           end-of-stream (Model/Bridge.v abort_ok)
//	longlived.go  one stream that outlives every timer around a connection (a minute of silence
//	           with reads pending on both ends), concurrently with everything else

import (
	"fmt"
	"time"

	. "verifharness/lib"
)

func main() { Main("C03", run, nil) }

func run(c *Ctx) {
	QuietLogs()
	im := NewImpl("C03", c.Seed, c.Tier)
	im.Rule = "bridge: utils.BridgeConns over two scripted connections, each with 0-12 Read results (chunks of 0, 1..64, ..2000 and exactly 65536 bytes; EOF, 'use of closed network connection' and other errors at any position, with and without data) and Write results (ok, short, error at any position); non-trivial = an error or failed write before the end of the script, or data arriving together with the error. mesh: per topology (chains of 2-5 nodes = 1-4 hops; a diamond whose cheaper path is cut mid-transfer) and per fault profile (per-link drop 0-10 %, duplication 0-5 %, delay 0-3 ms => reordering) bidirectional transfers of 0 B .. 1 MiB (thorough: 8 MiB) with random write boundaries, writer half-closes, reader reads to EOF; also through a BridgeConns relay pair over TCP (the services TCP proxies); non-trivial = a transfer that crosses a faulty or re-routed link; distinct by (topology, profile, sizes, seed). long-lived: one stream with 1-2 KB each way, 61 s of silence with a Read pending on both ends, 1-2 KB more each way, half-close (runs beside everything else). concurrent: 3 paced bidirectional streams of 90-130 KB on one listener while 5 other streams between the same nodes are aborted mid-transfer (dialler CloseConnection while the server sends; acceptor CloseConnection while the dialler sends). services: the real services.TCPProxyServiceInbound/Outbound pair, services.UnixProxyServiceInbound/Outbound pair and the control service's connect command (text and JSON form) over 2 lossy hops, 3 exchanges each (small both ways, 60-120 KB one way, the other way), client half-close seen as EOF by the server; expiry: a paced bidirectional transfer over 2 hops during which, for 300 ms each, one end's datagrams reach the next node without hop budget and are answered with 'message expired' notices; raw QUIC clients whose first stream byte is 0, not 0, or missing against a real Listener (accept handshake); abrupt end: on a clean 1-hop mesh and on a 2-hop mesh whose links drop 8 %, duplicate 2 % and delay up to 20 ms, 7 (thorough: 24) streams each at the same time whose writer (the dialler or the acceptor) writes 0 B .. 300 KB in random writes, calls Close (4 in 5) and then, 0-220 ms later, CloseConnection, while the reader starts 0 s .. 3 s later and reads with 1 B .. 8 KB buffers, some paced (first two hand-picked: 200 KB and 1500 B with a reader 2-2.5 s late); oracle from the property text: the bytes read are a prefix of the bytes written, a reader told end-of-stream has ALL written bytes and the writer had closed, any other ending is an error; transfers of at most 2 KB also go to Coq (CAbort, Model/Bridge.v abort_ok); non-trivial = a reader that got fewer bytes than written (and an error)"
	cf := &CaseFile{Dir: c.Out, Prop: "C03", Imports: []string{"Model.Bridge"}, CaseType: "bridge_case", CheckFn: "bridge_check", PerShard: 150}
	t0 := time.Now()
	// started first, joined last: it needs more than a minute and nothing else waits for it
	long, longWG := startLongLived(c, 61*time.Second)
	conc, concWG := startConcurrent(c)
	svc, svcWG := startServices(c)
	exp, expWG := startExpiry(c)
	abr, abrWG := startAbrupt(c)
	bridgeCases(c, im, cf)
	im.Extra["wall_bridge_s"] = time.Since(t0).Seconds()
	t1 := time.Now()
	meshCases(c, im, cf)
	im.Extra["wall_mesh_s"] = time.Since(t1).Seconds()
	joinLongLived(im, cf, conc, concWG)
	joinServices(im, cf, svc, svcWG)
	joinLongLived(im, cf, exp, expWG)
	joinLongLived(im, cf, abr, abrWG)
	for k, v := range abruptStats {
		im.Extra["abrupt_end:"+k] = v
	}
	im.Count("abrupt end: a reader that lost data was told so by an error", abruptStats["reader_lost_data_and_got_an_error"] > 0)
	joinLongLived(im, cf, long, longWG)
	Must(cf.Write())
	Must(im.Write(c.Out))
	fmt.Printf("C03: %d evaluations, %d violations, %d coq cases, %.1fs\n", im.Evaluations, len(im.Violations), len(cf.Cases), time.Since(t0).Seconds())
}
