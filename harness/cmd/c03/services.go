package main

import (
	"context"
	"crypto/sha256"
	"crypto/tls"
	"errors"
	"fmt"
	"io"
	"net"
	"os"
	"path/filepath"
	"strings"
	"sync"
	"time"

	. "verifharness/lib"

	"github.com/ansible/receptor/pkg/controlsvc"
	"github.com/ansible/receptor/pkg/netceptor"
	"github.com/ansible/receptor/pkg/services"
	"github.com/quic-go/quic-go"
)

// The real users of utils.BridgeConns named by the property, on their own three-node mesh (mild
// faults), beside the rest of the run:
//   TCP client  -> services.TCPProxyServiceInbound  -> stream -> services.TCPProxyServiceOutbound  -> TCP server
//   unix client -> services.UnixProxyServiceInbound -> stream -> services.UnixProxyServiceOutbound -> unix server
//   unix client -> control service "connect <node> <service>" (controlsvc.Server.RunControlSvc) -> stream -> application
// Oracle: each end reads exactly the other end's bytes (SHA-256), then, when the client ends its
// direction, the server sees end-of-stream.
// And the accept handshake against raw QUIC clients (accept.go part below).

type duplex interface {
	io.Reader
	io.Writer
	CloseWrite() error
	SetReadDeadline(time.Time) error
}

type connDuplex struct{ net.Conn } // a netceptor Conn: Close closes the sending direction

func (c connDuplex) CloseWrite() error { return c.Conn.Close() }

type svcResult struct {
	mu sync.Mutex
	longResult
	counts []string
	hist   []string
}

func (s *svcResult) viol(what, sig string) {
	s.mu.Lock()
	s.violations = append(s.violations, OracleViolation{What: what, Sig: sig, Replay: what})
	s.mu.Unlock()
}

func exchange(res *svcResult, r *Rng, label string, a, b duplex, up, down []byte) {
	var wg sync.WaitGroup
	var gotUp, gotDown *readLog
	var e1, e2 error
	wg.Add(4)
	go func() { defer wg.Done(); gotUp = drainN(b, len(up)) }()
	go func() { defer wg.Done(); gotDown = drainN(a, len(down)) }()
	ra, rb := NewRng(r.U64()), NewRng(r.U64())
	go func() { defer wg.Done(); _, e1 = pumpNoClose(a, up, ra) }()
	go func() { defer wg.Done(); _, e2 = pumpNoClose(b, down, rb) }()
	done := make(chan struct{})
	go func() { wg.Wait(); close(done) }()
	select {
	case <-done:
	case <-time.After(60 * time.Second):
		res.viol(label+": transfer not finished after 60s", "relay-stalled")
		return
	}
	for _, x := range []struct {
		dir  string
		sent []byte
		got  *readLog
		err  error
	}{{"client->server", up, gotUp, e1}, {"server->client", down, gotDown, e2}} {
		want := sha256.Sum256(x.sent)
		if x.err != nil || x.got.n != len(x.sent) || x.got.sum != want {
			res.viol(fmt.Sprintf("%s %s: wrote %d bytes (err %v), read %d bytes (err %v), SHA-256 equal %v", label, x.dir, len(x.sent), x.err, x.got.n, x.got.err, x.got.sum == want), "relay-bytes-differ")
		}
	}
	// the client ends its direction: the server must see end-of-stream, and nothing else
	_ = a.CloseWrite()
	_ = b.SetReadDeadline(time.Now().Add(20 * time.Second))
	buf := make([]byte, 16)
	if n, err := b.Read(buf); n != 0 || !errors.Is(err, io.EOF) {
		res.viol(fmt.Sprintf("%s: after the client closed its side the server read (%d, %v), want end-of-stream", label, n, err), "relay-no-eof")
	}
	res.mu.Lock()
	res.counts = append(res.counts, label)
	res.mu.Unlock()
}

func freePort() int {
	l, err := net.Listen("tcp", "127.0.0.1:0")
	if err != nil {
		return 0
	}
	defer l.Close()
	return l.Addr().(*net.TCPAddr).Port
}

func startServices(c *Ctx) (*svcResult, *sync.WaitGroup) {
	res := &svcResult{}
	res.label = "proxy services and control-service connect"
	var wg sync.WaitGroup
	wg.Add(1)
	r := NewRng(c.Seed*15485863 + 3)
	go func() {
		defer wg.Done()
		t0 := time.Now()
		defer func() { res.wall = time.Since(t0) }()
		p := profile{"drop3-dup3-delay2ms", 3, 3, 2 * time.Millisecond}
		w := buildWorld(c, topoSpec{name: "chain3-services", n: 3, links: [][3]int{{0, 1, 1}, {1, 2, 1}}, cutLink: -1}, p)
		if w == nil {
			res.viol("mesh for the service cases did not come up", "mesh-setup")
			return
		}
		defer w.close()
		dir, err := os.MkdirTemp("", "c03-svc-")
		if err != nil {
			return
		}
		defer os.RemoveAll(dir)
		in, out := w.nodes[0], w.nodes[2]
		sizes := func(k int) (int, int) {
			switch k % 3 {
			case 0:
				return r.Intn(1500), r.Intn(1500)
			case 1:
				return 60000 + r.Intn(60000), r.Intn(300)
			default:
				return r.Intn(300), 60000 + r.Intn(60000)
			}
		}
		// ----- TCP proxy pair
		srv, err := net.Listen("tcp", "127.0.0.1:0")
		if err != nil {
			return
		}
		defer srv.Close()
		srvConns := make(chan net.Conn, 4)
		go func() {
			for {
				cn, err := srv.Accept()
				if err != nil {
					return
				}
				srvConns <- cn
			}
		}()
		port := freePort()
		if err := services.TCPProxyServiceOutbound(out, "tcpout", nil, srv.Addr().String(), nil); err != nil {
			res.viol("TCPProxyServiceOutbound: "+err.Error(), "service-setup")
			return
		}
		if err := services.TCPProxyServiceInbound(in, "127.0.0.1", port, nil, w.names[2], "tcpout", nil); err != nil {
			res.viol("TCPProxyServiceInbound: "+err.Error(), "service-setup")
			return
		}
		rounds := 3
		if c.Thorough() {
			rounds = 9
		}
		for k := 0; k < rounds; k++ {
			u, d := sizes(k)
			label := fmt.Sprintf("TCPProxyServiceInbound/Outbound over 2 hops (%s) #%d %d+%d bytes", p.name, k, u, d)
			cl, err := net.Dial("tcp", fmt.Sprintf("127.0.0.1:%d", port))
			if err != nil {
				res.viol(label+": "+err.Error(), "service-setup")
				break
			}
			var sc net.Conn
			select {
			case sc = <-srvConns:
			case <-time.After(20 * time.Second):
				res.viol(label+": the connection did not reach the TCP server", "relay-no-connection")
			}
			if sc == nil {
				_ = cl.Close()
				break
			}
			exchange(res, r, label, cl.(*net.TCPConn), sc.(*net.TCPConn), r.Bytes(u), r.Bytes(d))
			_ = cl.Close()
			_ = sc.Close()
		}
		// ----- unix proxy pair
		srvSock, inSock := filepath.Join(dir, "srv.sock"), filepath.Join(dir, "in.sock")
		usrv, err := net.Listen("unix", srvSock)
		if err == nil {
			defer usrv.Close()
			uConns := make(chan net.Conn, 4)
			go func() {
				for {
					cn, err := usrv.Accept()
					if err != nil {
						return
					}
					uConns <- cn
				}
			}()
			e1 := services.UnixProxyServiceOutbound(out, "unixout", nil, srvSock)
			e2 := services.UnixProxyServiceInbound(in, inSock, 0o600, w.names[2], "unixout", nil)
			if e1 != nil || e2 != nil {
				res.viol(fmt.Sprintf("unix proxy services: %v %v", e1, e2), "service-setup")
			} else {
				for k := 0; k < rounds; k++ {
					u, d := sizes(k + 1)
					label := fmt.Sprintf("UnixProxyServiceInbound/Outbound over 2 hops (%s) #%d %d+%d bytes", p.name, k, u, d)
					cl, err := net.Dial("unix", inSock)
					if err != nil {
						res.viol(label+": "+err.Error(), "service-setup")
						break
					}
					var sc net.Conn
					select {
					case sc = <-uConns:
					case <-time.After(20 * time.Second):
						res.viol(label+": the connection did not reach the unix server", "relay-no-connection")
					}
					if sc == nil {
						_ = cl.Close()
						break
					}
					exchange(res, r, label, cl.(*net.UnixConn), sc.(*net.UnixConn), r.Bytes(u), r.Bytes(d))
					_ = cl.Close()
					_ = sc.Close()
				}
			}
		}
		// ----- control service: connect
		ctlSock := filepath.Join(dir, "ctl.sock")
		cs := controlsvc.New(true, in)
		ctx, cancel := context.WithCancel(context.Background())
		defer cancel()
		if err := cs.RunControlSvc(ctx, "", nil, ctlSock, 0o600, "", nil); err != nil {
			res.viol("RunControlSvc: "+err.Error(), "service-setup")
			return
		}
		app, err := out.Listen("app", nil)
		if err != nil {
			res.viol("Listen: "+err.Error(), "service-setup")
			return
		}
		defer func() { go func() { _ = app.Close() }() }()
		appConns := make(chan net.Conn, 4)
		go func() {
			for {
				cn, err := app.Accept()
				if err != nil {
					return
				}
				appConns <- cn
			}
		}()
		for k := 0; k < rounds; k++ {
			u, d := sizes(k + 2)
			label := fmt.Sprintf("control service connect over 2 hops (%s) #%d %d+%d bytes", p.name, k, u, d)
			cl, err := net.Dial("unix", ctlSock)
			if err != nil {
				res.viol(label+": "+err.Error(), "service-setup")
				break
			}
			line := func() string { // byte by byte: nothing beyond the text line may be consumed
				var sb strings.Builder
				one := make([]byte, 1)
				for {
					n, err := cl.Read(one)
					if err != nil || (n == 1 && one[0] == '\n') {
						return sb.String()
					}
					if n == 1 {
						sb.WriteByte(one[0])
					}
				}
			}
			_ = cl.SetReadDeadline(time.Now().Add(20 * time.Second))
			banner := line()
			cmd := fmt.Sprintf("connect %s app\n", w.names[2])
			if k%2 == 1 {
				cmd = fmt.Sprintf("{\"command\": \"connect\", \"node\": %q, \"service\": \"app\"}\n", w.names[2])
			}
			_, _ = cl.Write([]byte(cmd))
			reply := line()
			_ = cl.SetReadDeadline(time.Time{})
			if !strings.HasPrefix(banner, "Receptor Control") || reply != "Connecting" {
				res.viol(fmt.Sprintf("%s: banner %q, reply %q", label, banner, reply), "connect-refused")
				_ = cl.Close()
				break
			}
			var sc net.Conn
			select {
			case sc = <-appConns:
			case <-time.After(20 * time.Second):
				res.viol(label+": the connection did not reach the application", "relay-no-connection")
			}
			if sc == nil {
				_ = cl.Close()
				break
			}
			exchange(res, r, label, cl.(*net.UnixConn), connDuplex{sc}, r.Bytes(u), r.Bytes(d))
			_ = cl.Close()
			_ = sc.(*netceptor.Conn).CloseConnection()
		}
		rawAcceptCases(c, res, r, w)
	}()
	return res, &wg
}

// rawAcceptCases: QUIC clients that are not DialContext talk to a real Listener, so the first
// byte of the stream is theirs to choose.  What Accept does goes to Coq (CAccept: accept_stream).
func rawAcceptCases(c *Ctx, res *svcResult, r *Rng, w *world) {
	st, _ := fastTLSOnce()
	li, err := w.nodes[2].Listen("raw", st)
	if err != nil {
		res.viol("Listen: "+err.Error(), "service-setup")
		return
	}
	defer func() { go func() { _ = li.Close() }() }()
	type accRes struct {
		conn net.Conn
		err  error
	}
	results := make(chan accRes, 8)
	go func() {
		for {
			cn, err := li.Accept()
			if err != nil && strings.Contains(err.Error(), "listener closed") {
				return
			}
			results <- accRes{cn, err}
		}
	}()
	// DialContext followed by Close at once: an empty stream, marker and end-of-stream may travel
	// in the same packet
	_, ct := fastTLSOnce()
	for k := 0; k < 25; k++ {
		ctx, cancel := context.WithTimeout(context.Background(), 15*time.Second)
		cn, err := w.nodes[0].DialContext(ctx, w.names[2], "raw", ct)
		cancel()
		if err != nil {
			res.viol("dial failed: "+err.Error(), "stream-dial-failed")
			break
		}
		_ = cn.Close()
		select {
		case ar := <-results:
			if ar.err != nil {
				res.viol(fmt.Sprintf("a stream opened by DialContext and closed at once (no data): Accept returned error %v instead of a connection that reads end-of-stream", ar.err), "marker-refused:empty-stream")
			} else {
				_ = ar.conn.SetReadDeadline(time.Now().Add(10 * time.Second))
				got, eof, rerr := readAll(ar.conn)
				if len(got) != 0 || !eof {
					res.viol(fmt.Sprintf("empty stream: application read %d bytes, eof=%v, err=%v", len(got), eof, rerr), "stream-bytes-differ")
				}
			}
		case <-time.After(10 * time.Second):
			res.viol("empty stream: Accept returned nothing within 10s", "accept-missing")
		}
		_ = cn.CloseConnection()
		res.mu.Lock()
		res.counts = append(res.counts, fmt.Sprintf("empty-stream #%d", k))
		res.mu.Unlock()
	}
	scripts := [][][]byte{
		{{0}, []byte("payload")},
		{{0}},
		{{1}, []byte("payload")},
		{{0, 0, 5}},
		{},
		{{0, 'x'}, []byte("yz")},
		{{255}},
		{[]byte("GET / HTTP/1.0\r\n")},
		append([][]byte{{0}}, r.Bytes(1+r.Intn(900))),
		{{byte(1 + r.Intn(255))}, r.Bytes(r.Intn(50))},
	}
	for k, sc := range scripts {
		pc, err := w.nodes[0].ListenPacket("")
		if err != nil {
			continue
		}
		tr := &quic.Transport{Conn: pc}
		ctx, cancel := context.WithTimeout(context.Background(), 15*time.Second)
		qc, err := tr.Dial(ctx, w.nodes[0].NewAddr(w.names[2], "raw"), &tls.Config{InsecureSkipVerify: true, NextProtos: []string{"netceptor"}, MinVersion: tls.VersionTLS12}, //nolint:gosec
			&quic.Config{HandshakeIdleTimeout: 15 * time.Second, MaxIdleTimeout: 30 * time.Second})
		if err != nil {
			cancel()
			_ = pc.Close()
			res.viol("raw QUIC dial failed: "+err.Error(), "stream-dial-failed")
			continue
		}
		qs, err := qc.OpenStreamSync(ctx)
		cancel()
		if err != nil {
			_ = pc.Close()
			continue
		}
		var calls []string
		var all []byte
		for _, chunk := range sc {
			_, _ = qs.Write(chunk)
			calls = append(calls, "CWrite "+Hx(chunk))
			all = append(all, chunk...)
			time.Sleep(3 * time.Millisecond)
		}
		_ = qs.Close()
		calls = append(calls, "CClose")
		obs := "None"
		what := "Accept returned an error"
		select {
		case ar := <-results:
			if ar.err == nil {
				_ = ar.conn.SetReadDeadline(time.Now().Add(10 * time.Second))
				got, eof, rerr := readAll(ar.conn)
				st := "RErr"
				if eof && rerr == nil {
					st = "REof"
				}
				obs = fmt.Sprintf("(Some (%s, %s))", Hx(got), st)
				what = fmt.Sprintf("Accept returned a connection; the application read %d bytes, eof=%v err=%v", len(got), eof, rerr)
				// property text: the acceptor's application sees exactly the bytes after the marker
				if len(all) == 0 || all[0] != 0 {
					res.viol(fmt.Sprintf("raw client #%d whose stream does not start with the 0 marker (%x...) was accepted", k, head(all, 8)), "marker-not-required")
				} else if string(got) != string(all[1:]) || !eof {
					res.viol(fmt.Sprintf("raw client #%d: wrote marker + %d bytes and closed; application read %d bytes, eof=%v, err=%v", k, len(all)-1, len(got), eof, rerr), "stream-bytes-differ")
				}
				_ = ar.conn.(*netceptor.Conn).CloseConnection()
			} else if len(all) > 0 && all[0] == 0 {
				res.viol(fmt.Sprintf("raw client #%d sent the marker and %d bytes, Accept returned %v", k, len(all)-1, ar.err), "marker-refused")
			}
		case <-time.After(10 * time.Second):
			res.viol(fmt.Sprintf("raw client #%d: Accept returned nothing within 10s", k), "accept-missing")
			obs = ""
		}
		if obs != "" {
			res.mu.Lock()
			res.cases = append(res.cases, caseRec{fmt.Sprintf("CAccept %s %s", CoqList(calls), obs), fmt.Sprintf("raw QUIC client #%d writes %x... (%d bytes) and closes: %s", k, head(all, 8), len(all), what)})
			res.counts = append(res.counts, fmt.Sprintf("raw-accept #%d", k))
			res.mu.Unlock()
		}
		_ = qc.CloseWithError(0, "done")
		_ = pc.Close()
	}
}

func head(b []byte, n int) []byte {
	if len(b) > n {
		return b[:n]
	}
	return b
}

func joinServices(im *Impl, cf *CaseFile, res *svcResult, wg *sync.WaitGroup) {
	wg.Wait()
	im.Violations = append(im.Violations, res.violations...)
	for _, cs := range res.cases {
		cf.Add(cs.term, cs.label)
	}
	for _, k := range res.counts {
		im.Count(k, true)
		im.Hist("service:" + strings.SplitN(k, " ", 2)[0])
	}
	im.Extra["wall_s:"+res.label] = res.wall.Seconds()
}
