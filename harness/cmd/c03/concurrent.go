package main

import (
	"bytes"
	"context"
	"crypto/sha256"
	"errors"
	"fmt"
	"io"
	"net"
	"sync"
	"time"

	. "verifharness/lib"

	"github.com/ansible/receptor/pkg/netceptor"
)

// Several streams at the same time between the same pair of nodes on ONE listener (all accepted
// connections share the listener's socket), in both directions, paced so that they last a few
// seconds.  Meanwhile other streams between the same nodes are aborted in mid-transfer: by the
// dialler (CloseConnection while the server is still sending to it: the server's packets then
// find the dialler's ephemeral service gone and come back as 'service unknown' notices on the
// listener's socket) and by the acceptor (CloseConnection while the dialler is still sending).
// The aborted streams have nothing to do with the others, which must deliver exact bytes and
// end-of-stream in both directions.

type steadyRes struct {
	upGot, downGot   []byte
	upErr, downErr   error // read errors
	upWErr, downWErr error // write errors
	upEOF, downEOF   bool
}

func pacedWrite(w io.WriteCloser, data []byte, chunk int, gap time.Duration) error {
	for off := 0; off < len(data); off += chunk {
		end := off + chunk
		if end > len(data) {
			end = len(data)
		}
		if _, err := w.Write(data[off:end]); err != nil {
			return fmt.Errorf("write at offset %d: %w", off, err)
		}
		time.Sleep(gap)
	}
	return w.Close()
}

func readAll(r io.Reader) ([]byte, bool, error) {
	var out []byte
	buf := make([]byte, 8192)
	for {
		n, err := r.Read(buf)
		out = append(out, buf[:n]...)
		if err != nil {
			if errors.Is(err, io.EOF) {
				return out, true, nil
			}
			return out, false, err
		}
	}
}

func startConcurrent(c *Ctx) (*longResult, *sync.WaitGroup) {
	res := &longResult{label: "concurrent streams on one listener while other streams between the same nodes are aborted"}
	var wg sync.WaitGroup
	wg.Add(1)
	r := NewRng(c.Seed*104729 + 5)
	rounds := 1
	if c.Thorough() {
		rounds = 4
	}
	go func() {
		defer wg.Done()
		t0 := time.Now()
		defer func() { res.wall = time.Since(t0); res.done = true }()
		viol := func(what, sig string) {
			res.violations = append(res.violations, OracleViolation{What: res.label + ": " + what, Sig: sig, Replay: res.label})
		}
		w := buildWorld(c, topoSpec{name: "chain2-concurrent", n: 2, links: [][3]int{{0, 1, 1}}, cutLink: -1}, profile{"delay1ms", 0, 0, time.Millisecond})
		if w == nil {
			viol("mesh did not come up", "mesh-setup")
			return
		}
		defer w.close()
		_, ct := fastTLSOnce()
		const nSteady = 3
		for round := 0; round < rounds; round++ {
			up := make([][]byte, nSteady)
			down := make([][]byte, nSteady)
			results := make([]*steadyRes, nSteady)
			for i := range up {
				up[i], down[i], results[i] = r.Bytes(90000+r.Intn(40000)), r.Bytes(90000+r.Intn(40000)), &steadyRes{}
			}
			var streams sync.WaitGroup
			var mu sync.Mutex
			// the server
			stop := make(chan struct{})
			go func() {
				for {
					var ac net.Conn
					select {
					case ac = <-w.acc:
					case <-stop:
						return
					}
					go func(ac net.Conn) {
						hdr := make([]byte, 2)
						if _, err := io.ReadFull(ac, hdr); err != nil {
							_ = ac.(*netceptor.Conn).CloseConnection()
							return
						}
						switch hdr[0] {
						case 'S': // steady, both directions
							i := int(hdr[1])
							var two sync.WaitGroup
							two.Add(2)
							go func() {
								defer two.Done()
								got, eof, err := readAll(ac)
								mu.Lock()
								results[i].upGot, results[i].upEOF, results[i].upErr = got, eof, err
								mu.Unlock()
							}()
							go func() {
								defer two.Done()
								err := pacedWrite(ac, down[i], 1000, 18*time.Millisecond)
								mu.Lock()
								results[i].downWErr = err
								mu.Unlock()
							}()
							two.Wait()
							streams.Done()
						case 'F': // the dialler will abort: send until it is gone
							blk := bytes.Repeat([]byte("0123456789abcdef"), 1024)
							for {
								if _, err := ac.Write(blk); err != nil {
									break
								}
							}
							_ = ac.(*netceptor.Conn).CloseConnection()
						case 'A': // this side aborts while the dialler is still sending
							_, _ = io.CopyN(io.Discard, ac, 150000)
							_ = ac.(*netceptor.Conn).CloseConnection()
						}
					}(ac)
				}
			}()
			dial := func() (*netceptor.Conn, error) {
				ctx, cancel := context.WithTimeout(context.Background(), 10*time.Second)
				defer cancel()
				return w.nodes[0].DialContext(ctx, w.names[1], "stream", ct)
			}
			var steadyConns []*netceptor.Conn
			for i := 0; i < nSteady; i++ {
				cn, err := dial()
				if err != nil {
					viol("dial failed: "+err.Error(), "stream-dial-failed")
					close(stop)
					return
				}
				steadyConns = append(steadyConns, cn)
				streams.Add(2)
				i := i
				if _, err := cn.Write([]byte{'S', byte(i)}); err != nil {
					viol("write failed: "+err.Error(), "stream-write-error")
				}
				go func() {
					defer streams.Done()
					var two sync.WaitGroup
					two.Add(2)
					go func() {
						defer two.Done()
						got, eof, err := readAll(cn)
						mu.Lock()
						results[i].downGot, results[i].downEOF, results[i].downErr = got, eof, err
						mu.Unlock()
					}()
					go func() {
						defer two.Done()
						err := pacedWrite(cn, up[i], 1000, 18*time.Millisecond)
						mu.Lock()
						results[i].upWErr = err
						mu.Unlock()
					}()
					two.Wait()
				}()
			}
			// meanwhile: unrelated streams, aborted in mid-transfer
			aborted := 0
			for k := 0; k < 5; k++ {
				time.Sleep(time.Duration(200+r.Intn(250)) * time.Millisecond)
				cn, err := dial()
				if err != nil {
					viol("dial of a stream to be aborted failed: "+err.Error(), "stream-dial-failed")
					continue
				}
				if k%3 == 2 {
					_, _ = cn.Write([]byte{'A', 0})
					blk := bytes.Repeat([]byte("fedcba9876543210"), 1024)
					for {
						_ = cn.SetWriteDeadline(time.Now().Add(5 * time.Second))
						if _, err := cn.Write(blk); err != nil {
							break
						}
					}
					_ = cn.CloseConnection()
				} else {
					_, _ = cn.Write([]byte{'F', 0})
					_, _ = io.CopyN(io.Discard, cn, int64(100000+r.Intn(300000)))
					_ = cn.CloseConnection() // the server is still sending
				}
				aborted++
			}
			done := make(chan struct{})
			go func() { streams.Wait(); close(done) }()
			select {
			case <-done:
			case <-time.After(60 * time.Second):
				viol("the steady streams did not finish within 60s", "stream-stalled")
				close(stop)
				return
			}
			close(stop)
			mu.Lock()
			for i, sr := range results {
				for _, d := range []struct {
					dir  string
					sent []byte
					got  []byte
					eof  bool
					rerr error
					werr error
				}{{"dialler->acceptor", up[i], sr.upGot, sr.upEOF, sr.upErr, sr.upWErr}, {"acceptor->dialler", down[i], sr.downGot, sr.downEOF, sr.downErr, sr.downWErr}} {
					what := fmt.Sprintf("stream %d %s (only OTHER streams between these nodes were aborted, %d of them)", i, d.dir, aborted)
					switch {
					case d.werr != nil:
						viol(fmt.Sprintf("%s: writer failed: %v (reader has %d of %d bytes, eof=%v)", what, d.werr, len(d.got), len(d.sent), d.eof), "stream-write-error:unrelated-stream-aborted")
					case d.rerr != nil:
						viol(fmt.Sprintf("%s: reader got error %v after %d of %d bytes", what, d.rerr, len(d.got), len(d.sent)), "stream-read-error:unrelated-stream-aborted")
					case sha256.Sum256(d.got) != sha256.Sum256(d.sent):
						viol(fmt.Sprintf("%s: %d bytes written, %d read (prefix intact: %v, end-of-stream seen: %v)", what, len(d.sent), len(d.got), bytes.HasPrefix(d.sent, d.got), d.eof), "stream-bytes-differ:unrelated-stream-aborted")
					case !d.eof:
						viol(what+": all bytes arrived but no end-of-stream", "stream-no-eof")
					}
				}
			}
			mu.Unlock()
			for _, cn := range steadyConns {
				_ = cn.CloseConnection()
			}
		}
	}()
	return res, &wg
}
