package main

import (
	"bytes"
	"context"
	"crypto/sha256"
	"fmt"
	"net"
	"sync"
	"sync/atomic"
	"time"

	. "verifharness/lib"

	"github.com/ansible/receptor/pkg/netceptor"
)

// A transient routing problem in mid-transfer: for a few hundred milliseconds the datagrams of
// one end arrive at the next node without hop budget (as in a routing loop or while routes
// change), so that node answers every one of them with a 'message expired' notice to the
// sender's socket.  The peer has not gone away: the stream must carry on (QUIC retransmits once
// the window closes) and deliver exact bytes and end-of-stream in both directions.
func startExpiry(c *Ctx) (*longResult, *sync.WaitGroup) {
	res := &longResult{label: "3-node line; for 300 ms the acceptor's, later the dialler's datagrams expire in transit"}
	var wg sync.WaitGroup
	wg.Add(1)
	r := NewRng(c.Seed*32452843 + 11)
	go func() {
		defer wg.Done()
		t0 := time.Now()
		defer func() { res.wall = time.Since(t0); res.done = true }()
		viol := func(what, sig string) {
			res.violations = append(res.violations, OracleViolation{What: res.label + ": " + what, Sig: sig, Replay: res.label})
		}
		w := buildWorld(c, topoSpec{name: "chain3-expiry", n: 3, links: [][3]int{{0, 1, 1}, {1, 2, 1}}, cutLink: -1}, profile{"clean", 0, 0, 0})
		if w == nil {
			viol("mesh did not come up", "mesh-setup")
			return
		}
		defer w.close()
		// what node 2 sends towards node 1, and what node 0 sends towards node 1
		var fromAcceptor, fromDialler atomic.Bool
		var expired atomic.Int64
		zeroHops := func(on *atomic.Bool) func([]byte) ([][]byte, time.Duration) {
			return func(b []byte) ([][]byte, time.Duration) {
				if on.Load() && len(b) > 36 && b[0] == netceptor.MsgTypeData {
					cp := append([]byte{}, b...)
					cp[1] = 0 // no hop budget left: the next node cannot forward it
					expired.Add(1)
					return [][]byte{cp}, 0
				}
				return [][]byte{b}, 0
			}
		}
		w.links[1].EndB.SetFilter(zeroHops(&fromAcceptor))
		w.links[0].EndA.SetFilter(zeroHops(&fromDialler))
		_, ct := fastTLSOnce()
		ctx, cancel := context.WithTimeout(context.Background(), 12*time.Second)
		conn, err := w.nodes[0].DialContext(ctx, w.names[2], "stream", ct)
		cancel()
		if err != nil {
			viol("dial failed: "+err.Error(), "stream-dial-failed")
			return
		}
		var ac net.Conn
		select {
		case ac = <-w.acc:
		case <-time.After(10 * time.Second):
			viol("connection was not accepted", "stream-accept-missing")
			return
		}
		up, down := r.Bytes(110000+r.Intn(30000)), r.Bytes(110000+r.Intn(30000))
		go func() {
			time.Sleep(500 * time.Millisecond)
			fromAcceptor.Store(true)
			time.Sleep(300 * time.Millisecond)
			fromAcceptor.Store(false)
			time.Sleep(500 * time.Millisecond)
			fromDialler.Store(true)
			time.Sleep(300 * time.Millisecond)
			fromDialler.Store(false)
		}()
		type side struct {
			got  []byte
			eof  bool
			rerr error
			werr error
		}
		var atAcc, atDial side
		var four sync.WaitGroup
		four.Add(4)
		go func() { defer four.Done(); atAcc.got, atAcc.eof, atAcc.rerr = readAll(ac) }()
		go func() { defer four.Done(); atDial.got, atDial.eof, atDial.rerr = readAll(conn) }()
		go func() { defer four.Done(); atAcc.werr = pacedWrite(conn, up, 1000, 18*time.Millisecond) }()
		go func() { defer four.Done(); atDial.werr = pacedWrite(ac, down, 1000, 18*time.Millisecond) }()
		done := make(chan struct{})
		go func() { four.Wait(); close(done) }()
		select {
		case <-done:
		case <-time.After(60 * time.Second):
			viol("transfer not finished after 60s", "stream-stalled")
			return
		}
		for _, d := range []struct {
			dir  string
			sent []byte
			s    side
		}{{"dialler->acceptor", up, atAcc}, {"acceptor->dialler", down, atDial}} {
			what := fmt.Sprintf("%s (%d datagrams were answered with 'message expired')", d.dir, expired.Load())
			switch {
			case d.s.werr != nil:
				viol(fmt.Sprintf("%s: writer failed: %v (reader has %d of %d bytes, eof=%v)", what, d.s.werr, len(d.s.got), len(d.sent), d.s.eof), "stream-write-error:after-expiry-notices")
			case d.s.rerr != nil:
				viol(fmt.Sprintf("%s: reader got error %v after %d of %d bytes", what, d.s.rerr, len(d.s.got), len(d.sent)), "stream-read-error:after-expiry-notices")
			case sha256.Sum256(d.s.got) != sha256.Sum256(d.sent):
				viol(fmt.Sprintf("%s: %d bytes written, %d read (prefix intact: %v, end-of-stream seen: %v)", what, len(d.sent), len(d.s.got), bytes.HasPrefix(d.sent, d.s.got), d.s.eof), "stream-bytes-differ:after-expiry-notices")
			case !d.s.eof:
				viol(what+": all bytes arrived but no end-of-stream", "stream-no-eof")
			}
		}
		if expired.Load() == 0 {
			viol("no datagram fell into the expiry windows: the scenario tested nothing", "scenario-vacuous")
		}
		_ = conn.CloseConnection()
	}()
	return res, &wg
}
