package main

import (
	"bytes"
	"context"
	"errors"
	"fmt"
	"io"
	"net"
	"sync"
	"time"

	. "verifharness/lib"

	"github.com/ansible/receptor/pkg/netceptor"
)

// The writing side ends the WHOLE connection (Conn.CloseConnection, as the remote-work code does
// after its exchanges) right after its writes and its Close, while part of what it wrote has not
// been taken by the reading application yet: the reader starts late or reads slowly (the data
// sits unread in its node), or the links lose, delay and reorder datagrams (the data is in flight
// or waits for a retransmission that will never be made, and the connection's end overtakes it).
// Whatever was not delivered is gone with the connection.  The property text still binds what the
// reader is told: the bytes it is given are a prefix of the bytes written, and end-of-stream means
// the writer closed after all data, so a reader told end-of-stream (io.EOF) has EVERY written
// byte; if it has not, its reads must end with an error.  Both directions (the dialler writes /
// the acceptor writes), with and without Close before CloseConnection.

type abruptSpec struct {
	writerDials bool          // the dialling side writes (and ends the connection)
	size        int           // bytes written
	readerDelay time.Duration // before the first Read
	readBuf     int           // size of the reader's buffer
	readGap     time.Duration // pause between Reads
	withClose   bool          // Close before CloseConnection
	closeGap    time.Duration // between the last write/Close and CloseConnection
}

type abruptRes struct {
	spec    abruptSpec
	data    []byte
	sizes   []int // the successful writes
	werr    error
	closed  bool // Close was called and returned nil
	got     []byte
	chunks  [][]byte
	eof     bool
	rerr    error
	stalled bool
}

func (s abruptSpec) String() string {
	dir := "acceptor writes"
	if s.writerDials {
		dir = "dialler writes"
	}
	cl := "Write, Close, CloseConnection"
	if !s.withClose {
		cl = "Write, CloseConnection (no Close)"
	}
	return fmt.Sprintf("%s %d bytes: %s after %s; reader starts after %s, %d-byte reads every %s", dir, s.size, cl, s.closeGap, s.readerDelay, s.readBuf, s.readGap)
}

func abruptSpecs(r *Rng, n int, lossy bool) []abruptSpec {
	var out []abruptSpec
	// hand-picked first: the reader starts seconds after the connection was ended
	out = append(out,
		abruptSpec{writerDials: true, size: 200 * 1024, readerDelay: 2500 * time.Millisecond, readBuf: 8192, withClose: true},
		abruptSpec{writerDials: false, size: 1500, readerDelay: 2 * time.Second, readBuf: 512, withClose: true})
	for len(out) < n {
		s := abruptSpec{writerDials: r.Chance(50), withClose: !r.Chance(20), readBuf: 1 + r.Intn(8192)}
		switch r.Intn(3) {
		case 0:
			s.size = r.Intn(2049) // small: also a Coq case
		case 1:
			s.size = 2049 + r.Intn(60000)
		default:
			s.size = 60000 + r.Intn(240000) // below the initial flow-control window: Write never waits for the reader
		}
		switch r.Intn(4) {
		case 0: // prompt reader: only what is in flight / lost can be discarded
		case 1:
			s.readerDelay = time.Duration(50+r.Intn(400)) * time.Millisecond
		case 2:
			s.readerDelay = time.Duration(1000+r.Intn(2000)) * time.Millisecond
		default: // prompt but slow
			s.readGap = time.Duration(1+r.Intn(8)) * time.Millisecond
			s.readBuf = 64 + r.Intn(1024)
		}
		if !lossy && s.readerDelay == 0 && s.readGap == 0 {
			s.readGap = 2 * time.Millisecond
		}
		switch r.Intn(4) {
		case 0, 1:
		case 2:
			s.closeGap = time.Duration(1+r.Intn(10)) * time.Millisecond
		default:
			s.closeGap = time.Duration(20+r.Intn(200)) * time.Millisecond
		}
		out = append(out, s)
	}
	return out
}

// runAbrupt: one mesh, all transfers of specs at the same time (each on its own connection).
func runAbrupt(c *Ctx, r *Rng, spec topoSpec, p profile, specs []abruptSpec) ([]*abruptRes, error) {
	w := buildWorld(c, spec, p)
	if w == nil {
		return nil, errors.New("mesh did not come up")
	}
	defer w.close()
	_, ct := fastTLSOnce()
	var results []*abruptRes
	var all sync.WaitGroup
	for _, sp := range specs {
		ctx, cancel := context.WithTimeout(context.Background(), 20*time.Second)
		dc, err := w.nodes[0].DialContext(ctx, w.names[spec.n-1], "stream", ct)
		cancel()
		if err != nil {
			return nil, fmt.Errorf("dial failed: %w", err)
		}
		var ac net.Conn
		select {
		case ac = <-w.acc:
		case <-time.After(20 * time.Second):
			return nil, errors.New("connection was not accepted within 20s")
		}
		var wr *netceptor.Conn
		var rd net.Conn
		if sp.writerDials {
			wr, rd = dc, ac
		} else {
			wr, rd = ac.(*netceptor.Conn), dc
		}
		res := &abruptRes{spec: sp, data: r.Bytes(sp.size)}
		results = append(results, res)
		wseed := r.U64()
		all.Add(1)
		go func() {
			defer all.Done()
			readerDone := make(chan struct{})
			go func() { // the reading application
				defer close(readerDone)
				time.Sleep(res.spec.readerDelay)
				_ = rd.SetReadDeadline(time.Now().Add(40 * time.Second))
				buf := make([]byte, res.spec.readBuf)
				for {
					n, err := rd.Read(buf)
					if n > 0 {
						res.got = append(res.got, buf[:n]...)
						if res.spec.size <= 2048 {
							res.chunks = append(res.chunks, append([]byte{}, buf[:n]...))
						}
					}
					if err != nil {
						if errors.Is(err, io.EOF) {
							res.eof = true
						} else {
							res.rerr = err
						}
						return
					}
					if res.spec.readGap > 0 {
						time.Sleep(res.spec.readGap)
					}
				}
			}()
			// the writing application
			wr.SetWriteDeadline(time.Now().Add(30 * time.Second)) //nolint:errcheck
			wrng := NewRng(wseed)
			for off := 0; off < len(res.data); {
				n := 1 + wrng.Intn(32768)
				if off+n > len(res.data) {
					n = len(res.data) - off
				}
				m, err := wr.Write(res.data[off : off+n])
				if err == nil && m != n {
					err = fmt.Errorf("short write: %d of %d", m, n)
				}
				if err != nil {
					res.werr = fmt.Errorf("write at offset %d: %w", off, err)
					break
				}
				res.sizes = append(res.sizes, n)
				off += n
			}
			if res.werr == nil && res.spec.withClose {
				if err := wr.Close(); err != nil {
					res.werr = fmt.Errorf("close: %w", err)
				} else {
					res.closed = true
				}
			}
			if res.spec.closeGap > 0 {
				time.Sleep(res.spec.closeGap)
			}
			_ = wr.CloseConnection()
			select {
			case <-readerDone:
			case <-time.After(100 * time.Second): // the reader has a 40 s deadline on its reads
				res.stalled = true
			}
			if c, ok := rd.(*netceptor.Conn); ok {
				_ = c.CloseConnection()
			}
		}()
	}
	all.Wait()
	return results, nil
}

func startAbrupt(c *Ctx) (*longResult, *sync.WaitGroup) {
	res := &longResult{label: "the writer ends the connection (CloseConnection) right after its writes while the reader is late or slow, or the links lose and reorder"}
	var wg sync.WaitGroup
	wg.Add(1)
	r := NewRng(c.Seed*15485863 + 17)
	nPer := 7
	if c.Thorough() {
		nPer = 24
	}
	go func() {
		defer wg.Done()
		t0 := time.Now()
		defer func() { res.wall = time.Since(t0); res.done = true }()
		viol := func(what, sig string, replay interface{}) {
			res.violations = append(res.violations, OracleViolation{What: res.label + ": " + what, Sig: sig, Replay: replay})
		}
		type meshRun struct {
			spec  topoSpec
			p     profile
			lossy bool
		}
		runs := []meshRun{
			{topoSpec{name: "chain2-abrupt", n: 2, links: [][3]int{{0, 1, 1}}, cutLink: -1}, profile{"clean", 0, 0, 0}, false},
			{topoSpec{name: "chain3-abrupt", n: 3, links: [][3]int{{0, 1, 1}, {1, 2, 1}}, cutLink: -1}, profile{"drop8dup2delay20ms", 8, 2, 20 * time.Millisecond}, true},
		}
		var mu sync.Mutex
		var both sync.WaitGroup
		judged, discarded, early := 0, 0, 0
		for ri, mr := range runs {
			mr := mr
			rr := NewRng(r.U64() + uint64(ri))
			both.Add(1)
			go func() {
				defer both.Done()
				var out []*abruptRes
				var err error
				// a verdict that rests on something not happening in time (mesh not up, no accept,
				// a Read that outlives its deadline) is re-tried once from scratch
				for attempt := 0; attempt < 2; attempt++ {
					out, err = runAbrupt(c, rr, mr.spec, mr.p, abruptSpecs(rr, nPer, mr.lossy))
					stalled := false
					for _, a := range out {
						stalled = stalled || a.stalled
					}
					if err == nil && !stalled {
						break
					}
				}
				mu.Lock()
				defer mu.Unlock()
				if err != nil {
					viol(fmt.Sprintf("%s/%s: %v (twice)", mr.spec.name, mr.p.name, err), "mesh-setup", mr.spec.name)
					return
				}
				for _, a := range out {
					what := fmt.Sprintf("%s/%s, %s", mr.spec.name, mr.p.name, a.spec)
					judged++
					if a.stalled {
						viol(what+": the reader's Read neither returned data, end-of-stream nor an error 60 s after its deadline (twice)", "stream-stalled:connection-ended-by-writer", what)
						continue
					}
					end := "no end"
					switch {
					case a.eof:
						end = "end-of-stream (io.EOF)"
					case a.rerr != nil:
						end = "error " + a.rerr.Error()
					}
					written := 0
					for _, n := range a.sizes {
						written += n
					}
					switch {
					case !bytes.HasPrefix(a.data, a.got):
						viol(fmt.Sprintf("%s: the %d bytes read are not a prefix of the %d bytes written (first difference at offset %d), then %s", what, len(a.got), written, firstDiff(a.data, a.got), end), "stream-bytes-differ:connection-ended-by-writer", what)
					case a.eof && len(a.got) < written:
						early++
						viol(fmt.Sprintf("%s: the reader was told end-of-stream (io.EOF) after %d of the %d bytes written (writer error: %v): silent truncation, the rest went away with the connection and no error was reported", what, len(a.got), written, a.werr), "stream-eof-before-all-data:connection-ended-by-writer", what)
					case a.eof && !a.closed:
						viol(fmt.Sprintf("%s: the reader was told end-of-stream (io.EOF) although the writer never closed its side (%d of %d bytes read)", what, len(a.got), written), "stream-eof-without-close:connection-ended-by-writer", what)
					case !a.eof && a.rerr == nil:
						viol(what+": the reader's loop ended without end-of-stream and without an error", "stream-no-end", what)
					}
					if !a.eof && len(a.got) < written {
						discarded++
					}
					if a.spec.size <= 2048 {
						var calls, reads []string
						off := 0
						for _, n := range a.sizes {
							calls = append(calls, "CWrite "+Hx(a.data[off:off+n]))
							off += n
						}
						if a.closed {
							calls = append(calls, "CClose")
						}
						for _, ch := range a.chunks {
							reads = append(reads, fmt.Sprintf("mkrd %s ROk", Hx(ch)))
						}
						if a.eof {
							reads = append(reads, "mkrd [] REof")
						} else {
							reads = append(reads, "mkrd [] RErr")
						}
						res.cases = append(res.cases, caseRec{fmt.Sprintf("CAbort %s %s", CoqList(calls), CoqList(reads)),
							fmt.Sprintf("%s: %d bytes written, %d read, then %s", what, written, len(a.got), end)})
					}
				}
			}()
		}
		both.Wait()
		abruptStats = map[string]int{"judged": judged, "reader_lost_data_and_got_an_error": discarded, "early_eof": early}
	}()
	return res, &wg
}

// filled by startAbrupt's goroutine before its WaitGroup is released
var abruptStats map[string]int
