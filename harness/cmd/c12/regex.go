package main

// The regular-expression dialect of Model/Regex.v on the Go side: ASTs are generated here,
// printed once as a Go regexp pattern (what goes into the firewall rule) and once as a Coq term
// (what the model is evaluated on).  Also: sampling of texts inside / just outside the language.

import (
	"fmt"
	"strings"

	. "verifharness/lib"
)

const (
	kEps = iota
	kSet
	kCat
	kAlt
	kStar
	kPlus
	kOpt
	kGroup
)

const (
	csChar = iota
	csAny
	csSet
)

type Cset struct {
	Kind int
	C    rune
	Neg  bool
	Rs   [][2]rune
}

type Re struct {
	Kind int
	Cs   *Cset
	A, B *Re
}

// alphabet of pattern characters and packet texts: plain letters, regexp metacharacters (printed
// escaped), the slash that delimits patterns, newline (which "." does not match), a capital (case
// sensitivity) and two non-ASCII runes (Go's regexp works on runes, the model on code points)
var alphabet = []rune{'a', 'b', 'c', 'a', 'b', 'c', 'd', '1', '-', '.', '/', '|', '$', '^', '(', ')', '*', '[', ' ', '\n', 'A', 'é', '世'}

func genChar(r *Rng) rune { return alphabet[r.Intn(len(alphabet))] }

func genCset(r *Rng) *Cset {
	switch r.Intn(10) {
	case 0, 1:
		return &Cset{Kind: csAny}
	case 2, 3, 4:
		n := 1 + r.Intn(3)
		cs := &Cset{Kind: csSet, Neg: r.Chance(30)}
		for i := 0; i < n; i++ {
			lo := genChar(r)
			hi := lo
			if r.Chance(50) {
				hi = lo + rune(r.Intn(4))
			}
			cs.Rs = append(cs.Rs, [2]rune{lo, hi})
		}
		return cs
	default:
		return &Cset{Kind: csChar, C: genChar(r)}
	}
}

func genRe(r *Rng, depth int) *Re {
	if depth <= 0 || r.Chance(25) {
		if r.Chance(6) {
			return &Re{Kind: kEps}
		}
		return &Re{Kind: kSet, Cs: genCset(r)}
	}
	switch r.Intn(12) {
	case 0, 1, 2, 3:
		return &Re{Kind: kCat, A: genRe(r, depth-1), B: genRe(r, depth-1)}
	case 4, 5, 6:
		return &Re{Kind: kAlt, A: genRe(r, depth-1), B: genRe(r, depth-1)}
	case 7:
		return &Re{Kind: kStar, A: genRe(r, depth-1)}
	case 8:
		return &Re{Kind: kPlus, A: genRe(r, depth-1)}
	case 9:
		return &Re{Kind: kOpt, A: genRe(r, depth-1)}
	case 10:
		return &Re{Kind: kGroup, A: genRe(r, depth-1)}
	default:
		return &Re{Kind: kSet, Cs: genCset(r)}
	}
}

// a literal word as a regexp (concatenation of characters)
func wordRe(w string) *Re {
	var out *Re
	for _, c := range w {
		x := &Re{Kind: kSet, Cs: &Cset{Kind: csChar, C: c}}
		if out == nil {
			out = x
		} else {
			out = &Re{Kind: kCat, A: out, B: x}
		}
	}
	if out == nil {
		return &Re{Kind: kEps}
	}
	return out
}

func escRune(c rune) string { return fmt.Sprintf(`\x{%X}`, c) }

func printChar(c rune) string {
	if (c >= 'a' && c <= 'z') || (c >= 'A' && c <= 'Z') || (c >= '0' && c <= '9') || c == '/' || c == ' ' || c == '-' || c > 127 {
		return string(c)
	}
	return escRune(c)
}

// printRe prints the AST as Go regexp syntax.  level: 0 = alternation allowed, 1 = concatenation
// allowed, 2 = operand of a postfix operator (atoms only).  Non-capturing groups are used for
// bracketing so that RGroup is the only capturing group.
func printRe(x *Re, level int) string {
	wrap := func(s string, need bool) string {
		if need {
			return "(?:" + s + ")"
		}
		return s
	}
	switch x.Kind {
	case kEps:
		return "(?:)"
	case kSet:
		switch x.Cs.Kind {
		case csChar:
			return printChar(x.Cs.C)
		case csAny:
			return "."
		default:
			if len(x.Cs.Rs) == 0 {
				if x.Cs.Neg {
					return "(?s:.)"
				}
				return `[^\x{0}-\x{10FFFF}]`
			}
			var sb strings.Builder
			sb.WriteString("[")
			if x.Cs.Neg {
				sb.WriteString("^")
			}
			for _, rg := range x.Cs.Rs {
				sb.WriteString(escRune(rg[0]))
				if rg[1] != rg[0] {
					sb.WriteString("-" + escRune(rg[1]))
				}
			}
			sb.WriteString("]")
			return sb.String()
		}
	case kCat:
		return wrap(printRe(x.A, 1)+printRe(x.B, 1), level > 1)
	case kAlt:
		return wrap(printRe(x.A, 0)+"|"+printRe(x.B, 0), level > 0)
	case kStar:
		return wrap(printRe(x.A, 2)+"*", level > 1)
	case kPlus:
		return wrap(printRe(x.A, 2)+"+", level > 1)
	case kOpt:
		return wrap(printRe(x.A, 2)+"?", level > 1)
	case kGroup:
		return "(" + printRe(x.A, 0) + ")"
	}
	panic("printRe")
}

func coqRe(x *Re) string {
	switch x.Kind {
	case kEps:
		return "REps"
	case kSet:
		switch x.Cs.Kind {
		case csChar:
			return fmt.Sprintf("(RSet (CsChar %d))", x.Cs.C)
		case csAny:
			return "(RSet CsAny)"
		default:
			rs := make([]string, len(x.Cs.Rs))
			for i, rg := range x.Cs.Rs {
				rs[i] = fmt.Sprintf("RG %d %d", rg[0], rg[1])
			}
			return fmt.Sprintf("(RSet (CsSet %s %s))", CoqBool(x.Cs.Neg), CoqList(rs))
		}
	case kCat:
		return "(RCat " + coqRe(x.A) + " " + coqRe(x.B) + ")"
	case kAlt:
		return "(RAlt " + coqRe(x.A) + " " + coqRe(x.B) + ")"
	case kStar:
		return "(RStar " + coqRe(x.A) + ")"
	case kPlus:
		return "(RPlus " + coqRe(x.A) + ")"
	case kOpt:
		return "(ROpt " + coqRe(x.A) + ")"
	case kGroup:
		return "(RGroup " + coqRe(x.A) + ")"
	}
	panic("coqRe")
}

func topAlt(x *Re) bool { return x.Kind == kAlt }

func inCset(cs *Cset, c rune) bool {
	switch cs.Kind {
	case csChar:
		return c == cs.C
	case csAny:
		return c != '\n'
	default:
		in := false
		for _, rg := range cs.Rs {
			if rg[0] <= c && c <= rg[1] {
				in = true
			}
		}
		return in != cs.Neg
	}
}

// sample draws a text of the language of x (ok=false when a character class is empty)
func sample(r *Rng, x *Re) (string, bool) {
	switch x.Kind {
	case kEps:
		return "", true
	case kSet:
		if x.Cs.Kind == csChar {
			return string(x.Cs.C), true
		}
		if x.Cs.Kind == csSet && !x.Cs.Neg && len(x.Cs.Rs) > 0 && r.Chance(70) {
			rg := x.Cs.Rs[r.Intn(len(x.Cs.Rs))]
			return string(rg[0] + rune(r.Intn(int(rg[1]-rg[0])+1))), true
		}
		for i := 0; i < 20; i++ {
			c := genChar(r)
			if inCset(x.Cs, c) {
				return string(c), true
			}
		}
		return "", false
	case kCat:
		a, ok1 := sample(r, x.A)
		b, ok2 := sample(r, x.B)
		return a + b, ok1 && ok2
	case kAlt:
		if r.Bool() {
			return sample(r, x.A)
		}
		return sample(r, x.B)
	case kStar, kPlus:
		n := r.Intn(3)
		if x.Kind == kPlus {
			n++
		}
		var sb strings.Builder
		for i := 0; i < n; i++ {
			s, ok := sample(r, x.A)
			if !ok {
				return "", false
			}
			sb.WriteString(s)
		}
		return sb.String(), true
	case kOpt:
		if r.Bool() {
			return "", true
		}
		return sample(r, x.A)
	case kGroup:
		return sample(r, x.A)
	}
	panic("sample")
}

func genText(r *Rng, maxLen int) string {
	n := r.Intn(maxLen + 1)
	var sb strings.Builder
	for i := 0; i < n; i++ {
		sb.WriteRune(genChar(r))
	}
	return sb.String()
}

// perturb makes a near miss of s: junk before/after (what an unanchored alternative lets
// through), one character changed, dropped or doubled
func perturb(r *Rng, s string) string {
	rs := []rune(s)
	switch r.Intn(6) {
	case 0:
		return s + genText(r, 2) + string(genChar(r))
	case 1:
		return string(genChar(r)) + genText(r, 2) + s
	case 2:
		return string(genChar(r)) + s + string(genChar(r))
	case 3:
		if len(rs) > 0 {
			i := r.Intn(len(rs))
			rs[i] = genChar(r)
		}
		return string(rs)
	case 4:
		if len(rs) > 0 {
			i := r.Intn(len(rs))
			rs = append(rs[:i], rs[i+1:]...)
		}
		return string(rs)
	default:
		if len(rs) > 0 {
			i := r.Intn(len(rs))
			rs = append(rs[:i+1], rs[i:]...)
		}
		return string(rs)
	}
}

// coqText prints a Go string (valid UTF-8) as a Coq text: (tx "...") with one string token;
// printable ASCII stands for itself, everything else (and backslash, double quote) is written
// as \HEX; — see Model/Firewall.v [tx]
func coqText(s string) string {
	if s == "" {
		return "[]"
	}
	var sb strings.Builder
	sb.WriteString(`(tx "`)
	for _, c := range s {
		if c >= 32 && c < 127 && c != '\\' && c != '"' {
			sb.WriteRune(c)
		} else {
			fmt.Fprintf(&sb, `\%X;`, c)
		}
	}
	sb.WriteString(`")`)
	return sb.String()
}
