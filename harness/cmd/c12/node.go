package main

// Real nodes: (1) one Netceptor handling single packets as origin / transit / destination with
// the rule set installed (everything that gets past its firewall is collected: forwarded on a fake
// connection, delivered to a listener, or published as a local unreachable notification);
// (2) three nodes in a line over in-process links, one datagram end to end.

import (
	"context"
	"encoding/json"
	"fmt"
	"os"
	"strings"
	"time"

	. "verifharness/lib"

	"github.com/ansible/receptor/pkg/netceptor"
)

func envHist() bool { return os.Getenv("VERIF_C12_HIST") == "1" }

type event struct {
	Out      output
	Data     string
	Sentinel bool
}

type wbNode struct {
	id        string
	n         *netceptor.Netceptor
	cancel    context.CancelFunc
	peer      chan []byte
	events    chan event
	listeners map[string]netceptor.PacketConner
	seq       int
}

const fenceData = "C12-FENCE"

func (h *harness) node(id string) *wbNode {
	if w, ok := h.nodes[id]; ok {
		return w
	}
	ctx, cancel := context.WithCancel(context.Background())
	// defaults except the idle timeout: the fake connection never receives, and a connection timed
	// out by monitorConnectionAging makes forwardMessage drop silently
	n := netceptor.NewWithConsts(ctx, id, 16384, 10*time.Second, 60*time.Second, time.Hour, 30, 24*time.Hour)
	w := &wbNode{id: id, n: n, cancel: cancel, events: make(chan event, 256), listeners: map[string]netceptor.PacketConner{}}
	w.peer, _ = n.VerifAddConn("peer", 1.0, 256)
	sub := n.GetUnreachableBroker().Subscribe()
	go func() {
		for x := range sub {
			u, ok := x.(netceptor.UnreachableNotification)
			if !ok {
				continue
			}
			if u.Problem == fenceData {
				w.events <- event{Sentinel: true}
				continue
			}
			if strings.HasPrefix(u.Problem, "C12#") {
				// one of our own packets addressed to this node's reserved service "unreach": delivered
				w.events <- event{Out: output{P: packet{u.ReceivedFromNode, "", id, "unreach"}}, Data: u.Problem}
				continue
			}
			m := u.UnreachableMessage
			w.events <- event{Out: output{P: packet{u.ReceivedFromNode, "unreach", id, "unreach"}, Notice: &m}}
		}
	}()
	h.nodes[id] = w
	return w
}

func (w *wbNode) listen(svc string) {
	if _, ok := w.listeners[svc]; ok {
		return
	}
	pc, err := w.n.ListenPacket(svc)
	Must(err)
	w.listeners[svc] = pc
	go func() {
		buf := make([]byte, 4096)
		for {
			k, addr, err := pc.ReadFrom(buf)
			if err != nil {
				return
			}
			// Addr has no accessors; String() is "node:service" and the alphabet has no colon
			as := addr.String()
			ci := strings.LastIndex(as, ":")
			d := string(buf[:k])
			w.events <- event{Out: output{P: packet{as[:ci], as[ci+1:], w.id, svc}}, Data: d, Sentinel: d == fenceData}
		}
	}()
}

func (w *wbNode) unlisten(svc string) {
	if pc, ok := w.listeners[svc]; ok {
		_ = pc.Close()
		delete(w.listeners, svc)
	}
}

func (w *wbNode) waitSentinel(what string) []event {
	var evs []event
	for {
		select {
		case e := <-w.events:
			if e.Sentinel {
				return evs
			}
			evs = append(evs, e)
		case <-time.After(20 * time.Second):
			Must(fmt.Errorf("harness: %s fence not seen on node %s", what, w.id))
		}
	}
}

func wireOK(p packet) bool {
	for _, s := range []string{p.FromService, p.ToService} {
		if len(s) > 8 || strings.ContainsRune(s, 0) {
			return false
		}
	}
	for _, s := range []string{p.FromNode, p.ToNode} {
		if strings.EqualFold(s, "localhost") {
			return false
		}
	}
	return true
}

var selfPool = []string{"a", "ab", "zt"}

func listenable(svc string) bool {
	return svc != "" && svc != "ping" && svc != "unreach" && len(svc) <= 8
}

// handle one packet on a real node (whose rules the caller has installed) to the end of
// handleMessageData; returns every packet that left the node because of it.  listening: a
// listener exists for p.ToService (destination role); hops: the packet has hops to live.
func (w *wbNode) handle(p packet, listening, hops bool) ([]output, string) {
	n := w.n
	w.seq++
	tag := fmt.Sprintf("C12#%s#%d", w.id, w.seq)
	rt := map[string]string{}
	if p.ToNode != w.id {
		rt[p.ToNode] = "peer"
	}
	if p.FromNode != w.id {
		rt[p.FromNode] = "peer"
	}
	n.VerifSetRoutingTable(rt)
	Drain(w.peer)
	role := "transit"
	if p.ToNode == w.id {
		role = "destination"
		if listenable(p.ToService) {
			if listening {
				w.listen(p.ToService)
			} else {
				w.unlisten(p.ToService)
			}
		}
	} else if p.FromNode == w.id {
		role = "origin"
	}
	data := []byte(tag)
	if p.ToService == "unreach" {
		data, _ = json.Marshal(netceptor.UnreachableMessage{Problem: tag})
	}
	var hopsToLive byte = 5
	if !hops {
		hopsToLive = 0
	}
	done := make(chan error, 1)
	go func() {
		if role == "origin" {
			// the public sending API: builds the MessageData with FromNode = this node
			done <- n.SendMessageWithHopsToLive(p.FromService, p.ToNode, p.ToService, data, hopsToLive)
			return
		}
		md := p.md()
		md.Data, md.HopsToLive = data, hopsToLive
		done <- n.VerifHandleMessageData(md)
	}()
	var err error
	select {
	case err = <-done:
	case <-time.After(20 * time.Second):
		Must(fmt.Errorf("harness: handleMessageData does not return on node %s for %+v", w.id, p))
	}
	var outs []output
	// (1) forwarded on the connection: synchronous
	for _, b := range Drain(w.peer) {
		if os.Getenv("VERIF_C12_DEBUG") != "" {
			fmt.Fprintf(os.Stderr, "debug %s %+v: peer got %q\n", tag, p, b)
		}
		if len(b) == 0 || b[0] != netceptor.MsgTypeData {
			continue
		}
		md, derr := n.VerifTranslateDataToMessage(b)
		if derr != nil {
			Must(fmt.Errorf("harness: cannot decode forwarded message: %v", derr))
		}
		o := output{P: packet{md.FromNode, md.FromService, md.ToNode, md.ToService}}
		var u netceptor.UnreachableMessage
		switch {
		case json.Unmarshal(md.Data, &u) == nil && u.Problem != "" && u.Problem != tag:
			o.Notice = &u
		case u.Problem == tag || string(md.Data) == tag:
		case len(md.Data) == 0 && md.FromNode == w.id && md.FromService == "ping": // a ping reply
		default:
			continue // not ours
		}
		outs = append(outs, o)
	}
	// (2) local unreachable notifications: fence through the broker (FIFO)
	_ = n.GetUnreachableBroker().Publish(netceptor.UnreachableNotification{UnreachableMessage: netceptor.UnreachableMessage{Problem: fenceData}})
	for _, e := range w.waitSentinel("broker") {
		if e.Data != "" {
			if e.Data == tag && e.Out.P.FromNode == p.FromNode {
				outs = append(outs, output{P: p}) // handleUnreachable keeps the source node only
			}
			continue
		}
		outs = append(outs, e.Out)
	}
	// (3) local delivery: fence through the same listener with the firewall open (the caller
	// re-installs its rules before the next packet)
	if _, ok := w.listeners[p.ToService]; ok && role == "destination" {
		Must(n.AddFirewallRules([]netceptor.FirewallRuleFunc{func(*netceptor.MessageData) netceptor.FirewallResult {
			return netceptor.FirewallResultAccept
		}}, true))
		go func() {
			_ = n.VerifHandleMessageData(&netceptor.MessageData{FromNode: "fence", FromService: "fence", ToNode: w.id, ToService: p.ToService, HopsToLive: 5, Data: []byte(fenceData)})
		}()
		for _, e := range w.waitSentinel("listener") {
			if e.Data == tag {
				outs = append(outs, e.Out)
			}
		}
	}
	es := ""
	if err != nil {
		es = err.Error()
	}
	return outs, role + "|" + es
}

func sameOutputs(a, b []output) bool {
	if len(a) != len(b) {
		return false
	}
	for i := range a {
		if a[i].P != b[i].P || (a[i].Notice == nil) != (b[i].Notice == nil) {
			return false
		}
		if a[i].Notice != nil && *a[i].Notice != *b[i].Notice {
			return false
		}
	}
	return true
}

// oracleNodeFull: handleMessageData to its end, from the property's text: the packet is treated as
// its first matching rule dictates, and so is every packet the node originates because of it
// (ping reply, "service unknown" / "message expired" / "blocked by firewall" notices)
func oracleNodeFull(self string, rs []orule, p packet, listening, hops bool) []output {
	if oracleVerdict(rs, p) != "accept" {
		return oracleNode(self, rs, p)
	}
	emit := func(problem string) []output {
		np := packet{self, "unreach", p.FromNode, "unreach"}
		if oracleVerdict(rs, np) != "accept" {
			return nil
		}
		return []output{{P: np, Notice: &netceptor.UnreachableMessage{FromNode: p.FromNode, ToNode: p.ToNode,
			FromService: p.FromService, ToService: p.ToService, Problem: problem}}}
	}
	if p.ToNode == self {
		switch {
		case p.ToService == "ping" && p.FromService == "ping":
			return nil // a reply comes from the ping service; it is not answered
		case p.ToService == "ping":
			return oracleNode(self, rs, packet{self, "ping", p.FromNode, p.FromService})
		case p.ToService == "unreach" || listening:
			return []output{{P: p}}
		case p.FromNode == self:
			return nil
		}
		return emit("service unknown")
	}
	if hops {
		return []output{{P: p}}
	}
	if p.FromService == "unreach" {
		return nil
	}
	return emit("message expired")
}

func (h *harness) nodeCase(gs []grule, fns []netceptor.FirewallRuleFunc, want []orule, p packet) string {
	if !wireOK(p) {
		h.im.Hist("node:skipped-not-wire-representable")
		return ""
	}
	r := h.c.Rng
	self := selfPool[r.Intn(len(selfPool))]
	// a share of the packets is re-addressed so that this node is their destination (some of them to
	// its reserved services) or their origin
	switch x := r.Intn(100); {
	case x < 14:
		p.ToNode = self
	case x < 20:
		p.ToNode, p.ToService = self, []string{"ping", "unreach"}[r.Intn(2)]
		if p.FromNode == self {
			p.FromNode = "b"
		}
		if p.ToService == "ping" && r.Chance(25) {
			p.FromService = "ping" // a ping reply: must not be answered
		}
	case x < 28:
		p.FromNode = self
	}
	listening, hops := true, true
	if p.ToNode == self {
		switch {
		case p.ToService == "ping" && p.FromNode == self:
			// a node pinging itself answers itself: not a firewall scenario (see CPing for the real thing)
			h.im.Hist("node:skipped-local-ping")
			return ""
		case p.ToService == "" || (listenable(p.ToService) && r.Chance(30)):
			listening = false
		}
	} else if r.Chance(12) {
		hops = false
		if r.Chance(35) { // an unreachable notice that runs out of hops: no notice about a notice
			p.FromService = "unreach"
			if r.Bool() {
				p.ToService = "unreach"
			}
		}
	}
	w := h.node(self)
	Must(w.n.AddFirewallRules(fns, true))
	outs, info := w.handle(p, listening, hops)
	role := strings.SplitN(info, "|", 2)[0]
	h.im.Hist("node-role:" + role)
	exp := oracleNodeFull(self, want, p, listening, hops)
	kind := "passes"
	v := oracleVerdict(want, p)
	switch {
	case v == "drop":
		kind = "dropped"
	case v == "reject" && p.FromService == "unreach":
		kind = "rejected-no-notice(unreach)"
	case v == "reject" && len(exp) == 0:
		kind = "rejected-notice-blocked-by-own-rules"
	case v == "reject":
		kind = "rejected-with-notice"
	case p.ToNode == self && p.ToService == "ping":
		kind = "accepted:ping-reply-originated"
	case p.ToNode == self && p.ToService == "unreach":
		kind = "accepted:to-local-unreach-service"
	case p.ToNode == self && !listening:
		kind = "accepted:no-listener(service-unknown-notice-originated)"
	case p.ToNode != self && !hops:
		kind = "accepted:expired(notice-originated)"
	}
	h.im.Hist("node-outcome:" + kind)
	rec := map[string]interface{}{"rules": rulesJSON(gs), "node": self, "packet": p, "role": role, "listener": listening, "hops_left": hops,
		"observed": fmt.Sprint(outs), "expected": fmt.Sprint(exp)}
	h.im.Count(fmt.Sprintf("node %v %s %+v %v %v", rec["rules"], self, p, listening, hops), len(gs) > 0)
	if !sameOutputs(outs, exp) {
		sig := "node-output"
		if hasTopAlt(gs) {
			sig = "node-output:regex-top-level-alternation"
		}
		h.im.Violate(fmt.Sprintf("node %q (%s, listener=%v, hops left=%v) handling %+v lets %v leave; the first matching rules dictate %v", self, role, listening, hops, p, outs, exp), sig, rec)
	}
	if len(h.im.Samples) < 4 {
		h.im.Sample(map[string]interface{}{"kind": "node", "case": rec})
	}
	return fmt.Sprintf("ND %s %s %s %s %s", coqText(self), p.coq(), CoqBool(listening), CoqBool(hops), outsCoq(outs))
}

func outsCoq(outs []output) string {
	os := make([]string, len(outs))
	for i, o := range outs {
		os[i] = o.coq()
	}
	return CoqList(os)
}

// ---------- rule installation histories: AddFirewallRules(rules, clearExisting) ----------

type install struct {
	gs    []grule
	clear bool
}

func (h *harness) historyCases() {
	im, r := h.im, h.c.Rng
	nHist, nEither := 40, 10
	if h.c.Thorough() {
		nHist, nEither = 400, 60
	}
	w := h.node("zt")
	genPkt := func(gs []grule) packet {
		for {
			p := genPacket(r, gs)
			if wireOK(p) && p.FromNode != "zt" && p.ToNode != "zt" {
				return p
			}
		}
	}
	for i := 0; i < nHist; i++ {
		// the first call clears whatever the previous history left (an empty clearing call is a
		// legitimate way to do that and is how a configuration without rules replaces one with rules)
		k := 2 + r.Intn(4)
		hist := make([]install, k)
		var eff []grule // the rules in force, by the meaning of clearExisting
		var all [][]grule
		for j := range hist {
			n := r.Intn(4)
			if r.Chance(25) {
				n = 0
			}
			gs := make([]grule, n)
			for x := range gs {
				gs[x] = genRule(r, false, 1+r.Intn(2))
			}
			hist[j] = install{gs, j == 0 || r.Chance(30)}
			fns, class, detail := parseReal(rulesData(gs))
			if class != "ObsOk" {
				im.Violate("ParseFirewallRules refuses a well-formed rule set: "+detail, "good-rule-refused", rulesJSON(gs))
				return
			}
			if n == 0 && r.Bool() {
				fns = nil
			}
			Must(w.n.AddFirewallRules(fns, hist[j].clear))
			if hist[j].clear {
				eff = nil
			}
			eff = append(eff, gs...)
			all = append(all, gs)
			kind := "append"
			if hist[j].clear {
				kind = "clear"
			}
			if n == 0 {
				kind += "-empty"
			}
			im.Hist("install:" + kind)
		}
		want, _ := oracleRules(eff)
		var nd []string
		var hrec []map[string]interface{}
		hcoq := make([]string, k)
		for j, in := range hist {
			hrec = append(hrec, map[string]interface{}{"rules": rulesJSON(in.gs), "clearExisting": in.clear})
			hcoq[j] = "HI " + rulesCoq(in.gs) + " " + CoqBool(in.clear)
		}
		for x := 0; x < 3; x++ {
			p := genPkt(eff)
			outs, _ := w.handle(p, true, true)
			exp := oracleNode("zt", want, p)
			rec := map[string]interface{}{"history": hrec, "packet": p, "observed": fmt.Sprint(outs), "expected": fmt.Sprint(exp)}
			im.Count(fmt.Sprintf("hist %v", rec), true)
			if !sameOutputs(outs, exp) {
				im.Violate(fmt.Sprintf("after the installation history %v node zt lets %v leave for %+v; the rules in force dictate %v", hrec, outs, p, exp), "install-history", rec)
			}
			nd = append(nd, "PO "+p.coq()+" "+outsCoq(outs))
		}
		h.cf.Add(fmt.Sprintf("CHist %s %s %s %s", tableCoq(all...), CoqList(hcoq), coqText("zt"), CoqList(nd)), fmt.Sprintf("history %v", hrec))
	}
	// rules replaced while traffic flows: every packet is judged by one whole rule set
	for i := 0; i < nEither; i++ {
		ga, gb := make([]grule, 1+r.Intn(3)), make([]grule, r.Intn(3))
		for x := range ga {
			ga[x] = genRule(r, false, 1)
		}
		for x := range gb {
			gb[x] = genRule(r, false, 1)
		}
		fa, ca, _ := parseReal(rulesData(ga))
		fb, cb, _ := parseReal(rulesData(gb))
		if ca != "ObsOk" || cb != "ObsOk" {
			im.Violate("ParseFirewallRules refuses a well-formed rule set", "good-rule-refused", nil)
			return
		}
		wa, _ := oracleRules(ga)
		wb, _ := oracleRules(gb)
		stop, stopped := make(chan struct{}), make(chan struct{})
		Must(w.n.AddFirewallRules(fa, true)) // from here on the rules in force are A or B
		go func() {
			defer close(stopped)
			for {
				select {
				case <-stop:
					return
				default:
				}
				_ = w.n.AddFirewallRules(fa, true)
				_ = w.n.AddFirewallRules(fb, true)
			}
		}()
		for x := 0; x < 6; x++ {
			p := genPkt(append(append([]grule{}, ga...), gb...))
			outs, info := w.handle(p, true, true)
			// the packet is judged by one whole set; the notice it may cause is another packet,
			// judged by one whole set too (not necessarily the same)
			var exps [][]output
			for _, x := range [][]orule{wa, wb} {
				for _, y := range [][]orule{wa, wb} {
					exps = append(exps, oracleNode2("zt", x, y, p))
				}
			}
			rec := map[string]interface{}{"rules_a": rulesJSON(ga), "rules_b": rulesJSON(gb), "packet": p, "observed": fmt.Sprint(outs), "call": info}
			im.Count(fmt.Sprintf("either %v", rec), true)
			if sameOutputs(exps[0], exps[3]) {
				im.Hist("replace-under-traffic:sets-agree")
			} else {
				im.Hist("replace-under-traffic:sets-differ")
			}
			ok := false
			for _, e := range exps {
				ok = ok || sameOutputs(outs, e)
			}
			if !ok {
				im.Violate(fmt.Sprintf("while rule sets A and B replace each other node zt lets %v leave for %+v: neither set dictates that (A: %v, B: %v)", outs, p, exps[0], exps[3]), "install-concurrent", rec)
			}
			h.cf.Add(fmt.Sprintf("CEither %s %s %s %s %s %s", tableCoq(ga, gb), rulesCoq(ga), rulesCoq(gb), coqText("zt"), p.coq(), outsCoq(outs)),
				fmt.Sprintf("either %v", rec))
		}
		close(stop)
		<-stopped
	}
}

func (h *harness) shutdownNodes() {
	for _, w := range h.nodes {
		w.n.Shutdown()
		w.cancel()
	}
	h.nodes = map[string]*wbNode{}
}

// ---------- three real nodes in a line ----------

var chainIDs = []string{"a", "ab", "abc"}
var chainSvcs = []string{"a", "b", "ab", "s-1"}

type chainEv struct {
	Delivered bool
	By        string
	Msg       netceptor.UnreachableMessage
	Tag       string
}

func oracleChain(rss [][]orule, p packet) string {
	for i := range chainIDs {
		switch oracleVerdict(rss[i], p) {
		case "accept":
			continue
		case "drop":
			return "Silent"
		}
		if p.FromService == "unreach" {
			return "Silent"
		}
		np := packet{chainIDs[i], "unreach", p.FromNode, "unreach"}
		for j := i; j >= 0; j-- {
			if oracleVerdict(rss[j], np) != "accept" {
				return "Silent"
			}
		}
		return "Notified " + chainIDs[i]
	}
	return "Delivered"
}

func (h *harness) chainCases() {
	im, r := h.im, h.c.Rng
	nCases := 30
	if h.c.Thorough() {
		nCases = 200
	}
	m := NewMesh(FastConsts())
	defer m.Shutdown()
	for _, id := range chainIDs {
		m.AddNode(id)
	}
	_, err := m.Connect("a", "ab", 1)
	Must(err)
	_, err = m.Connect("ab", "abc", 1)
	Must(err)
	if !m.WaitRoutes(map[string][]string{"a": {"abc", "ab"}, "abc": {"a", "ab"}, "ab": {"a", "abc"}}, 20*time.Second) {
		Must(fmt.Errorf("harness: chain a-ab-abc does not converge"))
	}
	evs := make(chan chainEv, 256)
	for _, svc := range chainSvcs {
		pc, err := m.Nodes["abc"].ListenPacket(svc)
		Must(err)
		go func() {
			buf := make([]byte, 4096)
			for {
				k, _, err := pc.ReadFrom(buf)
				if err != nil {
					return
				}
				evs <- chainEv{Delivered: true, Tag: string(buf[:k])}
			}
		}()
	}
	sub := m.Nodes["a"].GetUnreachableBroker().Subscribe()
	go func() {
		for x := range sub {
			if u, ok := x.(netceptor.UnreachableNotification); ok {
				evs <- chainEv{By: u.ReceivedFromNode, Msg: u.UnreachableMessage}
			}
		}
	}()
	savedN, savedS := nodePool, svcPool
	nodePool, svcPool = []string{"a", "ab", "abc", "ab", "abc", "b"}, []string{"a", "b", "ab", "s-1", "unreach", "unreach"}
	defer func() { nodePool, svcPool = savedN, savedS }()
	for i := 0; i < nCases; i++ {
		gss := make([][]grule, 3)
		rss := make([][]orule, 3)
		p := packet{"a", chainSvcs[r.Intn(len(chainSvcs))], "abc", chainSvcs[r.Intn(len(chainSvcs))]}
		if r.Chance(15) {
			p.FromService = "unreach"
		}
		// most cases: rules at one node only (origin, transit or destination); some: everywhere
		where := r.Intn(4)
		for j := range gss {
			if where == 3 || where == j {
				gss[j] = make([]grule, 1+r.Intn(3))
				for k := range gss[j] {
					gss[j][k] = genRule(r, false, 1+r.Intn(2))
				}
				if r.Chance(60) {
					// one rule aimed at this very packet (so that rejects with a notice are common)
					gss[j][r.Intn(len(gss[j]))] = targetedRule(r, p)
				}
			}
			fns, class, detail := parseReal(rulesData(gss[j]))
			if class != "ObsOk" {
				im.Violate("ParseFirewallRules refuses a well-formed rule set: "+detail, "good-rule-refused", rulesJSON(gss[j]))
				return
			}
			rss[j], _ = oracleRules(gss[j])
			Must(m.Nodes[chainIDs[j]].AddFirewallRules(fns, true))
		}
		exp := oracleChain(rss, p)
		var got string
		for attempt, wait := 0, 300*time.Millisecond; attempt < 2; attempt, wait = attempt+1, 4*time.Second {
			tag := fmt.Sprintf("C12-chain#%d#%d", i, attempt)
			for len(evs) > 0 {
				<-evs
			}
			serr := m.Nodes["a"].SendMessageWithHopsToLive(p.FromService, p.ToNode, p.ToService, []byte(tag), 30)
			got = "Silent"
			deadline := time.After(wait)
		waitLoop:
			for {
				select {
				case e := <-evs:
					if e.Delivered && e.Tag == tag {
						got = "Delivered"
						break waitLoop
					}
					if !e.Delivered && e.Msg.Problem == "blocked by firewall" && e.Msg.FromNode == p.FromNode && e.Msg.ToNode == p.ToNode &&
						e.Msg.FromService == p.FromService && e.Msg.ToService == p.ToService {
						got = "Notified " + e.By
						break waitLoop
					}
				case <-deadline:
					break waitLoop
				}
			}
			_ = serr
			if got == exp {
				break // otherwise look once more with a long wait (a loaded machine is not a finding)
			}
		}
		im.Hist("chain-rules-at:" + []string{"origin", "transit", "destination", "all"}[where])
		im.Hist("chain-outcome:" + strings.SplitN(got, " ", 2)[0])
		rec := map[string]interface{}{"rules_a": rulesJSON(gss[0]), "rules_ab": rulesJSON(gss[1]), "rules_abc": rulesJSON(gss[2]), "packet": p, "observed": got, "expected": exp}
		im.Count(fmt.Sprintf("chain %v", rec), true)
		if got != exp {
			sig := "chain-outcome"
			if hasTopAlt(gss[0]) || hasTopAlt(gss[1]) || hasTopAlt(gss[2]) {
				sig = "chain-outcome:regex-top-level-alternation"
			}
			im.Violate(fmt.Sprintf("a -> ab -> abc: %+v observed %s, the first matching rules dictate %s", p, got, exp), sig, rec)
		}
		nodes := make([]string, 3)
		for j := range nodes {
			nodes[j] = "NR " + coqText(chainIDs[j]) + " " + rulesCoq(gss[j])
		}
		o := got
		if strings.HasPrefix(got, "Notified ") {
			o = "(Notified " + coqText(strings.TrimPrefix(got, "Notified ")) + ")"
		}
		h.cf.Add(fmt.Sprintf("CChain %s %s %s %s", tableCoq(gss...), CoqList(nodes), p.coq(), o), fmt.Sprintf("chain %v", rec))
	}
	for _, id := range chainIDs {
		_ = m.Nodes[id].AddFirewallRules(nil, true)
	}
}

// targetedRule: mostly "reject", one or two fields written so that p matches them
func targetedRule(r *Rng, p packet) grule {
	a := []string{"reject", "reject", "reject", "drop", "accept"}[r.Intn(5)]
	els := []elem{act(randCase(r, "action"), randCase(r, a))}
	ks := []string{"fromservice", "toservice", "tonode", "fromnode"}
	n := 1 + r.Intn(2)
	for i := 0; i < n; i++ {
		k := ks[(r.Intn(2)+2*i)%4]
		v := *p.field(k)
		switch r.Intn(3) {
		case 0:
			els = append(els, lit(k, v))
		case 1:
			els = append(els, rex(k, alt(v, "zt")))
		default:
			els = append(els, rex(k, &Re{Kind: kCat, A: wordRe(v), B: &Re{Kind: kStar, A: &Re{Kind: kSet, Cs: &Cset{Kind: csChar, C: 'q'}}}}))
		}
	}
	return mk(els...)
}

// ---------- corpus: the historical failures and their neighbours ----------

type corpusCase struct {
	rules []grule
	pkts  []packet
}

func mk(elems ...elem) grule {
	g := grule{Elems: elems}
	for i := range g.Elems {
		e := &g.Elems[i]
		if s, ok := e.Val.(string); ok && e.Role != "" && e.Role != "action" && len(s) >= 2 && s[0] == '/' && s[len(s)-1] == '/' {
			e.HasTbl = true
		}
		if e.Bad != "" {
			g.Bad = append(g.Bad, e.Bad)
		}
	}
	return g
}

func act(key, v string) elem { return elem{Key: key, Val: v, Role: "action"} }
func lit(key, v string) elem { return elem{Key: key, Val: v, Role: strings.ToLower(key)} }
func rex(key string, x *Re) elem {
	return elem{Key: key, Val: "/" + printRe(x, 0) + "/", Role: strings.ToLower(key), Ast: x}
}
func badp(key, v, why string) elem {
	return elem{Key: key, Val: v, Role: strings.ToLower(key), Bad: why}
}

func alt(ws ...string) *Re {
	x := wordRe(ws[0])
	for _, w := range ws[1:] {
		x = &Re{Kind: kAlt, A: x, B: wordRe(w)}
	}
	return x
}

func corpusCases() []corpusCase {
	pk := func(fn, fs, tn, ts string) packet { return packet{fn, fs, tn, ts} }
	return []corpusCase{
		// DESIGN §9 row 6: "^a|b$" lets "abc" and "xb" through the anchors
		{[]grule{mk(act("action", "reject"), rex("fromnode", alt("a", "b")))},
			[]packet{pk("abc", "s-1", "zt", "s-1"), pk("xb", "s-1", "zt", "s-1"), pk("a", "s-1", "zt", "s-1"), pk("b", "s-1", "zt", "s-1"), pk("cab", "s-1", "zt", "s-1"), pk("ba", "s-1", "zt", "s-1")}},
		{[]grule{mk(act("Action", "drop"), rex("ToService", alt("a", "b", "c"))), mk(act("action", "accept"))},
			[]packet{pk("zt", "s-1", "b", "xbx"), pk("zt", "s-1", "b", "b"), pk("zt", "s-1", "b", "ax"), pk("zt", "s-1", "b", "xc"), pk("zt", "s-1", "b", "xa")}},
		// row 7: errors of the pattern discarded -> the field disappears -> the rule matches everything
		{[]grule{mk(act("action", "drop"), badp("tonode", "/(/", "malformed-pattern-syntax"))}, []packet{pk("a", "a", "b", "b")}},
		{[]grule{mk(act("action", "drop"), badp("fromnode", "/abc", "malformed-pattern-unterminated"))}, []packet{pk("a", "a", "b", "b")}},
		{[]grule{mk(act("action", "accept"), lit("fromnode", "a")), mk(act("action", "reject"), badp("toservice", "/", "malformed-pattern-lone-slash"))}, []packet{pk("a", "a", "b", "b")}},
		{[]grule{mk(act("action", "reject"), badp("fromservice", "/a)(b/", "malformed-pattern-syntax"))}, []packet{pk("a", "ab", "b", "b")}},
		// the same key twice
		{[]grule{mk(act("Action", "bogus"), elem{Key: "action", Val: "accept", Role: "action", Bad: "duplicate-key"}, lit("fromnode", "a"))}, []packet{pk("a", "a", "b", "b")}},
		{[]grule{mk(act("action", "drop"), lit("FromNode", "a"), elem{Key: "fromnode", Val: "", Role: "fromnode", Bad: "duplicate-key"})}, []packet{pk("b", "a", "b", "b")}},
		// TestFirewallRules' own rules
		{[]grule{mk(act("Action", "drop"), lit("FromNode", "foo"), lit("ToNode", "bar"), lit("ToService", "control"))},
			[]packet{pk("foo", "", "bar", "control"), pk("", "", "", ""), pk("foo", "x", "bar", "control"), pk("foo", "x", "bar", "contro")}},
		{[]grule{mk(act("ACTİON", "Reject"), lit("TOSERVİCE", "control"))}, []packet{pk("a", "a", "zt", "control"), pk("a", "a", "zt", "a")}},
		{[]grule{mk(act("action", "reject"), elem{Key: "fromnode", Val: "//", Role: "fromnode", Ast: &Re{Kind: kEps}})}, []packet{pk("", "a", "zt", "b"), pk("a", "a", "zt", "b")}},
		// reject-all also rejects its own notices; a reject of everything but notices does not
		{[]grule{mk(act("action", "reject"))}, []packet{pk("b", "s-1", "zt", "s-1")}},
		{[]grule{mk(act("action", "accept"), lit("fromservice", "unreach")), mk(act("action", "reject"))}, []packet{pk("b", "s-1", "zt", "s-1"), pk("b", "unreach", "zt", "unreach")}},
	}
}
