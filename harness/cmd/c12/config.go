package main

// Configuration-time refusal, end to end: the real receptor binary is started on a YAML file
// whose `node:` entry carries `firewallrules:`.  A rule set with anything uninterpretable must
// make the process exit with an error before it opens its control socket; a well-formed set
// must come up.

import (
	"encoding/json"
	"fmt"
	"net"
	"os"
	"os/exec"
	"path/filepath"
	"strings"
	"syscall"
	"time"

	. "verifharness/lib"
)

func yamlScalar(v interface{}) (string, bool) {
	switch x := v.(type) {
	case string:
		b, _ := json.Marshal(x) // a JSON string is a YAML double-quoted scalar
		return string(b), true
	case int:
		return fmt.Sprint(x), true
	case bool:
		return fmt.Sprint(x), true
	case nil:
		return "~", true
	case float64:
		return fmt.Sprint(x), true
	case []interface{}:
		return `["a"]`, true
	case map[interface{}]interface{}:
		return `{"a": "b"}`, true
	}
	return "", false
}

func rulesYAML(gs []grule) (string, bool) {
	var sb strings.Builder
	sb.WriteString("    firewallrules:\n")
	for _, g := range gs {
		if len(g.Elems) == 0 {
			sb.WriteString("      - {}\n")
			continue
		}
		for i, e := range g.Elems {
			k, ok1 := yamlScalar(e.Key)
			v, ok2 := yamlScalar(e.Val)
			if !ok1 || !ok2 {
				return "", false
			}
			lead := "        "
			if i == 0 {
				lead = "      - "
			}
			sb.WriteString(lead + k + ": " + v + "\n")
		}
	}
	return sb.String(), true
}

func (h *harness) configCases() {
	im, r := h.im, h.c.Rng
	bin := h.c.Bin
	if bin == "" {
		im.Hist("config:skipped-no-binary")
		return
	}
	if _, err := os.Stat(bin); err != nil {
		im.Hist("config:skipped-no-binary")
		return
	}
	n := 8
	if h.c.Thorough() {
		n = 80
	}
	dir, err := os.MkdirTemp("", "vh-c12-cfg-")
	Must(err)
	defer os.RemoveAll(dir)
	var sets [][]grule
	for i, cs := range corpusCases()[:8] {
		if h.c.Thorough() || i == 0 || i == 2 || i == 3 || i == 4 || i == 6 {
			sets = append(sets, cs.rules)
		}
	}
	sets = append(sets, []grule{{Bad: []string{"no-action"}}}) // `- {}`
	// well-formed sets aimed at the node's own ping (their effect is observed through `ping`)
	for i := 0; i < n/2; i++ {
		gs := []grule{targetedRule(r, packet{cfgNode, "Abcdefgh", cfgNode, "ping"})}
		if r.Bool() {
			gs = append([]grule{genRule(r, false, 1)}, gs...)
		}
		if r.Chance(40) {
			gs = append(gs, targetedRule(r, packet{cfgNode, "ping", cfgNode, "Abcdefgh"}))
		}
		sets = append(sets, gs)
	}
	n += n / 2
	for len(sets) < n {
		k := 1 + r.Intn(3)
		gs := make([]grule, k)
		for j := range gs {
			gs[j] = genRule(r, false, 2)
		}
		if r.Chance(65) {
			gs[r.Intn(k)] = genRule(r, true, 2)
		}
		sets = append(sets, gs)
	}
	for i, gs := range sets {
		y, ok := rulesYAML(gs)
		if !ok || len(gs) == 0 {
			continue
		}
		_, bad := oracleRules(gs)
		sock := filepath.Join(dir, fmt.Sprintf("c%d.sock", i))
		cfg := filepath.Join(dir, fmt.Sprintf("c%d.yml", i))
		data := filepath.Join(dir, "data")
		conf := "---\n- node:\n    id: " + cfgNode + "\n    datadir: " + data + "\n" + y +
			"- log-level: error\n- control-service:\n    service: control\n    filename: " + sock + "\n- local-only:\n"
		Must(os.WriteFile(cfg, []byte(conf), 0o600))
		cmd := exec.Command(bin, "--config", cfg)
		logf, err := os.Create(cfg + ".log")
		Must(err)
		cmd.Stdout, cmd.Stderr = logf, logf
		cmd.SysProcAttr = &syscall.SysProcAttr{Setpgid: true}
		Must(cmd.Start())
		done := make(chan error, 1)
		go func() { done <- cmd.Wait() }()
		started, exited, sawSock := false, false, false
		deadline := time.Now().Add(20 * time.Second)
	poll:
		for time.Now().Before(deadline) {
			select {
			case <-done:
				exited = true
				break poll
			default:
			}
			if _, err := os.Stat(sock); err == nil {
				sawSock = true
			}
			if c, err := net.DialTimeout("unix", sock, 200*time.Millisecond); err == nil {
				c.Close()
				started = true
				break poll
			}
			time.Sleep(15 * time.Millisecond)
		}
		pingObs := ""
		if started {
			pingObs = h.pingSelf(gs, sock)
		}
		if !exited {
			_ = cmd.Process.Signal(syscall.SIGTERM) // by PID; lets a coverage build write its counters
			select {
			case <-done:
			case <-time.After(3 * time.Second):
				_ = cmd.Process.Kill()
				<-done
			}
		}
		logf.Close()
		logb, _ := os.ReadFile(cfg + ".log")
		logs := string(logb)
		if len(logs) > 400 {
			logs = logs[len(logs)-400:]
		}
		state := "refused"
		switch {
		case started:
			state = "started"
		case !exited:
			state = "hung"
		case strings.Contains(string(logb), "panic:") || strings.Contains(string(logb), "goroutine "):
			state = "crashed"
		}
		im.Hist("config:" + state)
		rec := map[string]interface{}{"rules": rulesJSON(gs), "yaml": y, "state": state, "log_tail": logs, "control_socket_seen": sawSock}
		im.Count(fmt.Sprintf("config %v", rec["rules"]), true)
		switch {
		case state == "hung":
			im.Violate("receptor neither starts nor exits on this firewall configuration", "config-hung", rec)
			continue
		case state == "crashed":
			im.Violate("receptor crashes on this firewall configuration", "config-crash", rec)
		case bad != nil && started:
			im.Violate(fmt.Sprintf("receptor starts with a firewall rule set containing %v", bad), "config-bad-rule-accepted:"+badSig(bad), rec)
		case bad != nil && sawSock:
			im.Violate("receptor opens its control socket before refusing the firewall rules", "config-listener-before-refusal", rec)
		case bad == nil && !started:
			im.Violate("receptor refuses a well-formed firewall rule set", "config-good-rule-refused", rec)
		}
		h.cf.Add(fmt.Sprintf("CConfig %s %s %s", tableCoq(gs), rulesCoq(gs), CoqBool(started)),
			fmt.Sprintf("config %v -> %s", rec["rules"], state))
		if pingObs != "" {
			h.cf.Add(fmt.Sprintf("CPing %s %s %s %s %s", tableCoq(gs), rulesCoq(gs), coqText(cfgNode), coqText("Abcdefgh"), pingObs),
				fmt.Sprintf("config %v: ping %s -> %s", rec["rules"], cfgNode, pingObs))
		}
	}
}

const cfgNode = "c12node"

func oraclePing(rs []orule, self, eph string) string {
	switch oracleVerdict(rs, packet{self, eph, self, "ping"}) {
	case "accept":
		if oracleVerdict(rs, packet{self, "ping", self, eph}) == "accept" {
			return "PingReply"
		}
	case "reject":
		// the pinger hears notices about packets from its own socket only
		if oracleVerdict(rs, packet{self, "unreach", self, "unreach"}) == "accept" {
			return "PingBlocked"
		}
	}
	return "PingSilence"
}

// pingSelf: the rules the daemon was configured with are in force: `ping <self>` over the control
// socket answers, is refused with "blocked by firewall", or gets nothing, as the first matching
// rules dictate for the request, the reply and the notice.  The pinger's service name is random:
// only rule sets whose outcome does not depend on it are judged.
func (h *harness) pingSelf(gs []grule, sock string) string {
	want, bad := oracleRules(gs)
	if bad != nil {
		return ""
	}
	exp := oraclePing(want, cfgNode, "Abcdefgh")
	if exp != oraclePing(want, cfgNode, "zq9zq9zq") || exp != oraclePing(want, cfgNode, "A1b2C3d4") {
		h.im.Hist("config-ping:skipped-depends-on-ephemeral-name")
		return ""
	}
	ctl, err := DialCtl(sock, 3*time.Second)
	if err != nil {
		h.im.Hist("config-ping:no-control-connection")
		return ""
	}
	defer ctl.Close()
	wait := 1000 * time.Millisecond
	if exp != "PingSilence" {
		wait = 8 * time.Second
	}
	line, err := ctl.Cmd(`{"command":"ping","target":"`+cfgNode+`"}`, wait)
	got := "PingSilence"
	var rep map[string]interface{}
	if err == nil && json.Unmarshal([]byte(line), &rep) == nil {
		switch {
		case rep["Success"] == true:
			got = "PingReply"
		case fmt.Sprint(rep["Error"]) == "blocked by firewall":
			got = "PingBlocked"
		default:
			got = "PingOther:" + fmt.Sprint(rep["Error"])
		}
	} else if err == nil {
		got = "PingOther:" + line
	}
	h.im.Hist("config-ping:" + strings.SplitN(got, ":", 2)[0])
	rec := map[string]interface{}{"rules": rulesJSON(gs), "observed": got, "expected": exp}
	h.im.Count(fmt.Sprintf("config-ping %v", rec["rules"]), true)
	if got != exp {
		h.im.Violate(fmt.Sprintf("receptor configured with these firewall rules: `ping %s` gives %s, the first matching rules dictate %s", cfgNode, got, exp), "config-rules-not-in-force", rec)
	}
	if strings.HasPrefix(got, "PingOther") {
		return ""
	}
	return got
}
