package main

// C12 — Firewall: the first matching rule decides at every node; bad rules are refused.
//
// Correspondence (Model/Firewall.v, evaluated in coqc on what is observed here):
//   CParse  netceptor.ParseFirewallRules: result class (ok / error / panic) and, for every packet,
//           the result of each returned FirewallRuleFunc                      vs parse_rules / rule_fn
//   CNode   a real Netceptor with the rules installed handles one packet as origin, transit or
//           destination: the packets that get past its firewall (forwarded, delivered, notice)
//                                                                              vs node_handle
//   CChain  three real nodes in a line, each with its own rules, one datagram end to end:
//           delivered / silence / "blocked by firewall" notice at the sender   vs chain
//   CConfig the receptor binary started with `node: firewallrules:`: comes up or refuses
//                                                                              vs parse_rules
// Model-independent oracle (this file, oracle*): a rule set is refused iff the generator put
// something uninterpretable into it; a field matches by string equality or by Go's regexp on
// the explicitly grouped and anchored pattern \A(?:p)\z; the first matching rule decides.

import (
	"encoding/json"
	"flag"
	"fmt"
	"os"
	"os/exec"
	"path/filepath"
	"regexp"
	"sort"
	"strings"
	"unicode"
	"unicode/utf8"

	. "verifharness/lib"

	"github.com/ansible/receptor/pkg/netceptor"
)

func main() { Main("C12", supervise, map[string]func([]string){"child": child}) }

// The real nodes run inside this process, and a defective firewall path can take the whole
// process down (e.g. a reject that answers its own notice recurses until the stack is exhausted).
// So the run happens in a child of ourselves; when the child dies the parent reports that as an
// oracle violation, with the rule set and packets the child was working on.
func supervise(c *Ctx) {
	errPath := filepath.Join(c.Out, "child.stderr")
	errf, err := os.Create(errPath)
	Must(err)
	cmd := exec.Command(os.Args[0], "child", "-seed", fmt.Sprint(c.Seed), "-tier", c.Tier, "-out", c.Out)
	cmd.Stdout, cmd.Stderr = os.Stdout, errf
	runErr := cmd.Run()
	errf.Close()
	if runErr == nil {
		if b, _ := os.ReadFile(errPath); len(b) > 0 {
			os.Stderr.Write(b)
		}
		_ = os.Remove(errPath)
		_ = os.Remove(filepath.Join(c.Out, "progress.json"))
		return
	}
	var why []string
	if b, err := os.ReadFile(errPath); err == nil {
		for i, l := range strings.Split(string(b), "\n") {
			if i < 3 || strings.HasPrefix(l, "fatal error") || strings.HasPrefix(l, "panic:") || strings.HasPrefix(l, "vh: fatal") {
				why = append(why, l)
			}
			if len(why) > 8 {
				break
			}
		}
	}
	var progress interface{}
	if b, err := os.ReadFile(filepath.Join(c.Out, "progress.json")); err == nil {
		_ = json.Unmarshal(b, &progress)
	}
	// drop partial case files of the dead child
	if fs, _ := filepath.Glob(filepath.Join(c.Out, "cases_C12*")); fs != nil {
		for _, f := range fs {
			_ = os.Remove(f)
		}
	}
	im := NewImpl("C12", c.Seed, c.Tier)
	im.Rule = "the harness child process died; no statistics"
	im.Count("child", true)
	im.Violate(fmt.Sprintf("the process hosting the real nodes died while handling a packet (%v): %s", runErr, strings.Join(why, " | ")),
		"node-process-died", progress)
	Must(im.Write(c.Out))
}

func child(args []string) {
	fs := flag.NewFlagSet("vh-C12 child", flag.ExitOnError)
	seed := fs.Uint64("seed", 1, "")
	tier := fs.String("tier", "quick", "")
	out := fs.String("out", ".", "")
	_ = fs.Parse(args)
	runC12(&Ctx{Prop: "C12", Seed: *seed, Tier: *tier, Out: *out, Rng: NewRng(*seed), Bin: os.Getenv("VERIF_BIN")})
}

// ---------- generated rules ----------

type elem struct {
	Key    interface{} // what goes into the map as key
	Val    interface{} // ... and as value
	Role   string      // lower-case keyword this element sets, or "" (unknown / non-string key)
	Bad    string      // "" or why this element is uninterpretable
	Ast    *Re         // for a well-formed /regex/ value
	HasTbl bool        // value has the /.../ shape: its inner text goes into the parser table
}

type grule struct {
	Elems []elem
	Bad   []string // reasons this rule must be refused (sorted, de-duplicated)
	Nil   bool     // no elements: hand a nil map (not an empty one) to the parser
}

var fieldKeys = []string{"fromnode", "tonode", "fromservice", "toservice"}

var nodePool = []string{"a", "b", "ab", "abc", "zt", "node-1", "a.c", "é世", "A", "ba", "aab"}
var svcPool = []string{"a", "b", "ab", "abc", "control", "unreach", "ping", "s-1", "a|b", "é", "A"}

var badSyntax = []string{"(", ")", "a)(b", "a(b", "[a", "a**", "*a", "a{2,1}", `\`, "(?P<n", "[z-a]", `\8`, "a|*", "(?z)a", "a)|(b", "+"}

func randCase(r *Rng, s string) string {
	mode := r.Intn(20)
	var sb strings.Builder
	for _, c := range s {
		up := false
		switch {
		case mode < 5:
			up = false
		case mode < 10 || mode == 19:
			up = true
		case mode < 14:
			up = sb.Len() == 0
		default:
			up = r.Bool()
		}
		switch {
		case up && c == 'i' && mode == 19:
			sb.WriteRune(0x130) // capital I with dot: strings.ToLower maps it to plain "i"
		case up:
			sb.WriteRune(unicode.ToUpper(c))
		default:
			sb.WriteRune(c)
		}
	}
	return sb.String()
}

func nonString(r *Rng) interface{} {
	switch r.Intn(7) {
	case 0:
		return 5
	case 1:
		return true
	case 2:
		return nil
	case 3:
		return []interface{}{"a"}
	case 4:
		return map[interface{}]interface{}{"a": "b"}
	case 5:
		return 1.5
	default:
		return []byte("ab")
	}
}

func poolFor(key string) []string {
	if strings.HasSuffix(key, "service") {
		return svcPool
	}
	return nodePool
}

// genPattern makes the value of one field key
func genPattern(r *Rng, key string, depth int) elem {
	e := elem{Role: key}
	pool := poolFor(key)
	switch x := r.Intn(100); {
	case x < 30: // literal from the pool
		e.Val = pool[r.Intn(len(pool))]
	case x < 36: // literal, arbitrary text not starting with a slash
		t := genText(r, 4)
		for strings.HasPrefix(t, "/") {
			t = t[1:]
		}
		e.Val = t // may be "": field present but not given
	case x < 39:
		e.Val = ""
	case x < 72: // generated regular expression
		e.Ast = genRe(r, depth)
		e.Val = "/" + printRe(e.Ast, 0) + "/"
	case x < 82: // a pool word, or two of them, as a regular expression
		w := wordRe(pool[r.Intn(len(pool))])
		if r.Chance(60) {
			w = &Re{Kind: kAlt, A: w, B: wordRe(pool[r.Intn(len(pool))])}
			if r.Chance(30) {
				w = &Re{Kind: kAlt, A: w, B: wordRe(pool[r.Intn(len(pool))])}
			}
		}
		e.Ast = w
		e.Val = "/" + printRe(w, 0) + "/"
	case x < 84:
		e.Ast = &Re{Kind: kEps}
		e.Val = "//"
	case x < 89: // malformed: regexp syntax error
		e.Val = "/" + badSyntax[r.Intn(len(badSyntax))] + "/"
		e.Bad = "malformed-pattern-syntax"
	case x < 95: // malformed: not terminated
		e.Val = "/" + []string{"abc", "a|b", "a", ".*", "a/b", "(", "é"}[r.Intn(7)]
		e.Bad = "malformed-pattern-unterminated"
	default:
		e.Val = "/"
		e.Bad = "malformed-pattern-lone-slash"
	}
	return e
}

func genRule(r *Rng, wantBad bool, depth int) grule {
	var g grule
	if wantBad && r.Chance(5) {
		return grule{Nil: r.Bool(), Bad: []string{"no-action"}} // `- {}` / a nil map
	}
	// action
	act := elem{Role: "action"}
	switch x := r.Intn(100); {
	case wantBad && x < 12:
		act.Val = []string{"", "allow", "deny", "accept ", "acceptt", "dropp", "continue", "rejec", "DROP!", "/accept/"}[r.Intn(10)]
		act.Bad = "unknown-action"
	case wantBad && x < 16:
		act.Val = nonString(r)
		act.Bad = "non-string-value"
	case wantBad && x < 20:
		act.Role = "" // no action key at all
	default:
		act.Val = randCase(r, []string{"accept", "reject", "drop", "reject", "drop"}[r.Intn(5)])
	}
	if act.Role != "" {
		act.Key = randCase(r, "action")
		g.Elems = append(g.Elems, act)
	} else {
		g.Bad = append(g.Bad, "no-action")
	}
	// fields: any subset
	mask := r.Intn(16)
	if r.Chance(15) {
		mask = 0
	}
	for i, k := range fieldKeys {
		if mask&(1<<i) == 0 {
			continue
		}
		e := genPattern(r, k, depth)
		if !wantBad && e.Bad != "" {
			e = elem{Role: k, Val: poolFor(k)[r.Intn(len(poolFor(k)))]}
		}
		if wantBad && r.Chance(6) {
			e.Val, e.Bad, e.Ast = nonString(r), "non-string-value", nil
		}
		e.Key = randCase(r, k)
		g.Elems = append(g.Elems, e)
	}
	if wantBad && r.Chance(25) {
		k := []string{"fromnod", "to-node", "actions", "", "from node", "tonode ", "service", "toservices", "fromnodé", "act1on"}[r.Intn(10)]
		var v interface{} = "a"
		if r.Chance(20) {
			v = nonString(r)
		}
		g.Elems = append(g.Elems, elem{Key: k, Val: v, Bad: "unknown-key"})
	}
	if wantBad && r.Chance(8) {
		var k interface{} = 7
		if r.Bool() {
			k = true
		}
		g.Elems = append(g.Elems, elem{Key: k, Val: "a", Bad: "non-string-key"})
	}
	if wantBad && r.Chance(12) && len(g.Elems) > 0 {
		// the same key twice in different spellings: which one Go's map iteration sees last is
		// random, so the rule has no definite meaning
		src := g.Elems[r.Intn(len(g.Elems))]
		if ks, ok := src.Key.(string); ok && src.Role != "" {
			alt := strings.ToUpper(ks)
			if alt == ks {
				alt = strings.ToLower(ks)
			}
			d := elem{Key: alt, Role: src.Role, Bad: "duplicate-key"}
			if src.Role == "action" {
				d.Val = "accept"
			} else if r.Bool() {
				d.Val = ""
			} else {
				d.Val = "zt"
			}
			g.Elems = append(g.Elems, d)
		}
	}
	// shuffle (the map has no order anyway)
	for i := len(g.Elems) - 1; i > 0; i-- {
		j := r.Intn(i + 1)
		g.Elems[i], g.Elems[j] = g.Elems[j], g.Elems[i]
	}
	for i := range g.Elems {
		e := &g.Elems[i]
		if s, ok := e.Val.(string); ok && e.Role != "" && e.Role != "action" && len(s) >= 2 && s[0] == '/' && s[len(s)-1] == '/' {
			e.HasTbl = true
		}
		if e.Bad != "" {
			g.Bad = append(g.Bad, e.Bad)
		}
	}
	sort.Strings(g.Bad)
	return g
}

func (g grule) data() netceptor.FirewallRuleData {
	if g.Nil && len(g.Elems) == 0 {
		return nil
	}
	m := netceptor.FirewallRuleData{}
	for _, e := range g.Elems {
		m[e.Key] = e.Val
	}
	return m
}

func (g grule) coq() string {
	xs := make([]string, len(g.Elems))
	for i, e := range g.Elems {
		k, v := "KOther", "VOther"
		if s, ok := e.Key.(string); ok {
			k = "KStr " + coqText(s)
		}
		if s, ok := e.Val.(string); ok {
			v = "VStr " + coqText(s)
		}
		xs[i] = "KV (" + k + ") (" + v + ")"
	}
	return CoqList(xs)
}

func (g grule) json() map[string]interface{} {
	m := map[string]interface{}{}
	for _, e := range g.Elems {
		m[fmt.Sprintf("%#v", e.Key)] = fmt.Sprintf("%#v", e.Val)
	}
	return m
}

func rulesCoq(gs []grule) string {
	xs := make([]string, len(gs))
	for i, g := range gs {
		xs[i] = g.coq()
	}
	return CoqList(xs)
}

func rulesJSON(gs []grule) []map[string]interface{} {
	xs := make([]map[string]interface{}, len(gs))
	for i, g := range gs {
		xs[i] = g.json()
	}
	return xs
}

func rulesData(gs []grule) []netceptor.FirewallRuleData {
	xs := make([]netceptor.FirewallRuleData, len(gs))
	for i, g := range gs {
		xs[i] = g.data()
	}
	return xs
}

// tableCoq: what Go's regexp parser makes of every /inner/ that occurs: the generating AST, or
// None when regexp.Compile refuses it.  (Fatal if the printer and Go's parser disagree on
// well-formedness: that would be a harness bug, not a finding.)
func tableCoq(gss ...[]grule) string {
	seen := map[string]bool{}
	var xs []string
	for _, gs := range gss {
		for _, g := range gs {
			for _, e := range g.Elems {
				if !e.HasTbl {
					continue
				}
				s := e.Val.(string)
				in := s[1 : len(s)-1]
				if seen[in] {
					continue
				}
				seen[in] = true
				_, err := regexp.Compile(in)
				if (err == nil) != (e.Ast != nil) {
					Must(fmt.Errorf("harness: pattern %q: regexp.Compile err=%v but generator AST present=%v", in, err, e.Ast != nil))
				}
				if e.Ast != nil {
					xs = append(xs, "TS "+coqText(in)+" "+coqRe(e.Ast))
				} else {
					xs = append(xs, "TN "+coqText(in))
				}
			}
		}
	}
	return CoqList(xs)
}

// ---------- packets ----------

type packet struct{ FromNode, FromService, ToNode, ToService string }

func (p packet) coq() string {
	return fmt.Sprintf("(mkPkt %s %s %s %s)", coqText(p.FromNode), coqText(p.FromService), coqText(p.ToNode), coqText(p.ToService))
}

func (p packet) md() *netceptor.MessageData {
	return &netceptor.MessageData{FromNode: p.FromNode, FromService: p.FromService, ToNode: p.ToNode, ToService: p.ToService, HopsToLive: 5}
}

func (p *packet) field(k string) *string {
	switch k {
	case "fromnode":
		return &p.FromNode
	case "tonode":
		return &p.ToNode
	case "fromservice":
		return &p.FromService
	default:
		return &p.ToService
	}
}

// effective value of each role in a rule without duplicate keys
func (g grule) value(role string) (string, *Re, bool) {
	for _, e := range g.Elems {
		if e.Role == role {
			if s, ok := e.Val.(string); ok {
				return s, e.Ast, true
			}
		}
	}
	return "", nil, false
}

// genPacket aims at one rule of the set: every given field is drawn inside the pattern, then
// zero, one or two fields are moved just outside
func genPacket(r *Rng, gs []grule) packet {
	p := packet{nodePool[r.Intn(len(nodePool))], svcPool[r.Intn(len(svcPool))], nodePool[r.Intn(len(nodePool))], svcPool[r.Intn(len(svcPool))]}
	if len(gs) == 0 || r.Chance(10) {
		return p
	}
	g := gs[r.Intn(len(gs))]
	for _, k := range fieldKeys {
		s, ast, ok := g.value(k)
		if !ok || s == "" {
			continue
		}
		f := p.field(k)
		switch {
		case ast != nil:
			if t, ok := sample(r, ast); ok {
				*f = t
			}
		case !strings.HasPrefix(s, "/"):
			*f = s
		}
	}
	for n := []int{0, 0, 1, 1, 1, 2}[r.Intn(6)]; n > 0; n-- {
		f := p.field(fieldKeys[r.Intn(4)])
		if r.Chance(75) {
			*f = perturb(r, *f)
		} else {
			*f = poolFor("node")[r.Intn(len(nodePool))]
		}
	}
	return p
}

// ---------- the model-independent oracle ----------

type orule struct {
	Action string
	Lit    map[string]string
	Re     map[string]*regexp.Regexp
}

// oracleRules: nil when the set must be refused
func oracleRules(gs []grule) ([]orule, []string) {
	var out []orule
	var bad []string
	for _, g := range gs {
		bad = append(bad, g.Bad...)
		if len(g.Bad) > 0 {
			continue
		}
		o := orule{Lit: map[string]string{}, Re: map[string]*regexp.Regexp{}}
		a, _, _ := g.value("action")
		o.Action = strings.ToLower(a)
		for _, k := range fieldKeys {
			s, _, ok := g.value(k)
			if !ok || s == "" {
				continue
			}
			if s[0] == '/' {
				// explicit group, text anchors instead of line anchors
				o.Re[k] = regexp.MustCompile(`\A(?:` + s[1:len(s)-1] + `)\z`)
			} else {
				o.Lit[k] = s
			}
		}
		out = append(out, o)
	}
	if len(bad) > 0 {
		return nil, bad
	}
	return out, nil
}

func (o orule) matches(p packet) bool {
	for k, s := range o.Lit {
		if *p.field(k) != s {
			return false
		}
	}
	for k, re := range o.Re {
		if !re.MatchString(*p.field(k)) {
			return false
		}
	}
	return true
}

func oracleVerdict(rs []orule, p packet) string {
	for _, o := range rs {
		if o.matches(p) {
			return o.Action
		}
	}
	return "accept"
}

type output struct {
	P      packet
	Notice *netceptor.UnreachableMessage
}

func (o output) coq() string {
	if o.Notice != nil {
		return fmt.Sprintf("ON %s (mkU %s %s %s %s %s)", o.P.coq(), coqText(o.Notice.FromNode), coqText(o.Notice.ToNode),
			coqText(o.Notice.FromService), coqText(o.Notice.ToService), coqText(o.Notice.Problem))
	}
	return "OP " + o.P.coq()
}

func (o output) String() string {
	if o.Notice != nil {
		return fmt.Sprintf("%+v notice=%+v", o.P, *o.Notice)
	}
	return fmt.Sprintf("%+v", o.P)
}

// oracleNode: the packets that get past the firewall of node self because of p
func oracleNode(self string, rs []orule, p packet) []output { return oracleNode2(self, rs, rs, p) }

// oracleNode2: rs judges the packet, rsNotice the notice it may cause
func oracleNode2(self string, rs, rsNotice []orule, p packet) []output {
	switch oracleVerdict(rs, p) {
	case "accept":
		return []output{{P: p}}
	case "drop":
		return nil
	}
	if p.FromService == "unreach" {
		return nil
	}
	np := packet{self, "unreach", p.FromNode, "unreach"}
	if oracleVerdict(rsNotice, np) != "accept" {
		return nil
	}
	return []output{{P: np, Notice: &netceptor.UnreachableMessage{FromNode: p.FromNode, ToNode: p.ToNode,
		FromService: p.FromService, ToService: p.ToService, Problem: "blocked by firewall"}}}
}

func hasTopAlt(gs []grule) bool {
	for _, g := range gs {
		for _, e := range g.Elems {
			if e.Ast != nil && topAlt(e.Ast) {
				return true
			}
		}
	}
	return false
}

func resName(x netceptor.FirewallResult) string {
	switch x {
	case netceptor.FirewallResultContinue:
		return "FwContinue"
	case netceptor.FirewallResultAccept:
		return "FwAccept"
	case netceptor.FirewallResultReject:
		return "FwReject"
	case netceptor.FirewallResultDrop:
		return "FwDrop"
	}
	return "FwUnknown"
}

var resOfAction = map[string]string{"accept": "FwAccept", "reject": "FwReject", "drop": "FwDrop"}

// parseReal calls the implementation, turning a Go panic into a result class
func parseReal(data []netceptor.FirewallRuleData) (fns []netceptor.FirewallRuleFunc, class string, detail string) {
	defer func() {
		if x := recover(); x != nil {
			fns, class, detail = nil, "ObsPanic", fmt.Sprint(x)
		}
	}()
	fns, err := netceptor.ParseFirewallRules(data)
	if err != nil {
		return nil, "ObsErr", err.Error()
	}
	return fns, "ObsOk", ""
}

func badSig(bad []string) string {
	u := map[string]bool{}
	for _, b := range bad {
		if strings.HasPrefix(b, "malformed-pattern") {
			b = "malformed-pattern"
		}
		u[b] = true
	}
	var ks []string
	for k := range u {
		ks = append(ks, k)
	}
	sort.Strings(ks)
	return strings.Join(ks, "+")
}

// one rule set: parse it, apply every returned function to every packet, run the packets
// through real nodes; emits the Coq cases and evaluates the oracle
func (h *harness) ruleSetCase(gs []grule, pkts []packet, kind string) {
	im, cf := h.im, h.cf
	for _, p := range pkts {
		for _, s := range []string{p.FromNode, p.FromService, p.ToNode, p.ToService} {
			if !utf8.ValidString(s) {
				Must(fmt.Errorf("harness: invalid UTF-8 generated"))
			}
		}
	}
	data := rulesData(gs)
	fns, class, detail := parseReal(data)
	want, bad := oracleRules(gs)
	rec := map[string]interface{}{"rules": rulesJSON(gs), "impl": class, "detail": detail}
	im.Hist("parse:" + kind + ":" + class)
	for _, g := range gs {
		for _, e := range g.Elems {
			switch {
			case e.Ast != nil && topAlt(e.Ast):
				im.Hist("pattern:regex-top-level-alternation")
			case e.Ast != nil:
				im.Hist("pattern:regex")
			case e.Bad != "":
				im.Hist("element:" + e.Bad)
			case e.Role != "" && e.Role != "action":
				im.Hist("pattern:literal")
			}
		}
	}
	im.Count(fmt.Sprintf("parse %v", rec["rules"]), len(gs) > 0)
	// oracle on the result class
	switch {
	case class == "ObsPanic":
		im.Violate("ParseFirewallRules panics: "+detail, "parse-panic", rec)
	case bad != nil && class == "ObsOk":
		im.Violate(fmt.Sprintf("ParseFirewallRules accepts a rule set containing %v", bad), "bad-rule-accepted:"+badSig(bad), rec)
	case bad == nil && class != "ObsOk":
		im.Violate("ParseFirewallRules refuses a well-formed rule set: "+detail, "good-rule-refused", rec)
	}
	var pk []string
	if class == "ObsOk" {
		for _, p := range pkts {
			res := make([]string, len(fns))
			for i, f := range fns {
				res[i] = resName(f(p.md()))
			}
			pk = append(pk, "PK "+p.coq()+" "+CoqList(res))
			if want != nil {
				// oracle: each function answers its action when the rule matches, Continue otherwise
				hit := false
				for i, o := range want {
					exp := "FwContinue"
					if o.matches(p) {
						exp = resOfAction[o.Action]
						hit = true
					}
					if res[i] != exp {
						sig := "rule-result"
						if hasTopAlt(gs[i : i+1]) {
							sig = "rule-result:regex-top-level-alternation"
						}
						im.Violate(fmt.Sprintf("rule %d applied to %+v returns %s, the rule's fields say %s", i, p, res[i], exp), sig,
							map[string]interface{}{"rules": rulesJSON(gs), "rule": i, "packet": p})
					}
				}
				if hit {
					im.Hist("packet:matches-some-rule")
				} else {
					im.Hist("packet:matches-no-rule")
				}
				im.Count(fmt.Sprintf("verdict %v %+v", rec["rules"], p), len(gs) > 0)
			}
		}
	}
	var nd []string
	if class == "ObsOk" && bad == nil {
		if b, err := json.Marshal(map[string]interface{}{"rules": rulesJSON(gs), "packets": pkts}); err == nil {
			_ = os.WriteFile(filepath.Join(h.c.Out, "progress.json"), b, 0o644)
		}
		// the loop and the switch of handleMessageData, on real nodes
		for _, p := range pkts {
			if t := h.nodeCase(gs, fns, want, p); t != "" {
				nd = append(nd, t)
			}
		}
	}
	cf.Add(fmt.Sprintf("CParse %s %s %s %s %s", tableCoq(gs), rulesCoq(gs), class, CoqList(pk), CoqList(nd)),
		fmt.Sprintf("rules %v -> %s; packets %+v (per-rule results and, on real nodes, what leaves the firewall)", rec["rules"], class, pkts))
	im.Sample(map[string]interface{}{"kind": "parse", "rules": rec["rules"], "impl": class, "packets": pkts})
}

type harness struct {
	c     *Ctx
	im    *Impl
	cf    *CaseFile
	nodes map[string]*wbNode
}

func runC12(c *Ctx) {
	QuietLogs()
	im := NewImpl("C12", c.Seed, c.Tier)
	im.Rule = "rule sets: 0-5 rules, each any subset of the four fields with literal / AST-generated regex / malformed patterns, keys in any case, all actions; a separate malformed stream puts one or more uninterpretable elements (unknown or non-string key, unknown or missing action, non-string value, malformed pattern, duplicate key) into a set; packets: drawn inside the patterns of one rule, then 0-2 fields moved just outside (junk before/after, one character changed); non-trivial = rule set not empty; distinct by rule set (parse) and by rule set x packet (verdict, node, chain)"
	cf := &CaseFile{Dir: c.Out, Prop: "C12", Imports: []string{"Model.Firewall"}, CaseType: "fw_case", CheckFn: "fw_check", PerShard: 120}
	if strings.Contains(c.Tier, "hist") || envHist() {
		cf.CheckFn = "fw_check_hist"
	}
	h := &harness{c: c, im: im, cf: cf, nodes: map[string]*wbNode{}}
	checkToLower()
	r := c.Rng
	// corpus: the historical failures first
	for _, cs := range corpusCases() {
		h.ruleSetCase(cs.rules, cs.pkts, "corpus")
	}
	nGood, nBad := 190, 110
	if c.Thorough() {
		nGood, nBad = 3000, 1500
	}
	for i := 0; i < nGood; i++ {
		n := r.Intn(6)
		if r.Chance(5) {
			n = 0
		}
		depth := 1 + r.Intn(3)
		gs := make([]grule, n)
		for j := range gs {
			gs[j] = genRule(r, false, depth)
		}
		np := 3 + r.Intn(4)
		pkts := make([]packet, np)
		for j := range pkts {
			pkts[j] = genPacket(r, gs)
		}
		h.ruleSetCase(gs, pkts, "well-formed")
	}
	for i := 0; i < nBad; i++ {
		n := 1 + r.Intn(4)
		gs := make([]grule, n)
		for j := range gs {
			gs[j] = genRule(r, false, 2)
		}
		// one or two rules carry something uninterpretable (sometimes the generator's dice leave
		// them well-formed after all: those sets count as well-formed)
		gs[r.Intn(n)] = genRule(r, true, 2)
		if r.Chance(20) {
			gs[r.Intn(n)] = genRule(r, true, 2)
		}
		pkts := []packet{genPacket(r, gs), genPacket(r, gs)}
		h.ruleSetCase(gs, pkts, "malformed-stream")
	}
	h.historyCases()
	h.shutdownNodes()
	h.chainCases()
	h.configCases()
	Must(cf.Write())
	Must(im.Write(c.Out))
}

// checkToLower: the model's [lower1] claims that besides A-Z only U+0130 and U+212A have an ASCII
// lower case; check it against the unicode tables the implementation is linked with
func checkToLower() {
	for c := rune(128); c <= unicode.MaxRune; c++ {
		l := unicode.ToLower(c)
		if l < 128 && !(c == 0x130 && l == 'i') && !(c == 0x212A && l == 'k') {
			Must(fmt.Errorf("harness: unicode.ToLower(%U) = %q: Model/Firewall.v lower1 is out of date", c, l))
		}
	}
	if strings.ToLower("ACTİON") != "action" || strings.ToLower("K") != "k" {
		Must(fmt.Errorf("harness: strings.ToLower special cases differ from Model/Firewall.v lower1"))
	}
}
