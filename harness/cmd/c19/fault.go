package main

// C19, the FAULT dimension: status writes that fail at chosen moments of a unit's life.
//
// The property quantifies over every history "from the moment of submission to release"; nothing in
// it excuses a reply that is produced while, or after, a write of the unit's status record failed.
// The record on disk holds the parameters unredacted (needed for resumption), so any reply path that
// falls back on the record, merges it, or reports a half-updated copy after such a failure discloses.
//
// Fault: <unitdir>/status.lock is replaced by a directory.  Every UpdateBasicStatus/UpdateFullStatus
// of the unit then fails (the lock cannot be opened) while the status file itself stays readable;
// removing the directory ends the fault (the lock file is re-created by the next writer).
//
// One recorded history over 6 remote units (parameter maps with secret keys in several spellings,
// near misses and plain keys; absent target node = the unit stays pending and is not written again,
// reachable TLS node = a started, finished unit):
//   submit (for half of the units the fault is installed between the "created" reply and the end
//   of the input data: the "Starting Worker" write and whatever the start job writes fail);
//   fault on the others, then cancel of those (both writes of cancel fail);
//   list + status of every unit WHILE the fault lasts; fault removed; status, list, list-one of every
//   unit BEFORE any successful write; cancel of every unit (a good write); status + list;
//   restart of the daemon (SIGKILL or SIGTERM); list + status; the fault again on every unit now
//   loaded from disk, cancel (fails), fault removed, status + list + list-one; release of every unit.
// Every reply is judged by the same oracles as everywhere else (marker scan of every byte received,
// shown map = exactly the non-secret entries, unchanged) and the whole history is a CHist case: in
// Model/Secrets.v a failed write is a stutter step (views depend on the record in memory only), so
// C19_no_secret_in_any_response covers these histories as they stand.
//
// That the fault bit is witnessed in the daemon's log ("Error updating status file <file>"); a
// phase in which no write failed is reported (never a silent pass).

import (
	"fmt"
	"os"
	"path/filepath"
	"sort"
	"strings"
	"time"

	. "verifharness/lib"
)

const faultRule = "fault history (1 quick / 4 thorough): 6 remote units (secret keys in several spellings + near misses + plain keys; absent node / reachable TLS node) whose status writes are made to fail by putting a directory in the place of <unitdir>/status.lock — during submit (between the created reply and the end of input) or during cancel — with status/list/list-one of every unit while the fault lasts, after it is removed and before any good write, after a good write (cancel), after a restart, after a second failed write on the units loaded from disk, and release; non-trivial = the daemon's log shows a failed status write for a unit with a secret parameter"

func (w *world) lockPath(id string) string {
	return filepath.Join(w.A.UnitsDir(), id, "status.lock")
}

func (w *world) faultOn(id string) bool {
	p := w.lockPath(id)
	for try := 0; try < 20; try++ {
		_ = os.Remove(p)
		if err := os.Mkdir(p, 0o700); err == nil {
			return true
		}
		// a writer re-created the lock file between the two calls
		time.Sleep(5 * time.Millisecond)
	}
	return false
}

func (w *world) faultOff(id string) {
	p := w.lockPath(id)
	if fi, err := os.Lstat(p); err == nil && fi.IsDir() {
		_ = os.Remove(p)
	}
}

// failedWrites: unit ids for which the current log of A reports a failed status write.
func (w *world) failedWrites() map[string]int {
	out := map[string]int{}
	b, _ := os.ReadFile(w.A.LogPath())
	for _, l := range strings.Split(string(b), "\n") {
		i := strings.Index(l, "Error updating status file ")
		if i < 0 {
			continue
		}
		f := strings.Fields(l[i+len("Error updating status file "):])
		if len(f) == 0 {
			continue
		}
		out[filepath.Base(filepath.Dir(strings.TrimSuffix(f[0], ":")))]++
	}
	return out
}

func (w *world) diskHoldsSecret(id string) bool {
	b, _ := os.ReadFile(filepath.Join(w.A.UnitsDir(), id, "status"))
	return strings.Contains(string(b), "ZQS")
}

func faultParams(r *Rng, i int) map[string]string {
	p := map[string]string{}
	put := func(k string) { p[k] = genValue(r, oracleSecret(k)) }
	switch i {
	case 0:
		for _, k := range []string{"secret_x", "SECRET_Y", "Secret_Token", "plain", "secretx", "xsecret_y"} {
			put(k)
		}
	case 1:
		put("secret_password")
		put("plain")
	case 2: // secrets only
		put("secret_a")
		put("sEcReT_b")
		put("secret_")
	case 3: // no secret at all: reported unchanged under the fault too
		put("plain")
		put("other")
		put("ſecret_x")
	default:
		put(randCase(r, "secret_") + ident(r, 1+r.Intn(5)))
		for n := r.Intn(4); n > 0; n-- {
			k, _ := genKey(r)
			if _, dup := p[k]; !dup {
				put(k)
			}
		}
	}
	return p
}

func (w *world) faultPhase(cf *CaseFile) {
	n := 1
	if w.c.Thorough() {
		n = 4
	}
	for i := 0; i < n && w.fatal == ""; i++ {
		w.faultHistory(cf, i)
		if !w.A.Alive() || !w.B.Alive() {
			w.im.Violate("a daemon died during the fault history", "daemon-died", nil)
			return
		}
	}
}

func (w *world) faultHistory(cf *CaseFile, idx int) {
	r := w.c.Rng
	w.next = 1
	var ops, obs, label []string
	add := func(o, b string) {
		if o != "" {
			ops = append(ops, o)
			obs = append(obs, b)
		}
	}
	live := func() []*unit {
		us := []*unit{}
		for _, u := range w.byID {
			us = append(us, u)
		}
		sort.Slice(us, func(i, j int) bool { return us[i].n < us[j].n })
		return us
	}
	views := func(stage string, one bool) {
		label = append(label, "views:"+stage)
		for _, u := range live() {
			add(w.status(u))
		}
		add(w.list(nil))
		if one {
			for _, u := range live() {
				add(w.list(u))
			}
		}
		w.im.Hist("fault:views-" + stage)
	}
	failed := map[string]int{}
	witness := func() {
		for id, c := range w.failedWrites() {
			failed[id] += c
		}
	}

	// 1. submissions; even units: the fault begins in the middle of the submission
	inSubmit := map[string]bool{}
	for i := 0; i < 6 && w.fatal == ""; i++ {
		params := faultParams(r, i)
		node := "ghost-" + ident(r, 3)
		if i%3 == 2 {
			node = "c19b"
		}
		during := i%2 == 0 && node != "c19b" // a started unit needs its record to be released at the target
		if during {
			w.midSubmit = func(id string) {
				if w.faultOn(id) {
					inSubmit[id] = true
				}
			}
		}
		label = append(label, fmt.Sprintf("submit{node=%s fault-during-submit=%v params=%q}", node, during, params))
		add(w.submit(node, "cat", "cli", "", params))
		w.midSubmit = nil
	}
	if w.fatal != "" {
		return
	}
	us := live()
	if len(us) != 6 {
		w.fatal = fmt.Sprintf("fault history: %d of 6 submissions were accepted", len(us))
		return
	}
	// the reachable units finish by themselves (cat): let their monitors come to rest, so that no
	// good write of theirs ends the window early (no verdict depends on this wait)
	for _, u := range us {
		for try := 0; try < 100; try++ {
			b, _ := os.ReadFile(filepath.Join(w.A.UnitsDir(), u.id, "status"))
			if !strings.Contains(string(b), `"RemoteNode":"c19b"`) || strings.Contains(string(b), `"State":2`) || strings.Contains(string(b), `"State":3`) {
				break
			}
			time.Sleep(50 * time.Millisecond)
		}
	}
	// 2. the others: fault, then cancel (its writes fail)
	for _, u := range us {
		if !inSubmit[u.id] {
			if !w.faultOn(u.id) {
				w.fatal = "could not put a directory in the place of " + w.lockPath(u.id)
				return
			}
			label = append(label, "cancel-under-fault")
			add(w.cancelOrRelease(u, "cancel"))
		}
	}
	views("during-fault", false)
	for _, u := range us {
		if w.diskHoldsSecret(u.id) {
			w.im.Hist("fault:record-on-disk-holds-secret-while-write-fails")
		}
		w.faultOff(u.id)
	}
	witness()
	// 3. the window: the last write failed, the record is readable again, no good write yet
	views("after-fault-before-good-write", true)
	views("after-fault-second-request", false)
	// 4. a good write
	for _, u := range us {
		label = append(label, "cancel")
		add(w.cancelOrRelease(u, "cancel"))
	}
	views("after-good-write", false)
	// 5. restart
	label = append(label, "restart")
	add(w.restart(r.Bool()))
	if w.fatal != "" {
		return
	}
	w.waitRoute() // the started units are released at the target later on
	views("after-restart", false)
	// 6. the same fault on the units as loaded from disk
	for _, u := range us {
		if !w.faultOn(u.id) {
			w.fatal = "could not put a directory in the place of " + w.lockPath(u.id)
			return
		}
		label = append(label, "cancel-under-fault")
		add(w.cancelOrRelease(u, "cancel"))
	}
	views("during-fault-after-restart", false)
	for _, u := range us {
		w.faultOff(u.id)
	}
	witness()
	views("after-fault-after-restart", true)
	if w.fatal != "" {
		return
	}
	// witness of the fault
	nontrivial := false
	for _, u := range us {
		if failed[u.id] == 0 {
			continue
		}
		w.im.Hist("fault:status-write-failed(unit,seen-in-log)")
		for k := range u.params {
			if oracleSecret(k) {
				nontrivial = true
			}
		}
	}
	if len(failed) == 0 {
		w.im.Violate("fault history: no status write failed although status.lock was a directory during submit and cancel (the fault dimension was not exercised)", "fault-not-injected", nil)
	}
	// 7. release (part of the history: "to release")
	for _, u := range us {
		label = append(label, "release")
		add(w.cancelOrRelease(u, "release"))
		if w.fatal != "" {
			return
		}
	}
	add(w.list(nil))
	if w.abandon {
		w.abandon = false
	} else {
		cf.Add(fmt.Sprintf("CHist %s %s %s %s", CoqStrList(w.profiles), CoqList(ops), CoqList(obs), w.files()),
			fmt.Sprintf("fault history %d: %s", idx, strings.Join(label, "; ")))
	}
	w.im.Count(fmt.Sprintf("fault hist %d %v", idx, label), nontrivial)
	if bl, _, err := w.listRaw(w.B, "B:list"); err == nil {
		for id := range bl {
			_, _ = oneShot(w.tap, w.B.Sock, "B:release", fmt.Sprintf(`{"command":"work","subcommand":"force-release","unitid":%q}`, id))
		}
	}
	w.checkLeaks("fault-cleanup")
}
