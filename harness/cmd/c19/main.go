package main

// C19 — secret work parameters are never disclosed by the API nor sent without TLS.
//
// Two real receptor daemons: A (unix control socket, tls-client profile "cli", tcp-peer to B) and
// B (tcp-listener, control service on the mesh WITH a tls-server profile, work types cat/remote).
// Random parameter maps are submitted at A as remote work for B (reachable) or for a node that
// does not exist, with and without a TLS client profile; then random status / list / cancel /
// release commands and daemon restarts.  Every byte received on every control session (both
// nodes, error lines included) is scanned for the markers carried by the secret values.
//
// Model-independent oracle (from the property text; "letter case" = ASCII letter case):
//   * no secret value in anything received;
//   * every status/list reply shows exactly the non-secret entries, unchanged;
//   * a submission with a secret and no TLS profile is answered with ERROR, and the unit list and
//     data directory of A and the unit list of B are as before.
// Correspondence: Model/Secrets.v [run] on the same history must give the same projected replies
// and the same (unredacted) parameter maps in the status files; [is_secret] = the Go expression
// strings.HasPrefix(strings.ToLower(k), "secret_") on generated keys.

import (
	"encoding/json"
	"fmt"
	"net"
	"os"
	"path/filepath"
	"sort"
	"strings"
	"time"
	"unicode"

	. "verifharness/lib"

	"github.com/ansible/receptor/pkg/certificates"
)

func main() { Main("C19", runC19, nil) }

// ---------- secret test of the oracle (independent of the implementation's expression) ----------

func oracleSecret(k string) bool {
	const p = "secret_"
	if len(k) < len(p) {
		return false
	}
	for i := 0; i < len(p); i++ {
		b := k[i]
		if b >= 'A' && b <= 'Z' {
			b += 'a' - 'A'
		}
		if b != p[i] {
			return false
		}
	}
	return true
}

// ---------- generators ----------

const alnum = "abcdefghijklmnopqrstuvwxyzABCDEFGHIJKLMNOPQRSTUVWXYZ0123456789"

func ident(r *Rng, n int) string {
	b := make([]byte, n)
	for i := range b {
		b[i] = alnum[r.Intn(len(alnum))]
	}
	return string(b)
}

func randCase(r *Rng, s string) string {
	b := []byte(s)
	for i := range b {
		if b[i] >= 'a' && b[i] <= 'z' && r.Bool() {
			b[i] -= 32
		}
	}
	return string(b)
}

var nearMisses = []string{"secret", "secre_t", "xsecret_", "secret-", " secret_", "_secret_", "secrets_", "SECRET", "sec_ret_",
	"secret", "secre", "s", "ecret_", "Secret", "secret.", "secret _", "\tsecret_", "secrettoken", "my_secret_", "secret ", "secret", ""}

var nonASCII = []string{"ſecret_x", "ſECRET_", "ＳＥＣＲＥＴ_x", "secret＿", "sécret_", "secret_ü",
	"SECRET_İ", "Kecret_", "secrèt_", "ѕecret_" /* cyrillic dze */, "seсret_" /* cyrillic es */, "secret_日本", "SĖCRET_x"}

var reserved = map[string]bool{"command": true, "subcommand": true, "node": true, "worktype": true, "tlsclient": true, "ttl": true, "signwork": true, "signature": true}

func genKey(r *Rng) (string, string) {
	for {
		var k, kind string
		switch x := r.Intn(100); {
		case x < 22:
			k, kind = "secret_"+ident(r, r.Intn(6)), "secret-exact"
		case x < 45:
			k, kind = randCase(r, "secret_")+randCase(r, ident(r, r.Intn(6))), "secret-case-variant"
		case x < 50:
			k, kind = []string{"SECRET_", "Secret_", "sECRET_", "secret_"}[r.Intn(4)], "secret-bare-prefix"
		case x < 68:
			k, kind = nearMisses[r.Intn(len(nearMisses))], "near-miss"
			if r.Chance(40) {
				k = randCase(r, k) + ident(r, r.Intn(3))
			}
		case x < 80:
			k, kind = nonASCII[r.Intn(len(nonASCII))], "non-ascii"
			if r.Chance(30) {
				k += ident(r, 2)
			}
		case x < 84:
			k, kind = []string{"Node", "TTL", "Signature", "params", "Command", "tlsClient", "unitid"}[r.Intn(7)], "reserved-lookalike"
		case x < 88:
			k, kind = []string{"a b", "k\"q", "k\\n", "k\nl", "{", "k:v", "\u0001"}[r.Intn(7)]+ident(r, 2), "special-chars"
		case x < 90:
			k, kind = randCase(r, "secret_")+strings.Repeat("k", 150+r.Intn(100)), "secret-long"
		default:
			k, kind = ident(r, 1+r.Intn(10)), "plain"
		}
		if !reserved[k] {
			return k, kind
		}
	}
}

// a value: marker + optional tail that needs JSON escaping
func genValue(r *Rng, secret bool) string {
	m := "ZQP"
	if secret {
		m = "ZQS"
	}
	v := m + ident(r, 10)
	if r.Chance(25) {
		v += []string{" with space", "\"quoted\"", "\\back", "é日", "\n", "<&>", " "}[r.Intn(7)]
	}
	return v
}

func genParams(r *Rng, im *Impl) map[string]string {
	n := r.Intn(6)
	if r.Chance(10) {
		n = 8 + r.Intn(8)
	}
	p := map[string]string{}
	for i := 0; i < n; i++ {
		k, kind := genKey(r)
		if _, dup := p[k]; dup {
			continue
		}
		im.Hist("key:" + kind)
		p[k] = genValue(r, oracleSecret(k))
	}
	return p
}

// keys as raw bytes for the library-level comparison (invalid UTF-8 included)
func genRawKey(r *Rng) []byte {
	switch x := r.Intn(10); {
	case x < 4:
		k, _ := genKey(r)
		return []byte(k)
	case x < 7:
		b := []byte(randCase(r, "secret_") + ident(r, r.Intn(4)))
		for n := 1 + r.Intn(2); n > 0; n-- {
			i := r.Intn(len(b))
			switch r.Intn(4) {
			case 0:
				b[i] = byte(0x80 + r.Intn(0x80))
			case 1:
				b[i] ^= 0x20
			case 2:
				b[i] = byte(r.U64())
			default:
				b = append(b[:i], b[i+1:]...)
			}
		}
		return b
	case x < 8:
		return r.Bytes(r.Intn(12))
	default:
		// a multi-byte rune in front of / inside the prefix
		runes := []rune{0x17f, 0x212a, 0x130, 0xff33, 0x3a3, 0x1e9e, 0xdf, 0x10400, 0xfffd}
		s := []rune(randCase(r, "secret_x"))
		s[r.Intn(len(s))] = runes[r.Intn(len(runes))]
		return []byte(string(s))
	}
}

// ---------- Coq printing ----------

func sortedKeys(p map[string]string) []string {
	ks := make([]string, 0, len(p))
	for k := range p {
		ks = append(ks, k)
	}
	sort.Strings(ks) // byte order
	return ks
}

func coqParams(p map[string]string) string {
	xs := []string{}
	for _, k := range sortedKeys(p) {
		xs = append(xs, "("+HxS(k)+", "+HxS(p[k])+")")
	}
	return CoqList(xs)
}

type view struct {
	Node, WType, TLS string
	Params           map[string]string
}

func coqView(v view) string {
	return fmt.Sprintf("(mkview %s %s %s %s)", HxS(v.Node), HxS(v.WType), HxS(v.TLS), coqParams(v.Params))
}

// ---------- the two-node world ----------

type unit struct {
	n      uint64
	id     string
	params map[string]string // as submitted
	tls    string
}

type world struct {
	c        *Ctx
	im       *Impl
	tap      *Tap
	A, B     *Daemon
	byID     map[string]*unit
	next     uint64
	profiles []string
	fatal    string
	abandon  bool // the current history lost a unit record to a kill (not this property's business)
	// midSubmit, when set, runs between the "created" reply of a submission and the end of its input
	// data (fault.go: the status writes that follow are made to fail)
	midSubmit func(id string)
}

func freePort() int {
	l, err := net.Listen("tcp", "127.0.0.1:0")
	Must(err)
	defer l.Close()
	return l.Addr().(*net.TCPAddr).Port
}

func writeCert(dir, name, nodeID string, ca *certificates.CA) (string, string) {
	req, key, err := certificates.CreateCertReqWithKey(&certificates.CertOptions{CommonName: nodeID, Bits: 2048,
		CertNames: certificates.CertNames{NodeIDs: []string{nodeID}, DNSNames: []string{nodeID}}})
	Must(err)
	crt, err := certificates.SignCertReq(req, ca, &certificates.CertOptions{})
	Must(err)
	cf, kf := filepath.Join(dir, name+".crt"), filepath.Join(dir, name+".key")
	Must(certificates.SaveToPEMFile(cf, []interface{}{crt}, &certificates.OsWrapper{}))
	Must(certificates.SaveToPEMFile(kf, []interface{}{key}, &certificates.OsWrapper{}))
	return cf, kf
}

func setup(c *Ctx, im *Impl) *world {
	dir, err := os.MkdirTemp("", "vh-c19-")
	Must(err)
	ca, err := certificates.CreateCA(&certificates.CertOptions{CommonName: "c19 CA", Bits: 2048}, &certificates.RsaWrapper{})
	Must(err)
	caf := filepath.Join(dir, "ca.crt")
	Must(certificates.SaveToPEMFile(caf, []interface{}{ca.Certificate}, &certificates.OsWrapper{}))
	aCrt, aKey := writeCert(dir, "a", "c19a", ca)
	bCrt, bKey := writeCert(dir, "b", "c19b", ca)
	port := freePort()
	A := &Daemon{Bin: c.Bin, ID: "c19a", Dir: filepath.Join(dir, "a")}
	A.Sock = filepath.Join(A.Dir, "ctl.sock")
	A.Config = fmt.Sprintf(`---
- node:
    id: c19a
    datadir: %s
- log-level: debug
- tls-client:
    name: cli
    cert: %s
    key: %s
    rootcas: %s
- control-service:
    service: control
    filename: %s
- tcp-peer:
    address: 127.0.0.1:%d
    redial: true
- work-command:
    worktype: cat
    command: cat
`, A.DataDir(), aCrt, aKey, caf, A.Sock, port)
	B := &Daemon{Bin: c.Bin, ID: "c19b", Dir: filepath.Join(dir, "b")}
	B.Sock = filepath.Join(B.Dir, "ctl.sock")
	B.Config = fmt.Sprintf(`---
- node:
    id: c19b
    datadir: %s
- log-level: debug
- tls-server:
    name: srv
    cert: %s
    key: %s
- tcp-listener:
    port: %d
    bindaddr: 127.0.0.1
- control-service:
    service: control
    filename: %s
    tls: srv
- work-command:
    worktype: cat
    command: cat
%s`, B.DataDir(), bCrt, bKey, port, B.Sock, kubeTypesYAML(dir))
	Must(B.Start())
	Must(A.Start())
	w := &world{c: c, im: im, tap: &Tap{}, A: A, B: B, byID: map[string]*unit{}, next: 1, profiles: []string{"cli"}}
	w.waitRoute()
	return w
}

// waitRoute waits until A has a route to B (a ping from A answers).
func (w *world) waitRoute() bool {
	deadline := time.Now().Add(10 * time.Second)
	for time.Now().Before(deadline) {
		l, err := oneShot(w.tap, w.A.Sock, "A:ping", `{"command":"ping","target":"c19b"}`)
		if err == nil && strings.Contains(l, `"Success":true`) {
			return true
		}
		time.Sleep(50 * time.Millisecond)
	}
	return false
}

func (w *world) teardown() {
	w.A.Kill()
	w.B.Kill()
	killStrays(filepath.Dir(w.A.Dir))
	_ = os.RemoveAll(filepath.Dir(w.A.Dir))
}

// killStrays kills detached command runners whose command line mentions dir.
func killStrays(dir string) {
	ents, _ := os.ReadDir("/proc")
	for _, e := range ents {
		pid := 0
		if _, err := fmt.Sscanf(e.Name(), "%d", &pid); err != nil || pid <= 1 || pid == os.Getpid() {
			continue
		}
		b, err := os.ReadFile("/proc/" + e.Name() + "/cmdline")
		if err == nil && strings.Contains(string(b), dir) {
			if p, err := os.FindProcess(pid); err == nil {
				_ = p.Kill()
			}
		}
	}
}

// listRaw: `work list` → unit id → status object.
func (w *world) listRaw(d *Daemon, where string) (map[string]map[string]interface{}, string, error) {
	l, err := oneShot(w.tap, d.Sock, where, `{"command":"work","subcommand":"list"}`)
	if err != nil {
		return nil, l, err
	}
	out := map[string]map[string]interface{}{}
	if err := json.Unmarshal([]byte(l), &out); err != nil {
		return nil, l, fmt.Errorf("unparsable list reply %q", l)
	}
	return out, l, nil
}

func idsOf(m map[string]map[string]interface{}) []string {
	ks := []string{}
	for k := range m {
		ks = append(ks, k)
	}
	sort.Strings(ks)
	return ks
}

func dirEntries(dir string) []string {
	ents, _ := os.ReadDir(dir)
	out := []string{}
	for _, e := range ents {
		out = append(out, e.Name())
	}
	sort.Strings(out)
	return out
}

func viewOf(st map[string]interface{}) (view, bool) {
	ed, ok := st["ExtraData"].(map[string]interface{})
	if !ok {
		return view{}, false
	}
	v := view{Params: map[string]string{}}
	v.Node, _ = ed["RemoteNode"].(string)
	v.WType, _ = ed["RemoteWorkType"].(string)
	v.TLS, _ = ed["TLSClient"].(string)
	if rp, ok := ed["RemoteParams"].(map[string]interface{}); ok {
		for k, x := range rp {
			s, _ := x.(string)
			v.Params[k] = s
		}
	}
	return v, true
}

// oracle on one shown parameter map
func (w *world) checkShown(u *unit, v view, where string) {
	want := map[string]string{}
	for k, x := range u.params {
		if !oracleSecret(k) {
			want[k] = x
		}
	}
	for k := range v.Params {
		if oracleSecret(k) {
			w.im.Violate(fmt.Sprintf("%s shows the secret parameter %q of unit %s", where, k, u.id), "secret-key-shown:"+where,
				map[string]interface{}{"params": u.params, "shown": v.Params})
			return
		}
	}
	if len(want) != len(v.Params) {
		w.im.Violate(fmt.Sprintf("%s shows %d parameters of unit %s, %d non-secret ones were submitted", where, len(v.Params), u.id, len(want)),
			"nonsecret-param-changed:"+where, map[string]interface{}{"params": u.params, "shown": v.Params})
		return
	}
	for k, x := range want {
		if y, ok := v.Params[k]; !ok || y != x {
			w.im.Violate(fmt.Sprintf("%s: non-secret parameter %q of unit %s is %q, submitted %q", where, k, u.id, y, x),
				"nonsecret-param-changed:"+where, map[string]interface{}{"params": u.params, "shown": v.Params})
			return
		}
	}
}

func (w *world) checkLeaks(ctxt interface{}) {
	for _, h := range w.tap.takeHits() {
		where := h
		if i := strings.Index(h, ":"); i > 0 {
			where = h[:i]
		}
		if i := strings.Index(where, " "); i > 0 {
			where = where[:i]
		}
		w.im.Violate("a secret parameter value was received on a control session: "+h, "secret-disclosed:"+where, ctxt)
	}
}

func errCode(l string) uint64 {
	switch {
	case strings.Contains(l, "unknown TLS config"):
		return 1
	case strings.Contains(l, "cannot send secrets"):
		return 2
	case strings.Contains(l, "time: "):
		return 3
	case strings.Contains(l, "unknown work unit"):
		return 4
	}
	return 9
}

// ---------- operations; each returns (op term, observed reply term) ----------

func (w *world) submit(node, wtype, tls, ttl string, params map[string]string) (string, string) {
	before, _, err := w.listRaw(w.A, "A:list")
	if err != nil {
		w.fatal = "list before submit: " + err.Error()
		return "", ""
	}
	dirBefore := dirEntries(w.A.UnitsDir())
	bBefore, _, _ := w.listRaw(w.B, "B:list")
	req := map[string]interface{}{"command": "work", "subcommand": "submit", "node": node, "worktype": wtype}
	if tls != "" {
		req["tlsclient"] = tls
	}
	if ttl != "" {
		req["ttl"] = ttl
	}
	hasSecret := false
	for k, v := range params {
		req[k] = v
		if oracleSecret(k) {
			hasSecret = true
		}
	}
	rec := map[string]interface{}{"node": node, "worktype": wtype, "tlsclient": tls, "ttl": ttl, "params": params}
	jb, _ := json.Marshal(req)
	s, err := dial(w.tap, w.A.Sock, "A:submit")
	if err != nil {
		w.fatal = "dial A: " + err.Error()
		return "", ""
	}
	defer s.close()
	_ = s.send(append(jb, '\n'))
	l, err := s.line(20 * time.Second)
	if err != nil {
		w.fatal = "no reply to submit: " + err.Error()
		return "", ""
	}
	created := ""
	if i := strings.Index(l, "with ID "); i >= 0 && !strings.HasPrefix(l, "ERROR") {
		created = strings.TrimSuffix(strings.Fields(l[i+8:])[0], ".")
		if w.midSubmit != nil {
			w.midSubmit(created)
		}
		_ = s.send([]byte("payload\n"))
		s.closeWrite()
		if _, err := s.line(20 * time.Second); err != nil {
			w.fatal = "no final reply to submit: " + err.Error()
			return "", ""
		}
	}
	after, _, err := w.listRaw(w.A, "A:list")
	if err != nil {
		w.fatal = "list after submit: " + err.Error()
		return "", ""
	}
	dirAfter := dirEntries(w.A.UnitsDir())
	var fresh []string
	for id := range after {
		if _, ok := before[id]; !ok {
			fresh = append(fresh, id)
		}
	}
	ttlOK := ttl != "bogus"
	n := w.next
	op := fmt.Sprintf("Submit %d %s %s %s %s %s", n, HxS(node), HxS(wtype), HxS(tls), CoqBool(ttlOK), coqParams(params))
	kind := "submit:accepted"
	var obs string
	if strings.HasPrefix(l, "ERROR") {
		obs = fmt.Sprintf("RErr %d", errCode(l))
		kind = fmt.Sprintf("submit:error-%d", errCode(l))
	} else {
		obs = fmt.Sprintf("RCreated %d", n)
	}
	w.im.Hist(kind)
	if hasSecret && tls == "" {
		// the refusal half of the property
		w.im.Hist("refusal-checked")
		if !strings.HasPrefix(l, "ERROR") {
			w.im.Violate("a remote submission with a secret parameter and no TLS client profile was accepted: "+l, "secret-accepted-without-tls", rec)
		}
		if len(fresh) != 0 || strings.Join(dirBefore, ",") != strings.Join(dirAfter, ",") {
			w.im.Violate(fmt.Sprintf("refused submission left state behind: new units %v, data directory %v -> %v", fresh, dirBefore, dirAfter), "refusal-left-state", rec)
		}
		time.Sleep(30 * time.Millisecond)
		bAfter, _, _ := w.listRaw(w.B, "B:list")
		// a unit that appears at the target meanwhile must belong to an EARLIER, accepted submission
		// (its start job may connect late): some unit of A names it as its remote unit
		claimed := map[string]bool{}
		if aUnits, _, err := w.listRaw(w.A, "A:list"); err == nil {
			for _, st := range aUnits {
				if ed, ok := st["ExtraData"].(map[string]interface{}); ok {
					if rid, _ := ed["RemoteUnitID"].(string); rid != "" {
						claimed[rid] = true
					}
				}
			}
		}
		for id := range bAfter {
			if _, was := bBefore[id]; !was && !claimed[id] {
				w.im.Violate("refused submission reached the target node: unit "+id+" appeared there and no accepted submission accounts for it", "refusal-sent", rec)
			}
		}
	}
	if len(fresh) > 1 || (created != "" && (len(fresh) != 1 || fresh[0] != created)) {
		w.fatal = fmt.Sprintf("cannot identify the created unit: reply %q, new %v", l, fresh)
		return "", ""
	}
	if len(fresh) == 1 {
		u := &unit{n: n, id: fresh[0], params: params, tls: tls}
		w.byID[u.id] = u
		w.next++
	}
	w.checkLeaks(rec)
	return op, obs
}

func (w *world) unitByN(n uint64) *unit {
	for _, u := range w.byID {
		if u.n == n {
			return u
		}
	}
	return nil
}

func (w *world) status(u *unit) (string, string) {
	op := fmt.Sprintf("Status %d", u.n)
	jb, _ := json.Marshal(map[string]interface{}{"command": "work", "subcommand": "status", "unitid": u.id})
	l, err := oneShot(w.tap, w.A.Sock, "A:status", string(jb))
	if err != nil {
		w.fatal = "status: " + err.Error()
		return "", ""
	}
	w.checkLeaks(map[string]interface{}{"op": "status", "params": u.params})
	if strings.HasPrefix(l, "ERROR") {
		return op, fmt.Sprintf("RErr %d", errCode(l))
	}
	var st map[string]interface{}
	_ = json.Unmarshal([]byte(l), &st)
	v, ok := viewOf(st)
	if !ok {
		// the record of the unit was lost (a kill between the truncation and the rewrite of the
		// status file: properties C04/C14); nothing is disclosed — this history cannot be compared
		w.im.Hist("history-abandoned:unit-record-lost-at-restart(C04/C14)")
		w.abandon = true
		return op, "RNone"
	}
	w.checkShown(u, v, "status")
	if rs, _ := st["ExtraData"].(map[string]interface{})["RemoteStarted"].(bool); rs {
		w.im.Hist("status:of-started-unit")
	}
	return op, fmt.Sprintf("RView %d %s", u.n, coqView(v))
}

func (w *world) list(one *unit) (string, string) {
	op := "List"
	req := `{"command":"work","subcommand":"list"}`
	if one != nil {
		op = fmt.Sprintf("ListOne %d", one.n)
		jb, _ := json.Marshal(map[string]interface{}{"command": "work", "subcommand": "list", "unitid": one.id})
		req = string(jb)
	}
	l, err := oneShot(w.tap, w.A.Sock, "A:list", req)
	if err != nil {
		w.fatal = "list: " + err.Error()
		return "", ""
	}
	w.checkLeaks(map[string]interface{}{"op": op})
	if strings.HasPrefix(l, "ERROR") {
		return op, fmt.Sprintf("RErr %d", errCode(l))
	}
	m := map[string]map[string]interface{}{}
	_ = json.Unmarshal([]byte(l), &m)
	type ent struct {
		n uint64
		s string
	}
	var ents []ent
	for id, st := range m {
		u := w.byID[id]
		if u == nil {
			w.fatal = "list shows a unit this run did not create: " + id
			return "", ""
		}
		v, ok := viewOf(st)
		if !ok {
			w.im.Hist("history-abandoned:unit-record-lost-at-restart(C04/C14)")
			w.abandon = true
			continue
		}
		w.checkShown(u, v, "list")
		ents = append(ents, ent{u.n, fmt.Sprintf("(%d, %s)", u.n, coqView(v))})
	}
	sort.Slice(ents, func(i, j int) bool { return ents[i].n < ents[j].n })
	xs := []string{}
	for _, e := range ents {
		xs = append(xs, e.s)
	}
	return op, "RList " + CoqList(xs)
}

func (w *world) cancelOrRelease(u *unit, sub string) (string, string) {
	op := fmt.Sprintf("Cancel %d", u.n)
	if sub != "cancel" {
		op = fmt.Sprintf("Release %d", u.n)
	}
	jb, _ := json.Marshal(map[string]interface{}{"command": "work", "subcommand": sub, "unitid": u.id})
	l, err := oneShot(w.tap, w.A.Sock, "A:"+sub, string(jb))
	if err != nil {
		w.fatal = sub + ": " + err.Error()
		return "", ""
	}
	w.checkLeaks(map[string]interface{}{"op": sub, "params": u.params})
	if strings.HasPrefix(l, "ERROR") {
		return op, fmt.Sprintf("RErr %d", errCode(l))
	}
	if sub != "cancel" {
		// removal of a started unit completes in the background: wait for it, scanning every reply
		gone := false
		for i := 0; i < 200 && !gone; i++ {
			jb, _ := json.Marshal(map[string]interface{}{"command": "work", "subcommand": "status", "unitid": u.id})
			l2, err := oneShot(w.tap, w.A.Sock, "A:status", string(jb))
			if err == nil && strings.HasPrefix(l2, "ERROR") && errCode(l2) == 4 {
				gone = true
				break
			}
			if i == 100 {
				fj, _ := json.Marshal(map[string]interface{}{"command": "work", "subcommand": "force-release", "unitid": u.id})
				_, _ = oneShot(w.tap, w.A.Sock, "A:force-release", string(fj))
				w.im.Hist("release:forced-after-5s")
			}
			time.Sleep(50 * time.Millisecond)
		}
		w.checkLeaks(map[string]interface{}{"op": "release-wait", "params": u.params})
		if !gone {
			w.fatal = "unit " + u.id + " still present 10 s after release"
			return "", ""
		}
		delete(w.byID, u.id)
	}
	return op, "RAck"
}

func (w *world) restart(hard bool) (string, string) {
	if hard {
		w.A.Kill()
		w.im.Hist("restart:sigkill")
	} else {
		w.A.Stop()
		w.im.Hist("restart:sigterm")
	}
	if err := w.A.Start(); err != nil {
		w.fatal = "restart of A: " + err.Error()
		return "", ""
	}
	return "Restart", "RNone"
}

// status files of A: unit number → unredacted parameter map
func (w *world) files() string {
	type ent struct {
		n uint64
		s string
	}
	var ents []ent
	for _, name := range dirEntries(w.A.UnitsDir()) {
		u := w.byID[name]
		if u == nil {
			continue
		}
		// the daemon rewrites the record in place (truncate, then write) whenever the remote
		// status is polled: an empty or partial read is retried
		var st map[string]interface{}
		var v view
		ok := false
		for try := 0; try < 100 && !ok; try++ {
			b, err := os.ReadFile(filepath.Join(w.A.UnitsDir(), name, "status"))
			if err == nil && json.Unmarshal(b, &st) == nil {
				v, ok = viewOf(st)
			}
			if !ok {
				w.im.Hist("disk:status-file-read-retried")
				time.Sleep(5 * time.Millisecond)
			}
		}
		if !ok {
			continue
		}
		for k := range v.Params {
			if oracleSecret(k) {
				w.im.Hist("disk:record-holds-secret(unredacted,as-modelled)")
				break
			}
		}
		ents = append(ents, ent{u.n, fmt.Sprintf("(%d, %s)", u.n, coqParams(v.Params))})
	}
	sort.Slice(ents, func(i, j int) bool { return ents[i].n < ents[j].n })
	xs := []string{}
	for _, e := range ents {
		xs = append(xs, e.s)
	}
	return CoqList(xs)
}

// ---------- one history ----------

func (w *world) history(cf *CaseFile, idx int, withRestart bool) {
	r := w.c.Rng
	w.next = 1
	var ops, obs []string
	add := func(o, b string) {
		if o != "" {
			ops = append(ops, o)
			obs = append(obs, b)
		}
	}
	live := func() []*unit {
		us := []*unit{}
		for _, u := range w.byID {
			us = append(us, u)
		}
		sort.Slice(us, func(i, j int) bool { return us[i].n < us[j].n })
		return us
	}
	nontrivial := false
	label := []string{}
	doSubmit := func() {
		params := genParams(r, w.im)
		node := "c19b"
		if r.Chance(35) {
			node = "ghost-" + ident(r, 3)
		}
		tls := ""
		switch x := r.Intn(100); {
		case x < 50:
			tls = "cli"
		case x < 58:
			tls = "nosuch"
		}
		ttl := ""
		if r.Chance(12) {
			ttl = "10m"
		} else if r.Chance(8) {
			ttl = "bogus"
		}
		wt := "cat"
		if r.Chance(10) && node == "c19b" {
			wt = "remote" // the target stores the parameters it receives: witness of transmission
		} else if r.Chance(8) && node == "c19b" {
			wt = "nosuchtype" // the target answers the transmission with an error that comes back to the client
		}
		hasSecret := false
		for k := range params {
			if oracleSecret(k) {
				hasSecret = true
			}
		}
		if hasSecret {
			nontrivial = true
		}
		label = append(label, fmt.Sprintf("submit{node=%s wt=%s tls=%q ttl=%q params=%q}", node, wt, tls, ttl, params))
		o, b := w.submit(node, wt, tls, ttl, params)
		add(o, b)
		w.im.Sample(map[string]interface{}{"node": node, "worktype": wt, "tlsclient": tls, "ttl": ttl, "params": params, "reply": b})
	}
	doSubmit()
	nOps := 3 + r.Intn(7)
	restartAt := -1
	if withRestart {
		restartAt = r.Intn(nOps)
	}
	for i := 0; i < nOps && w.fatal == ""; i++ {
		us := live()
		x := r.Intn(100)
		if i == restartAt {
			x = 99
		}
		switch {
		case x < 18 || len(us) == 0:
			doSubmit()
		case x < 40:
			u := us[r.Intn(len(us))]
			label = append(label, "status")
			add(w.status(u))
		case x < 58:
			label = append(label, "list")
			add(w.list(nil))
		case x < 68:
			label = append(label, "list-one")
			add(w.list(us[r.Intn(len(us))]))
		case x < 80:
			label = append(label, "cancel")
			add(w.cancelOrRelease(us[r.Intn(len(us))], "cancel"))
		case x < 88:
			label = append(label, "release")
			add(w.cancelOrRelease(us[r.Intn(len(us))], "release"))
		default:
			if i == restartAt {
				label = append(label, "restart")
				add(w.restart(r.Bool()))
			} else {
				label = append(label, "list")
				add(w.list(nil))
			}
		}
	}
	if w.fatal != "" {
		return
	}
	// always end with the two views of everything that is left
	add(w.list(nil))
	for _, u := range live() {
		add(w.status(u))
	}
	// witness that secrets do travel when a TLS profile is named: B's status files
	for _, name := range dirEntries(w.B.UnitsDir()) {
		b, _ := os.ReadFile(filepath.Join(w.B.UnitsDir(), name, "status"))
		if strings.Contains(string(b), "ZQS") {
			w.im.Hist("transmitted-secret-found-in-target-status-file")
		}
	}
	files := w.files()
	if w.abandon {
		w.abandon = false
	} else {
		cf.Add(fmt.Sprintf("CHist %s %s %s %s", CoqStrList(w.profiles), CoqList(ops), CoqList(obs), files),
			fmt.Sprintf("history %d: %s", idx, strings.Join(label, "; ")))
	}
	w.im.Count(fmt.Sprintf("hist %d %v", idx, label), nontrivial)
	w.im.Hist(fmt.Sprintf("history-length:%d", len(ops)/4*4))
	// clean up outside the recorded history (still scanned)
	for _, u := range live() {
		w.cancelOrRelease(u, "release")
		if w.fatal != "" {
			return
		}
	}
	// B's units created by transmissions disappear with the release; anything left is removed
	if bl, _, err := w.listRaw(w.B, "B:list"); err == nil {
		for id := range bl {
			jb, _ := json.Marshal(map[string]interface{}{"command": "work", "subcommand": "force-release", "unitid": id})
			_, _ = oneShot(w.tap, w.B.Sock, "B:release", string(jb))
		}
	}
	w.checkLeaks("cleanup")
}

// ---------- Unicode assumption of the model ----------

// The model lowers ASCII only.  That equals strings.ToLower for the purpose of the "secret_"
// prefix iff no rune >= 0x80 lowers to one of the prefix's characters.
func checkUnicodeAssumption(im *Impl) {
	for r := rune(0x80); r <= unicode.MaxRune; r++ {
		l := unicode.ToLower(r)
		if l < 0x80 && strings.ContainsRune("secret_", l) {
			im.Violate(fmt.Sprintf("unicode.ToLower(U+%04X) = %q: a non-ASCII spelling of the secret prefix exists that the model does not know", r, l),
				"unicode-lower-assumption", nil)
		}
	}
	im.Hist("unicode-assumption:code-points-checked-1113984")
}

func runC19(c *Ctx) {
	im := NewImpl("C19", c.Seed, c.Tier)
	im.Rule = "key cases: byte strings around the prefix (case variants, near misses, non-ASCII and invalid UTF-8 inside the prefix), Go expression vs is_secret; histories: 1-4 remote submissions with generated parameter maps (values = unique markers; secret values carry the marker ZQS) to a reachable TLS node or an absent node, with tlsclient in {none, known, unknown} and ttl in {none, valid, unparsable}, then 3-9 random status/list/list-one/cancel/release/restart operations and a final list + status of every unit; non-trivial = at least one submitted map contains a secret key; distinct by full history; " + faultRule
	cf := &CaseFile{Dir: c.Out, Prop: "C19", Imports: []string{"Model.Secrets"}, CaseType: "secrets_case", CheckFn: "secrets_check", PerShard: 300}
	r := c.Rng
	checkUnicodeAssumption(im)
	// library level
	nKeys := 2500
	nHist := 70
	nRestart := 8
	if c.Thorough() {
		nKeys, nHist, nRestart = 20000, 700, 60
	}
	fixed := []string{"secret_", "SECRET_", "Secret_x", "secret", "xsecret_", "secret_x", "", "s", "ſecret_x", "Kecret_", "SECRET_\xff", "\xffsecret_", "secret\xff_"}
	for i := 0; i < nKeys; i++ {
		var k []byte
		if i < len(fixed) {
			k = []byte(fixed[i])
		} else {
			k = genRawKey(r)
		}
		g := strings.HasPrefix(strings.ToLower(string(k)), "secret_")
		cf.Add(fmt.Sprintf("CKey %s %s", Hx(k), CoqBool(g)), fmt.Sprintf("key %q", k))
		im.Count(fmt.Sprintf("key %x", k), len(k) >= 7)
		if g {
			im.Hist("keycase:secret")
		} else {
			im.Hist("keycase:not-secret")
		}
		if g != oracleSecret(string(k)) {
			im.Violate(fmt.Sprintf("Go's test and the ASCII-case reading of the property differ on key %q (Go says secret=%v)", k, g), "secret-test-differs", fmt.Sprintf("%x", k))
		}
	}
	// process level
	if c.Bin == "" {
		Must(fmt.Errorf("VERIF_BIN not set"))
	}
	w := setup(c, im)
	defer w.teardown()
	for i := 0; i < nHist && w.fatal == ""; i++ {
		w.history(cf, i, i%(nHist/nRestart) == 1)
		if !w.A.Alive() || !w.B.Alive() {
			im.Violate("a daemon died during the run", "daemon-died", nil)
			break
		}
	}
	if w.fatal == "" {
		w.faultPhase(cf)
	}
	if w.fatal == "" {
		w.kubePhase(cf)
	}
	w.scanLogsAndModes()
	if w.fatal != "" {
		// the harness lost track of the implementation: never silently pass
		im.Violate("harness could not complete a history: "+w.fatal, "harness-stuck", nil)
	}
	im.Extra["bytes_scanned"] = w.tap.total
	Must(cf.Write())
	Must(im.Write(c.Out))
}
