package main

// Kubernetes work units (pkg/workceptor/kubernetes.go): secret_kube_config and secret_kube_pod.
// Node B has a `work-kubernetes` type with runtime authentication; there is no cluster: the unit is
// created, its record is written, and starting it fails in the Kubernetes client library — whose
// error texts end up in the reply to the submitter and in the unit's Detail.
//   * credentials inside the secrets (tokens, key data, passwords, pod environment) carry ZQS:
//     they must never be received on any control session of either node;
//   * the fields KubeConfig / KubePod of every status and list reply must be empty;
//   * names, paths and URLs inside the kubeconfig carry ZQF: seeing one of them in a reply is
//     counted as an observation (histogram + one sample in the evidence), not a violation: the
//     property speaks of the VALUES of secret_ parameters;
//   * the record in the status file is compared with the reply through Model/Secrets.v kube_view.

import (
	"encoding/json"
	"fmt"
	"os"
	"path/filepath"
	"strings"
	"time"

	. "verifharness/lib"
)

func kubeconfig(r *Rng, variant int) (string, string) {
	tok := "ZQS" + ident(r, 12)
	base := func(ctx, cur, user string) string {
		return fmt.Sprintf(`apiVersion: v1
kind: Config
clusters:
- name: ZQFcluster%s
  cluster: {server: "https://127.0.0.1:1/ZQFpath%s"}
contexts:
- name: %s
  context: {cluster: ZQFcluster%s, user: u, namespace: ns}
current-context: %s
users:
- name: u
  user: %s
`, "1", ident(r, 4), ctx, "1", cur, user)
	}
	switch variant % 9 {
	case 0:
		return base("ZQFctx1", "ZQFctx1", "{token: "+tok+"}"), "valid-shape-token"
	case 1:
		return base("ZQFctx1", "ZQFctxOther", "{token: "+tok+"}"), "unknown-current-context"
	case 2:
		return base("ZQFctx1", "ZQFctx1", "{token: ["+tok+"]}"), "token-of-wrong-type"
	case 3:
		return base("ZQFctx1", "ZQFctx1", "{client-certificate-data: "+tok+"!!, client-key-data: "+tok+"}"), "bad-base64-key-data"
	case 4:
		return base("ZQFctx1", "ZQFctx1", "{username: admin, password: "+tok+"}"), "basic-auth"
	case 5:
		return tok, "scalar"
	case 6:
		return "- " + tok + "\n- " + tok + "x\n", "list"
	case 7:
		return "users: [{name: u, user: {token: " + tok + "}}]: [unclosed " + tok, "broken-yaml"
	default:
		return `{"apiVersion":"v1","kind":"Config","users":[{"name":"u","user":{"token":"` + tok + `"}}]}`, "json-without-cluster"
	}
}

func kubepod(r *Rng, variant int) (string, string) {
	m := "ZQS" + ident(r, 12)
	switch variant % 5 {
	case 0:
		return "", "none"
	case 1:
		return fmt.Sprintf("apiVersion: v1\nkind: Pod\nmetadata: {name: p}\nspec:\n  containers:\n  - name: worker\n    image: img\n    env: [{name: PASSWORD, value: %s}]\n", m), "pod-with-secret-env"
	case 2:
		return m, "scalar"
	case 3:
		return "spec: [" + m, "broken-yaml"
	default:
		return "apiVersion: v1\nkind: Pod\nspec: " + m + "\n", "spec-of-wrong-type"
	}
}

type kubeShown struct {
	KubeConfig, KubePod, KubeNamespace, Image string
}

func (w *world) kubeReplyCheck(where, unit, reply string, st map[string]interface{}, rec interface{}) *kubeShown {
	ed, ok := st["ExtraData"].(map[string]interface{})
	if !ok {
		return nil
	}
	sh := &kubeShown{}
	sh.KubeConfig, _ = ed["KubeConfig"].(string)
	sh.KubePod, _ = ed["KubePod"].(string)
	sh.KubeNamespace, _ = ed["KubeNamespace"].(string)
	sh.Image, _ = ed["Image"].(string)
	if sh.KubeConfig != "" || sh.KubePod != "" {
		w.im.Violate(fmt.Sprintf("%s of Kubernetes unit %s shows KubeConfig (%d bytes) / KubePod (%d bytes)", where, unit, len(sh.KubeConfig), len(sh.KubePod)),
			"kube-secret-field-shown:"+where, rec)
	}
	return sh
}

func (w *world) checkFrags(rec interface{}) {
	// an OBSERVATION, not a violation: the property speaks of the values of secret_ parameters; what
	// shows up here is a fragment (server URL/path, context name) quoted by a third-party error text
	for _, h := range w.tap.takeFrags() {
		w.im.Hist("observation:secret-fragment-in-error-text")
		if _, ok := w.im.Extra["observation_secret_fragment_sample"]; !ok {
			w.im.Extra["observation_secret_fragment_sample"] = h
		}
	}
}

// submitTo: work submit on a node's own socket; returns first reply line, final line, unit ID
func (w *world) submitTo(d *Daemon, where string, req map[string]interface{}) (string, string, string) {
	jb, _ := json.Marshal(req)
	s, err := dial(w.tap, d.Sock, where)
	if err != nil {
		w.fatal = "dial " + d.ID + ": " + err.Error()
		return "", "", ""
	}
	defer s.close()
	_ = s.send(append(jb, '\n'))
	l, err := s.line(20 * time.Second)
	if err != nil {
		w.fatal = "no reply to submit on " + d.ID + ": " + err.Error()
		return "", "", ""
	}
	id := ""
	final := ""
	if i := strings.Index(l, "with ID "); i >= 0 && !strings.HasPrefix(l, "ERROR") {
		id = strings.TrimSuffix(strings.Fields(l[i+8:])[0], ".")
		_ = s.send([]byte("payload\n"))
		s.closeWrite()
		final, _ = s.line(20 * time.Second)
	}
	return l, final, id
}

func (w *world) kubePhase(cf *CaseFile) {
	r := w.c.Rng
	n := 10
	if w.c.Thorough() {
		n = 80
	}
	for i := 0; i < n && w.fatal == ""; i++ {
		cfg, ckind := kubeconfig(r, i)
		pod, pkind := kubepod(r, i/2+i)
		rec := map[string]interface{}{"secret_kube_config": ckind, "secret_kube_pod": pkind}
		req := map[string]interface{}{"command": "work", "subcommand": "submit", "node": "localhost", "worktype": "kube", "secret_kube_config": cfg}
		if pod != "" {
			req["secret_kube_pod"] = pod
		}
		w.im.Hist("kube:config:" + ckind)
		w.im.Hist("kube:pod:" + pkind)
		w.im.Count(fmt.Sprintf("kube %d %s %s", i, cfg, pod), true)
		// (1) directly on B
		_, _, id := w.submitTo(w.B, "B:submit-kube", req)
		time.Sleep(150 * time.Millisecond) // the start attempt fails in the background
		if id != "" {
			jb, _ := json.Marshal(map[string]interface{}{"command": "work", "subcommand": "status", "unitid": id})
			l, err := oneShot(w.tap, w.B.Sock, "B:status-kube", string(jb))
			var st map[string]interface{}
			if err == nil && json.Unmarshal([]byte(l), &st) == nil {
				if sh := w.kubeReplyCheck("status", id, l, st, rec); sh != nil {
					// stored record vs reply through the model
					if b, err := os.ReadFile(filepath.Join(w.B.UnitsDir(), id, "status")); err == nil {
						var disk struct{ ExtraData kubeShown }
						if json.Unmarshal(b, &disk) == nil {
							if disk.ExtraData.KubeConfig != "" {
								w.im.Hist("kube:status-file-holds-the-kubeconfig(unredacted,as-modelled)")
							}
							mk := func(k kubeShown) string {
								return fmt.Sprintf("(mkkube %s %s %s %s)", HxS(k.KubeConfig), HxS(k.KubePod), HxS(k.KubeNamespace), HxS(k.Image))
							}
							cf.Add("CKube "+mk(disk.ExtraData)+" "+mk(*sh), fmt.Sprintf("kube unit %s on B: config %s, pod %s", id, ckind, pkind))
						}
					}
				}
			}
			if m, raw, err := w.listRaw(w.B, "B:list-kube"); err == nil {
				if st, ok := m[id]; ok {
					w.kubeReplyCheck("list", id, raw, st, rec)
				}
			}
		}
		// (2) through A over TLS: A's replies carry what B answered
		req["node"], req["tlsclient"] = "c19b", "cli"
		_, _, aid := w.submitTo(w.A, "A:submit-kube", req)
		time.Sleep(150 * time.Millisecond)
		if aid != "" {
			jb, _ := json.Marshal(map[string]interface{}{"command": "work", "subcommand": "status", "unitid": aid})
			l, _ := oneShot(w.tap, w.A.Sock, "A:status-kube", string(jb))
			var st map[string]interface{}
			if json.Unmarshal([]byte(l), &st) == nil {
				if v, ok := viewOf(st); ok {
					for k := range v.Params {
						if oracleSecret(k) {
							w.im.Violate("status at the submitting node shows "+k+" of a Kubernetes submission", "secret-key-shown:status", rec)
						}
					}
				}
			}
			_, _, _ = w.listRaw(w.A, "A:list-kube")
			if m, raw, err := w.listRaw(w.B, "B:list-kube"); err == nil {
				for uid, st := range m {
					w.kubeReplyCheck("list", uid, raw, st, rec)
				}
			}
		}
		// (3) without a TLS profile the submission must not leave A
		delete(req, "tlsclient")
		before := dirEntries(w.A.UnitsDir())
		l, _, nid := w.submitTo(w.A, "A:submit-kube-no-tls", req)
		if nid != "" || !strings.HasPrefix(l, "ERROR") || strings.Join(before, ",") != strings.Join(dirEntries(w.A.UnitsDir()), ",") {
			w.im.Violate("a Kubernetes submission with secret_kube_config and no TLS profile was accepted: "+l, "secret-accepted-without-tls", rec)
		}
		w.checkLeaks(rec)
		w.checkFrags(rec)
		// clean up both nodes
		for _, d := range []*Daemon{w.A, w.B} {
			if m, _, err := w.listRaw(d, d.ID+":list"); err == nil {
				for uid := range m {
					jb, _ := json.Marshal(map[string]interface{}{"command": "work", "subcommand": "force-release", "unitid": uid})
					_, _ = oneShot(w.tap, d.Sock, d.ID+":release", string(jb))
				}
			}
		}
		w.checkLeaks(rec)
		w.checkFrags(rec)
	}
}

// Outside the property text (informational): what the debug logs and the files on disk hold.
func (w *world) scanLogsAndModes() {
	for _, d := range []*Daemon{w.A, w.B} {
		logs, _ := filepath.Glob(filepath.Join(d.Dir, "log.*"))
		for _, lf := range logs {
			b, err := os.ReadFile(lf)
			if err != nil {
				continue
			}
			w.im.Extra["log_bytes_"+d.ID] = len(b)
			n := strings.Count(string(b), "ZQS")
			if n > 0 {
				w.im.Hist("log:" + d.ID + ":lines-with-a-secret-value(debug-level,outside-the-property)")
				w.im.Extra["log_secret_occurrences_"+d.ID] = n
			}
		}
	}
	_ = filepath.Walk(w.A.UnitsDir(), func(p string, fi os.FileInfo, err error) error {
		if err == nil && !fi.IsDir() && filepath.Base(p) == "status" {
			w.im.Hist(fmt.Sprintf("disk:status-file-mode-%04o", fi.Mode().Perm()))
		}
		return nil
	})
}
