package main

// Kubernetes work units (pkg/workceptor/kubernetes.go): secret_kube_config and secret_kube_pod.
// Node B has a `work-kubernetes` type with runtime authentication; there is no cluster: the unit is
// created, its record is written, and starting it fails in the Kubernetes client library — whose
// error texts end up in the reply to the submitter and in the unit's Detail.
//   * credentials inside the secrets (tokens, key data, passwords, pod environment) carry ZQS:
//     they must never be received on any control session of either node;
//   * the fields KubeConfig / KubePod of every status and list reply must be empty;
//   * names, paths and URLs inside the kubeconfig carry ZQF: seeing one of them in a reply is
//     counted as an observation (histogram + one sample in the evidence), not a violation: the
//     property speaks of the VALUES of secret_ parameters;
//   * the record in the status file is compared with the reply through Model/Secrets.v kube_view.

import (
	"encoding/json"
	"fmt"
	"os"
	"path/filepath"
	"strings"
	"time"

	. "verifharness/lib"
)

func kubeconfig(r *Rng, variant int) (string, string) {
	tok := "ZQS" + ident(r, 12)
	base := func(ctx, cur, user string) string {
		return fmt.Sprintf(`apiVersion: v1
kind: Config
clusters:
- name: ZQFcluster%s
  cluster: {server: "https://127.0.0.1:1/ZQFpath%s"}
contexts:
- name: %s
  context: {cluster: ZQFcluster%s, user: u, namespace: ns}
current-context: %s
users:
- name: u
  user: %s
`, "1", ident(r, 4), ctx, "1", cur, user)
	}
	switch variant % 9 {
	case 0:
		return base("ZQFctx1", "ZQFctx1", "{token: "+tok+"}"), "valid-shape-token"
	case 1:
		return base("ZQFctx1", "ZQFctxOther", "{token: "+tok+"}"), "unknown-current-context"
	case 2:
		return base("ZQFctx1", "ZQFctx1", "{token: ["+tok+"]}"), "token-of-wrong-type"
	case 3:
		return base("ZQFctx1", "ZQFctx1", "{client-certificate-data: "+tok+"!!, client-key-data: "+tok+"}"), "bad-base64-key-data"
	case 4:
		return base("ZQFctx1", "ZQFctx1", "{username: admin, password: "+tok+"}"), "basic-auth"
	case 5:
		return tok, "scalar"
	case 6:
		return "- " + tok + "\n- " + tok + "x\n", "list"
	case 7:
		return "users: [{name: u, user: {token: " + tok + "}}]: [unclosed " + tok, "broken-yaml"
	default:
		return `{"apiVersion":"v1","kind":"Config","users":[{"name":"u","user":{"token":"` + tok + `"}}]}`, "json-without-cluster"
	}
}

func kubepod(r *Rng, variant int) (string, string) {
	m := "ZQS" + ident(r, 12)
	switch variant % 5 {
	case 0:
		return "", "none"
	case 1:
		return fmt.Sprintf("apiVersion: v1\nkind: Pod\nmetadata: {name: p}\nspec:\n  containers:\n  - name: worker\n    image: img\n    env: [{name: PASSWORD, value: %s}]\n", m), "pod-with-secret-env"
	case 2:
		return m, "scalar"
	case 3:
		return "spec: [" + m, "broken-yaml"
	default:
		return "apiVersion: v1\nkind: Pod\nspec: " + m + "\n", "spec-of-wrong-type"
	}
}

type kubeShown struct {
	KubeConfig, KubePod, KubeNamespace, Image string
}

func (w *world) kubeReplyCheck(where, unit, reply string, st map[string]interface{}, rec interface{}) *kubeShown {
	ed, ok := st["ExtraData"].(map[string]interface{})
	if !ok {
		return nil
	}
	sh := &kubeShown{}
	sh.KubeConfig, _ = ed["KubeConfig"].(string)
	sh.KubePod, _ = ed["KubePod"].(string)
	sh.KubeNamespace, _ = ed["KubeNamespace"].(string)
	sh.Image, _ = ed["Image"].(string)
	if sh.KubeConfig != "" || sh.KubePod != "" {
		w.im.Violate(fmt.Sprintf("%s of Kubernetes unit %s shows KubeConfig (%d bytes) / KubePod (%d bytes)", where, unit, len(sh.KubeConfig), len(sh.KubePod)),
			"kube-secret-field-shown:"+where, rec)
	}
	return sh
}

func (w *world) checkFrags(rec interface{}) {
	// an OBSERVATION, not a violation: the property speaks of the values of secret_ parameters; what
	// shows up here is a fragment (server URL/path, context name) quoted by a third-party error text
	for _, h := range w.tap.takeFrags() {
		w.im.Hist("observation:secret-fragment-in-error-text")
		if _, ok := w.im.Extra["observation_secret_fragment_sample"]; !ok {
			w.im.Extra["observation_secret_fragment_sample"] = h
		}
	}
}

// submitTo: work submit on a node's own socket; returns first reply line, final line, unit ID
func (w *world) submitTo(d *Daemon, where string, req map[string]interface{}) (string, string, string) {
	jb, _ := json.Marshal(req)
	s, err := dial(w.tap, d.Sock, where)
	if err != nil {
		w.fatal = "dial " + d.ID + ": " + err.Error()
		return "", "", ""
	}
	defer s.close()
	_ = s.send(append(jb, '\n'))
	l, err := s.line(20 * time.Second)
	if err != nil {
		w.fatal = "no reply to submit on " + d.ID + ": " + err.Error()
		return "", "", ""
	}
	id := ""
	final := ""
	if i := strings.Index(l, "with ID "); i >= 0 && !strings.HasPrefix(l, "ERROR") {
		id = strings.TrimSuffix(strings.Fields(l[i+8:])[0], ".")
		_ = s.send([]byte("payload\n"))
		s.closeWrite()
		final, _ = s.line(20 * time.Second)
	}
	return l, final, id
}

// The four combinations of allowruntimeauth x allowruntimepod (the other two flags gate the
// non-secret kube_image / kube_params and go along).  Types without runtime authentication get a
// configured kubeconfig file.
type kubeType struct {
	name                string
	auth, pod, cmd, par bool
}

var kubeTypes = []kubeType{
	{"kube", true, true, true, true},
	{"kubea", true, false, false, false},
	{"kubep", false, true, true, true},
	{"kube0", false, false, false, false},
}

func (t kubeType) coq() string {
	return fmt.Sprintf("(mkflags %s %s %s %s)", CoqBool(t.auth), CoqBool(t.pod), CoqBool(t.cmd), CoqBool(t.par))
}

func kubeTypesYAML(dir string) string {
	static := filepath.Join(dir, "static.kubeconfig")
	_ = os.WriteFile(static, []byte(`apiVersion: v1
kind: Config
clusters:
- name: cl
  cluster: {server: "https://127.0.0.1:1"}
contexts:
- name: c
  context: {cluster: cl, user: u, namespace: ns}
current-context: c
users:
- name: u
  user: {token: configured-not-a-parameter}
`), 0o600)
	var sb strings.Builder
	for _, t := range kubeTypes {
		fmt.Fprintf(&sb, "- work-kubernetes:\n    worktype: %s\n    namespace: ns\n    image: img\n    allowruntimeauth: %v\n    allowruntimepod: %v\n    allowruntimecommand: %v\n    allowruntimeparams: %v\n",
			t.name, t.auth, t.pod, t.cmd, t.par)
		if t.auth {
			sb.WriteString("    authmethod: runtime\n")
		} else {
			fmt.Fprintf(&sb, "    authmethod: kubeconfig\n    kubeconfig: %s\n", static)
		}
	}
	return sb.String()
}

const goodKubeconfigFmt = `apiVersion: v1
kind: Config
clusters:
- name: cl
  cluster: {server: "https://127.0.0.1:1"}
contexts:
- name: c
  context: {cluster: cl, user: u, namespace: ns}
current-context: c
users:
- name: u
  user: {token: %s}
`

// every status / list reply of node d: marker scan (by the tap) + the two fields of every
// Kubernetes unit shown
func (w *world) kubeLook(d *Daemon, ids []string, rec interface{}) {
	if m, raw, err := w.listRaw(d, d.ID+":list-kube"); err == nil {
		for uid, st := range m {
			w.kubeReplyCheck("list", uid, raw, st, rec)
		}
	}
	for _, id := range ids {
		jb, _ := json.Marshal(map[string]interface{}{"command": "work", "subcommand": "status", "unitid": id})
		l, err := oneShot(w.tap, d.Sock, d.ID+":status-kube", string(jb))
		var st map[string]interface{}
		if err == nil && json.Unmarshal([]byte(l), &st) == nil {
			w.kubeReplyCheck("status", id, l, st, rec)
		}
	}
	w.checkLeaks(rec)
	w.checkFrags(rec)
}

func (w *world) kubePhase(cf *CaseFile) {
	r := w.c.Rng
	n := 12
	if w.c.Thorough() {
		n = 96
	}
	for i := 0; i < n && w.fatal == ""; i++ {
		t := kubeTypes[i%len(kubeTypes)]
		cfg, ckind := kubeconfig(r, i/4+i)
		pod, pkind := kubepod(r, i/2+i)
		hasConfig := t.auth || i%8 >= 4
		hasPod := pod != ""
		hasNS := i%3 == 0
		hasCmd := !hasPod && i%2 == 0
		hasPar := !hasPod && i%4 == 1
		req := map[string]interface{}{"command": "work", "subcommand": "submit", "node": "localhost", "worktype": t.name}
		if hasConfig {
			req["secret_kube_config"] = cfg
		} else {
			ckind = "none"
		}
		if hasPod {
			req["secret_kube_pod"] = pod
		}
		if hasNS {
			req["kube_namespace"] = "ZQP" + ident(r, 8)
		}
		if hasCmd {
			req["kube_image"] = "ZQP" + ident(r, 8)
		}
		if hasPar {
			req["kube_params"] = "ZQP" + ident(r, 8)
		}
		rec := map[string]interface{}{"worktype": t.name, "allowruntimeauth": t.auth, "allowruntimepod": t.pod, "secret_kube_config": ckind, "secret_kube_pod": pkind,
			"kube_namespace": hasNS, "kube_image": hasCmd, "kube_params": hasPar}
		w.im.Hist("kube:type:" + t.name)
		w.im.Hist("kube:config:" + ckind)
		w.im.Hist("kube:pod:" + pkind)
		w.im.Count(fmt.Sprintf("kube %d %s %s %s", i, t.name, cfg, pod), true)
		// (1) directly on B
		l, _, id := w.submitTo(w.B, "B:submit-kube", req)
		notAllowed := strings.HasPrefix(l, "ERROR") && strings.Contains(l, "provided but not allowed")
		cf.Add(fmt.Sprintf("CKubeSubmit %s %s %s %s %s %s %s", t.coq(), CoqBool(hasConfig), CoqBool(hasPod), CoqBool(hasNS), CoqBool(hasCmd), CoqBool(hasPar), CoqBool(notAllowed)),
			fmt.Sprintf("kube submit to type %s: config=%v pod=%v ns=%v image=%v params=%v -> %q", t.name, hasConfig, hasPod, hasNS, hasCmd, hasPar, clipS(l, 120)))
		if notAllowed {
			w.im.Hist("kube:refused-not-allowed")
			if id != "" {
				w.im.Violate("a Kubernetes submission refused as not allowed left unit "+id+" behind", "refusal-left-state", rec)
			}
		}
		time.Sleep(150 * time.Millisecond) // the start attempt fails in the background
		if id != "" {
			jb, _ := json.Marshal(map[string]interface{}{"command": "work", "subcommand": "status", "unitid": id})
			l, err := oneShot(w.tap, w.B.Sock, "B:status-kube", string(jb))
			var st map[string]interface{}
			if err == nil && json.Unmarshal([]byte(l), &st) == nil {
				if sh := w.kubeReplyCheck("status", id, l, st, rec); sh != nil {
					// stored record vs reply through the model
					if b, err := os.ReadFile(filepath.Join(w.B.UnitsDir(), id, "status")); err == nil {
						var disk struct{ ExtraData kubeShown }
						if json.Unmarshal(b, &disk) == nil {
							if disk.ExtraData.KubeConfig != "" || disk.ExtraData.KubePod != "" {
								w.im.Hist("kube:status-file-holds-the-secrets(unredacted,as-modelled)")
							}
							mk := func(k kubeShown) string {
								return fmt.Sprintf("(mkkube %s %s %s %s)", HxS(k.KubeConfig), HxS(k.KubePod), HxS(k.KubeNamespace), HxS(k.Image))
							}
							cf.Add("CKube "+t.coq()+" "+mk(disk.ExtraData)+" "+mk(*sh), fmt.Sprintf("kube unit %s of type %s on B: config %s, pod %s", id, t.name, ckind, pkind))
						}
					}
				}
			}
			w.kubeLook(w.B, nil, rec)
		}
		// (2) through A over TLS: A's replies carry what B answered
		req["node"], req["tlsclient"] = "c19b", "cli"
		_, _, aid := w.submitTo(w.A, "A:submit-kube", req)
		time.Sleep(150 * time.Millisecond)
		if aid != "" {
			w.kubeLook(w.A, []string{aid}, rec)
			w.kubeLook(w.B, nil, rec)
		}
		// (3) without a TLS profile a submission with a secret must not leave A
		if hasConfig || hasPod {
			delete(req, "tlsclient")
			before := dirEntries(w.A.UnitsDir())
			l, _, nid := w.submitTo(w.A, "A:submit-kube-no-tls", req)
			if nid != "" || !strings.HasPrefix(l, "ERROR") || strings.Join(before, ",") != strings.Join(dirEntries(w.A.UnitsDir()), ",") {
				w.im.Violate("a Kubernetes submission with a secret parameter and no TLS profile was accepted: "+l, "secret-accepted-without-tls", rec)
			}
		}
		w.checkLeaks(rec)
		w.checkFrags(rec)
		w.kubeCleanup()
		w.checkLeaks(rec)
		w.checkFrags(rec)
	}
	if w.fatal == "" {
		w.kubeLifecycle()
	}
}

func clipS(s string, n int) string {
	if len(s) > n {
		return s[:n] + "…"
	}
	return s
}

func (w *world) kubeCleanup() {
	for _, d := range []*Daemon{w.A, w.B} {
		if m, _, err := w.listRaw(d, d.ID+":list"); err == nil {
			for uid := range m {
				jb, _ := json.Marshal(map[string]interface{}{"command": "work", "subcommand": "force-release", "unitid": uid})
				_, _ = oneShot(w.tap, d.Sock, d.ID+":release", string(jb))
			}
		}
	}
}

// from submission to release: one unit of every Kubernetes work type with every secret it allows,
// created directly on B and through A; status + list on both nodes after submission, after cancel,
// after a restart of B (SIGKILL) and of A, and the release at the end
func (w *world) kubeLifecycle() {
	r := w.c.Rng
	rec := map[string]interface{}{"what": "Kubernetes units of the four work types from submission to release"}
	var bIDs, aIDs []string
	for _, t := range kubeTypes {
		req := map[string]interface{}{"command": "work", "subcommand": "submit", "node": "localhost", "worktype": t.name}
		if t.auth {
			req["secret_kube_config"] = fmt.Sprintf(goodKubeconfigFmt, "ZQS"+ident(r, 12))
			req["kube_namespace"] = "ZQP" + ident(r, 6)
		}
		if t.pod {
			req["secret_kube_pod"] = fmt.Sprintf("apiVersion: v1\nkind: Pod\nmetadata: {name: p}\nspec:\n  containers:\n  - name: worker\n    image: img\n    env: [{name: PASSWORD, value: %s}]\n", "ZQS"+ident(r, 12))
		} else if t.cmd {
			req["kube_image"] = "ZQP" + ident(r, 6)
		}
		if _, _, id := w.submitTo(w.B, "B:submit-kube", req); id != "" {
			bIDs = append(bIDs, id)
		} else {
			w.im.Violate("a Kubernetes submission with the parameters its work type allows was not accepted ("+t.name+")", "harness-stuck", rec)
		}
		req["node"], req["tlsclient"] = "c19b", "cli"
		if _, _, id := w.submitTo(w.A, "A:submit-kube", req); id != "" {
			aIDs = append(aIDs, id)
		}
		w.im.Count("kube lifecycle "+t.name, true)
	}
	time.Sleep(300 * time.Millisecond)
	look := func(stage string) {
		w.im.Hist("kube-lifecycle:" + stage)
		w.kubeLook(w.B, bIDs, rec)
		w.kubeLook(w.A, aIDs, rec)
	}
	look("after-submission")
	for _, id := range bIDs {
		jb, _ := json.Marshal(map[string]interface{}{"command": "work", "subcommand": "cancel", "unitid": id})
		_, _ = oneShot(w.tap, w.B.Sock, "B:cancel-kube", string(jb))
	}
	for _, id := range aIDs {
		jb, _ := json.Marshal(map[string]interface{}{"command": "work", "subcommand": "cancel", "unitid": id})
		_, _ = oneShot(w.tap, w.A.Sock, "A:cancel-kube", string(jb))
	}
	look("after-cancel")
	w.B.Kill()
	if err := w.B.Start(); err != nil {
		w.fatal = "restart of B: " + err.Error()
		return
	}
	w.A.Kill()
	if err := w.A.Start(); err != nil {
		w.fatal = "restart of A: " + err.Error()
		return
	}
	w.waitRoute()
	look("after-restart")
	w.kubeCleanup()
	look("after-release")
}

// Outside the property text (informational): what the debug logs and the files on disk hold.
func (w *world) scanLogsAndModes() {
	for _, d := range []*Daemon{w.A, w.B} {
		logs, _ := filepath.Glob(filepath.Join(d.Dir, "log.*"))
		for _, lf := range logs {
			b, err := os.ReadFile(lf)
			if err != nil {
				continue
			}
			w.im.Extra["log_bytes_"+d.ID] = len(b)
			n := strings.Count(string(b), "ZQS")
			if n > 0 {
				w.im.Hist("log:" + d.ID + ":lines-with-a-secret-value(debug-level,outside-the-property)")
				w.im.Extra["log_secret_occurrences_"+d.ID] = n
			}
		}
	}
	_ = filepath.Walk(w.A.UnitsDir(), func(p string, fi os.FileInfo, err error) error {
		if err == nil && !fi.IsDir() && filepath.Base(p) == "status" {
			w.im.Hist(fmt.Sprintf("disk:status-file-mode-%04o", fi.Mode().Perm()))
		}
		return nil
	})
}
