package main

// A receptor daemon with a configuration written by this harness (lib.Node fixes the shape of the
// control-service entry; here node B needs `tls:` on it), and a control-socket client that keeps
// every byte it receives so that the disclosure oracle can scan all of them.

import (
	"bufio"
	"bytes"
	"fmt"
	"net"
	"os"
	"os/exec"
	"path/filepath"
	"strings"
	"sync"
	"syscall"
	"time"
)

type Daemon struct {
	Bin, ID, Dir, Sock, Config string
	Cmd                        *exec.Cmd
	runs                       int
	done                       chan struct{}
}

func (d *Daemon) DataDir() string { return filepath.Join(d.Dir, "data") }
func (d *Daemon) UnitsDir() string {
	return filepath.Join(d.Dir, "data", d.ID)
}
func (d *Daemon) LogPath() string { return filepath.Join(d.Dir, fmt.Sprintf("log.%d", d.runs)) }

func (d *Daemon) Start() error {
	_ = os.MkdirAll(d.Dir, 0o755)
	cfg := filepath.Join(d.Dir, "receptor.yml")
	if err := os.WriteFile(cfg, []byte(d.Config), 0o600); err != nil {
		return err
	}
	_ = os.Remove(d.Sock)
	d.runs++
	logf, err := os.Create(d.LogPath())
	if err != nil {
		return err
	}
	cmd := exec.Command(d.Bin, "--config", cfg)
	cmd.Stdout, cmd.Stderr = logf, logf
	cmd.SysProcAttr = &syscall.SysProcAttr{Setpgid: true}
	if err := cmd.Start(); err != nil {
		logf.Close()
		return err
	}
	d.Cmd = cmd
	d.done = make(chan struct{})
	done := d.done
	go func() {
		_ = cmd.Wait()
		logf.Close()
		close(done)
	}()
	deadline := time.Now().Add(15 * time.Second)
	for time.Now().Before(deadline) {
		select {
		case <-done:
			b, _ := os.ReadFile(d.LogPath())
			return fmt.Errorf("receptor %s exited during start-up: %s", d.ID, tail(string(b), 600))
		default:
		}
		c, err := net.DialTimeout("unix", d.Sock, 200*time.Millisecond)
		if err == nil {
			c.Close()
			return nil
		}
		time.Sleep(15 * time.Millisecond)
	}
	return fmt.Errorf("control socket %s did not come up", d.Sock)
}

func tail(s string, n int) string {
	if len(s) > n {
		return s[len(s)-n:]
	}
	return s
}

func (d *Daemon) Alive() bool {
	if d.done == nil {
		return false
	}
	select {
	case <-d.done:
		return false
	default:
		return true
	}
}

func (d *Daemon) wait(t time.Duration) bool {
	if d.done == nil {
		return true
	}
	select {
	case <-d.done:
		return true
	case <-time.After(t):
		return false
	}
}

func (d *Daemon) Kill() {
	if d.Cmd != nil && d.Cmd.Process != nil {
		if os.Getenv("GOCOVERDIR") != "" && d.Alive() {
			// coverage diagnostic (tools/coverage.sh): let the daemon write its counters first
			_ = d.Cmd.Process.Signal(syscall.SIGUSR1)
			time.Sleep(300 * time.Millisecond)
		}
		_ = d.Cmd.Process.Kill()
		d.wait(5 * time.Second)
	}
}

func (d *Daemon) Stop() {
	if d.Cmd != nil && d.Cmd.Process != nil && d.Alive() {
		_ = d.Cmd.Process.Signal(syscall.SIGTERM)
		if !d.wait(3 * time.Second) {
			d.Kill()
		}
	}
}

// ---------- recording control client ----------

// Tap collects every byte received on any control session of the run.
type Tap struct {
	mu    sync.Mutex
	total int
	hits  []string // descriptions of secret markers seen
	frags []string // descriptions of fragment markers seen
}

var secretMark = []byte("ZQS") // every secret value contains it; nothing else does

// fragMark marks the NON-credential parts of a structured secret (names, paths inside a
// kubeconfig); lower case too, host names and URLs get lowered on their way into error texts
var fragMark = []byte("zqf")

// indexSecretMark finds the marker as part of a VALUE.  Every generated secret value is the marker
// followed by at least ten letters or digits; the daemon's own unit IDs are eight random letters and
// digits and contain the three marker letters by chance once in some ten thousand IDs (it happened in a
// thorough run of 20 000 cases: "Work unit created with ID 8hDVNZQS").  An occurrence inside a run of
// letters and digits of at most eight characters is therefore not a secret.
func indexSecretMark(b []byte) int {
	isAN := func(c byte) bool { return c >= '0' && c <= '9' || c >= 'a' && c <= 'z' || c >= 'A' && c <= 'Z' }
	for from := 0; ; {
		k := bytes.Index(b[from:], secretMark)
		if k < 0 {
			return -1
		}
		i := from + k
		lo, hi := i, i+len(secretMark)
		for lo > 0 && isAN(b[lo-1]) {
			lo--
		}
		for hi < len(b) && isAN(b[hi]) {
			hi++
		}
		if hi-lo > 8 {
			return i
		}
		from = i + 1
	}
}

func (t *Tap) feed(where string, b []byte) {
	t.mu.Lock()
	defer t.mu.Unlock()
	t.total += len(b)
	if i := indexSecretMark(b); i >= 0 {
		end := i + 16
		if end > len(b) {
			end = len(b)
		}
		lo := i - 60
		if lo < 0 {
			lo = 0
		}
		t.hits = append(t.hits, fmt.Sprintf("%s: …%s", where, string(b[lo:end])))
	}
	if i := bytes.Index(bytes.ToLower(b), fragMark); i >= 0 {
		end := i + 16
		if end > len(b) {
			end = len(b)
		}
		lo := i - 80
		if lo < 0 {
			lo = 0
		}
		t.frags = append(t.frags, fmt.Sprintf("%s: …%s", where, string(b[lo:end])))
	}
}

func (t *Tap) takeFrags() []string {
	t.mu.Lock()
	defer t.mu.Unlock()
	h := t.frags
	t.frags = nil
	return h
}

func (t *Tap) takeHits() []string {
	t.mu.Lock()
	defer t.mu.Unlock()
	h := t.hits
	t.hits = nil
	return h
}

type Sess struct {
	c     net.Conn
	r     *bufio.Reader
	tap   *Tap
	where string
}

func dial(tap *Tap, sock, where string) (*Sess, error) {
	c, err := net.DialTimeout("unix", sock, 3*time.Second)
	if err != nil {
		return nil, err
	}
	s := &Sess{c: c, r: bufio.NewReaderSize(c, 1<<16), tap: tap, where: where}
	if _, err := s.line(20 * time.Second); err != nil {
		c.Close()
		return nil, fmt.Errorf("no greeting: %w", err)
	}
	return s, nil
}

func (s *Sess) line(t time.Duration) (string, error) {
	_ = s.c.SetReadDeadline(time.Now().Add(t))
	l, err := s.r.ReadString('\n')
	s.tap.feed(s.where, []byte(l))
	return strings.TrimRight(l, "\n"), err
}

func (s *Sess) send(b []byte) error {
	_ = s.c.SetWriteDeadline(time.Now().Add(5 * time.Second))
	_, err := s.c.Write(b)
	return err
}

func (s *Sess) closeWrite() { _ = s.c.(*net.UnixConn).CloseWrite() }
func (s *Sess) close()      { _ = s.c.Close() }

// oneShot: fresh session, one request line, one reply line.
func oneShot(tap *Tap, sock, where, req string) (string, error) {
	s, err := dial(tap, sock, where)
	if err != nil {
		return "", err
	}
	defer s.close()
	if err := s.send([]byte(req + "\n")); err != nil {
		return "", err
	}
	return s.line(10 * time.Second)
}
