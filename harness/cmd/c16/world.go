package main

import (
	"context"
	"fmt"
	"regexp"
	"sort"
	"strings"
	"sync"
	"time"
	"unicode/utf8"

	. "verifharness/lib"

	"github.com/ansible/receptor/pkg/netceptor"
)

const sentinelSvc = "zzsentnl"
const placeholderEph = "ephemerl"

// fwRule: a firewall rule of node `node`, installed through netceptor.ParseFirewallRules.  svc is
// the ToService field; fromNode / toNode (index+1, 0 = not given) and fromSvc are further fields
// that must match as well; rx = the fields are written as /regex/ instead of plain strings.
type fwRule struct {
	node     int
	svc      string
	res      string // "drop" | "reject"
	fromNode int
	toNode   int
	fromSvc  string
	rx       bool
}

type wspec struct {
	name     string
	n        int
	links    [][2]int
	fw       []fwRule
	nonUTF8  bool
	listener bool // also open a real stream listener (costs an RSA key)
	sends    int
	pings    int
	dials    bool
}

func worldSpecs(c *Ctx) []wspec {
	k := 1
	if c.Thorough() {
		k = 6
	}
	specs := []wspec{
		{name: "chain2", n: 2, links: [][2]int{{0, 1}}, fw: []fwRule{{node: 1, svc: "dropme", res: "drop"}, {node: 1, svc: "rejme", res: "reject"}, {node: 0, svc: "odrop", res: "drop"}},
			sends: 70 * k, pings: 8 * k, dials: true, listener: true},
		{name: "chain3", n: 3, links: [][2]int{{0, 1}, {1, 2}}, fw: []fwRule{{node: 2, svc: "dropme", res: "drop"}, {node: 2, svc: "rejme", res: "reject"}, {node: 1, svc: "tdrop", res: "drop"}, {node: 1, svc: "trej", res: "reject"}, {node: 2, svc: "ping", res: "reject"}},
			sends: 90 * k, pings: 12 * k, dials: true},
		{name: "star4", n: 4, links: [][2]int{{0, 1}, {0, 2}, {0, 3}}, fw: []fwRule{{node: 1, svc: "dropme", res: "drop"}, {node: 2, svc: "rejme", res: "reject"}, {node: 0, svc: "tdrop", res: "drop"}, {node: 3, svc: "ping", res: "drop"}},
			sends: 90 * k, pings: 12 * k, dials: true},
		{name: "chain4-notices-blocked", n: 4, links: [][2]int{{0, 1}, {1, 2}, {2, 3}}, fw: []fwRule{{node: 1, svc: "unreach", res: "drop"}, {node: 3, svc: "rejme", res: "reject"}},
			sends: 40 * k, pings: 6 * k},
		{name: "chain2-nonutf8", n: 2, links: [][2]int{{0, 1}}, nonUTF8: true, sends: 40 * k, dials: true},
	}
	if c.Thorough() {
		specs = append(specs, wspec{name: "chain4", n: 4, links: [][2]int{{0, 1}, {1, 2}, {2, 3}},
			fw: []fwRule{{node: 3, svc: "dropme", res: "drop"}, {node: 2, svc: "trej", res: "reject"}, {node: 1, svc: "tdrop", res: "drop"}}, sends: 400, pings: 40, dials: true})
	}
	return specs
}

type readRec struct {
	payload string
	from    string
}

type sock struct {
	ni     int
	svc    string
	pc     netceptor.PacketConner
	mu     sync.Mutex
	notifs []netceptor.UnreachableNotification
	reads  []readRec
	reader bool
	closed bool
	temp   bool
	done   chan struct{}
}

func (s *sock) counts() (int, int) {
	s.mu.Lock()
	defer s.mu.Unlock()
	return len(s.notifs), len(s.reads)
}

type world struct {
	spec     wspec
	m        *Mesh
	names    []string
	nodes    []*netceptor.Netceptor
	socks    [][]*sock // per node, creation order
	mh       int
	seq      int
	opened   int
	blocked  bool            // some node drops notices: the sentinel cannot be relied upon
	degraded bool            // a sentinel was lost (reported): timed waits from here on
	sent     map[string]bool // "node|svc|tonode|tosvc" of every datagram really sent (for the echo oracle)
}

func shuffled(r *Rng, xs []string) []string {
	out := append([]string{}, xs...)
	for i := len(out) - 1; i > 0; i-- {
		j := r.Intn(i + 1)
		out[i], out[j] = out[j], out[i]
	}
	return out
}

func randSvc(r *Rng) string {
	const al = "abcdefghijklmnopqrstuvwxyz0123456789-_."
	n := []int{1, 2, 5, 7, 8, 8}[r.Intn(6)]
	b := make([]byte, n)
	for i := range b {
		b[i] = al[r.Intn(len(al))]
	}
	return string(b)
}

func svcNames(r *Rng, nonUTF8 bool) []string {
	var out []string
	if nonUTF8 {
		out = []string{"\xff\xfe", "\xef\xbf\xbd\xef\xbf\xbd", "ok", "a\xc3", "a\xef\xbf\xbd", "\xe2\x82"}
	} else {
		out = []string{randSvc(r), randSvc(r), randSvc(r), "sé" + randSvc(r)[:1], "日本"}
		for i := r.Intn(3); i > 0; i-- {
			out = append(out, randSvc(r))
		}
	}
	seen := map[string]bool{"ping": true, "unreach": true, sentinelSvc: true, placeholderEph: true}
	var res []string
	for _, s := range out {
		if !seen[s] && len(s) <= 8 {
			seen[s] = true
			res = append(res, s)
		}
	}
	return res
}

func buildWorld(c *Ctx, im *Impl, spec wspec) *world {
	r := c.Rng
	consts := FastConsts()
	w := &world{spec: spec, m: NewMesh(consts), mh: int(consts.MaxHops), sent: map[string]bool{}}
	w.names = shuffled(r, []string{"a", "Node-B", "nœud-3", "n 4", "x.y_z"})[:spec.n]
	for _, id := range w.names {
		w.nodes = append(w.nodes, w.m.AddNode(id))
	}
	for _, l := range spec.links {
		if _, err := w.m.Connect(w.names[l[0]], w.names[l[1]], 1); err != nil {
			return nil
		}
	}
	want := map[string][]string{}
	for i, a := range w.names {
		for j, b := range w.names {
			if i != j {
				want[a] = append(want[a], b)
			}
		}
	}
	if !w.m.WaitRoutes(want, 10*time.Second) {
		w.m.Shutdown()
		return nil
	}
	// firewall: the real rule compiler, string and /regex/ form
	if !spec.nonUTF8 {
		far := spec.n - 1
		w.spec.fw = append(w.spec.fw,
			fwRule{node: far, svc: "rxdrop", res: "drop", rx: true},
			fwRule{node: far, svc: "fndrop", res: "drop", fromNode: 1, rx: true},
			fwRule{node: far, svc: "fsdrop", res: "drop", fromSvc: "fsrc", rx: true},
			fwRule{node: 1, svc: "tndrop2", res: "drop", toNode: far + 1, rx: true},
			fwRule{node: far, svc: "fnrej", res: "reject", fromNode: 1, fromSvc: "fsrc"})
		for k := range w.spec.fw {
			if k%2 == 1 {
				w.spec.fw[k].rx = true
			}
		}
	}
	for i := range w.names {
		var data []netceptor.FirewallRuleData
		for _, f := range w.spec.fw {
			if f.node != i {
				continue
			}
			if f.svc == "unreach" {
				w.blocked = true
			}
			form := func(x string) string {
				if f.rx {
					return "/" + regexp.QuoteMeta(x) + "/"
				}
				return x
			}
			d := netceptor.FirewallRuleData{"Action": f.res, "ToService": form(f.svc)}
			if f.fromNode > 0 {
				d["FromNode"] = form(w.names[f.fromNode-1])
			}
			if f.toNode > 0 {
				d["ToNode"] = form(w.names[f.toNode-1])
			}
			if f.fromSvc != "" {
				d["FromService"] = form(f.fromSvc)
			}
			data = append(data, d)
		}
		if len(data) == 0 {
			continue
		}
		fns, err := netceptor.ParseFirewallRules(data)
		if err != nil {
			im.Violate("ParseFirewallRules: "+err.Error(), "firewall-setup", spec.name)
			continue
		}
		Must(w.nodes[i].AddFirewallRules(fns, true))
	}
	w.socks = make([][]*sock, spec.n)
	if !spec.nonUTF8 {
		if _, err := w.open(0, "fsrc", true, false); err != nil {
			im.Violate("ListenPacket(fsrc): "+err.Error(), "listen-failed", "fsrc")
		}
	}
	for i := range w.names {
		for _, s := range svcNames(r, spec.nonUTF8) {
			if _, err := w.open(i, s, true, false); err != nil {
				im.Violate(fmt.Sprintf("ListenPacket(%q) on %s: %v", s, w.names[i], err), "listen-failed", s)
			}
		}
	}
	return w
}

func (w *world) open(ni int, svc string, reader, temp bool) (*sock, error) {
	var pc netceptor.PacketConner
	var err error
	if w.opened++; w.opened%3 == 0 {
		// an advertised socket is a socket like any other as far as notices go
		pc, err = w.nodes[ni].ListenPacketAndAdvertise(svc, map[string]string{"k": "v"})
	} else {
		pc, err = w.nodes[ni].ListenPacket(svc)
	}
	if err != nil {
		return nil, err
	}
	s := &sock{ni: ni, svc: svc, pc: pc, reader: reader, temp: temp, done: make(chan struct{})}
	ch := pc.SubscribeUnreachable(s.done)
	go func() {
		for n := range ch {
			s.mu.Lock()
			s.notifs = append(s.notifs, n)
			s.mu.Unlock()
		}
	}()
	if reader {
		go func() {
			buf := make([]byte, 64)
			for {
				n, addr, err := pc.ReadFrom(buf)
				if err != nil {
					return
				}
				s.mu.Lock()
				s.reads = append(s.reads, readRec{string(buf[:n]), addr.String()})
				s.mu.Unlock()
			}
		}()
	}
	w.socks[ni] = append(w.socks[ni], s)
	return s, nil
}

func (w *world) closeSock(s *sock) {
	s.mu.Lock()
	s.closed = true
	s.mu.Unlock()
	_ = s.pc.Close()
}

func (w *world) finish(im *Impl) {
	// nothing may arrive any more
	before := w.totalNotifs()
	time.Sleep(200 * time.Millisecond)
	if after := w.totalNotifs(); after != before {
		im.Violate(fmt.Sprintf("world %s: %d notification(s) arrived after all operations had been accounted for", w.spec.name, after-before),
			"notice-stray", w.spec.name)
	}
	w.m.Shutdown()
}

func (w *world) totalNotifs() int {
	t := 0
	for _, ss := range w.socks {
		for _, s := range ss {
			a, _ := s.counts()
			t += a
		}
	}
	return t
}

// ---------- topology ----------

func (w *world) path(a, b int) []int {
	adj := map[int][]int{}
	for _, l := range w.spec.links {
		adj[l[0]] = append(adj[l[0]], l[1])
		adj[l[1]] = append(adj[l[1]], l[0])
	}
	prev := map[int]int{a: -1}
	q := []int{a}
	for len(q) > 0 {
		x := q[0]
		q = q[1:]
		for _, y := range adj[x] {
			if _, ok := prev[y]; !ok {
				prev[y] = x
				q = append(q, y)
			}
		}
	}
	var p []int
	for x := b; x != -1; x = prev[x] {
		p = append([]int{x}, p...)
	}
	return p
}

// rule: the verdict of node's firewall about a packet, "" = no rule matches (first match decides)
func (w *world) ruleFor(node int, fromNode, fromSvc, toNode, toSvc string) string {
	for _, f := range w.spec.fw {
		if f.node != node || f.svc != toSvc {
			continue
		}
		if f.fromNode > 0 && w.names[f.fromNode-1] != fromNode {
			continue
		}
		if f.toNode > 0 && w.names[f.toNode-1] != toNode {
			continue
		}
		if f.fromSvc != "" && f.fromSvc != fromSvc {
			continue
		}
		return f.res
	}
	return ""
}

// rule: rules given by destination service alone
func (w *world) rule(node int, svc string) string {
	for _, f := range w.spec.fw {
		if f.node == node && f.svc == svc && f.fromNode == 0 && f.toNode == 0 && f.fromSvc == "" {
			return f.res
		}
	}
	return ""
}

// ---------- Coq printing ----------

func (w *world) coqWorld(extra map[int][]string, omit *sock) string {
	var ns []string
	for i, id := range w.names {
		var bound []string
		for _, s := range w.socks[i] {
			s.mu.Lock()
			cl := s.closed
			s.mu.Unlock()
			if !cl && s != omit {
				bound = append(bound, HxS(s.svc))
			}
		}
		for _, e := range extra[i] {
			bound = append(bound, HxS(e))
		}
		var rules []string
		for _, f := range w.spec.fw {
			if f.node == i {
				res := "FwDrop"
				if f.res == "reject" {
					res = "FwReject"
				}
				opt := func(x string) string {
					if x == "" {
						return "None"
					}
					return "(Some " + HxS(x) + ")"
				}
				fn, tn := "", ""
				if f.fromNode > 0 {
					fn = w.names[f.fromNode-1]
				}
				if f.toNode > 0 {
					tn = w.names[f.toNode-1]
				}
				rules = append(rules, fmt.Sprintf("mkrule %s %s %s %s %s", opt(fn), opt(tn), opt(f.fromSvc), opt(f.svc), res))
			}
		}
		ns = append(ns, fmt.Sprintf("mknode %s %s %s", HxS(id), CoqList(bound), CoqList(rules)))
	}
	return CoqList(ns)
}

func (w *world) coqPath(p []int) string {
	var xs []string
	for _, i := range p {
		xs = append(xs, HxS(w.names[i]))
	}
	return CoqList(xs)
}

func coqProblem(s string) (string, bool) {
	switch s {
	case netceptor.ProblemServiceUnknown:
		return "PUnknown", true
	case netceptor.ProblemExpiredInTransit:
		return "PExpired", true
	case netceptor.ProblemRejected:
		return "PRejected", true
	}
	return "PUnknown", false
}

func coqNotif(n netceptor.UnreachableNotification) string {
	pb, _ := coqProblem(n.Problem)
	return fmt.Sprintf("(mknotif %s %s %s %s %s %s)", HxS(n.FromNode), HxS(n.ToNode), HxS(n.FromService), HxS(n.ToService), pb, HxS(n.ReceivedFromNode))
}

type got struct {
	s *sock
	n netceptor.UnreachableNotification
}

// newNotifs returns, in world order, every notification recorded since the marks (the
// sentinel's own are left out).
func (w *world) newNotifs(marks map[*sock]int) []got {
	var out []got
	for _, ss := range w.socks {
		for _, s := range ss {
			s.mu.Lock()
			for _, n := range s.notifs[marks[s]:] {
				if n.ToService != sentinelSvc {
					out = append(out, got{s, n})
				}
			}
			s.mu.Unlock()
		}
	}
	return out
}

func (w *world) marks() (map[*sock]int, map[*sock]int) {
	a, b := map[*sock]int{}, map[*sock]int{}
	for _, ss := range w.socks {
		for _, s := range ss {
			a[s], b[s] = s.counts()
		}
	}
	return a, b
}

func (w *world) coqRecv(gs []got) string {
	var xs []string
	for _, g := range gs {
		xs = append(xs, fmt.Sprintf("(%s, %s, %s)", HxS(w.names[g.s.ni]), HxS(g.s.svc), coqNotif(g.n)))
	}
	return CoqList(xs)
}

func validNames(xs ...string) bool {
	for _, x := range xs {
		if !utf8.ValidString(x) {
			return false
		}
	}
	return true
}

// sig prefixes the class of a violation with the input class it belongs to, so that the known
// finding about names that are not valid UTF-8 matches nothing else.
func sig(class string, names ...string) string {
	if !validNames(names...) {
		return "non-utf8-service-name:" + class
	}
	return class
}

// ---------- the sentinel: a datagram whose notice comes back behind everything before it ----------

func (w *world) sentinel(im *Impl, src *sock, dstNode string, dstIdx int) {
	limit := 2 * time.Second
	reliable := !w.blocked && utf8.ValidString(src.svc)
	if !reliable || w.degraded {
		limit = 120 * time.Millisecond // the sentinel's own notice cannot come back (blocked, or mangled in JSON)
	}
	n0, _ := src.counts()
	if dstIdx < 0 || dstIdx == src.ni {
		// local: a datagram with no hop budget towards a neighbour expires here and now
		nb := w.path(src.ni, (src.ni+1)%len(w.names))[1]
		src.pc.SetHopsToLive(0)
		_, _ = src.pc.WriteTo([]byte("sentinel"), w.nodes[src.ni].NewAddr(w.names[nb], sentinelSvc))
		src.pc.SetHopsToLive(byte(w.mh))
	} else {
		src.pc.SetHopsToLive(byte(w.mh))
		_, _ = src.pc.WriteTo([]byte("sentinel"), w.nodes[src.ni].NewAddr(dstNode, sentinelSvc))
	}
	ok := WaitFor(limit, func() bool {
		src.mu.Lock()
		defer src.mu.Unlock()
		for _, n := range src.notifs[n0:] {
			if n.ToService == sentinelSvc {
				return true
			}
		}
		return false
	})
	if !ok && reliable && !w.degraded {
		// the sentinel is itself a datagram to a service nobody listens on (or without hop budget)
		im.Violate(fmt.Sprintf("%s: datagram %s:%q -> %s:%q (nothing listens on that service, no firewall in the way): no notification reached the sender within %s",
			w.spec.name, w.names[src.ni], src.svc, dstNode, sentinelSvc, limit), "notice-missing", map[string]interface{}{"world": w.spec.name, "sentinel": true})
		w.degraded = true // keep going on timed waits
	}
}

// ---------- operations ----------

func (w *world) liveSocks(ni int) []*sock {
	var out []*sock
	for _, s := range w.socks[ni] {
		if !s.closed && !s.temp {
			out = append(out, s)
		}
	}
	return out
}

// slowPing: a Ping whose packet is dropped by policy and whose caller never gives up ends by
// itself after ten seconds with "timeout" (and tells nobody anything).  It runs beside the
// world's other operations.
func (w *world) slowPing() func(im *Impl, cf *CaseFile) {
	dropper := -1
	for _, f := range w.spec.fw {
		if f.svc == "ping" && f.res == "drop" {
			dropper = f.node
		}
	}
	if dropper < 0 {
		return func(*Impl, *CaseFile) {}
	}
	src := (dropper + 1) % len(w.names)
	type out struct {
		from string
		err  error
		dt   time.Duration
	}
	ch := make(chan out, 1)
	coqW := w.coqWorld(map[int][]string{src: {placeholderEph}}, nil)
	go func() {
		t0 := time.Now()
		_, from, err := w.nodes[src].Ping(context.Background(), w.names[dropper], byte(w.mh))
		ch <- out{from, err, time.Since(t0)}
	}()
	return func(im *Impl, cf *CaseFile) {
		var o out
		select {
		case o = <-ch:
		case <-time.After(13 * time.Second):
			im.Violate(fmt.Sprintf("%s: a Ping to %s, whose firewall drops it, has not returned after more than 13s", w.spec.name, w.names[dropper]), "ping-never-ends", nil)
			return
		}
		obs := "PgSilence"
		if o.err == nil || o.err.Error() != "timeout" || o.dt < 9*time.Second {
			im.Violate(fmt.Sprintf("%s: Ping %s -> %s (dropped by policy, caller never gives up) returned (%q, %v) after %s, want \"timeout\" after 10s", w.spec.name, w.names[src], w.names[dropper], o.from, o.err, o.dt.Round(100*time.Millisecond)), "ping-timeout-path", nil)
			obs = "PgReply"
		}
		cf.Add(fmt.Sprintf("CPing %s %s %d %d %s %s %s %s", coqW, w.coqPath(w.path(src, dropper)), w.mh, w.mh, HxS(w.names[src]), HxS(placeholderEph), HxS(w.names[dropper]), obs),
			fmt.Sprintf("%s ping %s -> %s with a background context, dropped by policy: %v after %s", w.spec.name, w.names[src], w.names[dropper], o.err, o.dt.Round(100*time.Millisecond)))
		im.Count(w.spec.name+"|ping-ten-second-timeout", true)
		im.Hist("ping:ten-second-timeout")
	}
}

func (w *world) runOps(c *Ctx, im *Impl, cf *CaseFile) {
	r := c.Rng
	joinSlow := w.slowPing()
	defer joinSlow(im, cf)
	kinds := []string{"rxdrop", "fndrop", "fsdrop", "tndrop2", "fnrej", "toolong", "bound", "unbound", "unbound", "unbound", "closed-before", "waiting", "concurrent", "dropme", "rejme", "tdrop", "trej", "odrop",
		"ping-svc", "unreach-svc", "unknown-node", "unbound8", "unbound-utf8"}
	if w.spec.nonUTF8 {
		kinds = []string{"bound", "unbound", "unbound", "unbound-bad", "closed-before", "waiting"}
	}
	// boundary cases first: every kind once from node 0 to the far end with the full hop budget
	far := len(w.names) - 1
	for _, k := range kinds {
		src := w.liveSocks(0)[0]
		w.sendCase(c, im, cf, src, far, k, w.mh)
	}
	if !w.spec.nonUTF8 {
		// the rules that look at the source: the same datagrams from another socket and another node
		for _, k := range []string{"rxdrop", "fndrop", "fsdrop", "tndrop2", "fnrej"} {
			w.sendCase(c, im, cf, w.liveSocks(0)[1], far, k, w.mh)
			w.sendCase(c, im, cf, w.liveSocks(1)[0], far, k, w.mh)
			w.sendCase(c, im, cf, w.liveSocks(0)[0], 1, k, w.mh)
		}
	}
	if w.spec.nonUTF8 {
		// every socket (also the ones whose name is not UTF-8) tries every kind
		for _, src := range w.liveSocks(0) {
			for _, k := range []string{"unbound", "unbound-bad", "waiting"} {
				w.sendCase(c, im, cf, src, far, k, w.mh)
			}
		}
	}
	for i := 0; i < w.spec.sends; i++ {
		ni := r.Intn(len(w.names))
		ss := w.liveSocks(ni)
		src := ss[r.Intn(len(ss))]
		dst := r.Intn(len(w.names))
		k := kinds[r.Intn(len(kinds))]
		hops := w.mh
		if r.Chance(30) {
			hops = r.Intn(len(w.path(ni, dst)) + 2)
		}
		w.sendCase(c, im, cf, src, dst, k, hops)
	}
	for i := 0; i < w.spec.pings; i++ {
		ni := r.Intn(len(w.names))
		dst := r.Intn(len(w.names) + 1) // == len: unknown node
		hops := w.mh
		if r.Chance(60) && dst < len(w.names) {
			hops = r.Intn(len(w.path(ni, dst)) + 1)
		}
		w.pingCase(c, im, cf, ni, dst, hops)
	}
	for i := 0; i < (w.spec.pings+3)/4; i++ {
		ni := r.Intn(len(w.names))
		w.traceCase(c, im, cf, ni, r.Intn(len(w.names)+1))
	}
	if w.spec.dials {
		w.dialCases(c, im, cf)
	}
	if w.spec.listener {
		w.acceptedCases(c, im, cf)
	}
}

var unknownNode = "nowhere"

func (w *world) sendCase(c *Ctx, im *Impl, cf *CaseFile, src *sock, dst int, kind string, hops int) {
	r := c.Rng
	w.seq++
	dstName := ""
	if kind == "unknown-node" {
		dst = -1
		dstName = unknownNode
	} else {
		dstName = w.names[dst]
	}
	if kind == "unreach-svc" && dst == src.ni {
		kind = "unbound" // a local datagram of garbage to the own "unreach" service returns the JSON error: not of interest
	}
	var temp *sock
	svc := ""
	switch kind {
	case "bound":
		cands := w.liveSocks(dst)
		svc = cands[r.Intn(len(cands))].svc
	case "unbound":
		svc = fmt.Sprintf("no%d", r.Intn(1000))
	case "unbound8":
		svc = "nosuch" + fmt.Sprintf("%02d", r.Intn(100))
	case "unbound-utf8":
		svc = "ñø" + fmt.Sprintf("%d", r.Intn(10))
	case "unbound-bad":
		svc = []string{"no\xff", "\xc3", "\xf0\x9f\x92"}[r.Intn(3)]
	case "toolong":
		svc = []string{"ninechars", "a-very-long-service-name", "boundsvc1"}[r.Intn(3)]
	case "unknown-node":
		svc = "any"
	case "closed-before", "waiting", "concurrent":
		svc = fmt.Sprintf("t%d", w.seq%100000)
		if w.spec.nonUTF8 && r.Bool() {
			svc = fmt.Sprintf("t\xfe%d", w.seq%1000)
		}
		var err error
		temp, err = w.open(dst, svc, kind == "concurrent", true)
		if err != nil {
			im.Violate("ListenPacket: "+err.Error(), "listen-failed", svc)
			return
		}
		if kind == "closed-before" {
			w.closeSock(temp)
		}
	case "ping-svc":
		svc = "ping"
	case "unreach-svc":
		svc = "unreach"
	default:
		svc = kind // dropme, rejme, tdrop, trej, odrop
	}
	p := []int{src.ni}
	if dst >= 0 {
		p = w.path(src.ni, dst)
	}
	// the world as it is when the datagram is sent
	coqW := w.coqWorld(nil, nil)
	nm, rm := w.marks()
	payload := fmt.Sprintf("#%s/%d", w.spec.name, w.seq)
	addr := w.nodes[src.ni].NewAddr(dstName, svc)
	src.pc.SetHopsToLive(byte(hops))
	var werr error
	switch kind {
	case "waiting":
		ech := make(chan error, 1)
		go func() { _, e := src.pc.WriteTo([]byte(payload), addr); ech <- e }()
		time.Sleep(25 * time.Millisecond)
		w.closeSock(temp)
		select {
		case werr = <-ech:
		case <-time.After(3 * time.Second):
			im.Violate("WriteTo did not return after the target socket was closed", "writeto-stuck", payload)
			return
		}
	case "concurrent":
		go func(d int) {
			t := time.Now()
			for time.Since(t) < time.Duration(d)*time.Microsecond {
			}
			w.closeSock(temp)
		}(r.Intn(400))
		_, werr = src.pc.WriteTo([]byte(payload), addr)
		WaitFor(time.Second, func() bool { temp.mu.Lock(); defer temp.mu.Unlock(); return temp.closed })
	default:
		_, werr = src.pc.WriteTo([]byte(payload), addr)
	}
	src.pc.SetHopsToLive(byte(w.mh))
	w.sent[w.names[src.ni]+"|"+src.svc+"|"+dstName+"|"+svc] = true
	if werr == nil {
		w.sentinel(im, src, dstName, dst)
	}
	// where was the payload read?  was there a ping reply?
	readAt := func() (*sock, int) {
		var at *sock
		n := 0
		for _, ss := range w.socks {
			for _, s := range ss {
				s.mu.Lock()
				for _, rr := range s.reads[rm[s]:] {
					if rr.payload == payload {
						at = s
						n++
					}
				}
				s.mu.Unlock()
			}
		}
		return at, n
	}
	pong := func() bool {
		src.mu.Lock()
		defer src.mu.Unlock()
		for _, rr := range src.reads[rm[src]:] {
			if strings.HasSuffix(rr.from, ":ping") && rr.payload == "" {
				return true
			}
		}
		return false
	}
	something := func() bool {
		at, _ := readAt()
		return at != nil || pong() || len(w.newNotifs(nm)) > 0
	}
	if werr == nil && !something() {
		WaitFor(60*time.Millisecond, something)
	}
	at, nread := readAt()
	gs := w.newNotifs(nm)
	// ----- Coq case
	sync := "SNone"
	if werr != nil {
		switch {
		case werr.Error() == netceptor.ProblemServiceUnknown:
			sync = "SUnknown"
		case werr.Error() == "no route to node":
			sync = "SNoRoute"
		case werr.Error() == "service name too long":
			sync = "STooLong"
		default:
			im.Violate(fmt.Sprintf("WriteTo %s:%q -> %s:%q: unexpected error %v", w.names[src.ni], src.svc, dstName, svc, werr), "writeto-error", payload)
		}
	}
	deliv := "None"
	if at != nil {
		deliv = "(Some " + HxS(w.names[at.ni]) + ")"
	}
	fate := "FRead"
	if kind == "waiting" || (kind == "concurrent" && at == nil) {
		fate = "FClosedWaiting"
	}
	if kind == "concurrent" && at == nil {
		// the listener may already have been gone when the datagram arrived: same answer either way
		im.Hist("race:answered")
	} else if kind == "concurrent" {
		im.Hist("race:read")
	}
	term := fmt.Sprintf("CSend %s %s %d %d (mkpkt %s %s %s %s) %s (mkout %s %s %s %s)",
		coqW, w.coqPath(p), w.mh, hops, HxS(w.names[src.ni]), HxS(src.svc), HxS(dstName), HxS(svc), fate,
		sync, deliv, CoqBool(pong()), w.coqRecv(gs))
	label := fmt.Sprintf("%s send #%d %s:%q -> %s:%q kind=%s hops=%d: err=%v read=%v notices=%d", w.spec.name, w.seq, w.names[src.ni], src.svc, dstName, svc, kind, hops, werr, at != nil, len(gs))
	cf.Add(term, label)
	im.Count(fmt.Sprintf("%s|send|%s|%s|%s|%s|%d|%s", w.spec.name, w.names[src.ni], src.svc, dstName, svc, hops, kind), len(p) > 1 || len(gs) > 0)
	im.Hist("send:" + kind)
	im.Hist(fmt.Sprintf("send-notices:%d", len(gs)))
	im.Sample(label)

	// ----- oracle (property text only)
	replay := map[string]interface{}{"world": w.spec.name, "from": w.names[src.ni] + ":" + src.svc, "to": dstName + ":" + svc, "kind": kind, "hops": hops, "seq": w.seq}
	// (1) only the sender's socket, fields echo a datagram that socket sent
	for _, g := range gs {
		own := g.n.FromNode == w.names[g.s.ni] && g.n.FromService == g.s.svc
		if g.s != src || !own {
			im.Violate(fmt.Sprintf("%s: socket %s:%q received a notification for %s:%q -> %s:%q (the datagram was sent by %s:%q)", w.spec.name,
				w.names[g.s.ni], g.s.svc, g.n.FromNode, g.n.FromService, g.n.ToNode, g.n.ToService, w.names[src.ni], src.svc),
				sig("notice-misdelivered", src.svc, svc), replay)
			continue
		}
		if g.n.ToNode != dstName || g.n.ToService != svc {
			im.Violate(fmt.Sprintf("%s: notification names %s:%q -> %s:%q, the datagram was addressed to %s:%q", w.spec.name, g.n.FromNode, g.n.FromService, g.n.ToNode, g.n.ToService, dstName, svc),
				sig("notice-fields-differ", src.svc, svc), replay)
		}
		if _, ok := coqProblem(g.n.Problem); !ok {
			im.Violate("unknown problem text "+g.n.Problem, "notice-problem-text", replay)
		}
	}
	// which nodes have a rule for this service, in path order
	firstRule, firstAt := "", -1
	for i, nd := range p {
		if rr := w.ruleFor(nd, w.names[src.ni], src.svc, dstName, svc); rr != "" {
			firstRule, firstAt = rr, i
			break
		}
	}
	noticesBlocked := false
	for _, nd := range p {
		if w.rule(nd, "unreach") != "" {
			noticesBlocked = true
		}
	}
	if kind == "toolong" {
		// more than 8 bytes cannot be carried: the caller must be told, and nothing may happen
		if sync != "STooLong" || at != nil || len(gs) > 0 {
			im.Violate(fmt.Sprintf("%s: datagram to the %d-byte service name %q: WriteTo returned %v, read=%v, notifications=%d (want the error 'service name too long' and nothing else)", w.spec.name, len(svc), svc, werr, at != nil, len(gs)), "too-long-name-not-refused", replay)
		}
		return
	}
	fullBudget := hops >= len(p)-1 && (hops > 0 || len(p) == 1)
	reservedSvc := svc == "ping" || svc == "unreach"
	targetBound := kind == "bound"
	switch {
	case dst >= 0 && firstRule == "" && fullBudget && !reservedSvc && !targetBound && !noticesBlocked:
		// (2) nothing listens there (never bound, closed before, closed while waiting, closed concurrently and not read)
		if at != nil {
			if kind != "concurrent" {
				im.Violate(fmt.Sprintf("%s: datagram for unbound %s:%q was read by %s:%q", w.spec.name, dstName, svc, w.names[at.ni], at.svc), "read-by-wrong-socket", replay)
			} else if len(gs) > 0 || werr != nil {
				im.Violate(fmt.Sprintf("%s: datagram to %s:%q was read AND answered", w.spec.name, dstName, svc), "read-and-answered", replay)
			}
			break
		}
		cls := "notice-missing"
		if kind == "waiting" || kind == "concurrent" {
			cls = "lost-without-notice:closed-while-waiting"
		}
		if dst == src.ni {
			if sync != "SUnknown" {
				im.Violate(fmt.Sprintf("%s: local datagram to unbound %q (%s): WriteTo returned %v, want %q", w.spec.name, svc, kind, werr, netceptor.ProblemServiceUnknown), sig(cls, src.svc, svc), replay)
			}
			break
		}
		okc := 0
		for _, g := range gs {
			if g.s == src && g.n.Problem == netceptor.ProblemServiceUnknown && g.n.ReceivedFromNode == dstName {
				okc++
			}
		}
		if okc != 1 {
			im.Violate(fmt.Sprintf("%s: datagram %s:%q -> %s:%q (%s) reached a node where nothing listens on the service; the sender's socket got %d 'service unknown' notification(s), want exactly 1", w.spec.name, w.names[src.ni], src.svc, dstName, svc, kind, okc),
				sig(cls, src.svc, svc), replay)
		}
	case dst >= 0 && firstRule == "drop" && hops >= firstAt && !(hops == 0 && firstAt > 0):
		// (3) dropped by policy: silence
		if len(gs) > 0 || werr != nil || at != nil {
			im.Violate(fmt.Sprintf("%s: datagram to %s:%q is dropped by the firewall of %s, yet err=%v read=%v notifications=%d", w.spec.name, dstName, svc, w.names[p[firstAt]], werr, at != nil, len(gs)), "notice-after-drop", replay)
		}
	case targetBound && firstRule == "" && fullBudget:
		if at == nil || nread != 1 || at.ni != dst || at.svc != svc || len(gs) > 0 {
			im.Violate(fmt.Sprintf("%s: datagram to bound %s:%q: read %d time(s), notifications %d", w.spec.name, dstName, svc, nread, len(gs)), sig("bound-not-delivered", src.svc, svc), replay)
		}
	}
}

// ephemeral finds the service name a Dial or Ping running on node ni has just bound.
func (w *world) ephemeral(ni int, before map[string]bool, limit time.Duration) string {
	name := ""
	WaitFor(limit, func() bool {
		n := w.nodes[ni]
		n.GetListenerLock().RLock()
		defer n.GetListenerLock().RUnlock()
		for k := range n.GetListenerRegistry() {
			if !before[k] {
				name = k
				return true
			}
		}
		return false
	})
	if name == "" {
		name = placeholderEph
	}
	return name
}

func (w *world) registry(ni int) map[string]bool {
	n := w.nodes[ni]
	n.GetListenerLock().RLock()
	defer n.GetListenerLock().RUnlock()
	out := map[string]bool{}
	for k := range n.GetListenerRegistry() {
		out[k] = true
	}
	return out
}

func (w *world) pingCase(c *Ctx, im *Impl, cf *CaseFile, ni, dst, hops int) {
	w.seq++
	target := unknownNode
	p := []int{ni}
	if dst < len(w.names) {
		target = w.names[dst]
		p = w.path(ni, dst)
	} else {
		dst = -1
	}
	before := w.registry(ni)
	nm, _ := w.marks()
	ech := make(chan string, 1)
	go func() { ech <- w.ephemeral(ni, before, 30*time.Millisecond) }()
	ctx, cancel := context.WithTimeout(context.Background(), 400*time.Millisecond)
	t0 := time.Now()
	_, from, err := w.nodes[ni].Ping(ctx, target, byte(hops))
	dt := time.Since(t0)
	cancel()
	eph := <-ech
	obs := ""
	switch {
	case err == nil:
		obs = "PgReply"
		if from != target {
			im.Violate(fmt.Sprintf("ping %s -> %s answered by %q", w.names[ni], target, from), "ping-wrong-responder", nil)
		}
	case err.Error() == "no route to node":
		obs = "PgNoRoute"
	case err.Error() == "user cancelled" || err.Error() == "timeout":
		obs = "PgSilence"
	default:
		if pb, ok := coqProblem(err.Error()); ok {
			obs = fmt.Sprintf("(PgProblem %s %s)", pb, HxS(from))
		} else {
			im.Violate(fmt.Sprintf("ping %s -> %s hops %d: unexpected error %q", w.names[ni], target, hops, err), "ping-error", nil)
			return
		}
	}
	term := fmt.Sprintf("CPing %s %s %d %d %s %s %s %s", w.coqWorld(map[int][]string{ni: {eph}}, nil), w.coqPath(p), w.mh, hops,
		HxS(w.names[ni]), HxS(eph), HxS(target), obs)
	label := fmt.Sprintf("%s ping #%d %s -> %s hops=%d: from=%q err=%v (%.0fms)", w.spec.name, w.seq, w.names[ni], target, hops, from, err, dt.Seconds()*1000)
	cf.Add(term, label)
	im.Count(fmt.Sprintf("%s|ping|%s|%s|%d", w.spec.name, w.names[ni], target, hops), len(p) > 1)
	im.Hist("ping:" + strings.Fields(obs + " x")[0])
	// oracle: nobody else hears about it; an expired ping names the node where it expired
	for _, g := range w.newNotifs(nm) {
		im.Violate(fmt.Sprintf("%s: ping from %s: socket %s:%q received a notification %v", w.spec.name, w.names[ni], w.names[g.s.ni], g.s.svc, g.n), "notice-misdelivered", label)
	}
	if dst >= 0 && err != nil && err.Error() == netceptor.ProblemExpiredInTransit {
		clear := true
		for _, nd := range p {
			if w.rule(nd, "ping") != "" || w.rule(nd, "unreach") != "" {
				clear = false
			}
		}
		if clear && (hops >= len(p)-1 || from != w.names[p[hops]]) {
			im.Violate(fmt.Sprintf("%s: ping %s -> %s with %d hops expired at %q, want %q", w.spec.name, w.names[ni], target, hops, from, w.names[p[min(hops, len(p)-1)]]), "expiry-wrong-node", label)
		}
	}
	if obs != "PgSilence" && dt > 2*time.Second {
		im.Violate("ping answer took "+dt.String(), "ping-slow", label)
	}
}

// traceCase: Netceptor.Traceroute = one Ping per hop budget, each answered by the 'message expired'
// notice of the node where the budget ran out, until the target itself answers.
func (w *world) traceCase(c *Ctx, im *Impl, cf *CaseFile, ni, dst int) {
	w.seq++
	target := unknownNode
	p := []int{ni}
	if dst < len(w.names) {
		target = w.names[dst]
		p = w.path(ni, dst)
	}
	nm, _ := w.marks()
	ctx, cancel := context.WithTimeout(context.Background(), 1500*time.Millisecond)
	var obs, seen []string
	t0 := time.Now()
	for res := range w.nodes[ni].Traceroute(ctx, target) {
		seen = append(seen, fmt.Sprintf("%s:%v", res.From, res.Err))
		switch {
		case res.Err == nil && res.From == target:
			obs = append(obs, "PgReply")
		case res.Err == nil:
			obs = append(obs, fmt.Sprintf("(PgProblem PExpired %s)", HxS(res.From)))
		case res.Err.Error() == "no route to node":
			obs = append(obs, "PgNoRoute")
		case res.Err.Error() == "user cancelled" || res.Err.Error() == "timeout":
			obs = append(obs, "PgSilence")
		default:
			if pb, ok := coqProblem(res.Err.Error()); ok {
				obs = append(obs, fmt.Sprintf("(PgProblem %s %s)", pb, HxS(res.From)))
			} else {
				im.Violate(fmt.Sprintf("traceroute %s -> %s: unexpected error %q", w.names[ni], target, res.Err), "ping-error", nil)
				cancel()
				return
			}
		}
	}
	if ctx.Err() != nil && (len(obs) == 0 || strings.HasPrefix(obs[len(obs)-1], "(PgProblem PExpired")) {
		// the last Ping got no answer at all before the caller's deadline (a policy drop): the
		// result channel is closed without a result for it
		obs = append(obs, "PgSilence")
		seen = append(seen, "(no answer)")
	}
	cancel()
	dt := time.Since(t0)
	term := fmt.Sprintf("CTrace %s %s %d %s %s %s %s", w.coqWorld(map[int][]string{ni: {placeholderEph}}, nil), w.coqPath(p), w.mh,
		HxS(w.names[ni]), HxS(placeholderEph), HxS(target), CoqList(obs))
	label := fmt.Sprintf("%s traceroute #%d %s -> %s: %v (%.0fms)", w.spec.name, w.seq, w.names[ni], target, seen, dt.Seconds()*1000)
	cf.Add(term, label)
	im.Count(fmt.Sprintf("%s|trace|%s|%s", w.spec.name, w.names[ni], target), len(p) > 1)
	im.Hist(fmt.Sprintf("traceroute:results=%d", len(obs)))
	// oracle: without a firewall in the way the hops are exactly the nodes of the path, in order
	clear := dst < len(w.names)
	for _, nd := range p {
		if w.rule(nd, "ping") != "" || w.rule(nd, "unreach") != "" {
			clear = false
		}
	}
	if clear {
		ok := len(seen) == len(p)
		for i := 0; ok && i < len(p); i++ {
			want := w.names[p[i]] + ":<nil>"
			if i == len(p)-1 {
				want = target + ":<nil>"
			}
			ok = seen[i] == want
		}
		if !ok {
			im.Violate(fmt.Sprintf("%s: traceroute %s -> %s reported %v, want one hop per node of the path %v", w.spec.name, w.names[ni], target, seen, w.coqPathNames(p)), "traceroute-hops", label)
		}
	}
	for _, g := range w.newNotifs(nm) {
		im.Violate(fmt.Sprintf("%s: traceroute from %s: socket %s:%q received a notification %v", w.spec.name, w.names[ni], w.names[g.s.ni], g.s.svc, g.n), "notice-misdelivered", label)
	}
}

func (w *world) coqPathNames(p []int) []string {
	var xs []string
	for _, i := range p {
		xs = append(xs, w.names[i])
	}
	return xs
}

type dialSpec struct {
	kind    string
	dst     int // -1 unknown node, -2 own node
	timeout time.Duration
}

func (w *world) dialCases(c *Ctx, im *Impl, cf *CaseFile) {
	r := c.Rng
	far := len(w.names) - 1
	specs := []dialSpec{
		{"unbound", far, 4 * time.Second},
		{"closed-before", far, 4 * time.Second},
		{"waiting", far, 4 * time.Second},
		{"unbound", 1, 4 * time.Second},
		{"own-node-unbound", -2, 3 * time.Second},
		{"unknown-node", -1, 3 * time.Second},
	}
	if w.spec.nonUTF8 {
		specs = []dialSpec{{"unbound", far, 4 * time.Second}, {"unbound-bad", far, 1200 * time.Millisecond}}
	} else {
		specs = append(specs, dialSpec{"dropme", w.ruleNode("dropme"), 1200 * time.Millisecond},
			dialSpec{"rejme", w.ruleNode("rejme"), 1200 * time.Millisecond})
	}
	if w.spec.listener {
		specs = append(specs, dialSpec{"listener", far, 4 * time.Second})
	}
	if c.Thorough() {
		for i := 0; i < 10; i++ {
			specs = append(specs, dialSpec{[]string{"unbound", "closed-before", "waiting"}[r.Intn(3)], r.Intn(len(w.names)), 4 * time.Second})
		}
	}
	for _, ds := range specs {
		src := r.Intn(len(w.names))
		if ds.dst == src {
			src = (src + 1) % len(w.names)
		}
		w.dialCase(c, im, cf, src, ds)
	}
}

func (w *world) ruleNode(svc string) int {
	for _, f := range w.spec.fw {
		if f.svc == svc {
			return f.node
		}
	}
	return len(w.names) - 1
}

func (w *world) dialCase(c *Ctx, im *Impl, cf *CaseFile, src int, ds dialSpec) {
	w.seq++
	dst := ds.dst
	dstName := unknownNode
	p := []int{src}
	switch {
	case dst == -2:
		dst = src
		dstName = w.names[src]
	case dst >= 0:
		if dst == src {
			dst = (src + 1) % len(w.names)
		}
		dstName = w.names[dst]
		p = w.path(src, dst)
	}
	svc := ""
	var temp *sock
	var li *netceptor.Listener
	fate := "FRead"
	switch ds.kind {
	case "unbound", "own-node-unbound", "unknown-node":
		svc = fmt.Sprintf("nd%d", w.seq%1000)
	case "unbound-bad":
		svc = "no\xff"
	case "closed-before", "waiting":
		svc = fmt.Sprintf("d%d", w.seq%100000)
		var err error
		temp, err = w.open(dst, svc, false, true)
		if err != nil {
			im.Violate("ListenPacket: "+err.Error(), "listen-failed", svc)
			return
		}
		if ds.kind == "closed-before" {
			w.closeSock(temp)
		} else {
			fate = "FClosedWaiting"
		}
	case "listener":
		svc = "stream"
		var err error
		li, err = w.nodes[dst].Listen(svc, nil)
		if err != nil {
			im.Violate("Listen: "+err.Error(), "listen-failed", svc)
			return
		}
		go func() {
			for {
				cn, err := li.Accept()
				if err != nil {
					return
				}
				_ = cn
			}
		}()
	default:
		svc = ds.kind
	}
	extraBound := map[int][]string{}
	if li != nil {
		extraBound[dst] = append(extraBound[dst], svc)
	}
	before := w.registry(src)
	nm, _ := w.marks()
	ech := make(chan string, 1)
	go func() { ech <- w.ephemeral(src, before, 50*time.Millisecond) }()
	if ds.kind == "waiting" {
		go func() { time.Sleep(30 * time.Millisecond); w.closeSock(temp) }()
	}
	ctx, cancel := context.WithTimeout(context.Background(), ds.timeout)
	t0 := time.Now()
	conn, err := w.nodes[src].DialContext(ctx, dstName, svc, nil)
	dt := time.Since(t0)
	cancel()
	eph := <-ech
	extraBound[src] = append(extraBound[src], eph)
	coqW := w.coqWorld(extraBound, nil)
	obs := ""
	switch {
	case err == nil:
		obs = "DProceeds"
		_ = conn.CloseConnection()
	case err.Error() == "context canceled":
		obs = "DCancelled"
	case err.Error() == "context deadline exceeded":
		obs = "DTimesOut"
	case strings.Contains(err.Error(), netceptor.ProblemServiceUnknown) || strings.Contains(err.Error(), "no route to node"):
		obs = "DSyncFail"
	default:
		im.Violate(fmt.Sprintf("%s: dial %s -> %s:%q (%s): unexpected error %q", w.spec.name, w.names[src], dstName, svc, ds.kind, err), "dial-error", nil)
		return
	}
	if li != nil {
		// Listener.Close is C17's business (it can hang on the pinned tree): not waited for here
		go func() { _ = li.Close() }()
	}
	term := fmt.Sprintf("CDial %s %s %d (mkpkt %s %s %s %s) %s %s", coqW, w.coqPath(p), w.mh, HxS(w.names[src]), HxS(eph), HxS(dstName), HxS(svc), fate, obs)
	label := fmt.Sprintf("%s dial #%d %s -> %s:%q kind=%s: %s err=%v after %.0fms", w.spec.name, w.seq, w.names[src], dstName, svc, ds.kind, obs, err, dt.Seconds()*1000)
	cf.Add(term, label)
	im.Count(fmt.Sprintf("%s|dial|%s|%s|%s", w.spec.name, w.names[src], dstName, ds.kind), true)
	im.Hist("dial:" + ds.kind + ":" + obs)
	im.Hist(fmt.Sprintf("dial-latency<=%dms", bucket(dt)))
	im.Sample(label)
	// oracle
	replay := map[string]interface{}{"world": w.spec.name, "from": w.names[src], "to": dstName + ":" + svc, "kind": ds.kind}
	switch ds.kind {
	case "unbound", "closed-before", "waiting", "unbound-bad":
		if obs != "DCancelled" {
			im.Violate(fmt.Sprintf("%s: dial %s -> %s:%q (%s, nothing listens there) ended with %v after %s, want \"context canceled\" caused by the service-unknown notice", w.spec.name, w.names[src], dstName, svc, ds.kind, err, dt.Round(time.Millisecond)),
				sig("dial-not-cancelled", svc), replay)
		} else if dt > 3*time.Second {
			im.Violate(fmt.Sprintf("%s: dial to unbound %s:%q was cancelled only after %s", w.spec.name, dstName, svc, dt), sig("dial-slow", svc), replay)
		}
	case "own-node-unbound", "unknown-node":
		if err == nil || dt > 3*time.Second {
			im.Violate(fmt.Sprintf("%s: dial %s -> %s:%q: err=%v after %s, want an immediate failure", w.spec.name, w.names[src], dstName, svc, err, dt), "dial-slow", replay)
		}
	case "dropme":
		if obs != "DTimesOut" {
			im.Violate(fmt.Sprintf("%s: dial to %s:%q whose packets are dropped by policy ended with %v after %s (want to run into the caller's deadline)", w.spec.name, dstName, svc, err, dt), "dial-cancelled-after-drop", replay)
		}
	case "listener":
		if obs != "DProceeds" {
			im.Violate(fmt.Sprintf("%s: dial to a listening service failed: %v", w.spec.name, err), "dial-bound-failed", replay)
		}
	}
	// whatever happened, no long-lived socket may have been told anything
	time.Sleep(20 * time.Millisecond)
	for _, g := range w.newNotifs(nm) {
		im.Violate(fmt.Sprintf("%s: during a dial from %s, socket %s:%q received %v", w.spec.name, w.names[src], w.names[g.s.ni], g.s.svc, g.n), sig("notice-misdelivered", svc), replay)
	}
}

func bucket(d time.Duration) int {
	for _, b := range []int{5, 20, 50, 200, 500, 1000, 1500, 3000, 6000} {
		if d <= time.Duration(b)*time.Millisecond {
			return b
		}
	}
	return 99999
}

var _ = sort.Strings
