package main

import (
	"bytes"
	"context"
	"fmt"
	"io"
	"strings"
	"sync"
	"time"

	. "verifharness/lib"

	"github.com/ansible/receptor/pkg/netceptor"
)

// acceptedCases: several connections from the same node accepted by ONE listener share the
// listener's socket, and every one of them runs monitorUnreachable on it.  One dialler aborts
// while the server is still sending to it: the server's datagrams find the dialler's ephemeral
// service gone and a 'service unknown' notification arrives on the listener's socket.  It names
// one remote address: only that connection may be cancelled.  The notification (recorded on the
// listener's own socket) and the fate of every connection go to Coq (CMonitor: monitor_match per
// connection); the oracle is the property text: "only that sender's socket", here: only that
// connection.
func (w *world) acceptedCases(c *Ctx, im *Impl, cf *CaseFile) {
	src, dst := 0, len(w.names)-1
	svc := "shared"
	li, err := w.nodes[dst].Listen(svc, nil)
	if err != nil {
		im.Violate("Listen: "+err.Error(), "listen-failed", svc)
		return
	}
	defer func() { go func() { _ = li.Close() }() }()
	acc := make(chan *netceptor.Conn, 8)
	go func() {
		for {
			cn, err := li.Accept()
			if err != nil {
				return
			}
			acc <- cn.(*netceptor.Conn)
		}
	}()
	// everything the listener's socket is told
	w.nodes[dst].GetListenerLock().RLock()
	lpc := w.nodes[dst].GetListenerRegistry()[svc]
	w.nodes[dst].GetListenerLock().RUnlock()
	done := make(chan struct{})
	defer close(done)
	var mu sync.Mutex
	var notifs []netceptor.UnreachableNotification
	if ch := lpc.SubscribeUnreachable(done); ch != nil {
		go func() {
			for n := range ch {
				mu.Lock()
				notifs = append(notifs, n)
				mu.Unlock()
			}
		}()
	}
	const k = 3
	type pair struct {
		d, a *netceptor.Conn
		eph  string
	}
	var conns []pair
	for i := 0; i < k; i++ {
		ctx, cancel := context.WithTimeout(context.Background(), 6*time.Second)
		d, err := w.nodes[src].DialContext(ctx, w.names[dst], svc, nil)
		cancel()
		if err != nil {
			im.Violate("dial to an open listener failed: "+err.Error(), "dial-bound-failed", nil)
			return
		}
		var a *netceptor.Conn
		select {
		case a = <-acc:
		case <-time.After(5 * time.Second):
			im.Violate("connection not accepted", "accept-missing", nil)
			return
		}
		eph := d.LocalAddr().String()
		eph = eph[strings.LastIndex(eph, ":")+1:]
		conns = append(conns, pair{d, a, eph})
	}
	// first a notice that is NOT 'service unknown': a datagram from the listener's own socket to
	// connection 1's remote address that has no hop budget expires on the spot ('message
	// expired' on the listener's socket, naming connection 1's peer).  The peer has not gone
	// away: no connection may be cancelled by it.
	lpc.SetHopsToLive(0)
	_, _ = lpc.WriteTo([]byte("no hop budget"), w.nodes[dst].NewAddr(w.names[src], conns[1].eph))
	lpc.SetHopsToLive(byte(w.mh))
	WaitFor(2*time.Second, func() bool { mu.Lock(); defer mu.Unlock(); return len(notifs) > 0 })
	time.Sleep(150 * time.Millisecond)
	mu.Lock()
	var expiredN []netceptor.UnreachableNotification
	for _, n := range notifs {
		if n.Problem == netceptor.ProblemExpiredInTransit {
			expiredN = append(expiredN, n)
		}
	}
	notifs = nil
	mu.Unlock()
	if len(expiredN) > 0 {
		var ps, obs []string
		for i, p := range conns {
			msg := []byte(fmt.Sprintf("alive-after-expiry-%d", i))
			_, werr := p.a.Write(msg)
			buf := make([]byte, len(msg))
			_ = p.d.SetReadDeadline(time.Now().Add(3 * time.Second))
			_, rerr := io.ReadFull(p.d, buf)
			_ = p.d.SetReadDeadline(time.Time{})
			dead := werr != nil || rerr != nil || !bytes.Equal(buf, msg)
			if dead {
				im.Violate(fmt.Sprintf("%s: connection %s:%q <- %s:%q stopped working (write: %v, read: %v) after a 'message expired' notification about %q arrived on the listener's socket: only 'service unknown' means the peer is gone",
					w.spec.name, w.names[src], p.eph, w.names[dst], svc, werr, rerr, conns[1].eph), "connection-cancelled-by-expiry-notice", nil)
			}
			ps = append(ps, fmt.Sprintf("mkpkt %s %s %s %s", HxS(w.names[dst]), HxS(svc), HxS(w.names[src]), HxS(p.eph)))
			obs = append(obs, CoqBool(dead))
		}
		cf.Add(fmt.Sprintf("CMonitor (%s, %s, %s) %s %s", HxS(w.names[dst]), HxS(svc), coqNotif(expiredN[0]), CoqList(ps), CoqList(obs)),
			fmt.Sprintf("%s: 'message expired' notification about connection 1's peer on the socket shared by %d accepted connections", w.spec.name, k))
		im.Count(w.spec.name+"|expiry-notice-on-shared-socket", true)
	}
	im.Hist(fmt.Sprintf("accepted:expiry-notifications=%d", len(expiredN)))
	// connection 0: the server sends in bulk, the dialler reads a little and aborts
	go func() {
		blk := bytes.Repeat([]byte("0123456789abcdef"), 512)
		for {
			if _, err := conns[0].a.Write(blk); err != nil {
				return
			}
		}
	}()
	_, _ = io.CopyN(io.Discard, conns[0].d, 200000)
	_ = conns[0].d.CloseConnection()
	WaitFor(2*time.Second, func() bool { mu.Lock(); defer mu.Unlock(); return len(notifs) > 0 })
	time.Sleep(150 * time.Millisecond)
	// which connections still work (server -> dialler)?
	cancelled := make([]bool, k)
	cancelled[0] = true
	for i := 1; i < k; i++ {
		msg := []byte(fmt.Sprintf("still-alive-%d", i))
		_, werr := conns[i].a.Write(msg)
		buf := make([]byte, len(msg))
		_ = conns[i].d.SetReadDeadline(time.Now().Add(2 * time.Second))
		_, rerr := io.ReadFull(conns[i].d, buf)
		cancelled[i] = werr != nil || rerr != nil || !bytes.Equal(buf, msg)
		if cancelled[i] {
			im.Violate(fmt.Sprintf("%s: connection %s:%q <- %s:%q accepted by listener %q stopped working (write: %v, read: %v) after ANOTHER connection from the same node (ephemeral service %q) was aborted and its 'service unknown' notification arrived on the listener's socket",
				w.spec.name, w.names[src], conns[i].eph, w.names[dst], svc, svc, werr, rerr, conns[0].eph), "notice-cancelled-unrelated-connection", nil)
		}
	}
	mu.Lock()
	ns := append([]netceptor.UnreachableNotification{}, notifs...)
	mu.Unlock()
	im.Hist(fmt.Sprintf("accepted:notifications-on-listener-socket=%d", len(ns)))
	for _, n := range ns {
		if n.ToService != conns[0].eph || n.ToNode != w.names[src] || n.FromService != svc || n.FromNode != w.names[dst] {
			im.Violate(fmt.Sprintf("%s: listener socket %q received a notification %v although only the connection to %q was aborted", w.spec.name, svc, n, conns[0].eph), "notice-misdelivered", nil)
		}
	}
	if len(ns) > 0 {
		var ps, obs []string
		for i, p := range conns {
			ps = append(ps, fmt.Sprintf("mkpkt %s %s %s %s", HxS(w.names[dst]), HxS(svc), HxS(w.names[src]), HxS(p.eph)))
			obs = append(obs, CoqBool(cancelled[i]))
		}
		term := fmt.Sprintf("CMonitor (%s, %s, %s) %s %s", HxS(w.names[dst]), HxS(svc), coqNotif(ns[0]), CoqList(ps), CoqList(obs))
		cf.Add(term, fmt.Sprintf("%s: %d connections accepted by one listener from %s; the first aborted by its dialler; cancelled=%v", w.spec.name, k, w.names[src], cancelled))
	}
	im.Count(w.spec.name+"|accepted-connections-share-a-socket", true)
	for _, p := range conns[1:] {
		_ = p.d.CloseConnection()
	}
}
