package main

// C16 — senders learn when the target service does not exist; dials to it fail fast.
//
// Real meshes of 2-4 nodes (harness/lib/mesh.go), many sockets per node, each with a
// SubscribeUnreachable channel recorded for the whole life of the world.  Every operation
// (datagram, Ping, DialContext) is written as a Coq case for Model/Unreach.v together with
// everything every socket of the mesh was told, and judged by an oracle taken from the
// property text alone:
//   - a notification is only ever received by the socket whose own address is its
//     (FromNode, FromService), for a datagram that socket really sent to (ToNode, ToService);
//   - a datagram that reaches a node where nothing listens on the addressed service is answered
//     with exactly one "service unknown" naming the four original fields (a local sender gets
//     the error synchronously); this includes a service closed before the send and a socket
//     closed while the datagram was still waiting to be read;
//   - a datagram dropped by policy is answered by nothing, anywhere;
//   - a dial to such a service fails with "context canceled" far below the handshake timeout,
//     a dial whose packets are dropped is not cancelled.

import (
	"context"
	"fmt"
	"os"
	"runtime"
	"strings"
	"time"

	. "verifharness/lib"
)

func main() { Main("C16", run, nil) }

func run(c *Ctx) {
	QuietLogs()
	im := NewImpl("C16", c.Seed, c.Tier)
	im.Rule = "per world (chains and stars of 2-4 real nodes, 3-7 sockets per node with names of 1..8 bytes incl. multi-byte UTF-8, firewall rules drop/reject keyed on the destination service on end and transit nodes) a sequence of datagrams from every socket to bound, unbound, closed-before, closed-while-waiting, closed-concurrently, reserved, firewalled services on own, neighbour, distant and unknown nodes with hop budgets 0..max; Pings with hop budgets 0..path length; DialContext to unbound/closed/dropped/rejected/bound services; one extra world with service names that are not valid UTF-8. Non-trivial = the operation leaves the sending node or produces a notification; distinct by (world, operation, addresses, hop budget, fate)"
	cf := &CaseFile{Dir: c.Out, Prop: "C16", Imports: []string{"Model.Unreach"},
		CaseType: "unreach_case", CheckFn: "unreach_check", PerShard: 200}
	t0 := time.Now()
	nw := 0
	// Watchdog: every operation of a world is bounded (notices are awaited for a few seconds, dials
	// for the handshake timeout), so a run in which NO operation completes for three minutes is a
	// mesh that has stopped answering - a sender that never learns anything.  Reported as such (with
	// where the nodes' goroutines are blocked) instead of leaving the verdict to the time limit of
	// the whole check.
	go func() {
		last, since := -1, time.Now()
		for {
			time.Sleep(5 * time.Second)
			if n := im.Evaluations; n != last {
				last, since = n, time.Now()
				continue
			}
			if time.Since(since) < 180*time.Second {
				continue
			}
			buf := make([]byte, 1<<22)
			buf = buf[:runtime.Stack(buf, true)]
			blocked := map[string]int{}
			for _, g := range strings.Split(string(buf), "\n\n") {
				for _, fn := range []string{"(*Broker).Subscribe", "(*Broker).Unsubscribe", "(*Broker).Publish", "(*Broker).start", "handleUnreachable", "StartUnreachable", "SubscribeUnreachable", "ListenPacket", "DialContext", "sendUnreachable"} {
					if strings.Contains(g, fn) {
						blocked[fn]++
					}
				}
			}
			im.Violate(fmt.Sprintf("no datagram, ping or dial of the run completed for %v (after %d operations): the mesh has stopped answering, senders are told nothing any more; goroutines by function: %v", time.Since(since).Round(time.Second), last, blocked),
				"mesh-stopped-answering", map[string]interface{}{"operations_completed": last, "goroutines": blocked})
			_ = cf.Write()
			_ = im.Write(c.Out)
			os.Exit(0)
		}
	}()
	for _, spec := range worldSpecs(c) {
		w := buildWorld(c, im, spec)
		if w == nil {
			im.Violate("mesh "+spec.name+" did not converge", "mesh-setup", spec.name)
			continue
		}
		tw := time.Now()
		w.runOps(c, im, cf)
		im.Extra["wall_"+spec.name] = time.Since(tw).Seconds()
		w.finish(im)
		nw++
	}
	im.Extra["worlds"] = nw
	im.Extra["wall_s"] = time.Since(t0).Seconds()
	Must(cf.Write())
	Must(im.Write(c.Out))
	fmt.Printf("C16: %d evaluations, %d violations, %d coq cases, %.1fs\n", im.Evaluations, len(im.Violations), len(cf.Cases), time.Since(t0).Seconds())
}

var _ = context.Background
var _ = strings.Repeat
