package main

// The launch race of harness/cmd/c14/launch.go with C13's oracles: bursts of very short commands
// on a loaded scheduler, and a few units with the daemon's flock calls delayed (strace on the
// daemon's threads only) so that the runner records Running / its final state BEFORE the daemon's
// launch path writes.  Oracle: every status write is an allowed transition (the record only moves
// forward), a unit whose runner recorded a final state ends in that state, reports are monotone.

import (
	"fmt"
	"os"
	"os/exec"
	"path/filepath"
	"strings"
	"sync"
	"sync/atomic"
	"time"

	. "verifharness/lib"

	"github.com/ansible/receptor/pkg/workceptor"
)

func part8(c *Ctx, im *Impl, cf *CaseFile, tmp string) {
	n := newNode(c, filepath.Join(tmp, "n8"), "n8")
	startNode(n)
	defer func() { n.Stop(); n.KillStrays() }()
	daemonPids := map[int]bool{n.Cmd.Process.Pid: true}
	type kind struct {
		wt, script string
		state      int
		size       int64
	}
	kinds := []kind{{"ok", "", 2, 0}, {"ko", "", 3, 0}, {"sh", "echo x", 2, 2}, {"sh", "echo x; exit 3", 3, 2}}
	type sub struct {
		unit    string
		k       kind
		delayed bool
		err     error
		reports []snap
	}
	var subs []*sub
	var mu sync.Mutex
	burst := func(cnt int, delayed bool) {
		var wg sync.WaitGroup
		mu.Lock()
		base := len(subs)
		mu.Unlock()
		for i := 0; i < cnt; i++ {
			wg.Add(1)
			go func(i int) {
				defer wg.Done()
				k := kinds[(base+i)%len(kinds)]
				req := map[string]interface{}{"worktype": k.wt}
				if k.wt == "sh" {
					req["params"] = shQuote(k.script)
				}
				s := &sub{k: k, delayed: delayed}
				s.unit, _, s.err = Submit(n.Sock, req, []byte("x"), 60*time.Second)
				// what the daemon reports for the unit while and after it runs
				for j := 0; j < 12 && s.err == nil; j++ {
					if st, err := WorkStatus(n.Sock, s.unit, tmo); err == nil {
						if a, z, _, ok := statusOf(st); ok {
							s.reports = append(s.reports, snap{State: a, StdoutSize: z})
						}
					}
					time.Sleep(60 * time.Millisecond)
				}
				mu.Lock()
				subs = append(subs, s)
				mu.Unlock()
			}(i)
		}
		wg.Wait()
	}
	var stopBusy int32
	var bw sync.WaitGroup
	for i := 0; i < 4; i++ {
		bw.Add(1)
		go func() {
			defer bw.Done()
			for x := 0; atomic.LoadInt32(&stopBusy) == 0; x++ {
			}
		}()
	}
	bursts, per, nd := 2, 8, 9 // 9 delayed units: under heavy load some of them do not reach the interleaving
	if c.Thorough() {
		bursts, per, nd = 15, 10, 14
	}
	for b := 0; b < bursts; b++ {
		burst(per, false)
	}
	atomic.StoreInt32(&stopBusy, 1)
	bw.Wait()
	var args []string
	ents, _ := os.ReadDir(fmt.Sprintf("/proc/%d/task", n.Cmd.Process.Pid))
	for _, e := range ents {
		args = append(args, "-p", e.Name())
	}
	st := exec.Command("strace", append([]string{"-qq", "-o", "/dev/null", "-e", "trace=flock", "-e", "inject=flock:delay_enter=350000"}, args...)...)
	if err := st.Start(); err == nil {
		time.Sleep(400 * time.Millisecond)
		for i := 0; i < nd; i++ {
			burst(1, true)
		}
		time.Sleep(300 * time.Millisecond)
		_ = st.Process.Signal(os.Interrupt)
		done := make(chan struct{})
		go func() { _ = st.Wait(); close(done) }()
		select {
		case <-done:
		case <-time.After(5 * time.Second):
			_ = st.Process.Kill()
		}
		im.Hist("launch:strace-attached")
	}
	WaitFor(15*time.Second, func() bool {
		for _, s := range subs {
			if s.err == nil && s.unit != "" {
				if a, _, _ := diskStatus(n, s.unit); a < 2 {
					return false
				}
			}
		}
		return true
	})
	time.Sleep(500 * time.Millisecond)
	logs := readStatusLog(filepath.Join(n.Dir, "status.log"))
	for _, s := range subs {
		ctx := map[string]interface{}{"scenario": "burst of very short commands; the daemon's launch path against the runner's writes", "worktype": s.k.wt, "script": s.k.script, "unit": s.unit, "daemon_flock_delayed": s.delayed}
		if s.err != nil || s.unit == "" {
			im.Violate(fmt.Sprintf("work submit failed: %v", s.err), "c13-submit-failed", ctx)
			continue
		}
		lines := logs[s.unit]
		bad := judgeLog(im, s.unit, lines, false, false, ctx)
		cf.Add("CLog "+coqLog(lines, daemonPids), fmt.Sprintf("launch race unit %s (%s, delayed=%v) | %s", s.unit, s.k.wt, s.delayed, strings.Join(fmtLog(lines), " ; ")))
		a, z, det := diskStatus(n, s.unit)
		_ = det
		runnerFinal := -1
		runnerFirst, daemonAfter := -1, false
		for i, l := range lines {
			if !daemonPids[l.Pid] {
				if runnerFirst < 0 {
					runnerFirst = i
				}
				if l.New.State >= 2 {
					runnerFinal = l.New.State
				}
			} else if runnerFirst >= 0 {
				daemonAfter = true
			}
		}
		size := int64(0)
		if len(lines) > 0 {
			size = lines[len(lines)-1].New.StdoutSize
		}
		if a != s.k.state || size != s.k.size || (runnerFinal >= 0 && a != runnerFinal) {
			im.Violate(fmt.Sprintf("unit %s (%s %q) whose runner recorded final state %d is stored as (%s,%d), expected (%s,%d)", s.unit, s.k.wt, s.k.script, runnerFinal,
				workceptor.WorkStateToString(a), size, workceptor.WorkStateToString(s.k.state), s.k.size), "c13-wrong-final-state", ctx)
		}
		_ = z
		for i := 1; i < len(s.reports); i++ {
			if cls := allowedGo(s.reports[i-1], s.reports[i]); cls != "" {
				im.Violate(fmt.Sprintf("unit %s: reported (%s,%d) and later (%s,%d)", s.unit, workceptor.WorkStateToString(s.reports[i-1].State), s.reports[i-1].StdoutSize,
					workceptor.WorkStateToString(s.reports[i].State), s.reports[i].StdoutSize), "c13-reported-"+cls, ctx)
				break
			}
		}
		if st, err := WorkStatus(n.Sock, s.unit, tmo); err == nil {
			if ra, _, _, ok := statusOf(st); ok && ra != s.k.state {
				im.Violate(fmt.Sprintf("unit %s (%s) is finally reported as %s", s.unit, s.k.wt, workceptor.WorkStateToString(ra)), "c13-report-never-final", ctx)
			}
		}
		im.Count(fmt.Sprintf("launch %v", fmtLog(lines)), daemonAfter && bad == 0)
		im.Hist("launch:worktype=" + s.k.wt)
		if s.delayed {
			im.Hist("launch:with-delayed-daemon")
		}
	}
}
