package main

// C13 — work units only move forward; release removes them; unit IDs are unique.
//
// Process level, on the real receptor binary (built with -tags verif):
//   part 1  random command histories (submit / status / list / cancel / release / force-release /
//           results, also on finished, cancelled, unknown and already released units) from 1-4
//           concurrent clients per unit, several units at a time, on command work units whose
//           bash scripts have scripted durations, output and exit codes;
//   part 2  the two race windows the model singles out, opened by pure scheduling (SIGSTOP /
//           SIGCONT of the detached runner): cancel against a runner that is just finishing,
//           and cancel / "Pending at restart" after a daemon restart with a live runner;
//   part 3  (in process, public API) concurrent AllocateUnit with a scripted candidate stream
//           (crypto/rand.Reader replaced in the harness process), directories left on disk,
//           release and re-use.
// Observed: every status rewrite of daemon and runner (VERIF_STATUS_LOG hook), every reply,
// the data directory, /proc.  Model-independent oracle: chain + allowed transitions per unit,
// monotone reports per client, process table after cancel, directory/index after release,
// distinct IDs.  The same logs are judged by Model/WorkLife.v in coqc (CLog / CLogR / CIds).

import (
	"bufio"
	"context"
	crand "crypto/rand"
	"encoding/json"
	"fmt"
	"io"
	"net"
	"os"
	"os/exec"
	"path/filepath"
	"sort"
	"strconv"
	"strings"
	"sync"
	"syscall"
	"time"

	. "verifharness/lib"

	"github.com/ansible/receptor/pkg/netceptor"
	"github.com/ansible/receptor/pkg/workceptor"
)

func main() { Main("C13", runC13, nil) }

const tmo = 20 * time.Second

// ---------- status log ----------

type snap struct {
	State      int
	StdoutSize int64
	WorkType   string
	Detail     string
}

type logLine struct {
	Pid   int    `json:"pid"`
	File  string `json:"file"`
	Empty bool   `json:"empty"`
	Old   snap   `json:"old"`
	New   snap   `json:"new"`
}

func readStatusLog(path string) map[string][]logLine {
	out := map[string][]logLine{}
	f, err := os.Open(path)
	if err != nil {
		return out
	}
	defer f.Close()
	sc := bufio.NewScanner(f)
	sc.Buffer(make([]byte, 1<<20), 1<<24)
	for sc.Scan() {
		var l logLine
		if json.Unmarshal(sc.Bytes(), &l) != nil {
			continue
		}
		unit := filepath.Base(filepath.Dir(l.File))
		out[unit] = append(out[unit], l)
	}
	return out
}

func stage(s int) int {
	switch s {
	case 0:
		return 0
	case 1:
		return 1
	}
	return 2
}

// allowedGo is the transition relation of the property (independent re-statement of
// Model/WorkLife.v [allowed]); returns "" or the class of the violation.
func allowedGo(o, n snap) string {
	if stage(n.State) < stage(o.State) {
		return "stage-regress"
	}
	if o.State == 2 && (n.State != 2 || n.StdoutSize != o.StdoutSize) {
		return "succeeded-overwritten"
	}
	if stage(n.State) <= 1 && n.StdoutSize < o.StdoutSize {
		return "size-shrinks"
	}
	return ""
}

func kindOf(l logLine, daemon bool) string {
	d := l.New.Detail
	switch {
	case daemon && l.New == l.Old:
		return "KSame"
	case strings.HasPrefix(d, "Running: PID"):
		return "KTick"
	case d == "Killed":
		return "KKilled"
	case d == "Pending at restart":
		return "KRestartFail"
	case d == "Canceled":
		return "KCancel"
	case l.New.State == 0 && (d == "Waiting for Input Data" || d == "Starting Worker" || d == "Launching command runner" || d == "Not started yet"):
		return "KPending0"
	case daemon && l.New.State == 3 && (strings.HasPrefix(d, "Error reading input data") || strings.HasPrefix(d, "Error starting worker") || strings.HasPrefix(d, "Failed to start command runner")):
		return "KFailed0"
	case !daemon && (l.New.State == 2 || l.New.State == 3):
		return "KFinal"
	}
	return "KSame" // unknown shape: the model will refuse it unless it really changes nothing
}

func coqRec(s snap) string { return fmt.Sprintf("(mkRec %d %d)", s.State, s.StdoutSize) }

// fillGaps: the VERIF_STATUS_LOG hook appends its line AFTER the record has been written; a
// writer that is killed in between (the runner has no SIGINT handler until after its first write;
// a daemon killed for a restart) leaves a record without a line.  Such a gap shows as a write that
// starts from a record which is neither what the previous line stored nor any record stored
// earlier (a lost update starts from an EARLIER record and is never taken for a gap).  The missing
// write is put back as a line of pid -1 and judged like every other write.
func fillGaps(lines []logLine) (out []logLine, gaps int) {
	prev := snap{State: 0, StdoutSize: 0, Detail: "Unit Created"}
	earlier := map[snap]bool{}
	for i, l := range lines {
		if i == 0 {
			prev.WorkType = l.Old.WorkType
		}
		earlier[prev] = true
		if l.Old != prev && !earlier[l.Old] && !l.Empty {
			out = append(out, logLine{Pid: -1, File: l.File, Old: prev, New: l.Old})
			earlier[l.Old] = true
			gaps++
		}
		out = append(out, l)
		prev = l.New
	}
	return out, gaps
}

func coqLog(lines []logLine, daemonPids map[int]bool) string {
	lines, _ = fillGaps(lines)
	es := make([]string, len(lines))
	for i, l := range lines {
		who := "Runner"
		if daemonPids[l.Pid] {
			who = "Daemon"
		}
		es[i] = fmt.Sprintf("(%s, %s, %s, %s)", who, kindOf(l, daemonPids[l.Pid]), coqRec(l.Old), coqRec(l.New))
	}
	return CoqList(es)
}

func fmtLog(lines []logLine) []string {
	var o []string
	for _, l := range lines {
		o = append(o, fmt.Sprintf("pid %d: (%d,%d,%q) -> (%d,%d,%q)", l.Pid, l.Old.State, l.Old.StdoutSize, l.Old.Detail, l.New.State, l.New.StdoutSize, l.New.Detail))
	}
	return o
}

// judgeLog: chain + allowed on one unit's log.  restarted: the daemon was restarted while the
// unit existed (violations then carry the -after-restart signature).
func judgeLog(im *Impl, unit string, lines []logLine, restarted, releaseAsked bool, ctx map[string]interface{}) (violations int) {
	prev := snap{State: 0, StdoutSize: 0, Detail: "Unit Created"}
	lines, gaps := fillGaps(lines)
	if gaps > 0 {
		im.Hist("note:status-write-without-log-line(writer-killed-before-the-hook)")
		// only a process that dies can lose a line: the runner once, a daemon once per restart
		hidden := 0
		for _, l := range lines {
			if l.Pid == -1 {
				hidden++
				d := l.New.Detail
				runnerish := d == "Not started yet" || strings.HasPrefix(d, "Running: PID") || d == "Killed" || strings.HasPrefix(d, "exit status") || strings.HasPrefix(d, "signal:")
				if !restarted && !runnerish {
					im.Violate(fmt.Sprintf("unit %s: the record (%d,%d,%q) was stored without a log line although no process was killed that writes it", unit, l.New.State, l.New.StdoutSize, l.New.Detail),
						"c13-log-not-a-chain", map[string]interface{}{"ctx": ctx, "log": fmtLog(lines)})
					violations++
				}
			}
		}
		if hidden > 1 && !restarted {
			im.Violate(fmt.Sprintf("unit %s: %d status writes have no log line (at most the killed runner's last one can be missing)", unit, hidden),
				"c13-log-not-a-chain", map[string]interface{}{"ctx": ctx, "log": fmtLog(lines)})
			violations++
		}
	}
	for i, l := range lines {
		o, n := l.Old, l.New
		if i == 0 {
			prev.WorkType = o.WorkType
		}
		if o != prev && l.Empty && releaseAsked {
			// the unit's files were being removed by a release and a still living writer created a
			// fresh status file: not a lost update (the record it started from was deleted)
			im.Hist("note:write-into-a-directory-being-released")
			prev = o
		}
		if o != prev {
			im.Violate(fmt.Sprintf("unit %s: status write %d started from (%d,%d,%q) but the previous write stored (%d,%d,%q): an update was lost or applied to a stale record",
				unit, i, o.State, o.StdoutSize, o.Detail, prev.State, prev.StdoutSize, prev.Detail), "c13-log-not-a-chain", map[string]interface{}{"ctx": ctx, "log": fmtLog(lines)})
			violations++
		}
		prev = n
		if cls := allowedGo(o, n); cls != "" {
			sig := "c13-" + cls
			if restarted {
				sig = "c13-stage-regress-after-restart:" + cls
				if n.State == 1 && o.State == 4 {
					sig = "c13-stage-regress-after-restart:running-over-canceled"
				} else if n.State <= 1 && o.Detail == "Pending at restart" {
					sig = "c13-stage-regress-after-restart:running-over-pending-at-restart"
				}
			}
			im.Violate(fmt.Sprintf("unit %s: status rewritten from (%s,%d,%q) to (%s,%d,%q) by pid %d", unit,
				workceptor.WorkStateToString(o.State), o.StdoutSize, o.Detail, workceptor.WorkStateToString(n.State), n.StdoutSize, n.Detail, l.Pid),
				sig, map[string]interface{}{"ctx": ctx, "log": fmtLog(lines)})
			violations++
		}
	}
	return violations
}

// ---------- /proc ----------

// procState returns the state letter of a pid ("" when there is no such process).
func procState(pid int) string {
	b, err := os.ReadFile(fmt.Sprintf("/proc/%d/stat", pid))
	if err != nil {
		return ""
	}
	s := string(b)
	i := strings.LastIndex(s, ") ")
	if i < 0 || i+2 >= len(s) {
		return ""
	}
	return s[i+2 : i+3]
}

func running(pid int) bool {
	st := procState(pid)
	return st != "" && st != "Z" && st != "X"
}

// sessionMembers lists the live (non-zombie) processes whose session ID is sid (the runner is
// started with Setsid, so its command and grandchildren share its session).
func sessionMembers(sid int) []int {
	var out []int
	ents, _ := os.ReadDir("/proc")
	for _, e := range ents {
		pid, err := strconv.Atoi(e.Name())
		if err != nil {
			continue
		}
		b, err := os.ReadFile("/proc/" + e.Name() + "/stat")
		if err != nil {
			continue
		}
		s := string(b)
		i := strings.LastIndex(s, ") ")
		if i < 0 {
			continue
		}
		f := strings.Fields(s[i+2:])
		if len(f) < 4 || f[0] == "Z" || f[0] == "X" {
			continue
		}
		if sess, _ := strconv.Atoi(f[3]); sess == sid {
			out = append(out, pid)
		}
	}
	return out
}

// ---------- scenario generation ----------

type cmdSpec struct {
	AtMs int    `json:"at_ms"`
	Op   string `json:"op"`
}

type unitSpec struct {
	WorkType  string      `json:"worktype"` // sh (bash -c script) | ok (/bin/true, no params) | ko (/bin/false) | nocmd (command does not exist)
	Script    string      `json:"script"`
	Output    string      `json:"-"`
	Exit      int         `json:"exit"`
	DurMs     int         `json:"dur_ms"`
	StdinHold int         `json:"stdin_hold_ms"` // the submitter keeps stdin open this long
	Clients   [][]cmdSpec `json:"clients"`
}

type obsCmd struct {
	Client int
	Op     string
	T0, T1 time.Time
	Reply  string
	Err    error
	Status map[string]interface{}
}

const trap = "trap 'exit 130' INT; "

func genScript(r *Rng) (script, output string, exit, durMs int) {
	var sb, out strings.Builder
	sb.WriteString(trap)
	n := r.Range(1, 4)
	for i := 0; i < n; i++ {
		line := fmt.Sprintf("line-%d-%s", i, strings.Repeat("x", r.Intn(40)))
		fmt.Fprintf(&sb, "echo %s; ", line)
		out.WriteString(line + "\n")
		d := []int{0, 30, 80, 150, 300, 450}[r.Intn(6)]
		if d > 0 {
			fmt.Fprintf(&sb, "sleep %d.%03d & wait $!; ", d/1000, d%1000)
			durMs += d
		}
	}
	if r.Chance(25) {
		exit = r.Range(1, 5)
	}
	fmt.Fprintf(&sb, "exit %d", exit)
	return sb.String(), out.String(), exit, durMs
}

var opsMid = []string{"status", "status", "list", "cancel", "release", "force-release", "results", "status-unknown", "cancel-unknown", "release-unknown"}

func genUnit(r *Rng) unitSpec {
	u := unitSpec{WorkType: "sh"}
	u.Script, u.Output, u.Exit, u.DurMs = genScript(r)
	if r.Chance(15) { // work types without parameters; a command that cannot be started
		u.WorkType = []string{"ok", "ko", "nocmd"}[r.Intn(3)]
		u.Script, u.Output, u.DurMs = "", "", 0
		u.Exit = map[string]int{"ok": 0, "ko": 1, "nocmd": 127}[u.WorkType]
	}
	if r.Chance(20) {
		u.StdinHold = r.Range(50, 250)
	}
	nc := r.Range(1, 4)
	horizon := u.StdinHold + u.DurMs + 700
	for c := 0; c < nc; c++ {
		var cs []cmdSpec
		n := r.Range(1, 5)
		t := r.Intn(120)
		for i := 0; i < n; i++ {
			op := opsMid[r.Intn(len(opsMid))]
			if (op == "release" || op == "force-release" || op == "cancel") && r.Chance(45) {
				op = "status" // keep about half of the units running to completion
			}
			cs = append(cs, cmdSpec{AtMs: t, Op: op})
			t += r.Intn(horizon/n + 1)
		}
		// after a release, poke the unit again
		if r.Chance(50) {
			cs = append(cs, cmdSpec{AtMs: horizon + r.Intn(200), Op: []string{"status", "cancel", "release", "results", "list"}[r.Intn(5)]})
		}
		u.Clients = append(u.Clients, cs)
	}
	return u
}

// ---------- driving one unit ----------

type unitRun struct {
	Spec     unitSpec
	Unit     string
	Submit   map[string]interface{}
	SubErr   error
	T0       time.Time
	Obs      []obsCmd
	mu       sync.Mutex
	Released time.Time // first "released" reply
}

func shQuote(s string) string { return "'" + strings.ReplaceAll(s, "'", `'"'"'`) + "'" }

// submitHold is lib.Submit with a delay before stdin is closed; the unit ID is announced as soon as it is known.
func submitHold(addr string, wt, script string, hold time.Duration, idCh chan<- string) (string, map[string]interface{}, error) {
	c, err := DialCtl(addr, tmo)
	if err != nil {
		close(idCh)
		return "", nil, err
	}
	defer c.Close()
	req := map[string]interface{}{"command": "work", "subcommand": "submit", "node": "localhost", "worktype": wt}
	if wt == "sh" {
		req["params"] = shQuote(script)
	}
	b, _ := json.Marshal(req)
	l, err := c.Cmd(string(b), tmo)
	if err != nil || strings.HasPrefix(l, "ERROR") {
		close(idCh)
		return "", nil, fmt.Errorf("submit: %v %s", err, l)
	}
	unit := ""
	if i := strings.Index(l, "with ID "); i >= 0 {
		unit = strings.TrimSuffix(strings.Fields(l[i+8:])[0], ".")
	}
	idCh <- unit
	close(idCh)
	time.Sleep(hold)
	_ = c.Send([]byte("payload\n"))
	if err := c.CloseWrite(); err != nil {
		return unit, nil, err
	}
	l, err = c.ReadLine(tmo)
	if err != nil {
		return unit, nil, fmt.Errorf("no final reply: %w", err)
	}
	if strings.HasPrefix(l, "ERROR") {
		return unit, nil, fmt.Errorf("%s", l)
	}
	var out map[string]interface{}
	_ = json.Unmarshal([]byte(l), &out)
	return unit, out, nil
}

func doCmd(n *Node, unit string, client int, op string) obsCmd {
	o := obsCmd{Client: client, Op: op, T0: time.Now()}
	target := unit
	sub := op
	if strings.HasSuffix(op, "-unknown") {
		target, sub = "nosuch"+unit[:4], strings.TrimSuffix(op, "-unknown")
	}
	switch sub {
	case "list":
		m, err := WorkList(n.Sock, tmo)
		o.Err = err
		if err != nil && strings.Contains(err.Error(), "unknown work unit") {
			// "work list" looks every listed unit up again; one released in between fails the whole
			// reply.  Not a statement of C13 (nothing wrong is reported); counted.
			o.Err, o.Reply = nil, "list failed: "+err.Error()
		}
		if s, ok := m[unit].(map[string]interface{}); ok {
			o.Status = s
		}
		if err == nil {
			o.Reply = fmt.Sprintf("list of %d", len(m))
			if _, ok := m[unit]; ok {
				o.Reply += " incl"
			}
		}
	case "results":
		data, ended, err := WorkResults(n.Sock, target, 0, 1500*time.Millisecond)
		if err != nil && strings.Contains(err.Error(), "unknown work unit") {
			o.Reply = err.Error()
		} else if err != nil && strings.Contains(err.Error(), "timeout") {
			// the 1.5 s budget of this read-only command is the harness' own (streaming is C05's subject)
			o.Reply = "results: no first line within 1.5 s"
		} else {
			o.Err = err
			o.Reply = fmt.Sprintf("results ended=%v %q", ended, string(data))
		}
	default:
		l, err := OneShot(n.Sock, map[string]interface{}{"command": "work", "subcommand": sub, "unitid": target}, tmo)
		o.Err, o.Reply = err, l
		if sub == "status" && err == nil && strings.HasPrefix(l, "{") {
			_ = json.Unmarshal([]byte(l), &o.Status)
		}
	}
	o.T1 = time.Now()
	return o
}

func runUnit(n *Node, spec unitSpec) *unitRun {
	ur := &unitRun{Spec: spec, T0: time.Now()}
	idCh := make(chan string, 1)
	var wg sync.WaitGroup
	wg.Add(1)
	go func() {
		defer wg.Done()
		_, ur.Submit, ur.SubErr = submitHold(n.Sock, spec.WorkType, spec.Script, time.Duration(spec.StdinHold)*time.Millisecond, idCh)
	}()
	unit, ok := <-idCh
	if !ok || unit == "" {
		wg.Wait()
		return ur
	}
	ur.Unit = unit
	for ci, cs := range spec.Clients {
		wg.Add(1)
		go func(ci int, cs []cmdSpec) {
			defer wg.Done()
			for _, c := range cs {
				if d := time.Until(ur.T0.Add(time.Duration(c.AtMs) * time.Millisecond)); d > 0 {
					time.Sleep(d)
				}
				o := doCmd(n, unit, ci, c.Op)
				ur.mu.Lock()
				ur.Obs = append(ur.Obs, o)
				ur.mu.Unlock()
			}
		}(ci, cs)
	}
	wg.Wait()
	return ur
}

func statusOf(m map[string]interface{}) (state int, size int64, pid int, ok bool) {
	if m == nil {
		return 0, 0, 0, false
	}
	st, ok1 := m["State"].(float64)
	sz, ok2 := m["StdoutSize"].(float64)
	if ed, ok := m["ExtraData"].(map[string]interface{}); ok {
		if p, ok := ed["Pid"].(float64); ok {
			pid = int(p)
		}
	}
	return int(st), int64(sz), pid, ok1 && ok2
}

func releaseAsked(ur *unitRun) bool {
	for _, cs := range ur.Spec.Clients {
		for _, c := range cs {
			if c.Op == "release" || c.Op == "force-release" {
				return true
			}
		}
	}
	return false
}

// judgeUnit applies the response / directory / process-table oracles to one finished unit run.
func judgeUnit(im *Impl, n *Node, ur *unitRun, lines []logLine) {
	ctx := map[string]interface{}{"unit": ur.Unit, "spec": ur.Spec}
	unknown := func(s string) bool { return strings.Contains(s, "unknown work unit") }
	sort.SliceStable(ur.Obs, func(i, j int) bool { return ur.Obs[i].T0.Before(ur.Obs[j].T0) })
	// runner pid: from any status reply, else none
	runnerPid := 0
	var releasedAt, cancelledAt time.Time
	everCancelled := false
	for _, o := range ur.Obs {
		if _, _, p, ok := statusOf(o.Status); ok && p > 0 {
			runnerPid = p
		}
	}
	perClient := map[int][]obsCmd{}
	for _, o := range ur.Obs {
		perClient[o.Client] = append(perClient[o.Client], o)
		im.Hist("cmd:" + o.Op)
		if strings.HasPrefix(o.Reply, "list failed") {
			im.Hist("reply:list-failed-because-a-unit-was-released-meanwhile")
		}
		if o.Err != nil {
			im.Violate(fmt.Sprintf("unit %s: %s got no reply: %v", ur.Unit, o.Op, o.Err), "c13-no-reply", ctx)
			continue
		}
		switch o.Op {
		case "status-unknown", "cancel-unknown", "release-unknown":
			if !unknown(o.Reply) {
				im.Violate(fmt.Sprintf("%s on an unknown unit answered %q", o.Op, o.Reply), "c13-unknown-unit-reply", ctx)
			}
		case "release", "force-release":
			if strings.Contains(o.Reply, `"released"`) {
				if releasedAt.IsZero() || o.T1.Before(releasedAt) {
					releasedAt = o.T1
				}
				im.Hist("reply:released")
			} else if unknown(o.Reply) {
				im.Hist("reply:release-of-unknown")
			} else {
				im.Hist("reply:release-other")
				im.Violate(fmt.Sprintf("unit %s: %s answered %q", ur.Unit, o.Op, o.Reply), "c13-release-reply", ctx)
			}
		case "cancel":
			if strings.Contains(o.Reply, `"cancelled"`) {
				everCancelled = true
				if cancelledAt.IsZero() {
					cancelledAt = o.T1
				}
				im.Hist("reply:cancelled")
			} else if unknown(o.Reply) {
				im.Hist("reply:cancel-of-unknown")
			} else {
				im.Violate(fmt.Sprintf("unit %s: cancel answered %q", ur.Unit, o.Reply), "c13-cancel-reply", ctx)
			}
		}
	}
	// O3: what each client is told only moves forward
	for ci, os_ := range perClient {
		last, have := snap{}, false
		for _, o := range os_ {
			st, sz, _, ok := statusOf(o.Status)
			if !ok {
				continue
			}
			cur := snap{State: st, StdoutSize: sz}
			if have {
				if cls := allowedGo(last, cur); cls != "" {
					im.Violate(fmt.Sprintf("unit %s: client %d was told (%s,%d) and later (%s,%d)", ur.Unit, ci,
						workceptor.WorkStateToString(last.State), last.StdoutSize, workceptor.WorkStateToString(st), sz), "c13-reported-"+cls, ctx)
				}
			}
			last, have = cur, true
		}
	}
	// O5: after a release reply the unit is gone and stays gone
	if !releasedAt.IsZero() {
		if _, err := os.Stat(n.UnitDir(ur.Unit)); err == nil {
			im.Violate(fmt.Sprintf("unit %s: directory still exists after release", ur.Unit), "c13-release-leaves-directory", ctx)
		}
		for _, o := range ur.Obs {
			if o.Err != nil || !o.T0.After(releasedAt) {
				continue
			}
			switch o.Op {
			case "status", "cancel", "release", "force-release":
				if !unknown(o.Reply) {
					im.Violate(fmt.Sprintf("unit %s: %s after release answered %q", ur.Unit, o.Op, o.Reply), "c13-known-after-release", ctx)
				}
			case "list":
				if strings.HasSuffix(o.Reply, "incl") {
					im.Violate(fmt.Sprintf("unit %s is listed after release", ur.Unit), "c13-known-after-release", ctx)
				}
			case "results":
				if !unknown(o.Reply) && !strings.Contains(o.Reply, "ended=") {
					im.Violate(fmt.Sprintf("unit %s: results after release answered %q", ur.Unit, o.Reply), "c13-known-after-release", ctx)
				}
			}
		}
		if l, err := OneShot(n.Sock, map[string]interface{}{"command": "work", "subcommand": "status", "unitid": ur.Unit}, tmo); err != nil || !unknown(l) {
			im.Violate(fmt.Sprintf("unit %s: status after release answered %q %v", ur.Unit, l, err), "c13-known-after-release", ctx)
		}
	}
	// O4: cancel / release stop the unit's processes (when a runner had been started)
	if (everCancelled || !releasedAt.IsZero()) && runnerPid > 0 {
		if running(runnerPid) {
			im.Violate(fmt.Sprintf("unit %s: runner process %d still runs after cancel/release", ur.Unit, runnerPid), "c13-process-survives-cancel", ctx)
		}
		if m := sessionMembers(runnerPid); len(m) > 0 {
			time.Sleep(300 * time.Millisecond) // an interrupted background sleep may take a moment to be reaped
			if m = sessionMembers(runnerPid); len(m) > 0 {
				cmd, _ := os.ReadFile(fmt.Sprintf("/proc/%d/cmdline", m[0]))
				if !strings.HasPrefix(string(cmd), "sleep") {
					im.Violate(fmt.Sprintf("unit %s: processes %v of the unit's session still run after cancel/release (%q)", ur.Unit, m, strings.ReplaceAll(string(cmd), "\x00", " ")), "c13-process-survives-cancel", ctx)
				}
			}
		}
	}
	// O4b: whatever the moment of the cancel/release (also before the runner's pid was recorded, or
	// before the runner was launched): afterwards no runner of this unit is alive
	if everCancelled || !releasedAt.IsZero() {
		if ps := procsWithMarker("unitdir=" + n.UnitDir(ur.Unit)); len(ps) > 0 {
			time.Sleep(400 * time.Millisecond)
			if ps = procsWithMarker("unitdir=" + n.UnitDir(ur.Unit)); len(ps) > 0 {
				im.Violate(fmt.Sprintf("unit %s: its runner process %v is alive after the unit was cancelled/released", ur.Unit, ps), "c13-process-survives-cancel", ctx)
			}
		}
	}
	// O8: undisturbed units end as their script ends, with the whole output recorded
	disturbed := everCancelled || !releasedAt.IsZero()
	if !disturbed && ur.SubErr == nil && len(lines) > 0 {
		fin := lines[len(lines)-1].New
		want := 2
		if ur.Spec.Exit != 0 {
			want = 3
		}
		if fin.State != want || fin.StdoutSize != int64(len(ur.Spec.Output)) {
			im.Violate(fmt.Sprintf("unit %s (exit %d, %d bytes of output) ended as (%s,%d,%q)", ur.Unit, ur.Spec.Exit, len(ur.Spec.Output),
				workceptor.WorkStateToString(fin.State), fin.StdoutSize, fin.Detail), "c13-wrong-final-state", ctx)
		}
		if b, err := os.ReadFile(filepath.Join(n.UnitDir(ur.Unit), "stdout")); err != nil || string(b) != ur.Spec.Output {
			im.Violate(fmt.Sprintf("unit %s: stdout file differs from the script's output", ur.Unit), "c13-wrong-output", ctx)
		}
		// what the daemon REPORTS catches up with the stored final record (its monitor of the status
		// file and the waiter goroutine keep the in-memory copy current)
		var last map[string]interface{}
		if !WaitFor(4*time.Second, func() bool {
			st, err := WorkStatus(n.Sock, ur.Unit, tmo)
			last = st
			s, z, _, ok := statusOf(st)
			return err == nil && ok && s == fin.State && z == fin.StdoutSize
		}) {
			im.Violate(fmt.Sprintf("unit %s ended as (%s,%d) but work status keeps reporting %v", ur.Unit, workceptor.WorkStateToString(fin.State), fin.StdoutSize, last), "c13-report-never-final", ctx)
		}
		im.Hist("unit:worktype=" + ur.Spec.WorkType)
	}
	switch {
	case !releasedAt.IsZero():
		im.Hist("unit:released")
	case everCancelled:
		im.Hist("unit:cancelled")
	default:
		im.Hist("unit:ran-to-completion")
	}
	if everCancelled && runnerPid == 0 && len(lines) > 0 && lines[len(lines)-1].New.State != 4 {
		im.Hist("note:cancelled-before-the-runner-was-launched")
	}
}

// ---------- node ----------

func workTypes() string {
	// "sh" last: startNode waits for it, the others are registered by then
	return "- work-command:\n    worktype: ok\n    command: /bin/true\n" +
		"- work-command:\n    worktype: ko\n    command: /bin/false\n" +
		"- work-command:\n    worktype: nocmd\n    command: /nonexistent/c13-command\n" +
		"- work-command:\n    worktype: sh\n    command: bash\n    params: \"-c\"\n    allowruntimeparams: true\n"
}

func newNode(c *Ctx, dir, id string) *Node {
	n := NewNode(c.Bin, id, dir, workTypes())
	n.Env = []string{"VERIF_STATUS_LOG=" + filepath.Join(dir, "status.log")}
	return n
}

// startNode starts (or restarts) the daemon and waits until its work type is registered: the
// control socket answers before the work-command section of the configuration has been applied.
func startNode(n *Node) {
	Must(n.Start())
	deadline := time.Now().Add(15 * time.Second)
	for {
		unit, _, err := Submit(n.Sock, map[string]interface{}{"worktype": "sh", "params": shQuote("exit 0")}, []byte("x"), tmo)
		if err == nil {
			WaitFor(3*time.Second, func() bool { st, _, _ := diskStatus(n, unit); return st >= 2 })
			_, _ = OneShot(n.Sock, map[string]interface{}{"command": "work", "subcommand": "release", "unitid": unit}, tmo)
			return
		}
		if !strings.Contains(err.Error(), "unknown work type") || time.Now().After(deadline) {
			Must(fmt.Errorf("daemon %s does not accept work: %v", n.ID, err))
		}
		time.Sleep(50 * time.Millisecond)
	}
}

func waitListed(n *Node, unit string, d time.Duration) bool {
	return WaitFor(d, func() bool {
		m, err := WorkList(n.Sock, 2*time.Second)
		_, ok := m[unit]
		return err == nil && ok
	})
}

// diskStatus reads the status file of a unit directly (racy by design: retried by callers).
func diskStatus(n *Node, unit string) (state int, detail string, pid int) {
	b, err := os.ReadFile(filepath.Join(n.UnitDir(unit), "status"))
	if err != nil {
		return -1, "", 0
	}
	var s struct {
		State     int
		Detail    string
		ExtraData struct{ Pid int }
	}
	if json.Unmarshal(b, &s) != nil {
		return -1, "", 0
	}
	return s.State, s.Detail, s.ExtraData.Pid
}

// ---------- part 1 ----------

func part1(c *Ctx, im *Impl, cf *CaseFile, tmp string) {
	n := newNode(c, filepath.Join(tmp, "n1"), "n1")
	startNode(n)
	defer func() { n.Stop(); n.KillStrays() }()
	daemonPids := map[int]bool{n.Cmd.Process.Pid: true}
	nUnits, par := 48, 8
	if c.Thorough() {
		nUnits, par = 1800, 12
	}
	specs := make([]unitSpec, nUnits)
	for i := range specs {
		specs[i] = genUnit(c.Rng)
	}
	runs := make([]*unitRun, nUnits)
	sem := make(chan struct{}, par)
	var wg sync.WaitGroup
	for i := range specs {
		wg.Add(1)
		sem <- struct{}{}
		go func(i int) {
			defer wg.Done()
			defer func() { <-sem }()
			runs[i] = runUnit(n, specs[i])
		}(i)
	}
	wg.Wait()
	// let stragglers finish (units nobody cancelled)
	deadline := time.Now().Add(40 * time.Second)
	for time.Now().Before(deadline) {
		busy := false
		for _, ur := range runs {
			if ur.Unit == "" {
				continue
			}
			st, _, _ := diskStatus(n, ur.Unit)
			if st < 0 { // unreadable: being rewritten right now, or released
				if _, err := os.Stat(filepath.Join(n.UnitDir(ur.Unit), "status")); err == nil {
					busy = true
				}
			}
			if st == 0 || st == 1 {
				busy = true
			}
		}
		if !busy {
			break
		}
		time.Sleep(100 * time.Millisecond)
	}
	time.Sleep(300 * time.Millisecond) // the daemon's waiter goroutines write once more
	if !n.Alive() {
		im.Violate("the daemon died during the histories: "+n.ExitState(), "c13-daemon-died", nil)
	}
	logs := readStatusLog(filepath.Join(n.Dir, "status.log"))
	ids := map[string]int{}
	for i, ur := range runs {
		if ur.Unit == "" {
			im.Violate(fmt.Sprintf("submit failed: %v", ur.SubErr), "c13-submit-failed", specs[i])
			continue
		}
		ids[ur.Unit]++
		lines := logs[ur.Unit]
		ctx := map[string]interface{}{"unit": ur.Unit, "spec": ur.Spec}
		bad := judgeLog(im, ur.Unit, lines, false, releaseAsked(ur), ctx)
		judgeUnit(im, n, ur, lines)
		label := fmt.Sprintf("unit %s: %d clients, script %dms exit %d, %d status writes", ur.Unit, len(ur.Spec.Clients), ur.Spec.DurMs, ur.Spec.Exit, len(lines))
		cf.Add("CLog "+coqLog(lines, daemonPids), label+" | "+strings.Join(fmtLog(lines), " ; "))
		// non-trivial: both daemon and runner wrote, and some client interfered or watched
		writers := map[bool]bool{}
		for _, l := range lines {
			writers[daemonPids[l.Pid]] = true
		}
		im.Count(fmt.Sprintf("%v|%v", ur.Spec, fmtLog(lines)), len(writers) == 2 && len(ur.Obs) > 0 && bad == 0)
		im.Hist(fmt.Sprintf("unit:clients=%d", len(ur.Spec.Clients)))
		im.Hist(fmt.Sprintf("unit:status-writes=%d-%d", 10*(len(lines)/10), 10*(len(lines)/10)+9))
		if i < 3 {
			im.Sample(map[string]interface{}{"kind": "history", "unit": ur.Unit, "spec": ur.Spec, "status_writes": fmtLog(lines)})
		}
	}
	for id, k := range ids {
		if k > 1 {
			im.Violate(fmt.Sprintf("unit ID %s was handed out %d times", id, k), "c13-duplicate-id", nil)
		}
	}
}

// ---------- part 2: the race windows ----------

func unitLog(n *Node, unit string) []logLine {
	return readStatusLog(filepath.Join(n.Dir, "status.log"))[unit]
}

func waitDisk(n *Node, unit string, d time.Duration, pred func(state int, detail string, pid int) bool) (int, string, int, bool) {
	var st, pid int
	var det string
	ok := WaitFor(d, func() bool {
		st, det, pid = diskStatus(n, unit)
		return st >= 0 && pred(st, det, pid)
	})
	return st, det, pid, ok
}

func childPidOf(detail string) int {
	p := 0
	fmt.Sscanf(detail, "Running: PID %d", &p)
	return p
}

// raceCancelFinish: stop the runner while its command finishes, issue cancel, continue the
// runner.  Go's select then picks "command done" or "SIGINT" at random; in the first case the
// runner writes Succeeded and exits, and Cancel's write follows.
func raceCancelFinish(c *Ctx, im *Impl, cf *CaseFile, n *Node, daemonPids map[int]bool, attempt int) {
	script := "echo a; sleep 0.35; echo b"
	unit, _, err := Submit(n.Sock, map[string]interface{}{"worktype": "sh", "params": shQuote(script)}, []byte("x"), tmo)
	if err != nil {
		im.Violate("submit failed: "+err.Error(), "c13-submit-failed", nil)
		return
	}
	_, det, pid, ok := waitDisk(n, unit, 3*time.Second, func(st int, det string, pid int) bool { return st == 1 && pid > 0 })
	if !ok {
		im.Hist("race:cancel-finish:not-reached")
		return
	}
	child := childPidOf(det)
	_ = syscall.Kill(pid, syscall.SIGSTOP)
	WaitFor(2*time.Second, func() bool { return !running(child) })
	done := make(chan string, 1)
	go func() {
		l, _ := OneShot(n.Sock, map[string]interface{}{"command": "work", "subcommand": "cancel", "unitid": unit}, tmo)
		done <- l
	}()
	time.Sleep(120 * time.Millisecond)
	_ = syscall.Kill(pid, syscall.SIGCONT)
	reply := <-done
	time.Sleep(250 * time.Millisecond)
	lines := unitLog(n, unit)
	ctx := map[string]interface{}{"scenario": "runner stopped (SIGSTOP) while its command exits; work cancel; runner continued (SIGCONT)", "script": script, "cancel_reply": reply}
	sawSucceeded := false
	for _, l := range lines {
		if l.New.State == 2 && !daemonPids[l.Pid] {
			sawSucceeded = true
		}
	}
	if sawSucceeded {
		im.Hist("race:cancel-finish:runner-wrote-Succeeded-under-a-pending-cancel")
	} else {
		im.Hist("race:cancel-finish:runner-took-the-signal")
	}
	bad := judgeLog(im, unit, lines, false, false, ctx)
	cf.Add("CLog "+coqLog(lines, daemonPids), fmt.Sprintf("race cancel/finish attempt %d unit %s | %s", attempt, unit, strings.Join(fmtLog(lines), " ; ")))
	im.Count(fmt.Sprintf("race-cf %v", fmtLog(lines)), sawSucceeded && bad == 0)
	if st, err := WorkStatus(n.Sock, unit, tmo); err == nil && sawSucceeded {
		if s, _, _, ok := statusOf(st); ok && s != 2 {
			im.Violate(fmt.Sprintf("unit %s succeeded but is reported as %s after cancel", unit, workceptor.WorkStateToString(s)), "c13-succeeded-overwritten", ctx)
		}
	}
	if attempt == 0 {
		im.Sample(map[string]interface{}{"kind": "race cancel/finish", "status_writes": fmtLog(lines), "cancel_reply": reply})
	}
}

// raceCancelFinishHeld: the same window opened deterministically: the harness takes the unit's
// status.lock (as a slow reader would) right after the runner's first "Running" write and holds it
// while the command exits: the runner leaves its loop and waits for the lock to write Succeeded.
// work cancel is issued (its SIGINT is swallowed, Cancel waits for the runner), the lock released.
func raceCancelFinishHeld(c *Ctx, im *Impl, cf *CaseFile, n *Node, daemonPids map[int]bool, attempt int) {
	script := "echo a; sleep 0.38; echo b"
	unit, _, err := Submit(n.Sock, map[string]interface{}{"worktype": "sh", "params": shQuote(script)}, []byte("x"), tmo)
	if err != nil {
		im.Violate("submit failed: "+err.Error(), "c13-submit-failed", nil)
		return
	}
	_, det, pid, ok := waitDisk(n, unit, 3*time.Second, func(st int, det string, pid int) bool { return st == 1 && pid > 0 })
	if !ok {
		im.Hist("race:cancel-finish-held:not-reached")
		return
	}
	child := childPidOf(det)
	lf, err := os.OpenFile(filepath.Join(n.UnitDir(unit), "status.lock"), os.O_WRONLY|os.O_CREATE, 0o600)
	Must(err)
	Must(syscall.Flock(int(lf.Fd()), syscall.LOCK_EX))
	WaitFor(2*time.Second, func() bool { return !running(child) })
	time.Sleep(60 * time.Millisecond) // the runner notices the exit and queues for the lock
	done := make(chan string, 1)
	go func() {
		l, _ := OneShot(n.Sock, map[string]interface{}{"command": "work", "subcommand": "cancel", "unitid": unit}, tmo)
		done <- l
	}()
	time.Sleep(120 * time.Millisecond)
	_ = syscall.Flock(int(lf.Fd()), syscall.LOCK_UN)
	_ = lf.Close()
	reply := <-done
	time.Sleep(250 * time.Millisecond)
	lines := unitLog(n, unit)
	ctx := map[string]interface{}{"scenario": "status.lock held by a third process while the command exits; work cancel; lock released", "script": script, "cancel_reply": reply, "runner_pid": pid}
	sawSucceeded := false
	for _, l := range lines {
		if l.New.State == 2 && !daemonPids[l.Pid] {
			sawSucceeded = true
		}
	}
	if sawSucceeded {
		im.Hist("race:cancel-finish-held:runner-wrote-Succeeded-under-a-pending-cancel")
	} else {
		im.Hist("race:cancel-finish-held:window-missed")
	}
	bad := judgeLog(im, unit, lines, false, false, ctx)
	cf.Add("CLog "+coqLog(lines, daemonPids), fmt.Sprintf("race cancel/finish (lock held) attempt %d unit %s | %s", attempt, unit, strings.Join(fmtLog(lines), " ; ")))
	im.Count(fmt.Sprintf("race-cfh %v", fmtLog(lines)), sawSucceeded && bad == 0)
	if st, err := WorkStatus(n.Sock, unit, tmo); err == nil && sawSucceeded {
		if s, _, _, ok := statusOf(st); ok && s != 2 {
			im.Violate(fmt.Sprintf("unit %s succeeded but is reported as %s after cancel", unit, workceptor.WorkStateToString(s)), "c13-succeeded-overwritten", ctx)
		}
	}
	if attempt == 0 {
		im.Sample(map[string]interface{}{"kind": "race cancel/finish (lock held)", "status_writes": fmtLog(lines), "cancel_reply": reply})
	}
}

// raceRestartCancel: daemon killed and restarted while the unit runs; the new daemon is not the
// runner's parent, so Cancel does not wait for it.
func raceRestartCancel(c *Ctx, im *Impl, cf *CaseFile, n *Node, daemonPids map[int]bool, attempt int) {
	script := trap + "echo a; sleep 5 & wait $!; echo b"
	unit, _, err := Submit(n.Sock, map[string]interface{}{"worktype": "sh", "params": shQuote(script)}, []byte("x"), tmo)
	if err != nil {
		im.Violate("submit failed: "+err.Error(), "c13-submit-failed", nil)
		return
	}
	_, _, pid, ok := waitDisk(n, unit, 3*time.Second, func(st int, det string, pid int) bool { return st == 1 && pid > 0 })
	if !ok {
		im.Hist("race:restart-cancel:not-reached")
		return
	}
	n.Kill()
	startNode(n)
	daemonPids[n.Cmd.Process.Pid] = true
	if !waitListed(n, unit, 5*time.Second) {
		im.Violate("unit not listed after restart", "c13-unit-lost-at-restart", nil)
		return
	}
	_ = syscall.Kill(pid, syscall.SIGSTOP)
	reply, _ := OneShot(n.Sock, map[string]interface{}{"command": "work", "subcommand": "cancel", "unitid": unit}, tmo)
	time.Sleep(100 * time.Millisecond)
	_ = syscall.Kill(pid, syscall.SIGCONT)
	WaitFor(3*time.Second, func() bool { return !running(pid) })
	time.Sleep(150 * time.Millisecond)
	lines := unitLog(n, unit)
	ctx := map[string]interface{}{"scenario": "daemon killed and restarted while the unit runs; runner stopped; work cancel; runner continued", "script": script, "cancel_reply": reply}
	judgeLog(im, unit, lines, true, false, ctx)
	cf.Add("CLogR "+coqLog(lines, daemonPids), fmt.Sprintf("restart+cancel attempt %d unit %s | %s", attempt, unit, strings.Join(fmtLog(lines), " ; ")))
	im.Count(fmt.Sprintf("race-rc %v", fmtLog(lines)), true)
	im.Hist("race:restart-cancel")
	if running(pid) || len(sessionMembers(pid)) > 0 {
		time.Sleep(500 * time.Millisecond)
		if running(pid) {
			im.Violate(fmt.Sprintf("unit %s: runner %d still runs after cancel (restarted daemon)", unit, pid), "c13-process-survives-cancel", ctx)
		}
	}
}

// raceRestartPending: daemon killed right after submit (the runner has written "Not started yet"
// and not yet its first "Running") and restarted at once.
func raceRestartPending(c *Ctx, im *Impl, cf *CaseFile, n *Node, daemonPids map[int]bool, attempt int) {
	script := trap + "echo a; sleep 0.9 & wait $!; echo b"
	unit, _, err := Submit(n.Sock, map[string]interface{}{"worktype": "sh", "params": shQuote(script)}, []byte("x"), tmo)
	if err != nil {
		im.Violate("submit failed: "+err.Error(), "c13-submit-failed", nil)
		return
	}
	n.Kill()
	startNode(n)
	daemonPids[n.Cmd.Process.Pid] = true
	if !waitListed(n, unit, 5*time.Second) {
		im.Violate("unit not listed after restart", "c13-unit-lost-at-restart", nil)
		return
	}
	waitDisk(n, unit, 4*time.Second, func(st int, det string, pid int) bool { return st >= 2 && det != "Pending at restart" })
	time.Sleep(200 * time.Millisecond)
	lines := unitLog(n, unit)
	ctx := map[string]interface{}{"scenario": "daemon killed right after work submit and restarted at once", "script": script}
	judgeLog(im, unit, lines, true, false, ctx)
	cf.Add("CLogR "+coqLog(lines, daemonPids), fmt.Sprintf("restart-while-pending attempt %d unit %s | %s", attempt, unit, strings.Join(fmtLog(lines), " ; ")))
	im.Count(fmt.Sprintf("race-rp %v", fmtLog(lines)), true)
	im.Hist("race:restart-while-pending")
}

// restartFinishedCancel: the daemon is killed while the unit runs, the unit finishes, the daemon
// comes back (the record still names the runner's pid) and the unit is cancelled: the signal finds
// no process ("already finished"), nothing may be written, Succeeded stays.
func restartFinishedCancel(c *Ctx, im *Impl, cf *CaseFile, n *Node, daemonPids map[int]bool, attempt int) {
	script := trap + "echo a; sleep 0.7 & wait $!; echo b"
	unit, _, err := Submit(n.Sock, map[string]interface{}{"worktype": "sh", "params": shQuote(script)}, []byte("x"), tmo)
	if err != nil {
		im.Violate("submit failed: "+err.Error(), "c13-submit-failed", nil)
		return
	}
	if _, _, _, ok := waitDisk(n, unit, 3*time.Second, func(st int, det string, pid int) bool { return st == 1 && pid > 0 }); !ok {
		im.Hist("race:restart-finished-cancel:not-reached")
		return
	}
	n.Kill()
	waitDisk(n, unit, 5*time.Second, func(st int, det string, pid int) bool { return st == 2 })
	startNode(n)
	daemonPids[n.Cmd.Process.Pid] = true
	if !waitListed(n, unit, 5*time.Second) {
		im.Violate("unit not listed after restart", "c13-unit-lost-at-restart", nil)
		return
	}
	before := len(unitLog(n, unit))
	reply, rerr := OneShot(n.Sock, map[string]interface{}{"command": "work", "subcommand": "cancel", "unitid": unit}, tmo)
	time.Sleep(200 * time.Millisecond)
	lines := unitLog(n, unit)
	ctx := map[string]interface{}{"scenario": "daemon killed while the unit runs; the unit finishes; daemon restarted; work cancel", "script": script, "cancel_reply": reply}
	if rerr != nil || !strings.Contains(reply, "cancelled") {
		im.Violate(fmt.Sprintf("unit %s: cancel of a finished unit after restart answered %q %v", unit, reply, rerr), "c13-cancel-reply", ctx)
	}
	judgeLog(im, unit, lines, true, false, ctx)
	if st, _, _ := diskStatus(n, unit); st != 2 {
		im.Violate(fmt.Sprintf("unit %s had succeeded; after restart + cancel its stored state is %d", unit, st), "c13-succeeded-overwritten", ctx)
	}
	if st, err := WorkStatus(n.Sock, unit, tmo); err == nil {
		if s, _, _, ok := statusOf(st); ok && s != 2 {
			im.Violate(fmt.Sprintf("unit %s had succeeded; after restart + cancel it is reported as %s", unit, workceptor.WorkStateToString(s)), "c13-succeeded-overwritten", ctx)
		}
	}
	cf.Add("CLogR "+coqLog(lines, daemonPids), fmt.Sprintf("restart, finished, cancel: unit %s | %s", unit, strings.Join(fmtLog(lines), " ; ")))
	im.Count(fmt.Sprintf("race-rfc %v", fmtLog(lines)), true)
	im.Hist(fmt.Sprintf("race:restart-finished-cancel:writes-after-cancel=%d", len(lines)-before))
}

func part2(c *Ctx, im *Impl, cf *CaseFile, tmp string) {
	n := newNode(c, filepath.Join(tmp, "n2"), "n2")
	startNode(n)
	defer func() { n.Stop(); n.KillStrays() }()
	daemonPids := map[int]bool{n.Cmd.Process.Pid: true}
	nCF, nCH, nRC, nRP := 5, 3, 3, 2
	if c.Thorough() {
		nCF, nCH, nRC, nRP = 100, 60, 40, 25
	}
	for i := 0; i < nCH; i++ {
		raceCancelFinishHeld(c, im, cf, n, daemonPids, i)
	}
	for i := 0; i < nCF; i++ {
		raceCancelFinish(c, im, cf, n, daemonPids, i)
	}
	for i := 0; i < nRC; i++ {
		raceRestartCancel(c, im, cf, n, daemonPids, i)
	}
	for i := 0; i < nRP; i++ {
		raceRestartPending(c, im, cf, n, daemonPids, i)
	}
	for i := 0; i < 1+nRP/4; i++ {
		restartFinishedCancel(c, im, cf, n, daemonPids, i)
	}
}

// ---------- part 3: unit IDs ----------

const charset = "0123456789abcdefghijklmnopqrstuvwxyzABCDEFGHIJKLMNOPQRSTUVWXYZ"

type scriptedRand struct {
	mu   sync.Mutex
	q    []byte
	real io.Reader
	used int
}

func (s *scriptedRand) Read(p []byte) (int, error) {
	s.mu.Lock()
	defer s.mu.Unlock()
	for i := range p {
		if len(s.q) == 0 {
			return s.real.Read(p[i:])
		}
		p[i] = s.q[0]
		s.q = s.q[1:]
		s.used++
	}
	return len(p), nil
}

func idBytes(id string) []byte {
	b := make([]byte, len(id))
	for i := range id {
		b[i] = byte(strings.IndexByte(charset, id[i]))
	}
	return b
}

func part3(c *Ctx, im *Impl, cf *CaseFile, tmp string) {
	QuietLogs()
	ctx, cancel := context.WithCancel(context.Background())
	defer cancel()
	nc := netceptor.New(ctx, "idnode")
	dataDir := filepath.Join(tmp, "iddata")
	w, err := workceptor.New(ctx, nc, dataDir)
	Must(err)
	workceptor.MainInstance = w
	Must(w.RegisterWorker("cmd", workceptor.CommandWorkerCfg{WorkType: "cmd", Command: "true"}.NewWorker, false))
	unitRoot := filepath.Join(dataDir, "idnode")
	Must(os.MkdirAll(unitRoot, 0o700))
	r := c.Rng
	names := map[string]uint64{}
	num := func(id string) uint64 {
		if v, ok := names[id]; ok {
			return v
		}
		names[id] = uint64(len(names) + 1)
		return names[id]
	}
	mkID := func() string {
		b := make([]byte, 8)
		for i := range b {
			b[i] = charset[r.Intn(len(charset))]
		}
		return string(b)
	}
	rounds := 40
	if c.Thorough() {
		rounds = 1500
	}
	var index []string        // IDs the workceptor holds
	disk := map[string]bool{} // directories that exist
	for round := 0; round < rounds; round++ {
		// occasionally release something (sequentially), or leave a directory behind
		switch {
		case len(index) > 0 && r.Chance(30):
			i := r.Intn(len(index))
			id := index[i]
			// the Go API other packages use: UnitStatus / CancelUnit on a unit that was never started
			if st, err := w.UnitStatus(id); err != nil || st.State != workceptor.WorkStatePending || st.StdoutSize != 0 {
				im.Violate(fmt.Sprintf("UnitStatus of a freshly allocated unit: %+v %v", st, err), "c13-wrong-final-state", id)
			}
			if err := w.CancelUnit(id); err != nil {
				im.Violate("CancelUnit of a never started unit failed: "+err.Error(), "c13-cancel-reply", id)
			}
			if st, err := w.UnitStatus(id); err != nil || st.State != workceptor.WorkStatePending {
				im.Violate(fmt.Sprintf("CancelUnit of a unit without runner changed its state: %+v %v", st, err), "c13-stage-regress", id)
			}
			if err := w.ReleaseUnit(id, r.Bool()); err != nil {
				im.Violate("release of a never started unit failed: "+err.Error(), "c13-release-reply", id)
			}
			if _, err := os.Stat(filepath.Join(unitRoot, id)); err == nil {
				im.Violate("directory still exists after ReleaseUnit", "c13-release-leaves-directory", id)
			}
			for _, k := range w.ListKnownUnitIDs() {
				if k == id {
					im.Violate("unit still known after ReleaseUnit", "c13-known-after-release", id)
				}
			}
			if _, err := w.UnitStatus(id); err == nil {
				im.Violate("UnitStatus answers for a released unit", "c13-known-after-release", id)
			}
			if err := w.CancelUnit(id); err == nil {
				im.Violate("CancelUnit succeeds on a released unit", "c13-known-after-release", id)
			}
			if err := w.ReleaseUnit(id, true); err == nil {
				im.Violate("ReleaseUnit succeeds on a released unit", "c13-known-after-release", id)
			}
			index = append(index[:i], index[i+1:]...)
			delete(disk, id)
			im.Hist("ids:release")
		case r.Chance(25): // a failed allocation leaves its directory (runtime params not allowed)
			id := mkID()
			crand.Reader = &scriptedRand{q: idBytes(id), real: crand.Reader}
			_, err := w.AllocateUnit("cmd", map[string]string{"params": "not-allowed"})
			crand.Reader = crand.Reader.(*scriptedRand).real
			if err == nil {
				im.Violate("AllocateUnit accepted runtime params it must refuse", "c13-alloc-accepted", id)
			}
			if _, serr := os.Stat(filepath.Join(unitRoot, id)); serr == nil {
				disk[id] = true
				im.Hist("ids:failed-allocation-left-a-directory")
			}
		case r.Chance(25): // a directory nobody knows
			id := mkID()
			Must(os.MkdirAll(filepath.Join(unitRoot, id), 0o700))
			disk[id] = true
			im.Hist("ids:stray-directory")
		}
		// candidate stream: collisions with the index, with directories, among themselves, then fresh ones
		nalloc := r.Range(1, 6)
		var cands []string
		var diskOnly []string
		for id := range disk {
			diskOnly = append(diskOnly, id)
		}
		sort.Strings(diskOnly)
		for k := r.Intn(5); k > 0; k-- {
			switch {
			case len(index) > 0 && r.Chance(40):
				cands = append(cands, index[r.Intn(len(index))])
			case len(diskOnly) > 0 && r.Chance(50):
				cands = append(cands, diskOnly[r.Intn(len(diskOnly))])
			default:
				cands = append(cands, mkID())
			}
		}
		for k := 0; k < nalloc; k++ {
			id := mkID()
			cands = append(cands, id)
			if r.Chance(35) {
				cands = append(cands, id) // the same candidate again: taken by then
			}
		}
		cands = append(cands, mkID(), mkID())
		var q []byte
		for _, id := range cands {
			q = append(q, idBytes(id)...)
		}
		sr := &scriptedRand{q: q, real: crand.Reader}
		crand.Reader = sr
		got := make([]string, nalloc)
		errs := make([]error, nalloc)
		var wg sync.WaitGroup
		start := make(chan struct{})
		for k := 0; k < nalloc; k++ {
			wg.Add(1)
			go func(k int) {
				defer wg.Done()
				<-start
				u, err := w.AllocateUnit("cmd", map[string]string{})
				if err == nil {
					got[k] = u.ID()
				}
				errs[k] = err
			}(k)
		}
		close(start)
		wg.Wait()
		crand.Reader = sr.real
		rec := map[string]interface{}{"candidates": cands, "index_before": append([]string{}, index...), "directories_before": diskOnly, "concurrent_allocations": nalloc, "returned": got}
		// model-independent oracle
		seen := map[string]bool{}
		for k, id := range got {
			if errs[k] != nil {
				im.Violate("AllocateUnit failed: "+errs[k].Error(), "c13-alloc-failed", rec)
				continue
			}
			if seen[id] {
				im.Violate(fmt.Sprintf("two concurrent allocations returned the same unit ID %s", id), "c13-duplicate-id", rec)
			}
			seen[id] = true
			for _, x := range index {
				if x == id {
					im.Violate(fmt.Sprintf("allocation returned %s, the ID of a live unit", id), "c13-duplicate-id", rec)
				}
			}
			if disk[id] {
				im.Violate(fmt.Sprintf("allocation returned %s although a directory of that name existed", id), "c13-id-collides-with-directory", rec)
			}
			if fi, err := os.Stat(filepath.Join(unitRoot, id)); err != nil || !fi.IsDir() {
				im.Violate(fmt.Sprintf("allocated unit %s has no directory", id), "c13-no-directory", rec)
			}
		}
		// Coq case
		toN := func(xs []string) string {
			o := make([]string, len(xs))
			for i, x := range xs {
				o[i] = CoqN(num(x))
			}
			return CoqList(o)
		}
		var diskAll []string
		diskAll = append(diskAll, diskOnly...)
		diskAll = append(diskAll, index...)
		var gotOK []string
		for k, id := range got {
			if errs[k] == nil {
				gotOK = append(gotOK, id)
			}
		}
		cf.Add(fmt.Sprintf("CIds %s %s %s %s %s", toN(cands), toN(index), toN(diskAll), CoqNat(nalloc), toN(gotOK)), fmt.Sprintf("ids round %d: %v", round, rec))
		collisions := 0
		for _, cnd := range cands[:len(cands)-2] {
			for _, x := range index {
				if x == cnd {
					collisions++
				}
			}
			if disk[cnd] {
				collisions++
			}
		}
		im.Count(fmt.Sprintf("ids %v", rec), nalloc >= 2 || collisions > 0)
		im.Hist(fmt.Sprintf("ids:concurrent-allocations=%d", nalloc))
		if collisions > 0 {
			im.Hist("ids:candidate-collides-with-index-or-directory")
		}
		if round < 2 {
			im.Sample(map[string]interface{}{"kind": "ids", "case": rec})
		}
		for k, id := range got {
			if errs[k] == nil {
				index = append(index, id)
			}
		}
	}
}

// ---------- part 4: release against concurrent by-ID requests ----------
//
// "a successful release removes the unit and its files so that it is no longer known": units whose
// directory holds a thousand or two small files (so that RemoveAll takes tens of milliseconds) are
// released by one client while other sessions keep asking for that unit by ID (work status <id>,
// JSON work list with unitid).  After a "released" reply the unit must be unknown to status, absent
// from list, its directory gone - at once and still 200 ms later; a release that fails must leave
// the unit fully known.

type hammerObs struct {
	T0, T1 time.Time
	Op     string
	Reply  string
	Err    error
}

func hammer(n *Node, unit string, which int, stop <-chan struct{}, out *[]hammerObs, mu *sync.Mutex) {
	c, err := DialCtl(n.Sock, tmo)
	if err != nil {
		return
	}
	defer c.Close()
	cmds := []string{
		fmt.Sprintf(`{"command":"work","subcommand":"status","unitid":%q}`, unit),
		fmt.Sprintf(`{"command":"work","subcommand":"list","unitid":%q}`, unit),
	}
	for i := which; ; i++ {
		select {
		case <-stop:
			return
		default:
		}
		o := hammerObs{T0: time.Now(), Op: []string{"status", "list-by-id"}[i%2]}
		o.Reply, o.Err = c.Cmd(cmds[i%2], tmo)
		o.T1 = time.Now()
		mu.Lock()
		*out = append(*out, o)
		mu.Unlock()
		if o.Err != nil {
			return
		}
	}
}

func releaseUnderLookups(c *Ctx, im *Impl, n *Node, round int) {
	unknown := func(s string) bool { return strings.Contains(s, "unknown work unit") }
	unit, _, err := Submit(n.Sock, map[string]interface{}{"worktype": "sh", "params": shQuote("echo done; exit 0")}, []byte("x"), tmo)
	if err != nil {
		im.Violate("submit failed: "+err.Error(), "c13-submit-failed", nil)
		return
	}
	if _, _, _, ok := waitDisk(n, unit, 5*time.Second, func(st int, det string, pid int) bool { return st == 2 }); !ok {
		im.Hist("release-race:unit-did-not-finish")
		return
	}
	time.Sleep(150 * time.Millisecond) // the daemon's waiter goroutine and monitor are done
	nfiles := 1000 + rng4.Intn(1000)
	bulk := filepath.Join(n.UnitDir(unit), "bulk")
	Must(os.MkdirAll(bulk, 0o700))
	for i := 0; i < nfiles; i++ {
		Must(os.WriteFile(filepath.Join(bulk, fmt.Sprintf("f%04d", i)), []byte("x"), 0o600))
	}
	force := round%3 == 2
	sub := "release"
	if force {
		sub = "force-release"
	}
	ctx := map[string]interface{}{"scenario": "work " + sub + " of a finished unit with many files while other sessions ask for the unit by ID", "unit": unit, "files": nfiles}
	var obs []hammerObs
	var mu sync.Mutex
	stop := make(chan struct{})
	var wg sync.WaitGroup
	nh := 2 + round%2
	for h := 0; h < nh; h++ {
		wg.Add(1)
		go func(h int) { defer wg.Done(); hammer(n, unit, h, stop, &obs, &mu) }(h)
	}
	time.Sleep(15 * time.Millisecond)
	t0 := time.Now()
	reply, rerr := OneShot(n.Sock, map[string]interface{}{"command": "work", "subcommand": sub, "unitid": unit}, 30*time.Second)
	t1 := time.Now()
	time.Sleep(30 * time.Millisecond)
	close(stop)
	wg.Wait()
	during := 0
	for _, o := range obs {
		if o.T1.After(t0) && o.T0.Before(t1) {
			during++
		}
	}
	ctx["release_reply"], ctx["release_ms"], ctx["lookups_during_release"] = reply, t1.Sub(t0).Milliseconds(), during
	im.Hist(fmt.Sprintf("release-race:lookups-during-release>=%d", map[bool]int{true: 5, false: 0}[during >= 5]))
	check := func(when string) {
		if l, err := OneShot(n.Sock, map[string]interface{}{"command": "work", "subcommand": "status", "unitid": unit}, tmo); err != nil || !unknown(l) {
			im.Violate(fmt.Sprintf("unit %s: work status %s after the \"released\" reply answers %q %v", unit, when, l, err), "c13-known-after-release", ctx)
		}
		if m, err := WorkList(n.Sock, tmo); err == nil {
			if _, ok := m[unit]; ok {
				im.Violate(fmt.Sprintf("unit %s is in work list %s after the \"released\" reply", unit, when), "c13-known-after-release", ctx)
			}
		}
		if _, err := os.Stat(n.UnitDir(unit)); err == nil {
			im.Violate(fmt.Sprintf("unit %s: directory exists %s after the \"released\" reply", unit, when), "c13-release-leaves-directory", ctx)
		}
	}
	switch {
	case rerr != nil:
		im.Violate(fmt.Sprintf("unit %s: %s got no reply: %v", unit, sub, rerr), "c13-no-reply", ctx)
	case strings.Contains(reply, `"released"`):
		im.Hist("release-race:released")
		check("right")
		for _, o := range obs {
			if o.Err == nil && o.T0.After(t1) && !unknown(o.Reply) {
				im.Violate(fmt.Sprintf("unit %s: %s sent after the \"released\" reply answers %q", unit, o.Op, o.Reply), "c13-known-after-release", ctx)
				break
			}
		}
		time.Sleep(200 * time.Millisecond)
		check("200 ms")
	default:
		// the release failed: the unit must still be there, whole
		im.Hist("release-race:release-failed")
		l, err := OneShot(n.Sock, map[string]interface{}{"command": "work", "subcommand": "status", "unitid": unit}, tmo)
		_, serr := os.Stat(filepath.Join(n.UnitDir(unit), "status"))
		if err != nil || unknown(l) || serr != nil {
			im.Violate(fmt.Sprintf("unit %s: %s failed (%q) but the unit is not fully known any more (status: %q, status file: %v)", unit, sub, reply, l, serr), "c13-failed-release-forgets-unit", ctx)
		} else {
			im.Violate(fmt.Sprintf("unit %s: %s of a finished unit failed: %q", unit, sub, reply), "c13-release-reply", ctx)
		}
	}
	for _, o := range obs {
		if o.Err != nil {
			im.Violate(fmt.Sprintf("unit %s: %s during the release got no reply: %v", unit, o.Op, o.Err), "c13-no-reply", ctx)
			break
		}
	}
	im.Count(fmt.Sprintf("release-race %s %d %d", unit, nfiles, during), during >= 5)
	if round == 0 {
		im.Sample(ctx)
	}
}

var rng4 *Rng // part 4 runs next to the other parts: its own stream, derived from the seed

// releaseDuringLaunch: the unit is force-released (or released) at the moment its runner is being
// launched (the submitter holds stdin open; the release is fired a few milliseconds after the end
// of input, swept over the launch window; many files make RemoveAll slow enough to overlap the
// runner's first status write).  Before /repo a6deca5 Cancel could not see a runner whose pid was
// not recorded yet: the runner wrote a fresh status file into the directory being removed and the
// released unit was registered again by the next request for it.
func releaseDuringLaunch(c *Ctx, im *Impl, n *Node, k int) {
	unknown := func(s string) bool { return strings.Contains(s, "unknown work unit") }
	conn, err := DialCtl(n.Sock, tmo)
	if err != nil {
		return
	}
	defer conn.Close()
	b, _ := json.Marshal(map[string]interface{}{"command": "work", "subcommand": "submit", "node": "localhost", "worktype": "sh", "params": shQuote("echo hi; sleep 0.2")})
	l, err := conn.Cmd(string(b), tmo)
	i := strings.Index(l, "with ID ")
	if err != nil || i < 0 {
		im.Violate(fmt.Sprintf("submit failed: %v %s", err, l), "c13-submit-failed", nil)
		return
	}
	unit := strings.TrimSuffix(strings.Fields(l[i+8:])[0], ".")
	bulk := filepath.Join(n.UnitDir(unit), "bulk")
	Must(os.MkdirAll(bulk, 0o700))
	for j := 0; j < 3000; j++ {
		_ = os.WriteFile(filepath.Join(bulk, fmt.Sprintf("f%04d", j)), nil, 0o600)
	}
	sub := []string{"force-release", "release"}[k%2]
	delay := time.Duration(2000+(k%16)*500) * time.Microsecond
	ctx := map[string]interface{}{"scenario": "work " + sub + " fired while the unit's runner is being launched", "unit": unit, "delay_us": delay.Microseconds()}
	done := make(chan string, 1)
	go func() {
		time.Sleep(delay)
		r, _ := OneShot(n.Sock, map[string]interface{}{"command": "work", "subcommand": sub, "unitid": unit}, 40*time.Second)
		done <- r
	}()
	_ = conn.Send([]byte("x"))
	_ = conn.CloseWrite()
	_, _ = conn.ReadLine(tmo)
	reply := <-done
	ctx["reply"] = reply
	time.Sleep(600 * time.Millisecond) // a surviving runner would have written by now
	if strings.Contains(reply, "released") {
		_, serr := os.Stat(n.UnitDir(unit))
		st, _ := OneShot(n.Sock, map[string]interface{}{"command": "work", "subcommand": "status", "unitid": unit}, tmo)
		if serr == nil {
			im.Violate(fmt.Sprintf("unit %s: its directory exists 600 ms after %s answered %q", unit, sub, reply), "c13-release-leaves-directory", ctx)
		}
		if !unknown(st) {
			im.Violate(fmt.Sprintf("unit %s is known again after %s answered %q: work status says %q", unit, sub, reply, st), "c13-known-after-release", ctx)
		}
		if ps := procsWithMarker("unitdir=" + n.UnitDir(unit)); len(ps) > 0 {
			im.Violate(fmt.Sprintf("unit %s: runner %v alive after %s", unit, ps, sub), "c13-process-survives-cancel", ctx)
		}
	} else {
		_, _ = OneShot(n.Sock, map[string]interface{}{"command": "work", "subcommand": "force-release", "unitid": unit}, 40*time.Second)
	}
	_ = os.RemoveAll(n.UnitDir(unit))
	im.Count(fmt.Sprintf("release-during-launch %s %d", sub, k), strings.Contains(reply, "released"))
	im.Hist("release-during-launch:" + sub)
}

// releaseThatFails: a file that cannot be removed (immutable attribute) makes RemoveAll fail: the
// release retries and then answers with an error; the unit must not be reported released, must stay
// known, and a release after the obstacle is gone must remove it completely.
func releaseThatFails(c *Ctx, im *Impl, n *Node) {
	unknown := func(s string) bool { return strings.Contains(s, "unknown work unit") }
	unit, _, err := Submit(n.Sock, map[string]interface{}{"worktype": "sh", "params": shQuote("echo done; exit 0")}, []byte("x"), tmo)
	if err != nil {
		im.Violate("submit failed: "+err.Error(), "c13-submit-failed", nil)
		return
	}
	waitDisk(n, unit, 5*time.Second, func(st int, det string, pid int) bool { return st == 2 })
	time.Sleep(150 * time.Millisecond)
	pin := filepath.Join(n.UnitDir(unit), "pinned")
	Must(os.WriteFile(pin, []byte("x"), 0o600))
	if out, err := exec.Command("chattr", "+i", pin).CombinedOutput(); err != nil {
		im.Hist("release-fails:chattr-unavailable " + strings.TrimSpace(string(out)))
		_, _ = OneShot(n.Sock, map[string]interface{}{"command": "work", "subcommand": "release", "unitid": unit}, tmo)
		return
	}
	defer func() { _ = exec.Command("chattr", "-i", pin).Run() }()
	ctx := map[string]interface{}{"scenario": "work release of a unit whose directory holds a file that cannot be removed", "unit": unit}
	reply, rerr := OneShot(n.Sock, map[string]interface{}{"command": "work", "subcommand": "release", "unitid": unit}, 30*time.Second)
	ctx["first_reply"] = reply
	if rerr != nil || strings.Contains(reply, "released") || !strings.HasPrefix(reply, "ERROR") {
		im.Violate(fmt.Sprintf("unit %s: release answered %q %v although its directory cannot be removed", unit, reply, rerr), "c13-release-leaves-directory", ctx)
	}
	if l, err := OneShot(n.Sock, map[string]interface{}{"command": "work", "subcommand": "status", "unitid": unit}, tmo); err != nil || unknown(l) {
		im.Violate(fmt.Sprintf("unit %s: after a FAILED release work status answers %q %v", unit, l, err), "c13-failed-release-forgets-unit", ctx)
	}
	_ = exec.Command("chattr", "-i", pin).Run()
	reply, rerr = OneShot(n.Sock, map[string]interface{}{"command": "work", "subcommand": "release", "unitid": unit}, 30*time.Second)
	ctx["second_reply"] = reply
	_, serr := os.Stat(n.UnitDir(unit))
	l, _ := OneShot(n.Sock, map[string]interface{}{"command": "work", "subcommand": "status", "unitid": unit}, tmo)
	if rerr != nil || !strings.Contains(reply, "released") || serr == nil || !unknown(l) {
		im.Violate(fmt.Sprintf("unit %s: release after the obstacle was removed answered %q %v; directory exists: %v; status: %q", unit, reply, rerr, serr == nil, l), "c13-release-leaves-directory", ctx)
	}
	im.Count("release-fails "+unit, true)
	im.Hist("release-fails:retried-and-reported")
}

func part4(c *Ctx, im *Impl, tmp string) {
	rng4 = NewRng(c.Seed + 4000)
	n := newNode(c, filepath.Join(tmp, "n3"), "n3")
	startNode(n)
	defer func() { n.Stop(); n.KillStrays() }()
	rounds := 10
	if c.Thorough() {
		rounds = 120
	}
	for i := 0; i < rounds; i++ {
		releaseUnderLookups(c, im, n, i)
	}
	releaseThatFails(c, im, n)
	nLaunch := 6
	if c.Thorough() {
		nLaunch = 150
	}
	for i := 0; i < nLaunch; i++ {
		releaseDuringLaunch(c, im, n, i)
	}
	if !n.Alive() {
		im.Violate("the daemon died during releases: "+n.ExitState(), "c13-daemon-died", nil)
	}
}

// ---------- part 5: commands that ignore SIGINT/SIGTERM ----------
//
// "cancelling stops the unit's process": termThenKill sends SIGINT and, after a grace period of
// 10 s, SIGKILL.  The unit's command ignores SIGINT and SIGTERM (and execs, so that it is one
// process carrying a unique marker as argv[0]); it is cancelled / released / force-released while
// Running.  Oracle: within 1.5 s after the reply no live process carries the marker (neither the
// command nor the runner, whose command line holds the script).

func procsWithMarker(marker string) []int {
	var out []int
	ents, _ := os.ReadDir("/proc")
	for _, e := range ents {
		pid, err := strconv.Atoi(e.Name())
		if err != nil || pid == os.Getpid() {
			continue
		}
		b, err := os.ReadFile("/proc/" + e.Name() + "/cmdline")
		if err != nil || !strings.Contains(string(b), marker) {
			continue
		}
		if running(pid) {
			out = append(out, pid)
		}
	}
	return out
}

const graceSeconds = 10 // command.go termThenKill

func ignoringUnit(c *Ctx, im *Impl, cf *CaseFile, n *Node, daemonPids map[int]bool, sub string, k int, mu *sync.Mutex) {
	marker := fmt.Sprintf("c13ign-%d-%d-%s", os.Getpid(), k, sub)
	script := fmt.Sprintf("trap '' INT TERM; echo started; exec -a %s sleep 60", marker)
	ctx := map[string]interface{}{"scenario": "work " + sub + " of a Running unit whose command ignores SIGINT and SIGTERM", "script": script}
	defer func() {
		for _, p := range procsWithMarker(marker) {
			_ = syscall.Kill(p, syscall.SIGKILL)
		}
	}()
	unit, _, err := Submit(n.Sock, map[string]interface{}{"worktype": "sh", "params": shQuote(script)}, []byte("x"), tmo)
	mu.Lock()
	defer mu.Unlock()
	if err != nil {
		im.Violate("submit failed: "+err.Error(), "c13-submit-failed", ctx)
		return
	}
	mu.Unlock()
	_, _, pid, ok := waitDisk(n, unit, 5*time.Second, func(st int, det string, pid int) bool { return st == 1 && pid > 0 })
	started := WaitFor(3*time.Second, func() bool {
		for _, p := range procsWithMarker(marker) {
			if b, _ := os.ReadFile(fmt.Sprintf("/proc/%d/cmdline", p)); strings.HasPrefix(string(b), marker) {
				return true
			}
		}
		return false
	})
	t0 := time.Now()
	reply, rerr := OneShot(n.Sock, map[string]interface{}{"command": "work", "subcommand": sub, "unitid": unit}, time.Duration(graceSeconds+15)*time.Second)
	took := time.Since(t0)
	var left []int
	gone := WaitFor(1500*time.Millisecond, func() bool { left = procsWithMarker(marker); return len(left) == 0 })
	time.Sleep(200 * time.Millisecond)
	lines := unitLog(n, unit)
	mu.Lock()
	ctx["unit"], ctx["reply"], ctx["reply_after_ms"], ctx["runner_pid"] = unit, reply, took.Milliseconds(), pid
	if !ok || !started {
		im.Hist("ignore-sigint:not-reached")
		return
	}
	want := map[string]string{"cancel": `"cancelled"`, "release": `"released"`, "force-release": `"released"`}[sub]
	if rerr != nil || !strings.Contains(reply, want) {
		im.Violate(fmt.Sprintf("unit %s: %s of a unit whose command ignores SIGINT answered %q %v after %d ms", unit, sub, reply, rerr, took.Milliseconds()), "c13-cancel-reply", ctx)
	}
	if !gone {
		cmd, _ := os.ReadFile(fmt.Sprintf("/proc/%d/cmdline", left[0]))
		im.Violate(fmt.Sprintf("unit %s: %d ms after %s was answered (%q, %d ms after the request) process %d of the unit is still alive: %q",
			unit, 1500, sub, reply, took.Milliseconds(), left[0], strings.ReplaceAll(string(cmd), "\x00", " ")), "c13-process-survives-cancel", ctx)
	}
	bad := judgeLog(im, unit, lines, false, sub != "cancel", ctx)
	cf.Add("CLog "+coqLog(lines, daemonPids), fmt.Sprintf("command ignoring SIGINT, %s, unit %s | %s", sub, unit, strings.Join(fmtLog(lines), " ; ")))
	if sub != "cancel" {
		if _, err := os.Stat(n.UnitDir(unit)); err == nil {
			im.Violate(fmt.Sprintf("unit %s: directory still exists after %s", unit, sub), "c13-release-leaves-directory", ctx)
		}
	}
	// non-trivial: the escalation really happened (the reply had to wait for the grace period)
	im.Count(fmt.Sprintf("ignore-sigint %s %v", sub, fmtLog(lines)), took >= (graceSeconds-1)*time.Second && bad == 0)
	im.Hist("ignore-sigint:" + sub)
	if took >= (graceSeconds-1)*time.Second {
		im.Hist("ignore-sigint:reply-waited-for-the-grace-period")
	}
	if k == 0 {
		im.Sample(map[string]interface{}{"kind": "command ignoring SIGINT", "op": sub, "reply_after_ms": took.Milliseconds(), "status_writes": fmtLog(lines)})
	}
}

func part5(c *Ctx, im *Impl, cf *CaseFile, tmp string) {
	n := newNode(c, filepath.Join(tmp, "n4"), "n4")
	startNode(n)
	defer func() { n.Stop(); n.KillStrays() }()
	daemonPids := map[int]bool{n.Cmd.Process.Pid: true}
	subs := []string{"cancel", "release", "force-release"}
	if c.Thorough() {
		subs = append(subs, subs...)
		subs = append(subs, subs...)
	}
	var mu sync.Mutex
	var wg sync.WaitGroup
	for k, sub := range subs {
		wg.Add(1)
		go func(k int, sub string) {
			defer wg.Done()
			time.Sleep(time.Duration(k*150) * time.Millisecond)
			ignoringUnit(c, im, cf, n, daemonPids, sub, k, &mu)
		}(k, sub)
	}
	wg.Wait()
}

// ---------- part 6: the runner cannot be launched ----------
//
// commandUnit.Start launches os.Args[0] as the runner.  The daemon runs from a private copy of
// the binary which is removed after start-up: Start fails, the submit path records Failed twice
// ("Failed to start command runner", "Error starting worker") - the model's SStartErr branch.
func part6(c *Ctx, im *Impl, cf *CaseFile, tmp string) {
	dir := filepath.Join(tmp, "n5")
	Must(os.MkdirAll(dir, 0o755))
	binCopy := filepath.Join(dir, "receptor-copy")
	b, err := os.ReadFile(c.Bin)
	Must(err)
	Must(os.WriteFile(binCopy, b, 0o755))
	n := NewNode(binCopy, "n5", dir, workTypes())
	n.Env = []string{"VERIF_STATUS_LOG=" + filepath.Join(dir, "status.log")}
	startNode(n)
	defer func() { n.Stop(); n.KillStrays() }()
	daemonPids := map[int]bool{n.Cmd.Process.Pid: true}
	Must(os.Remove(binCopy))
	rounds := 3
	if c.Thorough() {
		rounds = 12
	}
	for i := 0; i < rounds; i++ {
		unit, _, err := Submit(n.Sock, map[string]interface{}{"worktype": "sh", "params": shQuote("echo never")}, []byte("x"), tmo)
		ctx := map[string]interface{}{"scenario": "work submit when the runner binary cannot be executed", "unit": unit, "submit_error": fmt.Sprint(err)}
		if err == nil || unit == "" {
			im.Violate(fmt.Sprintf("work submit answered success (unit %q) although the runner cannot be launched", unit), "c13-start-failure-not-reported", ctx)
			continue
		}
		time.Sleep(100 * time.Millisecond)
		lines := unitLog(n, unit)
		bad := judgeLog(im, unit, lines, false, false, ctx)
		cf.Add("CLog "+coqLog(lines, daemonPids), fmt.Sprintf("runner cannot be launched, unit %s | %s", unit, strings.Join(fmtLog(lines), " ; ")))
		st, serr := WorkStatus(n.Sock, unit, tmo)
		if s, _, _, ok := statusOf(st); serr != nil || !ok || s != 3 {
			im.Violate(fmt.Sprintf("unit %s whose runner could not be launched is reported as %v %v", unit, st, serr), "c13-wrong-final-state", ctx)
		}
		if len(lines) == 0 || lines[len(lines)-1].New.State != 3 {
			im.Violate(fmt.Sprintf("unit %s whose runner could not be launched is not recorded as Failed", unit), "c13-wrong-final-state", ctx)
		}
		sub := []string{"release", "cancel", "force-release"}[i%3]
		reply, _ := OneShot(n.Sock, map[string]interface{}{"command": "work", "subcommand": sub, "unitid": unit}, tmo)
		if sub != "cancel" {
			if _, err := os.Stat(n.UnitDir(unit)); err == nil || !strings.Contains(reply, "released") {
				im.Violate(fmt.Sprintf("unit %s: %s answered %q, directory exists: %v", unit, sub, reply, err == nil), "c13-release-leaves-directory", ctx)
			}
		} else if after := unitLog(n, unit); len(after) > 0 && after[len(after)-1].New.State != 3 {
			im.Violate(fmt.Sprintf("unit %s: cancel of a unit that never had a runner changed its state to %d", unit, after[len(after)-1].New.State), "c13-stage-regress", ctx)
		}
		im.Count(fmt.Sprintf("start-failure %v", fmtLog(lines)), bad == 0)
		im.Hist("start-failure:" + sub)
		if i == 0 {
			im.Sample(map[string]interface{}{"kind": "runner cannot be launched", "submit_error": fmt.Sprint(err), "status_writes": fmtLog(lines)})
		}
	}
}

// ---------- part 7: remote units ----------
//
// Node ra submits to node rb (TCP link).  The record of the remote unit on ra mirrors rb's; its
// writers (remote_work.go) are not modelled, the property's relation is judged on every write:
// chain + allowed transitions, monotone reports, release removes the unit on BOTH nodes, cancel
// stops the process on rb, force-release works locally when rb is unreachable.

func freePort() int {
	l, err := net.Listen("tcp", "127.0.0.1:0")
	Must(err)
	defer l.Close()
	return l.Addr().(*net.TCPAddr).Port
}

func coqLogA(lines []logLine) string {
	es := make([]string, len(lines))
	for i, l := range lines {
		es[i] = fmt.Sprintf("(Daemon, KSame, %s, %s)", coqRec(l.Old), coqRec(l.New))
	}
	return CoqList(es)
}

func part7(c *Ctx, im *Impl, cf *CaseFile, tmp string) {
	port := freePort()
	rb := NewNode(c.Bin, "rb", filepath.Join(tmp, "rb"), fmt.Sprintf("- tcp-listener:\n    port: %d\n", port)+workTypes())
	rb.Env = []string{"VERIF_STATUS_LOG=" + filepath.Join(rb.Dir, "status.log")}
	ra := NewNode(c.Bin, "ra", filepath.Join(tmp, "ra"), fmt.Sprintf("- tcp-peer:\n    address: 127.0.0.1:%d\n", port)+workTypes())
	ra.Env = []string{"VERIF_STATUS_LOG=" + filepath.Join(ra.Dir, "status.log")}
	startNode(rb)
	startNode(ra)
	defer func() { ra.Stop(); rb.Stop(); ra.KillStrays(); rb.KillStrays() }()
	rbPids := map[int]bool{rb.Cmd.Process.Pid: true}
	// wait for the route
	if !WaitFor(15*time.Second, func() bool {
		l, err := OneShot(ra.Sock, map[string]interface{}{"command": "ping", "target": "rb"}, 3*time.Second)
		return err == nil && strings.Contains(l, "Success")
	}) {
		im.Hist("remote:no-route")
		return
	}
	unknown := func(s string) bool { return strings.Contains(s, "unknown work unit") }
	remoteID := func(unit string) string {
		b, _ := os.ReadFile(filepath.Join(ra.UnitDir(unit), "status"))
		var s struct{ ExtraData struct{ RemoteUnitID string } }
		_ = json.Unmarshal(b, &s)
		return s.ExtraData.RemoteUnitID
	}
	type scen struct{ name string }
	run := func(k int, name string) {
		marker := fmt.Sprintf("c13rem-%d-%d", os.Getpid(), k)
		dur := "1.2"
		if name != "complete" {
			dur = "30"
		}
		script := fmt.Sprintf("%secho start; exec -a %s sleep %s", "", marker, dur)
		if name == "complete" {
			script = trap + "echo start; sleep 1.2 & wait $!; echo end"
		}
		ctx := map[string]interface{}{"scenario": "remote unit (ra -> rb): " + name, "script": script}
		defer func() {
			for _, p := range procsWithMarker(marker) {
				_ = syscall.Kill(p, syscall.SIGKILL)
			}
		}()
		unit, _, err := Submit(ra.Sock, map[string]interface{}{"node": "rb", "worktype": "sh", "params": shQuote(script)}, []byte("x"), tmo)
		if err != nil {
			im.Violate("remote submit failed: "+err.Error(), "c13-submit-failed", ctx)
			return
		}
		ctx["unit"] = unit
		// watch what ra reports
		var reports []snap
		stopW := make(chan struct{})
		var wgw sync.WaitGroup
		wgw.Add(1)
		go func() {
			defer wgw.Done()
			for {
				select {
				case <-stopW:
					return
				default:
				}
				if st, err := WorkStatus(ra.Sock, unit, 3*time.Second); err == nil {
					if s, z, _, ok := statusOf(st); ok {
						reports = append(reports, snap{State: s, StdoutSize: z})
					}
				}
				time.Sleep(60 * time.Millisecond)
			}
		}()
		reached := WaitFor(8*time.Second, func() bool { st, _, _ := diskStatus(ra, unit); return st >= 1 })
		rid := ""
		WaitFor(3*time.Second, func() bool { rid = remoteID(unit); return rid != "" })
		ctx["remote_unit"] = rid
		switch name {
		case "complete":
			WaitFor(10*time.Second, func() bool { st, _, _ := diskStatus(ra, unit); return st >= 2 })
			var b []byte
			WaitFor(8*time.Second, func() bool { // the output is copied by its own goroutine
				b, _ = os.ReadFile(filepath.Join(ra.UnitDir(unit), "stdout"))
				return string(b) == "start\nend\n"
			})
			st, _, _ := diskStatus(ra, unit)
			if st != 2 || string(b) != "start\nend\n" {
				im.Violate(fmt.Sprintf("remote unit %s ended on ra as state %d with stdout %q", unit, st, string(b)), "c13-wrong-final-state", ctx)
			}
		case "cancel":
			if reached {
				WaitFor(3*time.Second, func() bool { return len(procsWithMarker(marker)) > 0 })
				reply, _ := OneShot(ra.Sock, map[string]interface{}{"command": "work", "subcommand": "cancel", "unitid": unit}, tmo)
				ctx["cancel_reply"] = reply
				if !WaitFor(6*time.Second, func() bool { return len(procsWithMarker(marker)) == 0 }) {
					im.Violate(fmt.Sprintf("remote unit %s: 6 s after work cancel on ra (%q) its process on rb still runs", unit, reply), "c13-process-survives-cancel", ctx)
				}
				WaitFor(5*time.Second, func() bool { st, _, _ := diskStatus(ra, unit); return st >= 2 })
			}
		case "unreachable":
			rb.Kill()
			time.Sleep(200 * time.Millisecond)
		}
		close(stopW)
		wgw.Wait()
		// release
		sub := "release"
		if name == "unreachable" {
			sub = "force-release"
		}
		reply, rerr := OneShot(ra.Sock, map[string]interface{}{"command": "work", "subcommand": sub, "unitid": unit}, 40*time.Second)
		ctx["release_reply"] = reply
		if rerr != nil || !strings.Contains(reply, "released") {
			im.Violate(fmt.Sprintf("remote unit %s: %s on ra answered %q %v", unit, sub, reply, rerr), "c13-release-reply", ctx)
		} else {
			gone := WaitFor(5*time.Second, func() bool {
				_, err := os.Stat(ra.UnitDir(unit))
				l, _ := OneShot(ra.Sock, map[string]interface{}{"command": "work", "subcommand": "status", "unitid": unit}, tmo)
				return err != nil && unknown(l)
			})
			if !gone {
				im.Violate(fmt.Sprintf("remote unit %s is still known on ra or has its directory 5 s after %s answered %q", unit, sub, reply), "c13-known-after-release", ctx)
			}
			if name != "unreachable" && rid != "" {
				if !WaitFor(5*time.Second, func() bool { _, err := os.Stat(rb.UnitDir(rid)); return err != nil }) {
					im.Violate(fmt.Sprintf("remote unit %s: its unit %s on rb still has a directory 5 s after the release on ra", unit, rid), "c13-release-leaves-directory", ctx)
				}
			}
		}
		lines := unitLog(ra, unit)
		bad := judgeLog(im, unit, lines, false, true, ctx)
		cf.Add("CLogA "+coqLogA(lines), fmt.Sprintf("remote unit %s on ra (%s) | %s", unit, name, strings.Join(fmtLog(lines), " ; ")))
		for i := 1; i < len(reports); i++ {
			if cls := allowedGo(reports[i-1], reports[i]); cls != "" {
				im.Violate(fmt.Sprintf("remote unit %s: ra reported (%s,%d) and later (%s,%d)", unit, workceptor.WorkStateToString(reports[i-1].State), reports[i-1].StdoutSize,
					workceptor.WorkStateToString(reports[i].State), reports[i].StdoutSize), "c13-reported-"+cls, ctx)
				break
			}
		}
		if rid != "" && name != "unreachable" {
			rl := unitLog(rb, rid)
			judgeLog(im, rid, rl, false, true, ctx)
			cf.Add("CLog "+coqLog(rl, rbPids), fmt.Sprintf("unit %s on rb, executed for ra's %s (%s) | %s", rid, unit, name, strings.Join(fmtLog(rl), " ; ")))
		}
		im.Count(fmt.Sprintf("remote %s %v", name, fmtLog(lines)), reached && len(lines) >= 4 && bad == 0)
		im.Hist("remote:" + name)
		if name == "complete" {
			im.Sample(map[string]interface{}{"kind": "remote unit", "scenario": name, "status_writes_on_ra": fmtLog(lines), "reports": len(reports)})
		}
	}
	run(0, "complete")
	run(1, "cancel")
	run(2, "unreachable") // kills rb: last
	// rb is down: a submit stays pending locally; cancel and release are local.  Then rb comes back:
	// nothing of a cancelled or released unit may be created or run there, and the cancelled
	// unit's record must not change any more.
	type nev struct {
		unit, sub, marker string
		nlines          int
		ctx             map[string]interface{}
	}
	var nevs []nev
	for k, sub := range []string{"cancel", "release"} {
		marker := fmt.Sprintf("c13nev-%d-%d", os.Getpid(), k)
		script := fmt.Sprintf("echo never; exec -a %s sleep 20", marker)
		unit, reply, err := Submit(ra.Sock, map[string]interface{}{"node": "rb", "worktype": "sh", "params": shQuote(script)}, []byte("x"), tmo)
		ctx := map[string]interface{}{"scenario": "remote unit whose node is down: " + sub + "; then the node comes back", "unit": unit, "submit_reply": reply}
		if err != nil {
			im.Violate("submit to an unreachable node failed instead of staying pending: "+err.Error(), "c13-submit-failed", ctx)
			continue
		}
		time.Sleep(200 * time.Millisecond)
		l, rerr := OneShot(ra.Sock, map[string]interface{}{"command": "work", "subcommand": sub, "unitid": unit}, 30*time.Second)
		ctx["reply"] = l
		time.Sleep(150 * time.Millisecond)
		lines := unitLog(ra, unit)
		judgeLog(im, unit, lines, false, true, ctx)
		cf.Add("CLogA "+coqLogA(lines), fmt.Sprintf("remote unit %s never started (%s) | %s", unit, sub, strings.Join(fmtLog(lines), " ; ")))
		if sub == "cancel" {
			st, _, _ := diskStatus(ra, unit)
			if rerr != nil || !strings.Contains(l, "cancelled") || stage(st) != 2 {
				im.Violate(fmt.Sprintf("remote unit %s that never started: cancel answered %q %v, stored state %d", unit, l, rerr, st), "c13-cancel-reply", ctx)
			}
		} else {
			_, serr := os.Stat(ra.UnitDir(unit))
			s2, _ := OneShot(ra.Sock, map[string]interface{}{"command": "work", "subcommand": "status", "unitid": unit}, tmo)
			if rerr != nil || !strings.Contains(l, "released") || serr == nil || !unknown(s2) {
				im.Violate(fmt.Sprintf("remote unit %s that never started: release answered %q %v; directory exists: %v; status: %q", unit, l, rerr, serr == nil, s2), "c13-known-after-release", ctx)
			}
		}
		nevs = append(nevs, nev{unit, sub, marker, len(lines), ctx})
		im.Count(fmt.Sprintf("remote never started %s %d", sub, k), len(lines) >= 3)
		im.Hist("remote:never-started-" + sub)
	}
	defer func() {
		for _, nv := range nevs {
			for _, p := range procsWithMarker(nv.marker) {
				_ = syscall.Kill(p, syscall.SIGKILL)
			}
		}
	}()
	// the remote node comes back
	startNode(rb)
	rbUnits := func() map[string]bool {
		m := map[string]bool{}
		ents, _ := os.ReadDir(filepath.Join(rb.DataDir, "rb"))
		for _, e := range ents {
			m[e.Name()] = true
		}
		return m
	}
	before := rbUnits()
	WaitFor(10*time.Second, func() bool {
		l, err := OneShot(ra.Sock, map[string]interface{}{"command": "ping", "target": "rb"}, 3*time.Second)
		return err == nil && strings.Contains(l, "Success")
	})
	watch := 9 * time.Second
	if c.Thorough() {
		watch = 25 * time.Second
	}
	deadline := time.Now().Add(watch)
	reported := map[string]bool{}
	for time.Now().Before(deadline) {
		for _, nv := range nevs {
			if reported[nv.unit] {
				continue
			}
			if ps := procsWithMarker(nv.marker); len(ps) > 0 {
				reported[nv.unit] = true
				im.Violate(fmt.Sprintf("remote unit %s was %sed on ra before its work was started; after rb came back its command runs there (pid %v)", nv.unit, nv.sub, ps), "c13-cancelled-unit-runs", nv.ctx)
			}
		}
		for id := range rbUnits() {
			if !before[id] && !reported["rb:"+id] {
				reported["rb:"+id] = true
				im.Violate(fmt.Sprintf("after rb came back a unit (%s) was created there although every unit submitted for it had been cancelled or released on ra", id), "c13-cancelled-unit-runs", map[string]interface{}{"units": nevs[0].ctx})
			}
		}
		time.Sleep(150 * time.Millisecond)
	}
	for _, nv := range nevs {
		if nv.sub != "cancel" {
			continue
		}
		lines := unitLog(ra, nv.unit)
		st, _, _ := diskStatus(ra, nv.unit)
		b, _ := os.ReadFile(filepath.Join(ra.UnitDir(nv.unit), "status"))
		var sf struct{ ExtraData struct{ RemoteStarted bool } }
		_ = json.Unmarshal(b, &sf)
		if st != 3 || sf.ExtraData.RemoteStarted {
			im.Violate(fmt.Sprintf("remote unit %s cancelled before it started: after rb came back its record says state %d, RemoteStarted=%v", nv.unit, st, sf.ExtraData.RemoteStarted), "c13-cancelled-unit-runs", nv.ctx)
		}
		judgeLog(im, nv.unit, lines, false, true, nv.ctx)
		l, rerr := OneShot(ra.Sock, map[string]interface{}{"command": "work", "subcommand": "release", "unitid": nv.unit}, 30*time.Second)
		_, serr := os.Stat(ra.UnitDir(nv.unit))
		if rerr != nil || !strings.Contains(l, "released") || serr == nil {
			im.Violate(fmt.Sprintf("remote unit %s (cancelled, never started): release answered %q %v; directory exists: %v", nv.unit, l, rerr, serr == nil), "c13-known-after-release", nv.ctx)
		}
		im.Hist("remote:never-started-watched-after-node-came-back")
	}
}

func mergeImpl(im, im2 *Impl) {
	im.Evaluations += im2.Evaluations
	for k := range im2.Distinct {
		if !im.Distinct[k] {
			im.Distinct[k] = true
			im.NonTrivial++
		}
	}
	for k, v := range im2.Histogram {
		im.Histogram[k] += v
	}
	im.Violations = append(im.Violations, im2.Violations...)
	im.Samples = append(im.Samples, im2.Samples...)
}

func runC13(c *Ctx) {
	im := NewImpl("C13", c.Seed, c.Tier)
	im.Rule = "histories: per unit a bash script of 1-4 echo/sleep steps (0-1.3 s, exit 0 or 1-5, 20% with stdin held open) and 1-4 concurrent clients with 1-6 timed commands each (status, list, cancel, release, force-release, results, the same on unknown IDs, and again after the unit's horizon), 8-10 units at a time; non-trivial = daemon AND runner wrote the status record and at least one client command was answered. races: runner stopped/continued around cancel; daemon restart with a live runner. release under lookups: finished units with 1000-2000 extra files are released (every third by force-release) while 2-3 sessions ask for the unit by ID (work status, JSON work list with unitid); non-trivial = at least 5 such requests overlapped the release. commands ignoring SIGINT/SIGTERM: cancelled, released and force-released while Running; non-trivial = the reply had to wait for the 10 s grace period. ids: 1-6 concurrent AllocateUnit calls on a scripted candidate stream with collisions against the index, stray directories and directories of failed allocations; non-trivial = at least 2 concurrent allocations or a colliding candidate. distinct by full spec + status-write sequence."
	cf := &CaseFile{Dir: c.Out, Prop: "C13", Imports: []string{"Model.WorkLife"}, CaseType: "wl_case", CheckFn: "wl_check", PerShard: 60}
	tmp, err := os.MkdirTemp("", "c13-")
	Must(err)
	if os.Getenv("C13_KEEP") == "" {
		defer os.RemoveAll(tmp)
	} else {
		fmt.Fprintln(os.Stderr, "keeping", tmp)
	}
	part3(c, im, cf, tmp)
	// the race scenarios use their own daemon: run them next to the histories
	im2 := NewImpl("C13", c.Seed, c.Tier)
	cf2 := &CaseFile{}
	var wg sync.WaitGroup
	im4 := NewImpl("C13", c.Seed, c.Tier)
	im5 := NewImpl("C13", c.Seed, c.Tier)
	cf5 := &CaseFile{}
	im6 := NewImpl("C13", c.Seed, c.Tier)
	cf6 := &CaseFile{}
	im7 := NewImpl("C13", c.Seed, c.Tier)
	cf7 := &CaseFile{}
	im8 := NewImpl("C13", c.Seed, c.Tier)
	cf8 := &CaseFile{}
	wg.Add(6)
	go func() { defer wg.Done(); part8(c, im8, cf8, tmp) }()
	go func() { defer wg.Done(); part7(c, im7, cf7, tmp) }()
	go func() { defer wg.Done(); part6(c, im6, cf6, tmp) }()
	go func() { defer wg.Done(); part4(c, im4, tmp) }()
	go func() { defer wg.Done(); part2(c, im2, cf2, tmp) }()
	go func() { defer wg.Done(); part5(c, im5, cf5, tmp) }()
	part1(c, im, cf, tmp)
	wg.Wait()
	for i := range cf2.Cases {
		cf.Add(cf2.Cases[i], cf2.Labels[i])
	}
	for i := range cf5.Cases {
		cf.Add(cf5.Cases[i], cf5.Labels[i])
	}
	mergeImpl(im, im2)
	mergeImpl(im, im5)
	for i := range cf6.Cases {
		cf.Add(cf6.Cases[i], cf6.Labels[i])
	}
	mergeImpl(im, im6)
	for i := range cf7.Cases {
		cf.Add(cf7.Cases[i], cf7.Labels[i])
	}
	mergeImpl(im, im7)
	for i := range cf8.Cases {
		cf.Add(cf8.Cases[i], cf8.Labels[i])
	}
	mergeImpl(im, im8)
	mergeImpl(im, im4)
	Must(cf.Write())
	Must(im.Write(c.Out))
}
