package main

// A byte-stream link between two real nodes: each node talks through the public
// ExternalBackend + MessageConnFromNetConn (the real framer and the real ReadMessage loop); in
// between, a shaper re-chunks the bytes of each direction: single bytes, cuts inside the 2-byte
// frame header, several frames coalesced into one read.

import (
	"context"
	"net"
	"sync"
	"time"

	. "verifharness/lib"

	"github.com/ansible/receptor/pkg/netceptor"
)

type tapConn struct {
	netceptor.MessageConn
	tap func([]byte)
}

func (t *tapConn) WriteMessage(ctx context.Context, data []byte) error {
	if t.tap != nil {
		t.tap(append([]byte{}, data...))
	}
	return t.MessageConn.WriteMessage(ctx, data)
}

type shaperStats struct {
	mu       sync.Mutex
	chunks   int
	oneByte  int
	hdrSplit int // chunks ending between the two bytes of a frame header
	straddle int // chunks holding bytes of more than one write (coalesced frames)
	bytes    int
}

// shape copies src to dst in chunks of its own choosing.
func shape(src, dst net.Conn, r *Rng, st *shaperStats) {
	ch := make(chan []byte, 4096)
	go func() {
		buf := make([]byte, 70000)
		for {
			n, err := src.Read(buf)
			if n > 0 {
				ch <- append([]byte{}, buf[:n]...)
			}
			if err != nil {
				close(ch)
				return
			}
		}
	}()
	var pending []byte
	var bounds []int // offsets in pending where a new write of the sender starts
	closed := false
	take := func(b []byte, ok bool) {
		if !ok {
			closed = true
			return
		}
		bounds = append(bounds, len(pending))
		pending = append(pending, b...)
	}
	pullNow := func() {
		for !closed {
			select {
			case b, ok := <-ch:
				take(b, ok)
			default:
				return
			}
		}
	}
	pullWait := func(d time.Duration) {
		select {
		case b, ok := <-ch:
			take(b, ok)
		case <-time.After(d):
		}
	}
	for {
		if len(pending) == 0 {
			if closed {
				_ = dst.Close()
				return
			}
			b, ok := <-ch
			take(b, ok)
			continue
		}
		pullNow()
		lim := len(pending) // what one chunk may carry at most
		if lim > 1500 && r.Chance(90) {
			lim = 300 + r.Intn(1200)
		}
		n := lim
		switch k := r.Intn(20); {
		case k < 6:
			n = 1
		case k < 10:
			n = 1 + r.Intn(3)
		case k < 16:
			n = 1 + r.Intn(min(lim, 400))
		case k < 18: // keep the last byte back so that it travels with the next frame's header
			if lim > 1 {
				n = lim - 1
			}
		}
		if r.Chance(12) { // end the chunk inside the 2-byte header of the next frame in the backlog
			for _, b := range bounds {
				if b+1 < len(pending) && (b > 0 || r.Chance(20)) {
					n = b + 1
					break
				}
			}
		}
		if n > len(pending) {
			n = len(pending)
		}
		if n == len(pending) && r.Chance(30) && !closed { // wait briefly for more, to coalesce frames
			pullWait(300 * time.Microsecond)
			if r.Chance(50) {
				n = len(pending)
			}
		}
		st.mu.Lock()
		st.chunks++
		st.bytes += n
		if n == 1 {
			st.oneByte++
		}
		for _, b := range bounds {
			if b > 0 && b < n {
				st.straddle++
				break
			}
		}
		for _, b := range bounds {
			if b+1 == n {
				st.hdrSplit++
			}
		}
		st.mu.Unlock()
		if _, err := dst.Write(pending[:n]); err != nil {
			_ = src.Close()
			return
		}
		pending = pending[n:]
		nb := bounds[:0]
		for _, b := range bounds {
			if b-n > 0 {
				nb = append(nb, b-n)
			}
		}
		bounds = nb
	}
}

// connectStream joins two real nodes by a re-chunked byte stream.  tapAB sees every message a
// sends to b, tapBA the other direction.
func connectStream(a, b *netceptor.Netceptor, cost float64, r *Rng, st *shaperStats, tapAB, tapBA func([]byte)) error {
	a1, a2 := net.Pipe()
	b1, b2 := net.Pipe()
	go shape(a2, b2, NewRng(r.U64()), st)
	go shape(b2, a2, NewRng(r.U64()), st)
	ba, err := netceptor.NewExternalBackend()
	if err != nil {
		return err
	}
	bb, err := netceptor.NewExternalBackend()
	if err != nil {
		return err
	}
	if err := a.AddBackend(ba, netceptor.BackendConnectionCost(cost)); err != nil {
		return err
	}
	if err := b.AddBackend(bb, netceptor.BackendConnectionCost(cost)); err != nil {
		return err
	}
	// the connection handed to the real node returns, now and then, the bytes it read together with
	// a deadline error (an external connection may do that; io.Reader allows it)
	ba.NewConnection(&tapConn{netceptor.MessageConnFromNetConn(&quirkConn{Conn: a1, rng: NewRng(r.U64())}), tapAB}, true)
	bb.NewConnection(&tapConn{netceptor.MessageConnFromNetConn(&quirkConn{Conn: b1, rng: NewRng(r.U64())}), tapBA}, true)
	return nil
}

type quirkConn struct {
	net.Conn
	rng *Rng
	mu  sync.Mutex
}

func (q *quirkConn) Read(p []byte) (int, error) {
	n, err := q.Conn.Read(p)
	if err == nil && n > 0 {
		q.mu.Lock()
		quirk := q.rng.Chance(15)
		q.mu.Unlock()
		if quirk {
			return n, timeoutErr{}
		}
	}
	return n, err
}
