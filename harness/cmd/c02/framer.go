package main

import (
	"bytes"
	"context"
	"fmt"
	"io"
	"net"
	"time"

	. "verifharness/lib"

	"github.com/ansible/receptor/pkg/framer"
	"github.com/ansible/receptor/pkg/netceptor"
)

// scriptConn is a net.Conn whose Read calls return the scripted chunks one after the other and
// then io.EOF; it records what every Read actually returned.
type scriptConn struct {
	chunks   [][]byte
	returned [][]byte
}

func (s *scriptConn) Read(p []byte) (int, error) {
	if len(s.chunks) == 0 {
		return 0, io.EOF
	}
	c := s.chunks[0]
	n := copy(p, c)
	if n < len(c) {
		s.chunks[0] = c[n:]
	} else {
		s.chunks = s.chunks[1:]
	}
	s.returned = append(s.returned, append([]byte{}, p[:n]...))
	return n, nil
}
func (s *scriptConn) Write(p []byte) (int, error)        { return len(p), nil }
func (s *scriptConn) Close() error                       { return nil }
func (s *scriptConn) LocalAddr() net.Addr                { return nil }
func (s *scriptConn) RemoteAddr() net.Addr               { return nil }
func (s *scriptConn) SetDeadline(t time.Time) error      { return nil }
func (s *scriptConn) SetReadDeadline(t time.Time) error  { return nil }
func (s *scriptConn) SetWriteDeadline(t time.Time) error { return nil }

// chunkings of a byte stream
func cutStream(r *Rng, stream []byte, frameStarts []int, mode int) [][]byte {
	var out [][]byte
	switch mode {
	case 0: // one byte at a time
		for i := range stream {
			out = append(out, stream[i:i+1])
		}
	case 1: // cut inside every 2-byte header, and coalesce the rest with the next header byte
		prev := 0
		for _, s := range frameStarts {
			if s+1 <= len(stream) && s+1 > prev {
				out = append(out, stream[prev:s+1])
				prev = s + 1
			}
		}
		out = append(out, stream[prev:])
	case 2: // everything at once
		out = append(out, stream)
	case 3: // exactly the frames
		for i, s := range frameStarts {
			e := len(stream)
			if i+1 < len(frameStarts) {
				e = frameStarts[i+1]
			}
			if s < e {
				out = append(out, stream[s:e])
			}
		}
	default: // random sizes, with empty reads now and then
		for i := 0; i < len(stream); {
			n := 1 + r.Intn(1+r.Intn(40))
			if r.Chance(15) {
				n = 1 + r.Intn(3)
			}
			if r.Chance(5) {
				n = 1 + r.Intn(5000)
			}
			if i+n > len(stream) {
				n = len(stream) - i
			}
			if r.Chance(4) {
				out = append(out, []byte{})
			}
			out = append(out, stream[i:i+n])
			i += n
		}
	}
	return out
}

func genFrameMsg(r *Rng) []byte {
	switch r.Intn(10) {
	case 0:
		return []byte{}
	case 1:
		return r.Bytes(1)
	case 2:
		return r.Bytes([]int{254, 255, 256, 257, 258}[r.Intn(5)])
	case 3:
		return r.Bytes(500 + r.Intn(1500))
	default:
		return r.Bytes(r.Intn(50))
	}
}

func framerCases(c *Ctx, im *Impl, cf *CaseFile) {
	r := c.Rng
	// --- SendData, with the uint16 boundary
	lens := []int{0, 1, 2, 255, 256, 257, 1000, 65535, 65536}
	if c.Thorough() {
		lens = append(lens, 65537, 65536+258, 131072)
	}
	for i := 0; i < 12; i++ {
		lens = append(lens, r.Intn(600))
	}
	f := framer.New()
	for _, l := range lens {
		m := r.Bytes(l)
		out := f.SendData(m)
		cf.Add(fmt.Sprintf("inr (FSend %s %s)", Hx(m), Hx(out)), fmt.Sprintf("framer SendData len=%d", l))
		im.Count(fmt.Sprintf("senddata %d %x", l, m[:min(l, 16)]), l > 0)
		im.Hist("framer:senddata")
		if l > 65535 {
			im.Hist("framer:senddata>65535")
		}
		if l <= 65535 { // in the property's range: prefix is the length, body identical
			if len(out) != l+2 || int(out[0])+256*int(out[1]) != l || !bytes.Equal(out[2:], m) {
				im.Violate(fmt.Sprintf("SendData of %d bytes is not length prefix + data", l), "framer-senddata", nil)
			}
		}
	}
	// --- operation sequences on one framer object
	nOps := 120
	nStreams := 220
	if c.Thorough() {
		nOps, nStreams = 1200, 2500
	}
	for i := 0; i < nOps; i++ {
		fr := framer.New()
		var stream []byte
		for k := r.Intn(5); k >= 0; k-- {
			stream = append(stream, fr.SendData(genFrameMsg(r))...)
		}
		if r.Chance(15) {
			stream = append(stream, r.Bytes(r.Intn(4))...) // garbage tail: an incomplete next frame
		}
		var ops []string
		chunks := cutStream(r, stream, nil, 4)
		ci := 0
		for steps := 0; steps < 60 && (ci < len(chunks) || steps < 10); steps++ {
			switch k := r.Intn(10); {
			case k < 4 && ci < len(chunks):
				fr.RecvData(chunks[ci])
				ops = append(ops, "FFeed "+Hx(chunks[ci]))
				ci++
			case k < 6:
				ops = append(ops, "FReady "+CoqBool(fr.MessageReady()))
			default:
				m, err := fr.GetMessage()
				if err != nil {
					ops = append(ops, "FGet None")
				} else {
					ops = append(ops, "FGet (Some "+Hx(append([]byte{}, m...))+")")
				}
			}
		}
		cf.Add("inr (FOps "+CoqList(ops)+")", fmt.Sprintf("framer ops stream=%x", stream[:min(len(stream), 64)]))
		im.Count(fmt.Sprintf("fops %x %d", stream, len(ops)), len(stream) > 2)
		im.Hist("framer:op-sequence")
	}
	// --- the real ReadMessage loop over scripted chunkings
	for i := 0; i < nStreams; i++ {
		fr := framer.New()
		var msgs [][]byte
		var stream []byte
		var starts []int
		nm := 1 + r.Intn(6)
		for k := 0; k < nm; k++ {
			m := genFrameMsg(r)
			if i == 0 && k == 0 {
				m = r.Bytes(65535)
			}
			msgs = append(msgs, m)
			starts = append(starts, len(stream))
			stream = append(stream, fr.SendData(m)...)
		}
		cut := len(stream)
		if r.Chance(35) { // the stream ends anywhere
			cut = r.Intn(len(stream) + 1)
			if r.Chance(30) && len(starts) > 1 { // exactly inside a header
				cut = starts[1+r.Intn(len(starts)-1)] + 1
			}
		}
		mode := r.Intn(8)
		if len(stream) > 3000 && mode == 0 {
			mode = 4
		}
		var st2 []int
		for _, s := range starts {
			if s < cut {
				st2 = append(st2, s)
			}
		}
		script := cutStream(r, stream[:cut], st2, mode)
		conn := &scriptConn{chunks: append([][]byte{}, script...)}
		mc := netceptor.MessageConnFromNetConn(conn)
		var got [][]byte
		for {
			m, err := mc.ReadMessage(context.Background(), time.Second)
			if err != nil {
				break
			}
			got = append(got, append([]byte{}, m...))
			if len(got) > len(msgs)+2 {
				break
			}
		}
		cf.Add(fmt.Sprintf("inr (FStream %s %s)", CoqBytesList(conn.returned), CoqBytesList(got)),
			fmt.Sprintf("framer stream msgs=%d cut=%d/%d mode=%d", nm, cut, len(stream), mode))
		split, coalesced := false, false
		for _, ch := range conn.returned {
			_ = ch
		}
		pos := 0
		for _, ch := range conn.returned {
			inside := 0
			for _, s := range starts {
				if s > pos && s < pos+len(ch) {
					inside++
				}
			}
			if inside > 0 {
				coalesced = true
			}
			pos += len(ch)
			isStart := false
			for _, s := range starts {
				if s == pos {
					isStart = true
				}
			}
			if !isStart && pos != cut {
				split = true
			}
		}
		im.Count(fmt.Sprintf("fstream %x %v", stream[:cut], lensOf(conn.returned)), split || coalesced)
		im.Hist(fmt.Sprintf("framer:stream-mode%d", mode))
		if cut < len(stream) {
			im.Hist("framer:stream-cut")
		}
		if i < 2 {
			im.Sample(map[string]interface{}{"kind": "framer-stream", "messages": lensOf(msgs), "cut": cut, "chunks": lensOf(conn.returned)[:min(len(conn.returned), 20)]})
		}
		// model-independent oracle: exactly the messages whose frames lie completely before the cut
		want := 0
		for k := range msgs {
			end := len(stream)
			if k+1 < len(starts) {
				end = starts[k+1]
			}
			if end <= cut {
				want++
			}
		}
		ok := len(got) == want
		for k := 0; ok && k < want; k++ {
			ok = bytes.Equal(got[k], msgs[k])
		}
		if !ok {
			im.Violate(fmt.Sprintf("ReadMessage over chunking mode %d (cut %d of %d) returned %d messages %v, sent %v", mode, cut, len(stream), len(got), lensOf(got), lensOf(msgs)),
				"framer-chunking", map[string]interface{}{"messages_hex": hexsOf(msgs), "chunks": lensOf(conn.returned), "cut": cut})
		}
	}
}

func lensOf(xs [][]byte) []int {
	o := make([]int, len(xs))
	for i, x := range xs {
		o[i] = len(x)
	}
	return o
}

func hexsOf(xs [][]byte) []string {
	o := make([]string, len(xs))
	for i, x := range xs {
		if len(x) > 64 {
			o[i] = fmt.Sprintf("%x...(%d bytes)", x[:64], len(x))
		} else {
			o[i] = fmt.Sprintf("%x", x)
		}
	}
	return o
}
