package main

import (
	"bytes"
	"context"
	"fmt"
	"io"
	"net"
	"os"
	"strings"
	"time"

	. "verifharness/lib"

	"github.com/ansible/receptor/pkg/framer"
	"github.com/ansible/receptor/pkg/netceptor"
)

// scriptConn is a net.Conn whose Read calls return the scripted chunks one after the other and
// then io.EOF; it records what every Read actually returned.
type scriptConn struct {
	chunks   [][]byte
	returned [][]byte
	// quirks (io.Reader allows all of them): with probability quirk/100 a Read returns its bytes
	// TOGETHER with a timeout error, or no bytes and a timeout; the last bytes may come with io.EOF
	rng      *Rng
	quirk    int
	timeouts int // reads that returned a timeout error
	withData int // ... of which with n > 0
}

type timeoutErr struct{}

func (timeoutErr) Error() string   { return "i/o timeout (scripted)" }
func (timeoutErr) Timeout() bool   { return true }
func (timeoutErr) Temporary() bool { return true }

func (s *scriptConn) Read(p []byte) (int, error) {
	if len(s.chunks) == 0 {
		return 0, io.EOF
	}
	if s.rng != nil && s.rng.Chance(s.quirk/3) { // nothing yet, the deadline passed
		s.timeouts++
		return 0, timeoutErr{}
	}
	c := s.chunks[0]
	n := copy(p, c)
	if n < len(c) {
		s.chunks[0] = c[n:]
	} else {
		s.chunks = s.chunks[1:]
	}
	s.returned = append(s.returned, append([]byte{}, p[:n]...))
	if s.rng != nil {
		if len(s.chunks) == 0 && s.rng.Bool() { // the last bytes together with end of file
			return n, io.EOF
		}
		if s.rng.Chance(s.quirk) { // bytes together with a deadline error
			s.timeouts++
			s.withData++
			if s.rng.Bool() {
				return n, os.ErrDeadlineExceeded
			}
			return n, timeoutErr{}
		}
	}
	return n, nil
}

// readAll calls ReadMessage the way a session reader does, going on after timeouts; after any
// other error it looks once more for messages that were already complete in the framer.
func readAll(mc netceptor.MessageConn, limit int) [][]byte {
	var got [][]byte
	fails := 0
	for len(got) < limit && fails < 2 {
		m, err := mc.ReadMessage(context.Background(), time.Second)
		if err == netceptor.ErrTimeout {
			continue
		}
		if err != nil {
			fails++
			continue
		}
		fails = 0
		got = append(got, append([]byte{}, m...))
	}
	return got
}
func (s *scriptConn) Write(p []byte) (int, error)        { return len(p), nil }
func (s *scriptConn) Close() error                       { return nil }
func (s *scriptConn) LocalAddr() net.Addr                { return nil }
func (s *scriptConn) RemoteAddr() net.Addr               { return nil }
func (s *scriptConn) SetDeadline(t time.Time) error      { return nil }
func (s *scriptConn) SetReadDeadline(t time.Time) error  { return nil }
func (s *scriptConn) SetWriteDeadline(t time.Time) error { return nil }

// chunkings of a byte stream
func cutStream(r *Rng, stream []byte, frameStarts []int, mode int) [][]byte {
	var out [][]byte
	switch mode {
	case 0: // one byte at a time
		for i := range stream {
			out = append(out, stream[i:i+1])
		}
	case 1: // cut inside every 2-byte header, and coalesce the rest with the next header byte
		prev := 0
		for _, s := range frameStarts {
			if s+1 <= len(stream) && s+1 > prev {
				out = append(out, stream[prev:s+1])
				prev = s + 1
			}
		}
		out = append(out, stream[prev:])
	case 2: // everything at once
		out = append(out, stream)
	case 3: // exactly the frames
		for i, s := range frameStarts {
			e := len(stream)
			if i+1 < len(frameStarts) {
				e = frameStarts[i+1]
			}
			if s < e {
				out = append(out, stream[s:e])
			}
		}
	default: // random sizes, with empty reads now and then
		for i := 0; i < len(stream); {
			n := 1 + r.Intn(1+r.Intn(40))
			if r.Chance(15) {
				n = 1 + r.Intn(3)
			}
			if r.Chance(5) {
				n = 1 + r.Intn(5000)
			}
			if i+n > len(stream) {
				n = len(stream) - i
			}
			if r.Chance(4) {
				out = append(out, []byte{})
			}
			out = append(out, stream[i:i+n])
			i += n
		}
	}
	return out
}

func genFrameMsg(r *Rng) []byte {
	switch r.Intn(10) {
	case 0:
		return []byte{}
	case 1:
		return r.Bytes(1)
	case 2:
		return r.Bytes([]int{254, 255, 256, 257, 258}[r.Intn(5)])
	case 3:
		return r.Bytes(500 + r.Intn(1500))
	default:
		return r.Bytes(r.Intn(50))
	}
}

func framerCases(c *Ctx, im *Impl, cf *CaseFile) {
	r := c.Rng
	// --- SendData, with the uint16 boundary
	lens := []int{0, 1, 2, 255, 256, 257, 1000, 65535, 65536}
	if c.Thorough() {
		lens = append(lens, 65537, 65536+258, 131072)
	}
	for i := 0; i < 12; i++ {
		lens = append(lens, r.Intn(600))
	}
	framerBoundaryCases(c, im, cf)
	f := framer.New()
	for _, l := range lens {
		m := r.Bytes(l)
		if l > 2000 {
			m = rampBytes(l, byte(r.Intn(251)))
		}
		var out []byte
		if !safely(im, fmt.Sprintf("SendData of %d bytes", l), func() { out = f.SendData(m) }) {
			continue
		}
		cf.Add(fmt.Sprintf("inr (FSend %s %s)", HxSmart(m), HxSmart(out)), fmt.Sprintf("framer SendData len=%d", l))
		im.Count(fmt.Sprintf("senddata %d %x", l, m[:min(l, 16)]), l > 0)
		im.Hist("framer:senddata")
		if l > 65535 { // outside the property's range: SendData does not refuse, it truncates the length
			im.Hist("framer:senddata>65535")
			if len(out) == l+2 && int(out[0])+256*int(out[1]) == l%65536 {
				im.Extra["observation:SendData-of-64KiB-or-more"] = fmt.Sprintf("SendData(%d bytes) returns %d bytes with length prefix %d (= length mod 65536): not refused, silently truncated", l, len(out), int(out[0])+256*int(out[1]))
			}
		}
		if l <= 65535 { // in the property's range: prefix is the length, body identical
			if len(out) != l+2 || int(out[0])+256*int(out[1]) != l || !bytes.Equal(out[2:], m) {
				im.Violate(fmt.Sprintf("SendData of %d bytes is not length prefix + data", l), "framer-senddata", nil)
			}
		}
	}
	// --- operation sequences on one framer object
	nOps := 120
	nStreams := 220
	if c.Thorough() {
		nOps, nStreams = 1200, 2500
	}
	for i := 0; i < nOps; i++ {
		safely(im, "random RecvData/MessageReady/GetMessage sequence", func() {
			fr := framer.New()
			var stream []byte
			for k := r.Intn(5); k >= 0; k-- {
				stream = append(stream, fr.SendData(genFrameMsg(r))...)
			}
			if r.Chance(15) {
				stream = append(stream, r.Bytes(r.Intn(4))...) // garbage tail: an incomplete next frame
			}
			var ops []string
			chunks := cutStream(r, stream, nil, 4)
			ci := 0
			for steps := 0; steps < 60 && (ci < len(chunks) || steps < 10); steps++ {
				switch k := r.Intn(10); {
				case k < 4 && ci < len(chunks):
					fr.RecvData(chunks[ci])
					ops = append(ops, "FFeed "+Hx(chunks[ci]))
					ci++
				case k < 6:
					ops = append(ops, "FReady "+CoqBool(fr.MessageReady()))
				default:
					m, err := fr.GetMessage()
					if err != nil {
						ops = append(ops, "FGet None")
					} else {
						ops = append(ops, "FGet (Some "+Hx(append([]byte{}, m...))+")")
					}
				}
			}
			cf.Add("inr (FOps "+CoqList(ops)+")", fmt.Sprintf("framer ops stream=%x", stream[:min(len(stream), 64)]))
			im.Count(fmt.Sprintf("fops %x %d", stream, len(ops)), len(stream) > 2)
			im.Hist("framer:op-sequence")
		})
	}
	// --- the real ReadMessage loop over scripted chunkings
	for i := 0; i < nStreams; i++ {
		safely(im, "ReadMessage over a scripted chunking", func() {
			fr := framer.New()
			var msgs [][]byte
			var stream []byte
			var starts []int
			nm := 1 + r.Intn(6)
			for k := 0; k < nm; k++ {
				m := genFrameMsg(r)
				if i == 0 && k == 0 {
					m = rampBytes(65535, 7)
				}
				msgs = append(msgs, m)
				starts = append(starts, len(stream))
				stream = append(stream, fr.SendData(m)...)
			}
			cut := len(stream)
			if r.Chance(35) { // the stream ends anywhere
				cut = r.Intn(len(stream) + 1)
				if r.Chance(30) && len(starts) > 1 { // exactly inside a header
					cut = starts[1+r.Intn(len(starts)-1)] + 1
				}
			}
			mode := r.Intn(8)
			if len(stream) > 3000 && mode == 0 {
				mode = 4
			}
			var st2 []int
			for _, s := range starts {
				if s < cut {
					st2 = append(st2, s)
				}
			}
			script := cutStream(r, stream[:cut], st2, mode)
			conn := &scriptConn{chunks: append([][]byte{}, script...)}
			if i%2 == 1 { // reads that return bytes together with a timeout / EOF, or a bare timeout
				conn.rng, conn.quirk = NewRng(r.U64()), []int{10, 30, 60}[r.Intn(3)]
			}
			mc := netceptor.MessageConnFromNetConn(conn)
			got := readAll(mc, len(msgs)+3)
			if conn.withData > 0 {
				im.Hist("framer:stream-read-returned-bytes-with-a-timeout-error")
			}
			cf.Add(fmt.Sprintf("inr (FStream %s %s)", smartList(conn.returned), smartList(got)),
				fmt.Sprintf("framer stream msgs=%d cut=%d/%d mode=%d", nm, cut, len(stream), mode))
			split, coalesced := false, false
			for _, ch := range conn.returned {
				_ = ch
			}
			pos := 0
			for _, ch := range conn.returned {
				inside := 0
				for _, s := range starts {
					if s > pos && s < pos+len(ch) {
						inside++
					}
				}
				if inside > 0 {
					coalesced = true
				}
				pos += len(ch)
				isStart := false
				for _, s := range starts {
					if s == pos {
						isStart = true
					}
				}
				if !isStart && pos != cut {
					split = true
				}
			}
			im.Count(fmt.Sprintf("fstream %x %v", stream[:cut], lensOf(conn.returned)), split || coalesced)
			im.Hist(fmt.Sprintf("framer:stream-mode%d", mode))
			if cut < len(stream) {
				im.Hist("framer:stream-cut")
			}
			if i < 2 {
				im.Sample(map[string]interface{}{"kind": "framer-stream", "messages": lensOf(msgs), "cut": cut, "chunks": lensOf(conn.returned)[:min(len(conn.returned), 20)]})
			}
			// model-independent oracle: exactly the messages whose frames lie completely before the cut
			want := 0
			for k := range msgs {
				end := len(stream)
				if k+1 < len(starts) {
					end = starts[k+1]
				}
				if end <= cut {
					want++
				}
			}
			ok := len(got) == want
			for k := 0; ok && k < want; k++ {
				ok = bytes.Equal(got[k], msgs[k])
			}
			if !ok {
				im.Violate(fmt.Sprintf("ReadMessage over chunking mode %d (cut %d of %d) returned %d messages %v, sent %v", mode, cut, len(stream), len(got), lensOf(got), lensOf(msgs)),
					"framer-chunking", map[string]interface{}{"messages_hex": hexsOf(msgs), "chunks": lensOf(conn.returned), "cut": cut})
			}
		})
	}
}

func lensOf(xs [][]byte) []int {
	o := make([]int, len(xs))
	for i, x := range xs {
		o[i] = len(x)
	}
	return o
}

func hexsOf(xs [][]byte) []string {
	o := make([]string, len(xs))
	for i, x := range xs {
		if len(x) > 64 {
			o[i] = fmt.Sprintf("%x...(%d bytes)", x[:64], len(x))
		} else {
			o[i] = fmt.Sprintf("%x", x)
		}
	}
	return o
}

// HxSmart prints a byte string as a Coq term, writing long runs of the test pattern
// b, b+1, ... (mod 251) as (ramp n b) (Model/Framer.v) instead of a literal.
func HxSmart(b []byte) string {
	var parts []string
	lit := 0 // start of the pending literal run
	i := 0
	for i < len(b) {
		j := i
		if b[i] < 251 {
			for j+1 < len(b) && b[j+1] == byte((int(b[j])+1)%251) {
				j++
			}
		}
		if j-i+1 >= 48 {
			if lit < i {
				parts = append(parts, Hx(b[lit:i]))
			}
			parts = append(parts, fmt.Sprintf("(ramp %d %d)", j-i+1, b[i]))
			i, lit = j+1, j+1
		} else {
			i = j + 1
		}
	}
	if lit < len(b) || len(parts) == 0 {
		parts = append(parts, Hx(b[lit:]))
	}
	if len(parts) == 1 {
		return parts[0]
	}
	return "(" + strings.Join(parts, " ++ ") + ")%list"
}

func smartList(xs [][]byte) string {
	ys := make([]string, len(xs))
	for i, x := range xs {
		ys[i] = HxSmart(x)
	}
	return CoqList(ys)
}

func rampBytes(n int, start byte) []byte {
	b := make([]byte, n)
	for i := range b {
		b[i] = byte((int(start) + i) % 251)
	}
	return b
}

// safely runs f; a panic inside the framer is an oracle violation, not the end of the harness.
func safely(im *Impl, what string, f func()) (ok bool) {
	defer func() {
		if r := recover(); r != nil {
			im.Violate(fmt.Sprintf("framer panics (%s): %v", what, r), "framer-panic", what)
			ok = false
		}
	}()
	f()
	return true
}

// framerBoundaryCases: frames at the ends and in the middle of the 16-bit length range, through
// SendData / RecvData / MessageReady / GetMessage and through the real ReadMessage loop with every
// chunking class.
func framerBoundaryCases(c *Ctx, im *Impl, cf *CaseFile) {
	r := c.Rng
	for _, L := range []int{0, 1, 2, 0x7fff, 0x8000, 0x8001, 65533, 65534, 65535} {
		m := rampBytes(L, byte(r.Intn(251)))
		tail := rampBytes(3+r.Intn(40), byte(r.Intn(251)))
		what := fmt.Sprintf("frame of %d bytes", L)
		// SendData
		var out, out2 []byte
		if !safely(im, what+", SendData", func() { f := framer.New(); out = f.SendData(m); out2 = f.SendData(tail) }) {
			continue
		}
		cf.Add(fmt.Sprintf("inr (FSend %s %s)", HxSmart(m), HxSmart(out)), "framer boundary SendData "+what)
		im.Count("boundary senddata "+what, true)
		im.Hist("framer:boundary-length")
		if len(out) != L+2 || int(out[0])+256*int(out[1]) != L || !bytes.Equal(out[2:], m) {
			im.Violate("SendData of "+what+" is not length prefix + data", "framer-senddata", nil)
		}
		// round trip through the object, header fed byte by byte, body in two pieces
		safely(im, what+", RecvData/MessageReady/GetMessage", func() {
			fr := framer.New()
			var ops []string
			feed := func(b []byte) { fr.RecvData(b); ops = append(ops, "FFeed "+HxSmart(b)) }
			ready := func() bool { v := fr.MessageReady(); ops = append(ops, "FReady "+CoqBool(v)); return v }
			get := func() ([]byte, bool) {
				g, err := fr.GetMessage()
				if err != nil {
					ops = append(ops, "FGet None")
					return nil, false
				}
				g = append([]byte{}, g...)
				ops = append(ops, "FGet (Some "+HxSmart(g)+")")
				return g, true
			}
			okAll := true
			ready()
			feed(out[:1])
			okAll = okAll && !ready()
			_, g0 := get()
			okAll = okAll && !g0
			feed(out[1:2])
			okAll = okAll && ready() == (L == 0)
			if L > 0 {
				half := 2 + (L-1)/2
				feed(out[2:half])
				okAll = okAll && !ready()
				feed(out[half : len(out)-1])
				okAll = okAll && !ready()
				_, g1 := get()
				okAll = okAll && !g1
				feed(out[len(out)-1:])
				okAll = okAll && ready()
			}
			feed(out2[:len(out2)-1]) // most of the next frame is already there
			g, gok := get()
			okAll = okAll && gok && bytes.Equal(g, m)
			okAll = okAll && !ready()
			feed(out2[len(out2)-1:])
			g, gok = get()
			okAll = okAll && gok && bytes.Equal(g, tail)
			_, g3 := get()
			okAll = okAll && !g3
			cf.Add("inr (FOps "+CoqList(ops)+")", "framer boundary ops "+what)
			im.Count("boundary ops "+what, true)
			if !okAll {
				im.Violate("RecvData/MessageReady/GetMessage round trip of a "+what+" (header byte by byte, body in pieces) does not return the message exactly when it is complete", "framer-roundtrip", what)
			}
		})
		// the real ReadMessage loop, every chunking class
		stream := append(append([]byte{}, out...), out2...)
		starts := []int{0, len(out)}
		for mode := 0; mode <= 4; mode++ {
			var script [][]byte
			switch {
			case mode == 0 && len(stream) > 400: // one byte at a time at both ends, the middle in one piece
				for i := 0; i < 100; i++ {
					script = append(script, stream[i:i+1])
				}
				script = append(script, stream[100:len(stream)-100])
				for i := len(stream) - 100; i < len(stream); i++ {
					script = append(script, stream[i:i+1])
				}
			case mode == 4 && len(stream) > 400: // random sizes up to 5000
				for i := 0; i < len(stream); {
					n := 1 + r.Intn(5000)
					if r.Chance(20) {
						n = 1 + r.Intn(3)
					}
					if i+n > len(stream) {
						n = len(stream) - i
					}
					script = append(script, stream[i:i+n])
					i += n
				}
			default:
				script = cutStream(r, stream, starts, mode)
			}
			safely(im, fmt.Sprintf("%s, ReadMessage, chunking mode %d", what, mode), func() {
				conn := &scriptConn{chunks: append([][]byte{}, script...)}
				if mode%2 == 1 || mode == 4 {
					conn.rng, conn.quirk = NewRng(r.U64()), 30
				}
				mc := netceptor.MessageConnFromNetConn(conn)
				got := readAll(mc, 4)
				cf.Add(fmt.Sprintf("inr (FStream %s %s)", smartList(conn.returned), smartList(got)),
					fmt.Sprintf("framer boundary stream %s mode=%d", what, mode))
				im.Count(fmt.Sprintf("boundary stream %s mode %d %v", what, mode, lensOf(conn.returned)[:min(len(conn.returned), 8)]), true)
				im.Hist(fmt.Sprintf("framer:boundary-stream-mode%d", mode))
				if len(got) != 2 || !bytes.Equal(got[0], m) || !bytes.Equal(got[1], tail) {
					im.Violate(fmt.Sprintf("ReadMessage over chunking mode %d of a %s followed by a %d-byte frame returned %v", mode, what, len(tail), lensOf(got)),
						"framer-chunking", map[string]interface{}{"length": L, "mode": mode, "chunks": lensOf(conn.returned)[:min(len(conn.returned), 40)]})
				}
			})
		}
	}
}
