package main

// Same-node delivery with a sender that re-uses its buffer (added after seeded change C02-B).
// net.PacketConn.WriteTo must have taken what it needs when it returns: the caller may overwrite
// its buffer at once.  A listener on the SAME node that lags behind must still read, for every
// datagram, the bytes the buffer held when that datagram was sent — byte-identical payload,
// each send delivered at most once (C02), whatever the pace of the reader.

import (
	"fmt"
	"time"

	. "verifharness/lib"
)

func sameNodeBufferReuse(c *Ctx, im *Impl) {
	m := NewMesh(FastConsts())
	defer m.Shutdown()
	n := m.AddNode("solo")
	rx, err := n.ListenPacket("rx")
	if err != nil {
		return
	}
	tx, err := n.ListenPacket("tx")
	if err != nil {
		return
	}
	const count = 24
	done := make(chan []string, 1)
	go func() { // a slow reader
		var got []string
		buf := make([]byte, 4096)
		for i := 0; i < count; i++ {
			_ = rx.SetReadDeadline(time.Now().Add(3 * time.Second))
			k, _, err := rx.ReadFrom(buf)
			if err != nil {
				break
			}
			got = append(got, string(buf[:k]))
			time.Sleep(2 * time.Millisecond)
		}
		done <- got
	}()
	payload := make([]byte, 64)
	var sent []string
	for i := 0; i < count; i++ {
		copy(payload, fmt.Sprintf("datagram-%02d|%-50s", i, "x"))
		sent = append(sent, string(payload))
		if _, err := tx.WriteTo(payload, n.NewAddr("solo", "rx")); err != nil {
			im.Violate("same-node WriteTo fails: "+err.Error(), "same-node-writeto-error", nil)
			return
		}
		for j := range payload { // the caller owns the buffer again
			payload[j] = '#'
		}
	}
	got := <-done
	for i := range got {
		if i < len(sent) && got[i] != sent[i] {
			im.Violate(fmt.Sprintf("same-node datagram %d arrived as %q, it was sent as %q (the sender re-used its buffer after WriteTo returned)", i, got[i][:14], sent[i][:14]),
				"same-node-payload-aliased", map[string]interface{}{"index": i})
			break
		}
	}
	if len(got) != count {
		im.Violate(fmt.Sprintf("same-node listener read %d of %d datagrams", len(got), count), "same-node-loss", nil)
	}
	im.Hist("same-node:buffer-reuse")
	im.Count("same-node buffer reuse", true)
}
