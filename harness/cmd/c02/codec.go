package main

import (
	"bytes"
	"context"
	"fmt"
	"strings"
	"time"

	. "verifharness/lib"

	"github.com/ansible/receptor/pkg/netceptor"
	"github.com/minio/highwayhash"
)

var zeroKey = make([]byte, 32)

// hwh is the hash oracle: highwayhash-64 with the all-zero key, as netceptor uses it.
func hwh(name string) uint64 {
	h, _ := highwayhash.New64(zeroKey)
	_, _ = h.Write([]byte(name))
	return h.Sum64()
}

var localhostSpellings = []string{"localhost", "LOCALHOST", "LocalHost", "localhosT", "localhoſt", "LOCALHOſT",
	"localhost ", "localhos", "localhostx", "1ocalhost", "locaKhost", "localhoſ", "ſocalhost", "localhoſſt", "localho\xc5t", "localho\xbft"}

func genNodeName(r *Rng) string {
	switch r.Intn(10) {
	case 0:
		return localhostSpellings[r.Intn(len(localhostSpellings))]
	case 1:
		return string(r.Bytes(1 + r.Intn(3))) // arbitrary bytes, may contain NUL and invalid UTF-8
	case 2:
		return strings.Repeat("n", 60+r.Intn(200))
	case 3:
		return "nœud-" + fmt.Sprint(r.Intn(5))
	case 4:
		return ""
	default:
		b := make([]byte, 1+r.Intn(12))
		for i := range b {
			b[i] = "abcdefghijklmnopqrstuvwxyzABCDEFGHIJKLMNOPQRSTUVWXYZ0123456789-_.: "[r.Intn(67)]
		}
		return string(b)
	}
}

// genSvc: service names as the codec sees them (white-box, so lengths above 8 and NULs occur).
func genSvc(r *Rng) string {
	nz := func(n int) []byte {
		b := r.Bytes(n)
		for i := range b {
			if b[i] == 0 {
				b[i] = 1 + byte(r.Intn(255))
			}
		}
		return b
	}
	switch r.Intn(12) {
	case 0:
		return ""
	case 1:
		return string(nz(8))
	case 2:
		return string(nz(7))
	case 3:
		return string(nz(1))
	case 4: // trailing NULs
		return string(nz(1+r.Intn(6))) + strings.Repeat("\x00", 1+r.Intn(2))
	case 5: // inner NUL
		return string(nz(1+r.Intn(3))) + "\x00" + string(nz(1+r.Intn(3)))
	case 6: // leading NUL
		return "\x00" + string(nz(r.Intn(7)))
	case 7: // longer than the field
		return string(nz(9 + r.Intn(4)))
	case 8:
		return []string{"ping", "unreach", "control", "abcdefgh", "abcdefg", "a"}[r.Intn(6)]
	case 9:
		return strings.Repeat("\x00", 1+r.Intn(9))
	default:
		return string(nz(1 + r.Intn(8)))
	}
}

func svcValid(s string) bool {
	return len(s) >= 1 && len(s) <= 8 && !strings.Contains(s, "\x00")
}

func genPayload(r *Rng, mtu int, big bool) []byte {
	switch r.Intn(12) {
	case 0:
		return []byte{}
	case 1:
		return r.Bytes(1)
	case 2:
		if big {
			return r.Bytes(mtu)
		}
		return r.Bytes(300 + r.Intn(300))
	case 3:
		return bytes.Repeat([]byte{0}, r.Intn(40))
	default:
		return r.Bytes(r.Intn(64))
	}
}

type hashSet struct {
	names []string
	seen  map[string]bool
}

func (h *hashSet) add(n string) {
	if h.seen == nil {
		h.seen = map[string]bool{}
	}
	if !h.seen[n] {
		h.seen[n] = true
		h.names = append(h.names, n)
	}
}

func (h *hashSet) coq() string {
	xs := make([]string, len(h.names))
	for i, n := range h.names {
		xs[i] = fmt.Sprintf("(%s, %d)", HxS(n), hwh(n))
	}
	return CoqList(xs)
}

func coqDres(md *netceptor.MessageData, err error) (string, string) {
	if err != nil {
		switch {
		case strings.Contains(err.Error(), "too short"):
			return "DShort", "short"
		case strings.Contains(err.Error(), "hash not found"):
			return "DNoHash", "nohash"
		default:
			return "DShort (* unexpected error: " + strings.ReplaceAll(err.Error(), "*", "") + " *)", "other"
		}
	}
	return "(DOk " + coqMsg([]byte(md.FromNode), []byte(md.FromService), []byte(md.ToNode), []byte(md.ToService), md.HopsToLive, md.Data) + ")", "ok"
}

func newNode(ctx context.Context, id string) *netceptor.Netceptor {
	n := netceptor.NewWithConsts(ctx, id, 16384, time.Hour, time.Hour, time.Hour, 30, time.Hour)
	return n
}

func isAlias(name string) bool { return strings.EqualFold(name, "localhost") }

func codecCases(c *Ctx, im *Impl, cf *CaseFile) {
	r := c.Rng
	nNodes, nOps := 60, 24
	if c.Thorough() {
		nNodes, nOps = 500, 30
	}
	bigLeft := 6
	if c.Thorough() {
		bigLeft = 40
	}
	for ni := 0; ni < nNodes; ni++ {
		self := genNodeName(r)
		if ni == 0 {
			self = "node-a"
		}
		if ni == 1 {
			self = "Localhost" // a node that is itself called like the alias
		}
		ctx, cancel := context.WithCancel(context.Background())
		n := newNode(ctx, self)
		peerID := genNodeName(r) + "-peer"
		peer := newNode(ctx, peerID)
		hs := &hashSet{}
		hs.add(self)
		pool := []string{self, peerID}
		for k := 2 + r.Intn(4); k > 0; k-- {
			pool = append(pool, genNodeName(r))
		}
		pool = append(pool, localhostSpellings[r.Intn(len(localhostSpellings))])
		for _, p := range pool {
			hs.add(p)
		}
		// a harness-held connection: everything the node sends to a remote name appears in wire
		wire, _ := n.VerifAddConn("wire-peer", 1.0, 64)
		rt := map[string]string{}
		var remotes []string
		for _, p := range pool {
			if p != self && p != "" && !isAlias(p) {
				rt[p] = "wire-peer"
				remotes = append(remotes, p)
			}
		}
		n.VerifSetRoutingTable(rt)
		var ops []string
		var encoded [][]byte
		label := fmt.Sprintf("codec node=%q", self)
		for k := 0; k < 5 && len(remotes) > 0; k++ { // SendMessageWithHopsToLive, with names that do not fit
			ops = append(ops, sendOp(c, im, n, self, remotes[r.Intn(len(remotes))], wire, k)...)
		}
		for oi := 0; oi < nOps; oi++ {
			switch k := r.Intn(10); {
			case k < 2: // AddNameHash
				name := pool[r.Intn(len(pool))]
				hv := n.AddNameHash(name)
				ops = append(ops, fmt.Sprintf("WAdd %s %d", HxS(name), hv))
				im.Count(fmt.Sprintf("add %q %q", self, name), name != "")
				im.Hist("codec:add")
				if isAlias(name) {
					im.Hist("codec:add-alias")
				}
				want := hwh(name)
				if isAlias(name) {
					want = hwh(self)
				}
				if hv != want {
					im.Violate(fmt.Sprintf("AddNameHash(%q) on node %q returns %d, highwayhash gives %d", name, self, hv, want), "codec-addnamehash", map[string]string{"self": self, "name": name})
				}
			case k < 6: // encode, then decode what was encoded
				big := bigLeft > 0 && r.Chance(8)
				if big {
					bigLeft--
				}
				md := &netceptor.MessageData{FromNode: pool[r.Intn(len(pool))], ToNode: pool[r.Intn(len(pool))],
					FromService: genSvc(r), ToService: genSvc(r), HopsToLive: []byte{0, 1, 30, 255, byte(r.U64())}[r.Intn(5)],
					Data: genPayload(r, 16384, big)}
				if r.Chance(40) { // the property's own domain
					for !svcValid(md.FromService) {
						md.FromService = genSvc(r)
					}
					for !svcValid(md.ToService) {
						md.ToService = genSvc(r)
					}
				}
				out, err := n.VerifTranslateDataFromMessage(md)
				if err != nil {
					im.Violate("translateDataFromMessage returns an error: "+err.Error(), "codec-encode-error", fmt.Sprintf("%+v", md))
					continue
				}
				out = append([]byte{}, out...)
				ops = append(ops, fmt.Sprintf("WEnc %s %s", coqMsg([]byte(md.FromNode), []byte(md.FromService), []byte(md.ToNode), []byte(md.ToService), md.HopsToLive, md.Data), Hx(out)))
				encoded = append(encoded, out)
				valid := svcValid(md.FromService) && svcValid(md.ToService)
				im.Count(fmt.Sprintf("enc %q %+v", self, md), true)
				im.Hist("codec:encode")
				if valid {
					im.Hist("codec:encode-valid-services")
				}
				if len(md.FromService) == 8 || len(md.ToService) == 8 {
					im.Hist("codec:encode-8-byte-service")
				}
				if len(md.Data) >= 16384 {
					im.Hist("codec:encode-payload-MTU")
				}
				im.Sample(map[string]interface{}{"kind": "encode", "node": self, "from": md.FromNode, "fsvc_hex": fmt.Sprintf("%x", md.FromService), "to": md.ToNode, "tsvc_hex": fmt.Sprintf("%x", md.ToService), "hops": md.HopsToLive, "payload_len": len(md.Data)})
				// model-independent oracle
				if len(out) != 36+len(md.Data) {
					im.Violate(fmt.Sprintf("encoded length %d for payload %d", len(out), len(md.Data)), "codec-length", nil)
				}
				back, derr := n.VerifTranslateDataToMessage(out)
				dterm, _ := coqDres(back, derr)
				ops = append(ops, fmt.Sprintf("WDec %s %s", Hx(out), dterm))
				im.Count(fmt.Sprintf("dec %q %x", self, out), true)
				im.Hist("codec:decode-own-encoding")
				if valid {
					wf, wt := md.FromNode, md.ToNode
					if isAlias(wf) {
						wf = self
					}
					if isAlias(wt) {
						wt = self
					}
					if derr != nil || back.FromNode != wf || back.ToNode != wt || back.FromService != md.FromService ||
						back.ToService != md.ToService || back.HopsToLive != md.HopsToLive || !bytes.Equal(back.Data, md.Data) {
						im.Violate(fmt.Sprintf("decode(encode(m)) != m on node %q: m=%+v back=%+v err=%v", self, md, back, derr), "codec-roundtrip",
							map[string]interface{}{"self": self, "from": md.FromNode, "to": md.ToNode, "fsvc_hex": fmt.Sprintf("%x", md.FromService), "tsvc_hex": fmt.Sprintf("%x", md.ToService)})
					}
				}
			case k < 7: // a packet made by the peer node: unknown until the peer's name is added
				md := &netceptor.MessageData{FromNode: peerID, ToNode: self, FromService: genSvc(r), ToService: genSvc(r),
					HopsToLive: byte(r.U64()), Data: genPayload(r, 16384, false)}
				if isAlias(self) { // the peer would resolve it to itself
					md.ToNode = peerID
				}
				out, _ := peer.VerifTranslateDataFromMessage(md)
				out = append([]byte{}, out...)
				back, derr := n.VerifTranslateDataToMessage(out)
				dterm, kind := coqDres(back, derr)
				ops = append(ops, fmt.Sprintf("WDec %s %s", Hx(out), dterm))
				im.Count(fmt.Sprintf("dec %q %x", self, out), true)
				im.Hist("codec:decode-peer-packet-" + kind)
				hv := n.AddNameHash(peerID)
				ops = append(ops, fmt.Sprintf("WAdd %s %d", HxS(peerID), hv))
				back, derr = n.VerifTranslateDataToMessage(out)
				dterm, kind = coqDres(back, derr)
				ops = append(ops, fmt.Sprintf("WDec %s %s", Hx(out), dterm))
				im.Count(fmt.Sprintf("dec2 %q %x", self, out), true)
				im.Hist("codec:decode-peer-packet-" + kind)
				if svcValid(md.FromService) && svcValid(md.ToService) {
					if derr != nil || back.FromNode != md.FromNode || back.ToNode != md.ToNode || back.FromService != md.FromService ||
						back.ToService != md.ToService || back.HopsToLive != md.HopsToLive || !bytes.Equal(back.Data, md.Data) {
						im.Violate(fmt.Sprintf("receiver %q decodes the packet of %q differently: sent %+v got %+v err=%v", self, peerID, md, back, derr), "codec-roundtrip-peer", nil)
					}
				}
			default: // malformed / mutated input
				var b []byte
				kind := ""
				switch m := r.Intn(6); {
				case m == 0 || len(encoded) == 0:
					b, kind = r.Bytes([]int{0, 1, 4, 20, 35, 36, 37, 44, 60}[r.Intn(9)]), "random"
				case m == 1: // truncate
					e := encoded[r.Intn(len(encoded))]
					b, kind = append([]byte{}, e[:[]int{0, 3, 12, 35, 36}[r.Intn(5)]]...), "truncated"
				case m == 2: // corrupt a hash byte
					b = append([]byte{}, encoded[r.Intn(len(encoded))]...)
					b[4+r.Intn(16)] ^= byte(1 << r.Intn(8))
					kind = "hash-flipped"
				case m == 3: // header bytes 0, 2, 3 are ignored by the decoder
					b = append([]byte{}, encoded[r.Intn(len(encoded))]...)
					b[0], b[2], b[3] = byte(r.U64()), byte(r.U64()), byte(r.U64())
					kind = "header-noise"
				case m == 4: // NULs written into the service fields
					b = append([]byte{}, encoded[r.Intn(len(encoded))]...)
					b[20+r.Intn(16)] = 0
					kind = "service-nul"
				default:
					b = append([]byte{}, encoded[r.Intn(len(encoded))]...)
					b[1] = byte(r.U64())
					if len(b) > 36 {
						b[36+r.Intn(len(b)-36)] ^= 0xff
					}
					kind = "payload-flipped"
				}
				if len(b) > 2000 {
					b = b[:2000]
				}
				back, derr := n.VerifTranslateDataToMessage(b)
				dterm, res := coqDres(back, derr)
				ops = append(ops, fmt.Sprintf("WDec %s %s", Hx(b), dterm))
				im.Count(fmt.Sprintf("dec %q %x", self, b), len(b) > 0)
				im.Hist("codec:decode-" + kind + "-" + res)
			}
		}
		cf.Add(fmt.Sprintf("inl (WCase %s %s %s)", HxS(self), hs.coq(), CoqList(ops)), label)
		n.Shutdown()
		peer.Shutdown()
		cancel()
	}
}

// overlong returns a service name of n bytes whose first 8 bytes are the given 8-byte name.
func overlong(r *Rng, base string, n int) string {
	b := []byte(base)
	for len(b) < n {
		b = append(b, "abcdefghijklmnopqrstuvwxyz-0123456789"[r.Intn(37)])
	}
	return string(b)
}

var overLens = []int{9, 10, 16, 255}

// sendOp: one SendMessageWithHopsToLive on a node whose only connection is held by the harness.
// Oracle: a service name longer than the 8-byte wire field is refused and nothing is sent.
func sendOp(c *Ctx, im *Impl, n *netceptor.Netceptor, self, dst string, wire chan []byte, k int) []string {
	r := c.Rng
	fsvc, tsvc := genSvc(r), genSvc(r)
	for !svcValid(fsvc) {
		fsvc = genSvc(r)
	}
	switch k {
	case 0: // destination name one byte too long, its first 8 bytes a plausible listener
		tsvc = overlong(r, "abcdefgh", 9)
	case 1:
		tsvc = overlong(r, "abcdefgh", overLens[r.Intn(len(overLens))])
	case 2: // source name too long
		fsvc = overlong(r, "abcdefgh", overLens[r.Intn(len(overLens))])
	case 3: // exactly fitting
		tsvc = "abcdefgh"
	}
	h := byte(1 + r.Intn(255))
	data := genPayload(r, 16384, false)
	for len(wire) > 0 {
		<-wire
	}
	err := n.SendMessageWithHopsToLive(fsvc, dst, tsvc, data, h)
	var pkt []byte
	select {
	case pkt = <-wire:
	case <-time.After(func() time.Duration {
		if err != nil {
			return 20 * time.Millisecond
		}
		return time.Second
	}()):
	}
	long := len(fsvc) > 8 || len(tsvc) > 8
	rec := map[string]interface{}{"node": self, "fsvc_hex": fmt.Sprintf("%x", fsvc), "to": dst, "tsvc_hex": fmt.Sprintf("%x", tsvc), "hops": h}
	im.Count(fmt.Sprintf("send %q %x %q %x %d %x", self, fsvc, dst, tsvc, h, data), true)
	if long {
		im.Hist("codec:send-overlong-service")
		if err == nil || pkt != nil {
			what := "accepted"
			if pkt != nil {
				md, _ := n.VerifTranslateDataToMessage(pkt)
				if md != nil {
					what = fmt.Sprintf("sent as %q -> %q", md.FromService, md.ToService)
				}
			}
			im.Violate(fmt.Sprintf("SendMessageWithHopsToLive with service names of %d and %d bytes is not refused (%s, err=%v): the 8-byte wire field cuts the name to another service's name", len(fsvc), len(tsvc), what, err),
				"overlong-service-accepted", rec)
		}
	} else {
		im.Hist("codec:send-fitting-service")
		if err != nil || pkt == nil {
			im.Violate(fmt.Sprintf("SendMessageWithHopsToLive with fitting service names fails or sends nothing (err=%v)", err), "codec-send-failed", rec)
		}
	}
	obs := "None"
	if pkt != nil {
		obs = "(Some " + Hx(pkt) + ")"
	}
	return []string{fmt.Sprintf("WSend %s %s", coqMsg([]byte(self), []byte(fsvc), []byte(dst), []byte(tsvc), h, data), obs)}
}
