package main

// relink.go — C02 on a mesh whose topology CHANGES: a triangle (and a square with a diagonal) of
// real nodes; after every change of the link set — a direct link lost while another route exists,
// the link re-established by a new session, another link lost — every node sends a datagram to a
// listener on every other node, and the property-text oracle must hold: each datagram is read by
// the addressed listener exactly once, byte-identical, with the true source address, and nowhere
// else.  What a node keeps per PEER (name hashes, routes) and not per session is what this
// exercises: the static trees of mesh.go never lose a link.

import (
	"bytes"
	"fmt"
	"sync"
	"time"

	"github.com/ansible/receptor/pkg/netceptor"

	. "verifharness/lib"
)

type relinkGot struct {
	node, svc string
	from      string
	data      []byte
}

func relinkCases(c *Ctx, im *Impl) {
	for attempt := 0; ; attempt++ {
		tmp := NewImpl("C02", c.Seed, c.Tier)
		runRelink(c, tmp, attempt)
		absence := 0
		for _, v := range tmp.Violations {
			if v.Sig == "relink-lost" || v.Sig == "relink-no-convergence" {
				absence++
			}
		}
		if attempt == 0 && absence > 0 && absence == len(tmp.Violations) {
			// something did not arrive within a bounded wait: a loaded machine may exceed any bound once
			im.Hist("relink:scenario-repeated-after-a-missing-arrival")
			continue
		}
		mergeImpl(im, tmp)
		return
	}
}

func runRelink(c *Ctx, im *Impl, attempt int) {
	r := NewRng(c.Seed + 0xC02 + uint64(attempt))
	mesh := NewMesh(FastConsts())
	defer mesh.Shutdown()
	ids := nodeNames(r, 4)
	for _, id := range ids {
		mesh.AddNode(id)
	}
	a, b, cc, d := ids[0], ids[1], ids[2], ids[3]
	links := map[string]*Link{}
	cur := map[[2]string]float64{} // the link set as it is now
	connect := func(x, y string, cost float64) {
		l, err := mesh.Connect(x, y, cost)
		Must(err)
		links[x+"|"+y] = l
		cur[[2]string{x, y}] = cost
	}
	cut := func(x, y string) {
		links[x+"|"+y].Cut()
		delete(cur, [2]string{x, y})
	}
	// converged: every node's routing table names, for every other node, a next hop that starts a
	// least-cost path over the current link set (the property speaks of converged topologies: while a
	// change is still travelling, two nodes may route a datagram back and forth until its hops run out)
	dist := func() map[string]map[string]float64 {
		dm := map[string]map[string]float64{}
		for _, x := range ids {
			dm[x] = map[string]float64{}
			for _, y := range ids {
				if x != y {
					dm[x][y] = 1e18
				}
			}
		}
		for k, cst := range cur {
			dm[k[0]][k[1]], dm[k[1]][k[0]] = cst, cst
		}
		for _, k := range ids {
			for _, i := range ids {
				for _, j := range ids {
					if dm[i][k]+dm[k][j] < dm[i][j] {
						dm[i][j] = dm[i][k] + dm[k][j]
					}
				}
			}
		}
		return dm
	}
	linkCost := func(x, y string) (float64, bool) {
		if v, ok := cur[[2]string{x, y}]; ok {
			return v, true
		}
		v, ok := cur[[2]string{y, x}]
		return v, ok
	}
	converged := func() bool {
		dm := dist()
		for _, x := range ids {
			rt := mesh.Nodes[x].Status().RoutingTable
			for _, y := range ids {
				if x == y {
					continue
				}
				hop, ok := rt[y]
				if !ok {
					return false
				}
				lc, isLink := linkCost(x, hop)
				if !isLink || lc+dm[hop][y] != dm[x][y] {
					return false
				}
			}
		}
		return true
	}
	connect(a, b, 1)
	connect(b, cc, 1)
	connect(a, cc, 1)
	connect(cc, d, 1)
	connect(a, d, 3)
	all := map[string][]string{}
	for _, x := range ids {
		for _, y := range ids {
			if x != y {
				all[x] = append(all[x], y)
			}
		}
	}
	// listeners
	var mu sync.Mutex
	var got []relinkGot
	stop := make(chan struct{})
	var wg sync.WaitGroup
	pcs := map[string]netceptor.PacketConner{}
	for _, id := range ids {
		for _, svc := range []string{"inbox", "other"} {
			pc, err := mesh.Nodes[id].ListenPacket(svc)
			Must(err)
			pcs[id+"/"+svc] = pc
			wg.Add(1)
			go func(id, svc string, pc netceptor.PacketConner) {
				defer wg.Done()
				buf := make([]byte, 20000)
				for {
					_ = pc.SetReadDeadline(time.Now().Add(100 * time.Millisecond))
					n, addr, err := pc.ReadFrom(buf)
					if err == nil {
						mu.Lock()
						got = append(got, relinkGot{id, svc, addr.String(), append([]byte{}, buf[:n]...)})
						mu.Unlock()
						continue
					}
					select {
					case <-stop:
						return
					default:
					}
				}
			}(id, svc, pc)
		}
	}
	defer func() {
		close(stop)
		wg.Wait()
		for _, pc := range pcs {
			_ = pc.Close()
		}
	}()
	senders := map[string]netceptor.PacketConner{}
	for _, id := range ids {
		pc, err := mesh.Nodes[id].ListenPacket("sender")
		Must(err)
		senders[id] = pc
		pcs[id+"/sender"] = pc
	}
	seq, phaseNo := 0, 0
	seen := map[string]bool{}
	// one round: every node sends one datagram to "inbox" of every other node; all must arrive
	type viaT struct{ x, y, want string }
	round := func(phase string, via []viaT) {
		if !mesh.WaitRoutes(all, 30*time.Second) || !WaitFor(30*time.Second, func() bool {
			if !converged() {
				return false
			}
			time.Sleep(300 * time.Millisecond) // and stays so over more than a routing-update period
			return converged()
		}) {
			im.Violate("relink mesh, phase "+phase+": the routing tables do not become least-cost next hops for the current links within 30 s", "relink-no-convergence", phase)
			return
		}
		for _, v := range via { // x must come to route y via want
			x, y, want := v.x, v.y, v.want
			if !WaitFor(30*time.Second, func() bool { return mesh.Nodes[x].Status().RoutingTable[y] == want }) {
				im.Violate(fmt.Sprintf("relink mesh, phase %s: %s does not come to route %s via %s", phase, x, y, want), "relink-no-convergence", phase)
				return
			}
		}
		type sent struct {
			from, to string
			data     []byte
		}
		// Two batches: first one direction of every pair of nodes, awaited, then the other.  What a node
		// learns or forgets about a PEER when a session to it ends must not depend on that node having sent
		// something to the peer itself in the meantime.
		forward := phaseNo%2 == 0
		phaseNo++
		for _, firstBatch := range []bool{true, false} {
			var sents []sent
			for i, x := range ids {
				for j, y := range ids {
					if x == y || (i < j) != (firstBatch == forward) {
						continue
					}
					seq++
					data := append([]byte(fmt.Sprintf("%s#%d:", phase, seq)), r.Bytes(r.Range(0, 300))...)
					if _, err := senders[x].WriteTo(data, mesh.Nodes[x].NewAddr(y, "inbox")); err != nil {
						im.Violate(fmt.Sprintf("relink mesh, phase %s: WriteTo %s -> %s:inbox failed although a route exists: %v", phase, x, y, err), "relink-writeto-error", phase)
						continue
					}
					sents = append(sents, sent{x, y, data})
				}
			}
			find := func(s sent) int {
				n := 0
				mu.Lock()
				for _, g := range got {
					if bytes.Equal(g.data, s.data) {
						n++
						if g.node != s.to || g.svc != "inbox" {
							im.Violate(fmt.Sprintf("relink mesh, phase %s: datagram %s -> %s:inbox was read by %s:%s", phase, s.from, s.to, g.node, g.svc), "relink-misdelivered", phase)
						}
						if g.from != s.from+":sender" {
							im.Violate(fmt.Sprintf("relink mesh, phase %s: datagram %s:sender -> %s:inbox read with source %q", phase, s.from, s.to, g.from), "relink-wrong-source", phase)
						}
					}
				}
				mu.Unlock()
				return n
			}
			for _, s := range sents {
				s := s
				ok := WaitFor(8*time.Second, func() bool { return find(s) >= 1 })
				im.Count(fmt.Sprintf("relink %s %s>%s %d", phase, s.from, s.to, attempt), true)
				im.Hist("relink:datagrams")
				if !ok {
					im.Violate(fmt.Sprintf("relink mesh, phase %s: datagram %s:sender -> %s:inbox (%d bytes) was never handed to the listener although both nodes have routes to each other (%s routes %s via %q, %s routes %s via %q; nodes a=%q b=%q c=%q d=%q, links a-b a-c b-c c-d cost 1, a-d cost 3)",
						phase, s.from, s.to, len(s.data), s.from, s.to, mesh.Nodes[s.from].Status().RoutingTable[s.to], s.to, s.from, mesh.Nodes[s.to].Status().RoutingTable[s.from], a, b, cc, d), "relink-lost", phase)
				}
			}
			time.Sleep(150 * time.Millisecond)
			for _, s := range sents {
				if n := find(s); n > 1 {
					im.Violate(fmt.Sprintf("relink mesh, phase %s: datagram %s -> %s:inbox was read %d times", phase, s.from, s.to, n), "relink-duplicated", phase)
				}
			}
			mu.Lock()
			for _, g := range got {
				known := false
				for _, s := range sents {
					if bytes.Equal(g.data, s.data) {
						known = true
					}
				}
				if !known && bytes.HasPrefix(g.data, []byte(phase+"#")) && !seen[string(g.data)] {
					im.Violate(fmt.Sprintf("relink mesh, phase %s: %s:%s read a datagram nobody sent", phase, g.node, g.svc), "relink-spurious", phase)
				}
			}
			mu.Unlock()
			for _, s := range sents {
				seen[string(s.data)] = true
			}
		}
	}
	round("initial", nil)
	// the direct link a-b is lost; both still reach each other through c
	cut(a, b)
	round("a-b-lost", []viaT{{a, b, cc}, {b, a, cc}})
	// a new session between the same two nodes
	connect(a, b, 1)
	round("a-b-again", []viaT{{a, b, b}, {b, a, a}})
	// now c loses its link to d: d is reached through a (cost 3)
	cut(cc, d)
	round("c-d-lost", []viaT{{cc, d, a}, {d, cc, a}})
	// and a-b once more, then everything back
	cut(a, b)
	round("a-b-lost-again", []viaT{{a, b, cc}})
	connect(cc, d, 1)
	connect(a, b, 1)
	round("all-back", []viaT{{cc, d, d}, {a, b, b}})
}
