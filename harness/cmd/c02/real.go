package main

// Links over the real backends of pkg/backends on 127.0.0.1: TCP (TCPSession + framer), TCP through
// a proxy that re-chunks the byte stream, websocket, UDP.  Every session is wrapped so that the
// harness sees what is sent (the wire oracle needs it).

import (
	"context"
	"fmt"
	"io"
	"net"
	"sync"

	. "verifharness/lib"

	"github.com/ansible/receptor/pkg/backends"
	"github.com/ansible/receptor/pkg/logger"
	"github.com/ansible/receptor/pkg/netceptor"
)

type tapBackend struct {
	inner netceptor.Backend
	tap   func([]byte)
}

type tapSess struct {
	netceptor.BackendSession
	tap func([]byte)
}

func (t *tapSess) Send(b []byte) error {
	t.tap(append([]byte{}, b...))
	return t.BackendSession.Send(b)
}

func (t *tapBackend) Start(ctx context.Context, wg *sync.WaitGroup) (chan netceptor.BackendSession, error) {
	in, err := t.inner.Start(ctx, wg)
	if err != nil {
		return nil, err
	}
	out := make(chan netceptor.BackendSession)
	go func() {
		defer close(out)
		for s := range in {
			select {
			case out <- &tapSess{s, t.tap}:
			case <-ctx.Done():
				return
			}
		}
	}()
	return out, nil
}

// rechunkProxy accepts on 127.0.0.1:0 and relays to target through the shaper of stream.go.
func rechunkProxy(ctx context.Context, target string, r *Rng, st *shaperStats) (string, error) {
	li, err := net.Listen("tcp", "127.0.0.1:0")
	if err != nil {
		return "", err
	}
	go func() { <-ctx.Done(); _ = li.Close() }()
	go func() {
		for {
			c, err := li.Accept()
			if err != nil {
				return
			}
			up, err := net.Dial("tcp", target)
			if err != nil {
				_ = c.Close()
				continue
			}
			go shape(c, up, NewRng(r.U64()), st)
			go shape(up, c, NewRng(r.U64()), st)
		}
	}()
	return li.Addr().String(), nil
}

// connectReal: node a listens, node b dials.
func connectReal(kind string, a, b *netceptor.Netceptor, r *Rng, st *shaperStats, tapAB, tapBA func([]byte)) error {
	lg := logger.NewReceptorLogger("")
	lg.SetOutput(io.Discard)
	cost := netceptor.BackendConnectionCost(1.0)
	switch kind {
	case "tcp", "tcpproxy":
		li, err := backends.NewTCPListener("127.0.0.1:0", nil, lg)
		if err != nil {
			return err
		}
		if err := a.AddBackend(&tapBackend{li, tapAB}, cost); err != nil {
			return err
		}
		addr := li.GetAddr()
		if kind == "tcpproxy" {
			if addr, err = rechunkProxy(a.Context(), addr, r, st); err != nil {
				return err
			}
		}
		di, err := backends.NewTCPDialer(addr, false, nil, lg)
		if err != nil {
			return err
		}
		return b.AddBackend(&tapBackend{di, tapBA}, cost)
	case "ws":
		li, err := backends.NewWebsocketListener("127.0.0.1:0", nil, lg, nil, nil)
		if err != nil {
			return err
		}
		if err := a.AddBackend(&tapBackend{li, tapAB}, cost); err != nil {
			return err
		}
		di, err := backends.NewWebsocketDialer("ws://"+li.Addr().String(), nil, "", false, lg, nil)
		if err != nil {
			return err
		}
		return b.AddBackend(&tapBackend{di, tapBA}, cost)
	case "udp":
		li, err := backends.NewUDPListener("127.0.0.1:0", lg)
		if err != nil {
			return err
		}
		if err := a.AddBackend(&tapBackend{li, tapAB}, cost); err != nil {
			return err
		}
		di, err := backends.NewUDPDialer(li.LocalAddr().String(), false, lg)
		if err != nil {
			return err
		}
		return b.AddBackend(&tapBackend{di, tapBA}, cost)
	}
	return fmt.Errorf("unknown link kind %q", kind)
}
