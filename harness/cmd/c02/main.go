package main

// C02 — datagrams arrive intact, only at the addressed service, with the true source.
//
// Three correspondences with the Gallina models (evaluated by coqc on what the real code did):
//   codec.go   Model/Wire.v   encode_msg/decode_msg/add_name vs translateDataFromMessage,
//              translateDataToMessage, AddNameHash on a real Netceptor (white-box hooks)
//   framer.go  Model/Framer.v frame/pop/ready/recv_loop vs framer.New() and the real
//              netMessageConn.ReadMessage loop over a connection returning scripted chunks
//   mesh.go    wire packets tapped on the links of real meshes are decoded by the model
// and the model-independent oracle on real meshes (mesh.go): the multiset of datagrams read by
// every listener equals the multiset of datagrams sent to it, with the sender's address and the
// byte-identical payload; nothing is read anywhere else; on the wire a packet changes only in
// its hop byte.

import (
	"fmt"
	"os"

	. "verifharness/lib"
)

func main() { Main("C02", run, map[string]func([]string){"oversize": oversizeHelper}) }

const caseType = "wire_case + framer_case"
const checkFn = "(fun c => match c with inl a => wire_check a | inr b => framer_check b end)"

func run(c *Ctx) {
	QuietLogs()
	im := NewImpl("C02", c.Seed, c.Tier)
	im.Rule = "codec: per real node a sequence of AddNameHash / translateDataFromMessage / translateDataToMessage calls on names (random bytes, localhost spellings, own ID), services (0-12 bytes, NULs at every position, 8-byte boundary), hop bytes and payloads 0..MTU; decode inputs are encoder outputs, packets of a peer node, truncations around 36 bytes and random bytes; non-trivial = a call whose input is not empty; " +
		"framer: SendData at the uint16 boundary, random RecvData/MessageReady/GetMessage sequences, and ReadMessage over scripted chunkings (1-byte, header-splitting, coalescing, cut anywhere) of framed random messages; non-trivial = at least one frame split across chunks or several frames in one chunk; " +
		"mesh: chains, stars and trees of 2-5 real nodes over message links and over re-chunking byte-stream links (real framer), listeners on 4-6 services per node incl. names at the 8-byte boundary, concurrent senders, payloads 0..MTU; non-trivial = datagram crossing at least one link; relink: four real nodes with redundant links (triangle plus a fourth node reachable two ways); after each change of the link set (a direct link lost while another route exists, re-established by a new session, another link lost, all back) every node sends to a listener on every other node, one observation = one datagram; distinct by full input"
	cf := &CaseFile{Dir: c.Out, Prop: "C02", Imports: []string{"Model.Wire", "Model.Framer"},
		CaseType: caseType, CheckFn: checkFn, PerShard: 40}
	if os.Getenv("C02_ONLY") == "relink" { // development aid
		relinkCases(c, im)
		Must(cf.Write())
		Must(im.Write(c.Out))
		return
	}
	codecCases(c, im, cf)
	framerCases(c, im, cf)
	meshCases(c, im, cf)
	relinkCases(c, im)
	sameNodeBufferReuse(c, im)
	Must(cf.Write())
	Must(im.Write(c.Out))
	fmt.Printf("C02: %d evaluations, %d violations, %d coq cases\n", im.Evaluations, len(im.Violations), len(cf.Cases))
}

// coqMsg prints a Model.Wire msg record.
func coqMsg(from, fsvc, to, tsvc []byte, hops byte, data []byte) string {
	return fmt.Sprintf("(Build_msg %s %s %s %s %d %s)", Hx(from), Hx(fsvc), Hx(to), Hx(tsvc), hops, Hx(data))
}
