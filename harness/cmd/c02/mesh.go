package main

import (
	"bytes"
	"context"
	"crypto/sha1"
	"encoding/json"
	"fmt"
	"net"
	"os"
	"os/exec"
	"sort"
	"strings"
	"sync"
	"time"

	. "verifharness/lib"

	"github.com/ansible/receptor/pkg/netceptor"
)

type topo struct {
	name  string
	nodes []string
	// links: indices into nodes, stream = re-chunked byte stream, otherwise message pipe
	links []struct {
		a, b   int
		stream bool
		kind   string
	}
	sequential bool // senders run one after the other (UDP links: no burst that could overflow a socket buffer)
}

type lk = struct {
	a, b   int
	stream bool
	kind   string // "": harness link (pipe or re-chunked stream); "tcp", "tcpproxy", "ws", "udp": real backends on 127.0.0.1
}

type sendRec struct {
	fromNode, fromSvc, toNode, toSvc string
	payload                          []byte
	expect                           bool // a listener exists there
	err                              error
	alias                            bool // addressed through a spelling of "localhost"
}

type recvRec struct {
	node, svc, from string
	payload         []byte
}

type tapRec struct {
	a, b string // directed link
	raw  []byte
}

func pHash(b []byte) string { return fmt.Sprintf("%d:%x", len(b), sha1.Sum(b)) }

func nodeNames(r *Rng, n int) []string {
	cands := []string{"a", "Node-B", "node-b", "nœud-3", "n 4", strings.Repeat("long-node-name-", 7), "B", "x.y-z_0", "λ",
		"fd00::5", "a:b", ":x", "x:", "::", "n/0", "u@h", "p%41"} // separators of address formatting
	// shuffle deterministically
	for i := len(cands) - 1; i > 0; i-- {
		j := r.Intn(i + 1)
		cands[i], cands[j] = cands[j], cands[i]
	}
	return cands[:n]
}

func serviceNames(r *Rng) []string {
	out := []string{"abcdefgh", "abcdefg", "x"}
	nz := func(n int) string {
		b := r.Bytes(n)
		for i := range b {
			if b[i] == 0 {
				b[i] = 0x80
			}
		}
		return string(b)
	}
	out = append(out, nz(8), nz(1+r.Intn(7)))
	if r.Bool() {
		out = append(out, "\xff\xfe\x01")
	}
	// no duplicates, none reserved
	seen := map[string]bool{"ping": true, "unreach": true}
	var res []string
	for _, s := range out {
		if !seen[s] {
			seen[s] = true
			res = append(res, s)
		}
	}
	return res
}

// treePath returns the node indices from a to b in the tree.
func treePath(t *topo, a, b int) []int {
	adj := map[int][]int{}
	for _, l := range t.links {
		adj[l.a] = append(adj[l.a], l.b)
		adj[l.b] = append(adj[l.b], l.a)
	}
	prev := map[int]int{a: -1}
	q := []int{a}
	for len(q) > 0 {
		x := q[0]
		q = q[1:]
		for _, y := range adj[x] {
			if _, ok := prev[y]; !ok {
				prev[y] = x
				q = append(q, y)
			}
		}
	}
	var p []int
	for x := b; x != -1; x = prev[x] {
		p = append([]int{x}, p...)
	}
	return p
}

// lossyPath: the tree path from a to b crosses a UDP link.
func lossyPath(t *topo, a, b int) bool {
	p := treePath(t, a, b)
	for i := 0; i+1 < len(p); i++ {
		for _, l := range t.links {
			if l.kind == "udp" && ((l.a == p[i] && l.b == p[i+1]) || (l.b == p[i] && l.a == p[i+1])) {
				return true
			}
		}
	}
	return false
}

func meshTopologies(c *Ctx) []*topo {
	r := c.Rng
	mk := func(name string, n int, links ...lk) *topo {
		t := &topo{name: name, nodes: nodeNames(r, n)}
		for _, l := range links {
			t.links = append(t.links, l)
		}
		return t
	}
	ts := []*topo{
		mk("chain2-stream", 2, lk{0, 1, true, ""}),
		mk("chain3-stream-pipe", 3, lk{0, 1, true, ""}, lk{1, 2, false, ""}),
		mk("tree5", 5, lk{0, 1, false, ""}, lk{0, 2, true, ""}, lk{2, 3, true, ""}, lk{2, 4, false, ""}),
		mk("chain5-stream", 5, lk{0, 1, true, ""}, lk{1, 2, true, ""}, lk{2, 3, false, ""}, lk{3, 4, true, ""}),
		// the real backends of pkg/backends over 127.0.0.1: TCP (TCPSession.Send/Recv + framer), TCP through
		// a re-chunking proxy, websocket, UDP
		mk("tcp3-direct-and-rechunked", 3, lk{0, 1, false, "tcp"}, lk{1, 2, false, "tcpproxy"}),
	}
	wsudp := mk("ws-udp3", 3, lk{0, 1, false, "ws"}, lk{1, 2, false, "udp"})
	wsudp.sequential = true
	ts = append(ts, wsudp)
	if c.Thorough() {
		ts = append(ts, mk("chain2-pipe", 2, lk{0, 1, false, ""}),
			mk("star4-stream", 4, lk{0, 1, true, ""}, lk{0, 2, true, ""}, lk{0, 3, true, ""}),
			mk("chain4-stream", 4, lk{0, 1, true, ""}, lk{1, 2, true, ""}, lk{2, 3, true, ""}))
		for k := 0; k < 5; k++ { // random trees
			n := 2 + r.Intn(4)
			t := &topo{name: fmt.Sprintf("random-tree-%d", k), nodes: nodeNames(r, n)}
			for i := 1; i < n; i++ {
				t.links = append(t.links, lk{r.Intn(i), i, r.Chance(70), ""})
			}
			ts = append(ts, t)
		}
	}
	return ts
}

func meshCases(c *Ctx, im *Impl, cf *CaseFile) {
	perSender := 30
	if c.Thorough() {
		perSender = 120
	}
	bigBudget := 10
	if c.Thorough() {
		bigBudget = 60
	}
	wireCases := 0
	for _, t := range meshTopologies(c) {
		// A verdict that rests on something NOT having arrived within a bounded wait (lost datagram,
		// missing wire packet, no convergence) is reported only if a second, fresh run of the same
		// scenario shows it again: a loaded machine may exceed any bound once.
		tmpIm := NewImpl("C02", c.Seed, c.Tier)
		tmpCf := &CaseFile{}
		bb, wc := bigBudget, wireCases
		runMesh(c, tmpIm, tmpCf, t, perSender, &bb, &wc)
		absence := 0
		for _, v := range tmpIm.Violations {
			if absenceSig[v.Sig] {
				absence++
			}
		}
		if absence > 0 && absence == len(tmpIm.Violations) {
			im.Hist("mesh:scenario-repeated-after-a-missing-arrival")
			im.Extra["mesh-retry:"+t.name] = fmt.Sprintf("first run: %d verdict(s) about something that did not arrive in time (%s); scenario repeated", absence, tmpIm.Violations[0].What)
			tmpIm = NewImpl("C02", c.Seed, c.Tier)
			tmpCf = &CaseFile{}
			bb, wc = bigBudget, wireCases
			runMesh(c, tmpIm, tmpCf, t, perSender, &bb, &wc)
		}
		bigBudget, wireCases = bb, wc
		mergeImpl(im, tmpIm)
		for i := range tmpCf.Cases {
			cf.Add(tmpCf.Cases[i], tmpCf.Labels[i])
		}
	}
	observeOversize(c, im)
}

// verdicts about an absence within a bounded wait
var absenceSig = map[string]bool{"mesh-lost": true, "wire-missing-packet": true, "mesh-no-convergence": true}

func mergeImpl(dst, src *Impl) {
	dst.Evaluations += src.Evaluations
	for k := range src.Distinct {
		if !dst.Distinct[k] {
			dst.Distinct[k] = true
			dst.NonTrivial++
		}
	}
	for k, v := range src.Histogram {
		dst.Histogram[k] += v
	}
	for _, x := range src.Samples {
		dst.Sample(x)
	}
	dst.Violations = append(dst.Violations, src.Violations...)
	for k, v := range src.Extra {
		dst.Extra[k] = v
	}
}

// observeOversize records (it does not judge: C02 is about payloads up to the MTU) what happens
// to datagrams above the MTU on a stream link.  WriteTo does not enforce the MTU; from 65500
// payload bytes on (36 + payload >= 65536) framer.SendData truncates the length prefix and the
// receiver's framing of that link is lost.
func observeOversize(c *Ctx, im *Impl) {
	// in a child process: a framer that cannot take a 65535-byte frame kills the node's reader
	// goroutine and with it the process
	ctx, cancel := context.WithTimeout(context.Background(), 40*time.Second)
	defer cancel()
	out, err := exec.CommandContext(ctx, os.Args[0], "oversize").CombinedOutput()
	var res []string
	if i := bytes.LastIndex(out, []byte("RESULT ")); err == nil && i >= 0 && json.Unmarshal(bytes.TrimSpace(out[i+7:]), &res) == nil {
		im.Extra["observation:payload-above-MTU-over-stream-link"] = res
		return
	}
	tail := string(out)
	j := strings.Index(tail, "panic:")
	if j < 0 { // killed by the time limit, could not bind, ...: nothing can be concluded
		im.Extra["observation:payload-above-MTU-over-stream-link"] = fmt.Sprintf("inconclusive: the child process did not finish (%v)", err)
		return
	}
	tail = tail[j:]
	if len(tail) > 400 {
		tail = tail[:400]
	}
	im.Violate("a node process exchanging datagrams of 16384..65499 payload bytes (frames of up to 65535 bytes, inside the framer's range) over a stream link died: "+tail,
		"framer-panic:node-process", fmt.Sprint(err))
}

// oversizeHelper is the child process of observeOversize; it prints RESULT <json list>.
func oversizeHelper(_ []string) {
	QuietLogs()
	res := oversizeRun(NewRng(1))
	j, _ := json.Marshal(res)
	fmt.Println("RESULT " + string(j))
}

func oversizeRun(rng *Rng) []string {
	mesh := NewMesh(FastConsts())
	defer mesh.Shutdown()
	a, b := mesh.AddNode("ov-a"), mesh.AddNode("ov-b")
	if connectStream(a, b, 1.0, rng, &shaperStats{}, nil, nil) != nil {
		return nil
	}
	if !mesh.WaitRoutes(map[string][]string{"ov-a": {"ov-b"}, "ov-b": {"ov-a"}}, 10*time.Second) {
		return nil
	}
	pb, err1 := b.ListenPacket("svc")
	pa, err2 := a.ListenPacket("src")
	if err1 != nil || err2 != nil {
		return nil
	}
	got := make(chan int, 16)
	go func() {
		buf := make([]byte, 200000)
		for {
			n, _, err := pb.ReadFrom(buf)
			if err != nil {
				return
			}
			got <- n
		}
	}()
	res := []string{}
	for _, l := range []int{16384, 16385, 65499, 65500, 70000, 100} {
		_, err := pa.WriteTo(make([]byte, l), a.NewAddr("ov-b", "svc"))
		select {
		case n := <-got:
			res = append(res, fmt.Sprintf("payload %d: WriteTo err=%v, listener read %d bytes", l, err, n))
		case <-time.After(700 * time.Millisecond):
			res = append(res, fmt.Sprintf("payload %d: WriteTo err=%v, nothing delivered within 0.7 s", l, err))
		}
	}
	_ = pa.Close()
	_ = pb.Close()
	return res
}

func runMesh(c *Ctx, im *Impl, cf *CaseFile, t *topo, perSender int, bigBudget *int, wireCases *int) {
	r := c.Rng
	consts := FastConsts()
	mesh := NewMesh(consts)
	defer mesh.Shutdown()
	for _, id := range t.nodes {
		mesh.AddNode(id)
	}
	var tapMu sync.Mutex
	var taps []tapRec
	mkTap := func(a, b string) func([]byte) {
		return func(raw []byte) {
			if len(raw) > 0 && raw[0] == netceptor.MsgTypeData {
				tapMu.Lock()
				taps = append(taps, tapRec{a, b, raw})
				tapMu.Unlock()
			}
		}
	}
	st := &shaperStats{}
	for _, l := range t.links {
		a, b := t.nodes[l.a], t.nodes[l.b]
		if l.kind != "" {
			if err := connectReal(l.kind, mesh.Nodes[a], mesh.Nodes[b], r, st, mkTap(a, b), mkTap(b, a)); err != nil {
				// the environment (no free port, ...), not the property: inconclusive
				im.Hist("mesh:inconclusive-backend-setup")
				im.Extra["mesh:"+t.name] = fmt.Sprintf("inconclusive: %s link %s-%s cannot be set up: %v", l.kind, a, b, err)
				return
			}
		} else if l.stream {
			Must(connectStream(mesh.Nodes[a], mesh.Nodes[b], 1.0, r, st, mkTap(a, b), mkTap(b, a)))
		} else {
			ea, eb := NewPipePair(4096)
			ea.Tap, eb.Tap = mkTap(a, b), mkTap(b, a)
			Must(mesh.Nodes[a].AddBackend(&OneShotBackend{Sess: ea}, netceptor.BackendConnectionCost(1.0)))
			Must(mesh.Nodes[b].AddBackend(&OneShotBackend{Sess: eb}, netceptor.BackendConnectionCost(1.0)))
		}
	}
	want := map[string][]string{}
	for _, a := range t.nodes {
		for _, b := range t.nodes {
			if a != b {
				want[a] = append(want[a], b)
			}
		}
	}
	hasUDP := false
	for _, l := range t.links {
		if l.kind == "udp" {
			hasUDP = true
		}
	}
	if !mesh.WaitRoutes(want, 60*time.Second) {
		if hasUDP { // routing updates are datagrams too
			im.Hist("mesh:inconclusive-no-convergence-over-udp")
			im.Extra["mesh:"+t.name] = "inconclusive: no convergence within 60 s over a UDP link"
			return
		}
		im.Violate("mesh "+t.name+" did not converge within 60 s", "mesh-no-convergence", t.name)
		return
	}
	// listeners: bound names, an advertised one, an ephemeral one per node; readers with and without
	// deadlines, one with a short buffer
	type lst struct {
		node, svc string
		pc        netceptor.PacketConner
		bufLen    int
	}
	var listeners []*lst
	var recvMu sync.Mutex
	var recvs []recvRec
	var lwg sync.WaitGroup
	stop := make(chan struct{})
	var imMu sync.Mutex
	gViolate := func(what, sig string) { // from reader and sender goroutines
		imMu.Lock()
		im.Violate(what, sig, t.name)
		imMu.Unlock()
	}
	for ni, id := range t.nodes {
		names := serviceNames(r)
		names = append(names, fmt.Sprintf("adv%d", ni), "") // advertised, ephemeral
		for si, svc := range names {
			var pc netceptor.PacketConner
			var err error
			switch {
			case strings.HasPrefix(svc, "adv"):
				pc, err = mesh.Nodes[id].ListenPacketAndAdvertise(svc, map[string]string{"k": "v"})
			default:
				pc, err = mesh.Nodes[id].ListenPacket(svc)
			}
			if err != nil {
				im.Violate(fmt.Sprintf("ListenPacket(%q) on %q: %v", svc, id, err), "mesh-listen", nil)
				continue
			}
			if svc == "" { // the name the node chose
				svc = pc.LocalService()
				if len(svc) != 8 || pc.LocalAddr().String() != id+":"+svc {
					im.Violate(fmt.Sprintf("ephemeral listener on %q: LocalService %q, LocalAddr %q", id, svc, pc.LocalAddr().String()), "mesh-ephemeral-name", nil)
				}
				im.Hist("mesh:ephemeral-socket")
			} else if pc.LocalService() != svc || pc.LocalAddr().String() != id+":"+svc {
				im.Violate(fmt.Sprintf("listener %q:%q reports LocalService %q, LocalAddr %q", id, svc, pc.LocalService(), pc.LocalAddr().String()), "mesh-local-addr", nil)
			}
			// a second listener on a bound name is refused and does not disturb the first
			if _, err2 := mesh.Nodes[id].ListenPacket(svc); err2 == nil {
				im.Violate(fmt.Sprintf("a second ListenPacket(%q) on %q succeeds", svc, id), "mesh-listen-twice", nil)
			}
			l := &lst{id, svc, pc, consts.MTU + 100}
			mode := (ni + si) % 4 // 0,1: blocking reads; 2: SetReadDeadline; 3: SetDeadline
			if ni == 0 && si == 1 {
				l.bufLen = 64 // a reader with a short buffer gets the first 64 bytes
				im.Hist("mesh:short-buffer-reader")
			}
			listeners = append(listeners, l)
			lwg.Add(1)
			go func() {
				defer lwg.Done()
				buf := make([]byte, l.bufLen)
				for {
					switch mode {
					case 2:
						_ = l.pc.SetReadDeadline(time.Now().Add(40 * time.Millisecond))
					case 3:
						_ = l.pc.SetDeadline(time.Now().Add(40 * time.Millisecond))
					}
					n, addr, err := l.pc.ReadFrom(buf)
					if err == netceptor.ErrTimeout && mode >= 2 {
						if n != 0 || addr != nil {
							gViolate("ReadFrom returns data together with a timeout", "mesh-timeout-with-data")
						}
						select {
						case <-stop: // a read with a deadline does not notice Close
							return
						default:
						}
						continue
					}
					if err != nil {
						return
					}
					recvMu.Lock()
					recvs = append(recvs, recvRec{l.node, l.svc, addr.String(), append([]byte{}, buf[:n]...)})
					recvMu.Unlock()
				}
			}()
		}
	}
	// senders: one goroutine per listener socket, its own PRNG
	var sendMu sync.Mutex
	var sends []sendRec
	var swg sync.WaitGroup
	bigMu := sync.Mutex{}
	for _, l := range listeners {
		sr := NewRng(r.U64())
		l := l
		swg.Add(1)
		go func() {
			defer swg.Done()
			for k := 0; k < perSender; k++ {
				dst := listeners[sr.Intn(len(listeners))]
				toNode, toSvc, expect := dst.node, dst.svc, true
				addrNode := toNode
				switch k := sr.Intn(100); {
				case k < 4: // nobody listens there
					toSvc, expect = "nobody", false
				case k < 8: // the alias of the own node, in some spelling
					for _, l2 := range listeners {
						if l2.node == l.node && l2.svc != l.svc {
							dst = l2
						}
					}
					toNode, toSvc = l.node, dst.svc
					addrNode = []string{"localhost", "LocalHost", "LOCALHOST", "localhoſt"}[sr.Intn(4)]
				case k < 10: // a node nobody has heard of: no route, an error, no delivery
					toNode, addrNode, expect = "no-such-node", "no-such-node", false
				}
				var p []byte
				switch sr.Intn(10) {
				case 0:
					p = []byte{}
				case 1:
					p = sr.Bytes(1)
				case 2:
					bigMu.Lock()
					ok := *bigBudget > 0
					if ok {
						*bigBudget--
					}
					bigMu.Unlock()
					if ok {
						p = sr.Bytes(consts.MTU - []int{0, 0, 1, 36}[sr.Intn(4)])
					} else {
						p = sr.Bytes(2000 + sr.Intn(3000))
					}
				default:
					p = sr.Bytes(8 + sr.Intn(200))
				}
				sent := append([]byte{}, p...)
				nw, err := l.pc.WriteTo(p, mesh.Nodes[l.node].NewAddr(addrNode, toSvc))
				for j := range p { // the caller owns its buffer again once WriteTo has returned
					p[j] ^= 0xa5
				}
				p = sent
				if err == nil && nw != len(p) {
					gViolate(fmt.Sprintf("WriteTo of %d bytes returns %d", len(p), nw), "mesh-writeto-count")
				}
				if toNode == "no-such-node" {
					if err == nil {
						gViolate("WriteTo to a node without a route reports success", "mesh-writeto-no-route")
					}
					err = nil
				}
				sendMu.Lock()
				sends = append(sends, sendRec{l.node, l.svc, toNode, toSvc, p, expect, err, addrNode != toNode})
				sendMu.Unlock()
			}
			// an address of another network type is refused
			if _, err := l.pc.WriteTo([]byte("x"), &net.UDPAddr{IP: net.IPv4(127, 0, 0, 1), Port: 9}); err == nil {
				gViolate("WriteTo to a non-receptor address succeeds", "mesh-writeto-foreign-addr")
			}
		}()
		if t.sequential {
			swg.Wait()
		}
	}
	swg.Wait()
	expected := 0
	for _, s := range sends {
		if s.expect {
			expected++
		}
	}
	// wait for the deliveries: as long as datagrams keep arriving, and 20 s (1.5 s when only datagrams
	// that cross a UDP link are outstanding: those may be lost) beyond the last arrival, at most 120 s
	{
		idx0 := map[string]int{}
		for i, n := range t.nodes {
			idx0[n] = i
		}
		reliable := 0
		for _, s := range sends {
			if s.expect && !lossyPath(t, idx0[s.fromNode], idx0[s.toNode]) {
				reliable++
			}
		}
		lastN, lastT, start := -1, time.Now(), time.Now()
		for time.Since(start) < 120*time.Second {
			recvMu.Lock()
			n := len(recvs)
			recvMu.Unlock()
			if n >= expected {
				break
			}
			if n != lastN {
				lastN, lastT = n, time.Now()
			}
			patience := 20 * time.Second
			if n >= reliable && hasUDP { // a lower bound only: what is missing may all be UDP loss
				patience = 1500 * time.Millisecond
			}
			if time.Since(lastT) > patience {
				break
			}
			time.Sleep(5 * time.Millisecond)
		}
	}
	time.Sleep(150 * time.Millisecond) // anything delivered twice or elsewhere shows up now
	// ---------- names that do not fit the 8-byte field: refused, nothing delivered to anyone ----------
	{
		recvMu.Lock()
		before := len(recvs)
		recvMu.Unlock()
		tapMu.Lock()
		tapsBefore := len(taps)
		tapMu.Unlock()
		type lsend struct {
			from, fsvc, to, tsvc string
			err                  error
		}
		var ls []lsend
		for _, src := range t.nodes {
			sock := listeners[0].pc
			for _, l := range listeners {
				if l.node == src && l.svc == "abcdefgh" {
					sock = l.pc
				}
			}
			for _, dst := range t.nodes { // remote and local
				for _, n := range overLens {
					// destination: first 8 bytes name the live listener "abcdefgh" on dst
					tsvc := overlong(r, "abcdefgh", n)
					_, err := sock.WriteTo([]byte("overlong "+tsvc[:9]), mesh.Nodes[src].NewAddr(dst, tsvc))
					ls = append(ls, lsend{src, "abcdefgh", dst, tsvc, err})
					// source: first 8 bytes name the live listener "abcdefgh" on src
					fsvc := overlong(r, "abcdefgh", n)
					err = mesh.Nodes[src].SendMessageWithHopsToLive(fsvc, dst, "abcdefgh", []byte("overlong-src"), consts.MaxHops)
					ls = append(ls, lsend{src, fsvc, dst, "abcdefgh", err})
				}
			}
			if _, err := mesh.Nodes[src].ListenPacket(overlong(r, "abcdefgh", overLens[r.Intn(len(overLens))])); err == nil {
				im.Violate("ListenPacket accepts a service name longer than 8 bytes", "overlong-service-listen", t.name)
			}
		}
		time.Sleep(120 * time.Millisecond)
		accepted := 0
		for _, x := range ls {
			im.Count(fmt.Sprintf("overlong %s %q:%x->%q:%x", t.name, x.from, x.fsvc, x.to, x.tsvc), true)
			im.Hist("mesh:send-with-overlong-service")
			if x.err == nil {
				accepted++
				if accepted <= 2 {
					im.Violate(fmt.Sprintf("send %q:%q -> %q:%q (a service name of more than 8 bytes) is accepted", x.from, x.fsvc, x.to, x.tsvc), "overlong-service-accepted",
						map[string]interface{}{"topology": t.name, "from": x.from, "fsvc": x.fsvc, "to": x.to, "tsvc": x.tsvc})
				}
			}
		}
		recvMu.Lock()
		var late []recvRec // a datagram of the main traffic that arrives only now is not of this phase
		for _, d := range recvs[before:] {
			if !bytes.HasPrefix(d.payload, []byte("overlong")) {
				late = append(late, d)
				continue
			}
			im.Violate(fmt.Sprintf("listener %q:%q was handed a datagram (%q from %s) that was addressed to a longer service name", d.node, d.svc, string(d.payload[:min(len(d.payload), 18)]), d.from),
				"mesh-misdelivered:overlong-service", map[string]interface{}{"topology": t.name, "node": d.node, "svc": d.svc, "from": d.from})
		}
		recvs = append(recvs[:before], late...)
		recvMu.Unlock()
		tapMu.Lock()
		onWire := 0
		var lateTaps []tapRec
		for _, tp := range taps[tapsBefore:] {
			if len(tp.raw) >= 44 && bytes.HasPrefix(tp.raw[36:], []byte("overlong")) {
				onWire++
			} else {
				lateTaps = append(lateTaps, tp)
			}
		}
		if onWire > 0 {
			im.Violate(fmt.Sprintf("%d packets on the wire for sends that must be refused (over-long service name)", onWire), "overlong-service-on-the-wire", t.name)
		}
		taps = append(taps[:tapsBefore], lateTaps...)
		tapMu.Unlock()
	}
	close(stop)
	for _, l := range listeners {
		_ = l.pc.Close()
	}
	lwg.Wait()
	recvMu.Lock()
	tapMu.Lock()
	defer recvMu.Unlock()
	defer tapMu.Unlock()

	// ---------- oracle 1: deliveries = sends, per listener, with source and payload ----------
	type key struct{ node, svc, from, ph string }
	bufLens := map[string]int{}
	for _, l := range listeners {
		bufLens[l.node+"\x00"+l.svc] = l.bufLen
	}
	exp := map[key]int{}
	lossyKey := map[key]bool{} // datagrams whose path crosses a UDP link: may be lost, may be duplicated
	udpSent, udpLost, udpDup := 0, 0, 0
	byPayload := map[string][]sendRec{}
	idx := map[string]int{}
	for i, n := range t.nodes {
		idx[n] = i
	}
	for _, s := range sends {
		if _, known := idx[s.toNode]; !known {
			im.Count(fmt.Sprintf("send %s %q -> unknown node", t.name, s.fromNode), true)
			im.Hist("mesh:send-to-unknown-node")
			continue
		}
		if s.alias {
			im.Hist("mesh:send-to-localhost-alias")
		}
		hops := len(treePath(t, idx[s.fromNode], idx[s.toNode])) - 1
		im.Count(fmt.Sprintf("send %s %q:%x->%q:%x %s", t.name, s.fromNode, s.fromSvc, s.toNode, s.toSvc, pHash(s.payload)), hops >= 1)
		im.Hist(fmt.Sprintf("mesh:send-over-%d-links", hops))
		switch {
		case len(s.payload) == 0:
			im.Hist("mesh:payload-0")
		case len(s.payload) >= consts.MTU-36:
			im.Hist("mesh:payload-near-MTU")
		}
		if len(s.fromSvc) == 8 || len(s.toSvc) == 8 {
			im.Hist("mesh:8-byte-service")
		}
		if s.expect {
			seen := s.payload
			if bl, ok := bufLens[s.toNode+"\x00"+s.toSvc]; ok && len(seen) > bl {
				seen = seen[:bl]
			}
			k := key{s.toNode, s.toSvc, s.fromNode + ":" + s.fromSvc, pHash(seen)}
			exp[k]++
			lossy := lossyPath(t, idx[s.fromNode], idx[s.toNode])
			if lossy {
				lossyKey[k] = true
				udpSent++
			}
			byPayload[pHash(seen)] = append(byPayload[pHash(seen)], s)
			if s.err != nil && !lossy {
				im.Violate(fmt.Sprintf("WriteTo %q:%x on a converged mesh fails: %v", s.toNode, s.toSvc, s.err), "mesh-writeto-error", nil)
			}
		} else {
			im.Hist("mesh:send-to-unbound-service")
		}
	}
	replay := func(what string, x interface{}) map[string]interface{} {
		return map[string]interface{}{"topology": t.name, "nodes": t.nodes, "what": what, "detail": fmt.Sprintf("%+v", x)}
	}
	for _, d := range recvs {
		k := key{d.node, d.svc, d.from, pHash(d.payload)}
		if exp[k] > 0 {
			exp[k]--
			continue
		}
		if lossyKey[k] { // the right listener, source and payload once more: a datagram network may duplicate
			udpDup++
			continue
		}
		// classify
		cands := byPayload[pHash(d.payload)]
		sig, what := "mesh-corrupt-or-spurious", fmt.Sprintf("listener %q:%x read %d bytes from %q that nobody sent to it", d.node, d.svc, len(d.payload), d.from)
		for _, s := range cands {
			switch {
			case s.toNode == d.node && s.toSvc == d.svc && s.fromNode+":"+s.fromSvc == d.from:
				sig, what = "mesh-duplicate", fmt.Sprintf("datagram %q:%x -> %q:%x delivered more than once", s.fromNode, s.fromSvc, s.toNode, s.toSvc)
			case s.toNode == d.node && s.toSvc == d.svc:
				sig, what = "mesh-wrong-source", fmt.Sprintf("datagram from %q:%x arrives at %q:%x with source %q", s.fromNode, s.fromSvc, d.node, d.svc, d.from)
			default:
				sig, what = "mesh-misdelivered", fmt.Sprintf("datagram for %q:%x was handed to listener %q:%x", s.toNode, s.toSvc, d.node, d.svc)
			}
		}
		im.Violate(what, sig, replay(sig, d.from))
	}
	lost := 0
	for k, n := range exp {
		if n > 0 && lossyKey[k] { // no delivery guarantee over UDP: counted, not judged
			udpLost += n
			continue
		}
		if n > 0 {
			lost += n
			if lost <= 3 {
				im.Violate(fmt.Sprintf("datagram %s -> %q:%x (%s) was never delivered (or delivered altered) on %s", k.from, k.node, k.svc, k.ph[:12], t.name), "mesh-lost", replay("lost", k))
			}
		}
	}
	if hasUDP {
		im.Histogram["mesh:udp-datagrams-sent"] += udpSent
		im.Histogram["mesh:udp-datagrams-lost"] += udpLost
		im.Histogram["mesh:udp-datagrams-duplicated"] += udpDup
		im.Extra["mesh-udp:"+t.name] = fmt.Sprintf("udp-loss: %d of %d datagrams whose path crosses the UDP link did not arrive (not judged); %d arrived more than once (not judged); the %d that arrived were judged for listener, source and payload",
			udpLost, udpSent, udpDup, udpSent-udpLost)
		if udpSent > 0 && udpSent == udpLost {
			im.Hist("mesh:inconclusive-nothing-crossed-the-udp-link")
			im.Extra["mesh-udp:"+t.name] = fmt.Sprintf("inconclusive: none of %d datagrams crossed the UDP link", udpSent)
		}
	}
	im.Extra["mesh:"+t.name] = map[string]interface{}{"nodes": t.nodes, "listeners": len(listeners), "sends": len(sends), "deliveries": len(recvs),
		"wire_packets": len(taps), "stream_chunks": st.chunks, "stream_bytes": st.bytes, "stream_chunks_splitting_a_header": st.hdrSplit, "stream_one_byte_chunks": st.oneByte, "stream_chunks_spanning_frames": st.straddle}
	im.Sample(map[string]interface{}{"kind": "mesh", "topology": t.name, "nodes": t.nodes, "sends": len(sends), "deliveries": len(recvs), "wire_packets": len(taps)})

	// ---------- oracle 2: on the wire a packet changes only in its hop byte ----------
	// the observer is a real node that knows every name; it decodes what the taps saw
	obsCtx, obsCancel := context.WithCancel(context.Background())
	defer obsCancel()
	obs := newNode(obsCtx, "observer")
	defer obs.Shutdown()
	hs := &hashSet{}
	hs.add("observer")
	var ops []string
	for _, n := range t.nodes {
		hs.add(n)
		ops = append(ops, fmt.Sprintf("WAdd %s %d", HxS(n), obs.AddNameHash(n)))
	}
	type wkey struct {
		a, b, from, fsvc, to, tsvc, ph string
		hops                           int
	}
	wexp := map[wkey]int{}
	wlossy := map[wkey]bool{} // packets of datagrams that cross a UDP link: may be missing further down, may repeat
	for _, s := range sends {
		if _, known := idx[s.toNode]; !known {
			continue
		}
		p := treePath(t, idx[s.fromNode], idx[s.toNode])
		lossy := lossyPath(t, idx[s.fromNode], idx[s.toNode])
		for i := 0; i+1 < len(p); i++ {
			if lossy {
				wlossy[wkey{t.nodes[p[i]], t.nodes[p[i+1]], s.fromNode, s.fromSvc, s.toNode, s.toSvc, pHash(s.payload), int(consts.MaxHops) - (i + 1)}] = true
			}
			wexp[wkey{t.nodes[p[i]], t.nodes[p[i+1]], s.fromNode, s.fromSvc, s.toNode, s.toSvc, pHash(s.payload), int(consts.MaxHops) - (i + 1)}]++
		}
	}
	firstRaw := map[string][]byte{}
	notices := 0
	for _, tp := range taps {
		md, err := obs.VerifTranslateDataToMessage(tp.raw)
		if err != nil {
			im.Violate("a packet seen on the wire is not decodable by a node that knows all names: "+err.Error(), "wire-undecodable", fmt.Sprintf("%x", tp.raw[:min(len(tp.raw), 64)]))
			continue
		}
		if md.FromService == "unreach" {
			notices++
			continue
		}
		k := wkey{tp.a, tp.b, md.FromNode, md.FromService, md.ToNode, md.ToService, pHash(md.Data), int(md.HopsToLive)}
		if wexp[k] > 0 {
			wexp[k]--
		} else if wlossy[k] {
			// a repeated datagram below a UDP link: not judged
		} else {
			im.Violate(fmt.Sprintf("unexpected packet on link %q->%q: %q:%x -> %q:%x hops %d", tp.a, tp.b, md.FromNode, md.FromService, md.ToNode, md.ToService, md.HopsToLive),
				"wire-unexpected-packet", replay("wire", k))
		}
		id := fmt.Sprintf("%q|%q|%q|%q|%s", md.FromNode, md.FromService, md.ToNode, md.ToService, pHash(md.Data))
		z := append([]byte{}, tp.raw...)
		z[1] = 0
		if f, ok := firstRaw[id]; !ok {
			firstRaw[id] = z
		} else if !bytes.Equal(f, z) {
			im.Violate("the same datagram differs on two links in more than its hop byte", "wire-forward-alters-packet", replay("wire", id))
		}
		im.Count("wire "+t.name+" "+tp.a+">"+tp.b+" "+id+fmt.Sprint(md.HopsToLive), true)
		// a sample of real wire packets goes to the model's decoder
		if (len(tp.raw) < 300 && *wireCases < 400 && len(ops) < 120) || (len(tp.raw) > 16000 && *wireCases < 403) {
			term, _ := coqDres(md, nil)
			ops = append(ops, fmt.Sprintf("WDec %s %s", Hx(tp.raw), term))
			*wireCases++
		}
	}
	missing := 0
	for k, n := range wexp {
		if n > 0 && wlossy[k] {
			continue
		}
		if n > 0 {
			missing += n
			if missing <= 3 {
				im.Violate(fmt.Sprintf("packet %q:%x -> %q:%x (hops %d) never seen on link %q->%q", k.from, k.fsvc, k.to, k.tsvc, k.hops, k.a, k.b), "wire-missing-packet", replay("wire", k))
			}
		}
	}
	im.Histogram["mesh:unreach-notices-on-wire"] += notices
	cf.Add(fmt.Sprintf("inl (WCase %s %s %s)", HxS("observer"), hs.coq(), CoqList(ops)), "wire packets tapped on mesh "+t.name)
	_ = sort.Strings
}
