package main

// C18 — service advertisements converge; a withdrawn service is never resurrected; an older
// advertisement never replaces a newer one.
// (a) white-box, step-exact: handleServiceAdvertisement on one real node with fake connections,
//     compared with Model/Ads.v after every step; (b) real meshes with listeners opened and
//     closed, late joiners and delaying/reordering links: every node's advertisement table
//     against the set of advertised listeners actually open on reachable live nodes.

import (
	"sync/atomic"
	"sync"
	"context"
	"encoding/json"
	"fmt"
	"os"
	"runtime"
	"sort"
	"strings"
	"time"

	. "verifharness/lib"

	"github.com/ansible/receptor/pkg/logger"
	"github.com/ansible/receptor/pkg/netceptor"
)

func main() { Main("C18", run, nil) }

var t0 = time.Date(2026, 1, 1, 0, 0, 0, 0, time.UTC)

type adMsg struct {
	NodeID   string
	Service  string
	Time     time.Time
	ConnType byte
	Tags     map[string]string
	Cancel   bool
}

type adIn struct {
	Node    string `json:"node"`
	Svc     string `json:"svc"`
	T       int    `json:"t"`
	Cancel  bool   `json:"cancel"`
	Body    int    `json:"body"`
	Recv    string `json:"recv"`
	Comment string `json:"kind"`
}

func (a adIn) wire() []byte {
	m := adMsg{NodeID: a.Node, Service: a.Svc, Time: t0.Add(time.Duration(a.T) * time.Millisecond), ConnType: byte(a.Body % 3),
		Tags: map[string]string{"b": fmt.Sprint(a.Body)}, Cancel: a.Cancel}
	if a.Cancel {
		m.Tags = nil
	}
	j, _ := json.Marshal(m)
	return append([]byte{netceptor.MsgTypeServiceAdvertisement}, j...)
}

type adObs struct {
	Ads    map[string]map[string][2]int // node -> svc -> (t, body)
	Relays [][5]interface{}             // conn, node, svc, t, cancel
}

func settle(base int) {
	for i := 0; i < 200000; i++ {
		runtime.Gosched()
		if runtime.NumGoroutine() <= base {
			return
		}
		if i > 2000 {
			time.Sleep(50 * time.Microsecond)
		}
	}
}

func tOf(x time.Time) int { return int(x.Sub(t0) / time.Millisecond) }

type ids struct {
	m map[string]uint64
}

func (n *ids) id(s string) uint64 {
	if v, ok := n.m[s]; ok {
		return v
	}
	v := uint64(len(n.m))
	n.m[s] = v
	return v
}

func coqAds(nm *ids, ads map[string]map[string][2]int) string {
	type se struct {
		k    uint64
		t, b int
	}
	type ne struct {
		k uint64
		s string
	}
	var ns []ne
	for n, m := range ads {
		var ss []se
		for s, v := range m {
			ss = append(ss, se{nm.id("svc:" + s), v[0], v[1]})
		}
		sort.Slice(ss, func(i, j int) bool { return ss[i].k < ss[j].k })
		xs := make([]string, len(ss))
		for i, x := range ss {
			xs[i] = fmt.Sprintf("(%d, (%d, %d))", x.k, x.t, x.b)
		}
		ns = append(ns, ne{nm.id(n), CoqList(xs)})
	}
	sort.Slice(ns, func(i, j int) bool { return ns[i].k < ns[j].k })
	ys := make([]string, len(ns))
	for i, x := range ns {
		ys[i] = fmt.Sprintf("(%d, %s)", x.k, x.s)
	}
	return CoqList(ys)
}

func runHistory(im *Impl, r *Rng, h int, seed uint64) (string, string, bool) {
	nconn := 1 + r.Intn(3)
	if r.Chance(10) {
		nconn = 0
	}
	var conns []string
	for i := 0; i < nconn; i++ {
		conns = append(conns, fmt.Sprintf("c%d", i))
	}
	WaitGoroutinesAtMost(globalBase, 3*time.Second) // the previous history's node is gone
	ctx, cancel := context.WithCancel(context.Background())
	defer cancel()
	n := netceptor.NewWithConsts(ctx, "self", 16384, time.Hour, time.Hour, time.Hour, 30, time.Hour)
	chans := map[string]chan []byte{}
	for _, c := range conns {
		ch, _ := n.VerifAddConn(c, 1, 4096)
		chans[c] = ch
	}
	base := StableGoroutines(time.Second)
	nm := &ids{m: map[string]uint64{"": 0, "self": 1}}
	for _, c := range conns {
		nm.id(c)
	}
	nodes := []string{"na", "nb"}
	if r.Chance(30) {
		nodes = append(nodes, conns...)
	}
	svcs := []string{"s1", "s2"}
	maxCancel := map[string]int{} // newest withdrawal delivered per node/svc
	hlen := 1 + r.Intn(25)
	var hs []string
	var kinds []string
	sawCancelThenOld := false
	prev := map[string]map[string][2]int{}
	for i := 0; i < hlen; i++ {
		a := adIn{Node: nodes[r.Intn(len(nodes))], Svc: svcs[r.Intn(len(svcs))], T: 1 + r.Intn(12), Cancel: r.Chance(30), Body: r.Intn(4)}
		a.Recv = "elsewhere"
		if len(conns) > 0 && r.Chance(92) {
			a.Recv = conns[r.Intn(len(conns))]
		}
		key := a.Node + "/" + a.Svc
		cur, have := prev[a.Node][a.Svc]
		switch {
		case have && a.T <= cur[0]:
			a.Comment = "not-newer"
		case !a.Cancel && maxCancel[key] >= a.T && maxCancel[key] > 0:
			a.Comment = "older-than-withdrawal"
			sawCancelThenOld = true
		case a.Cancel && !have:
			a.Comment = "withdrawal-of-unlisted"
		case a.Cancel:
			a.Comment = "withdrawal"
		default:
			a.Comment = "newer"
		}
		kinds = append(kinds, a.Comment)
		im.Hist("ad:" + a.Comment)
		err := n.VerifHandleServiceAdvertisement(a.wire(), a.Recv)
		if err != nil {
			im.Violate("well-formed advertisement refused: "+err.Error(), "ad-refused", a)
		}
		settle(base)
		o := adObs{Ads: map[string]map[string][2]int{}}
		for nn, m := range n.VerifServiceAds() {
			for s, ad := range m {
				if o.Ads[nn] == nil {
					o.Ads[nn] = map[string][2]int{}
				}
				b := 0
				fmt.Sscan(ad.Tags["b"], &b)
				o.Ads[nn][s] = [2]int{tOf(ad.Time), b}
			}
		}
		var cs []string
		for c := range chans {
			cs = append(cs, c)
		}
		sort.Strings(cs)
		var rels []string
		nrel := 0
		for _, c := range cs {
			for _, m := range Drain(chans[c]) {
				if len(m) == 0 || m[0] != netceptor.MsgTypeServiceAdvertisement {
					continue
				}
				var am adMsg
				if json.Unmarshal(m[1:], &am) != nil {
					continue
				}
				nrel++
				rels = append(rels, fmt.Sprintf("(%d, %d, %d, %d, %s)", nm.id(c), nm.id(am.NodeID), nm.id("svc:"+am.Service), tOf(am.Time), CoqBool(am.Cancel)))
				if c == a.Recv {
					im.Violate("advertisement relayed back to the neighbour it came from", "ad-relayed-back", a)
				}
			}
		}
		// ---- model-independent oracle ----
		// a withdrawal is learned when it is newer than what the node lists (or the node lists
		// nothing): one that is not newer than the listed advertisement is itself the older message
		if a.Cancel && (!have || a.T > cur[0]) && maxCancel[key] < a.T {
			maxCancel[key] = a.T
		}
		if a.Comment == "not-newer" {
			if fmt.Sprint(o.Ads) != fmt.Sprint(prev) {
				im.Violate("an advertisement that is not newer than the stored one changed the table", "older-replaced-newer", a)
			}
			if nrel > 0 {
				im.Violate("an advertisement that is not newer than the stored one was relayed", "older-relayed", a)
			}
		}
		for nn, m := range o.Ads {
			for s, v := range m {
				if mc, ok := maxCancel[nn+"/"+s]; ok && v[0] <= mc {
					im.Violate(fmt.Sprintf("service %s/%s is listed with time %d although a withdrawal with time %d had been learned", nn, s, v[0], mc),
						"withdrawn-resurrected", map[string]interface{}{"history_seed": seed, "history": h, "step": i, "input": a})
				}
			}
		}
		if a.Comment == "withdrawal-of-unlisted" && nrel > 0 {
			im.Hist("note:withdrawal-of-unlisted-relayed")
		}
		hs = append(hs, fmt.Sprintf("({| a_node := %d; a_svc := %d; a_time := %d; a_cancel := %s; a_body := %d |}, %d, {| ao_ads := %s; ao_relays := %s |})",
			nm.id(a.Node), nm.id("svc:"+a.Svc), a.T, CoqBool(a.Cancel), a.Body, nm.id(a.Recv), coqAds(nm, o.Ads), CoqList(rels)))
		prev = o.Ads
	}
	cl := make([]string, len(conns))
	for i, c := range conns {
		cl[i] = CoqN(nm.id(c))
	}
	label := fmt.Sprintf("ads history seed=%d#%d conns=%v kinds=%v", seed, h, conns, kinds)
	return fmt.Sprintf("(CHist {| ac_conns := %s; ac_hist := %s |})", CoqList(cl), CoqList(hs)), label, sawCancelThenOld
}

var globalBase int

func run(c *Ctx) {
	QuietLogs()
	globalBase = runtime.NumGoroutine()
	im := NewImpl("C18", c.Seed, c.Tier)
	im.Rule = "white-box histories of 1-25 advertisements/withdrawals (2-5 nodes x 2 services, timestamps 1..12 so that equal/older/newer and withdrawal-then-older all occur) delivered to one real node; non-trivial = the history contains an advertisement older than a withdrawal already delivered; delayed copies: nodes whose seen-update expiry is 300 ms (its sweep runs every 150 ms) receive an advertisement, its withdrawal and then copies of older advertisements at once and after 0.5-1.2 s of the node's housekeeping timers, with message stamps both far in the past and of the moment; non-trivial = a copy delivered after at least two sweeps; mesh scenarios: non-trivial = at least one listener closed and one late joiner; distinct by full history"
	cf := &CaseFile{Dir: c.Out, Prop: "C18", Imports: []string{"Model.AdsConc"}, CaseType: "c18x_case", CheckFn: checkFn(), PerShard: 80}
	nh := 800
	if c.Thorough() {
		nh = 8000
	}
	onlyLocal := os.Getenv("VERIF_C18_PHASE") == "local" // debugging aid: only the local-listener histories
	if onlyLocal {
		nh = 0
	}
	for h := 0; h < nh; h++ {
		r := NewRng(c.Seed*7919 + uint64(h))
		term, label, nt := runHistory(im, r, h, c.Seed)
		cf.Add("(XSeq "+term+")", label)
		im.Count(label, nt)
		if h < 2 {
			im.Sample(label)
		}
	}
	nl := 150
	if c.Thorough() {
		nl = 1500
	}
	for h := 0; h < nl; h++ {
		r := NewRng(c.Seed*15485863 + uint64(h))
		term, label, nt := runLocalHistory(im, r, h, c.Seed)
		cf.Add("(XSeq "+term+")", label)
		im.Count(label, nt)
	}
	if !onlyLocal {
		concurrentAds(c, im, cf)
		delayedAfterSweeps(c, im)
		periodicVsClose(c, im)
		meshScenarios(c, im)
	}
	Must(cf.Write())
	Must(im.Write(c.Out))
}

// ---------- mesh level ----------

func adSet(n *netceptor.Netceptor) map[string]bool {
	out := map[string]bool{}
	for _, ad := range n.Status().Advertisements {
		out[adKey(ad.NodeID, ad.Service, ad.Tags["k"], ad.Tags["type"], ad.ConnType, ad.WorkCommands)] = true
	}
	return out
}

// adKey: everything the property says a listing carries - owner, service, tags and connection type; the
// first three fields stay "/"-separated for the prefix tests
func adKey(node, svc, tag, typ string, connType byte, wc []netceptor.WorkCommand) string {
	// (the work commands are deliberately NOT part of the key: the property speaks of type and tags; the
	// owner's own Status() decorates every own service with its work types, other nodes see them on control
	// services only - recorded as an observation, not judged)
	k := fmt.Sprintf("%s/%s/%s", node, svc, tag)
	if typ != "" || connType != netceptor.ConnTypeDatagram {
		k += fmt.Sprintf("|type=%s|conn=%d", typ, connType)
	}
	return k
}

type closer interface{ Close() error }

func meshScenarios(c *Ctx, im *Impl) {
	r := c.Rng
	ns := 3
	if c.Thorough() {
		ns = 20
	}
	for t := 0; t < ns; t++ {
		n := 3 + r.Intn(3)
		m := NewMesh(FastConsts())
		names := make([]string, n)
		for i := range names {
			names[i] = fmt.Sprintf("m%d", i)
		}
		late := names[n-1] // joins after the listeners were opened
		for _, id := range names[:n-1] {
			m.AddNode(id)
		}
		delay := func(b []byte) ([][]byte, time.Duration) {
			return [][]byte{b}, time.Duration(r.Intn(30)) * time.Millisecond // independent delays reorder messages
		}
		connect := func(a, b string) {
			l, err := m.Connect(a, b, 1)
			if err == nil && r.Chance(70) {
				l.EndA.SetFilter(delay)
				l.EndB.SetFilter(delay)
			}
		}
		// a chain (tree): no cycles, so that the withdrawal storm of the pinned tree cannot mask results
		for i := 1; i < n-1; i++ {
			connect(names[r.Intn(i)], names[i])
		}
		open := map[string]closer{}
		want := map[string]bool{}
		nopen := 2 + r.Intn(4)
		// the first node offers work types: its control-service advertisements carry them, nobody else's do
		workCmds := []netceptor.WorkCommand{{WorkType: "wt-a", Secure: false}, {WorkType: "wt-b", Secure: true}}
		for _, wc := range workCmds {
			_ = m.Nodes[names[0]].AddWorkCommand(wc.WorkType, wc.Secure)
		}
		for k := 0; k < nopen; k++ {
			node := names[r.Intn(n-1)]
			svc := fmt.Sprintf("sv%d", k)
			tag := fmt.Sprintf("k%d", r.Intn(1000))
			tags := map[string]string{"k": tag}
			typ := ""
			var wc []netceptor.WorkCommand
			if k == 0 || r.Chance(30) { // a control service (on the node with work types at least once)
				typ = "Control Service"
				if k == 0 {
					node = names[0]
				}
				tags["type"] = typ
				if node == names[0] {
					wc = workCmds
				}
			}
			var cl closer
			var err error
			connType := netceptor.ConnTypeDatagram
			if r.Chance(35) { // a stream listener
				connType = netceptor.ConnTypeStream
				cl, err = m.Nodes[node].ListenAndAdvertise(svc, nil, tags)
			} else {
				cl, err = m.Nodes[node].ListenPacketAndAdvertise(svc, tags)
			}
			if err != nil {
				continue
			}
			key := adKey(node, svc, tag, typ, byte(connType), wc)
			open[key] = cl
			want[key] = true
		}
		time.Sleep(time.Duration(100+r.Intn(400)) * time.Millisecond)
		// close some, reopen one with another tag
		closed := 0
		for k, pc := range open {
			if r.Chance(45) {
				_ = pc.Close()
				delete(want, k)
				closed++
			}
		}
		m.AddNode(late)
		connect(names[r.Intn(n-1)], late)
		time.Sleep(1500 * time.Millisecond) // several advertisement periods (300 ms) after the last event
		rec := map[string]interface{}{"nodes": n, "opened": nopen, "closed": closed, "want": fmt.Sprint(want)}
		for _, id := range names {
			got := adSet(m.Nodes[id])
			if fmt.Sprint(got) != fmt.Sprint(want) {
				im.Violate(fmt.Sprintf("node %s lists %v, the advertised listeners open on the mesh are %v", id, got, want), "mesh-ads-not-converged", rec)
			}
		}
		// the same knowledge through the query interface: GetServiceInfo answers exactly for the listed services
		for _, id := range names {
			nd := m.Nodes[id]
			for _, owner := range names {
				for k := 0; k < nopen+1; k++ {
					svc := fmt.Sprintf("sv%d", k)
					info, found := nd.GetServiceInfo(owner, svc)
					wantKey, wanted := "", false
					for w := range want {
						parts := strings.SplitN(w, "/", 3)
						if parts[0] == owner && parts[1] == svc {
							wantKey, wanted = w, true
						}
					}
					switch {
					case found != wanted:
						im.Violate(fmt.Sprintf("node %s: GetServiceInfo(%s, %s) found=%v, but the listener is open=%v", id, owner, svc, found, wanted), "service-info-wrong", rec)
					case found && adKey(info.NodeID, info.Service, info.Tags["k"], info.Tags["type"], info.ConnType, info.WorkCommands) != wantKey:
						im.Violate(fmt.Sprintf("node %s: GetServiceInfo(%s, %s) returns %s/%s tags %v conn %d work %v, want %s", id, owner, svc, info.NodeID, info.Service, info.Tags, info.ConnType, info.WorkCommands, wantKey), "service-info-wrong", rec)
					}
				}
			}
		}
		im.Hist("mesh:get-service-info")
		// a node that stops WITHOUT withdrawing: the others must stop listing its services
		// (only "live nodes it can reach" are to be listed)
		if t == 0 || r.Chance(30) {
			var victim string
			for k := range want {
				victim = strings.SplitN(k, "/", 2)[0]
				break
			}
			if victim != "" && victim != late {
				m.StopNode(victim)
				time.Sleep(1200 * time.Millisecond) // four advertisement periods, six route-update periods
				for _, id := range names {
					if id == victim || m.Nodes[id] == nil {
						continue
					}
					for k := range adSet(m.Nodes[id]) {
						if strings.HasPrefix(k, victim+"/") {
							im.Violate(fmt.Sprintf("node %s still lists %s although node %s stopped %v ago", id, k, victim, 1200*time.Millisecond),
								"dead-node-still-listed", rec)
						}
					}
				}
				im.Hist("mesh:node-stopped-without-withdrawing")
			}
		}
		m.Shutdown()
		im.Hist("mesh:scenario")
		im.Count(fmt.Sprintf("mesh %d %v", t, rec), closed > 0)
	}
}

// checkFn: VERIF_C18_PINNED=1 compares with the model of the pinned (pre-fix) tree instead.
func checkFn() string {
	if os.Getenv("VERIF_C18_PINNED") != "" {
		return "c18x_check_pinned"
	}
	return "c18x_check"
}

// runLocalHistory: the node's OWN listeners opened and closed (ListenPacketAndAdvertise /
// Close) interleaved with advertisements about the node itself coming back from the mesh
// (older echoes, and forged newer ones) and about other nodes; step-exact against ad_step.
func runLocalHistory(im *Impl, r *Rng, h int, seed uint64) (string, string, bool) {
	conns := []string{"c0", "c1"}[:1+r.Intn(2)]
	WaitGoroutinesAtMost(globalBase, 3*time.Second) // the previous history's node is gone
	ctx, cancel := context.WithCancel(context.Background())
	defer cancel()
	n := netceptor.NewWithConsts(ctx, "self", 16384, time.Hour, time.Hour, time.Hour, 30, time.Hour)
	chans := map[string]chan []byte{}
	for _, c := range conns {
		ch, _ := n.VerifAddConn(c, 1, 4096)
		chans[c] = ch
	}
	base := StableGoroutines(time.Second)
	nm := &ids{m: map[string]uint64{"": 0, "self": 1}}
	for _, c := range conns {
		nm.id(c)
	}
	svcs := []string{"s1", "s2"}
	open := map[string]netceptor.PacketConner{}
	closedAt := map[string]int{} // time of the last local close
	var hs, kinds []string
	echoAfterClose := false
	observe := func() (map[string]map[string][2]int, string, int) {
		// each open socket keeps a few goroutines of its own, so "back at the baseline" cannot be tested
		// exactly here: wait until the number of goroutines has stopped changing (the relays of this step are
		// written by short-lived goroutines; on a loaded machine one of them may still be on its way)
		settle(base + len(open)*4)
		StableGoroutines(200 * time.Millisecond)
		ads := map[string]map[string][2]int{}
		for nn, m := range n.VerifServiceAds() {
			for s, ad := range m {
				if ads[nn] == nil {
					ads[nn] = map[string][2]int{}
				}
				b := 0
				fmt.Sscan(ad.Tags["b"], &b)
				ads[nn][s] = [2]int{tOf(ad.Time), b}
			}
		}
		var cs []string
		for c := range chans {
			cs = append(cs, c)
		}
		sort.Strings(cs)
		var rels []string
		ct := 0
		for _, c := range cs {
			for _, m := range Drain(chans[c]) {
				if len(m) == 0 || m[0] != netceptor.MsgTypeServiceAdvertisement {
					continue
				}
				var am adMsg
				if json.Unmarshal(m[1:], &am) != nil {
					continue
				}
				ct = tOf(am.Time)
				rels = append(rels, fmt.Sprintf("(%d, %d, %d, %d, %s)", nm.id(c), nm.id(am.NodeID), nm.id("svc:"+am.Service), tOf(am.Time), CoqBool(am.Cancel)))
			}
		}
		return ads, CoqList(rels), ct
	}
	hlen := 2 + r.Intn(10)
	var firstOpen time.Time // opening a listener asks for a re-advertisement 5 s later (tickrunner): a history
	// that has not finished by then (a badly loaded machine) sees that timer's messages, which are not part
	// of the step-by-step model; such a history is not compared
	for i := 0; i < hlen; i++ {
		svc := svcs[r.Intn(len(svcs))]
		switch x := r.Intn(100); {
		case x < 30 && open[svc] == nil:
			body := r.Intn(4)
			pc, err := n.ListenPacketAndAdvertise(svc, map[string]string{"b": fmt.Sprint(body)})
			if err != nil {
				continue
			}
			open[svc] = pc
			if firstOpen.IsZero() {
				firstOpen = time.Now()
			}
			ads, rels, _ := observe()
			t := ads["self"][svc][0]
			hs = append(hs, fmt.Sprintf("(EvLocalAdd %d %d %d, {| ao_ads := %s; ao_relays := %s |})", nm.id("svc:"+svc), t, body, coqAds(nm, ads), rels))
			kinds = append(kinds, "local-open")
		case x < 55 && open[svc] != nil:
			_ = open[svc].Close()
			delete(open, svc)
			ads, rels, ct := observe()
			closedAt[svc] = ct
			if _, still := ads["self"][svc]; still {
				im.Violate("a closed local listener is still advertised locally", "local-close-still-listed", svc)
			}
			hs = append(hs, fmt.Sprintf("(EvLocalRemove %d %d, {| ao_ads := %s; ao_relays := %s |})", nm.id("svc:"+svc), ct, coqAds(nm, ads), rels))
			kinds = append(kinds, "local-close")
		default:
			// a message about this node (echo of an old own advertisement, or a forged newer one) or about another node
			a := adIn{Node: "self", Svc: svc, T: 1 + r.Intn(50), Cancel: r.Chance(20), Body: r.Intn(4), Recv: conns[r.Intn(len(conns))]}
			if r.Chance(30) {
				a.Node = "na"
			}
			if r.Chance(15) {
				a.T = 40000000000 + r.Intn(1000) // far in the future: newer than anything local
			}
			_ = n.VerifHandleServiceAdvertisement(a.wire(), a.Recv)
			ads, rels, _ := observe()
			if a.Node == "self" && !a.Cancel && open[svc] == nil && closedAt[svc] > a.T {
				echoAfterClose = true
				// listed again with a time that is not newer than the node's own withdrawal
				if v, listed := ads["self"][svc]; listed && v[0] <= closedAt[svc] {
					im.Violate("an old advertisement of a service this node has closed lists it again on the node itself", "own-withdrawn-resurrected", a)
				}
			}
			hs = append(hs, fmt.Sprintf("(EvRecv {| a_node := %d; a_svc := %d; a_time := %d; a_cancel := %s; a_body := %d |} %d, {| ao_ads := %s; ao_relays := %s |})",
				nm.id(a.Node), nm.id("svc:"+a.Svc), a.T, CoqBool(a.Cancel), a.Body, nm.id(a.Recv), coqAds(nm, ads), rels))
			kinds = append(kinds, "recv")
		}
	}
	for _, pc := range open {
		_ = pc.Close()
	}
	cl := make([]string, len(conns))
	for i, c := range conns {
		cl[i] = CoqN(nm.id(c))
	}
	label := fmt.Sprintf("local history seed=%d#%d kinds=%v", seed, h, kinds)
	if !firstOpen.IsZero() && time.Since(firstOpen) > 4*time.Second {
		im.Hist("local-history:not-compared-too-slow")
		hs = nil
	}
	im.Hist("local-history")
	return fmt.Sprintf("(CEv {| ec_conns := %s; ec_hist := %s |})", CoqList(cl), CoqList(hs)), label, echoAfterClose
}

// periodicVsClose: the periodic re-advertisement racing with listeners being closed, with a slow
// log sink (every "Sending service advertisement" line costs 300 microseconds, as a busy log
// destination would).  Model-independent oracle on the owner's OUTPUT: once the owner has sent
// the withdrawal of a service (time tc), it never sends an advertisement of that service with a
// time that is not older than tc — otherwise every other node lists the closed service again,
// whatever the delivery order (C18 "a withdrawn service is never resurrected").
// concurrentAds: every session delivers from its own goroutine, so several advertisements and
// withdrawals of one service can be inside handleServiceAdvertisement at once.  Per round a batch of 2-5
// messages about ONE service (distinct timestamps around what the node already lists; advertisements,
// withdrawals, sometimes an exact copy arriving over a second connection) is delivered by as many
// goroutines released together.  Oracle from the property text: afterwards the node lists the service with
// the newest advertisement's time iff the newest message is an advertisement (older never replaces newer,
// a withdrawn service is not resurrected), and no message is relayed twice to one connection.  Model: the
// table and the multiset of relays must be what Model/Ads.v handle_ad yields for SOME order of the batch
// (Model/AdsConc.v conc_ads_check).
func concurrentAds(c *Ctx, im *Impl, cf *CaseFile) {
	rounds := 1500
	if c.Thorough() {
		rounds = 12000
	}
	r := NewRng(c.Seed ^ 0xc18c18)
	conns := []string{"k0", "k1", "k2", "k3", "k4", "tail"}
	WaitGoroutinesAtMost(globalBase, 3*time.Second)
	ctx, cancel := context.WithCancel(context.Background())
	defer cancel()
	n := netceptor.NewWithConsts(ctx, "self", 16384, time.Hour, time.Hour, time.Hour, 30, time.Hour)
	chans := map[string]chan []byte{}
	for _, cn := range conns {
		ch, _ := n.VerifAddConn(cn, 1, 4096)
		chans[cn] = ch
	}
	base := StableGoroutines(time.Second)
	bad := 0
	for round := 0; round < rounds; round++ {
		nm := &ids{m: map[string]uint64{"": 0, "self": 1}}
		for _, cn := range conns {
			nm.id(cn)
		}
		node, svc := fmt.Sprintf("o%d", round), "s1" // a new owner per round: the node starts without an entry for it
		var pre []adIn
		if r.Chance(60) {
			pre = append(pre, adIn{Node: node, Svc: svc, T: 10 + r.Intn(10), Cancel: r.Chance(30), Body: 1, Recv: "k4"})
		}
		for _, a := range pre {
			_ = n.VerifHandleServiceAdvertisement(a.wire(), a.Recv)
		}
		settle(base)
		for _, cn := range conns {
			Drain(chans[cn])
		}
		nb := 2 + r.Intn(4)
		var batch []adIn
		usedT := map[int]bool{}
		for i := 0; i < nb; i++ {
			if i > 0 && r.Chance(15) { // the same message once more, over another connection
				cp := batch[r.Intn(len(batch))]
				cp.Recv = conns[i]
				batch = append(batch, cp)
				continue
			}
			t := 1 + r.Intn(40)
			for usedT[t] {
				t = 1 + r.Intn(40)
			}
			usedT[t] = true
			batch = append(batch, adIn{Node: node, Svc: svc, T: t, Cancel: r.Chance(35), Body: 2 + i, Recv: conns[i]})
		}
		var done sync.WaitGroup
		var ready, release int32
		for _, a := range batch {
			done.Add(1)
			go func(a adIn) {
				defer done.Done()
				w := a.wire()
				atomic.AddInt32(&ready, 1)
				for atomic.LoadInt32(&release) == 0 {
					runtime.Gosched()
				}
				_ = n.VerifHandleServiceAdvertisement(w, a.Recv)
			}(a)
		}
		for atomic.LoadInt32(&ready) < int32(len(batch)) {
			runtime.Gosched()
		}
		atomic.StoreInt32(&release, 1)
		done.Wait()
		settle(base)
		// observation
		ads := map[string]map[string][2]int{}
		for nn, m := range n.VerifServiceAds() {
			if nn != node {
				continue
			}
			for s, ad := range m {
				if ads[nn] == nil {
					ads[nn] = map[string][2]int{}
				}
				b := 0
				fmt.Sscan(ad.Tags["b"], &b)
				ads[nn][s] = [2]int{tOf(ad.Time), b}
			}
		}
		var rels []string
		perConn := map[string]int{}
		for _, cn := range conns {
			for _, m := range Drain(chans[cn]) {
				if len(m) == 0 || m[0] != netceptor.MsgTypeServiceAdvertisement {
					continue
				}
				var am adMsg
				if json.Unmarshal(m[1:], &am) != nil {
					continue
				}
				rels = append(rels, fmt.Sprintf("(%d, %d, %d, %d, %s)", nm.id(cn), nm.id(am.NodeID), nm.id("svc:"+am.Service), tOf(am.Time), CoqBool(am.Cancel)))
				perConn[fmt.Sprintf("%s/%d/%v", cn, tOf(am.Time), am.Cancel)]++
			}
		}
		// ---- model-independent oracle ----
		newest := adIn{T: -1}
		for _, a := range append(append([]adIn{}, pre...), batch...) {
			if a.T > newest.T {
				newest = a
			}
		}
		got, listed := ads[node][svc]
		rec := map[string]interface{}{"round": round, "pre": pre, "batch": batch, "listed": ads}
		if bad < 6 {
			switch {
			case newest.Cancel && listed:
				bad++
				im.Violate(fmt.Sprintf("the newest message about %s/%s is a withdrawal (time %d) yet the service is listed with time %d after a concurrent batch", node, svc, newest.T, got[0]),
					"concurrent-withdrawn-resurrected", rec)
			case !newest.Cancel && (!listed || got[0] != newest.T):
				bad++
				im.Violate(fmt.Sprintf("the newest advertisement of %s/%s has time %d but after a concurrent batch the node lists %v (listed=%v)", node, svc, newest.T, got, listed),
					"concurrent-older-replaced-newer", rec)
			}
			for k, cnt := range perConn {
				if cnt > 1 {
					bad++
					im.Violate(fmt.Sprintf("a message of a concurrent batch was relayed %d times to one connection (%s)", cnt, k), "concurrent-ad-relayed-twice", rec)
					break
				}
			}
		}
		// ---- Coq case ----
		// the table restricted to this round's owner (owners of earlier rounds stay listed in the real node)
		term := func(a adIn) string {
			return fmt.Sprintf("({| a_node := %d; a_svc := %d; a_time := %d; a_cancel := %s; a_body := %d |}, %d)",
				nm.id(a.Node), nm.id("svc:"+a.Svc), a.T, CoqBool(a.Cancel), a.Body, nm.id(a.Recv))
		}
		var ps, bs []string
		for _, a := range pre {
			ps = append(ps, term(a))
		}
		for _, a := range batch {
			bs = append(bs, term(a))
		}
		cl := make([]string, len(conns))
		for i, cn := range conns {
			cl[i] = CoqN(nm.id(cn))
		}
		label := fmt.Sprintf("concurrent ads round %d batch=%d", round, len(batch))
		cf.Add(fmt.Sprintf("(XConc {| ca_conns := %s; ca_pre := %s; ca_batch := %s; ca_ads := %s; ca_relays := %s |})",
			CoqList(cl), CoqList(ps), CoqList(bs), coqAds(nm, ads), CoqList(rels)), label)
		im.Count(label, true)
		im.Hist(fmt.Sprintf("concurrent-ads:batch-%d", len(batch)))
	}
}

func periodicVsClose(c *Ctx, im *Impl) {
	var slow int32 = 1
	logger.RegisterLogger(func(level int, format string, v ...interface{}) {
		if atomic.LoadInt32(&slow) == 1 && strings.HasPrefix(format, "Sending service advertisement") {
			time.Sleep(300 * time.Microsecond)
		}
	})
	defer logger.RegisterLogger(nil)
	r := c.Rng
	rounds := 4
	if c.Thorough() {
		rounds = 16
	}
	for round := 0; round < rounds; round++ {
		// two kinds of rounds.  Even: a slow sender (each message delayed) and a 12 ms period - a long time
		// between reading the listener registry and sending.  Odd: re-advertisement running almost
		// continuously (1 ms period) over many listeners and closes every few hundred microseconds - whatever
		// Close does must be one step with respect to the sender's look at the registry.
		fast := round%2 == 1
		period, nlisten := 12*time.Millisecond, 6
		atomic.StoreInt32(&slow, 1)
		if fast {
			period, nlisten = time.Millisecond, 24
			atomic.StoreInt32(&slow, 0)
		}
		ctx, cancel := context.WithCancel(context.Background())
		n := netceptor.NewWithConsts(ctx, "owner", 16384, time.Hour, period, time.Hour, 30, time.Hour)
		tap, _ := n.VerifAddConn("tap", 1, 1<<16)
		var tapped [][]byte
		var tapMu sync.Mutex
		tapDone := make(chan struct{})
		go func() { // collect while the round runs: the fast rounds would fill any buffer
			defer close(tapDone)
			for {
				select {
				case mm := <-tap:
					tapMu.Lock()
					tapped = append(tapped, mm)
					tapMu.Unlock()
				case <-ctx.Done():
					return
				}
			}
		}()
		open := map[string]netceptor.PacketConner{}
		next := 0
		for i := 0; i < nlisten; i++ {
			name := fmt.Sprintf("p%d", next)
			next++
			if pc, err := n.ListenPacketAndAdvertise(name, map[string]string{"b": "1"}); err == nil {
				open[name] = pc
			}
		}
		deadline := time.Now().Add(600 * time.Millisecond)
		closed := 0
		for time.Now().Before(deadline) {
			if fast {
				time.Sleep(time.Duration(100+r.Intn(500)) * time.Microsecond)
			} else {
				time.Sleep(time.Duration(200+r.Intn(2500)) * time.Microsecond)
			}
			for name, pc := range open {
				_ = pc.Close()
				delete(open, name)
				closed++
				break
			}
			name := fmt.Sprintf("p%d", next)
			next++
			if pc, err := n.ListenPacketAndAdvertise(name, map[string]string{"b": "1"}); err == nil {
				open[name] = pc
			}
		}
		time.Sleep(40 * time.Millisecond)
		cancel()
		<-tapDone
		tapped = append(tapped, Drain(tap)...)
		cancelAt := map[string]time.Time{}
		var ads []adMsg
		for _, m := range tapped {
			if len(m) == 0 || m[0] != netceptor.MsgTypeServiceAdvertisement {
				continue
			}
			var am adMsg
			if json.Unmarshal(m[1:], &am) != nil {
				continue
			}
			if am.Cancel {
				cancelAt[am.Service] = am.Time
			} else {
				ads = append(ads, am)
			}
		}
		bad := 0
		for _, a := range ads {
			if tc, ok := cancelAt[a.Service]; ok && !a.Time.Before(tc) {
				bad++
				if bad == 1 {
					im.Violate(fmt.Sprintf("the owner sent an advertisement of %s stamped %v although it withdrew the service at %v: every receiver lists the closed service again", a.Service, a.Time.Sub(tc), tc.Format("15:04:05.000000")),
						"ad-not-older-than-own-withdrawal", map[string]interface{}{"service": a.Service})
				}
			}
		}
		im.Hist("periodic-vs-close:round")
		im.Extra["periodic_ads_observed"] = len(ads)
		im.Count(fmt.Sprintf("periodic-vs-close %d fast=%v closed=%d ads=%d", round, fast, closed, len(ads)), closed > 20 && len(ads) > 50)
	}
}

// ---------- delayed copies after the node's housekeeping timers have run ----------

// delayedAfterSweeps: "once a node has learned that a service was withdrawn it does not list that
// service again unless its owner advertises it anew" has no time limit, and a flooded copy may be
// delayed for any time.  Nodes with a short seen-update expiry (so that every periodic sweep of the
// node runs several times within the scenario) learn an advertisement and its withdrawal, then get
// older advertisements of the same service: at once, and again after the timers have run.  Stamps
// are taken far in the past (like the histories above) and at the moment of the call.
func delayedAfterSweeps(c *Ctx, im *Impl) {
	r := NewRng(c.Seed*2654435761 + 18)
	rounds := 4
	if c.Thorough() {
		rounds = 16
	}
	for k := 0; k < rounds; k++ {
		WaitGoroutinesAtMost(globalBase, 3*time.Second)
		ctx, cancel := context.WithCancel(context.Background())
		n := netceptor.NewWithConsts(ctx, "self", 16384, time.Hour, time.Hour, 300*time.Millisecond, 30, time.Hour)
		chA, _ := n.VerifAddConn("c0", 1, 4096)
		chB, _ := n.VerifAddConn("c1", 1, 4096)
		base := t0
		if k%2 == 1 {
			base = time.Now().Add(-50 * time.Millisecond) // stamps of the moment
		}
		mk := func(node, svc string, ms int, cancelAd bool) []byte {
			m := adMsg{NodeID: node, Service: svc, Time: base.Add(time.Duration(ms) * time.Millisecond), ConnType: 1, Tags: map[string]string{"b": "1"}, Cancel: cancelAd}
			if cancelAd {
				m.Tags = nil
			}
			j, _ := json.Marshal(m)
			return append([]byte{netceptor.MsgTypeServiceAdvertisement}, j...)
		}
		listed := func(node, svc string) bool {
			_, ok := n.VerifServiceAds()[node][svc]
			return ok
		}
		relayed := func() int {
			cnt := 0
			for _, ch := range []chan []byte{chA, chB} {
				for _, m := range Drain(ch) {
					if len(m) > 0 && m[0] == netceptor.MsgTypeServiceAdvertisement {
						cnt++
					}
				}
			}
			return cnt
		}
		bad := func(what, sig string) {
			im.Violate(fmt.Sprintf("delayed copies, round %d: %s", k, what), sig, map[string]interface{}{"scenario": "delayed-after-sweeps", "round": k, "stamps": map[bool]string{false: "past", true: "now"}[k%2 == 1]})
		}
		node, svc := "nb", fmt.Sprintf("s%d", k)
		_ = n.VerifHandleServiceAdvertisement(mk(node, svc, 5, false), "c0")
		time.Sleep(30 * time.Millisecond)
		if !listed(node, svc) {
			bad("a first advertisement is not listed", "ad-not-listed")
		}
		_ = n.VerifHandleServiceAdvertisement(mk(node, svc, 9, true), "c0")
		time.Sleep(30 * time.Millisecond)
		if listed(node, svc) {
			bad("a newer withdrawal did not remove the service", "withdrawal-ignored")
		}
		relayed()
		// a second, never-listed service whose withdrawal arrives first
		_ = n.VerifHandleServiceAdvertisement(mk(node, svc+"x", 9, true), "c1")
		time.Sleep(30 * time.Millisecond)
		relayed() // the withdrawal itself may be passed on
		waits := []time.Duration{0, time.Duration(500+r.Intn(300)) * time.Millisecond, time.Duration(300+r.Intn(400)) * time.Millisecond}
		for wi, w := range waits {
			time.Sleep(w)
			for _, sv := range []string{svc, svc + "x"} {
				old := 3 + r.Intn(6) // 3..8: older than the withdrawal (9)
				_ = n.VerifHandleServiceAdvertisement(mk(node, sv, old, false), []string{"c1", "c0"}[wi%2])
				time.Sleep(30 * time.Millisecond)
				im.Count(fmt.Sprintf("delayed %d %d %s %d", k, wi, sv, old), wi > 0)
				im.Hist("delayed:older-copy-after-withdrawal")
				if listed(node, sv) {
					bad(fmt.Sprintf("service %s/%s is listed again after an advertisement older than its withdrawal arrived %v after the withdrawal (the owner never advertised it anew)", node, sv, w), "withdrawn-resurrected-after-delay")
				}
				if nr := relayed(); nr > 0 {
					bad(fmt.Sprintf("an advertisement older than the withdrawal of %s/%s, arriving %v later, was relayed (%d copies)", node, sv, w, nr), "older-relayed-after-delay")
				}
			}
		}
		// the owner advertises it anew: listed again
		_ = n.VerifHandleServiceAdvertisement(mk(node, svc, 12, false), "c0")
		time.Sleep(30 * time.Millisecond)
		if !listed(node, svc) {
			bad("an advertisement newer than the withdrawal is not listed", "new-ad-not-listed")
		}
		cancel()
		n.Shutdown()
	}
}
