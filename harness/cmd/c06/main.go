package main

// C06 — routing knowledge never regresses; updates are applied and relayed at most once.
// White-box, step-exact: one real Netceptor, fake connections whose WriteChans the harness
// drains, handleRoutingUpdate called through the verif hook; after every step the observable
// state and the relays are recorded and (a) checked by a model-independent oracle, (b) written
// as a Coq case for Model/Flood.v.

import (
	"context"
	"encoding/json"
	"fmt"
	"runtime"
	"sort"
	"strings"
	"sync"
	"sync/atomic"
	"time"

	. "verifharness/lib"

	"github.com/ansible/receptor/pkg/netceptor"
)

func main() { Main("C06", run, nil) }

const selfEpoch = 1000

type names struct {
	ids map[string]uint64
	rev []string
}

func newNames() *names {
	n := &names{ids: map[string]uint64{}}
	n.id("")     // 0
	n.id("self") // 1
	return n
}

func (n *names) id(s string) uint64 {
	if v, ok := n.ids[s]; ok {
		return v
	}
	v := uint64(len(n.rev))
	n.ids[s] = v
	n.rev = append(n.rev, s)
	return v
}

type wireUpd struct {
	NodeID             string
	UpdateID           string
	UpdateEpoch        uint64
	UpdateSequence     uint64
	Connections        map[string]float64
	ForwardingNode     string
	SuspectedDuplicate uint64
}

type obs struct {
	Info    map[string][2]uint64
	Known   map[string]map[string]float64
	Seen    []string
	Down    bool
	Relays  [][4]string // conn, update id, forwarder, origin
	Notices []uint64
}

type step struct {
	Kind string // "recv" | "expire"
	U    netceptor.VerifRoutingUpdate
	Recv string
	ID   string // for expire
	O    obs
}

func settle(base int) {
	for i := 0; i < 200000; i++ {
		runtime.Gosched()
		if runtime.NumGoroutine() <= base {
			return
		}
		if i > 2000 {
			time.Sleep(50 * time.Microsecond)
		}
	}
}

type world struct {
	n     *netceptor.Netceptor
	ctx   context.Context
	stop  context.CancelFunc
	conns map[string]chan []byte
	base  int
}

func newWorld(conns []string) *world {
	WaitGoroutinesAtMost(globalBase, 3*time.Second) // the previous history's node is gone
	ctx, cancel := context.WithCancel(context.Background())
	n := netceptor.NewWithConsts(ctx, "self", 16384, time.Hour, time.Hour, time.Hour, 30, time.Hour)
	n.VerifSetEpoch(selfEpoch)
	w := &world{n: n, ctx: ctx, stop: cancel, conns: map[string]chan []byte{}}
	for _, c := range conns {
		ch, _ := n.VerifAddConn(c, 1, 8192)
		w.conns[c] = ch
	}
	// the node's own row of the connection picture, as connection establishment writes it: received
	// updates must never touch it (the pruning loop of handleRoutingUpdate exempts it)
	if len(conns) > 0 {
		own := map[string]float64{}
		for _, c := range conns {
			own[c] = 1
		}
		n.VerifSetKnownConnectionCosts(map[string]map[string]float64{"self": own})
	}
	w.base = StableGoroutines(time.Second)
	return w
}

func (w *world) observe() obs {
	settle(w.base)
	o := obs{Info: w.n.VerifKnownNodeInfo(), Known: w.n.Status().KnownConnectionCosts, Seen: w.n.VerifSeenUpdates()}
	select {
	case <-w.n.NetceptorDone():
		o.Down = true
	default:
	}
	sort.Strings(o.Seen)
	seenNotice := map[string]bool{}
	var cs []string
	for c := range w.conns {
		cs = append(cs, c)
	}
	sort.Strings(cs)
	for _, c := range cs {
		for _, m := range Drain(w.conns[c]) {
			if len(m) == 0 || m[0] != netceptor.MsgTypeRoute {
				continue
			}
			var u wireUpd
			if json.Unmarshal(m[1:], &u) != nil {
				continue
			}
			if u.NodeID == "self" {
				if u.SuspectedDuplicate != 0 && !seenNotice[u.UpdateID] {
					seenNotice[u.UpdateID] = true
					o.Notices = append(o.Notices, u.SuspectedDuplicate)
				}
				continue
			}
			o.Relays = append(o.Relays, [4]string{c, u.UpdateID, u.ForwardingNode, u.NodeID})
		}
	}
	return o
}

// ---------- Coq printing ----------

func coqCosts(nm *names, m map[string]float64) string {
	type kv struct {
		k uint64
		v uint64
	}
	var xs []kv
	for k, v := range m {
		xs = append(xs, kv{nm.id(k), uint64(v)})
	}
	sort.Slice(xs, func(i, j int) bool { return xs[i].k < xs[j].k })
	ys := make([]string, len(xs))
	for i, x := range xs {
		ys[i] = fmt.Sprintf("(%d, %d)", x.k, x.v)
	}
	return CoqList(ys)
}

func coqUpd(nm *names, u netceptor.VerifRoutingUpdate) string {
	conns := "None"
	if u.Connections != nil {
		conns = "(Some " + coqCosts(nm, u.Connections) + ")"
	}
	return fmt.Sprintf("{| u_origin := %d; u_id := %d; u_epoch := %d; u_seq := %d; u_conns := %s; u_fwd := %d; u_susp := %d |}",
		nm.id(u.NodeID), nm.id("upd:"+u.UpdateID), u.UpdateEpoch, u.UpdateSequence, conns, nm.id(u.ForwardingNode), u.SuspectedDuplicate)
}

func coqObs(nm *names, o obs) string {
	type ie struct {
		k    uint64
		e, s uint64
	}
	var info []ie
	for k, v := range o.Info {
		info = append(info, ie{nm.id(k), v[0], v[1]})
	}
	sort.Slice(info, func(i, j int) bool { return info[i].k < info[j].k })
	is := make([]string, len(info))
	for i, x := range info {
		is[i] = fmt.Sprintf("(%d, (%d, %d))", x.k, x.e, x.s)
	}
	type ke struct {
		k uint64
		s string
	}
	var known []ke
	for k, v := range o.Known {
		known = append(known, ke{nm.id(k), coqCosts(nm, v)})
	}
	sort.Slice(known, func(i, j int) bool { return known[i].k < known[j].k })
	ks := make([]string, len(known))
	for i, x := range known {
		ks[i] = fmt.Sprintf("(%d, %s)", x.k, x.s)
	}
	var seen []uint64
	for _, s := range o.Seen {
		seen = append(seen, nm.id("upd:"+s))
	}
	sort.Slice(seen, func(i, j int) bool { return seen[i] < seen[j] })
	ss := make([]string, len(seen))
	for i, x := range seen {
		ss[i] = CoqN(x)
	}
	type re struct{ c, i, f, o uint64 }
	var rel []re
	for _, r := range o.Relays {
		rel = append(rel, re{nm.id(r[0]), nm.id("upd:" + r[1]), nm.id(r[2]), nm.id(r[3])})
	}
	sort.Slice(rel, func(i, j int) bool { return rel[i].c < rel[j].c })
	rs := make([]string, len(rel))
	for i, x := range rel {
		rs[i] = fmt.Sprintf("(%d, %d, %d, %d)", x.c, x.i, x.f, x.o)
	}
	ns := make([]string, len(o.Notices))
	for i, x := range o.Notices {
		ns[i] = CoqN(x)
	}
	return fmt.Sprintf("{| o_info := %s; o_known := %s; o_seen := %s; o_down := %s; o_relays := %s; o_notices := %s |}",
		CoqList(is), CoqList(ks), CoqList(ss), CoqBool(o.Down), CoqList(rs), CoqList(ns))
}

// ---------- history generation ----------

type gen struct {
	r       *Rng
	conns   []string
	origins []string
	cur     map[string][2]uint64 // what the generator believes the newest (epoch, seq) per origin is
	ids     []string
	nextID  int
}

func (g *gen) freshID() string {
	g.nextID++
	id := fmt.Sprintf("u%04d", g.nextID)
	g.ids = append(g.ids, id)
	return id
}

func (g *gen) conns4(origin string) map[string]float64 {
	if g.r.Chance(7) {
		return nil
	}
	m := map[string]float64{}
	pool := append([]string{"self"}, g.origins...)
	k := g.r.Intn(4)
	for i := 0; i < k; i++ {
		p := pool[g.r.Intn(len(pool))]
		if p == "" || p == origin && g.r.Chance(90) {
			continue
		}
		m[p] = float64(1 + g.r.Intn(3))
		if g.r.Chance(3) {
			m[p] = 0 // a cost that is not positive: the whole update must be ignored
		}
	}
	return m
}

func nonPositive(u netceptor.VerifRoutingUpdate) bool {
	for _, c := range u.Connections {
		if !(c > 0) {
			return true
		}
	}
	return false
}

func (g *gen) update() (netceptor.VerifRoutingUpdate, string, string) {
	r := g.r
	origin := g.origins[r.Intn(len(g.origins))]
	kind := "fresh"
	switch {
	case r.Chance(4):
		origin = ""
		kind = "empty-origin"
	case r.Chance(8):
		origin = "self"
		kind = "self-origin"
	}
	cur, known := g.cur[origin]
	e, s := uint64(500+r.Intn(3)), uint64(1+r.Intn(3))
	if known {
		switch x := r.Intn(100); {
		case x < 40: // fresh: next sequence
			e, s = cur[0], cur[1]+1+uint64(r.Intn(2))
		case x < 55: // equal
			e, s = cur[0], cur[1]
			kind = "equal"
		case x < 70: // older sequence
			e, s = cur[0], cur[1]-uint64(r.Intn(int(cur[1])+1))
			if s < cur[1] {
				kind = "older-seq"
			} else {
				kind = "equal"
			}
		case x < 80: // restart, higher epoch
			e, s = cur[0]+1+uint64(r.Intn(2)), uint64(1+r.Intn(3))
			kind = "higher-epoch"
		case x < 90: // lower epoch, any sequence
			if cur[0] > 0 {
				e, s = cur[0]-1, cur[1]+uint64(r.Intn(5))
				kind = "lower-epoch"
			}
		default:
			e, s = cur[0], cur[1]+1
		}
	}
	if origin == "self" {
		switch r.Intn(3) {
		case 0:
			e = selfEpoch
		case 1:
			e = selfEpoch + 1 + uint64(r.Intn(3))
		default:
			e = selfEpoch - 1 - uint64(r.Intn(3))
		}
	}
	id := g.freshID()
	if len(g.ids) > 1 && r.Chance(18) {
		id = g.ids[r.Intn(len(g.ids)-1)]
		kind = "replayed-id"
		g.ids = g.ids[:len(g.ids)-1]
	}
	var susp uint64
	if r.Chance(10) {
		switch r.Intn(4) {
		case 0:
			susp = selfEpoch
		case 1:
			if known {
				susp = cur[0]
			} else {
				susp = 7
			}
		case 2:
			susp = e
		default:
			susp = uint64(1 + r.Intn(600))
		}
		kind += "+notice"
	}
	recv := "elsewhere"
	if len(g.conns) > 0 && r.Chance(90) {
		recv = g.conns[r.Intn(len(g.conns))]
	}
	fwd := recv
	u := netceptor.VerifRoutingUpdate{NodeID: origin, UpdateID: id, UpdateEpoch: e, UpdateSequence: s,
		Connections: g.conns4(origin), ForwardingNode: fwd, SuspectedDuplicate: susp}
	return u, recv, kind
}

func lexLE(a, b [2]uint64) bool { return a[0] < b[0] || (a[0] == b[0] && a[1] <= b[1]) }

func sameKnown(a, b map[string]map[string]float64) bool {
	ja, _ := json.Marshal(a)
	jb, _ := json.Marshal(b)
	return string(ja) == string(jb)
}

func sameInfo(a, b map[string][2]uint64) bool {
	if len(a) != len(b) {
		return false
	}
	for k, v := range a {
		if b[k] != v {
			return false
		}
	}
	return true
}

// runHistory drives one history on a fresh node and returns the steps with observations.
type scripted struct {
	U    netceptor.VerifRoutingUpdate
	Recv string
}

func runHistory(c *Ctx, im *Impl, r *Rng, hlen int, script []scripted) (conns []string, steps []step, kinds []string) {
	nconn := r.Intn(5)
	if r.Chance(70) && nconn == 0 {
		nconn = 1 + r.Intn(3)
	}
	if script != nil {
		nconn, hlen = 2, len(script)
	}
	for i := 0; i < nconn; i++ {
		conns = append(conns, fmt.Sprintf("c%d", i))
	}
	w := newWorld(conns)
	defer w.stop()
	g := &gen{r: r, conns: conns, cur: map[string][2]uint64{}}
	g.origins = append(g.origins, conns...)
	for i := 0; i < 1+r.Intn(4); i++ {
		g.origins = append(g.origins, fmt.Sprintf("r%d", i))
	}
	prev := w.observe()
	relayedSinceExpiry := map[string]bool{}
	live := append([]string{}, conns...) // connections not yet lost
	ownRow := map[string]float64{}       // what the node's own row must be
	for _, cn := range conns {
		ownRow[cn] = 1
	}
	for i := 0; i < hlen; i++ {
		if script == nil && len(prev.Seen) > 0 && r.Chance(6) {
			id := prev.Seen[r.Intn(len(prev.Seen))]
			w.n.VerifExpireSeenUpdate(id)
			o := w.observe()
			steps = append(steps, step{Kind: "expire", ID: id, O: o})
			kinds = append(kinds, "expire")
			delete(relayedSinceExpiry, id)
			prev = o
			continue
		}
		if script == nil && len(live) > 0 && r.Chance(5) {
			// the session to a neighbour ends: the connection and the two cost entries of the link go, what the
			// node has learned (stored pairs, other rows, seen IDs) must stay
			cn := live[r.Intn(len(live))]
			w.n.VerifRemoveConnection(cn)
			o := w.observe()
			steps = append(steps, step{Kind: "lost", ID: cn, O: o})
			kinds = append(kinds, "conn-lost")
			im.Hist("event:connection-lost")
			if !sameInfo(prev.Info, o.Info) || fmt.Sprint(prev.Seen) != fmt.Sprint(o.Seen) {
				im.Violate(fmt.Sprintf("losing the connection to %s changed what the node had learned: stored pairs %v -> %v", cn, prev.Info, o.Info),
					"connection-loss-forgets-knowledge", map[string]interface{}{"conns": conns, "step": i, "lost": cn})
			}
			var nl []string
			for _, x := range live {
				if x != cn {
					nl = append(nl, x)
				}
			}
			live = nl
			delete(ownRow, cn)
			prev = o
			continue
		}
		u, recv, kind := netceptor.VerifRoutingUpdate{}, "", ""
		if script != nil {
			u, recv, kind = script[i].U, script[i].Recv, "scripted"
		} else {
			u, recv, kind = g.update()
		}
		w.n.VerifHandleRoutingUpdate(u, recv)
		o := w.observe()
		steps = append(steps, step{Kind: "recv", U: u, Recv: recv, O: o})
		kinds = append(kinds, kind)
		im.Hist("update:" + kind)
		rec := map[string]interface{}{"conns": conns, "step": i, "update": u, "recv": recv, "kind": kind}
		// ---- model-independent oracle on the observations ----
		seenBefore := false
		for _, s := range prev.Seen {
			if s == u.UpdateID {
				seenBefore = true
			}
		}
		old, had := prev.Info[u.NodeID]
		notOlder := !had || !lexLE([2]uint64{u.UpdateEpoch, u.UpdateSequence}, old)
		ordinary := u.SuspectedDuplicate == 0
		// (O1) the stored pair never moves backwards on ordinary updates
		if ordinary {
			for k, v := range prev.Info {
				nv, ok := o.Info[k]
				if !ok || !lexLE(v, nv) {
					im.Violate(fmt.Sprintf("stored (epoch,seq) of %s regressed from %v to %v (present=%v) on an ordinary update", k, v, nv, ok), "info-regressed", rec)
				}
			}
		}
		// (O2) older / equal / replayed / self / empty: picture unchanged, nothing relayed
		bad := nonPositive(u)
		if bad {
			im.Hist("update:lists-non-positive-cost")
			if !sameKnown(prev.Known, o.Known) || !sameInfo(prev.Info, o.Info) || len(o.Relays) > 0 {
				im.Violate("an update listing a non-positive connection cost was applied or relayed", "nonpositive-cost-applied", rec)
			}
		}
		if ordinary && (seenBefore || !notOlder || u.NodeID == "self" || u.NodeID == "") {
			if !sameKnown(prev.Known, o.Known) || !sameInfo(prev.Info, o.Info) {
				im.Violate("an update that is older than, equal to, or a replay of an accepted one (or names the node itself) changed the picture", "stale-changed-picture", rec)
			}
			if len(o.Relays) > 0 {
				im.Violate("an update that is older than, equal to, or a replay of an accepted one (or names the node itself) was relayed", "stale-relayed", rec)
			}
		}
		// (O3) relays: never back to the sender, at most once per update ID between expiries, to every other connection
		if len(o.Relays) > 0 {
			if relayedSinceExpiry[u.UpdateID] {
				im.Violate("update relayed a second time", "relayed-twice", rec)
			}
			relayedSinceExpiry[u.UpdateID] = true
			got := map[string]int{}
			for _, rl := range o.Relays {
				got[rl[0]]++
				if rl[0] == recv {
					im.Violate("update relayed back to the neighbour it came from", "relayed-back", rec)
				}
				if rl[2] != "self" {
					im.Violate("relayed update does not carry the relaying node as ForwardingNode", "relay-forwarder", rec)
				}
				if rl[1] != u.UpdateID {
					im.Violate("relay of a different update than the one received", "relay-other", rec)
				}
			}
			for _, cn := range live {
				if cn != recv && got[cn] != 1 {
					im.Violate(fmt.Sprintf("genuine update relayed %d times to %s", got[cn], cn), "relay-count", rec)
				}
			}
		} else if ordinary && !bad && !seenBefore && notOlder && u.NodeID != "self" && u.NodeID != "" && !o.Down {
			for _, cn := range live {
				if cn != recv {
					im.Violate("a genuine new update was not relayed", "fresh-not-relayed", rec)
					break
				}
			}
		}
		// (O4) accepted: picture of the origin is what the update says
		if ordinary && !bad && !seenBefore && notOlder && u.NodeID != "self" && u.NodeID != "" {
			if nv := o.Info[u.NodeID]; nv != [2]uint64{u.UpdateEpoch, u.UpdateSequence} {
				im.Violate("a genuine newer update was not recorded", "fresh-not-recorded", rec)
			}
			g.cur[u.NodeID] = [2]uint64{u.UpdateEpoch, u.UpdateSequence}
		}
		// (O5) the node's own row (first-hand knowledge of its links) is never changed by a received update
		if len(conns) > 0 {
			own := o.Known["self"]
			okRow := len(own) == len(ownRow)
			for cn := range ownRow {
				if own[cn] != 1 {
					okRow = false
				}
			}
			if !okRow {
				im.Violate(fmt.Sprintf("a received update changed the node's own connection row: %v (connections %v)", own, live), "own-row-changed", rec)
			}
		}
		if ni, ok := o.Info[u.NodeID]; ok {
			g.cur[u.NodeID] = ni
		}
		prev = o
		if o.Down {
			break
		}
	}
	return
}

var globalBase int

func run(c *Ctx) {
	QuietLogs()
	globalBase = runtime.NumGoroutine()
	im := NewImpl("C06", c.Seed, c.Tier)
	im.Rule = "histories of routing updates (fresh, equal, older sequence, lower/higher epoch, replayed IDs, self/empty origin, duplicate notices, expiry of seen IDs) from 1-9 origins over 0-4 fake connections delivered to one real node step by step; a history is non-trivial when it contains at least one stale/equal/replayed update and at least one accepted one; distinct by the full history"
	cf := &CaseFile{Dir: c.Out, Prop: "C06", Imports: []string{"Model.FloodCases"}, CaseType: "c06_case", CheckFn: "c06_check", PerShard: 60}
	nh := 700
	if c.Thorough() {
		nh = 6000
	}
	for h := 0; h < nh; h++ {
		r := NewRng(c.Seed*1000003 + uint64(h))
		hlen := 1 + r.Intn(40)
		conns, steps, kinds := runHistory(c, im, r, hlen, nil)
		label := fmt.Sprintf("history seed=%d#%d conns=%v kinds=%v", c.Seed, h, conns, kinds)
		stale, fresh := emitCase(cf, conns, steps, kinds, label)
		im.Count(label, stale && fresh)
		im.Hist(fmt.Sprintf("history-length:%02d-%02d", len(steps)/10*10, len(steps)/10*10+9))
		if h < 3 {
			im.Sample(map[string]interface{}{"conns": conns, "kinds": kinds})
		}
	}
	if c.Thorough() {
		exhaustiveSmall(c, im, cf)
	}
	concurrentDelivery(c, im, cf)
	concurrentSequence(c, im, cf)
	expiryPhase(c, im)
	meshFloodBound(c, im)
	Must(cf.Write())
	Must(im.Write(c.Out))
}


// emitCase writes one history with its observations as a Coq case.
func emitCase(cf *CaseFile, conns []string, steps []step, kinds []string, label string) (stale, fresh bool) {
	nm := newNames()
	for _, cn := range conns {
		nm.id(cn)
	}
	var hs []string
	for i, s := range steps {
		if s.Kind == "expire" {
			hs = append(hs, fmt.Sprintf("(Expire %d, %s)", nm.id("upd:"+s.ID), coqObs(nm, s.O)))
		} else if s.Kind == "lost" {
			hs = append(hs, fmt.Sprintf("(Lost %d, %s)", nm.id(s.ID), coqObs(nm, s.O)))
		} else {
			hs = append(hs, fmt.Sprintf("(Recv %s %d, %s)", coqUpd(nm, s.U), nm.id(s.Recv), coqObs(nm, s.O)))
		}
		k := kinds[i]
		if strings.HasPrefix(k, "equal") || strings.HasPrefix(k, "older") || strings.HasPrefix(k, "lower") || strings.HasPrefix(k, "replayed") {
			stale = true
		}
		if strings.HasPrefix(k, "fresh") || strings.HasPrefix(k, "higher") {
			fresh = true
		}
	}
	cs := make([]string, len(conns))
	for i, cn := range conns {
		cs[i] = CoqN(nm.id(cn))
	}
	known := "[]"
	if len(conns) > 0 {
		row := make([]string, len(conns))
		for i, cn := range conns {
			row[i] = fmt.Sprintf("(%d, 1)", nm.id(cn))
		}
		known = fmt.Sprintf("[(1, %s)]", CoqList(row))
	}
	init := fmt.Sprintf("{| ns_self := 1; ns_epoch := %d; ns_conns := %s; ns_info := []; ns_known := %s; ns_seen := []; ns_down := false |}", selfEpoch, CoqList(cs), known)
	cf.Add(fmt.Sprintf("CFlood {| fc_init := %s; fc_hist := %s |}", init, CoqList(hs)), label)
	return
}

// exhaustiveSmall (thorough tier): EVERY sequence of length 4 over six fixed updates of two
// origins (two sequence numbers and a restart with a higher epoch for the first origin, two
// updates of the second origin, one update of a third), i.e. all orders with duplication and
// loss: 6^4 = 1296 histories, each on a fresh real node.
func exhaustiveSmall(c *Ctx, im *Impl, cf *CaseFile) {
	mk := func(o, id string, e, s uint64, conns map[string]float64) netceptor.VerifRoutingUpdate {
		return netceptor.VerifRoutingUpdate{NodeID: o, UpdateID: id, UpdateEpoch: e, UpdateSequence: s, Connections: conns, ForwardingNode: "c0"}
	}
	alpha := []netceptor.VerifRoutingUpdate{
		mk("r0", "a1", 500, 1, map[string]float64{"c0": 1}),
		mk("r0", "a2", 500, 2, map[string]float64{"c0": 1, "r1": 2}),
		mk("r0", "a3", 501, 1, map[string]float64{"r1": 2}),
		mk("r1", "b1", 500, 1, map[string]float64{"r0": 2}),
		mk("r1", "b2", 500, 2, map[string]float64{}),
		mk("c1", "d1", 7, 1, map[string]float64{"self": 1, "r0": 1}),
	}
	n := len(alpha)
	total := n * n * n * n
	r := NewRng(c.Seed)
	for x := 0; x < total; x++ {
		var sc []scripted
		for k, y := 0, x; k < 4; k, y = k+1, y/n {
			recv := "c0"
			if (x+k)%3 == 0 {
				recv = "c1"
			}
			u := alpha[y%n]
			u.ForwardingNode = recv
			sc = append(sc, scripted{u, recv})
		}
		conns, steps, kinds := runHistory(c, im, r, 4, sc)
		label := fmt.Sprintf("exhaustive %d", x)
		emitCase(cf, conns, steps, kinds, label)
		im.Count(label, true)
	}
	im.Hist("exhaustive-small-scope-histories")
	im.Extra["exhaustive_small_scope"] = fmt.Sprintf("all %d sequences of length 4 over %d fixed updates", total, n)
}

// concurrentDelivery: sessions handle their messages in parallel (one runProtocol goroutine per
// connection), so the same update can reach handleRoutingUpdate from several links at the same moment.
// Per round 2-8 goroutines, released together, deliver ONE update (an ordinary fresh update, a
// suspected-duplicate notice about a third node - which only the seen-ID filter stops -, or an ID the
// node has already seen) each from its own connection.  The connection "tail" delivers nothing, so
// every thread that gets through the filter relays the update to it: the number of copies on "tail" is
// the number of threads that processed the update.  Oracle (property text): relayed at most once.
// Model: Model/FloodConc.v conc_check (0 if seen before, else exactly 1).
func concurrentDelivery(c *Ctx, im *Impl, cf *CaseFile) {
	rounds := 3000
	if c.Thorough() {
		rounds = 30000
	}
	r := NewRng(c.Seed ^ 0xc06c06)
	conns := []string{"k0", "k1", "k2", "k3", "k4", "k5", "k6", "k7", "tail"}
	w := newWorld(conns)
	defer w.stop()
	// the third node the notices talk about must be known with the epoch they name
	w.n.VerifHandleRoutingUpdate(netceptor.VerifRoutingUpdate{NodeID: "third", UpdateID: "third-0", UpdateEpoch: 77, UpdateSequence: 1,
		Connections: map[string]float64{"k0": 1}, ForwardingNode: "k0"}, "k0")
	w.observe()
	bad := 0
	for round := 0; round < rounds; round++ {
		nt := 2 + r.Intn(7)
		kind := []int{1, 1, 1, 0, 2}[r.Intn(5)] // mostly notices: nothing but the ID filter stops their copies
		id := fmt.Sprintf("conc-%d", round)
		u := netceptor.VerifRoutingUpdate{NodeID: fmt.Sprintf("o%d", round%7), UpdateID: id, UpdateEpoch: 500, UpdateSequence: uint64(round + 1),
			Connections: map[string]float64{"k0": 1, "x": 2}}
		seen := false
		switch kind {
		case 1: // duplicate notice about a third node
			u = netceptor.VerifRoutingUpdate{NodeID: "third", UpdateID: id, UpdateEpoch: 78, UpdateSequence: uint64(round + 1),
				Connections: map[string]float64{}, SuspectedDuplicate: 77}
		case 2: // an ID seen before (delivered once, sequentially, first)
			seen = true
			first := u
			first.ForwardingNode = "k7"
			w.n.VerifHandleRoutingUpdate(first, "k7")
			w.observe()
			u.UpdateSequence += 1000000 // a later update re-using the ID: only the ID filter can stop it
		}
		var done sync.WaitGroup
		var ready, release int32
		for t := 0; t < nt; t++ {
			done.Add(1)
			ut := u
			ut.ForwardingNode = conns[t]
			go func(ut netceptor.VerifRoutingUpdate, from string) {
				defer done.Done()
				atomic.AddInt32(&ready, 1)
				for atomic.LoadInt32(&release) == 0 { // spin: all threads enter the handler within microseconds
					runtime.Gosched()
				}
				w.n.VerifHandleRoutingUpdate(ut, from)
			}(ut, conns[t])
		}
		for atomic.LoadInt32(&ready) < int32(nt) {
			runtime.Gosched()
		}
		atomic.StoreInt32(&release, 1)
		done.Wait()
		o := w.observe()
		perConn := map[string]int{}
		for _, rl := range o.Relays {
			if rl[1] == id {
				perConn[rl[0]]++
			}
		}
		processed := perConn["tail"]
		for cn, k := range perConn {
			if k > 1 && bad < 5 {
				bad++
				im.Violate(fmt.Sprintf("update %s (%s) delivered by %d sessions at the same moment was relayed %d times to connection %s",
					id, []string{"ordinary", "duplicate notice", "already seen"}[kind], nt, k, cn), "concurrent-relayed-twice",
					map[string]interface{}{"round": round, "threads": nt, "kind": kind, "relays": perConn})
			}
		}
		if seen && processed > 0 && bad < 5 {
			bad++
			im.Violate(fmt.Sprintf("update ID %s had been seen, yet a concurrent redelivery was relayed", id), "concurrent-seen-relayed", nil)
		}
		label := fmt.Sprintf("concurrent round %d threads=%d kind=%d", round, nt, kind)
		cf.Add(fmt.Sprintf("CConc {| cc_threads := %d; cc_seen := %v; cc_processed := %d |}", nt, seen, processed), label)
		im.Count(label, true)
		im.Hist(fmt.Sprintf("concurrent:%s", []string{"ordinary", "duplicate-notice", "seen-id"}[kind]))
	}
}

// concurrentSequence: DIFFERENT updates of one origin (consecutive sequence numbers, sometimes a restart
// with a higher epoch, each with its own ID and its own picture of the origin's connections) reach the node
// over different links at the same moment.  The origin is new to the node in most rounds (first contact
// takes a different path through the handler) and known in the others.  Oracle (property text: knowledge
// never regresses, the newest wins): afterwards the node records the newest pair and the newest picture,
// and no update was relayed twice to one connection.  Model: Model/FloodCases.v seq_check - the recorded
// pair and row must be what handle_update yields for SOME order of the batch.
func concurrentSequence(c *Ctx, im *Impl, cf *CaseFile) {
	rounds := 1500
	if c.Thorough() {
		rounds = 15000
	}
	r := NewRng(c.Seed ^ 0x5e9c06)
	conns := []string{"k0", "k1", "k2", "k3", "k4", "tail"}
	w := newWorld(conns)
	defer w.stop()
	bad := 0
	for round := 0; round < rounds; round++ {
		origin := fmt.Sprintf("q%d", round)
		nm := newNames()
		for _, cn := range conns {
			nm.id(cn)
		}
		nm.id(origin)
		var pre []netceptor.VerifRoutingUpdate
		if r.Chance(30) { // the origin is already known
			u := netceptor.VerifRoutingUpdate{NodeID: origin, UpdateID: origin + "-pre", UpdateEpoch: 500, UpdateSequence: 1,
				Connections: map[string]float64{"k0": 1}, ForwardingNode: "k3"}
			pre = append(pre, u)
			w.n.VerifHandleRoutingUpdate(u, "k3")
			w.observe()
		}
		nt := 2 + r.Intn(4)
		var batch []netceptor.VerifRoutingUpdate
		var recvs []string
		e, sq := uint64(500), uint64(1)
		for t := 0; t < nt; t++ {
			sq++
			if r.Chance(15) {
				e, sq = e+1, 1
			}
			row := map[string]float64{"x": float64(1 + t)}
			if r.Chance(50) {
				row[conns[r.Intn(5)]] = float64(1 + r.Intn(3))
			}
			batch = append(batch, netceptor.VerifRoutingUpdate{NodeID: origin, UpdateID: fmt.Sprintf("%s-%d", origin, t), UpdateEpoch: e,
				UpdateSequence: sq, Connections: row, ForwardingNode: conns[t]})
			recvs = append(recvs, conns[t])
		}
		// deliver in a shuffled thread order (the newest is not always the last goroutine started)
		order := r.Perm(nt)
		var done sync.WaitGroup
		var ready, release int32
		for _, i := range order {
			done.Add(1)
			go func(u netceptor.VerifRoutingUpdate, from string) {
				defer done.Done()
				atomic.AddInt32(&ready, 1)
				for atomic.LoadInt32(&release) == 0 {
					runtime.Gosched()
				}
				w.n.VerifHandleRoutingUpdate(u, from)
			}(batch[i], recvs[i])
		}
		for atomic.LoadInt32(&ready) < int32(nt) {
			runtime.Gosched()
		}
		atomic.StoreInt32(&release, 1)
		done.Wait()
		o := w.observe()
		newest := batch[nt-1]
		gotInfo, haveInfo := o.Info[origin]
		gotRow := o.Known[origin]
		rec := map[string]interface{}{"round": round, "batch": batch, "info": gotInfo, "row": gotRow}
		if bad < 6 {
			if !haveInfo || gotInfo != [2]uint64{newest.UpdateEpoch, newest.UpdateSequence} {
				bad++
				im.Violate(fmt.Sprintf("updates %v..(%d,%d) of %s arrived at the same moment over %d links; the node records %v: routing knowledge regressed",
					[2]uint64{batch[0].UpdateEpoch, batch[0].UpdateSequence}, newest.UpdateEpoch, newest.UpdateSequence, origin, nt, gotInfo), "concurrent-knowledge-regressed", rec)
			} else if fmt.Sprint(gotRow) != fmt.Sprint(newest.Connections) {
				bad++
				im.Violate(fmt.Sprintf("the node records the newest pair of %s but the connection picture %v of an older update (newest lists %v)", origin, gotRow, newest.Connections),
					"concurrent-picture-regressed", rec)
			}
			per := map[string]int{}
			for _, rl := range o.Relays {
				per[rl[0]+"/"+rl[1]]++
			}
			for k, cnt := range per {
				if cnt > 1 {
					bad++
					im.Violate(fmt.Sprintf("an update of a concurrent batch was relayed %d times to one connection (%s)", cnt, k), "concurrent-relayed-twice", rec)
					break
				}
			}
		}
		// Coq case: fresh model node with the same connections (rounds are independent: a new origin each)
		cs := make([]string, len(conns))
		row0 := make([]string, len(conns))
		for i, cn := range conns {
			cs[i] = CoqN(nm.id(cn))
			row0[i] = fmt.Sprintf("(%d, 1)", nm.id(cn))
		}
		init := fmt.Sprintf("{| ns_self := 1; ns_epoch := %d; ns_conns := %s; ns_info := []; ns_known := [(1, %s)]; ns_seen := []; ns_down := false |}", selfEpoch, CoqList(cs), CoqList(row0))
		var bs []string
		for _, u := range pre {
			bs = append(bs, fmt.Sprintf("(%s, %d)", coqUpd(nm, u), nm.id("k3")))
		}
		npre := len(bs)
		for i, u := range batch {
			bs = append(bs, fmt.Sprintf("(%s, %d)", coqUpd(nm, u), nm.id(recvs[i])))
		}
		// the pre-delivered update (if any) is part of the model's initial state: run it first, then the batch in some order
		infoS, rowS := "None", "None"
		if haveInfo {
			infoS = fmt.Sprintf("(Some (%d, %d))", gotInfo[0], gotInfo[1])
		}
		if gotRow != nil {
			rowS = "(Some " + coqCosts(nm, gotRow) + ")"
		}
		label := fmt.Sprintf("concurrent sequence round %d threads=%d known-before=%v", round, nt, npre > 0)
		initS := init
		if npre > 0 {
			initS = fmt.Sprintf("(fst (handle_update %s (fst %s) (snd %s)))", init, bs[0], bs[0])
		}
		cf.Add(fmt.Sprintf("CSeq {| q_init := %s; q_origin := %d; q_batch := %s; q_info := %s; q_row := %s |}",
			initS, nm.id(origin), CoqList(bs[npre:]), infoS, rowS), label)
		im.Count(label, true)
		im.Hist(fmt.Sprintf("concurrent-sequence:threads-%d", nt))
	}
}

// expiryPhase: the real expiry of seen update IDs (expireSeenUpdates, a timer goroutine) on a node whose
// expiry time is E = 600 ms.  An ID must stay in the seen set for at least E after it was recorded (a replay
// inside that time is not relayed: "at most once"), and it must be forgotten within E + E/2 + slack (the
// sweep runs every E/2), otherwise the set grows without bound.  Duplicate notices are used because only
// the seen-ID filter stops their replays.
func expiryPhase(c *Ctx, im *Impl) {
	const E = 600 * time.Millisecond
	rounds := 1
	if c.Thorough() {
		rounds = 5
	}
	for round := 0; round < rounds; round++ {
		WaitGoroutinesAtMost(globalBase, 3*time.Second)
		ctx, cancel := context.WithCancel(context.Background())
		n := netceptor.NewWithConsts(ctx, "self", 16384, time.Hour, time.Hour, E, 30, time.Hour)
		n.VerifSetEpoch(selfEpoch)
		tail, _ := n.VerifAddConn("tail", 1, 8192)
		_, _ = n.VerifAddConn("k0", 1, 8192)
		n.VerifHandleRoutingUpdate(netceptor.VerifRoutingUpdate{NodeID: "third", UpdateID: "third-0", UpdateEpoch: 77, UpdateSequence: 1,
			Connections: map[string]float64{"k0": 1}, ForwardingNode: "k0"}, "k0")
		time.Sleep(20 * time.Millisecond)
		Drain(tail)
		type probe struct {
			id  string
			at  time.Time
		}
		var probes []probe
		relayed := func(id string) int {
			k := 0
			for _, m := range Drain(tail) {
				var u wireUpd
				if len(m) > 0 && m[0] == netceptor.MsgTypeRoute && json.Unmarshal(m[1:], &u) == nil && u.UpdateID == id {
					k++
				}
			}
			return k
		}
		deliver := func(id string) {
			n.VerifHandleRoutingUpdate(netceptor.VerifRoutingUpdate{NodeID: "third", UpdateID: id, UpdateEpoch: 78, UpdateSequence: 5,
				Connections: map[string]float64{}, ForwardingNode: "k0", SuspectedDuplicate: 77}, "k0")
			time.Sleep(15 * time.Millisecond)
		}
		// IDs recorded at different phases of the sweep timer
		for i := 0; i < 6; i++ {
			id := fmt.Sprintf("exp-%d-%d", round, i)
			deliver(id)
			if relayed(id) != 1 {
				im.Violate("a new notice was not relayed exactly once", "expiry-setup", id)
			}
			probes = append(probes, probe{id, time.Now()})
			time.Sleep(time.Duration(40+c.Rng.Intn(80)) * time.Millisecond)
		}
		// replays inside the expiry time: never relayed
		for _, frac := range []float64{0.5, 0.8} {
			for _, p := range probes {
				due := p.at.Add(time.Duration(float64(E) * frac))
				if d := time.Until(due); d > 0 {
					time.Sleep(d)
				}
				if time.Since(p.at) > E-80*time.Millisecond { // too late to judge (loaded machine)
					im.Hist("expiry:replay-skipped-late")
					continue
				}
				deliver(p.id)
				if k := relayed(p.id); k > 0 {
					im.Violate(fmt.Sprintf("update %s was relayed again %v after it was first handled although seen IDs are kept for %v", p.id, time.Since(p.at).Round(10*time.Millisecond), E),
						"relayed-twice-before-expiry", p.id)
				}
				im.Hist("expiry:replay-inside-window")
			}
		}
		// forgotten in the end: E + E/2 after the LAST refresh... (a replay does not refresh the record)
		time.Sleep(E + E/2 + 400*time.Millisecond)
		left := 0
		for _, id := range n.VerifSeenUpdates() {
			if strings.HasPrefix(id, "exp-") {
				left++
			}
		}
		if left > 0 {
			im.Violate(fmt.Sprintf("%d update IDs are still remembered %v after they were recorded (expiry time %v): the seen set never shrinks", left, 2*E, E),
				"seen-ids-never-expire", left)
		}
		im.Hist("expiry:forgotten-check")
		im.Count(fmt.Sprintf("expiry round %d", round), true)
		cancel()
	}
}

// meshFloodBound: real nodes on random cyclic topologies; every routing message on every link
// direction is counted per UpdateID.  Model-independent oracle (the statement of
// C06_flooding_terminates): a node sends one update at most once to each neighbour, so an update
// is sent at most sum-of-degrees times in total.
func meshFloodBound(c *Ctx, im *Impl) {
	r := c.Rng
	nm := 4
	if c.Thorough() {
		nm = 30
	}
	for t := 0; t < nm; t++ {
		n := 3 + r.Intn(4)
		m := NewMesh(FastConsts())
		ids := make([]string, n)
		for i := range ids {
			ids[i] = fmt.Sprintf("m%d", i)
			m.AddNode(ids[i])
		}
		type edge struct{ a, b int }
		var edges []edge
		have := map[[2]int]bool{}
		for i := 1; i < n; i++ { // spanning tree
			j := r.Intn(i)
			edges = append(edges, edge{j, i})
			have[[2]int{j, i}] = true
		}
		for k := 0; k < n; k++ { // extra edges: cycles
			a, b := r.Intn(n), r.Intn(n)
			if a > b {
				a, b = b, a
			}
			if a != b && !have[[2]int{a, b}] {
				have[[2]int{a, b}] = true
				edges = append(edges, edge{a, b})
			}
		}
		var mu sync.Mutex
		sent := map[string]map[string]map[string]int{} // update id -> sender -> receiver -> count
		deg := map[string]int{}
		tap := func(from, to string) func([]byte) {
			return func(b []byte) {
				if len(b) == 0 || b[0] != netceptor.MsgTypeRoute {
					return
				}
				var u wireUpd
				if json.Unmarshal(b[1:], &u) != nil {
					return
				}
				mu.Lock()
				defer mu.Unlock()
				if sent[u.UpdateID] == nil {
					sent[u.UpdateID] = map[string]map[string]int{}
				}
				if sent[u.UpdateID][from] == nil {
					sent[u.UpdateID][from] = map[string]int{}
				}
				sent[u.UpdateID][from][to]++
			}
		}
		for _, e := range edges {
			l, err := m.Connect(ids[e.a], ids[e.b], 1)
			if err != nil {
				continue
			}
			l.EndA.Tap = tap(ids[e.a], ids[e.b])
			l.EndB.Tap = tap(ids[e.b], ids[e.a])
			deg[ids[e.a]]++
			deg[ids[e.b]]++
		}
		time.Sleep(1200 * time.Millisecond)
		m.Shutdown()
		mu.Lock()
		sumdeg := 0
		for _, d := range deg {
			sumdeg += d
		}
		rec := map[string]interface{}{"nodes": n, "edges": edges}
		for uid, bySender := range sent {
			total := 0
			for from, byTo := range bySender {
				for to, k := range byTo {
					total += k
					if k > 1 {
						im.Violate(fmt.Sprintf("update %s sent %d times by %s to %s", uid, k, from, to), "mesh-relayed-twice", rec)
					}
				}
			}
			if total > sumdeg {
				im.Violate(fmt.Sprintf("update %s sent %d times in a mesh whose degrees sum to %d", uid, total, sumdeg), "mesh-flood-bound", rec)
			}
		}
		im.Hist(fmt.Sprintf("mesh:%d-nodes", n))
		im.Extra["mesh_update_ids_observed"] = len(sent)
		label := fmt.Sprintf("mesh %d nodes %v", n, edges)
		im.Count(label, len(edges) >= n && len(sent) > 3)
		mu.Unlock()
	}
}
