package main

// Level 3: real nodes joined in process, TLS stream listeners (ListenAndAdvertise with a config
// from PrepareTLSServerConfig) and TLS dials (DialContext with a config from GetClientTLSConfig).

import (
	"context"
	"crypto/tls"
	"encoding/json"
	"fmt"
	"os"
	"path/filepath"
	"sort"
	"strings"
	"sync"
	"time"

	. "verifharness/lib"

	"github.com/ansible/receptor/pkg/netceptor"
)

type meshListener struct {
	svc  string
	sp   sprofile
	li   *netceptor.Listener
	cert *certCase // the certificate the listener presents
}

func serveAccepts(li *netceptor.Listener, wg *sync.WaitGroup) {
	defer wg.Done()
	for {
		conn, err := li.Accept()
		if err != nil {
			if strings.Contains(err.Error(), "listener closed") {
				return
			}
			continue
		}
		go func() {
			_, _ = conn.Write([]byte("k"))
			time.Sleep(300 * time.Millisecond)
			_ = conn.Close()
		}()
	}
}

// one dial; accepted = the listener's application saw the stream and its greeting came back
func meshDial(cli *netceptor.Netceptor, node, svc string, tc *tls.Config, wait time.Duration) (bool, error) {
	ctx, cancel := context.WithTimeout(context.Background(), wait)
	defer cancel()
	conn, err := cli.DialContext(ctx, node, svc, tc)
	if err != nil {
		return false, err
	}
	defer conn.Close()
	res := make(chan error, 1)
	go func() {
		buf := make([]byte, 1)
		_, err := conn.Read(buf)
		if err == nil && buf[0] != 'k' {
			err = fmt.Errorf("unexpected greeting %q", buf)
		}
		res <- err
	}()
	select {
	case err := <-res:
		return err == nil, err
	case <-ctx.Done():
		conn.CancelRead()
		return false, fmt.Errorf("no greeting within %v", wait)
	}
}

// node IDs of historical failures: corpus/C09/*.json "listener_source_ids"
func corpusSourceIDs() []string {
	root := os.Getenv("VERIF_ROOT")
	if root == "" {
		root = "/verif"
	}
	files, _ := filepath.Glob(filepath.Join(root, "corpus", "C09", "*.json"))
	sort.Strings(files)
	var out []string
	for _, f := range files {
		b, err := os.ReadFile(f)
		if err != nil {
			continue
		}
		var doc struct {
			IDs []string `json:"listener_source_ids"`
		}
		if json.Unmarshal(b, &doc) == nil {
			out = append(out, doc.IDs...)
		}
	}
	return out
}

func (e *env) meshTier() {
	r := e.c.Rng
	m := NewMesh(FastConsts())
	defer m.Shutdown()
	srvID := "srv"
	srv := m.AddNode(srvID)
	// certificates the listeners present (verified by dialers in receptor-name mode against RootCAs)
	writeCert := func(name string, cc *certCase) (string, string) {
		cf, kf := filepath.Join(e.tmp, name+".crt"), filepath.Join(e.tmp, name+".key")
		Must(os.WriteFile(cf, pemCert(cc.Raw...), 0o600))
		Must(os.WriteFile(kf, pemKey(e.p.leafKey), 0o600))
		return cf, kf
	}
	srvGood := e.p.make(certParams{Issuer: issRoot, Window: winValid, EKU: ekuServer, Names: namSeveral, E: srvID, O: "elsewhere", O2: "srv2", D: "srv.example", DOther: "other.example"})
	// dialing nodes; the node ID is the source every packet of the dial claims
	ids := []string{"cli"}
	add := func(id string) {
		if id != "" && id != srvID && !contains(ids, id) {
			ids = append(ids, id)
		}
	}
	corpus := corpusSourceIDs()
	if len(corpus) == 0 {
		corpus = []string{"a:b", "a"}
	}
	if !e.c.Thorough() && len(corpus) > 3 {
		corpus = append(corpus[:2:2], corpus[2+r.Intn(len(corpus)-2)])
	}
	for _, id := range corpus {
		add(id)
	}
	add("n:" + genASCII(r, 3) + ":" + genASCII(r, 2))
	// IDs with cased letters: the plain spelling, and one that itself holds the KELVIN SIGN / LONG S
	add("kiosk-7")
	add("\u212aio\u017fk-8")
	if e.c.Thorough() {
		add(genUTF8(r, 6))
		add(genNodeID(r))
	}
	e.im.Extra["mesh_source_ids"] = ids
	baseOf := func(id string) certParams {
		return certParams{Issuer: issClient, Window: winValid, EKU: ekuClient, Names: namExpected, E: id, O: "elsewhere", O2: id + "-2", D: "h.example", DOther: "o.example"}
	}
	// the pinned listener pins the proper certificate of the first dialing node
	pinTarget := e.p.make(baseOf(ids[0]))
	goodCrt, goodKey := writeCert("mesh-srv", srvGood)

	var wg sync.WaitGroup
	var listeners []*meshListener
	addListener := func(svc string, sp sprofile, cc *certCase, crt, key string, skipNames bool) {
		n := srv
		sc := netceptor.TLSServerConfig{Name: svc, Cert: crt, Key: key, RequireClientCert: sp.Require, SkipReceptorNamesCheck: skipNames}
		if sp.CAs {
			sc.ClientCAs = e.clientCAsFile
		}
		sc.PinnedClientCert = hexPins(sp.Pins)
		cfg, err := sc.PrepareTLSServerConfig(n)
		Must(err)
		Must(n.SetServerTLSConfig(svc, cfg))
		cfg, err = n.GetServerTLSConfig(svc)
		Must(err)
		li, err := n.ListenAndAdvertise(svc, cfg, nil)
		Must(err)
		wg.Add(1)
		go serveAccepts(li, &wg)
		listeners = append(listeners, &meshListener{svc, sp, li, cc})
	}
	addListener("mtls", sprofile{Require: true, CAs: true}, srvGood, goodCrt, goodKey, false)
	addListener("mtlspin", sprofile{Require: true, CAs: true, PinKind: pinSha256, Pins: [][]byte{pinTarget.D256}}, srvGood, goodCrt, goodKey, false)
	addListener("opttls", sprofile{Require: false, CAs: true}, srvGood, goodCrt, goodKey, false)
	// listeners without client authentication presenting other certificates: what dialers verify
	srvCerts := []*certCase{srvGood}
	for _, cp := range []certParams{
		{Issuer: issRoot, Window: winValid, EKU: ekuServer, Names: namOther, E: srvID, O: "elsewhere"},
		{Issuer: issRoot, Window: winExpired, EKU: ekuServer, Names: namExpected, E: srvID},
		{Issuer: issOther, Window: winValid, EKU: ekuServer, Names: namExpected, E: srvID},
		{Issuer: issRoot, Window: winValid, EKU: ekuClient, Names: namExpected, E: srvID},
		{Issuer: issRoot, Window: winValid, EKU: ekuBoth, Names: namDNSOnly, E: srvID, D: srvID},
		{Issuer: issRoot, Window: winValid, EKU: ekuServer, Names: namCaseFold, E: srvID, D: "srv.example"},
	} {
		srvCerts = append(srvCerts, e.p.make(cp))
	}
	for i, cc := range srvCerts {
		crt, key := writeCert(fmt.Sprintf("mesh-s%d", i), cc)
		addListener(fmt.Sprintf("plain%d", i), sprofile{}, cc, crt, key, true)
	}

	for _, id := range ids {
		m.AddNode(id)
		_, err := m.Connect(id, srvID, 1.0)
		Must(err)
	}
	want := map[string][]string{srvID: ids}
	for _, id := range ids {
		want[id] = []string{srvID}
	}
	if !m.WaitRoutes(want, 30*time.Second) {
		e.im.Violate("mesh did not converge", "mesh-setup", ids)
		return
	}
	wait := 10 * time.Second // refusals come back as errors at once; only a lost dial waits this long

	// (a) dialers verifying the listener's certificate (GetClientTLSConfig, receptor-name mode)
	cli := m.Nodes[ids[0]]
	for i, cc := range srvCerts {
		var terms []string
		for _, pk := range []int{pinNone, pinSha256, pinMissLegal} {
			v := vrun{vtServer, htRecv, srvID, pk, cc.pins(pk, r)}
			Must(cli.SetClientTLSConfig("m", &tls.Config{RootCAs: e.p.rootPool}, v.Pins))
			tc, err := cli.GetClientTLSConfig("m", srvID, netceptor.ExpectedHostnameTypeReceptor)
			Must(err)
			ok, derr := meshDial(cli, srvID, fmt.Sprintf("plain%d", i), tc, wait)
			terms = append(terms, fmt.Sprintf("(cr (mkProfile false [] %s) %s %d %s)", hxpList(v.Pins), hxp([]byte(srvID)), htRecv, CoqBool(ok)))
			rec := map[string]interface{}{"level": "mesh-dial", "listener_cert": cc.Label, "run": v.String(), "impl_error": fmt.Sprint(derr)}
			e.im.Hist(fmt.Sprintf("mesh-dial:ok=%v", ok))
			e.im.Count("mesh-dial "+cc.Label+v.String(), true)
			mustAccept, mustRefuse, failed := cc.oracle(v, time.Now().UnixNano())
			rec["failed_conditions"] = failed
			if mustRefuse && ok {
				e.im.Violate(fmt.Sprintf("mesh TLS dial SUCCEEDS although the listener's certificate fails %v (%s)", failed, cc.Label), "mesh-dial-accepts:"+failed[0], rec)
			}
			if mustAccept && !ok {
				e.im.Violate(fmt.Sprintf("mesh TLS dial fails although every condition holds: %v (%s)", derr, cc.Label), "mesh-dial-refuses-good", rec)
			}
		}
		e.cf.Add(fmt.Sprintf("TClient %d %s %s", time.Now().UnixNano(), cc.coqFacts(), CoqList(terms)), "mesh dial, listener certificate: "+cc.Label)
	}

	// (a') TLS against the self-generated configs of non-TLS streams (conn.go generateServerTLSConfig /
	// generateClientTLSConfig / verifyServerCertificate): a dialer WITH a TLS profile must not accept
	// a non-TLS service (its certificate is self-signed), and a listener that authenticates clients
	// must not accept a dial WITHOUT a TLS profile (no client certificate)
	{
		nli, err := srv.Listen("notls", nil)
		Must(err)
		wg.Add(1)
		go serveAccepts(nli, &wg)
		Must(cli.SetClientTLSConfig("m", &tls.Config{RootCAs: e.p.rootPool}, nil))
		tc, err := cli.GetClientTLSConfig("m", srvID, netceptor.ExpectedHostnameTypeReceptor)
		Must(err)
		ok, derr := meshDial(cli, srvID, "notls", tc, wait)
		e.im.Hist(fmt.Sprintf("mesh-dial:tls-client-to-non-tls-service:ok=%v", ok))
		e.im.Count("mesh-dial tls->notls", true)
		if ok {
			e.im.Violate("a dial with a TLS client profile (RootCAs, receptor-name mode) to a NON-TLS stream service succeeds: the service's self-generated certificate was accepted",
				"mesh-dial-accepts:untrusted-chain:non-tls-service", map[string]interface{}{"impl_error": fmt.Sprint(derr)})
		}
		// plain dial to the plain service: the control (outside the property; must simply work)
		ok, _ = meshDial(cli, srvID, "notls", nil, wait)
		e.im.Hist(fmt.Sprintf("mesh-dial:non-tls-to-non-tls:ok=%v", ok))
		noCert := srvGood.malformed("no-cert", r)
		var terms []string
		now := time.Now().UnixNano()
		for _, l := range listeners[:3] {
			ok, derr := meshDial(cli, srvID, l.svc, nil, wait)
			e.im.Hist(fmt.Sprintf("mesh-listener:%s:non-tls-dialer:ok=%v", l.svc, ok))
			e.im.Count("mesh-listener non-tls dialer "+l.svc, true)
			terms = append(terms, fmt.Sprintf("(lr %s (mkAddr %s []) %s)", l.sp.coq(), hxp([]byte(ids[0])), CoqBool(ok)))
			if ok {
				e.im.Violate(fmt.Sprintf("stream listener (%s) ACCEPTS a dial made without any TLS profile (no client certificate)", l.sp),
					"mesh-listener-accepts:no-certificate:non-tls-dialer", map[string]interface{}{"listener": l.sp.String(), "impl_error": fmt.Sprint(derr)})
			}
		}
		e.cf.Add(fmt.Sprintf("TListen %d %s %s", now, noCert.coqFacts(), CoqList(terms)), "mesh listeners vs a dial without TLS profile")
	}

	// (b) mutually authenticated listeners: the client certificate must name the claimed source
	for _, id := range ids {
		n := m.Nodes[id]
		prefix := strings.Split(id, ":")[0]
		type cl struct {
			what string
			cp   certParams
		}
		base := baseOf(id)
		with := func(f func(*certParams)) certParams { c := base; f(&c); return c }
		cands := []cl{
			{"names-own-id", base},
			{"names-other-id", with(func(c *certParams) { c.Names = namOther })},
			{"names-several", with(func(c *certParams) { c.Names = namSeveral })},
			{"names-none", with(func(c *certParams) { c.Names = namNone })},
			{"names-near-miss", with(func(c *certParams) { c.Names = namNearMiss })},
			{"names-case-fold", with(func(c *certParams) { c.Names = namCaseFold })},
			{"unrelated-ca", with(func(c *certParams) { c.Issuer = issOther })},
			{"roots-ca", with(func(c *certParams) { c.Issuer = issRoot })},
			{"expired", with(func(c *certParams) { c.Window = winExpired })},
			{"server-usage-only", with(func(c *certParams) { c.EKU = ekuServer })},
		}
		if prefix != id {
			// the identity of ANOTHER node: the text before the first ':' of our ID
			cands = append(cands, cl{"names-prefix-node", with(func(c *certParams) { c.E = prefix })})
		}
		for _, cand := range cands {
			cc := e.p.make(cand.cp)
			if id == ids[0] && cand.what == "names-own-id" {
				cc = pinTarget
			}
			var terms []string
			for _, l := range listeners[:3] {
				crt := tls.Certificate{Certificate: cc.Raw, PrivateKey: e.p.leafKey}
				Must(n.SetClientTLSConfig("m", &tls.Config{RootCAs: e.p.rootPool, Certificates: []tls.Certificate{crt}}, nil))
				tc, err := n.GetClientTLSConfig("m", srvID, netceptor.ExpectedHostnameTypeReceptor)
				Must(err)
				ok, derr := meshDial(n, srvID, l.svc, tc, wait)
				terms = append(terms, fmt.Sprintf("(lr %s (mkAddr %s []) %s)", l.sp.coq(), hxp([]byte(id)), CoqBool(ok)))
				rec := map[string]interface{}{"level": "mesh-listener", "claimed_source": id, "client_cert": cand.what + ": " + cc.Label,
					"listener": l.sp.String(), "impl_error": fmt.Sprint(derr)}
				e.im.Hist(fmt.Sprintf("mesh-listener:%s:ok=%v", l.svc, ok))
				e.im.Count("mesh-listener "+id+" "+cand.what+" "+l.svc, true)
				// the property: chain to ClientCAs, valid, client usage, pin when configured, and — for
				// a listener that requires client certificates — names the claimed source node
				v := vrun{vtClient, htDNS, "", l.sp.PinKind, l.sp.Pins}
				if l.sp.Require {
					v.HType, v.Expected = htRecv, id
				}
				mustAccept, mustRefuse, failed := cc.oracle(v, time.Now().UnixNano())
				rec["failed_conditions"] = failed
				colon := ""
				if prefix != id {
					colon = "-colon-id"
				}
				if mustRefuse && ok {
					e.im.Violate(fmt.Sprintf("stream listener (%s) ACCEPTS a dial from node %q although %v (client certificate %s)", l.sp, id, failed, cand.what),
						"mesh-listener-accepts:"+failed[0]+colon, rec)
				}
				if mustAccept && !ok {
					e.im.Violate(fmt.Sprintf("stream listener (%s) refuses a dial from node %q although every condition holds: %v (client certificate %s)", l.sp, id, derr, cand.what),
						"mesh-listener-refuses-good"+colon, rec)
				}
				e.im.Sample(rec)
			}
			e.cf.Add(fmt.Sprintf("TListen %d %s %s", time.Now().UnixNano(), cc.coqFacts(), CoqList(terms)), fmt.Sprintf("mesh listener: source %q, client certificate %s", id, cand.what))
		}
	}
	// the listeners are not closed one by one (Listener.Close can block inside the QUIC transport,
	// which is property C17's subject): stopping the nodes ends them
	_ = &wg
}
