package main

// C09 — TLS peers need a trusted chain, a matching pin and the expected node ID.
//
// Real certificates are built with crypto/x509 over the property's product
//   issuer x validity window x extended key usage x names x pin list
// and shown to the real code at three levels:
//   (1) the function returned by netceptor.ReceptorVerifyFunc (class of the error),
//   (2) a crypto/tls handshake over net.Pipe whose configs come from PrepareTLSClientConfig /
//       SetClientTLSConfig / GetClientTLSConfig and PrepareTLSServerConfig,
//   (3) DialContext / ListenAndAdvertise with TLS between real nodes of an in-process mesh.
// The model (Model/Tls.v) is given FACTS computed from the construction parameters, so it is an
// independent decision procedure; the model-independent oracle is the property's wording
// evaluated in Go on the same parameters (all conditions hold => accepted, one fails => refused).

import (
	"context"
	"crypto/tls"
	"crypto/x509"
	"encoding/asn1"
	"encoding/hex"
	"errors"
	"fmt"
	"io"
	"log"
	"os"
	"path/filepath"
	"strings"
	"time"

	. "verifharness/lib"

	"github.com/ansible/receptor/pkg/logger"
	"github.com/ansible/receptor/pkg/netceptor"
)

func main() { Main("C09", runC09, nil) }

const (
	vtServer = 1
	vtClient = 2
	htDNS    = 1
	htRecv   = 2
)

type env struct {
	c    *Ctx
	im   *Impl
	cf   *CaseFile
	p    *pki
	lg   *logger.ReceptorLogger
	tmp  string
	node *netceptor.Netceptor // a real node object: owner of the named TLS profiles
	// files for Prepare*Config
	rootsFile, clientCAsFile, srvCert, srvKey string
	refusedOnce                               map[string]bool
}

// ---------- generators ----------

func genNodeID(r *Rng) string {
	switch r.Intn(10) {
	case 0:
		return genUTF8(r, 1+r.Intn(12))
	case 1:
		return "n" + strings.Repeat("x", 110+r.Intn(20)) // across the 113-byte DER threshold of C20
	case 2:
		return "a:" + genASCII(r, 1+r.Intn(5)) // a node ID may contain ':'
	default:
		return "node-" + genASCII(r, 1+r.Intn(8))
	}
}

func genASCII(r *Rng, n int) string {
	b := make([]byte, n)
	for i := range b {
		b[i] = "abcdefghijklmnopqrstuvwxyzABCDEFGHIJ0123456789-_."[r.Intn(49)]
	}
	return string(b)
}

func genUTF8(r *Rng, n int) string {
	var sb strings.Builder
	for sb.Len() < n {
		switch r.Intn(4) {
		case 0:
			sb.WriteRune(rune(0x80 + r.Intn(0x700)))
		case 1:
			sb.WriteRune(rune(0x4e00 + r.Intn(0x1000)))
		default:
			sb.WriteRune(rune(0x21 + r.Intn(0x5e)))
		}
	}
	return sb.String()
}

func genHost(r *Rng) string {
	labels := 1 + r.Intn(3)
	parts := make([]string, labels)
	for i := range parts {
		b := make([]byte, 1+r.Intn(8))
		for j := range b {
			b[j] = "abcdefghijklmnopqrstuvwxyz"[r.Intn(26)]
		}
		parts[i] = string(b)
	}
	return strings.Join(parts, ".")
}

func (e *env) params(iss, win, eku, nam int) certParams {
	r := e.c.Rng
	E := genNodeID(r)
	if nam == namCaseFold {
		E = genFoldID(r)
	}
	D := genHost(r)
	return certParams{Issuer: iss, Window: win, EKU: eku, Names: nam,
		E: E, O: "other-" + genASCII(r, 4), O2: E + "-2", D: D, DOther: "z" + genHost(r) + ".other"}
}

// ---------- one call of the verifier ----------

type vrun struct {
	VType, HType int
	Expected     string
	PinKind      int
	Pins         [][]byte
}

func (v vrun) String() string {
	hs := make([]string, len(v.Pins))
	for i, p := range v.Pins {
		hs[i] = hex.EncodeToString(p)
	}
	return fmt.Sprintf("vtype=%d htype=%d expected=%q pins=%s[%s]", v.VType, v.HType, v.Expected, pinName[v.PinKind], strings.Join(hs, ","))
}

func (v vrun) coqCfg() string {
	return fmt.Sprintf("(mkCfg %d %d %s %s)", v.VType, v.HType, hxp([]byte(v.Expected)), hxpList(v.Pins))
}

// class of the verifier's error: Model/Tls.v R_* (0 = nil)
func classify(err error) int {
	if err == nil {
		return 0
	}
	var ne netceptor.ReceptorCertNameError
	if errors.As(err, &ne) {
		return 8
	}
	s := err.Error()
	switch {
	case s == "RVF failed: peer certificate missing":
		return 1
	case strings.HasPrefix(s, "failed to parse certificate from server"):
		return 2
	case strings.HasPrefix(s, "RVF failed: invalid verification type"):
		return 3
	case strings.HasPrefix(s, "RVF failed: pinned certificate must be"):
		return 4
	case strings.HasPrefix(s, "RVF failed: presented certificate does not match any pinned"):
		return 5
	}
	var e1 x509.CertificateInvalidError
	var e2 x509.UnknownAuthorityError
	var e3 x509.HostnameError
	if errors.As(err, &e1) || errors.As(err, &e2) || errors.As(err, &e3) {
		return 6
	}
	var a1 asn1.StructuralError
	var a2 asn1.SyntaxError
	if errors.As(err, &a1) || errors.As(err, &a2) || strings.HasPrefix(s, "asn1:") {
		return 7
	}
	return 99
}

func contains(xs []string, x string) bool {
	for _, y := range xs {
		if y == x {
			return true
		}
	}
	return false
}

// The property's wording, from the construction parameters.
//
//	mustRefuse: at least one stated condition fails.
//	mustAccept: every stated condition holds (and the configuration itself is well-formed).
//
// at = the time of the call (unix nanoseconds): "currently valid" means valid THEN.
func (cc *certCase) oracle(v vrun, at int64) (mustAccept, mustRefuse bool, failed []string) {
	fail := func(s string) { failed = append(failed, s) }
	undetermined := false
	if !cc.Present {
		fail("no-certificate")
	}
	if cc.Present && !cc.Parses {
		fail("unparsable")
	}
	var chain, ekuOK bool
	switch v.VType {
	case vtServer:
		chain, ekuOK = cc.ChainRoots, cc.EKUServer
	case vtClient:
		chain, ekuOK = cc.ChainClientCAs, cc.EKUClient
	default:
		fail("invalid-verify-type")
	}
	if cc.Present && cc.Parses && (v.VType == vtServer || v.VType == vtClient) {
		if !chain {
			fail("untrusted-chain")
		}
		if at < cc.NB || at > cc.NA {
			fail("outside-validity")
		}
		if !ekuOK {
			fail("wrong-usage")
		}
		if len(v.Pins) > 0 {
			legal, match := cc.pinFacts(v.Pins)
			if !match {
				fail("pin-mismatch")
			}
			if !legal {
				undetermined = true // a pin that no certificate can match: the property does not say
			}
		}
		switch v.HType {
		case htRecv:
			if !contains(cc.IDs, v.Expected) {
				folds := false
				for _, id := range cc.IDs {
					if strings.EqualFold(id, v.Expected) {
						folds = true
					}
				}
				if folds { // a node ID is an exact string: another spelling is another node
					fail("node-id-differs-only-by-case")
				} else if v.Expected == "" { // the empty ID is an ID like any other: it must be named
					fail("empty-node-id-not-named")
				} else {
					fail("node-id-not-named")
				}
			} else if !cc.NamesOK {
				undetermined = true // the ID is there but the extension is malformed elsewhere
			}
		case htDNS:
			if v.Expected != "" && !contains(cc.DNS, v.Expected) {
				fail("dns-name-not-named")
			}
		}
	}
	mustRefuse = len(failed) > 0
	mustAccept = !mustRefuse && !undetermined
	return
}

// expected node IDs that name no node unless the certificate has exactly that otherName: the
// empty string, blanks only, one of the certificate's DNS names, its subject common name
func (cc *certCase) oddExpected() []string {
	return []string{"", " ", "  ", "\t", cc.P.D, leafCN}
}

func (e *env) verifyTier(cases []*certCase, pinsPerMode int) {
	r := e.c.Rng
	cfg := &tls.Config{RootCAs: e.p.rootPool, ClientCAs: e.p.clientPool}
	rot := 0
	for _, cc := range cases {
		var runs []vrun
		add := func(vt, ht int, exp string, pk int) {
			runs = append(runs, vrun{vt, ht, exp, pk, cc.pins(pk, r)})
		}
		for _, vt := range []int{vtServer, vtClient} {
			for _, m := range []struct {
				ht  int
				exp string
			}{{htRecv, cc.P.E}, {htDNS, cc.P.D}, {htDNS, ""}} {
				add(vt, m.ht, m.exp, pinNone)
				for k := 0; k < pinsPerMode; k++ {
					rot++
					add(vt, m.ht, m.exp, 1+rot%(nPins-1))
				}
			}
		}
		// the expected ID in a spelling that differs from E only by letter case / case folding
		fv := foldVariants(cc.P.E)
		rot++
		add(1+rot%2, htRecv, fv[rot%len(fv)], pinNone)
		// receptor-name mode with the empty expected ID (both roles), a blank-only ID, a DNS name
		// of the certificate and its common name
		odd := cc.oddExpected()
		add(vtServer, htRecv, "", pinNone)
		add(vtClient, htRecv, "", pinNone)
		add(1+rot%2, htRecv, odd[1+rot%3], pinNone)
		add(2-rot%2, htRecv, cc.P.D, pinNone)
		add(1+rot%2, htRecv, leafCN, pinNone)
		add(2-rot%2, htRecv, "", 1+rot%(nPins-1))
		// several certificates presented: pins that equal digests of the others, not of the peer's own
		if len(cc.Raw) > 1 && cc.Parses {
			add(vtServer, htRecv, cc.P.E, pinOfOther)
			add(vtClient, htRecv, cc.P.E, pinOfOtherAll)
			add(1+rot%2, htDNS, cc.P.D, pinOfOther)
			add(2-rot%2, htDNS, "", pinOfOtherAll)
		}
		// a free run: any verify type, any host name type, some other expected name
		exps := []string{cc.P.E, cc.P.O, "", cc.P.E + "x", cc.P.D, cc.P.DOther, cc.P.O2, fv[0], " ", leafCN}
		add([]int{0, 1, 2, 3, 1, 2}[r.Intn(6)], []int{0, 1, 2, 3, 1, 2, 2}[r.Intn(7)], exps[r.Intn(len(exps))], r.Intn(nPins))
		var terms []string
		now := time.Now().UnixNano()
		for _, v := range runs {
			f := netceptor.ReceptorVerifyFunc(cfg, v.Pins, v.Expected, netceptor.ExpectedHostnameType(v.HType), netceptor.VerifyType(v.VType), e.lg)
			err := f(cc.Raw, nil)
			cl := classify(err)
			terms = append(terms, fmt.Sprintf("(vr %s %d)", v.coqCfg(), cl))
			mustAccept, mustRefuse, failed := cc.oracle(v, now)
			rec := map[string]interface{}{"level": "verify-func", "cert": cc.Label, "run": v.String(), "failed_conditions": failed, "impl_error": fmt.Sprint(err)}
			e.im.Hist(fmt.Sprintf("verify:class=%d", cl))
			e.im.Hist("verify:pins=" + pinName[v.PinKind])
			if cl == 99 {
				e.im.Violate("ReceptorVerifyFunc returned an error of no known class: "+err.Error(), "verify-unknown-error", rec)
			}
			if mustRefuse && err == nil {
				e.im.Violate(fmt.Sprintf("ReceptorVerifyFunc ACCEPTS although %v (%s; %s)", failed, cc.Label, v), "verify-accepts:"+failed[0], rec)
			}
			if mustAccept && err != nil {
				e.im.Violate(fmt.Sprintf("ReceptorVerifyFunc refuses although every condition holds: %v (%s; %s)", err, cc.Label, v), "verify-refuses-good", rec)
			}
			e.im.Count("verify "+cc.Label+" "+v.String(), cc.Present && cc.Parses)
			if len(failed) == 1 {
				e.im.Hist("verify:single-failure=" + failed[0])
			} else if mustAccept {
				e.im.Hist("verify:all-conditions-hold")
			}
			e.im.Sample(rec)
		}
		e.im.Hist("cert:" + cc.Kind)
		e.cf.Add(fmt.Sprintf("TVerify %d %s %s", now, cc.coqFacts(), CoqList(terms)), "verify-func: "+cc.Label)
	}
}

// ---------- level 2: crypto/tls handshakes over net.Pipe ----------

func handshake(cli, srv *tls.Config) (cerr, serr error) {
	a, b := memPipe()
	defer a.Close()
	defer b.Close()
	_ = a.SetDeadline(time.Now().Add(10 * time.Second))
	_ = b.SetDeadline(time.Now().Add(10 * time.Second))
	sc := tls.Server(b, srv)
	done := make(chan error, 1)
	go func() {
		err := sc.Handshake()
		if err == nil {
			// let a TLS 1.3 client see the server's verdict on its certificate
			_, err = sc.Write([]byte{1})
		}
		done <- err
		if err != nil {
			_ = b.Close()
		}
	}()
	cc := tls.Client(a, cli)
	cerr = cc.Handshake()
	if cerr == nil {
		buf := make([]byte, 1)
		if _, err := io.ReadFull(cc, buf); err != nil {
			cerr = err
		}
	} else {
		_ = a.Close()
	}
	serr = <-done
	return cerr, serr
}

func hexPins(pins [][]byte) []string {
	o := make([]string, len(pins))
	for i, p := range pins {
		o[i] = hex.EncodeToString(p)
		if i%2 == 1 && len(o[i]) > 4 { // the colon-separated spelling is accepted too
			o[i] = o[i][:2] + ":" + o[i][2:4] + ":" + o[i][4:]
		}
	}
	return o
}

func configLegal(pins [][]byte) bool { // what decodeFingerprints admits
	for _, p := range pins {
		if len(p) != 32 && len(p) != 64 {
			return false
		}
	}
	return true
}

func (e *env) configRefused(what string, fingerprints []string, err error) {
	if e.refusedOnce == nil {
		e.refusedOnce = map[string]bool{}
	}
	if e.refusedOnce[what] {
		return
	}
	e.refusedOnce[what] = true
	e.im.Violate(fmt.Sprintf("%s refuses a list of well-formed sha256/sha512 fingerprints (%v): every connection through this profile is refused although all conditions can hold", what, err),
		"config-refuses-legal-fingerprints:"+what, fingerprints)
}

// client profile through the real configuration path where the pin list can be configured
func (e *env) clientProfile(name string, skip bool, pins [][]byte, cert *tls.Certificate) {
	tc := netceptor.TLSClientConfig{Name: name, RootCAs: e.rootsFile, InsecureSkipVerify: skip}
	viaConfig := configLegal(pins)
	if viaConfig {
		tc.PinnedServerCert = hexPins(pins)
	}
	cfg, decoded, err := tc.PrepareTLSClientConfig(e.node)
	if err != nil && viaConfig {
		// legal sha256/sha512 fingerprints (hex, optionally ':'-separated) refused by the configuration:
		// no connection can be established with this profile although every condition may hold
		e.configRefused("tls-client", tc.PinnedServerCert, err)
		tc.PinnedServerCert, viaConfig = nil, false
		cfg, decoded, err = tc.PrepareTLSClientConfig(e.node)
	}
	Must(err)
	if !viaConfig {
		decoded = pins
	}
	if cert != nil {
		cfg.Certificates = []tls.Certificate{*cert}
	}
	Must(e.node.SetClientTLSConfig(name, cfg, decoded))
}

func (e *env) clientTier(cases []*certCase, runsPer int) {
	r := e.c.Rng
	for _, cc := range cases {
		if cc.Kind != "product" && cc.Kind != "plus-stranger" {
			continue
		}
		srv := &tls.Config{Certificates: []tls.Certificate{{Certificate: cc.Raw, PrivateKey: e.p.leafKey}}, MinVersion: tls.VersionTLS12}
		var terms []string
		now := time.Now().UnixNano()
		odd := cc.oddExpected()
		for k := 0; k < runsPer+2; k++ {
			ht := []int{htRecv, htDNS, htRecv, htDNS, htDNS}[k%5]
			exp := cc.P.E
			if ht == htDNS {
				exp = cc.P.D
			}
			special := k >= runsPer
			if special {
				ht = htRecv
			}
			switch r.Intn(8) {
			case 0:
				exp = cc.P.O
			case 1:
				if ht == htDNS {
					exp = ""
				}
			}
			pk := pinNone
			if k > 0 {
				pk = r.Intn(nPins)
			}
			if k > 0 && k < runsPer && len(cc.Raw) > 1 && k%2 == 1 {
				pk = pinOfOther + k/2%2 // pins that name another certificate of the server's certificate message
			}
			skip := r.Chance(6)
			if cc.P.Names == namCaseFold && k == 0 {
				exp, skip = cc.P.E, false // receptor-name mode against spellings that differ only by case
			}
			if cc.P.Names == namExpected && k == 2 {
				fv := foldVariants(cc.P.E)
				exp, skip, pk = fv[r.Intn(len(fv))], false, pinNone // the other direction: the expected ID has the other spelling
			}
			if special { // receptor mode: the empty expected ID, then a blank / DNS name / common name
				exp, skip, pk = "", false, pinNone
				if k > runsPer {
					exp = odd[1+r.Intn(len(odd)-1)]
				}
			}
			v := vrun{vtServer, ht, exp, pk, cc.pins(pk, r)}
			e.clientProfile("cli", skip, v.Pins, nil)
			tc, err := e.node.GetClientTLSConfig("cli", exp, netceptor.ExpectedHostnameType(ht))
			Must(err)
			cerr, _ := handshake(tc, srv)
			ok := cerr == nil
			terms = append(terms, fmt.Sprintf("(cr (mkProfile %s [] %s) %s %d %s)", CoqBool(skip), hxpList(v.Pins), hxp([]byte(exp)), ht, CoqBool(ok)))
			rec := map[string]interface{}{"level": "tls-client-handshake", "cert": cc.Label, "run": v.String(), "insecure_skip_verify": skip, "impl_error": fmt.Sprint(cerr)}
			e.im.Hist(fmt.Sprintf("client-handshake:ok=%v", ok))
			e.im.Count("client-hs "+cc.Label+" "+v.String()+fmt.Sprint(skip), true)
			// structure of the returned config
			if skip {
				if tc.VerifyPeerCertificate != nil || !tc.InsecureSkipVerify {
					e.im.Violate("GetClientTLSConfig changed an InsecureSkipVerify profile", "client-config-shape", rec)
				}
				continue
			}
			if tc.VerifyPeerCertificate == nil || (ht == htRecv) != tc.InsecureSkipVerify || (ht == htDNS && tc.ServerName != exp) {
				e.im.Violate("GetClientTLSConfig: verifier missing or default host name check not as documented", "client-config-shape", rec)
			}
			mustAccept, mustRefuse, failed := cc.oracle(v, now)
			rec["failed_conditions"] = failed
			if mustRefuse && ok {
				e.im.Violate(fmt.Sprintf("TLS client handshake SUCCEEDS although %v (%s; %s)", failed, cc.Label, v), "client-handshake-accepts:"+failed[0], rec)
			}
			if mustAccept && !ok && !(ht == htDNS && exp == "") {
				e.im.Violate(fmt.Sprintf("TLS client handshake fails although every condition holds: %v (%s; %s)", cerr, cc.Label, v), "client-handshake-refuses-good", rec)
			}
		}
		e.cf.Add(fmt.Sprintf("TClient %d %s %s", now, cc.coqFacts(), CoqList(terms)), "tls client handshake: "+cc.Label)
	}
}

type sprofile struct {
	Require, CAs bool
	PinKind      int
	Pins         [][]byte
}

func (s sprofile) String() string {
	return fmt.Sprintf("require=%v clientCAs=%v pins=%s(%d)", s.Require, s.CAs, pinName[s.PinKind], len(s.Pins))
}

func (s sprofile) coq() string {
	return fmt.Sprintf("(mkSProfile %s %s %s)", CoqBool(s.Require), CoqBool(s.CAs), hxpList(s.Pins))
}

// server config through PrepareTLSServerConfig; pin lists the configuration syntax cannot
// express are installed the way PrepareTLSServerConfig installs them
func (e *env) serverConfig(n *netceptor.Netceptor, sp sprofile, cert, key string) *tls.Config {
	sc := netceptor.TLSServerConfig{Name: "srv", Cert: cert, Key: key, RequireClientCert: sp.Require}
	if sp.CAs {
		sc.ClientCAs = e.clientCAsFile
	}
	viaConfig := configLegal(sp.Pins)
	if viaConfig {
		sc.PinnedClientCert = hexPins(sp.Pins)
	}
	cfg, err := sc.PrepareTLSServerConfig(n)
	if err != nil && viaConfig {
		e.configRefused("tls-server", sc.PinnedClientCert, err)
		sc.PinnedClientCert, viaConfig = nil, false
		cfg, err = sc.PrepareTLSServerConfig(n)
	}
	Must(err)
	if !viaConfig && cfg.ClientAuth != tls.NoClientCert {
		cfg.VerifyPeerCertificate = netceptor.ReceptorVerifyFunc(cfg, sp.Pins, "", netceptor.ExpectedHostnameTypeDNS, netceptor.VerifyClient, e.lg)
	}
	return cfg
}

func (e *env) serverTier(cases []*certCase, runsPer int) {
	r := e.c.Rng
	for _, cc := range cases {
		if cc.Kind != "product" && cc.Kind != "no-cert" && cc.Kind != "plus-stranger" {
			continue
		}
		var terms []string
		now := time.Now().UnixNano()
		for k := 0; k < runsPer; k++ {
			sp := sprofile{Require: r.Chance(60), CAs: true}
			if !sp.Require && r.Chance(25) {
				sp.CAs = false
			}
			if k > 0 {
				sp.PinKind = r.Intn(nPins)
			}
			if k > 0 && len(cc.Raw) > 1 && k%2 == 1 {
				sp.PinKind = pinOfOther + k/2%2 // pins that name another certificate of the client's certificate message
			}
			sp.Pins = cc.pins(sp.PinKind, r)
			srv := e.serverConfig(e.node, sp, e.srvCert, e.srvKey)
			cli := &tls.Config{InsecureSkipVerify: true}
			if cc.Present {
				crt := &tls.Certificate{Certificate: cc.Raw, PrivateKey: e.p.leafKey}
				cli.GetClientCertificate = func(*tls.CertificateRequestInfo) (*tls.Certificate, error) { return crt, nil }
			}
			_, serr := handshake(cli, srv)
			ok := serr == nil
			terms = append(terms, fmt.Sprintf("(sr %s %s)", sp.coq(), CoqBool(ok)))
			rec := map[string]interface{}{"level": "tls-server-handshake", "cert": cc.Label, "profile": sp.String(), "impl_error": fmt.Sprint(serr)}
			e.im.Hist(fmt.Sprintf("server-handshake:ok=%v", ok))
			e.im.Count("server-hs "+cc.Label+" "+sp.String(), true)
			if !sp.Require && !sp.CAs {
				continue // no client authentication configured: the property does not apply
			}
			v := vrun{vtClient, htDNS, "", sp.PinKind, sp.Pins}
			mustAccept, mustRefuse, failed := cc.oracle(v, now)
			rec["failed_conditions"] = failed
			if mustRefuse && ok {
				e.im.Violate(fmt.Sprintf("TLS server handshake SUCCEEDS although %v (%s; %s)", failed, cc.Label, sp), "server-handshake-accepts:"+failed[0], rec)
			}
			if mustAccept && !ok {
				e.im.Violate(fmt.Sprintf("TLS server handshake fails although every condition holds: %v (%s; %s)", serr, cc.Label, sp), "server-handshake-refuses-good", rec)
			}
		}
		e.cf.Add(fmt.Sprintf("TServer %d %s %s", now, cc.coqFacts(), CoqList(terms)), "tls server handshake: "+cc.Label)
		// the client role in receptor-name mode: the profile's verifier followed by a name verifier
		// for an arbitrary expected ID, installed the way conn.go listen installs it per connection
		// (on the mesh the expected ID is always a live node's ID; here it is the empty ID, a blank,
		// a DNS name, the common name, or the proper ID)
		if cc.Kind == "product" {
			odd := append(cc.oddExpected(), cc.P.E)
			var lterms []string
			for k, exp := range []string{"", odd[1+r.Intn(len(odd)-1)]} {
				sp := sprofile{Require: true, CAs: true}
				if k == 1 && r.Chance(30) {
					sp.PinKind = pinSha256
				}
				sp.Pins = cc.pins(sp.PinKind, r)
				srv := e.serverConfig(e.node, sp, e.srvCert, e.srvKey)
				configured := srv.VerifyPeerCertificate
				nameCheck := netceptor.ReceptorVerifyFunc(srv, [][]byte{}, exp, netceptor.ExpectedHostnameTypeReceptor, netceptor.VerifyClient, e.lg)
				srv.VerifyPeerCertificate = func(raw [][]byte, chains [][]*x509.Certificate) error {
					if configured != nil {
						if err := configured(raw, chains); err != nil {
							return err
						}
					}
					return nameCheck(raw, chains)
				}
				crt := &tls.Certificate{Certificate: cc.Raw, PrivateKey: e.p.leafKey}
				cli := &tls.Config{InsecureSkipVerify: true}
				cli.GetClientCertificate = func(*tls.CertificateRequestInfo) (*tls.Certificate, error) { return crt, nil }
				_, serr := handshake(cli, srv)
				ok := serr == nil
				lterms = append(lterms, fmt.Sprintf("(lr %s (mkAddr %s []) %s)", sp.coq(), hxp([]byte(exp)), CoqBool(ok)))
				v := vrun{vtClient, htRecv, exp, sp.PinKind, sp.Pins}
				rec := map[string]interface{}{"level": "tls-server-handshake-receptor-name", "cert": cc.Label, "run": v.String(), "impl_error": fmt.Sprint(serr)}
				e.im.Hist(fmt.Sprintf("server-name-handshake:ok=%v", ok))
				e.im.Count("server-name-hs "+cc.Label+" "+v.String(), true)
				mustAccept, mustRefuse, failed := cc.oracle(v, now)
				rec["failed_conditions"] = failed
				if mustRefuse && ok {
					e.im.Violate(fmt.Sprintf("TLS server handshake (receptor-name verifier) SUCCEEDS although %v (%s; %s)", failed, cc.Label, v), "server-handshake-accepts:"+failed[0], rec)
				}
				if mustAccept && !ok {
					e.im.Violate(fmt.Sprintf("TLS server handshake (receptor-name verifier) fails although every condition holds: %v (%s; %s)", serr, cc.Label, v), "server-handshake-refuses-good", rec)
				}
			}
			e.cf.Add(fmt.Sprintf("TListen %d %s %s", now, cc.coqFacts(), CoqList(lterms)), "tls server handshake, receptor-name verifier for the client role: "+cc.Label)
		}
	}
	// the configuration syntax itself refuses pins that are not sha256/sha512 sized
	for _, n := range []int{0, 20, 28, 31, 33, 48, 63, 65} {
		sc := netceptor.TLSServerConfig{Name: "x", Cert: e.srvCert, Key: e.srvKey, RequireClientCert: true, ClientCAs: e.clientCAsFile,
			PinnedClientCert: []string{hex.EncodeToString(r.Bytes(n))}}
		_, err1 := sc.PrepareTLSServerConfig(e.node)
		_, _, err2 := netceptor.TLSClientConfig{Name: "x", RootCAs: e.rootsFile, PinnedServerCert: []string{hex.EncodeToString(r.Bytes(n))}}.PrepareTLSClientConfig(e.node)
		e.im.Count(fmt.Sprintf("config-pin-length %d", n), true)
		if err1 == nil || err2 == nil {
			e.im.Violate(fmt.Sprintf("tls-server/tls-client configuration admits a %d-byte pinned fingerprint", n), "config-pin-length", n)
		}
	}
}

// ---------- run ----------

func runC09(c *Ctx) {
	im := NewImpl("C09", c.Seed, c.Tier)
	im.Rule = "certificates from crypto/x509 over issuer{RootCAs CA, ClientCAs CA, unrelated CA, self-signed, via intermediate presented/missing} x window{valid, expired, not yet valid} x EKU{server, client, both, neither, absent} x names{expected, other, several, none, DNS-only, DNS-other, several-without, near-miss, bad-UTF8, blank-ids = otherNames \"\" and \" \", case-fold = every spelling differing from the expected ID only by ASCII case or Unicode simple case folding k/U+212A s/U+017F, both directions} (node IDs and host names random per certificate), plus malformed presentations (no certificate, garbage, truncated, garbage second element) and good certificates followed by a stranger's certificate, with pin lists that equal the digests of the OTHER presented certificates; each shown to ReceptorVerifyFunc for both verify types x {receptor, DNS, DNS-empty} x rotating pin lists {none, sha256, sha512, sha224, sha384, miss, wrong length, match-then-wrong, wrong-then-match, miss-then-match, empty pin, match-then-miss, digest of another presented certificate, digests of all other presented certificates} plus a free run (invalid types, other expected names); TIME: verifiers (ReceptorVerifyFunc closures, GetClientTLSConfig receptor-mode config, PrepareTLSServerConfig config) are built first for certificates whose window ends / begins ~6 s later, used at once and used again after the boundary, every case carrying the time of the call; CONFIG: profile lookups by name, the default client profile, fingerprint option spellings/sizes/mutations through PrepareTLS*Config; CONSUMERS: YAML documents (tls-server, tls-client, tcp-listener/peer, ws-listener/peer, control-service, tcp-server, tcp-client) parsed by the receptor command's cmdline library and run on real nodes over loopback sockets, each consumer with the accept/refuse matrix of certificates; a sample goes through crypto/tls handshakes (client side via GetClientTLSConfig, server side via PrepareTLSServerConfig) and through DialContext/ListenAndAdvertise on a real mesh; non-trivial = a certificate was presented and parses; distinct by certificate parameters + run"
	cf := &CaseFile{Dir: c.Out, Prop: "C09", Imports: []string{"Model.Tls"}, CaseType: "tls_case", CheckFn: "tls_check", PerShard: 60}
	QuietLogs()
	log.SetOutput(io.Discard) // net/http reports every refused TLS handshake of the websocket listeners
	lg := logger.NewReceptorLogger("")
	lg.SetOutput(io.Discard)
	tmp, err := os.MkdirTemp("", "vh-c09-")
	Must(err)
	defer os.RemoveAll(tmp)
	t0 := time.Now()
	e := &env{c: c, im: im, cf: cf, p: newPKI(), lg: lg, tmp: tmp}
	im.Extra["rsa_keys_generated"] = e.p.nkeys
	im.Extra["pki_seconds"] = time.Since(t0).Seconds()
	ctx, cancel := context.WithCancel(context.Background())
	defer cancel()
	e.node = netceptor.New(ctx, "verif-node")
	defer e.node.Shutdown()
	// files for the configuration path
	e.rootsFile, e.clientCAsFile = filepath.Join(tmp, "roots.pem"), filepath.Join(tmp, "clientcas.pem")
	Must(os.WriteFile(e.rootsFile, pemCert(e.p.root.cert.Raw, e.p.both.cert.Raw), 0o600))
	Must(os.WriteFile(e.clientCAsFile, pemCert(e.p.client.cert.Raw, e.p.both.cert.Raw), 0o600))
	own := e.p.make(certParams{Issuer: issRoot, Window: winValid, EKU: ekuBoth, Names: namExpected, E: "verif-node", D: "verif-node.example"})
	e.srvCert, e.srvKey = filepath.Join(tmp, "srv.crt"), filepath.Join(tmp, "srv.key")
	Must(os.WriteFile(e.srvCert, pemCert(own.Raw...), 0o600))
	Must(os.WriteFile(e.srvKey, pemKey(e.p.leafKey), 0o600))

	r := c.Rng
	// the product
	var cases []*certCase
	for iss := 0; iss < nIssuers; iss++ {
		for win := 0; win < nWindows; win++ {
			for eku := 0; eku < nEKUs; eku++ {
				for nam := 0; nam < nNames; nam++ {
					if iss >= issInterOK && !c.Thorough() && (win+eku+nam)%3 != 0 {
						continue // the intermediate variants are outside the property's product: sampled in quick
					}
					cases = append(cases, e.p.make(e.params(iss, win, eku, nam)))
				}
			}
		}
	}
	nProduct := len(cases)
	// malformed presentations
	for i := 0; i < 24; i++ {
		base := cases[r.Intn(nProduct)]
		cases = append(cases, base.malformed([]string{"no-cert", "garbage-leaf", "truncated-leaf", "garbage-second"}[i%4], r))
	}
	// good certificates followed by a stranger's certificate in the same certificate message
	stranger := e.p.make(certParams{Issuer: issRoot, Window: winValid, EKU: ekuBoth, Names: namExpected, E: "pinned-stranger", D: "stranger.example"})
	strangerDER = stranger.Raw[0]
	nStr := 0
	for _, i := range r.Perm(nProduct) {
		base := cases[i]
		if base.TimeOK && (base.ChainRoots || base.ChainClientCAs) && base.Kind == "product" {
			cases = append(cases, base.malformed("plus-stranger", r))
			if nStr++; nStr >= 10 {
				break
			}
		}
	}
	im.Extra["certificates"] = len(cases)
	pinsPerMode := 1
	if c.Thorough() {
		pinsPerMode = nPins - 1
	}
	// time dimension, first half: build verifiers and configs now, use them at once
	lead := 6 * time.Second
	timed := e.timeBuild(lead)
	e.timeCall(timed, "first-use")
	t1 := time.Now()
	e.verifyTier(cases, pinsPerMode)
	im.Extra["verify_seconds"] = time.Since(t1).Seconds()

	// handshakes on a sample: every certificate with all other conditions good, and a random rest
	var sample []*certCase
	for i, cc := range cases {
		good := cc.TimeOK && cc.Kind == "product"
		if c.Thorough() || cc.Kind == "no-cert" || cc.Kind == "plus-stranger" || (good && i%4 == 0) || i%13 == 0 || (good && cc.P.Names == namCaseFold && cc.P.Issuer <= issClient) {
			sample = append(sample, cc)
		}
	}
	t2 := time.Now()
	hsRuns := 3
	if c.Thorough() {
		hsRuns = 8
	}
	e.clientTier(sample, hsRuns)
	e.serverTier(sample, hsRuns)
	im.Extra["handshake_seconds"] = time.Since(t2).Seconds()

	e.configTier()
	t4 := time.Now()
	e.consumerTier()
	im.Extra["consumer_seconds"] = time.Since(t4).Seconds()

	t3 := time.Now()
	e.meshTier()
	im.Extra["mesh_seconds"] = time.Since(t3).Seconds()

	// time dimension, second half: the boundary has passed; same objects, same certificates
	im.Extra["time_boundary_extra_wait_seconds"] = timeWaitPast(timed).Seconds()
	e.timeCall(timed, "later-use")

	Must(cf.Write())
	Must(im.Write(c.Out))
}
