package main

// Level 4: every place of receptor that CONSUMES a named TLS profile, driven through the real
// configuration path.  YAML documents are parsed by the same cmdline library and the same
// registered config types the receptor command uses (tls-server, tls-client, tcp-listener,
// tcp-peer, ws-listener, ws-peer, control-service, tcp-server, tcp-client), run with their
// Prepare and Run phases against real nodes, over real loopback sockets.  The accept/refuse
// matrix (chain, validity, usage, host name or node ID, pin, role) is judged at each consumer
// by the property-text oracle on the construction parameters of the certificates.

import (
	"bufio"
	"context"
	"crypto/tls"
	"encoding/hex"
	"fmt"
	"io"
	"net"
	"os"
	"path/filepath"
	"strings"
	"time"

	. "verifharness/lib"

	"github.com/ghjm/cmdline"

	_ "github.com/ansible/receptor/pkg/backends"
	"github.com/ansible/receptor/pkg/controlsvc"
	"github.com/ansible/receptor/pkg/netceptor"
	_ "github.com/ansible/receptor/pkg/services"
)

var yamlSeq int

// runs one YAML configuration document against node n the way `receptor --config file` does
// (minus the node: entry): parse, then the Prepare and Run phases of every entry, in order
func (e *env) runYAML(n *netceptor.Netceptor, ctl *controlsvc.Server, doc string) error {
	netceptor.MainInstance = n
	controlsvc.MainInstance = ctl
	yamlSeq++
	f := filepath.Join(e.tmp, fmt.Sprintf("conf%d.yml", yamlSeq))
	Must(os.WriteFile(f, []byte(doc), 0o600))
	cl := cmdline.NewCmdline()
	cl.SetOutput(io.Discard)
	for _, app := range []string{"receptor-tls", "receptor-control-service", "receptor-command-service", "receptor-proxies", "receptor-backends"} {
		cl.AddRegisteredConfigTypes(app)
	}
	return cl.ParseAndRun([]string{"--config", f}, []string{"Prepare", "Run"})
}

func freePort() int {
	l, err := net.Listen("tcp", "127.0.0.1:0")
	Must(err)
	defer l.Close()
	return l.Addr().(*net.TCPAddr).Port
}

func (e *env) writePair(name string, cc *certCase) (string, string) {
	cf, kf := filepath.Join(e.tmp, name+".crt"), filepath.Join(e.tmp, name+".key")
	Must(os.WriteFile(cf, pemCert(cc.Raw...), 0o600))
	Must(os.WriteFile(kf, pemKey(e.p.leafKey), 0o600))
	return cf, kf
}

// fingerprint spellings the configuration accepts: lower / upper case hex, with or without ':'
func spellFingerprint(b []byte, style int) string {
	h := hex.EncodeToString(b)
	if style&1 == 1 {
		h = strings.ToUpper(h)
	}
	if style&2 == 2 {
		var parts []string
		for i := 0; i < len(h); i += 2 {
			parts = append(parts, h[i:i+2])
		}
		h = strings.Join(parts, ":")
	}
	return h
}

func yamlList(xs []string) string {
	q := make([]string, len(xs))
	for i, x := range xs {
		q[i] = `"` + x + `"`
	}
	return "[" + strings.Join(q, ", ") + "]"
}

func newNode(id string) (*netceptor.Netceptor, context.CancelFunc) {
	ctx, cancel := context.WithCancel(context.Background())
	c := FastConsts()
	n := netceptor.NewWithConsts(ctx, id, c.MTU, c.RouteUpdate, c.ServiceAd, c.SeenExpire, c.MaxHops, c.MaxIdle)
	return n, func() { n.Shutdown(); cancel() }
}

func connectedTo(n *netceptor.Netceptor, peer string) bool {
	for _, c := range n.Status().Connections {
		if c.NodeID == peer {
			return true
		}
	}
	return false
}

// a client-side profile of one dial
type cliProfile struct {
	cert     *certCase // nil: no client certificate
	pinKind  int
	pins     [][]byte
	insecure bool
	style    int
}

func (e *env) tlsClientYAML(name string, cp cliProfile, tag string) string {
	var sb strings.Builder
	fmt.Fprintf(&sb, "- tls-client:\n    name: %s\n    rootcas: %s\n", name, e.rootsFile)
	if cp.cert != nil {
		cf, kf := e.writePair("cli-"+tag, cp.cert)
		fmt.Fprintf(&sb, "    cert: %s\n    key: %s\n    skipreceptornamescheck: true\n", cf, kf)
	} else {
		// cert and key are required keys of tls-client; empty values mean "no client certificate"
		sb.WriteString("    cert: \"\"\n    key: \"\"\n")
	}
	if len(cp.pins) > 0 {
		var fs []string
		for i, p := range cp.pins {
			fs = append(fs, spellFingerprint(p, cp.style+i))
		}
		fmt.Fprintf(&sb, "    pinnedservercert: %s\n", yamlList(fs))
	}
	if cp.insecure {
		sb.WriteString("    insecureskipverify: true\n")
	}
	return sb.String()
}

// one backend dial from a fresh node: accepted = the peer connection to the listening node exists
func (e *env) backendDial(kind string, port int, cp cliProfile, tag string, listenerID string) (bool, error) {
	id := "dial-" + tag
	n, stop := newNode(id)
	defer stop()
	doc := e.tlsClientYAML("c", cp, tag)
	switch kind {
	case "tcp":
		doc += fmt.Sprintf("- tcp-peer:\n    address: localhost:%d\n    redial: false\n    tls: c\n", port)
	default:
		doc += fmt.Sprintf("- ws-peer:\n    address: wss://localhost:%d\n    redial: false\n    tls: c\n", port)
	}
	if err := e.runYAML(n, nil, doc); err != nil {
		return false, err
	}
	done := make(chan struct{})
	go func() { n.BackendWait(); close(done) }()
	deadline := time.After(8 * time.Second)
	for {
		if connectedTo(n, listenerID) {
			return true, nil
		}
		select {
		case <-done:
			// the dialer gave up (redial: false); one last look
			time.Sleep(20 * time.Millisecond)
			return connectedTo(n, listenerID), fmt.Errorf("backend ended")
		case <-deadline:
			return false, fmt.Errorf("no connection within 8 s")
		case <-time.After(5 * time.Millisecond):
		}
	}
}

// a TCP echo server behind TLS presenting cc (what an outbound proxy or a TLS client connects to)
func (e *env) tlsEchoServer(cc *certCase) (int, func()) {
	l, err := tls.Listen("tcp", "127.0.0.1:0", &tls.Config{Certificates: []tls.Certificate{{Certificate: cc.Raw, PrivateKey: e.p.leafKey}}, MinVersion: tls.VersionTLS12})
	Must(err)
	go func() {
		for {
			c, err := l.Accept()
			if err != nil {
				return
			}
			go func() {
				defer c.Close()
				_ = c.SetDeadline(time.Now().Add(10 * time.Second))
				buf := make([]byte, 64)
				n, err := c.Read(buf)
				if err == nil {
					_, _ = c.Write(append([]byte("echo:"), buf[:n]...))
				}
			}()
		}
	}()
	return l.Addr().(*net.TCPAddr).Port, func() { _ = l.Close() }
}

// write a probe, expect the echo: true = the whole path was established
func probeEcho(c net.Conn, wait time.Duration) (bool, error) {
	res := make(chan error, 1)
	go func() {
		if _, err := c.Write([]byte("ping")); err != nil {
			res <- err
			return
		}
		// (a command service's terminal echoes the probe before the command's output)
		var got []byte
		buf := make([]byte, 64)
		for !strings.Contains(string(got), "echo:ping") {
			n, err := c.Read(buf)
			got = append(got, buf[:n]...)
			if err != nil && !strings.Contains(string(got), "echo:ping") {
				res <- fmt.Errorf("%v (received %q)", err, got)
				return
			}
			if len(got) > 512 {
				res <- fmt.Errorf("unexpected reply %q", got)
				return
			}
		}
		res <- nil
	}()
	select {
	case err := <-res:
		return err == nil, err
	case <-time.After(wait):
		return false, fmt.Errorf("no echo within %v", wait)
	}
}

// first line of the control service: "Receptor Control, node <id>"
func readBanner(c net.Conn, wait time.Duration) (bool, error) {
	res := make(chan error, 1)
	go func() {
		line, err := bufio.NewReader(c).ReadString('\n')
		if err == nil && !strings.HasPrefix(line, "Receptor Control, node ") {
			err = fmt.Errorf("unexpected banner %q", line)
		}
		res <- err
	}()
	select {
	case err := <-res:
		return err == nil, err
	case <-time.After(wait):
		return false, fmt.Errorf("no banner within %v", wait)
	}
}

// The proxies keep the accepted side open when their onward connection is refused, so a refusal
// shows only as silence: wait long where the property demands an echo, briefly where it does not.
func echoWait(cc *certCase, v vrun) time.Duration {
	if mustAccept, _, _ := cc.oracle(v, time.Now().UnixNano()); mustAccept {
		return 8 * time.Second
	}
	return 1200 * time.Millisecond
}

type consumerJudge struct {
	e        *env
	consumer string
}

// verdict of one consumer on one certificate: oracle + histogram; returns the case time
func (j consumerJudge) judge(cc *certCase, v vrun, ok bool, err error, what string) {
	e := j.e
	now := time.Now().UnixNano()
	mustAccept, mustRefuse, failed := cc.oracle(v, now)
	rec := map[string]interface{}{"level": "consumer:" + j.consumer, "what": what, "cert": cc.Label, "run": v.String(), "impl_error": fmt.Sprint(err), "failed_conditions": failed}
	e.im.Hist(fmt.Sprintf("consumer:%s:ok=%v", j.consumer, ok))
	e.im.Count("consumer "+j.consumer+" "+what+" "+cc.Label+" "+v.String(), true)
	if mustRefuse && ok {
		e.im.Violate(fmt.Sprintf("%s (%s) is ESTABLISHED although %v (%s)", j.consumer, what, failed, cc.Label), "consumer-accepts:"+j.consumer+":"+failed[0], rec)
	}
	if mustAccept && !ok {
		e.im.Violate(fmt.Sprintf("%s (%s) is refused although every condition holds: %v (%s)", j.consumer, what, err, cc.Label), "consumer-refuses-good:"+j.consumer, rec)
	}
	e.im.Sample(rec)
}

func (e *env) consumerTier() {
	r := e.c.Rng
	lid := "cons-a"
	A, stopA := newNode(lid)
	defer stopA()
	ctl := controlsvc.New(false, A)
	mk := func(iss, win, eku, nam int, E string) *certCase {
		return e.p.make(certParams{Issuer: iss, Window: win, EKU: eku, Names: nam, E: E, O: "elsewhere", O2: E + "-2", D: "localhost", DOther: "other.example"})
	}
	// certificates a listener presents; dialers expect the DNS name localhost (backends, tcp
	// connections) or the node ID cons-a (receptor services)
	type variant struct {
		name string
		cc   *certCase
	}
	srv := []variant{
		{"good", mk(issRoot, winValid, ekuServer, namSeveral, lid)},
		{"otherca", mk(issOther, winValid, ekuServer, namSeveral, lid)},
		{"expired", mk(issRoot, winExpired, ekuServer, namSeveral, lid)},
		{"clientusage", mk(issRoot, winValid, ekuClient, namSeveral, lid)},
		{"wrongdns", mk(issRoot, winValid, ekuServer, namDNSOther, lid)},
		{"othernode", mk(issRoot, winValid, ekuServer, namOther, lid)},
	}
	// certificates a dialer presents to listeners that authenticate clients
	cli := []variant{
		{"good", mk(issClient, winValid, ekuClient, namExpected, "dialer")},
		{"good2", mk(issClient, winValid, ekuBoth, namExpected, "dialer")},
		{"otherca", mk(issRoot, winValid, ekuClient, namExpected, "dialer")},
		{"expired", mk(issClient, winExpired, ekuClient, namExpected, "dialer")},
		{"serverusage", mk(issClient, winValid, ekuServer, namExpected, "dialer")},
	}
	noCert := cli[0].cc.malformed("no-cert", r)
	pinned := cli[0].cc
	mpins := [][]byte{r.Bytes(32), pinned.D256} // what the m-pin profile pins: a stranger and the "good" dialer certificate

	// ---- the listening node's configuration document ----
	var doc strings.Builder
	ports := map[string]int{}
	profileOf := map[string]sprofile{}
	for _, v := range srv {
		cf, kf := e.writePair("srv-"+v.name, v.cc)
		fmt.Fprintf(&doc, "- tls-server:\n    name: s-%s\n    cert: %s\n    key: %s\n    skipreceptornamescheck: true\n", v.name, cf, kf)
	}
	gcf, gkf := e.writePair("srv-good", srv[0].cc)
	fmt.Fprintf(&doc, "- tls-server:\n    name: m-req\n    cert: %s\n    key: %s\n    requireclientcert: true\n    clientcas: %s\n", gcf, gkf, e.clientCAsFile)
	fmt.Fprintf(&doc, "- tls-server:\n    name: m-pin\n    cert: %s\n    key: %s\n    requireclientcert: true\n    clientcas: %s\n    pinnedclientcert: %s\n",
		gcf, gkf, e.clientCAsFile, yamlList([]string{spellFingerprint(mpins[0], 0), spellFingerprint(mpins[1], 3)}))
	fmt.Fprintf(&doc, "- tls-server:\n    name: m-opt\n    cert: %s\n    key: %s\n    clientcas: %s\n", gcf, gkf, e.clientCAsFile)
	fmt.Fprintf(&doc, "- tls-server:\n    name: s-tls13\n    cert: %s\n    key: %s\n    mintls13: true\n", gcf, gkf)
	profileOf["m-req"] = sprofile{Require: true, CAs: true}
	profileOf["m-pin"] = sprofile{Require: true, CAs: true, PinKind: pinMissThenMatch, Pins: mpins}
	profileOf["m-opt"] = sprofile{Require: false, CAs: true}
	addL := func(kind, prof string) {
		p := freePort()
		ports[kind+":"+prof] = p
		fmt.Fprintf(&doc, "- %s-listener:\n    bindaddr: 127.0.0.1\n    port: %d\n    tls: %s\n", kind, p, prof)
	}
	for _, v := range srv[:5] {
		addL("tcp", "s-"+v.name)
	}
	for _, pf := range []string{"m-req", "m-pin", "m-opt", "s-tls13"} {
		addL("tcp", pf)
	}
	for _, pf := range []string{"s-good", "s-otherca", "m-req", "m-pin"} {
		addL("ws", pf)
	}
	plainPort := freePort()
	fmt.Fprintf(&doc, "- tcp-listener:\n    bindaddr: 127.0.0.1\n    port: %d\n", plainPort)
	ctlPort := freePort()
	fmt.Fprintf(&doc, "- control-service:\n    service: ctl\n    tls: m-req\n    tcplisten: 127.0.0.1:%d\n    tcptls: m-pin\n", ctlPort)
	// outbound TCP proxies: receptor service -> TLS connection to an address
	outTargets := []variant{srv[0], srv[1], srv[4], srv[2]}
	fmt.Fprintf(&doc, "- tls-client:\n    name: px\n    rootcas: %s\n    cert: \"\"\n    key: \"\"\n", e.rootsFile)
	for i, v := range outTargets {
		port, stop := e.tlsEchoServer(v.cc)
		defer stop()
		fmt.Fprintf(&doc, "- tcp-client:\n    service: out%d\n    address: localhost:%d\n    tlsserver: s-good\n    tlsclient: px\n", i, port)
	}
	// a Unix-socket echo server behind an outbound unix proxy, and a command service, both with tls = m-req
	uxEcho := filepath.Join(e.tmp, "echo.sock")
	{
		ul, err := net.Listen("unix", uxEcho)
		Must(err)
		defer ul.Close()
		go func() {
			for {
				c, err := ul.Accept()
				if err != nil {
					return
				}
				go func() {
					defer c.Close()
					buf := make([]byte, 64)
					n, err := c.Read(buf)
					if err == nil {
						_, _ = c.Write(append([]byte("echo:"), buf[:n]...))
					}
				}()
			}
		}()
	}
	fmt.Fprintf(&doc, "- unix-socket-client:\n    service: uxo\n    filename: %s\n    tls: m-req\n", uxEcho)
	fmt.Fprintf(&doc, "- command-service:\n    service: cmd\n    command: \"echo echo:ping\"\n    tls: m-req\n")
	if err := e.runYAML(A, ctl, doc.String()); err != nil {
		e.im.Violate("the listening node's configuration is refused: "+err.Error(), "consumer-setup", doc.String())
		return
	}
	e.im.Hist("consumer:listeners-configured")

	// ---- (1) backends: the dialer verifies the listener (DNS name localhost) ----
	pinChoices := func(cc *certCase) []cliProfile {
		return []cliProfile{
			{pinKind: pinNone},
			{pinKind: pinSha256, pins: [][]byte{cc.D256}, style: r.Intn(4)},
			{pinKind: pinMissLegal, pins: [][]byte{flip(cc.D256, r), r.Bytes(64)}, style: r.Intn(4)},
			{pinKind: pinMissThenMatch, pins: [][]byte{r.Bytes(32), cc.D512}, style: r.Intn(4)},
		}
	}
	seq := 0
	tag := func() string { seq++; return fmt.Sprintf("%d", seq) }
	for _, kind := range []string{"tcp", "ws"} {
		j := consumerJudge{e, kind + "-backend-dialer"}
		for _, v := range srv[:5] {
			port, ok := ports[kind+":s-"+v.name]
			if !ok {
				continue
			}
			var terms []string
			now := time.Now().UnixNano()
			for k, cp := range pinChoices(v.cc) {
				if kind == "ws" && k >= 2 {
					continue
				}
				okc, err := e.backendDial(kind, port, cp, tag(), lid)
				vr := vrun{vtServer, htDNS, "localhost", cp.pinKind, cp.pins}
				j.judge(v.cc, vr, okc, err, "listener certificate "+v.name)
				terms = append(terms, fmt.Sprintf("(cr (mkProfile false [] %s) %s %d %s)", hxpList(cp.pins), hxp([]byte("localhost")), htDNS, CoqBool(okc)))
			}
			e.cf.Add(fmt.Sprintf("TClient %d %s %s", now, v.cc.coqFacts(), CoqList(terms)), kind+" backend dialer vs listener certificate "+v.name)
		}
		// insecureskipverify: the operator opted out; nothing is checked (model: nothing installed)
		if port, ok := ports[kind+":s-otherca"]; ok {
			okc, _ := e.backendDial(kind, port, cliProfile{insecure: true}, tag(), lid)
			e.im.Hist(fmt.Sprintf("consumer:%s-backend-dialer:insecureskipverify:ok=%v", kind, okc))
			e.cf.Add(fmt.Sprintf("TClient %d %s [(cr (mkProfile true [] []) %s %d %s)]", time.Now().UnixNano(), srv[1].cc.coqFacts(), hxp([]byte("localhost")), htDNS, CoqBool(okc)),
				kind+" backend dialer with insecureskipverify")
		}
	}
	// TLS 1.3-only profile: same matrix entry, good certificate
	{
		okc, err := e.backendDial("tcp", ports["tcp:s-tls13"], cliProfile{}, tag(), lid)
		consumerJudge{e, "tcp-backend-dialer"}.judge(srv[0].cc, vrun{vtServer, htDNS, "localhost", pinNone, nil}, okc, err, "mintls13 listener")
	}

	// ---- (2) backends: the listener verifies the dialer ----
	for _, kind := range []string{"tcp", "ws"} {
		j := consumerJudge{e, kind + "-backend-listener"}
		for _, pf := range []string{"m-req", "m-pin", "m-opt"} {
			port, ok := ports[kind+":"+pf]
			if !ok {
				continue
			}
			sp := profileOf[pf]
			cands := append([]variant{}, cli...)
			cands = append(cands, variant{"none", noCert})
			for _, c := range cands {
				if kind == "ws" && (c.name == "expired" || c.name == "serverusage") {
					continue
				}
				cp := cliProfile{}
				if c.cc.Present {
					cp.cert = c.cc
				}
				now := time.Now().UnixNano()
				okc, err := e.backendDial(kind, port, cp, tag(), lid)
				j.judge(c.cc, vrun{vtClient, htDNS, "", sp.PinKind, sp.Pins}, okc, err, pf+" listener, dialer certificate "+c.name)
				e.cf.Add(fmt.Sprintf("TServer %d %s [(sr %s %s)]", now, c.cc.coqFacts(), sp.coq(), CoqBool(okc)),
					fmt.Sprintf("%s backend listener %s vs dialer certificate %s", kind, pf, c.name))
			}
		}
	}

	// ---- (3) control service, TCP listener with tcptls = m-pin ----
	{
		j := consumerJudge{e, "control-service-tcp"}
		sp := profileOf["m-pin"]
		cands := append([]variant{}, cli[:3]...)
		cands = append(cands, variant{"none", noCert})
		for _, c := range cands {
			cfg := &tls.Config{InsecureSkipVerify: true}
			if c.cc.Present {
				crt := &tls.Certificate{Certificate: c.cc.Raw, PrivateKey: e.p.leafKey}
				cfg.GetClientCertificate = func(*tls.CertificateRequestInfo) (*tls.Certificate, error) { return crt, nil }
			}
			now := time.Now().UnixNano()
			okc := false
			conn, err := tls.DialWithDialer(&net.Dialer{Timeout: 5 * time.Second}, "tcp", fmt.Sprintf("127.0.0.1:%d", ctlPort), cfg)
			if err == nil {
				okc, err = readBanner(conn, 5*time.Second)
				_ = conn.Close()
			}
			j.judge(c.cc, vrun{vtClient, htDNS, "", sp.PinKind, sp.Pins}, okc, err, "client certificate "+c.name)
			e.cf.Add(fmt.Sprintf("TServer %d %s [(sr %s %s)]", now, c.cc.coqFacts(), sp.coq(), CoqBool(okc)), "control service TCP listener (m-pin) vs client certificate "+c.name)
		}
	}

	// ---- a node joined to cons-a over a plain TCP backend: the dialing side of receptor services ----
	did := "dialer"
	D, stopD := newNode(did)
	defer stopD()
	dsrv := mk(issRoot, winValid, ekuServer, namSeveral, did)
	dcf, dkf := e.writePair("dialer-srv", dsrv)
	otherNode := mk(issClient, winValid, ekuClient, namOther, did) // a good certificate of ANOTHER node
	var dd strings.Builder
	fmt.Fprintf(&dd, "- tcp-peer:\n    address: localhost:%d\n    redial: false\n", plainPort)
	fmt.Fprintf(&dd, "- tls-client:\n    name: nocert\n    rootcas: %s\n    cert: \"\"\n    key: \"\"\n", e.rootsFile)
	gc, gk := e.writePair("dialer-good", cli[0].cc)
	fmt.Fprintf(&dd, "- tls-client:\n    name: own\n    rootcas: %s\n    cert: %s\n    key: %s\n", e.rootsFile, gc, gk) // receptor-names check ON: the certificate names this node
	oc, ok2 := e.writePair("dialer-other", otherNode)
	fmt.Fprintf(&dd, "- tls-client:\n    name: foreign\n    rootcas: %s\n    cert: %s\n    key: %s\n    skipreceptornamescheck: true\n", e.rootsFile, oc, ok2)
	fmt.Fprintf(&dd, "- tls-server:\n    name: ib\n    cert: %s\n    key: %s\n    requireclientcert: true\n    clientcas: %s\n", dcf, dkf, e.clientCAsFile)
	// receptor services on cons-a the inbound proxies forward to: echo listeners with stored profiles
	for _, x := range []struct{ svc, prof string }{{"echog", "s-good"}, {"echon", "s-othernode"}} {
		cfg, err := A.GetServerTLSConfig(x.prof)
		Must(err)
		li, err := A.ListenAndAdvertise(x.svc, cfg, nil)
		Must(err)
		go func() {
			for {
				c, err := li.Accept()
				if err != nil {
					if strings.Contains(err.Error(), "listener closed") {
						return
					}
					continue
				}
				go func() {
					buf := make([]byte, 64)
					n, err := c.Read(buf)
					if err == nil {
						_, _ = c.Write(append([]byte("echo:"), buf[:n]...))
					}
					time.Sleep(200 * time.Millisecond)
					_ = c.Close()
				}()
			}
		}()
	}
	ibPorts := []int{freePort(), freePort(), freePort()}
	fmt.Fprintf(&dd, "- tcp-server:\n    bindaddr: 127.0.0.1\n    port: %d\n    remotenode: %s\n    remoteservice: echog\n    tlsserver: ib\n    tlsclient: nocert\n", ibPorts[0], lid)
	fmt.Fprintf(&dd, "- tcp-server:\n    bindaddr: 127.0.0.1\n    port: %d\n    remotenode: %s\n    remoteservice: echog\n    tlsclient: nocert\n", ibPorts[1], lid)
	fmt.Fprintf(&dd, "- tcp-server:\n    bindaddr: 127.0.0.1\n    port: %d\n    remotenode: %s\n    remoteservice: echon\n    tlsclient: nocert\n", ibPorts[2], lid)
	uxIn := []string{filepath.Join(e.tmp, "in-g.sock"), filepath.Join(e.tmp, "in-n.sock")}
	fmt.Fprintf(&dd, "- unix-socket-server:\n    filename: %s\n    remotenode: %s\n    remoteservice: echog\n    tls: nocert\n", uxIn[0], lid)
	fmt.Fprintf(&dd, "- unix-socket-server:\n    filename: %s\n    remotenode: %s\n    remoteservice: echon\n    tls: nocert\n", uxIn[1], lid)
	if err := e.runYAML(D, nil, dd.String()); err != nil {
		e.im.Violate("the dialing node's configuration is refused: "+err.Error(), "consumer-setup", dd.String())
		return
	}
	// a client certificate that does not name the node is refused by tls-client unless skipreceptornamescheck
	{
		bad := fmt.Sprintf("- tls-client:\n    name: bad\n    rootcas: %s\n    cert: %s\n    key: %s\n", e.rootsFile, oc, ok2)
		err := e.runYAML(D, nil, bad)
		e.im.Hist(fmt.Sprintf("consumer:tls-client-own-name-check:refused=%v", err != nil))
	}
	if !WaitFor(10*time.Second, func() bool { _, ok := D.Status().RoutingTable[lid]; return ok && connectedTo(D, lid) }) {
		e.im.Violate("plain TCP backend between the consumer nodes did not come up", "consumer-setup", nil)
		return
	}
	rdial := func(profile, svc string) (net.Conn, error) {
		tc, err := D.GetClientTLSConfig(profile, lid, netceptor.ExpectedHostnameTypeReceptor)
		if err != nil {
			return nil, err
		}
		ctx, cancel := context.WithTimeout(context.Background(), 8*time.Second)
		defer cancel()
		return D.DialContext(ctx, lid, svc, tc)
	}

	// ---- (4) receptor services configured with tls = m-req (control service, outbound unix proxy, command
	//          service): each goes through listen(), which binds the client certificate to the source node ----
	for _, svc := range []struct{ name, consumer string }{{"ctl", "control-service-receptor"}, {"uxo", "unix-socket-client-proxy"}, {"cmd", "command-service"}} {
		j := consumerJudge{e, svc.consumer}
		sp := profileOf["m-req"]
		for _, c := range []struct {
			profile string
			cc      *certCase
		}{{"own", cli[0].cc}, {"foreign", otherNode}, {"nocert", noCert}} {
			now := time.Now().UnixNano()
			okc := false
			vr := vrun{vtClient, htRecv, did, sp.PinKind, sp.Pins}
			conn, err := rdial(c.profile, svc.name)
			if err == nil {
				if svc.name == "ctl" {
					okc, err = readBanner(conn, 5*time.Second)
				} else {
					okc, err = probeEcho(conn, echoWait(c.cc, vr))
				}
				_ = conn.Close()
			}
			j.judge(c.cc, vr, okc, err, "client profile "+c.profile)
			e.cf.Add(fmt.Sprintf("TListen %d %s [(lr %s (mkAddr %s []) %s)]", now, c.cc.coqFacts(), sp.coq(), hxp([]byte(did)), CoqBool(okc)),
				svc.consumer+" (tls m-req) vs client profile "+c.profile)
		}
	}

	// ---- (5) outbound TCP proxies on cons-a: tls.Dial to the address with the tlsclient profile (DNS name) ----
	{
		j := consumerJudge{e, "tcp-client-proxy"}
		for i, v := range outTargets {
			now := time.Now().UnixNano()
			okc := false
			vr := vrun{vtServer, htDNS, "localhost", pinNone, nil}
			conn, err := rdial("nocert", fmt.Sprintf("out%d", i))
			if err == nil {
				okc, err = probeEcho(conn, echoWait(v.cc, vr))
				_ = conn.Close()
			}
			j.judge(v.cc, vr, okc, err, "target certificate "+v.name)
			e.cf.Add(fmt.Sprintf("TClient %d %s [(cr (mkProfile false [] []) %s %d %s)]", now, v.cc.coqFacts(), hxp([]byte("localhost")), htDNS, CoqBool(okc)),
				"outbound TCP proxy vs target certificate "+v.name)
		}
	}

	// ---- (6) inbound TCP proxies on the dialer node ----
	tcpProbe := func(port int, cfg *tls.Config, wait time.Duration) (bool, error) {
		var conn net.Conn
		var err error
		if cfg == nil {
			conn, err = net.DialTimeout("tcp", fmt.Sprintf("127.0.0.1:%d", port), 5*time.Second)
		} else {
			conn, err = tls.DialWithDialer(&net.Dialer{Timeout: 5 * time.Second}, "tcp", fmt.Sprintf("127.0.0.1:%d", port), cfg)
		}
		if err != nil {
			return false, err
		}
		defer conn.Close()
		return probeEcho(conn, wait)
	}
	{
		// the TCP side authenticates clients with the tlsserver profile
		j := consumerJudge{e, "tcp-server-proxy-listener"}
		sp := sprofile{Require: true, CAs: true}
		cands := append([]variant{}, cli[:1]...)
		cands = append(cands, cli[2], cli[3], variant{"none", noCert})
		for _, c := range cands {
			cfg := &tls.Config{InsecureSkipVerify: true}
			if c.cc.Present {
				crt := &tls.Certificate{Certificate: c.cc.Raw, PrivateKey: e.p.leafKey}
				cfg.GetClientCertificate = func(*tls.CertificateRequestInfo) (*tls.Certificate, error) { return crt, nil }
			}
			now := time.Now().UnixNano()
			vr := vrun{vtClient, htDNS, "", pinNone, nil}
			okc, err := tcpProbe(ibPorts[0], cfg, echoWait(c.cc, vr))
			j.judge(c.cc, vr, okc, err, "client certificate "+c.name)
			e.cf.Add(fmt.Sprintf("TServer %d %s [(sr %s %s)]", now, c.cc.coqFacts(), sp.coq(), CoqBool(okc)), "inbound TCP proxy listener vs client certificate "+c.name)
		}
		// the receptor side dials the remote service with the tlsclient profile, expecting the remote NODE ID
		j = consumerJudge{e, "tcp-server-proxy-dialer"}
		for _, x := range []struct {
			port int
			v    variant
		}{{ibPorts[1], srv[0]}, {ibPorts[2], srv[5]}} {
			now := time.Now().UnixNano()
			vr := vrun{vtServer, htRecv, lid, pinNone, nil}
			okc, err := tcpProbe(x.port, nil, echoWait(x.v.cc, vr))
			j.judge(x.v.cc, vr, okc, err, "remote service certificate "+x.v.name)
			e.cf.Add(fmt.Sprintf("TClient %d %s [(cr (mkProfile false [] []) %s %d %s)]", now, x.v.cc.coqFacts(), hxp([]byte(lid)), htRecv, CoqBool(okc)),
				"inbound TCP proxy, receptor-side dial vs remote service certificate "+x.v.name)
		}
		// the same through the inbound Unix-socket proxies
		j = consumerJudge{e, "unix-socket-server-dialer"}
		for i, v := range []variant{srv[0], srv[5]} {
			now := time.Now().UnixNano()
			vr := vrun{vtServer, htRecv, lid, pinNone, nil}
			okc := false
			conn, err := net.DialTimeout("unix", uxIn[i], 5*time.Second)
			if err == nil {
				okc, err = probeEcho(conn, echoWait(v.cc, vr))
				_ = conn.Close()
			}
			j.judge(v.cc, vr, okc, err, "remote service certificate "+v.name)
			e.cf.Add(fmt.Sprintf("TClient %d %s [(cr (mkProfile false [] []) %s %d %s)]", now, v.cc.coqFacts(), hxp([]byte(lid)), htRecv, CoqBool(okc)),
				"inbound Unix-socket proxy, receptor-side dial vs remote service certificate "+v.name)
		}
	}
}
