package main

// Level 4: every place of receptor that CONSUMES a named TLS profile, driven through the real
// configuration path.  YAML documents are parsed by the same cmdline library and the same
// registered config types the receptor command uses (tls-server, tls-client, tcp-listener,
// tcp-peer, ws-listener, ws-peer, control-service, tcp-server, tcp-client), run with their
// Prepare and Run phases against real nodes, over real loopback sockets.  The accept/refuse
// matrix (chain, validity, usage, host name or node ID, pin, role) is judged at each consumer
// by the property-text oracle on the construction parameters of the certificates.

import (
	"bufio"
	"context"
	"crypto/tls"
	"encoding/hex"
	"fmt"
	"io"
	"net"
	"os"
	"path/filepath"
	"strings"
	"time"

	. "verifharness/lib"

	"github.com/ghjm/cmdline"

	_ "github.com/ansible/receptor/pkg/backends"
	"github.com/ansible/receptor/pkg/controlsvc"
	"github.com/ansible/receptor/pkg/netceptor"
	_ "github.com/ansible/receptor/pkg/services"
)

var yamlSeq int

// runs one YAML configuration document against node n the way `receptor --config file` does
// (minus the node: entry): parse, then the Prepare and Run phases of every entry, in order
func (e *env) runYAML(n *netceptor.Netceptor, ctl *controlsvc.Server, doc string) error {
	netceptor.MainInstance = n
	controlsvc.MainInstance = ctl
	yamlSeq++
	f := filepath.Join(e.tmp, fmt.Sprintf("conf%d.yml", yamlSeq))
	Must(os.WriteFile(f, []byte(doc), 0o600))
	cl := cmdline.NewCmdline()
	cl.SetOutput(io.Discard)
	for _, app := range []string{"receptor-tls", "receptor-control-service", "receptor-proxies", "receptor-backends"} {
		cl.AddRegisteredConfigTypes(app)
	}
	return cl.ParseAndRun([]string{"--config", f}, []string{"Prepare", "Run"})
}

func freePort() int {
	l, err := net.Listen("tcp", "127.0.0.1:0")
	Must(err)
	defer l.Close()
	return l.Addr().(*net.TCPAddr).Port
}

func (e *env) writePair(name string, cc *certCase) (string, string) {
	cf, kf := filepath.Join(e.tmp, name+".crt"), filepath.Join(e.tmp, name+".key")
	Must(os.WriteFile(cf, pemCert(cc.Raw...), 0o600))
	Must(os.WriteFile(kf, pemKey(e.p.leafKey), 0o600))
	return cf, kf
}

// fingerprint spellings the configuration accepts: lower / upper case hex, with or without ':'
func spellFingerprint(b []byte, style int) string {
	h := hex.EncodeToString(b)
	if style&1 == 1 {
		h = strings.ToUpper(h)
	}
	if style&2 == 2 {
		var parts []string
		for i := 0; i < len(h); i += 2 {
			parts = append(parts, h[i:i+2])
		}
		h = strings.Join(parts, ":")
	}
	return h
}

func yamlList(xs []string) string {
	q := make([]string, len(xs))
	for i, x := range xs {
		q[i] = `"` + x + `"`
	}
	return "[" + strings.Join(q, ", ") + "]"
}

func newNode(id string) (*netceptor.Netceptor, context.CancelFunc) {
	ctx, cancel := context.WithCancel(context.Background())
	c := FastConsts()
	n := netceptor.NewWithConsts(ctx, id, c.MTU, c.RouteUpdate, c.ServiceAd, c.SeenExpire, c.MaxHops, c.MaxIdle)
	return n, func() { n.Shutdown(); cancel() }
}

func connectedTo(n *netceptor.Netceptor, peer string) bool {
	for _, c := range n.Status().Connections {
		if c.NodeID == peer {
			return true
		}
	}
	return false
}

// a client-side profile of one dial
type cliProfile struct {
	cert     *certCase // nil: no client certificate
	pinKind  int
	pins     [][]byte
	insecure bool
	style    int
}

func (e *env) tlsClientYAML(name string, cp cliProfile, tag string) string {
	var sb strings.Builder
	fmt.Fprintf(&sb, "- tls-client:\n    name: %s\n    rootcas: %s\n", name, e.rootsFile)
	if cp.cert != nil {
		cf, kf := e.writePair("cli-"+tag, cp.cert)
		fmt.Fprintf(&sb, "    cert: %s\n    key: %s\n    skipreceptornamescheck: true\n", cf, kf)
	}
	if len(cp.pins) > 0 {
		var fs []string
		for i, p := range cp.pins {
			fs = append(fs, spellFingerprint(p, cp.style+i))
		}
		fmt.Fprintf(&sb, "    pinnedservercert: %s\n", yamlList(fs))
	}
	if cp.insecure {
		sb.WriteString("    insecureskipverify: true\n")
	}
	return sb.String()
}

// one backend dial from a fresh node: accepted = the peer connection to the listening node exists
func (e *env) backendDial(kind string, port int, cp cliProfile, tag string, listenerID string) (bool, error) {
	id := "dial-" + tag
	n, stop := newNode(id)
	defer stop()
	doc := e.tlsClientYAML("c", cp, tag)
	switch kind {
	case "tcp":
		doc += fmt.Sprintf("- tcp-peer:\n    address: localhost:%d\n    redial: false\n    tls: c\n", port)
	default:
		doc += fmt.Sprintf("- ws-peer:\n    address: wss://localhost:%d\n    redial: false\n    tls: c\n", port)
	}
	if err := e.runYAML(n, nil, doc); err != nil {
		return false, err
	}
	done := make(chan struct{})
	go func() { n.BackendWait(); close(done) }()
	deadline := time.After(8 * time.Second)
	for {
		if connectedTo(n, listenerID) {
			return true, nil
		}
		select {
		case <-done:
			// the dialer gave up (redial: false); one last look
			time.Sleep(20 * time.Millisecond)
			return connectedTo(n, listenerID), fmt.Errorf("backend ended")
		case <-deadline:
			return false, fmt.Errorf("no connection within 8 s")
		case <-time.After(5 * time.Millisecond):
		}
	}
}

var _ = bufio.NewReader
var _ = tls.VersionTLS12
