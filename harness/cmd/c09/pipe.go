package main

// A buffered in-memory duplex connection.  net.Pipe is synchronous (a Write blocks until the
// peer Reads), and a TLS 1.3 handshake has both ends writing at the same time (the client's
// compatibility ChangeCipherSpec against the server's flight), which deadlocks on net.Pipe.

import (
	"io"
	"net"
	"os"
	"sync"
	"time"
)

type half struct {
	mu     sync.Mutex
	cond   *sync.Cond
	buf    []byte
	closed bool
	expire bool
}

func newHalf() *half { h := &half{}; h.cond = sync.NewCond(&h.mu); return h }

type memConn struct {
	r, w  *half
	timer *time.Timer
}

type memAddr struct{}

func (memAddr) Network() string { return "mem" }
func (memAddr) String() string  { return "mem" }

func memPipe() (net.Conn, net.Conn) {
	a, b := newHalf(), newHalf()
	return &memConn{r: a, w: b}, &memConn{r: b, w: a}
}

func (c *memConn) Read(p []byte) (int, error) {
	h := c.r
	h.mu.Lock()
	defer h.mu.Unlock()
	for len(h.buf) == 0 {
		if h.closed {
			return 0, io.EOF
		}
		if h.expire {
			return 0, os.ErrDeadlineExceeded
		}
		h.cond.Wait()
	}
	n := copy(p, h.buf)
	h.buf = h.buf[n:]
	return n, nil
}

func (c *memConn) Write(p []byte) (int, error) {
	h := c.w
	h.mu.Lock()
	defer h.mu.Unlock()
	if h.closed {
		return 0, io.ErrClosedPipe
	}
	h.buf = append(h.buf, p...)
	h.cond.Broadcast()
	return len(p), nil
}

func (c *memConn) Close() error {
	for _, h := range []*half{c.r, c.w} {
		h.mu.Lock()
		h.closed = true
		h.cond.Broadcast()
		h.mu.Unlock()
	}
	if c.timer != nil {
		c.timer.Stop()
	}
	return nil
}

func (c *memConn) LocalAddr() net.Addr  { return memAddr{} }
func (c *memConn) RemoteAddr() net.Addr { return memAddr{} }

func (c *memConn) SetDeadline(t time.Time) error {
	if c.timer != nil {
		c.timer.Stop()
	}
	if t.IsZero() {
		return nil
	}
	c.timer = time.AfterFunc(time.Until(t), func() {
		h := c.r
		h.mu.Lock()
		h.expire = true
		h.cond.Broadcast()
		h.mu.Unlock()
	})
	return nil
}
func (c *memConn) SetReadDeadline(t time.Time) error  { return c.SetDeadline(t) }
func (c *memConn) SetWriteDeadline(t time.Time) error { return nil }
