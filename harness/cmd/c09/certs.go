package main

// Certificate factory for C09: real X.509 certificates made with crypto/x509 from explicit
// construction parameters.  Everything the model is told about a certificate (the "facts") is
// derived from these parameters, never from Go's verifier.

import (
	"crypto/rand"
	"crypto/rsa"
	"crypto/sha256"
	"crypto/sha512"
	"crypto/x509"
	"crypto/x509/pkix"
	"encoding/pem"
	"fmt"
	"math/big"
	"strings"
	"time"
	"unicode/utf8"

	. "verifharness/lib"

	"github.com/ansible/receptor/pkg/utils"
)

// issuers
const (
	issRoot      = iota // CA present in RootCAs only  (trusted when we verify a server)
	issClient           // CA present in ClientCAs only (trusted when we verify a client)
	issOther            // CA in neither pool
	issSelf             // self-signed leaf
	issInterOK          // intermediate under a CA in both pools, intermediate presented
	issInterGone        // same, intermediate NOT presented
	nIssuers
)

var issuerName = []string{"root-ca", "client-ca", "other-ca", "self-signed", "intermediate-presented", "intermediate-missing"}

const (
	winValid = iota
	winExpired
	winFuture
	nWindows
	// outside the product: the validity window ends / begins at certParams.Boundary, a few
	// seconds after the certificate is made (the time dimension of the check)
	winExpiring = nWindows
	winStarting = nWindows + 1
)

var windowName = []string{"valid", "expired", "not-yet-valid", "expires-in-seconds", "valid-in-seconds"}

const (
	ekuServer = iota
	ekuClient
	ekuBoth
	ekuNeither // an EKU extension naming only code signing
	ekuAbsent  // no EKU extension: usable for anything (RFC 5280)
	nEKUs
)

var ekuName = []string{"server", "client", "both", "neither", "absent"}

const (
	namExpected  = iota // ids [E]
	namOther            // ids [O]
	namSeveral          // ids [O, E, O2], dns [D]
	namNone             // no subjectAltName at all
	namDNSOnly          // dns [D]
	namDNSOther         // ids [E], dns [other host]
	namSeveralNo        // ids [O, O2], dns [D, other]
	namNearMiss         // ids [E+"x", E minus last byte, E in other case]
	namBadUTF8          // ids [E, not UTF-8]: utils.ReceptorNames fails on it
	namCaseFold         // ids: every spelling of E that differs from E ONLY by letter case / Unicode simple case folding
	namBlankIDs         // ids ["", " "]: a certificate that really names the empty and the one-blank node ID
	nNames
)

var namesName = []string{"expected", "other", "several", "none", "dns-only", "dns-other", "several-without", "near-miss", "bad-utf8", "case-fold", "blank-ids"}

const leafCN = "leaf" // subject common name of every leaf: never a receptor name

type authority struct {
	cert *x509.Certificate
	key  *rsa.PrivateKey
}

type pki struct {
	root, client, other, both, inter authority
	leafKey                          *rsa.PrivateKey
	rootPool, clientPool             *x509.CertPool
	now                              time.Time
	serial                           int64
	nkeys                            int
}

func (p *pki) newKey() *rsa.PrivateKey {
	k, err := rsa.GenerateKey(rand.Reader, 2048)
	Must(err)
	p.nkeys++
	return k
}

func (p *pki) nextSerial() *big.Int { p.serial++; return big.NewInt(p.serial) }

func (p *pki) makeCA(cn string, parent *authority) authority {
	key := p.newKey()
	tpl := &x509.Certificate{
		SerialNumber: p.nextSerial(), Subject: pkix.Name{CommonName: cn},
		NotBefore: p.now.Add(-24 * time.Hour), NotAfter: p.now.Add(3650 * 24 * time.Hour),
		IsCA: true, BasicConstraintsValid: true, KeyUsage: x509.KeyUsageCertSign | x509.KeyUsageDigitalSignature,
	}
	signer, skey := tpl, key
	if parent != nil {
		signer, skey = parent.cert, parent.key
	}
	der, err := x509.CreateCertificate(rand.Reader, tpl, signer, &key.PublicKey, skey)
	Must(err)
	c, err := x509.ParseCertificate(der)
	Must(err)
	return authority{c, key}
}

// six RSA keys per run: four roots, one intermediate, one leaf key shared by every leaf
func newPKI() *pki {
	p := &pki{now: time.Now(), serial: 1000}
	p.root = p.makeCA("verif root CA (RootCAs)", nil)
	p.client = p.makeCA("verif client CA (ClientCAs)", nil)
	p.other = p.makeCA("verif unrelated CA", nil)
	p.both = p.makeCA("verif CA in both pools", nil)
	p.inter = p.makeCA("verif intermediate", &p.both)
	p.leafKey = p.newKey()
	p.rootPool, p.clientPool = x509.NewCertPool(), x509.NewCertPool()
	p.rootPool.AddCert(p.root.cert)
	p.rootPool.AddCert(p.both.cert)
	p.clientPool.AddCert(p.client.cert)
	p.clientPool.AddCert(p.both.cert)
	return p
}

type certParams struct {
	Issuer, Window, EKU, Names int
	E, O, O2                   string    // node IDs: expected, others
	D, DOther                  string    // DNS names: expected, other
	Boundary                   time.Time // whole second; for winExpiring / winStarting
}

func (cp certParams) String() string {
	return fmt.Sprintf("issuer=%s window=%s eku=%s names=%s E=%q D=%q", issuerName[cp.Issuer], windowName[cp.Window],
		ekuName[cp.EKU], namesName[cp.Names], cp.E, cp.D)
}

// what a certificate list is, by construction
type certCase struct {
	P     certParams
	Raw   [][]byte // rawCerts as presented by the peer
	IDs   []string // node IDs placed in the SAN, in order
	DNS   []string
	SAN   []byte // value of the subjectAltName extension, nil when absent
	Kind  string // "product" | "no-cert" | "garbage-leaf" | "garbage-second" | "truncated-leaf"
	Label string
	// facts, from the parameters
	Present, Parses              bool
	ChainRoots, ChainClientCAs   bool
	TimeOK, EKUServer, EKUClient bool  // TimeOK: inside the window when the certificate was made
	NB, NA                       int64 // the window in which the whole chain is valid, unix nanoseconds
	NamesOK                      bool  // every ID is valid UTF-8 (ReceptorNames succeeds)
	D224, D256, D384, D512       []byte
}

func swapCase(s string) string {
	b := []byte(s)
	for i, c := range b {
		switch {
		case c >= 'a' && c <= 'z':
			b[i] = c - 32
		case c >= 'A' && c <= 'Z':
			b[i] = c + 32
		}
	}
	return string(b)
}

// Every spelling that Unicode simple case folding identifies with s and that is NOT s itself:
// ASCII lower / upper / title / swapped case, and k <-> KELVIN SIGN U+212A, s <-> LONG S U+017F,
// in both directions (s may itself contain the folded code points).  A node ID is an exact
// string: none of these names the node s.
func foldVariants(s string) []string {
	plain := strings.NewReplacer("\u212a", "k", "\u017f", "s").Replace(s)
	lower, upper := strings.ToLower(plain), strings.ToUpper(plain)
	title := lower
	if len(lower) > 0 {
		title = strings.ToUpper(lower[:1]) + lower[1:]
	}
	kelvin := strings.NewReplacer("k", "\u212a", "K", "\u212a").Replace(plain)
	longs := strings.NewReplacer("s", "\u017f", "S", "\u017f").Replace(plain)
	firstOnly := func(t, from, to string) string { return strings.Replace(t, from, to, 1) }
	cands := []string{lower, upper, title, swapCase(plain), plain, kelvin, longs,
		firstOnly(lower, "k", "\u212a"), firstOnly(lower, "s", "\u017f"), firstOnly(upper, "K", "\u212a"), swapCase(s)}
	var out []string
	seen := map[string]bool{s: true}
	for _, c := range cands {
		if !seen[c] && strings.EqualFold(c, s) {
			seen[c] = true
			out = append(out, c)
		}
	}
	if len(out) == 0 { // s has no cased letter: nothing differs only by case
		out = []string{s + "x"}
	}
	return out
}

// a node ID with cased letters, k and s, in one of the spellings of foldVariants
func genFoldID(r *Rng) string {
	base := []string{"kiosk-", "controller-", "desk-", "Kiosk-", "worker.site-"}[r.Intn(5)] + genASCII(r, 1+r.Intn(3))
	switch r.Intn(6) {
	case 0:
		return strings.ToUpper(base)
	case 1:
		return strings.ToUpper(base[:1]) + base[1:]
	case 2:
		return strings.Replace(strings.ToLower(base), "k", "\u212a", 1) // the expected ID itself has the KELVIN SIGN
	case 3:
		return strings.Replace(strings.ToLower(base), "s", "\u017f", 1) // ... the LONG S
	case 4:
		return swapCase(base)
	default:
		return strings.ToLower(base)
	}
}

func (p *pki) idsAndDNS(cp certParams) (ids, dns []string, hasSAN bool) {
	switch cp.Names {
	case namExpected:
		return []string{cp.E}, nil, true
	case namOther:
		return []string{cp.O}, nil, true
	case namSeveral:
		return []string{cp.O, cp.E, cp.O2}, []string{cp.D}, true
	case namNone:
		return nil, nil, false
	case namDNSOnly:
		return nil, []string{cp.D}, true
	case namDNSOther:
		return []string{cp.E}, []string{cp.DOther}, true
	case namSeveralNo:
		return []string{cp.O, cp.O2}, []string{cp.D, cp.DOther}, true
	case namNearMiss:
		ids = []string{cp.E + "x", swapCase(cp.E) + "_"}
		if len(cp.E) > 1 {
			// drop the last rune, so that the result stays UTF-8
			_, sz := utf8.DecodeLastRuneInString(cp.E)
			ids = append(ids, cp.E[:len(cp.E)-sz])
		}
		return ids, []string{cp.D + "x", "x" + cp.D}, true
	case namBadUTF8:
		return []string{cp.E, "bad\xff"}, []string{cp.D}, true
	case namCaseFold:
		return foldVariants(cp.E), []string{cp.D}, true
	default: // namBlankIDs
		return []string{"", " "}, []string{cp.D}, true
	}
}

func (p *pki) make(cp certParams) *certCase {
	ids, dns, hasSAN := p.idsAndDNS(cp)
	tpl := &x509.Certificate{
		SerialNumber: p.nextSerial(), Subject: pkix.Name{CommonName: leafCN},
		KeyUsage: x509.KeyUsageDigitalSignature | x509.KeyUsageKeyEncipherment,
	}
	switch cp.Window {
	case winValid:
		tpl.NotBefore, tpl.NotAfter = p.now.Add(-time.Hour), p.now.Add(240*time.Hour)
	case winExpired:
		tpl.NotBefore, tpl.NotAfter = p.now.Add(-48*time.Hour), p.now.Add(-time.Hour)
	case winFuture:
		tpl.NotBefore, tpl.NotAfter = p.now.Add(time.Hour), p.now.Add(48*time.Hour)
	case winExpiring:
		tpl.NotBefore, tpl.NotAfter = p.now.Add(-time.Hour), cp.Boundary
	default: // winStarting
		tpl.NotBefore, tpl.NotAfter = cp.Boundary, p.now.Add(48*time.Hour)
	}
	switch cp.EKU {
	case ekuServer:
		tpl.ExtKeyUsage = []x509.ExtKeyUsage{x509.ExtKeyUsageServerAuth}
	case ekuClient:
		tpl.ExtKeyUsage = []x509.ExtKeyUsage{x509.ExtKeyUsageClientAuth}
	case ekuBoth:
		tpl.ExtKeyUsage = []x509.ExtKeyUsage{x509.ExtKeyUsageClientAuth, x509.ExtKeyUsageServerAuth}
	case ekuNeither:
		tpl.ExtKeyUsage = []x509.ExtKeyUsage{x509.ExtKeyUsageCodeSigning}
	}
	cc := &certCase{P: cp, IDs: ids, DNS: dns, Kind: "product", Label: cp.String()}
	if hasSAN {
		ext, err := utils.MakeReceptorSAN(dns, nil, ids)
		Must(err)
		tpl.ExtraExtensions = []pkix.Extension{*ext}
		cc.SAN = ext.Value
	}
	var signer *x509.Certificate
	var skey *rsa.PrivateKey
	switch cp.Issuer {
	case issRoot:
		signer, skey = p.root.cert, p.root.key
	case issClient:
		signer, skey = p.client.cert, p.client.key
	case issOther:
		signer, skey = p.other.cert, p.other.key
	case issSelf:
		signer, skey = tpl, p.leafKey
	default:
		signer, skey = p.inter.cert, p.inter.key
	}
	der, err := x509.CreateCertificate(rand.Reader, tpl, signer, &p.leafKey.PublicKey, skey)
	Must(err)
	cc.Raw = [][]byte{der}
	if cp.Issuer == issInterOK {
		cc.Raw = append(cc.Raw, p.inter.cert.Raw)
	}
	cc.Present, cc.Parses = true, true
	cc.ChainRoots = cp.Issuer == issRoot || cp.Issuer == issInterOK
	cc.ChainClientCAs = cp.Issuer == issClient || cp.Issuer == issInterOK
	cc.TimeOK = cp.Window == winValid || cp.Window == winExpiring
	// x509 encodes whole seconds; the issuing CAs are valid from a day ago for ten years
	nb, na := tpl.NotBefore.Truncate(time.Second), tpl.NotAfter.Truncate(time.Second)
	if cp.Issuer != issSelf {
		if signer.NotBefore.After(nb) {
			nb = signer.NotBefore
		}
		if signer.NotAfter.Before(na) {
			na = signer.NotAfter
		}
	}
	cc.NB, cc.NA = nb.UnixNano(), na.UnixNano()
	cc.EKUServer = cp.EKU == ekuServer || cp.EKU == ekuBoth || cp.EKU == ekuAbsent
	cc.EKUClient = cp.EKU == ekuClient || cp.EKU == ekuBoth || cp.EKU == ekuAbsent
	cc.NamesOK = true
	for _, id := range ids {
		if !utf8.ValidString(id) {
			cc.NamesOK = false
		}
	}
	cc.digests()
	return cc
}

func (cc *certCase) digests() {
	if len(cc.Raw) == 0 {
		return
	}
	a, b, c, d := sha256.Sum224(cc.Raw[0]), sha256.Sum256(cc.Raw[0]), sha512.Sum384(cc.Raw[0]), sha512.Sum512(cc.Raw[0])
	cc.D224, cc.D256, cc.D384, cc.D512 = a[:], b[:], c[:], d[:]
}

// malformed presentations derived from a good certificate
func (cc *certCase) malformed(kind string, r *Rng) *certCase {
	m := *cc
	m.Kind, m.Label = kind, kind+" of "+cc.Label
	switch kind {
	case "plus-stranger":
		// the peer appends a certificate that is not part of its chain (e.g. the one the verifier has
		// pinned): chain building ignores it, every fact about the peer's own certificate is unchanged
		m.Raw = append(append([][]byte{}, cc.Raw...), strangerDER)
		return &m
	case "no-cert":
		m.Raw, m.Present = nil, false
	case "garbage-leaf":
		m.Raw, m.Parses = [][]byte{r.Bytes(40 + r.Intn(200))}, false
	case "truncated-leaf":
		m.Raw, m.Parses = [][]byte{cc.Raw[0][:len(cc.Raw[0])/2]}, false
	case "garbage-second":
		m.Raw, m.Parses = [][]byte{cc.Raw[0], r.Bytes(60)}, false
	}
	m.digests()
	return &m
}

// ---------- the facts as a Coq term (Model/Tls.v facts_of) ----------

// byte strings: packed integers (Base/Pack.v) for everything longer than four bytes; hex string
// literals elaborate slowly in coqc and these files hold thousands of digests and pins
func hxp(b []byte) string {
	if len(b) <= 4 {
		return Hx(b)
	}
	var sb strings.Builder
	fmt.Fprintf(&sb, "(pk %d [", len(b))
	for i := 0; i < len(b); i += 7 {
		var w uint64
		for j := 0; j < 7; j++ {
			w <<= 8
			if i+j < len(b) {
				w |= uint64(b[i+j])
			}
		}
		if i > 0 {
			sb.WriteString(";")
		}
		fmt.Fprintf(&sb, "%d", w)
	}
	sb.WriteString("]%uint63)")
	return sb.String()
}

func hxpList(xs [][]byte) string {
	ys := make([]string, len(xs))
	for i, x := range xs {
		ys[i] = hxp(x)
	}
	return CoqList(ys)
}

func hxpStrs(xs []string) string {
	ys := make([]string, len(xs))
	for i, x := range xs {
		ys[i] = hxp([]byte(x))
	}
	return CoqList(ys)
}

func (cc *certCase) coqFacts() string {
	san := "None"
	if cc.SAN != nil {
		san = "(Some " + hxp(cc.SAN) + ")"
	}
	return fmt.Sprintf("(facts_of %s %s %s %s %s %s %s %s %d %d %s %s %s %s)",
		CoqBool(cc.Present), CoqBool(cc.Parses), hxp(cc.D224), hxp(cc.D256), hxp(cc.D384), hxp(cc.D512),
		CoqBool(cc.ChainRoots), CoqBool(cc.ChainClientCAs), cc.NB, cc.NA, CoqBool(cc.EKUServer), CoqBool(cc.EKUClient),
		hxpStrs(cc.DNS), san)
}

// strangerDER is set by runC09: a valid certificate of the same PKI issued to somebody else
var strangerDER []byte

// ---------- pin lists ----------

const (
	pinNone = iota
	pinSha256
	pinSha512
	pinSha224
	pinSha384
	pinMissLegal      // pins of every legal length, none equal
	pinWrongLen       // a single pin of an illegal length
	pinMatchThenWrong // matching pin first, then an illegal length
	pinWrongThenMatch // illegal length first, then a matching pin
	pinMissThenMatch  // non-matching legal pins, then the matching one last
	pinEmptyPin       // a single zero-length pin
	pinMatchThenMiss  // matching first, then non-matching legal pins
	pinOfOther        // sha256 and sha512 of the LAST presented certificate when it is not the peer's own (else a miss)
	pinOfOtherAll     // all four digests of every presented certificate but the peer's own (else a miss)
	nPins
)

var pinName = []string{"none", "sha256", "sha512", "sha224", "sha384", "miss-legal", "wrong-length", "match-then-wrong-length",
	"wrong-length-then-match", "miss-then-match", "empty-pin", "match-then-miss", "digest-of-another-presented-certificate", "digests-of-all-other-presented-certificates"}

func flip(b []byte, r *Rng) []byte {
	c := append([]byte{}, b...)
	if len(c) > 0 {
		c[r.Intn(len(c))] ^= byte(1 << r.Intn(8))
	}
	return c
}

func wrongLen(r *Rng) []byte {
	for {
		n := []int{0, 1, 16, 20, 27, 29, 31, 33, 47, 49, 63, 65, 128}[r.Intn(13)]
		if n != 28 && n != 32 && n != 48 && n != 64 {
			return r.Bytes(n)
		}
	}
}

func (cc *certCase) pins(kind int, r *Rng) [][]byte {
	if cc.D256 == nil { // no certificate: any pin list
		cc = &certCase{D224: r.Bytes(28), D256: r.Bytes(32), D384: r.Bytes(48), D512: r.Bytes(64)}
	}
	all := [][]byte{cc.D224, cc.D256, cc.D384, cc.D512}
	switch kind {
	case pinNone:
		return nil
	case pinSha256:
		return [][]byte{cc.D256}
	case pinSha512:
		return [][]byte{cc.D512}
	case pinSha224:
		return [][]byte{cc.D224}
	case pinSha384:
		return [][]byte{cc.D384}
	case pinMissLegal:
		// includes a digest of the RIGHT certificate under the WRONG hash length position:
		// sha256 digest padded to 48 bytes, and bit flips of the true digests
		return [][]byte{flip(cc.D256, r), flip(cc.D512, r), append(append([]byte{}, cc.D256...), make([]byte, 16)...), flip(cc.D224, r), cc.D512[:32]}
	case pinWrongLen:
		return [][]byte{wrongLen(r)}
	case pinMatchThenWrong:
		return [][]byte{all[r.Intn(4)], wrongLen(r)}
	case pinWrongThenMatch:
		return [][]byte{wrongLen(r), all[r.Intn(4)]}
	case pinMissThenMatch:
		return [][]byte{flip(cc.D256, r), flip(cc.D384, r), all[r.Intn(4)]}
	case pinEmptyPin:
		return [][]byte{{}}
	case pinOfOther, pinOfOtherAll:
		// the pin is about the PEER's certificate (rawCerts[0]); the other elements of the certificate
		// message are chosen by the peer and prove nothing
		if len(cc.Raw) < 2 {
			return [][]byte{flip(cc.D256, r), flip(cc.D512, r)}
		}
		var out [][]byte
		others := cc.Raw[1:]
		if kind == pinOfOther {
			others = cc.Raw[len(cc.Raw)-1:]
		}
		for _, o := range others {
			a, b, c, d := sha256.Sum224(o), sha256.Sum256(o), sha512.Sum384(o), sha512.Sum512(o)
			if kind == pinOfOther {
				out = append(out, b[:], d[:])
			} else {
				out = append(out, a[:], b[:], c[:], d[:])
			}
		}
		return out
	default:
		return [][]byte{all[r.Intn(4)], flip(cc.D256, r), r.Bytes(64)}
	}
}

func legalLen(n int) bool { return n == 28 || n == 32 || n == 48 || n == 64 }

// the property's wording on a pin list: (everyLegal, someMatch)
func (cc *certCase) pinFacts(pins [][]byte) (everyLegal, someMatch bool) {
	everyLegal = true
	for _, p := range pins {
		if !legalLen(len(p)) {
			everyLegal = false
		}
		for _, d := range [][]byte{cc.D224, cc.D256, cc.D384, cc.D512} {
			if d != nil && len(d) == len(p) && string(d) == string(p) {
				someMatch = true
			}
		}
	}
	return
}

// ---------- PEM ----------

func pemCert(ders ...[]byte) []byte {
	var sb strings.Builder
	for _, d := range ders {
		sb.Write(pem.EncodeToMemory(&pem.Block{Type: "CERTIFICATE", Bytes: d}))
	}
	return []byte(sb.String())
}

func pemKey(k *rsa.PrivateKey) []byte {
	return pem.EncodeToMemory(&pem.Block{Type: "RSA PRIVATE KEY", Bytes: x509.MarshalPKCS1PrivateKey(k)})
}
