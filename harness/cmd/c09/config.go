package main

// The configuration layer: how tls-server / tls-client options become tls.Config + verifier, the
// stored profiles and their lookup by name, the built-in "default" client profile.

import (
	"crypto/tls"
	"fmt"
	"path/filepath"
	"strings"
	"time"

	. "verifharness/lib"

	"github.com/ansible/receptor/pkg/netceptor"
)

func lookupObs(cfg *tls.Config, err error) int {
	switch {
	case err != nil:
		return 1
	case cfg == nil:
		return 0
	}
	return 2
}

func (e *env) configTier() {
	r := e.c.Rng
	n := e.node
	// ---- lookups by name ----
	Must(n.SetServerTLSConfig("stored", &tls.Config{}))
	Must(n.SetClientTLSConfig("stored", &tls.Config{}, nil))
	type lk struct {
		what string
		kind int
		obs  int
	}
	c0, err0 := n.GetClientTLSConfig("", "x", netceptor.ExpectedHostnameTypeReceptor)
	c1, err1 := n.GetClientTLSConfig("never-stored", "x", netceptor.ExpectedHostnameTypeReceptor)
	c2, err2 := n.GetClientTLSConfig("stored", "x", netceptor.ExpectedHostnameTypeReceptor)
	s0, serr0 := n.GetServerTLSConfig("")
	s1, serr1 := n.GetServerTLSConfig("never-stored")
	s2, serr2 := n.GetServerTLSConfig("stored")
	for _, l := range []lk{
		{"client \"\"", 0, lookupObs(c0, err0)}, {"client unknown", 1, lookupObs(c1, err1)}, {"client stored", 2, lookupObs(c2, err2)},
		{"server \"\"", 0, lookupObs(s0, serr0)}, {"server unknown", 1, lookupObs(s1, serr1)}, {"server stored", 2, lookupObs(s2, serr2)},
	} {
		e.cf.Add(fmt.Sprintf("TLookup %d %d", l.kind, l.obs), "profile lookup: "+l.what)
		e.im.Count("lookup "+l.what, true)
		e.im.Hist(fmt.Sprintf("config:lookup:%s:%d", l.what, l.obs))
		// with TLS configured (a name is given) a connection must not silently run without it
		if l.kind == 1 && l.obs != 1 {
			e.im.Violate("a TLS profile name that was never stored does not produce an error ("+l.what+")", "config-unknown-profile-accepted", l.what)
		}
	}
	if n.SetServerTLSConfig("", &tls.Config{}) == nil || n.SetClientTLSConfig("", &tls.Config{}, nil) == nil {
		e.im.Hist("config:empty-profile-name-stored")
	}

	// ---- the built-in "default" client profile: system trust store, no pins ----
	good := e.p.make(e.params(issRoot, winValid, ekuServer, namSeveral))
	for _, ht := range []int{htRecv, htDNS} {
		exp := good.P.E
		if ht == htDNS {
			exp = good.P.D
		}
		tc, err := n.GetClientTLSConfig("default", exp, netceptor.ExpectedHostnameType(ht))
		if err != nil {
			// On this tree the built-in profile cannot be fetched at all ("pinned fingerprints missing
			// for default": New() stores the config but no pin list), which refuses every use of it
			// (a wss:// peer without a tls name).  Fails closed: recorded, not a violation of C09.
			e.im.Hist("config:default-profile:unusable:" + err.Error())
			continue
		}
		srv := &tls.Config{Certificates: []tls.Certificate{{Certificate: good.Raw, PrivateKey: e.p.leafKey}}, MinVersion: tls.VersionTLS12}
		now := time.Now().UnixNano()
		cerr, _ := handshake(tc, srv)
		ok := cerr == nil
		// relative to this profile's authority (the host's trust store) our CA is unknown
		sys := *good
		sys.ChainRoots = false
		sys.Label = "under the default profile (system roots): " + good.Label
		v := vrun{vtServer, ht, exp, pinNone, nil}
		e.cf.Add(fmt.Sprintf("TClient %d %s [(cr (mkProfile false [] []) %s %d %s)]", now, sys.coqFacts(), hxp([]byte(exp)), ht, CoqBool(ok)), "default client profile: "+good.Label)
		e.im.Count("default-profile "+v.String(), true)
		e.im.Hist(fmt.Sprintf("config:default-profile:ok=%v", ok))
		if ok {
			e.im.Violate("the built-in \"default\" client profile accepts a certificate of a private CA that the host does not trust", "client-handshake-accepts:untrusted-chain:default-profile",
				map[string]interface{}{"cert": good.Label, "run": v.String()})
		}
	}

	// ---- fingerprint options: spelling, sizes, errors (observed through PrepareTLSClientConfig) ----
	fingerCase := func(strs []string, what string) {
		_, pins, err := netceptor.TLSClientConfig{Name: "f", RootCAs: e.rootsFile, PinnedServerCert: strs}.PrepareTLSClientConfig(n)
		_, serr := netceptor.TLSServerConfig{Name: "f", Cert: e.srvCert, Key: e.srvKey, ClientCAs: e.clientCAsFile, RequireClientCert: true, PinnedClientCert: strs}.PrepareTLSServerConfig(n)
		obs := "None"
		if err == nil {
			obs = "(Some " + hxpList(pins) + ")"
		}
		e.cf.Add(fmt.Sprintf("TFinger %s %s", hxpStrs(strs), obs), "fingerprint option "+what)
		e.im.Count("finger "+what+strings.Join(strs, ","), true)
		e.im.Hist(fmt.Sprintf("config:fingerprints:%s:accepted=%v", what, err == nil))
		if (err == nil) != (serr == nil) {
			e.im.Violate("tls-client and tls-server disagree on a pinned fingerprint list", "config-fingerprint-asymmetry", strs)
		}
	}
	d32, d64 := r.Bytes(32), r.Bytes(64)
	for style := 0; style < 4; style++ {
		fingerCase([]string{spellFingerprint(d32, style)}, fmt.Sprintf("sha256-style%d", style))
		fingerCase([]string{spellFingerprint(d64, style), spellFingerprint(d32, 3-style)}, fmt.Sprintf("sha512+sha256-style%d", style))
	}
	fingerCase(nil, "empty-list")
	fingerCase([]string{""}, "empty-string")
	fingerCase([]string{spellFingerprint(d32, 0)[:63]}, "odd-length")
	fingerCase([]string{spellFingerprint(d32, 0)[:62] + "zz"}, "non-hex")
	fingerCase([]string{spellFingerprint(d32, 0), "0x" + spellFingerprint(d32, 0)}, "second-entry-bad")
	fingerCase([]string{spellFingerprint(r.Bytes(28), 0)}, "sha224-size")
	fingerCase([]string{spellFingerprint(r.Bytes(48), 2)}, "sha384-size")
	fingerCase([]string{spellFingerprint(d32, 0) + ":"}, "trailing-colon")
	fingerCase([]string{" " + spellFingerprint(d32, 0)}, "leading-blank")
	for i := 0; i < 12; i++ { // random mutations of a valid spelling
		s := []byte(spellFingerprint(d32, r.Intn(4)))
		switch r.Intn(4) {
		case 0:
			s[r.Intn(len(s))] = byte("0123456789abcdefABCDEF:gG xX-"[r.Intn(29)])
		case 1:
			s = s[:r.Intn(len(s))]
		case 2:
			k := r.Intn(len(s))
			s = append(s[:k], append([]byte{byte(":0aF"[r.Intn(4)])}, s[k:]...)...)
		default:
			s = append(s, s...)
		}
		fingerCase([]string{string(s)}, "mutated")
	}

	// ---- option consistency of tls-client (executed; not a statement of the property) ----
	cf, kf := e.srvCert, e.srvKey
	for _, c := range []struct {
		what string
		cfg  netceptor.TLSClientConfig
	}{
		{"cert-without-key", netceptor.TLSClientConfig{Name: "x", Cert: cf}},
		{"key-without-cert", netceptor.TLSClientConfig{Name: "x", Key: kf}},
		{"missing-cert-file", netceptor.TLSClientConfig{Name: "x", Cert: filepath.Join(e.tmp, "absent.crt"), Key: kf}},
		{"missing-key-file", netceptor.TLSClientConfig{Name: "x", Cert: cf, Key: filepath.Join(e.tmp, "absent.key")}},
		{"key-not-matching", netceptor.TLSClientConfig{Name: "x", Cert: cf, Key: e.rootsFile}},
		{"missing-rootcas-file", netceptor.TLSClientConfig{Name: "x", RootCAs: filepath.Join(e.tmp, "absent.pem")}},
		{"own-cert-names-node", netceptor.TLSClientConfig{Name: "x", Cert: cf, Key: kf, RootCAs: e.rootsFile}},
		{"tls13", netceptor.TLSClientConfig{Name: "x", RootCAs: e.rootsFile, MinTLS13: true}},
	} {
		cfg, _, err := c.cfg.PrepareTLSClientConfig(n)
		e.im.Hist(fmt.Sprintf("config:tls-client:%s:error=%v", c.what, err != nil))
		if c.what == "tls13" && err == nil && cfg.MinVersion != tls.VersionTLS13 {
			e.im.Hist("config:tls-client:tls13-not-applied")
		}
	}
	for _, c := range []struct {
		what string
		cfg  netceptor.TLSServerConfig
	}{
		{"missing-cert-file", netceptor.TLSServerConfig{Name: "x", Cert: filepath.Join(e.tmp, "absent.crt"), Key: kf}},
		{"missing-key-file", netceptor.TLSServerConfig{Name: "x", Cert: cf, Key: filepath.Join(e.tmp, "absent.key")}},
		{"key-not-matching", netceptor.TLSServerConfig{Name: "x", Cert: cf, Key: e.rootsFile}},
		{"missing-clientcas-file", netceptor.TLSServerConfig{Name: "x", Cert: cf, Key: kf, ClientCAs: filepath.Join(e.tmp, "absent.pem")}},
		{"cert-not-pem", netceptor.TLSServerConfig{Name: "x", Cert: kf, Key: kf}},
	} {
		_, err := c.cfg.PrepareTLSServerConfig(n)
		e.im.Hist(fmt.Sprintf("config:tls-server:%s:error=%v", c.what, err != nil))
	}
}
