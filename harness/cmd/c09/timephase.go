package main

// The time dimension.  "Currently valid" must mean valid at the time of the handshake, not at
// the time the verifier or the TLS configuration was built.  Verifiers and configurations are
// built FIRST, for certificates whose validity window ends (or begins) a few seconds later; they
// are used at once, the other tiers run, and after the boundary has passed the SAME verifier
// objects and configs are used again with the SAME certificates: the expiring ones must now be
// refused, the starting ones accepted.  Every case carries the time of the call for the model.

import (
	"crypto/tls"
	"crypto/x509"
	"fmt"
	"time"

	. "verifharness/lib"

	"github.com/ansible/receptor/pkg/netceptor"
)

type timedObj struct {
	cc       *certCase
	boundary time.Time
	// built once, before the boundary
	direct []struct {
		v vrun
		f func([][]byte, [][]*x509.Certificate) error
	}
	tc *tls.Config // GetClientTLSConfig, receptor-name mode, expected cc.P.E
	sc *tls.Config // PrepareTLSServerConfig, RequireClientCert + ClientCAs
}

const timeMargin = 700 * time.Millisecond // no call is judged closer than this to the boundary

func (e *env) timeBuild(lead time.Duration) []*timedObj {
	r := e.c.Rng
	boundary := time.Now().Truncate(time.Second).Add(time.Second + lead)
	cfg := &tls.Config{RootCAs: e.p.rootPool, ClientCAs: e.p.clientPool}
	var objs []*timedObj
	i := 0
	for _, win := range []int{winExpiring, winStarting} {
		for _, shape := range []struct{ iss, eku int }{{issInterOK, ekuBoth}, {issInterOK, ekuAbsent}} {
			cp := e.params(shape.iss, win, shape.eku, namSeveral)
			cp.Boundary = boundary
			cc := e.p.make(cp)
			o := &timedObj{cc: cc, boundary: boundary}
			for _, v := range []vrun{
				{vtServer, htRecv, cp.E, pinNone, nil},
				{vtClient, htRecv, cp.E, pinNone, nil},
				{vtServer, htDNS, cp.D, pinSha256, cc.pins(pinSha256, r)},
				{vtClient, htDNS, "", pinNone, nil},
			} {
				f := netceptor.ReceptorVerifyFunc(cfg, v.Pins, v.Expected, netceptor.ExpectedHostnameType(v.HType), netceptor.VerifyType(v.VType), e.lg)
				o.direct = append(o.direct, struct {
					v vrun
					f func([][]byte, [][]*x509.Certificate) error
				}{v, f})
			}
			name := fmt.Sprintf("timed%d", i)
			i++
			e.clientProfile(name, false, nil, nil)
			tc, err := e.node.GetClientTLSConfig(name, cp.E, netceptor.ExpectedHostnameTypeReceptor)
			Must(err)
			o.tc = tc
			o.sc = e.serverConfig(e.node, sprofile{Require: true, CAs: true}, e.srvCert, e.srvKey)
			objs = append(objs, o)
		}
	}
	return objs
}

// waits (if the other tiers were quicker than the lead) until the boundary is safely behind
func timeWaitPast(objs []*timedObj) time.Duration {
	if len(objs) == 0 {
		return 0
	}
	d := time.Until(objs[0].boundary.Add(timeMargin + 300*time.Millisecond))
	if d > 0 {
		time.Sleep(d)
		return d
	}
	return 0
}

func (e *env) timeCall(objs []*timedObj, phase string) {
	for _, o := range objs {
		cc := o.cc
		t := time.Now()
		if gap := o.boundary.Sub(t); gap < timeMargin && gap > -timeMargin {
			e.im.Hist("time:" + phase + ":skipped-too-close-to-boundary")
			continue
		}
		now := t.UnixNano()
		side := "before"
		if t.After(o.boundary) {
			side = "after"
		}
		label := fmt.Sprintf("%s the boundary (verifier built %s it): %s", side, map[string]string{"before": "just before this call, before", "after": "seconds earlier, before"}[side], cc.Label)
		judge := func(level string, v vrun, ok bool, err error) {
			mustAccept, mustRefuse, failed := cc.oracle(v, now)
			rec := map[string]interface{}{"level": level, "phase": phase, "cert": cc.Label, "run": v.String(), "impl_error": fmt.Sprint(err),
				"failed_conditions": failed, "call_time_unix_ns": now, "not_before_unix_ns": cc.NB, "not_after_unix_ns": cc.NA}
			e.im.Hist(fmt.Sprintf("time:%s:%s:%s:ok=%v", windowName[cc.P.Window], side, level, ok))
			e.im.Count(fmt.Sprintf("time %s %s %s %s", phase, level, cc.Label, v), true)
			if mustRefuse && ok {
				e.im.Violate(fmt.Sprintf("%s ACCEPTS at call time although %v: the verifier / config was built while the certificate was valid and is used after it expired (%s)", level, failed, cc.Label),
					"time-of-call:"+level+"-accepts:"+failed[0], rec)
			}
			if mustAccept && !ok {
				e.im.Violate(fmt.Sprintf("%s refuses although every condition holds at call time: %v (the verifier / config was built before the certificate became valid; %s)", level, err, cc.Label),
					"time-of-call:"+level+"-refuses-good", rec)
			}
		}
		// (1) the closures returned by ReceptorVerifyFunc earlier, and the installed VerifyPeerCertificate functions
		var terms []string
		for _, d := range o.direct {
			err := d.f(cc.Raw, nil)
			terms = append(terms, fmt.Sprintf("(vr %s %d)", d.v.coqCfg(), classify(err)))
			judge("verify-func", d.v, err == nil, err)
		}
		vInstalledC := vrun{vtServer, htRecv, cc.P.E, pinNone, nil}
		callInstalled := func(cfg *tls.Config, what string) error {
			if cfg.VerifyPeerCertificate == nil { // nothing installed = nothing refused
				e.im.Violate("no VerifyPeerCertificate is installed in the "+what, "verifier-not-installed:"+what, cc.Label)
				return nil
			}
			return cfg.VerifyPeerCertificate(cc.Raw, nil)
		}
		err := callInstalled(o.tc, "config returned by GetClientTLSConfig (receptor-name mode)")
		terms = append(terms, fmt.Sprintf("(vr %s %d)", vInstalledC.coqCfg(), classify(err)))
		judge("installed-client-verifier", vInstalledC, err == nil, err)
		vInstalledS := vrun{vtClient, htDNS, "", pinNone, nil}
		err = callInstalled(o.sc, "config returned by PrepareTLSServerConfig (requireclientcert)")
		terms = append(terms, fmt.Sprintf("(vr %s %d)", vInstalledS.coqCfg(), classify(err)))
		judge("installed-server-verifier", vInstalledS, err == nil, err)
		e.cf.Add(fmt.Sprintf("TVerify %d %s %s", now, cc.coqFacts(), CoqList(terms)), "time of call, verify-func "+label)
		// (2) handshakes with the configs built earlier
		srv := &tls.Config{Certificates: []tls.Certificate{{Certificate: cc.Raw, PrivateKey: e.p.leafKey}}, MinVersion: tls.VersionTLS12}
		cerr, _ := handshake(o.tc, srv)
		judge("tls-client-handshake", vInstalledC, cerr == nil, cerr)
		e.cf.Add(fmt.Sprintf("TClient %d %s [(cr (mkProfile false [] []) %s %d %s)]", now, cc.coqFacts(), hxp([]byte(cc.P.E)), htRecv, CoqBool(cerr == nil)),
			"time of call, tls client handshake "+label)
		crt := &tls.Certificate{Certificate: cc.Raw, PrivateKey: e.p.leafKey}
		cli := &tls.Config{InsecureSkipVerify: true}
		cli.GetClientCertificate = func(*tls.CertificateRequestInfo) (*tls.Certificate, error) { return crt, nil }
		_, serr := handshake(cli, o.sc)
		judge("tls-server-handshake", vInstalledS, serr == nil, serr)
		e.cf.Add(fmt.Sprintf("TServer %d %s [(sr (mkSProfile true true []) %s)]", now, cc.coqFacts(), CoqBool(serr == nil)),
			"time of call, tls server handshake "+label)
	}
}
