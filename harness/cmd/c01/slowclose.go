package main

// C01 — link events whose session teardown takes time.
//
// The property quantifies over every finite sequence of link up/down events and every schedule.  One
// dimension of "schedule" that the Pipe links of harness/lib never vary is how long a backend takes to
// CLOSE a session that has failed (a close handshake, a TLS close_notify on a stalled socket, a
// websocket closing frame ...): with a Pipe, Close returns at once, so the whole teardown of the old
// session is over before the harness can re-dial.  Here the session handed to a node is a wrapper whose
// Close makes the link dead at once (as seen by both ends) and then BLOCKS until the harness opens a
// gate.  History: a mesh converges; one link fails; both ends drop the connection; the same peer
// re-dials at once (possibly at another cost) and the new session is established while the old session
// of one or both ends is still inside Close; some update periods later the old Close returns - that is
// the last event.  Judged by the mesh oracle of main.go (meshAgrees: every table = exactly the reachable
// nodes via least-cost next hops of the final topology, reported cost = least cost) within the usual
// bounded number of route-update periods after the last event.

import (
	"fmt"
	"strings"
	"sync"
	"time"

	. "verifharness/lib"

	"github.com/ansible/receptor/pkg/netceptor"
)

// slowCloseSess is a backend session over a Pipe whose Close takes as long as the harness says.
type slowCloseSess struct {
	*Pipe
	gate    chan struct{} // Close returns only after this has been closed (nil: at once)
	entered chan struct{} // closed when Close has been called for the first time
	once    sync.Once
}

func newSlowCloseSess(p *Pipe, gate chan struct{}) *slowCloseSess {
	return &slowCloseSess{Pipe: p, gate: gate, entered: make(chan struct{})}
}

func (s *slowCloseSess) Close() error {
	err := s.Pipe.Close() // the link is dead from here on, for both ends
	s.once.Do(func() { close(s.entered) })
	if s.gate != nil {
		select {
		case <-s.gate:
		case <-time.After(60 * time.Second): // never keeps a node from shutting down for ever
		}
	}
	return err
}

// connectSlowClose joins a and b like Mesh.Connect, but the ends named in slowA/slowB get a session whose
// Close blocks until gate is closed.
func connectSlowClose(m *Mesh, a, b string, cost float64, slowA, slowB bool, gate chan struct{}) (ea, eb *slowCloseSess, err error) {
	pa, pb := NewPipePair(4096)
	var ga, gb chan struct{}
	if slowA {
		ga = gate
	}
	if slowB {
		gb = gate
	}
	ea, eb = newSlowCloseSess(pa, ga), newSlowCloseSess(pb, gb)
	if err = m.Nodes[a].AddBackend(&OneShotBackend{Sess: ea}, netceptor.BackendConnectionCost(cost)); err != nil {
		return
	}
	err = m.Nodes[b].AddBackend(&OneShotBackend{Sess: eb}, netceptor.BackendConnectionCost(cost))
	return
}

func hasConn(m *Mesh, x, y string) bool {
	nd := m.Nodes[x]
	if nd == nil {
		return false
	}
	for _, cs := range nd.Status().Connections {
		if cs.NodeID == y {
			return true
		}
	}
	return false
}

type slowCloseCase struct {
	n            int
	edges        map[[2]int]float64
	slow         [2]int // the link with the slow teardown
	slowA, slowB bool
	newCost      float64
	period       time.Duration
	holdPeriods  int  // update periods between "new session established" and "old Close returns"
	closeFirst   bool // control: the old Close returns BEFORE the re-dial (what Pipe links already do)
	settlePeriod int  // update periods the mesh runs before the link fails
}

func (sc *slowCloseCase) String() string {
	return fmt.Sprintf("nodes=%d edges=%v slow-link=%v slow-ends(A=%v,B=%v) new-cost=%v period=%v hold=%d close-first=%v",
		sc.n, sc.edges, sc.slow, sc.slowA, sc.slowB, sc.newCost, sc.period, sc.holdPeriods, sc.closeFirst)
}

// runSlowClose plays one case; "" = converged, otherwise what the oracle saw (setup: the history could not
// be produced, which is reported under its own signature).
func runSlowClose(sc *slowCloseCase) (why string, setup bool) {
	consts := FastConsts()
	consts.RouteUpdate = sc.period
	m := NewMesh(consts)
	gate := make(chan struct{})
	var gateOnce sync.Once
	openGate := func() { gateOnce.Do(func() { close(gate) }) }
	defer m.Shutdown()
	defer openGate() // runs before Shutdown: a node waits for its sessions' Close
	tp := &topo{edges: map[[2]int]float64{}}
	alive := map[string]bool{}
	for i := 0; i < sc.n; i++ {
		id := fmt.Sprintf("m%d", i)
		tp.names = append(tp.names, id)
		alive[id] = true
		m.AddNode(id)
	}
	var oldA, oldB *slowCloseSess
	for k, cost := range sc.edges {
		a, b := tp.names[k[0]], tp.names[k[1]]
		if k == sc.slow {
			ea, eb, err := connectSlowClose(m, a, b, cost, sc.slowA, sc.slowB, gate)
			if err != nil {
				return "AddBackend: " + err.Error(), true
			}
			oldA, oldB = ea, eb
		} else if _, err := m.Connect(a, b, cost); err != nil {
			return "AddBackend: " + err.Error(), true
		}
		tp.edges[k] = cost
	}
	bound := 12*consts.RouteUpdate + time.Second
	if !WaitFor(bound+2*time.Second, func() bool { return meshAgrees(m, tp.graphOf(alive), alive, nil) }) {
		var w []string
		meshAgrees(m, tp.graphOf(alive), alive, &w)
		return "the initial mesh did not converge: " + strings.Join(w, "; "), false
	}
	time.Sleep(time.Duration(sc.settlePeriod) * consts.RouteUpdate)
	a, b := tp.names[sc.slow[0]], tp.names[sc.slow[1]]
	// the link fails (neither node asked for it)
	_ = oldA.Pipe.ForceClose()
	if !WaitFor(10*time.Second, func() bool { return !hasConn(m, a, b) && !hasConn(m, b, a) }) {
		return "the ends of a failed link still list the connection 10 s later", false
	}
	for _, e := range []*slowCloseSess{oldA, oldB} {
		select {
		case <-e.entered:
		case <-time.After(10 * time.Second):
			return "a node that dropped a failed connection has not called Close on its session 10 s later", true
		}
	}
	if sc.closeFirst {
		openGate()
		time.Sleep(consts.RouteUpdate / 4)
	}
	// the same peer re-dials at once: a new session, the old one possibly still being closed
	if _, err := m.Connect(a, b, sc.newCost); err != nil {
		return "AddBackend: " + err.Error(), true
	}
	tp.edges[sc.slow] = sc.newCost
	g := tp.graphOf(alive)
	if !WaitFor(10*time.Second, func() bool { return hasConn(m, a, b) && hasConn(m, b, a) }) {
		return fmt.Sprintf("a new session between %s and %s, dialled after both had dropped the failed one, is not established 10 s later", a, b), false
	}
	time.Sleep(time.Duration(sc.holdPeriods) * consts.RouteUpdate)
	openGate() // the old session's Close returns: the last event
	time.Sleep(consts.RouteUpdate)
	if !WaitFor(bound, func() bool { return meshAgrees(m, g, alive, nil) }) {
		var w []string
		meshAgrees(m, g, alive, &w)
		// diagnosis: the node's own adjacency row against its established connections
		for _, id := range []string{a, b} {
			st := m.Nodes[id].Status()
			var conns []string
			for _, cs := range st.Connections {
				conns = append(conns, cs.NodeID)
			}
			w = append(w, fmt.Sprintf("[%s: connections=%v own known costs=%v]", id, conns, st.KnownConnectionCosts[id]))
		}
		return strings.Join(w, "; "), false
	}
	// ... and stay right (nothing may undo it later: the old session is completely gone now)
	time.Sleep(3 * consts.RouteUpdate)
	var w []string
	if !meshAgrees(m, g, alive, &w) && !WaitFor(bound, func() bool { return meshAgrees(m, g, alive, nil) }) {
		return "converged tables went wrong again with no further event: " + strings.Join(w, "; "), false
	}
	return "", false
}

func slowCloseHistory(c *Ctx, im *Impl) {
	r := c.Rng
	rounds := 4
	if c.Thorough() {
		rounds = 20
	}
	for round := 0; round < rounds; round++ {
		sc := &slowCloseCase{edges: map[[2]int]float64{}}
		sc.period = time.Duration(80+r.Intn(80)) * time.Millisecond
		sc.holdPeriods = 1 + r.Intn(4)
		sc.settlePeriod = 2 + r.Intn(5)
		switch {
		case round == 0:
			// a line m0 - m1 - m2, the slow end is the end node: everything it can reach lies behind the link
			sc.n = 3
			sc.edges[[2]int{0, 1}], sc.edges[[2]int{1, 2}] = 1, 1
			sc.slow, sc.slowA, sc.newCost = [2]int{0, 1}, true, 1
		case round == 1:
			// the same line, the slow end is the inner node, the link comes back dearer
			sc.n = 3
			sc.edges[[2]int{0, 1}], sc.edges[[2]int{1, 2}] = 1, 1
			sc.slow, sc.slowB, sc.newCost = [2]int{0, 1}, true, 2
		default:
			// random connected topology, any link, either or both ends slow, any new cost; one round in
			// four is the control in which the old Close returns before the re-dial
			sc.n = 3 + r.Intn(3)
			for i := 1; i < sc.n; i++ {
				sc.edges[[2]int{r.Intn(i), i}] = float64(1 + r.Intn(4))
			}
			for k := 0; k < sc.n-2; k++ {
				x, y := r.Intn(sc.n), r.Intn(sc.n)
				if x > y {
					x, y = y, x
				}
				if _, dup := sc.edges[[2]int{x, y}]; x != y && !dup {
					sc.edges[[2]int{x, y}] = float64(1 + r.Intn(4))
				}
			}
			var keys [][2]int
			for i := 0; i < sc.n; i++ { // map order is not reproducible: enumerate in index order
				for j := i + 1; j < sc.n; j++ {
					if _, ok := sc.edges[[2]int{i, j}]; ok {
						keys = append(keys, [2]int{i, j})
					}
				}
			}
			sc.slow = keys[r.Intn(len(keys))]
			switch r.Intn(3) {
			case 0:
				sc.slowA = true
			case 1:
				sc.slowB = true
			default:
				sc.slowA, sc.slowB = true, true
			}
			sc.newCost = float64(1 + r.Intn(4))
			sc.closeFirst = round%4 == 3
		}
		why, setup := runSlowClose(sc)
		retried := false
		if why != "" {
			// a verdict that rests on something not happening in time: once more from scratch
			retried = true
			time.Sleep(500 * time.Millisecond)
			why, setup = runSlowClose(sc)
		}
		rec := map[string]interface{}{"case": sc.String(), "retried": retried,
			"events": []string{"mesh converges", "link " + fmt.Sprint(sc.slow) + " fails", "both ends drop the connection",
				"same peer re-dials at once", "new session established", "old session's Close returns"}}
		if why != "" {
			if setup {
				im.Violate("slow-close history could not be produced (twice): "+why, "slow-close-setup", rec)
			} else {
				im.Violate("a link failed and was re-established by a new session of the same peer while the old session's backend Close was still in progress; "+
					"after the old Close returned (last event) the routing tables did not converge to least-cost next hops of the final topology (twice): "+why,
					"mesh-not-converged", rec)
			}
		}
		im.Hist("mesh:slow-close-redial")
		if sc.closeFirst {
			im.Hist("mesh:slow-close-redial:control-close-first")
		}
		im.Count(fmt.Sprintf("mesh slow close %d %s", round, sc), !sc.closeFirst)
		if round == 0 {
			im.Sample(rec)
		}
	}
}
