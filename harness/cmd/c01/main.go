package main

// C01 — routing converges to least-cost, loop-free next hops.
// (a) white-box: random known graphs installed in a real node, updateRoutingTable run, the
//     node's cost map and routing table certified by the verified checker Model/Route.v
//     (route_check) inside coqc and compared with an independent Dijkstra in the harness;
// (b) real meshes with random topologies and event histories (link up/down, node stop/restart,
//     reordering links): every node's table against the final real topology.

import (
	"context"
	"encoding/json"
	"fmt"
	"math"
	"os"
	"os/exec"
	"sort"
	"strings"
	"time"

	. "verifharness/lib"

	"github.com/ansible/receptor/pkg/netceptor"
)

func main() { Main("C01", run, map[string]func([]string){"negcycle": negCycleChild}) }

type graph map[string]map[string]float64

func genGraph(r *Rng) (graph, []string) {
	n := 2 + r.Intn(9)
	if r.Chance(15) {
		n = 10 + r.Intn(30)
	}
	names := []string{"self"}
	for i := 1; i < n; i++ {
		names = append(names, fmt.Sprintf("n%02d", i))
	}
	g := graph{}
	dens := 15 + r.Intn(50)
	for _, u := range names {
		if u != "self" && r.Chance(8) {
			continue // not a key: only ever a neighbour
		}
		if u == "self" && r.Chance(4) {
			continue
		}
		g[u] = map[string]float64{}
		for _, v := range names {
			if v != u && r.Chance(dens*3/n+5) {
				g[u][v] = float64(1 + r.Intn(9))
			}
		}
		if r.Chance(5) {
			g[u]["ghost"] = float64(1 + r.Intn(3)) // neighbour that is not a key
		}
	}
	// mostly symmetric graphs (what a converged mesh produces), sometimes stale asymmetric edges
	if r.Chance(70) {
		for u, adj := range g {
			for v, c := range adj {
				if _, ok := g[v]; ok {
					g[v][u] = c
				}
			}
		}
	}
	// sometimes cut the graph in two
	if r.Chance(25) {
		for u, adj := range g {
			for v := range adj {
				if (u < "n05") != (v < "n05") && u != "self" && v != "self" {
					delete(adj, v)
				}
			}
		}
	}
	return g, names
}

func dijkstra(g graph, src string) map[string]float64 {
	dist := map[string]float64{}
	if _, ok := g[src]; !ok {
		return dist
	}
	dist[src] = 0
	done := map[string]bool{}
	for {
		best, bu := math.Inf(1), ""
		for u, d := range dist {
			if !done[u] && d < best {
				best, bu = d, u
			}
		}
		if bu == "" {
			return dist
		}
		done[bu] = true
		for v, c := range g[bu] {
			if _, key := g[v]; !key {
				continue
			}
			if d, ok := dist[v]; !ok || best+c < d {
				dist[v] = best + c
			}
		}
	}
}

type ids struct{ m map[string]uint64 }

func (n *ids) id(s string) uint64 {
	if v, ok := n.m[s]; ok {
		return v
	}
	v := uint64(len(n.m))
	n.m[s] = v
	return v
}

func coqGraph(nm *ids, g graph) string {
	type kv struct {
		k uint64
		s string
	}
	var rows []kv
	for u, adj := range g {
		type e struct{ k, c uint64 }
		var es []e
		for v, c := range adj {
			es = append(es, e{nm.id(v), uint64(c)})
		}
		sort.Slice(es, func(i, j int) bool { return es[i].k < es[j].k })
		xs := make([]string, len(es))
		for i, x := range es {
			xs[i] = fmt.Sprintf("(%d, %d)", x.k, x.c)
		}
		rows = append(rows, kv{nm.id(u), CoqList(xs)})
	}
	sort.Slice(rows, func(i, j int) bool { return rows[i].k < rows[j].k })
	ys := make([]string, len(rows))
	for i, x := range rows {
		ys[i] = fmt.Sprintf("(%d, %s)", x.k, x.s)
	}
	return CoqList(ys)
}

func wbGraphs(c *Ctx, im *Impl, cf *CaseFile) {
	ctx, cancel := context.WithCancel(context.Background())
	defer cancel()
	n := netceptor.NewWithConsts(ctx, "self", 16384, time.Hour, time.Hour, time.Hour, 30, time.Hour)
	ng := 500
	if c.Thorough() {
		ng = 5000
	}
	for i := 0; i < ng; i++ {
		r := NewRng(c.Seed*104729 + uint64(i))
		g, names := genGraph(r)
		n.VerifSetKnownConnectionCosts(g)
		n.VerifUpdateRoutingTable()
		costs := n.VerifRoutingPathCosts()
		table := n.Status().RoutingTable
		nm := &ids{m: map[string]uint64{}}
		for _, nmn := range names {
			nm.id(nmn)
		}
		// Coq case
		type ce struct {
			k uint64
			s string
		}
		var cs []ce
		for v, cst := range costs {
			s := "None"
			if cst < math.MaxFloat64/2 {
				s = fmt.Sprintf("(Some %d)", uint64(cst))
			}
			cs = append(cs, ce{nm.id(v), s})
		}
		sort.Slice(cs, func(a, b int) bool { return cs[a].k < cs[b].k })
		cl := make([]string, len(cs))
		for j, x := range cs {
			cl[j] = fmt.Sprintf("(%d, %s)", x.k, x.s)
		}
		var ts []ce
		for d, h := range table {
			ts = append(ts, ce{nm.id(d), CoqN(nm.id(h))})
		}
		sort.Slice(ts, func(a, b int) bool { return ts[a].k < ts[b].k })
		tl := make([]string, len(ts))
		for j, x := range ts {
			tl[j] = fmt.Sprintf("(%d, %s)", x.k, x.s)
		}
		label := fmt.Sprintf("graph seed=%d#%d nodes=%d keys=%d", c.Seed, i, len(names), len(g))
		cf.Add(fmt.Sprintf("{| rc_g := %s; rc_self := %d; rc_costs := %s; rc_table := %s |}", coqGraph(nm, g), nm.id("self"), CoqList(cl), CoqList(tl)), label)
		// independent oracle: Dijkstra per node
		dist := dijkstra(g, "self")
		rec := map[string]interface{}{"graph": g}
		reach := 0
		for v := range g {
			d, ok := dist[v]
			got, has := costs[v]
			if !has {
				im.Violate("a known node has no path-cost entry", "wb-cost-missing", rec)
				continue
			}
			if ok {
				reach++
				if got != d {
					im.Violate(fmt.Sprintf("reported path cost to %s is %v, least cost is %v", v, got, d), "wb-cost-wrong", rec)
				}
				h, inT := table[v]
				if v == "self" {
					continue
				}
				if !inT {
					im.Violate(fmt.Sprintf("reachable node %s is not in the routing table", v), "wb-reachable-missing", rec)
					continue
				}
				w, direct := g["self"][h]
				dh := dijkstra(g, h)
				if !direct || w+dh[v] != d {
					im.Violate(fmt.Sprintf("next hop %s for %s does not lie on a least-cost path", h, v), "wb-hop-not-least-cost", rec)
				}
			} else {
				if got < math.MaxFloat64/2 {
					im.Violate(fmt.Sprintf("unreachable node %s has finite cost %v", v, got), "wb-unreachable-cost", rec)
				}
				if _, inT := table[v]; inT {
					im.Violate(fmt.Sprintf("unreachable node %s is in the routing table", v), "wb-unreachable-listed", rec)
				}
			}
		}
		for d := range table {
			if _, ok := g[d]; !ok {
				im.Violate("routing table lists a node that is not known", "wb-table-extra", rec)
			}
		}
		im.Hist(fmt.Sprintf("wb:keys=%02d-%02d", len(g)/5*5, len(g)/5*5+4))
		im.Count(label, reach >= 3 && reach < len(g))
		if i < 2 {
			im.Sample(map[string]interface{}{"kind": "known-graph", "graph": g, "costs": fmt.Sprint(costs), "table": table})
		}
	}
}

// negCycleChild: two routing updates from a remote origin that describe a negative-cost cycle
// (costs reported by peers), then the table rebuild that the updates request; exits 0 when the
// node still answers Status() afterwards, 7 when it is frozen.
func negCycleChild(args []string) {
	QuietLogs()
	n := netceptor.NewWithConsts(context.Background(), "self", 16384, time.Hour, time.Hour, time.Hour, 30, time.Hour)
	n.VerifAddConn("a", 1, 64)
	n.VerifSetKnownConnectionCosts(graph{"self": {"a": 1}, "a": {"self": 1}})
	n.VerifHandleRoutingUpdate(netceptor.VerifRoutingUpdate{NodeID: "b", UpdateID: "u1", UpdateEpoch: 5, UpdateSequence: 1,
		Connections: map[string]float64{"a": -1, "c": -1}, ForwardingNode: "a"}, "a")
	n.VerifHandleRoutingUpdate(netceptor.VerifRoutingUpdate{NodeID: "c", UpdateID: "u2", UpdateEpoch: 5, UpdateSequence: 1,
		Connections: map[string]float64{"b": -1}, ForwardingNode: "a"}, "a")
	n.VerifHandleRoutingUpdate(netceptor.VerifRoutingUpdate{NodeID: "a", UpdateID: "u3", UpdateEpoch: 5, UpdateSequence: 1,
		Connections: map[string]float64{"self": 1, "b": 1}, ForwardingNode: "a"}, "a")
	time.Sleep(400 * time.Millisecond) // the requested rebuild runs 100 ms after the request
	done := make(chan bool)
	go func() {
		n.VerifHandleRoutingUpdate(netceptor.VerifRoutingUpdate{NodeID: "d", UpdateID: "u4", UpdateEpoch: 5, UpdateSequence: 1,
			Connections: map[string]float64{"a": 1}, ForwardingNode: "a"}, "a")
		_ = n.Status()
		done <- true
	}()
	select {
	case <-done:
		os.Exit(0)
	case <-time.After(2 * time.Second):
		os.Exit(7)
	}
}

func run(c *Ctx) {
	QuietLogs()
	im := NewImpl("C01", c.Seed, c.Tier)
	im.Rule = "white-box: random known graphs (2-40 nodes, costs 1..9, symmetric and stale asymmetric edges, non-key neighbours, partitions) installed in a real node, updateRoutingTable run; non-trivial = at least 3 reachable and at least one unreachable known node; mesh: random topologies of 3-7 real nodes with event histories; non-trivial = at least one link cut and one cycle; slow-close (slowclose.go): a line of three and random connected meshes of 3-5 real nodes in which one link's sessions have a backend Close that blocks (either or both ends); the link fails, both ends drop it, the same peer re-dials at once (same or another cost) and the new session is established while the old Close is still in progress, 1-4 update periods later the old Close returns (last event); one round in four is the control where the old Close returns before the re-dial; non-trivial = the new session was established during the old Close; a failed verdict is replayed from scratch once; distinct by full case"
	cf := &CaseFile{Dir: c.Out, Prop: "C01", Imports: []string{"Model.Route"}, CaseType: "route_case", CheckFn: "route_case_check", PerShard: 100}
	wbGraphs(c, im, cf)
	// termination guard (hypothesis [positive] of the routing theorems must be enforced at the
	// boundary): costs reported by peers must not be able to make the rebuild run for ever
	cmd := exec.Command(os.Args[0], "negcycle")
	err := cmd.Run()
	if ee, ok := err.(*exec.ExitError); ok && ee.ExitCode() == 7 {
		im.Violate("two routing updates reporting negative connection costs freeze the node: the routing-table rebuild never terminates and holds the lock that routing updates and Status() need",
			"negative-cost-wedge", "updates b:{a:-1,c:-1}, c:{b:-1} via neighbour a")
	} else if err != nil {
		im.Violate("termination probe failed: "+err.Error(), "negative-cost-probe-error", nil)
	}
	im.Hist("probe:negative-cost-updates")
	im.Count("probe negative-cost updates", true)
	tickTruth(c, im)
	silentCrashHistory(c, im)
	silentLinkHistory(c, im)
	lateHandshakeHistory(c, im)
	slowCloseHistory(c, im)
	meshHistories(c, im)
	Must(cf.Write())
	Must(im.Write(c.Out))
}

// ---------- mesh level ----------

type topo struct {
	names []string
	edges map[[2]int]float64
}

func (t *topo) graphOf(alive map[string]bool) graph {
	g := graph{}
	for e, c := range t.edges {
		a, b := t.names[e[0]], t.names[e[1]]
		if !alive[a] || !alive[b] {
			continue
		}
		if g[a] == nil {
			g[a] = map[string]float64{}
		}
		if g[b] == nil {
			g[b] = map[string]float64{}
		}
		g[a][b], g[b][a] = c, c
	}
	return g
}

func meshHistories(c *Ctx, im *Impl) {
	r := c.Rng
	nh := 4
	if c.Thorough() {
		nh = 40
	}
	for t := 0; t < nh; t++ {
		n := 3 + r.Intn(5)
		tp := &topo{edges: map[[2]int]float64{}}
		for i := 0; i < n; i++ {
			tp.names = append(tp.names, fmt.Sprintf("m%d", i))
		}
		consts := FastConsts()
		consts.RouteUpdate = time.Duration(150+r.Intn(150)) * time.Millisecond
		if t == 0 {
			consts.RouteUpdate = 80 * time.Millisecond // many updates before the restart of history 0
		}
		m := NewMesh(consts)
		m.NodeCostStyle = t%2 == 1 // every other history configures its link costs through per-node overrides
		alive := map[string]bool{}
		for _, id := range tp.names {
			m.AddNode(id)
			alive[id] = true
		}
		links := map[[2]int]*Link{}
		reorder := func(b []byte) ([][]byte, time.Duration) { return [][]byte{b}, 0 }
		_ = reorder
		connect := func(a, b int, cost float64) {
			if a > b {
				a, b = b, a
			}
			if a == b || links[[2]int{a, b}] != nil || !alive[tp.names[a]] || !alive[tp.names[b]] {
				return
			}
			// a new session is refused ("already connected") until both ends have noticed that an earlier
			// session between them is gone; a real backend would redial, these links do not: wait for that
			gone := func(x, y string) bool {
				nd := m.Nodes[x]
				if nd == nil {
					return true
				}
				for _, cs := range nd.Status().Connections {
					if cs.NodeID == y {
						return false
					}
				}
				return true
			}
			WaitFor(2*time.Second, func() bool { return gone(tp.names[a], tp.names[b]) && gone(tp.names[b], tp.names[a]) })
			l, err := m.Connect(tp.names[a], tp.names[b], cost)
			if err != nil {
				return
			}
			links[[2]int{a, b}] = l
			tp.edges[[2]int{a, b}] = cost
		}
		if t == 0 {
			// a line: every inner node is on the only path between its two sides
			for i := 1; i < n; i++ {
				connect(i-1, i, 1)
			}
		} else {
			for i := 1; i < n; i++ {
				connect(r.Intn(i), i, float64(1+r.Intn(4)))
			}
			for k := 0; k < n; k++ {
				connect(r.Intn(n), r.Intn(n), float64(1+r.Intn(4)))
			}
		}
		// a link one of whose directions is held back for a while (the two ends finish the handshake at
		// different moments); sometimes it is lost again before the late end has heard anything
		var latestRelease time.Time
		connectHeld := func(a, b int, cost float64) string {
			if a > b {
				a, b = b, a
			}
			if a == b || links[[2]int{a, b}] != nil || !alive[tp.names[a]] || !alive[tp.names[b]] {
				return ""
			}
			hold := time.Duration(1+r.Intn(4)) * consts.RouteUpdate
			release := time.Now().Add(hold)
			if release.After(latestRelease) {
				latestRelease = release
			}
			heldEndA := r.Chance(50)
			l, err := m.ConnectPrepared(tp.names[a], tp.names[b], cost, func(l *Link) {
				held := 0
				f := func(msg []byte) ([][]byte, time.Duration) {
					if d := time.Until(release) + time.Duration(held)*3*time.Millisecond; d > 0 {
						held++
						return [][]byte{msg}, d
					}
					return [][]byte{msg}, 0
				}
				if heldEndA {
					l.EndA.SetFilter(f)
				} else {
					l.EndB.SetFilter(f)
				}
			})
			if err != nil {
				return ""
			}
			if r.Chance(35) {
				time.Sleep(time.Duration(r.Intn(int(hold))))
				l.Cut()
				return fmt.Sprintf("held link %d-%d lost during the handshake", a, b)
			}
			links[[2]int{a, b}] = l
			tp.edges[[2]int{a, b}] = cost
			return fmt.Sprintf("held link %d-%d", a, b)
		}
		cycles := len(tp.edges) >= n
		// event history
		var events []string
		cuts, restarts := 0, 0
		ne := 2 + r.Intn(5)
		for e := 0; e < ne; e++ {
			time.Sleep(time.Duration(r.Intn(250)) * time.Millisecond)
			ev := r.Intn(8)
			if t == 0 {
				ev = 3 // the first history is a restart of a well-connected, long-lived node and nothing else
			}
			switch ev {
			case 0, 1: // cut a link
				for k, l := range links {
					l.Cut()
					delete(links, k)
					delete(tp.edges, k)
					events = append(events, fmt.Sprintf("cut %v", k))
					cuts++
					break
				}
			case 2: // new link (heal through a different link)
				a, b := r.Intn(n), r.Intn(n)
				connect(a, b, float64(1+r.Intn(4)))
				events = append(events, fmt.Sprintf("link %d-%d", a, b))
			case 3: // restart a node that has been up for a while: new epoch, sequence numbers start again,
				// its links come back one after the other (so its adjacency changes after its first flood)
				if restarts < 1 && len(alive) > 2 {
					i := r.Intn(n)
					if t == 0 { // the node with the most links
						best := -1
						for cand := 0; cand < n; cand++ {
							d := 0
							for k := range links {
								if k[0] == cand || k[1] == cand {
									d++
								}
							}
							if d > best {
								best, i = d, cand
							}
						}
					}
					id := tp.names[i]
					if alive[id] {
						restarts++
						var nbrs [][2]int
						for k := range links {
							if k[0] == i || k[1] == i {
								nbrs = append(nbrs, k)
							}
						}
						time.Sleep(60 * consts.RouteUpdate) // a long-lived node: its sequence number is high
						m.StopNode(id)
						for _, k := range nbrs {
							delete(links, k)
							delete(tp.edges, k)
						}
						time.Sleep(1100 * time.Millisecond) // the epoch has one-second granularity
						m.AddNode(id)
						for _, k := range nbrs {
							connect(k[0], k[1], float64(1+r.Intn(4)))
							time.Sleep(300 * time.Millisecond) // longer than the 100 ms flood delay: one update per link
						}
						if len(nbrs) == 0 {
							connect(i, (i+1)%n, 1)
						}
						events = append(events, "restart "+id)
					}
				}
			case 7: // a link is lost and comes back at once with another cost: the neighbour set of both ends is
				// the same before and after, only the cost differs
				for k, l := range links {
					old := tp.edges[k]
					l.Cut()
					delete(links, k)
					delete(tp.edges, k)
					nc := old + float64(1+r.Intn(3))
					if r.Chance(50) && old > 1 {
						nc = old - 1
					}
					connect(k[0], k[1], nc)
					events = append(events, fmt.Sprintf("recost %v %v->%v", k, old, nc))
					cuts++
					break
				}
			case 5, 6:
				if ev := connectHeld(r.Intn(n), r.Intn(n), float64(1+r.Intn(4))); ev != "" {
					events = append(events, ev)
				}
			default: // stop a node
				if len(alive) > 2 {
					i := r.Intn(n)
					id := tp.names[i]
					if alive[id] {
						m.StopNode(id)
						delete(alive, id)
						for k := range links {
							if k[0] == i || k[1] == i {
								delete(links, k)
								delete(tp.edges, k)
							}
						}
						events = append(events, "stop "+id)
					}
				}
			}
		}
		// bounded number of route-update periods after the last event (and after the last held link opened)
		if d := time.Until(latestRelease); d > 0 {
			time.Sleep(d + 50*time.Millisecond)
		}
		g := tp.graphOf(alive)
		ok := WaitFor(12*consts.RouteUpdate+time.Second, func() bool { return meshAgrees(m, g, alive, nil) })
		rec := map[string]interface{}{"nodes": n, "events": events, "final_edges": fmt.Sprint(tp.edges)}
		if !ok {
			var why []string
			meshAgrees(m, g, alive, &why)
			im.Violate("routing tables did not converge to least-cost next hops of the final topology: "+strings.Join(why, "; "), "mesh-not-converged", rec)
		}
		m.Shutdown()
		im.Hist("mesh:history")
		im.Count(fmt.Sprintf("mesh %d %v", t, rec), cuts > 0 && cycles)
		if t == 0 {
			im.Sample(rec)
		}
	}
}

// silentCrashHistory: a node at the end of a line vanishes without a trace (its neighbour's session stays
// open and silent), comes back at once with a new epoch and keeps redialling, as a real backend does.  The
// neighbour refuses the new sessions ("already connected") until its old session ends; the restarted node
// has by then established each of them on the neighbour's first routing message and is told of the refusal
// afterwards.  Once the old session is gone the next redial must succeed and every table must converge.
func silentCrashHistory(c *Ctx, im *Impl) {
	rounds := 1
	if c.Thorough() {
		rounds = 4
	}
	for round := 0; round < rounds; round++ {
		consts := FastConsts()
		consts.RouteUpdate = 100 * time.Millisecond
		m := NewMesh(consts)
		tp := &topo{names: []string{"m0", "m1", "m2"}, edges: map[[2]int]float64{{0, 1}: 1, {1, 2}: 1}}
		alive := map[string]bool{"m0": true, "m1": true, "m2": true}
		for _, id := range tp.names {
			m.AddNode(id)
		}
		_, err := m.Connect("m0", "m1", 1)
		Must(err)
		old, err := m.Connect("m1", "m2", 1)
		Must(err)
		g := tp.graphOf(alive)
		rec := map[string]interface{}{"nodes": 3, "events": []string{"silent crash of m2", "restart m2, redial every 150 ms", "old session of m1 ends"}}
		if !WaitFor(12*consts.RouteUpdate+time.Second, func() bool { return meshAgrees(m, g, alive, nil) }) {
			im.Violate("line of three nodes did not converge", "mesh-not-converged", rec)
			m.Shutdown()
			continue
		}
		time.Sleep(time.Duration(5+c.Rng.Intn(10)) * consts.RouteUpdate)
		old.EndB.SetDetached(true) // m2's end: nothing it does is seen by m1 any more
		old.EndA.SetSilent(true)   // and nothing m1 sends arrives anywhere
		m.StopNode("m2")
		time.Sleep(1100 * time.Millisecond) // the epoch has one-second granularity
		m.AddNode("m2")
		var cur *Link
		refused := 0
		redial := func() {
			if cur != nil && !cur.EndA.Closed() {
				return
			}
			if cur != nil {
				refused++
			}
			cur, _ = m.Connect("m1", "m2", 1)
		}
		t0 := time.Now()
		for time.Since(t0) < 1200*time.Millisecond || refused < 2 {
			redial()
			time.Sleep(150 * time.Millisecond)
			if time.Since(t0) > 10*time.Second {
				break
			}
		}
		_ = old.EndA.ForceClose() // the old session ends at last (keep-alive failure / idle timeout)
		ok := WaitFor(12*consts.RouteUpdate+3*time.Second, func() bool {
			redial()
			return meshAgrees(m, g, alive, nil)
		})
		rec["refused_redials"] = refused
		if !ok {
			var why []string
			meshAgrees(m, g, alive, &why)
			im.Violate("after a silent crash and restart of an end node the link never healed / tables did not converge: "+strings.Join(why, "; "), "mesh-not-converged", rec)
		}
		m.Shutdown()
		im.Hist("mesh:silent-crash-restart")
		im.Count(fmt.Sprintf("mesh silent crash %d %v", round, rec), refused > 0)
		if round == 0 {
			im.Sample(rec)
		}
	}
}

// silentLinkHistory: a link fails without a trace - both sessions stay open but nothing arrives any more (a
// cable pulled behind a switch).  Only the idle limit ends such a connection: within the limit plus the
// monitor's 5 s period plus the usual bound every table must route around the dead link.
func silentLinkHistory(c *Ctx, im *Impl) {
	consts := FastConsts()
	consts.RouteUpdate = 100 * time.Millisecond
	consts.MaxIdle = 2500 * time.Millisecond // longer than the 1 s receive timeout of the session reader
	m := NewMesh(consts)
	tp := &topo{names: []string{"m0", "m1", "m2"}, edges: map[[2]int]float64{{0, 1}: 1, {0, 2}: 1, {1, 2}: 1}}
	alive := map[string]bool{"m0": true, "m1": true, "m2": true}
	for _, id := range tp.names {
		m.AddNode(id)
	}
	dead, err := m.Connect("m0", "m1", 1)
	Must(err)
	_, err = m.Connect("m0", "m2", 1)
	Must(err)
	_, err = m.Connect("m1", "m2", 1)
	Must(err)
	rec := map[string]interface{}{"nodes": 3, "events": []string{"triangle", "link m0-m1 goes silent in both directions, sessions stay open"}}
	if !WaitFor(12*consts.RouteUpdate+time.Second, func() bool { return meshAgrees(m, tp.graphOf(alive), alive, nil) }) {
		im.Violate("a triangle did not converge", "mesh-not-converged", rec)
		m.Shutdown()
		return
	}
	dead.EndA.SetSilent(true)
	dead.EndB.SetSilent(true)
	delete(tp.edges, [2]int{0, 1})
	g := tp.graphOf(alive)
	bound := consts.MaxIdle + 5*time.Second + 12*consts.RouteUpdate + 2*time.Second
	if !WaitFor(bound, func() bool { return meshAgrees(m, g, alive, nil) }) {
		var why []string
		meshAgrees(m, g, alive, &why)
		im.Violate(fmt.Sprintf("a link that went silent (sessions open, nothing arriving) is still used %v later, idle limit %v: %s", bound, consts.MaxIdle, strings.Join(why, "; ")),
			"mesh-not-converged", rec)
	}
	m.Shutdown()
	im.Hist("mesh:silent-link-idle-timeout")
	im.Count("mesh silent link", true)
}

// lateHandshakeHistory: a new link between two nodes that already reach each other through a third, whose
// two ends complete the handshake at different moments: everything m0 sends on the new link is held back
// for a few update periods, so m1 keeps announcing "my connections: m2" (without m0) while m0 already counts
// the link as established and hears those announcements through m2.  When the held messages arrive the link
// is up on both sides and every table must give the direct route (cost 1), not the detour (cost 2).
func lateHandshakeHistory(c *Ctx, im *Impl) {
	rounds := 4
	if c.Thorough() {
		rounds = 12
	}
	for round := 0; round < rounds; round++ {
		consts := FastConsts()
		consts.RouteUpdate = time.Duration(60+c.Rng.Intn(60)) * time.Millisecond
		m := NewMesh(consts)
		tp := &topo{names: []string{"m0", "m1", "m2"}, edges: map[[2]int]float64{{0, 2}: 1, {1, 2}: 1}}
		alive := map[string]bool{"m0": true, "m1": true, "m2": true}
		for _, id := range tp.names {
			m.AddNode(id)
		}
		_, err := m.Connect("m0", "m2", 1)
		Must(err)
		_, err = m.Connect("m1", "m2", 1)
		Must(err)
		rec := map[string]interface{}{"nodes": 3, "events": []string{"triangle closed by a link whose m0->m1 direction is held back"}}
		if !WaitFor(12*consts.RouteUpdate+time.Second, func() bool { return meshAgrees(m, tp.graphOf(alive), alive, nil) }) {
			im.Violate("two links through a common neighbour did not converge", "mesh-not-converged", rec)
			m.Shutdown()
			continue
		}
		hold := time.Duration(3+c.Rng.Intn(4)) * consts.RouteUpdate
		release := time.Now().Add(hold)
		cutEarly := round%2 == 1 // the link is lost while only m0 has finished the handshake
		nl, err := m.ConnectPrepared("m0", "m1", 1, func(l *Link) {
			held := 0
			l.EndA.SetFilter(func(b []byte) ([][]byte, time.Duration) { // what m0 sends towards m1
				// held messages are released in the order they were sent (a link does not reorder), 3 ms apart
				if d := time.Until(release) + time.Duration(held)*3*time.Millisecond; d > 0 {
					held++
					return [][]byte{b}, d
				}
				return [][]byte{b}, 0
			})
		})
		Must(err)
		tp.edges[[2]int{0, 1}] = 1
		if cutEarly {
			// m0 counts the link as established as soon as it hears m1's first message; m1 never hears m0
			WaitFor(hold/2, func() bool {
				rt := m.Nodes["m0"].Status().RoutingTable
				return rt["m1"] == "m1"
			})
			time.Sleep(consts.RouteUpdate / 2)
			nl.Cut()
			delete(tp.edges, [2]int{0, 1})
			rec["events"] = []string{"triangle closed by a link whose m0->m1 direction is held back", "the link is lost before m1 has heard m0"}
		}
		g := tp.graphOf(alive)
		time.Sleep(hold)
		ok := WaitFor(12*consts.RouteUpdate+time.Second, func() bool { return meshAgrees(m, g, alive, nil) })
		if !ok {
			var why []string
			meshAgrees(m, g, alive, &why)
			im.Violate("after a link whose two ends finished the handshake at different moments the tables did not converge: "+strings.Join(why, "; "), "mesh-not-converged", rec)
			if os.Getenv("VERIF_DEBUG") != "" {
				for id, nd := range m.Nodes {
					st := nd.Status()
					fmt.Fprintf(os.Stderr, "DEBUG %s conns=%v known=%v table=%v\n", id, st.Connections, st.KnownConnectionCosts, st.RoutingTable)
				}
			}
		}
		m.Shutdown()
		im.Hist("mesh:late-handshake")
		im.Count(fmt.Sprintf("mesh late handshake %d hold=%v", round, hold), true)
	}
}

// meshAgrees: every live node's table = exactly the reachable nodes, via least-cost next hops,
// with the least cost reported.
func meshAgrees(m *Mesh, g graph, alive map[string]bool, why *[]string) bool {
	ok := true
	fail := func(s string) {
		ok = false
		if why != nil && len(*why) < 6 {
			*why = append(*why, s)
		}
	}
	for id := range alive {
		node := m.Nodes[id]
		if node == nil {
			continue
		}
		dist := dijkstra(g, id)
		rt := node.Status().RoutingTable
		for d, dd := range dist {
			if d == id {
				continue
			}
			h, has := rt[d]
			if !has {
				fail(fmt.Sprintf("%s has no route to reachable %s", id, d))
				continue
			}
			w, direct := g[id][h]
			if !direct || w+dijkstra(g, h)[d] != dd {
				fail(fmt.Sprintf("%s routes to %s via %s which is not on a least-cost path", id, d, h))
			}
			if pc, err := node.PathCost(d); err != nil || pc != dd {
				fail(fmt.Sprintf("%s reports cost %v to %s, least cost is %v", id, pc, d, dd))
			}
		}
		for d := range rt {
			if _, reach := dist[d]; !reach {
				fail(fmt.Sprintf("%s still lists unreachable %s", id, d))
			}
		}
	}
	return ok
}

// tickTruth: the hypotheses of the clean-round theorem about a tick (Model/RouteWorld.v true_upd /
// fresh_for) observed on the real node: every periodic own update carries the node's epoch, a
// strictly increasing sequence number, a fresh UpdateID, the node itself as forwarder, exactly the
// current connections with their costs, and goes to every connection.
func tickTruth(c *Ctx, im *Impl) {
	ctx, cancel := context.WithCancel(context.Background())
	defer cancel()
	n := netceptor.NewWithConsts(ctx, "self", 16384, 40*time.Millisecond, time.Hour, time.Hour, 30, time.Hour)
	want := map[string]float64{"p1": 1, "p2": 2, "p3": 5}
	chans := map[string]chan []byte{}
	for id, cost := range want {
		ch, _ := n.VerifAddConn(id, cost, 4096)
		chans[id] = ch
	}
	time.Sleep(500 * time.Millisecond)
	cancel()
	type upd struct {
		NodeID             string
		UpdateID           string
		UpdateEpoch        uint64
		UpdateSequence     uint64
		Connections        map[string]float64
		ForwardingNode     string
		SuspectedDuplicate uint64
	}
	perConn := map[string][]upd{}
	for id, ch := range chans {
		for _, m := range Drain(ch) {
			if len(m) == 0 || m[0] != netceptor.MsgTypeRoute {
				continue
			}
			var u upd
			if json.Unmarshal(m[1:], &u) == nil {
				perConn[id] = append(perConn[id], u)
			}
		}
	}
	ids := map[string]bool{}
	ticks := 0
	for id, us := range perConn {
		var last uint64
		for _, u := range us {
			if u.NodeID != "self" || u.ForwardingNode != "self" || u.UpdateEpoch != n.VerifEpoch() || u.SuspectedDuplicate != 0 {
				im.Violate(fmt.Sprintf("own update on %s does not carry the node's identity/epoch: %+v", id, u), "tick-not-true", u)
			}
			if u.UpdateSequence <= last {
				im.Violate("own updates do not carry strictly increasing sequence numbers", "tick-sequence", u)
			}
			last = u.UpdateSequence
			if fmt.Sprint(u.Connections) != fmt.Sprint(want) {
				im.Violate(fmt.Sprintf("own update lists %v, the connections are %v", u.Connections, want), "tick-not-true", u)
			}
			ids[u.UpdateID] = true
		}
		if len(us) > ticks {
			ticks = len(us)
		}
	}
	for id := range want {
		if len(perConn[id]) != ticks {
			im.Violate(fmt.Sprintf("connection %s received %d of %d own updates", id, len(perConn[id]), ticks), "tick-not-to-all", nil)
		}
	}
	if len(ids) != ticks {
		im.Violate("two own updates share an UpdateID", "tick-id-reused", nil)
	}
	im.Hist("tick-truth:own-updates-observed")
	im.Extra["own_updates_observed"] = ticks
	im.Count("tick truth", ticks >= 3)
}
