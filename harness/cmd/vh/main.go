package main

import (
	"flag"
	"fmt"
	"os"
)

type Ctx struct {
	Seed   uint64
	Tier   string
	Out    string
	Replay string // path of a replay file, or ""
	Rng    *Rng
}

func (c *Ctx) Thorough() bool { return c.Tier == "thorough" }

var props = map[string]func(*Ctx){}

func main() {
	if len(os.Args) < 2 {
		fmt.Fprintln(os.Stderr, "usage: vh <property> -seed N -tier quick|thorough -out DIR [-replay FILE]")
		os.Exit(2)
	}
	prop := os.Args[1]
	fs := flag.NewFlagSet("vh", flag.ExitOnError)
	seed := fs.Uint64("seed", 1, "PRNG seed")
	tier := fs.String("tier", "quick", "quick|thorough")
	out := fs.String("out", ".", "output directory")
	replay := fs.String("replay", "", "replay file")
	_ = fs.Parse(os.Args[2:])
	f, ok := props[prop]
	if !ok {
		// helper sub-commands (child processes of the harness itself)
		if h, ok2 := helpers[prop]; ok2 {
			h(os.Args[2:])
			return
		}
		fmt.Fprintln(os.Stderr, "vh: unknown property", prop)
		os.Exit(2)
	}
	must(os.MkdirAll(*out, 0o755))
	f(&Ctx{Seed: *seed, Tier: *tier, Out: *out, Replay: *replay, Rng: NewRng(*seed)})
}

// helpers are sub-commands run as child processes (e.g. a node under test that may crash).
var helpers = map[string]func([]string){}
