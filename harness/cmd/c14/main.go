package main

// C14 — status records are updated atomically w.r.t. every other reader and writer.
//
// Two correspondences with Model/Lock.v, both on the real StatusFileData methods (public API):
//
//  (a) trace: P helper processes x G goroutines (each locked to its OS thread) run short programs
//      of UpdateFullStatus / Load on one scratch status file under ONE `strace -f -y`; the
//      system calls on `status.lock` and `status` are projected onto the model's atomic steps
//      (Lock Open Read Apply Trunc Write Unlock) and the model, run on the observed schedule,
//      must reproduce the same step sequence, the same Read results and the same final record.
//      Model-independent oracle: per-operation system-call grammar, no access to `status`
//      without holding the flock, never two holders.
//  (b) stress: M processes x G goroutines do K read-modify-write increments of a shared counter
//      and of their own counter, with concurrent Loads.  Model-independent oracle: the values of
//      the shared counter seen by the updates are exactly 0..T-1, the final counters equal the
//      number of updates applied, every Load parses and is internally whole, and equals what the
//      first `shared` updates (in the order they saw the counter) produce.  The model evaluates
//      the same order with its atomic specification (proved equal to every interleaving).

import (
	"bufio"
	"context"
	"encoding/json"
	"fmt"
	"os"
	"os/exec"
	"path/filepath"
	"regexp"
	"runtime"
	"sort"
	"strings"
	"sync"
	"syscall"
	"time"

	. "verifharness/lib"

	"github.com/ansible/receptor/pkg/netceptor"
	"github.com/ansible/receptor/pkg/workceptor"
)

func main() {
	Main("C14", runC14, map[string]func([]string){"ops": helperOps, "opsmulti": helperOpsMulti, "serve": helperServe})
}

// ---------- the record kept in the status file ----------

type rec struct {
	Shared uint64   `json:"shared"`
	Own    []uint64 `json:"own"`
	Tag    string   `json:"tag,omitempty"` // unique per write (harness device to recover the write order; not part of the model's record)
	Whole  bool     `json:"whole"`
	Why    string   `json:"why,omitempty"`
}

func pad(n uint64) string { return strings.Repeat("p", int((n*37)%211)) }

func toU(v interface{}) (uint64, bool) {
	switch x := v.(type) {
	case float64:
		return uint64(x), x >= 0 && float64(uint64(x)) == x
	case uint64:
		return x, true
	case int:
		return uint64(x), x >= 0
	case nil:
		return 0, true
	}
	return 0, false
}

func edMap(s *workceptor.StatusFileData) map[string]interface{} {
	if m, ok := s.ExtraData.(map[string]interface{}); ok && m != nil {
		return m
	}
	return map[string]interface{}{}
}

// decodeRec projects a loaded StatusFileData onto the counters and checks that it is a record
// some update wrote as a whole (all fields describe the same value of the shared counter).
// outW is the writer index of the round's STDoutWriter goroutine (-1: none).  In such rounds
// StdoutSize belongs to that writer (it is its "own counter") and nobody else touches it.
var outW = -1

func decodeRec(s *workceptor.StatusFileData, nw int) rec {
	r := rec{Own: make([]uint64, nw), Whole: true}
	fail := func(f string, a ...interface{}) {
		if r.Whole {
			r.Whole, r.Why = false, fmt.Sprintf(f, a...)
		}
	}
	ed, ok := s.ExtraData.(map[string]interface{})
	if !ok {
		fail("ExtraData is %T", s.ExtraData)
		ed = map[string]interface{}{}
	}
	r.Tag, _ = ed["tag"].(string)
	var okn bool
	if r.Shared, okn = toU(ed["shared"]); !okn {
		fail("shared counter is %v", ed["shared"])
	}
	sum := uint64(0)
	for w := 0; w < nw; w++ {
		if w == outW {
			r.Own[w] = uint64(s.StdoutSize)
			continue
		}
		if r.Own[w], okn = toU(ed[fmt.Sprintf("w%d", w)]); !okn {
			fail("own counter %d is %v", w, ed[fmt.Sprintf("w%d", w)])
		}
		sum += r.Own[w]
	}
	if s.WorkType != "c14" || s.State != 1 {
		fail("WorkType=%q State=%d", s.WorkType, s.State)
	}
	if outW < 0 && uint64(s.StdoutSize) != r.Shared {
		fail("StdoutSize=%d but shared=%d", s.StdoutSize, r.Shared)
	}
	if s.Detail != pad(r.Shared) {
		fail("Detail has length %d, expected %d for shared=%d", len(s.Detail), len(pad(r.Shared)), r.Shared)
	}
	if sum != r.Shared {
		fail("own counters sum to %d but shared=%d", sum, r.Shared)
	}
	return r
}

func zeroStatus(nw int) *workceptor.StatusFileData {
	ed := map[string]interface{}{"shared": 0, "tag": "init"}
	for w := 0; w < nw; w++ {
		ed[fmt.Sprintf("w%d", w)] = 0
	}
	return &workceptor.StatusFileData{State: 1, WorkType: "c14", Detail: pad(0), ExtraData: ed}
}

// ---------- helper process: runs goroutine programs on the real methods ----------

type gSpec struct {
	W       int    `json:"w"`       // global writer / model process index
	Ops     string `json:"ops"`     // 'U' = UpdateFullStatus(increment), 'L' = Load, 'S' = Save of the in-memory record
	Persist bool   `json:"persist"` // keep one StatusFileData for the whole program (like the runner)
}

type hSpec struct {
	File       string  `json:"file"`
	NW         int     `json:"nw"`
	Gs         []gSpec `json:"gs"`
	Out        int     `json:"out"` // 1 + writer index of the STDoutWriter goroutine, 0 if none
	LockThread bool    `json:"lockthread"`
	Marker     bool    `json:"marker"`
	StartAt    int64   `json:"start_at"`
}

type opRes struct {
	Kind string `json:"k"`
	Seen *rec   `json:"seen,omitempty"` // U: the record the callback was given; L: the record loaded; S: the record saved
	Tag  string `json:"tag,omitempty"`  // U, S: the tag written
	Ts   int64  `json:"ts,omitempty"`   // U: clock inside the callback, i.e. inside the critical section
	Err  string `json:"err,omitempty"`
	T0   int64  `json:"t0"`
	T1   int64  `json:"t1"`
}

type hReport struct {
	Pid  int       `json:"pid"`
	Tids []int     `json:"tids"`
	Res  [][]opRes `json:"res"`
}

const markerFd = 999

func helperOps(args []string) {
	b, err := os.ReadFile(args[0])
	Must(err)
	var sp hSpec
	Must(json.Unmarshal(b, &sp))
	outW = sp.Out - 1
	// error paths of the StatusFileData methods log through workceptor.MainInstance
	nc := netceptor.New(context.Background(), "c14helper")
	w, err := workceptor.New(context.Background(), nc, filepath.Join(filepath.Dir(sp.File), "helper-data"))
	Must(err)
	workceptor.MainInstance = w
	rep := hReport{Pid: os.Getpid(), Tids: make([]int, len(sp.Gs)), Res: make([][]opRes, len(sp.Gs))}
	var ready, done sync.WaitGroup
	ready.Add(len(sp.Gs))
	done.Add(len(sp.Gs))
	start := make(chan struct{})
	for gi := range sp.Gs {
		go func(gi int) {
			defer done.Done()
			g := sp.Gs[gi]
			if sp.LockThread {
				runtime.LockOSThread()
			}
			rep.Tids[gi] = syscall.Gettid()
			ready.Done()
			<-start
			key := fmt.Sprintf("w%d", g.W)
			persist := &workceptor.StatusFileData{}
			opn := 0
			var sw *workceptor.STDoutWriter
			for _, c := range g.Ops {
				sfd := persist
				if !g.Persist {
					sfd = &workceptor.StatusFileData{}
				}
				opn++
				res := opRes{Kind: string(c), T0: time.Now().UnixNano()}
				switch c {
				case 'W':
					// the in-process stdout path of the Kubernetes/Python work types:
					// STDoutWriter.Write -> saveStdoutSize(unitdir, bytes written so far)
					if sw == nil {
						var err error
						if sw, err = workceptor.NewStdoutWriter(workceptor.FileSystem{}, filepath.Dir(sp.File)); err != nil {
							res.Err = err.Error()
							break
						}
					}
					if _, err := sw.Write([]byte(strings.Repeat("o", 1+opn%5))); err != nil {
						res.Err = err.Error()
					}
					res.Seen = &rec{Shared: uint64(sw.Size())} // bytes written so far
				case 'S':
					// Save writes the receiver as it is; the helper only stamps a fresh tag (and, for a
					// receiver that never held a record, the fields of the zero counters)
					ed := edMap(sfd)
					sh, _ := toU(ed["shared"])
					res.Tag = fmt.Sprintf("s%d.%d.%d", g.W, os.Getpid(), opn)
					ed["tag"] = res.Tag
					sfd.ExtraData, sfd.State, sfd.WorkType = ed, 1, "c14"
					sfd.StdoutSize, sfd.Detail = int64(sh), pad(sh)
					r := decodeRec(sfd, sp.NW)
					res.Seen = &r
					if err := sfd.Save(sp.File); err != nil {
						res.Err = err.Error()
					}
				case 'U':
					res.Tag = fmt.Sprintf("u%d.%d.%d", g.W, os.Getpid(), opn)
					err := sfd.UpdateFullStatus(sp.File, func(s *workceptor.StatusFileData) {
						res.Ts = time.Now().UnixNano()
						if s.WorkType != "" {
							r := decodeRec(s, sp.NW)
							res.Seen = &r
						}
						if sp.Marker {
							_, _ = syscall.Seek(markerFd, int64(g.W), 0)
						}
						ed := edMap(s)
						sh, _ := toU(ed["shared"])
						own, _ := toU(ed[key])
						ed["shared"], ed[key], ed["tag"] = sh+1, own+1, res.Tag
						s.ExtraData, s.State, s.WorkType = ed, 1, "c14"
						s.Detail = pad(sh + 1)
						if outW < 0 {
							s.StdoutSize = int64(sh + 1)
						}
					})
					if err != nil {
						res.Err = err.Error()
					}
				case 'L':
					if err := sfd.Load(sp.File); err != nil {
						res.Err = err.Error()
						if os.IsNotExist(err) {
							res.Err = "ENOENT"
						}
					} else {
						r := decodeRec(sfd, sp.NW)
						res.Seen = &r
					}
				}
				res.T1 = time.Now().UnixNano()
				rep.Res[gi] = append(rep.Res[gi], res)
			}
		}(gi)
	}
	ready.Wait()
	for time.Now().UnixNano() < sp.StartAt {
		time.Sleep(50 * time.Microsecond)
	}
	close(start)
	done.Wait()
	out, _ := json.Marshal(rep)
	_, _ = os.Stdout.Write(append(out, '\n'))
}

// helperOpsMulti starts one "ops" helper per spec file (so that one strace -f sees them all) and
// stores each report next to its spec.
func helperOpsMulti(args []string) {
	var wg sync.WaitGroup
	for _, sf := range args {
		wg.Add(1)
		go func(sf string) {
			defer wg.Done()
			cmd := exec.Command(os.Args[0], "ops", sf)
			out, err := cmd.Output()
			if err != nil {
				out = []byte(fmt.Sprintf(`{"error":%q}`, err.Error()))
			}
			_ = os.WriteFile(sf+".out", out, 0o600)
		}(sf)
	}
	wg.Wait()
}

// ---------- generation ----------

type round struct {
	Dir     string
	File    string
	NW      int
	Specs   []hSpec
	Precre  bool // the file holds the zero record before the run
	Out     int  // 1 + writer index of the STDoutWriter goroutine, 0 if none
	Reports []hReport
}

func genRound(r *Rng, dir string, procs, gor, nops, loadPct, savePct int, lockThread, marker bool) *round {
	rd := &round{Dir: dir, File: filepath.Join(dir, "status"), NW: procs * gor, Precre: r.Chance(60) || savePct > 0}
	w := 0
	for p := 0; p < procs; p++ {
		sp := hSpec{File: rd.File, NW: rd.NW, LockThread: lockThread, Marker: marker}
		for g := 0; g < gor; g++ {
			n := nops/2 + r.Intn(nops/2+1)
			pct := loadPct
			if r.Chance(20) {
				pct = 90 // a mostly-reading goroutine (the daemon's monitor)
			}
			var sb strings.Builder
			saver := savePct > 0 && r.Chance(60)
			for i := 0; i < n; i++ {
				switch {
				case saver && i > 0 && r.Chance(savePct):
					sb.WriteByte('S') // like BaseWorkUnit.Save: rewrite what this goroutine last read or wrote
				case r.Chance(pct):
					sb.WriteByte('L')
				default:
					sb.WriteByte('U')
				}
			}
			sp.Gs = append(sp.Gs, gSpec{W: w, Ops: sb.String(), Persist: r.Bool() || saver})
			w++
		}
		rd.Specs = append(rd.Specs, sp)
	}
	return rd
}

func (rd *round) prepare() []string {
	Must(os.MkdirAll(rd.Dir, 0o700))
	if rd.Precre {
		Must(zeroStatus(rd.NW).Save(rd.File))
	}
	start := time.Now().Add(150 * time.Millisecond).UnixNano()
	var files []string
	for i := range rd.Specs {
		rd.Specs[i].StartAt = start
		b, _ := json.Marshal(rd.Specs[i])
		f := filepath.Join(rd.Dir, fmt.Sprintf("spec%d.json", i))
		Must(os.WriteFile(f, b, 0o600))
		files = append(files, f)
	}
	return files
}

func (rd *round) collect(files []string) error {
	for _, f := range files {
		b, err := os.ReadFile(f + ".out")
		if err != nil {
			return err
		}
		var rep hReport
		if err := json.Unmarshal(b, &rep); err != nil || rep.Pid == 0 {
			return fmt.Errorf("helper report %s: %v %s", f, err, strings.TrimSpace(string(b)))
		}
		rd.Reports = append(rd.Reports, rep)
	}
	return nil
}

func (rd *round) finalRec() (*rec, error) {
	s := &workceptor.StatusFileData{}
	if err := s.Load(rd.File); err != nil {
		return nil, err
	}
	r := decodeRec(s, rd.NW)
	return &r, nil
}

func (rd *round) progs() map[string]interface{} {
	p := map[string]interface{}{"precreated": rd.Precre, "nw": rd.NW}
	var gs []string
	for _, sp := range rd.Specs {
		var one []string
		for _, g := range sp.Gs {
			one = append(one, fmt.Sprintf("w%d:%s", g.W, g.Ops))
		}
		gs = append(gs, strings.Join(one, ","))
	}
	p["programs_per_process"] = gs
	return p
}

// ---------- Coq printing ----------

func coqRec(r *rec) string {
	own := make([]string, len(r.Own))
	for i, x := range r.Own {
		own[i] = CoqN(x)
	}
	return fmt.Sprintf("(%d, %s)", r.Shared, CoqList(own))
}

func coqOptRec(r *rec) string {
	if r == nil {
		return "None"
	}
	return "(Some " + coqRec(r) + ")"
}

func (rd *round) coqFile0() string {
	if rd.Precre {
		return coqOptRec(&rec{Own: make([]uint64, rd.NW)})
	}
	return "None"
}

// ---------- (b) stress ----------

func runStress(c *Ctx, im *Impl, cf *CaseFile, rd *round, idx int) {
	files := rd.prepare()
	var wg sync.WaitGroup
	errs := make([]error, len(files))
	for i, f := range files {
		wg.Add(1)
		go func(i int, f string) {
			defer wg.Done()
			ctx, cancel := context.WithTimeout(context.Background(), 300*time.Second)
			defer cancel()
			out, err := exec.CommandContext(ctx, os.Args[0], "ops", f).Output()
			if err != nil {
				errs[i] = fmt.Errorf("helper %d: %v", i, err)
			}
			_ = os.WriteFile(f+".out", out, 0o600)
		}(i, f)
	}
	wg.Wait()
	replay := rd.progs()
	replay["kind"] = "stress"
	for _, e := range errs {
		if e != nil {
			im.Violate("helper process died during concurrent status updates: "+e.Error(), "c14-helper-died", replay)
			return
		}
	}
	if err := rd.collect(files); err != nil {
		im.Violate("helper report unreadable: "+err.Error(), "c14-helper-died", replay)
		return
	}
	// ---- the writes, by tag ----
	type write struct {
		tag, pre string // pre: tag of the record an update started from ("" for a Save)
		w, proc  int
		save     bool
		post     rec // the record written
		ts       int64
		next     *write // the update that started from this write
	}
	sameCounters := func(a, b *rec) bool {
		if a.Shared != b.Shared || len(a.Own) != len(b.Own) {
			return false
		}
		for i := range a.Own {
			if a.Own[i] != b.Own[i] {
				return false
			}
		}
		return true
	}
	zero := rec{Own: make([]uint64, rd.NW), Tag: "init", Whole: true}
	if !rd.Precre {
		zero.Tag = ""
	}
	writes := map[string]*write{}
	var updates []*write
	type seenAt struct {
		r   *rec
		who string
	}
	var loads []seenAt
	nUpdBy := make([]uint64, rd.NW)
	nSaves := 0
	firstDone := int64(1<<62 - 1)
	for _, rep := range rd.Reports {
		for _, rs := range rep.Res {
			for _, o := range rs {
				if (o.Kind == "U" || o.Kind == "S") && o.Err == "" && o.T1 < firstDone {
					firstDone = o.T1
				}
			}
		}
	}
	bad := false
	violate := func(what, sig string) {
		bad = true
		im.Violate(what, sig, replay)
	}
	for pi, rep := range rd.Reports {
		for gi, rs := range rep.Res {
			w := rd.Specs[pi].Gs[gi].W
			mem := zero // what this goroutine's StatusFileData holds (persistent receivers only)
			persist := rd.Specs[pi].Gs[gi].Persist
			for oi, o := range rs {
				who := fmt.Sprintf("operation %d (%s) of writer %d", oi, o.Kind, w)
				switch o.Kind {
				case "U":
					if o.Err != "" {
						violate("UpdateFullStatus failed under concurrency ("+who+"): "+o.Err, "c14-update-error")
						continue
					}
					pre := zero
					if o.Seen != nil {
						pre = *o.Seen
						if !o.Seen.Whole {
							violate("an update was handed a torn record ("+who+"): "+o.Seen.Why, "c14-torn-read")
						}
					} else if rd.Precre {
						violate("an update found the status file empty although a record had been stored ("+who+")", "c14-torn-read")
					}
					post := rec{Shared: pre.Shared + 1, Own: append([]uint64{}, pre.Own...), Tag: o.Tag, Whole: true}
					post.Own[w]++
					wr := &write{tag: o.Tag, pre: pre.Tag, w: w, proc: pi, post: post, ts: o.Ts}
					writes[o.Tag] = wr
					updates = append(updates, wr)
					nUpdBy[w]++
					if o.Seen != nil {
						loads = append(loads, seenAt{&pre, who})
					}
					mem = post
				case "S":
					nSaves++
					if o.Err != "" {
						violate("Save failed under concurrency ("+who+"): "+o.Err, "c14-update-error")
						continue
					}
					// a Save writes the saver's in-memory record: what it last read or wrote
					if persist && !sameCounters(o.Seen, &mem) {
						violate(fmt.Sprintf("%s saved shared=%d own=%v but its in-memory record was shared=%d own=%v", who, o.Seen.Shared, o.Seen.Own, mem.Shared, mem.Own), "c14-save-not-in-memory-record")
					}
					post := *o.Seen
					writes[o.Tag] = &write{tag: o.Tag, w: w, proc: pi, save: true, post: post}
					mem = post
				case "L":
					if o.Err != "" {
						if o.Err == "ENOENT" && !rd.Precre && o.T0 < firstDone {
							im.Hist("stress:load-before-file-exists")
							continue
						}
						violate(fmt.Sprintf("a concurrent Load failed (%s, process %d): %s", who, pi, o.Err), "c14-load-error")
						continue
					}
					if !o.Seen.Whole {
						violate("a concurrent Load returned a torn record ("+who+"): "+o.Seen.Why, "c14-torn-read")
					}
					loads = append(loads, seenAt{o.Seen, who})
					mem = *o.Seen
				}
			}
		}
	}
	// ---- every record anybody was given is exactly a record somebody wrote ----
	lookup := func(tag string) *rec {
		if tag == zero.Tag {
			return &zero
		}
		if w := writes[tag]; w != nil {
			return &w.post
		}
		return nil
	}
	for _, l := range loads {
		if !l.r.Whole {
			continue
		}
		if wr := lookup(l.r.Tag); wr == nil || !sameCounters(wr, l.r) {
			violate(fmt.Sprintf("%s was given the record shared=%d own=%v tag=%q, which nobody wrote", l.who, l.r.Shared, l.r.Own, l.r.Tag), "c14-load-not-a-prefix")
		}
	}
	// ---- no two updates started from the same record (a Save re-writes under a fresh tag) ----
	heads := map[string]*write{}
	for _, u := range updates {
		if prev, dup := heads[u.pre]; dup {
			violate(fmt.Sprintf("lost update: writers %d and %d both started from the record tagged %q (shared=%d): one of the two increments is gone", prev.w, u.w, u.pre, u.post.Shared-1), "c14-lost-update")
			continue
		}
		heads[u.pre] = u
		if p := writes[u.pre]; p != nil {
			p.next = u
		}
	}
	fin, err := rd.finalRec()
	if err != nil {
		if len(writes) > 0 || rd.Precre {
			im.Violate("final record unreadable: "+err.Error(), "c14-final-unreadable", replay)
		}
		return
	}
	if !fin.Whole {
		violate("final record is torn: "+fin.Why, "c14-torn-read")
	}
	if wr := lookup(fin.Tag); wr == nil || !sameCounters(wr, fin) {
		violate(fmt.Sprintf("the final record shared=%d own=%v tag=%q is not a record anybody wrote", fin.Shared, fin.Own, fin.Tag), "c14-load-not-a-prefix")
	} else if heads[fin.Tag] != nil {
		violate(fmt.Sprintf("the final record (tag %q) is the one writer %d's update started from: that update's write is gone", fin.Tag, heads[fin.Tag].w), "c14-lost-update")
	}
	T := uint64(len(updates))
	if nSaves == 0 && !bad {
		// without Saves nothing may roll the counters back
		if fin.Shared != T {
			violate(fmt.Sprintf("final shared counter %d after %d updates", fin.Shared, T), "c14-lost-update")
		}
		for w := range nUpdBy {
			if fin.Own[w] != nUpdBy[w] {
				violate(fmt.Sprintf("writer %d applied %d updates but its own counter is %d (wiped by another writer)", w, nUpdBy[w], fin.Own[w]), "c14-field-wiped")
			}
		}
	}
	// ---- segments: the initial record or a Save, followed by the chain of updates built on it ----
	type segment struct {
		start *rec
		chain []*write
	}
	var segs []segment
	addSeg := func(start *rec, first *write) {
		sg := segment{start: start}
		for u := first; u != nil; u = u.next {
			sg.chain = append(sg.chain, u)
		}
		segs = append(segs, sg)
	}
	addSeg(&zero, heads[zero.Tag])
	var saveTags []string
	for tag, w := range writes {
		if w.save {
			saveTags = append(saveTags, tag)
		}
	}
	sort.Strings(saveTags)
	observedSaves := 0
	for _, tag := range saveTags {
		w := writes[tag]
		if w.next != nil {
			observedSaves++
			addSeg(&w.post, w.next)
		} else if tag == fin.Tag {
			addSeg(&w.post, nil)
		}
	}
	covered := 0
	alternations := 0
	distinctPrefixes := map[string]bool{}
	for si, sg := range segs {
		covered += len(sg.chain)
		order := make([]string, len(sg.chain))
		inSeg := map[string]bool{sg.start.Tag: true}
		for i, u := range sg.chain {
			order[i] = CoqNat(u.w)
			inSeg[u.tag] = true
			if i > 0 && sg.chain[i-1].proc != u.proc {
				alternations++
			}
		}
		last := sg.start
		if len(sg.chain) > 0 {
			last = &sg.chain[len(sg.chain)-1].post
		}
		var coqLoads []string
		for _, l := range loads {
			if l.r.Whole && inSeg[l.r.Tag] && len(coqLoads) < 400 {
				coqLoads = append(coqLoads, coqRec(l.r))
				if l.r.Tag != sg.start.Tag && l.r.Tag != last.Tag {
					distinctPrefixes[l.r.Tag] = true
				}
			}
		}
		start := coqOptRec(sg.start)
		if sg.start.Tag == "" {
			start = "None"
		}
		if len(sg.chain) == 0 && len(coqLoads) == 0 {
			continue
		}
		cf.Add(fmt.Sprintf("CStress %s %s %s %s %s", CoqNat(rd.NW), start, CoqList(order), coqRec(last), CoqList(coqLoads)),
			fmt.Sprintf("stress round %d segment %d: starts from tag %q (shared=%d), %d updates, %d records seen", idx, si, sg.start.Tag, sg.start.Shared, len(sg.chain), len(coqLoads)))
	}
	if covered != len(updates) && !bad {
		violate(fmt.Sprintf("%d of %d updates do not continue the initial record, a Save or another update", len(updates)-covered, len(updates)), "c14-lost-update")
	}
	nontrivial := alternations >= len(updates)/10 && len(distinctPrefixes) >= 3 && len(rd.Specs) >= 2 && !bad
	label := fmt.Sprintf("stress round %d: %d processes, %d writers, %d updates, %d saves (%d built upon), %d records seen, %d cross-process alternations", idx, len(rd.Specs), rd.NW, T, nSaves, observedSaves, len(loads), alternations)
	im.Count(label, nontrivial)
	im.Hist(fmt.Sprintf("stress:processes=%d", len(rd.Specs)))
	im.Hist(fmt.Sprintf("stress:precreated=%v", rd.Precre))
	if nSaves > 0 {
		im.Hist("stress:with-saves")
	}
	if nontrivial {
		im.Hist("stress:contended")
	} else {
		im.Hist("stress:little-contention")
	}
	c14Totals.updates += int(T)
	c14Totals.loads += len(loads)
	c14Totals.saves += nSaves
	c14Totals.alternations += alternations
	im.Sample(map[string]interface{}{"kind": "stress", "round": rd.progs(), "updates": T, "saves": nSaves, "records_seen": len(loads), "final": fin, "cross_process_alternations": alternations})
}

// genOutRound: a round with the in-process stdout path: one goroutine is the unit's STDoutWriter
// (only 'W' operations), the others update and load.
func genOutRound(r *Rng, dir string, procs, gor, nops int) *round {
	rd := &round{Dir: dir, File: filepath.Join(dir, "status"), NW: procs * gor, Precre: true}
	rd.Out = 1 + r.Intn(rd.NW)
	w := 0
	for p := 0; p < procs; p++ {
		sp := hSpec{File: rd.File, NW: rd.NW, Out: rd.Out}
		for g := 0; g < gor; g++ {
			n := nops/2 + r.Intn(nops/2+1)
			var sb strings.Builder
			for i := 0; i < n; i++ {
				switch {
				case w == rd.Out-1:
					sb.WriteByte('W')
				case r.Chance(25):
					sb.WriteByte('L')
				default:
					sb.WriteByte('U') // like UpdateBasicStatus of the unit's monitor: changes everything but the size
				}
			}
			sp.Gs = append(sp.Gs, gSpec{W: w, Ops: sb.String(), Persist: r.Bool()})
			w++
		}
		rd.Specs = append(rd.Specs, sp)
	}
	return rd
}

func runStressOut(c *Ctx, im *Impl, cf *CaseFile, rd *round, idx int) {
	outW = rd.Out - 1
	defer func() { outW = -1 }()
	files := rd.prepare()
	var wg sync.WaitGroup
	errs := make([]error, len(files))
	for i, f := range files {
		wg.Add(1)
		go func(i int, f string) {
			defer wg.Done()
			ctx, cancel := context.WithTimeout(context.Background(), 300*time.Second)
			defer cancel()
			out, err := exec.CommandContext(ctx, os.Args[0], "ops", f).Output()
			if err != nil {
				errs[i] = fmt.Errorf("helper %d: %v", i, err)
			}
			_ = os.WriteFile(f+".out", out, 0o600)
		}(i, f)
	}
	wg.Wait()
	replay := rd.progs()
	replay["kind"], replay["stdout_writer"] = "stress with STDoutWriter", outW
	for _, e := range errs {
		if e != nil {
			im.Violate("helper process died during concurrent status updates: "+e.Error(), "c14-helper-died", replay)
			return
		}
	}
	if err := rd.collect(files); err != nil {
		im.Violate("helper report unreadable: "+err.Error(), "c14-helper-died", replay)
		return
	}
	bad := false
	violate := func(what, sig string) {
		bad = true
		im.Violate(what, sig, replay)
	}
	type upd struct {
		w, proc int
		pre     rec
	}
	var upds []upd
	var seen []*rec
	var sizes []uint64 // cumulative bytes after each Write, in program order
	nUpdBy := make([]uint64, rd.NW)
	for pi, rep := range rd.Reports {
		for gi, rs := range rep.Res {
			w := rd.Specs[pi].Gs[gi].W
			for oi, o := range rs {
				who := fmt.Sprintf("operation %d (%s) of writer %d", oi, o.Kind, w)
				if o.Err != "" {
					sig := map[string]string{"U": "c14-update-error", "W": "c14-update-error", "L": "c14-load-error"}[o.Kind]
					violate(who+" failed under concurrency: "+o.Err, sig)
					continue
				}
				switch o.Kind {
				case "W":
					sizes = append(sizes, o.Seen.Shared)
				case "U":
					if o.Seen == nil {
						violate("an update found the status file empty although a record had been stored ("+who+")", "c14-torn-read")
						continue
					}
					if !o.Seen.Whole {
						violate("an update was handed a torn record ("+who+"): "+o.Seen.Why, "c14-torn-read")
					}
					upds = append(upds, upd{w, pi, *o.Seen})
					nUpdBy[w]++
					seen = append(seen, o.Seen)
				case "L":
					if !o.Seen.Whole {
						violate("a concurrent Load returned a torn record ("+who+"): "+o.Seen.Why, "c14-torn-read")
					}
					seen = append(seen, o.Seen)
				}
			}
		}
	}
	sort.SliceStable(upds, func(i, j int) bool { return upds[i].pre.Shared < upds[j].pre.Shared })
	T := uint64(len(upds))
	for i, u := range upds {
		if u.pre.Shared != uint64(i) {
			violate(fmt.Sprintf("lost update: %d updates applied but the %d-th smallest value of the shared counter an update started from is %d (an increment was overwritten by a stale record)", T, i, u.pre.Shared), "c14-lost-update")
			break
		}
		if i > 0 && u.pre.Own[outW] < upds[i-1].pre.Own[outW] {
			violate(fmt.Sprintf("StdoutSize went back from %d to %d between two consecutive updates", upds[i-1].pre.Own[outW], u.pre.Own[outW]), "c14-lost-update")
		}
	}
	fin, err := rd.finalRec()
	if err != nil {
		im.Violate("final record unreadable: "+err.Error(), "c14-final-unreadable", replay)
		return
	}
	if !fin.Whole {
		violate("final record is torn: "+fin.Why, "c14-torn-read")
	}
	total := uint64(0)
	if len(sizes) > 0 {
		total = sizes[len(sizes)-1]
	}
	if !bad {
		if fin.Shared != T {
			violate(fmt.Sprintf("final shared counter %d after %d updates: saveStdoutSize or an update overwrote an increment", fin.Shared, T), "c14-lost-update")
		}
		for w := range nUpdBy {
			if w != outW && fin.Own[w] != nUpdBy[w] {
				violate(fmt.Sprintf("writer %d applied %d updates but its own counter is %d (wiped by another writer)", w, nUpdBy[w], fin.Own[w]), "c14-field-wiped")
			}
		}
		if fin.Own[outW] != total {
			violate(fmt.Sprintf("StdoutSize ends as %d but %d bytes were written through the STDoutWriter", fin.Own[outW], total), "c14-field-wiped")
		}
	}
	// the order of all writes: increments by the counter they saw, every saveStdoutSize before the
	// first increment that saw its size
	var order []string
	k := 0
	emitW := func(upTo uint64) {
		for k < len(sizes) && sizes[k] <= upTo {
			order = append(order, fmt.Sprintf("(%s, Some %d)", CoqNat(outW), sizes[k]))
			k++
		}
	}
	alternations := 0
	for i, u := range upds {
		emitW(u.pre.Own[outW])
		order = append(order, fmt.Sprintf("(%s, None)", CoqNat(u.w)))
		if i > 0 && upds[i-1].proc != u.proc {
			alternations++
		}
	}
	emitW(^uint64(0))
	var coqSeen []string
	for _, r := range seen {
		if r.Whole && len(coqSeen) < 500 {
			coqSeen = append(coqSeen, coqRec(r))
		}
	}
	label := fmt.Sprintf("stress round %d with STDoutWriter (writer %d): %d processes, %d updates, %d stdout writes (%d bytes), %d records seen, %d cross-process alternations", idx, outW, len(rd.Specs), T, len(sizes), total, len(seen), alternations)
	cf.Add(fmt.Sprintf("CStressO %s %s %s %s %s", CoqNat(rd.NW), rd.coqFile0(), CoqList(order), coqRec(fin), CoqList(coqSeen)), label)
	// non-trivial: size writes really fall between the increments
	interleaved := 0
	for i := 1; i < len(upds); i++ {
		if upds[i].pre.Own[outW] != upds[i-1].pre.Own[outW] {
			interleaved++
		}
	}
	im.Count(label, interleaved >= 3 && alternations >= len(upds)/10 && !bad)
	im.Hist("stress:with-stdout-writer")
	c14Totals.updates += int(T)
	c14Totals.loads += len(seen)
	c14Totals.outWrites += len(sizes)
	c14Totals.alternations += alternations
	if idx < 1 {
		im.Sample(map[string]interface{}{"kind": "stress with STDoutWriter", "round": rd.progs(), "updates": T, "stdout_writes": len(sizes), "bytes": total, "final": fin})
	}
}

var c14Totals struct{ updates, loads, saves, outWrites, alternations, traceEvents, blockedLocks int }

// ---------- (a) strace ----------

type tev struct {
	tid  int
	kind string // lockopen lock locktrunc open-rw open-ro open-fail seek-end seek-set read marker trunc write close-status unlock close-lock
	ret  string
	line int
}

var (
	reHead  = regexp.MustCompile(`^(\d+)\s+(.*)$`)
	reResum = regexp.MustCompile(`^<\.\.\. (\w+) resumed>(.*)$`)
	reRet   = regexp.MustCompile(`^(.*)\)\s+= (.*)$`)
)

// classify one system call (text = "name(args" possibly with ") = ret").
func classify(text, dir string) (kind, ret string) {
	i := strings.Index(text, "(")
	if i < 0 {
		return "", ""
	}
	name, rest := text[:i], text[i+1:]
	if m := reRet.FindStringSubmatch(rest); m != nil {
		rest, ret = m[1], strings.TrimSpace(m[2])
	}
	lockP, statP := dir+"/status.lock", dir+"/status"
	fdIs := func(p string) bool { return strings.Contains(rest, "<"+p+">") }
	switch name {
	case "openat":
		switch {
		case strings.Contains(rest, `"`+lockP+`"`):
			return "lockopen", ret
		case strings.Contains(rest, `"`+statP+`"`):
			if strings.HasPrefix(ret, "-1") {
				return "open-fail", ret
			}
			if strings.Contains(rest, "O_TRUNC") {
				return "open-trunc", ret
			}
			if strings.Contains(rest, "O_RDWR") {
				return "open-rw", ret
			}
			return "open-ro", ret
		}
	case "flock":
		if fdIs(lockP) {
			if strings.Contains(rest, "LOCK_UN") {
				return "unlock", ret
			}
			if strings.Contains(rest, "LOCK_EX") {
				if ret != "" && ret != "0" {
					// interrupted by a signal (ERESTARTSYS / EINTR): the call is made again
					return "", ""
				}
				return "lock", ret
			}
			return "flock-other", ret
		}
	case "ftruncate":
		if fdIs(lockP) {
			return "locktrunc", ret
		}
		if fdIs(statP) {
			return "trunc", ret
		}
	case "lseek":
		if strings.HasPrefix(rest, fmt.Sprintf("%d,", markerFd)) {
			return "marker", ret
		}
		if fdIs(statP) {
			if strings.Contains(rest, "SEEK_END") {
				return "seek-end", ret
			}
			return "seek-set", ret
		}
	case "read":
		if fdIs(statP) {
			return "read", ret
		}
	case "write":
		if fdIs(statP) {
			return "write", ret
		}
		if fdIs(lockP) {
			return "write-lockfile", ret
		}
	case "close":
		if fdIs(statP) {
			return "close-status", ret
		}
		if fdIs(lockP) {
			return "close-lock", ret
		}
	}
	return "", ""
}

func parseStrace(path, dir string) ([]tev, int, error) {
	f, err := os.Open(path)
	if err != nil {
		return nil, 0, err
	}
	defer f.Close()
	var evs []tev
	pending := map[int]string{}
	emitted := map[int]bool{}
	blocked := 0
	sc := bufio.NewScanner(f)
	sc.Buffer(make([]byte, 1<<20), 1<<24)
	ln := 0
	for sc.Scan() {
		ln++
		m := reHead.FindStringSubmatch(sc.Text())
		if m == nil {
			continue
		}
		tid := 0
		fmt.Sscanf(m[1], "%d", &tid)
		body := m[2]
		switch {
		case strings.HasSuffix(body, "<unfinished ...>"):
			entry := strings.TrimSpace(strings.TrimSuffix(body, "<unfinished ...>"))
			pending[tid] = entry
			emitted[tid] = false
			if k, _ := classify(entry, dir); k == "unlock" { // the lock is given up when the call is entered
				evs = append(evs, tev{tid, k, "", ln})
				emitted[tid] = true
			} else if k == "lock" {
				blocked++
			}
		case strings.HasPrefix(body, "<... "):
			r := reResum.FindStringSubmatch(body)
			if r == nil {
				continue
			}
			full := pending[tid] + r[2]
			delete(pending, tid)
			if emitted[tid] {
				continue
			}
			if k, ret := classify(full, dir); k != "" {
				evs = append(evs, tev{tid, k, ret, ln})
			}
		default:
			if k, ret := classify(body, dir); k != "" {
				evs = append(evs, tev{tid, k, ret, ln})
			}
		}
	}
	return evs, blocked, sc.Err()
}

// expected system-call grammar of one operation, as a small automaton over event kinds.
// Returns the model labels of the events (""/label) or the index of the first offending event.
func opGrammar(kind byte, evs []tev) (labels []string, bad int, consumed int) {
	i := 0
	next := func(k string) bool {
		if i < len(evs) && evs[i].kind == k {
			i++
			return true
		}
		return false
	}
	lab := func(l string) { labels = append(labels, l) }
	must := func(k, l string) bool {
		if !next(k) {
			return false
		}
		lab(l)
		return true
	}
	if !must("lockopen", "") || !must("lock", "SLock") || !must("locktrunc", "") {
		return labels, i, i
	}
	if kind == 'S' {
		if !must("open-trunc", "SOpenTrunc") || !must("write", "SWrite") || !must("close-status", "") ||
			!must("unlock", "SUnlock") || !must("close-lock", "") {
			return labels, i, i
		}
		return labels, -1, i
	}
	if kind == 'U' {
		if !must("open-rw", "SOpen") || !must("seek-end", "SRead") {
			return labels, i, i
		}
		size := evs[i-1].ret
		if !must("seek-set", "") {
			return labels, i, i
		}
		nread := 0
		for next("read") {
			lab("")
			nread++
		}
		if (size == "0") != (nread == 0) {
			return labels, i, i
		}
		if !must("marker", "SApply") || !must("seek-set", "") || !must("trunc", "STrunc") || !must("write", "SWrite") ||
			!must("close-status", "") || !must("unlock", "SUnlock") || !must("close-lock", "") {
			return labels, i, i
		}
		return labels, -1, i
	}
	if next("open-fail") {
		lab("SOpen+SRead")
		if !must("unlock", "SUnlock") || !must("close-lock", "") {
			return labels, i, i
		}
		return labels, -1, i
	}
	if !must("open-ro", "SOpen") || !must("read", "SRead") {
		return labels, i, i
	}
	for next("read") {
		lab("")
	}
	if !must("close-status", "") || !must("unlock", "SUnlock") || !must("close-lock", "") {
		return labels, i, i
	}
	return labels, -1, i
}

func runTrace(c *Ctx, im *Impl, cf *CaseFile, rd *round, idx int) {
	files := rd.prepare()
	tr := filepath.Join(rd.Dir, "strace.txt")
	ctx, cancel := context.WithTimeout(context.Background(), 120*time.Second)
	defer cancel()
	args := append([]string{"-f", "-y", "-qq", "-e", "signal=none", "-o", tr,
		"-e", "trace=openat,flock,read,write,ftruncate,lseek,close", os.Args[0], "opsmulti"}, files...)
	out, err := exec.CommandContext(ctx, "strace", args...).CombinedOutput()
	replay := rd.progs()
	replay["kind"] = "trace"
	if err != nil {
		im.Violate(fmt.Sprintf("traced helpers failed: %v %s", err, strings.TrimSpace(string(out))), "c14-helper-died", replay)
		return
	}
	if err := rd.collect(files); err != nil {
		im.Violate("helper report unreadable: "+err.Error(), "c14-helper-died", replay)
		return
	}
	evs, blocked, err := parseStrace(tr, rd.Dir)
	Must(err)
	// thread -> model process, program and reported results
	type gor struct {
		q   int
		ops string
		res []opRes
		evs []int // indices into evs
	}
	byTid := map[int]*gor{}
	var gors []*gor
	for pi, rep := range rd.Reports {
		for gi, tid := range rep.Tids {
			g := &gor{q: rd.Specs[pi].Gs[gi].W, ops: rd.Specs[pi].Gs[gi].Ops, res: rep.Res[gi]}
			byTid[tid] = g
			gors = append(gors, g)
		}
	}
	labelOf := make([]string, len(evs))
	for i, e := range evs {
		g := byTid[e.tid]
		if g == nil {
			im.Violate(fmt.Sprintf("status file touched by a thread that runs no program (tid %d, %s, strace line %d)", e.tid, e.kind, e.line), "c14-syscall-order", replay)
			return
		}
		g.evs = append(g.evs, i)
	}
	for _, g := range gors {
		mine := make([]tev, len(g.evs))
		for i, j := range g.evs {
			mine[i] = evs[j]
		}
		pos := 0
		for oi := 0; oi < len(g.ops); oi++ {
			labels, bad, used := opGrammar(g.ops[oi], mine[pos:])
			if bad >= 0 {
				got := "end of trace"
				if pos+bad < len(mine) {
					got = fmt.Sprintf("%s (strace line %d)", mine[pos+bad].kind, mine[pos+bad].line)
				}
				sig := "c14-syscall-order"
				if bad < 2 {
					sig = "c14-unlocked-access"
				}
				im.Violate(fmt.Sprintf("operation %d (%c) of model process %d: system calls on status/status.lock leave the expected order at call %d: got %s", oi, g.ops[oi], g.q, bad, got), sig, replay)
				return
			}
			for k, l := range labels {
				labelOf[g.evs[pos+k]] = l
			}
			pos += used
		}
		if pos != len(mine) {
			im.Violate(fmt.Sprintf("model process %d makes %d more system calls on the status file than its program explains", g.q, len(mine)-pos), "c14-syscall-order", replay)
			return
		}
	}
	// mutual exclusion + projection onto (process, step)
	holder := -1
	var obs []string
	readIdx := map[int]int{}
	var reads []string
	addRead := func(g *gor) {
		// the k-th Read step of this goroutine belongs to its k-th operation that reads (U or L)
		k := readIdx[g.q]
		for k < len(g.ops) && g.ops[k] == 'S' {
			k++
		}
		readIdx[g.q] = k + 1
		var seen *rec
		if k < len(g.res) {
			seen = g.res[k].Seen
		}
		reads = append(reads, fmt.Sprintf("(%s, %s)", CoqNat(g.q), coqOptRec(seen)))
	}
	for i, e := range evs {
		g := byTid[e.tid]
		switch e.kind {
		case "lockopen", "close-lock":
		case "lock":
			if holder != -1 {
				im.Violate(fmt.Sprintf("flock(LOCK_EX) returned for model process %d while process %d holds the lock (strace line %d)", g.q, holder, e.line), "c14-lock-not-exclusive", replay)
				return
			}
			holder = g.q
		default:
			if holder != g.q {
				im.Violate(fmt.Sprintf("model process %d does %s on the status file without holding the lock (strace line %d)", g.q, e.kind, e.line), "c14-unlocked-access", replay)
				return
			}
			if e.kind == "unlock" {
				holder = -1
			}
		}
		switch l := labelOf[i]; l {
		case "":
		case "SOpen+SRead":
			obs = append(obs, fmt.Sprintf("(%s, SOpen)", CoqNat(g.q)), fmt.Sprintf("(%s, SRead)", CoqNat(g.q)))
			addRead(g)
		default:
			obs = append(obs, fmt.Sprintf("(%s, %s)", CoqNat(g.q), l))
			if l == "SRead" {
				addRead(g)
			}
		}
	}
	for _, g := range gors {
		for oi, o := range g.res {
			if o.Err != "" && !(o.Kind == "L" && o.Err == "ENOENT" && !rd.Precre) {
				im.Violate(fmt.Sprintf("operation %d of model process %d failed: %s", oi, g.q, o.Err), "c14-update-error", replay)
			}
			if o.Seen != nil && !o.Seen.Whole {
				im.Violate("torn record: "+o.Seen.Why, "c14-torn-read", replay)
			}
		}
	}
	fin, _ := rd.finalRec()
	progs := make([]string, rd.NW)
	for _, g := range gors {
		ks := make([]string, len(g.ops))
		for i := range g.ops {
			switch g.ops[i] {
			case 'U':
				ks[i] = "KIncr"
			case 'S':
				ks[i] = "KSave"
			default:
				ks[i] = "KLoad"
			}
		}
		progs[g.q] = CoqList(ks)
	}
	label := fmt.Sprintf("trace round %d: %v, %d projected steps, %d blocked flock calls", idx, replay["programs_per_process"], len(obs), blocked)
	cf.Add(fmt.Sprintf("CTrace %s %s %s %s %s %s", CoqNat(rd.NW), rd.coqFile0(), CoqList(progs), CoqList(obs), CoqList(reads), coqOptRec(fin)), label)
	// non-trivial: the critical sections of different OS processes really interleave
	im.Count(label, blocked > 0 && len(rd.Specs) >= 2)
	im.Hist(fmt.Sprintf("trace:processes=%d", len(rd.Specs)))
	if blocked > 0 {
		im.Hist("trace:some-flock-blocked")
	}
	c14Totals.traceEvents += len(evs)
	c14Totals.blockedLocks += blocked
	if idx < 2 {
		im.Sample(map[string]interface{}{"kind": "trace", "round": rd.progs(), "steps": len(obs), "blocked_flock_calls": blocked, "final": fin})
	}
}

func runC14(c *Ctx) {
	im := NewImpl("C14", c.Seed, c.Tier)
	im.Rule = "trace rounds: 1-3 OS processes x 1-3 thread-locked goroutines run random programs of 2-6 UpdateFullStatus/Load/Save calls (two thirds of the rounds with Saves) under one strace; non-trivial = at least 2 processes and at least one flock call had to wait. stress rounds: 2-4 processes x 2-4 goroutines x 10-60 operations (about 30% Loads, some goroutines 90%; in half of the rounds 60% of the goroutines also Save what they last read or wrote, 10-20% of their operations); non-trivial = lock ownership alternates between OS processes in at least 10% of consecutive updates and Loads observed at least 3 distinct intermediate values of the shared counter. every fourth stress round is followed by a round with the in-process stdout path: one goroutine is the unit's STDoutWriter (Write -> saveStdoutSize) against 3-8 updating/loading goroutines in 2-3 processes; non-trivial = the size changed between consecutive increments at least 3 times. unit-object rounds: 2-3 processes each own ONE BaseWorkUnit for the whole round; a sequential script of 9-25 UpdateBasicStatus / UpdateFullStatus / Save / Load calls on them built from the patterns 'p sets v, q sets w, p sets v again' and 'p loads, q sets w, p saves' , two thirds of the rounds with 2-6 background goroutines incrementing counters in ExtraData through their own unit objects; non-trivial = at least 3 scripted writes and (a Save round or at least 10 background increments). shared-object rounds: one BaseWorkUnit updated by one goroutine (UpdateBasicStatus / UpdateFullStatus of a matching triple) and read by 3-4 others through Status / UnredactedStatus; non-trivial = at least one read per ten updates. load-race rounds: ONE long-lived BaseWorkUnit (3 objects x 50 rounds, thorough 12 x 250); in two thirds of the rounds the harness holds the flock on status.lock for 3-25 ms while, in a random order with gaps of 0-4 ms, 1-3 goroutines call Load() (1-2 times) and three goroutines update the SAME object 0-3 times each (UpdateBasicStatus(n) owning State/Detail, UpdateFullStatus StdoutSize++, UpdateFullStatus ExtraData.Pid++, at least one update per round), in 40% of the rounds with an outside writer (own StatusFileData, ExtraData.Params = its count) as the runner; in the other rounds the same calls race without the lock being held. After every call has returned: the stored record holds every update, the object's in-memory record equals it in every field written through the object (and is between the round's start and the stored value in the outside writer's field), an updater asking the object right after its own update is told its own value, and a Load on its own then makes the object equal to the stored record; non-trivial = at least a third of the rounds had Loads and updates of one object queued behind the held lock and in at least a quarter a Load returned after an update had. launch race on the real daemon: bursts of very short commands (/bin/true, /bin/false, echo, echo+exit 3) on a loaded scheduler, a few of them with the daemon's flock calls delayed by 350 ms (strace on the daemon's threads only); non-trivial = the runner wrote before the daemon had recorded its pid. Half of the goroutines keep one StatusFileData for their whole program, 60% of the rounds start from an existing record, the others from no file."
	cf := &CaseFile{Dir: c.Out, Prop: "C14", Imports: []string{"Model.Lock"}, CaseType: "lock_case", CheckFn: "lock_check", PerShard: 40}
	tmp, err := os.MkdirTemp("", "c14-")
	Must(err)
	if os.Getenv("C14_KEEP") == "" {
		defer os.RemoveAll(tmp)
	} else {
		fmt.Fprintln(os.Stderr, "keeping", tmp)
	}
	r := c.Rng
	nTrace, nStress, maxOps := 8, 28, 40
	if c.Thorough() {
		nTrace, nStress, maxOps = 60, 300, 120
	}
	// boundary rounds first: one process, one update and one load (the op sequence itself)
	{
		rd := &round{Dir: filepath.Join(tmp, "t-first"), NW: 1, Precre: true}
		rd.File = filepath.Join(rd.Dir, "status")
		rd.Specs = []hSpec{{File: rd.File, NW: 1, LockThread: true, Marker: true, Gs: []gSpec{{W: 0, Ops: "UL"}}}}
		runTrace(c, im, cf, rd, 0)
		rd = &round{Dir: filepath.Join(tmp, "t-nofile"), NW: 2, Precre: false}
		rd.File = filepath.Join(rd.Dir, "status")
		rd.Specs = []hSpec{{File: rd.File, NW: 2, LockThread: true, Marker: true, Gs: []gSpec{{W: 0, Ops: "LUL", Persist: true}, {W: 1, Ops: "LUU"}}}}
		runTrace(c, im, cf, rd, 1)
		// Save among updates and loads: the saver rewrites what it last read, over a newer record
		rd = &round{Dir: filepath.Join(tmp, "t-save"), NW: 2, Precre: true}
		rd.File = filepath.Join(rd.Dir, "status")
		rd.Specs = []hSpec{{File: rd.File, NW: 2, LockThread: true, Marker: true, Gs: []gSpec{{W: 0, Ops: "LUSL", Persist: true}}},
			{File: rd.File, NW: 2, LockThread: true, Marker: true, Gs: []gSpec{{W: 1, Ops: "ULSU", Persist: true}}}}
		runTrace(c, im, cf, rd, 1)
	}
	for i := 2; i < nTrace; i++ {
		rd := genRound(r, filepath.Join(tmp, fmt.Sprintf("t%d", i)), r.Range(2, 3), r.Range(1, 3), 6, 35, []int{0, 25, 35}[r.Intn(3)], true, true)
		runTrace(c, im, cf, rd, i)
	}
	for i := 0; i < nStress; i++ {
		rd := genRound(r, filepath.Join(tmp, fmt.Sprintf("s%d", i)), r.Range(2, 4), r.Range(2, 4), r.Range(10, maxOps), 30, []int{0, 0, 10, 20}[r.Intn(4)], r.Chance(30), false)
		runStress(c, im, cf, rd, i)
		_ = os.RemoveAll(rd.Dir)
		if i%4 == 3 { // the in-process stdout path racing the updaters
			ro := genOutRound(r, filepath.Join(tmp, fmt.Sprintf("o%d", i)), r.Range(2, 3), r.Range(2, 3), r.Range(20, maxOps+20))
			runStressOut(c, im, cf, ro, i/4)
			_ = os.RemoveAll(ro.Dir)
		}
	}
	runErrorPaths(c, im, tmp)
	runLaunchRace(c, im, tmp)
	runSharedObject(c, im, tmp)
	runLoadRace(c, im, tmp)
	nUnits := 6
	if c.Thorough() {
		nUnits = 60
	}
	for i := 0; i < nUnits; i++ {
		d := filepath.Join(tmp, fmt.Sprintf("u%d", i))
		runUnitRound(c, im, cf, d, i)
		_ = os.RemoveAll(d)
	}
	im.Extra["totals"] = map[string]int{"stress_updates": c14Totals.updates, "stress_loads": c14Totals.loads, "stress_saves": c14Totals.saves, "stress_stdout_writes": c14Totals.outWrites,
		"cross_process_lock_alternations": c14Totals.alternations, "trace_syscalls_projected": c14Totals.traceEvents, "trace_blocked_flock_calls": c14Totals.blockedLocks}
	Must(cf.Write())
	Must(im.Write(c.Out))
}
