package main

// C14 — rounds with LONG-LIVED writer objects, as the real daemon and runner have them: every
// helper process owns one BaseWorkUnit (through CommandWorkerCfg.NewWorker, public API) for the
// same unit and keeps it for the whole round; the harness scripts a sequential series of
//   B v  unit.UpdateBasicStatus(1, "b<v>", v)          F v  unit.UpdateFullStatus(same effect)
//   S    unit.Save()  (rewrites the object's cached record)     L    unit.Load()
// on those objects - in particular "p sets v, q sets v', p sets v AGAIN" (p's cached copy is stale
// and already says v) and "p loads, q sets v', p saves" - while background goroutines (own unit
// objects) increment counters kept in ExtraData.Params through UpdateFullStatus and Load.
// Oracle (model-independent): every scripted operation that reports success is in the stored
// record when it returns (checked by a fresh locked Load: the scripted operations are sequential,
// and only they write the basic fields); what Load/Status of an object returns is the stored
// record; background increments see 0..T-1; final counters = increments made.  The model replays
// the recovered order (CScript).

import (
	"bufio"
	"context"
	"encoding/json"
	"fmt"
	"io"
	"os"
	"os/exec"
	"path/filepath"
	"sort"
	"strings"
	"sync"
	"time"

	. "verifharness/lib"

	"github.com/ansible/receptor/pkg/netceptor"
	"github.com/ansible/receptor/pkg/workceptor"
)

type uSpec struct {
	DataDir string `json:"datadir"`
	Unit    string `json:"unit"`
	NW      int    `json:"nw"`
	BG      []int  `json:"bg"` // writer indices of this process' background goroutines
}

// urec: the stored record projected for the oracle
type urec struct {
	Basic  int64    `json:"basic"` // value v of the basic fields (State 1, Detail "b<v>", StdoutSize v)
	Shared uint64   `json:"shared"`
	Own    []uint64 `json:"own"`
	Whole  bool     `json:"whole"`
	Why    string   `json:"why,omitempty"`
}

func projectStatus(s *workceptor.StatusFileData, nw int) urec {
	r := urec{Basic: s.StdoutSize, Own: make([]uint64, nw), Whole: true}
	fail := func(f string, a ...interface{}) {
		if r.Whole {
			r.Whole, r.Why = false, fmt.Sprintf(f, a...)
		}
	}
	if s.State != 1 || s.Detail != fmt.Sprintf("b%d", s.StdoutSize) || s.WorkType != "cmd" {
		fail("State=%d Detail=%q StdoutSize=%d WorkType=%q do not belong to one basic update", s.State, s.Detail, s.StdoutSize, s.WorkType)
	}
	params := ""
	switch ed := s.ExtraData.(type) {
	case *workceptor.CommandExtraData:
		params = ed.Params
	case map[string]interface{}:
		params, _ = ed["Params"].(string)
	default:
		fail("ExtraData is %T", s.ExtraData)
	}
	m := map[string]uint64{}
	if params != "" {
		if err := json.Unmarshal([]byte(params), &m); err != nil {
			fail("counters unreadable: %v", err)
		}
	}
	r.Shared = m["shared"]
	sum := uint64(0)
	for w := 0; w < nw; w++ {
		r.Own[w] = m[fmt.Sprintf("w%d", w)]
		sum += r.Own[w]
	}
	if sum != r.Shared {
		fail("own counters sum to %d but shared=%d", sum, r.Shared)
	}
	return r
}

type uReply struct {
	Err    string `json:"err,omitempty"`
	T0     int64  `json:"t0"`
	T1     int64  `json:"t1"`
	Status *urec  `json:"status,omitempty"` // the object's in-memory record after the operation
	BG     []bgOp `json:"bg,omitempty"`
}

type bgOp struct {
	W    int    `json:"w"`
	Kind string `json:"k"` // U or L
	Seen urec   `json:"seen"`
	Ts   int64  `json:"ts"`
	Err  string `json:"err,omitempty"`
}

func helperServe(args []string) {
	b, err := os.ReadFile(args[0])
	Must(err)
	var sp uSpec
	Must(json.Unmarshal(b, &sp))
	QuietLogs()
	nc := netceptor.New(context.Background(), "c14helper")
	w, err := workceptor.New(context.Background(), nc, sp.DataDir)
	Must(err)
	workceptor.MainInstance = w
	mk := func() workceptor.WorkUnit {
		return workceptor.CommandWorkerCfg{WorkType: "cmd", Command: "true"}.NewWorker(nil, w, sp.Unit, "cmd")
	}
	unit := mk()
	var bgMu sync.Mutex
	var bgOps []bgOp
	stop := make(chan struct{})
	var bgWG sync.WaitGroup
	startBG := func() {
		for _, wi := range sp.BG {
			bgWG.Add(1)
			go func(wi int) {
				defer bgWG.Done()
				u := mk()
				key := fmt.Sprintf("w%d", wi)
				for i := 0; ; i++ {
					select {
					case <-stop:
						return
					default:
					}
					op := bgOp{W: wi, Kind: "U"}
					if i%3 == 2 {
						op.Kind = "L"
						if err := u.Load(); err != nil {
							op.Err = err.Error()
						}
						op.Seen = projectStatus(u.Status(), sp.NW)
						op.Ts = time.Now().UnixNano()
					} else {
						u.UpdateFullStatus(func(s *workceptor.StatusFileData) {
							op.Ts = time.Now().UnixNano()
							op.Seen = projectStatus(s, sp.NW)
							ed, ok := s.ExtraData.(*workceptor.CommandExtraData)
							if !ok {
								ed = &workceptor.CommandExtraData{}
								s.ExtraData = ed
							}
							m := map[string]uint64{}
							if ed.Params != "" {
								_ = json.Unmarshal([]byte(ed.Params), &m)
							}
							m["shared"]++
							m[key]++
							j, _ := json.Marshal(m)
							ed.Params = string(j)
						})
						if err := u.LastUpdateError(); err != nil {
							op.Err = err.Error()
						}
					}
					bgMu.Lock()
					bgOps = append(bgOps, op)
					bgMu.Unlock()
					time.Sleep(300 * time.Microsecond)
				}
			}(wi)
		}
	}
	in := bufio.NewReader(os.Stdin)
	out := json.NewEncoder(os.Stdout)
	for {
		line, err := in.ReadString('\n')
		if err != nil {
			return
		}
		f := strings.Fields(line)
		if len(f) == 0 {
			continue
		}
		v := int64(0)
		if len(f) > 1 {
			fmt.Sscanf(f[1], "%d", &v)
		}
		rep := uReply{T0: time.Now().UnixNano()}
		switch f[0] {
		case "B":
			unit.UpdateBasicStatus(1, fmt.Sprintf("b%d", v), v)
			if e := unit.LastUpdateError(); e != nil {
				rep.Err = e.Error()
			}
		case "F":
			unit.UpdateFullStatus(func(s *workceptor.StatusFileData) {
				s.State, s.Detail, s.StdoutSize = 1, fmt.Sprintf("b%d", v), v
			})
			if e := unit.LastUpdateError(); e != nil {
				rep.Err = e.Error()
			}
		case "S":
			if e := unit.Save(); e != nil {
				rep.Err = e.Error()
			}
		case "L":
			if e := unit.Load(); e != nil {
				rep.Err = e.Error()
			}
		case "G":
			startBG()
		case "H":
			close(stop)
			bgWG.Wait()
			rep.BG = bgOps
		case "Q":
			return
		}
		rep.T1 = time.Now().UnixNano()
		if f[0] != "G" && f[0] != "H" {
			st := projectStatus(unit.Status(), sp.NW)
			rep.Status = &st
		}
		_ = out.Encode(rep)
	}
}

type served struct {
	cmd *exec.Cmd
	in  io.WriteCloser
	out *bufio.Reader
}

func (s *served) do(line string) (uReply, error) {
	var r uReply
	if _, err := io.WriteString(s.in, line+"\n"); err != nil {
		return r, err
	}
	type res struct {
		b   []byte
		err error
	}
	ch := make(chan res, 1)
	go func() { b, err := s.out.ReadBytes('\n'); ch <- res{b, err} }()
	select {
	case x := <-ch:
		if x.err != nil {
			return r, x.err
		}
		return r, json.Unmarshal(x.b, &r)
	case <-time.After(60 * time.Second):
		return r, fmt.Errorf("helper does not answer %q within 60 s", line)
	}
}

type scriptOp struct {
	P    int    `json:"p"`
	Kind string `json:"k"`
	V    int64  `json:"v,omitempty"`
	t0   int64
	t1   int64
}

func coqURec(r *urec, slot int) string {
	own := make([]string, len(r.Own))
	for i, x := range r.Own {
		own[i] = CoqN(x)
	}
	own[slot] = CoqN(uint64(r.Basic))
	return fmt.Sprintf("(%d, %s)", r.Shared, CoqList(own))
}

// genScript: blocks of the stale-cache patterns on P main objects.
func genScript(r *Rng, P int, withSave bool) []scriptOp {
	var ops []scriptOp
	for p := 0; p < P; p++ {
		ops = append(ops, scriptOp{P: p, Kind: "L"}) // like Restart(): the object learns the stored record
	}
	cur := int64(0)
	fresh := func(not ...int64) int64 {
		for {
			v := int64(1 + r.Intn(8))
			ok := v != cur
			for _, x := range not {
				ok = ok && v != x
			}
			if ok {
				return v
			}
		}
	}
	set := func(p int, v int64) {
		ops = append(ops, scriptOp{P: p, Kind: []string{"B", "B", "F"}[r.Intn(3)], V: v})
		cur = v
	}
	blocks := r.Range(3, 5)
	for b := 0; b < blocks; b++ {
		p := r.Intn(P)
		q := (p + 1 + r.Intn(P-1)) % P
		switch {
		case withSave && r.Chance(50):
			// p learns the record, q changes it, p saves its cached one
			ops = append(ops, scriptOp{P: p, Kind: "L"})
			set(q, fresh())
			ops = append(ops, scriptOp{P: p, Kind: "S"})
			cur = -1 // whatever p had cached: tracked by the reference model
		default:
			// p sets v, q sets v', p sets v again (p's cached record still says v)
			v := fresh()
			set(p, v)
			if r.Chance(30) {
				ops = append(ops, scriptOp{P: q, Kind: "L"})
			}
			set(q, fresh(v))
			if r.Chance(15) {
				ops = append(ops, scriptOp{P: p, Kind: "L"}) // refreshed cache: the repeat is a real change for everybody
			}
			k := len(ops)
			set(p, v)
			if r.Chance(50) {
				ops[k].Kind = "B"
			}
		}
	}
	return ops
}

func runUnitRound(c *Ctx, im *Impl, cf *CaseFile, dir string, idx int) {
	r := c.Rng
	P := r.Range(2, 3)
	withSave := idx%3 == 2
	nbg := 0
	if !withSave {
		nbg = r.Range(1, 2) * P
	}
	nw := P + nbg + 1
	slot := nw - 1
	dataDir := filepath.Join(dir, "data")
	unitDir := filepath.Join(dataDir, "c14helper", "unit1")
	Must(os.MkdirAll(unitDir, 0o700))
	file := filepath.Join(unitDir, "status")
	Must((&workceptor.StatusFileData{State: 1, Detail: "b0", StdoutSize: 0, WorkType: "cmd",
		ExtraData: &workceptor.CommandExtraData{}}).Save(file))
	script := genScript(r, P, withSave)
	replay := map[string]interface{}{"kind": "long-lived unit objects", "processes": P, "background_writers": nbg, "script": script}
	// start the helpers
	hs := make([]*served, P)
	defer func() {
		for _, h := range hs {
			if h != nil {
				_, _ = io.WriteString(h.in, "Q\n")
				_ = h.in.Close()
				done := make(chan struct{})
				go func(h *served) { _ = h.cmd.Wait(); close(done) }(h)
				select {
				case <-done:
				case <-time.After(5 * time.Second):
					_ = h.cmd.Process.Kill()
				}
			}
		}
	}()
	w := P
	for p := 0; p < P; p++ {
		sp := uSpec{DataDir: dataDir, Unit: "unit1", NW: nw}
		for k := 0; k < nbg/P; k++ {
			sp.BG = append(sp.BG, w)
			w++
		}
		b, _ := json.Marshal(sp)
		sf := filepath.Join(dir, fmt.Sprintf("uspec%d.json", p))
		Must(os.WriteFile(sf, b, 0o600))
		cmd := exec.Command(os.Args[0], "serve", sf)
		in, err := cmd.StdinPipe()
		Must(err)
		outp, err := cmd.StdoutPipe()
		Must(err)
		cmd.Stderr = nil
		Must(cmd.Start())
		hs[p] = &served{cmd, in, bufio.NewReaderSize(outp, 1<<20)}
	}
	bad := false
	violate := func(what, sig string) {
		bad = true
		im.Violate(what, sig, replay)
	}
	stored := func() *urec {
		s := &workceptor.StatusFileData{}
		if err := s.Load(file); err != nil {
			violate("the stored record is unreadable: "+err.Error(), "c14-final-unreadable")
			return nil
		}
		u := projectStatus(s, nw)
		if !u.Whole {
			violate("the stored record is torn: "+u.Why, "c14-torn-read")
		}
		return &u
	}
	if nbg > 0 {
		for p := 0; p < P; p++ {
			if _, err := hs[p].do("G"); err != nil {
				violate("helper: "+err.Error(), "c14-helper-died")
				return
			}
		}
	}
	// the scripted operations, one after the other; reference: the stored basic value and the caches
	E := int64(0)
	cache := make([]int64, P)
	names := map[string]string{"B": "UpdateBasicStatus", "F": "UpdateFullStatus", "S": "Save", "L": "Load"}
	for i := range script {
		op := &script[i]
		line := op.Kind
		if op.Kind == "B" || op.Kind == "F" {
			line = fmt.Sprintf("%s %d", op.Kind, op.V)
		}
		rep, err := hs[op.P].do(line)
		if err != nil {
			violate(fmt.Sprintf("helper %d: %v", op.P, err), "c14-helper-died")
			return
		}
		op.t0, op.t1 = rep.T0, rep.T1
		who := fmt.Sprintf("step %d: %s by the object of process %d", i, names[op.Kind], op.P)
		if op.V != 0 {
			who += fmt.Sprintf(" (value %d)", op.V)
		}
		if rep.Err != "" {
			violate(who+" failed: "+rep.Err, "c14-update-error")
			continue
		}
		switch op.Kind {
		case "B", "F":
			E = op.V
			cache[op.P] = E
		case "S":
			E = cache[op.P]
		case "L":
			cache[op.P] = E
		}
		if st := stored(); st != nil && st.Basic != E {
			violate(fmt.Sprintf("%s reported success but the stored record holds the basic value %d, not %d (the operation was dropped or applied to a stale copy)", who, st.Basic, E), "c14-update-dropped")
			E = st.Basic // go on from what is there
		}
		if rep.Status != nil && rep.Status.Basic != cache[op.P] && !bad {
			violate(fmt.Sprintf("%s: the object's own record says basic value %d, expected %d", who, rep.Status.Basic, cache[op.P]), "c14-update-dropped")
		}
		time.Sleep(time.Duration(r.Intn(1500)) * time.Microsecond)
	}
	var bg []bgOp
	if nbg > 0 {
		for p := 0; p < P; p++ {
			rep, err := hs[p].do("H")
			if err != nil {
				violate("helper: "+err.Error(), "c14-helper-died")
				return
			}
			bg = append(bg, rep.BG...)
		}
	}
	fin := stored()
	if fin == nil {
		return
	}
	// background increments: nothing lost
	var us []bgOp
	var seen []*urec
	nBy := make([]uint64, nw)
	for i := range bg {
		o := &bg[i]
		if o.Err != "" {
			violate(fmt.Sprintf("background %s of writer %d failed: %s", o.Kind, o.W, o.Err), "c14-update-error")
			continue
		}
		if !o.Seen.Whole {
			violate(fmt.Sprintf("background %s of writer %d was given a torn record: %s", o.Kind, o.W, o.Seen.Why), "c14-torn-read")
			continue
		}
		seen = append(seen, &o.Seen)
		if o.Kind == "U" {
			us = append(us, *o)
			nBy[o.W]++
		}
	}
	sort.SliceStable(us, func(i, j int) bool { return us[i].Seen.Shared < us[j].Seen.Shared })
	for i, u := range us {
		if u.Seen.Shared != uint64(i) {
			violate(fmt.Sprintf("lost update: %d increments made but the %d-th smallest counter value an increment started from is %d", len(us), i, u.Seen.Shared), "c14-lost-update")
			break
		}
	}
	if !bad {
		if fin.Shared != uint64(len(us)) {
			violate(fmt.Sprintf("final shared counter %d after %d increments (a basic update or a Save wiped ExtraData)", fin.Shared, len(us)), "c14-lost-update")
		}
		for wi := range nBy {
			if fin.Own[wi] != nBy[wi] {
				violate(fmt.Sprintf("writer %d made %d increments but its counter is %d", wi, nBy[wi], fin.Own[wi]), "c14-field-wiped")
			}
		}
	}
	// the order of everything: scripted operations in sequence, increments placed by their clock
	// inside the critical section and, when it falls into a scripted operation, by the value they saw
	valueAfter := make([]int64, len(script))
	{
		e := int64(0)
		ch := make([]int64, P)
		for i, op := range script {
			switch op.Kind {
			case "B", "F":
				e = op.V
				ch[op.P] = e
			case "S":
				e = ch[op.P]
			case "L":
				ch[op.P] = e
			}
			valueAfter[i] = e
		}
	}
	var order []string
	emit := func(i int) {
		op := script[i]
		x := "XLoad"
		switch op.Kind {
		case "B", "F":
			x = fmt.Sprintf("(XSet %s %d)", CoqNat(slot), op.V)
		case "S":
			x = "XSave"
		}
		order = append(order, fmt.Sprintf("(%s, %s)", CoqNat(op.P), x))
	}
	k := 0
	inside := 0
	for _, u := range us {
		for k < len(script) && script[k].t1 < u.Ts {
			emit(k)
			k++
		}
		if k < len(script) && script[k].t0 < u.Ts {
			inside++
			before := int64(0)
			if k > 0 {
				before = valueAfter[k-1]
			}
			if u.Seen.Basic == valueAfter[k] && u.Seen.Basic != before {
				emit(k)
				k++
			}
		}
		order = append(order, fmt.Sprintf("(%s, XIncr)", CoqNat(u.W)))
	}
	for ; k < len(script); k++ {
		emit(k)
	}
	var coqSeen []string
	for _, s := range seen {
		if len(coqSeen) < 400 {
			coqSeen = append(coqSeen, coqURec(s, slot))
		}
	}
	zero := urec{Own: make([]uint64, nw)}
	label := fmt.Sprintf("unit-object round %d: %d processes, %d scripted operations, %d background writers, %d increments (%d inside a scripted operation), %d records seen", idx, P, len(script), nbg, len(us), inside, len(seen))
	cf.Add(fmt.Sprintf("CScript %s (Some %s) %s %s %s", CoqNat(nw), coqURec(&zero, slot), CoqList(order), coqURec(fin, slot), CoqList(coqSeen)), label)
	repeats := 0
	for _, op := range script {
		if op.Kind == "B" || op.Kind == "F" || op.Kind == "S" {
			repeats++
		}
	}
	im.Count(label, repeats >= 3 && (withSave || len(us) >= 10) && !bad)
	im.Hist(fmt.Sprintf("units:with-save=%v", withSave))
	for _, op := range script {
		im.Hist("units:op-" + names[op.Kind])
	}
	if idx < 2 {
		im.Sample(map[string]interface{}{"kind": "long-lived unit objects", "script": script, "increments": len(us), "final": fin})
	}
}

// runErrorPaths: the branches of Load / Save / UpdateFullStatus / UpdateBasicStatus that report an
// error or meet an empty file.  Oracle: an operation that cannot be applied says so and leaves the
// stored bytes alone; an update of an EMPTY file starts from the caller's in-memory record (the
// model's read_into FEmpty); nothing panics (the methods log through workceptor.MainInstance).
func runErrorPaths(c *Ctx, im *Impl, tmp string) {
	if workceptor.MainInstance == nil {
		nc := netceptor.New(context.Background(), "c14errs")
		w, err := workceptor.New(context.Background(), nc, filepath.Join(tmp, "errs-data"))
		Must(err)
		workceptor.MainInstance = w
	}
	check := func(name string, ok bool, what string) {
		im.Count("error-path "+name, true)
		im.Hist("errors:" + name)
		if !ok {
			im.Violate(name+": "+what, "c14-error-path", name)
		}
	}
	// 1. no directory
	nodir := filepath.Join(tmp, "no-such-dir", "status")
	sfd := &workceptor.StatusFileData{State: 1, Detail: "x"}
	called := false
	e1 := sfd.Load(nodir)
	e2 := sfd.Save(nodir)
	e3 := sfd.UpdateFullStatus(nodir, func(*workceptor.StatusFileData) { called = true })
	e4 := sfd.UpdateBasicStatus(nodir, 2, "y", 3)
	_, serr := os.Stat(filepath.Dir(nodir))
	check("no-directory", e1 != nil && e2 != nil && e3 != nil && e4 != nil && !called && serr != nil && sfd.State == 1 && sfd.Detail == "x",
		fmt.Sprintf("Load/Save/UpdateFullStatus/UpdateBasicStatus in a missing directory: errors %v %v %v %v, callback called=%v, directory created=%v, receiver now State=%d Detail=%q", e1, e2, e3, e4, called, serr == nil, sfd.State, sfd.Detail))
	// 2. a file that is not a record
	dir := filepath.Join(tmp, "errs")
	Must(os.MkdirAll(dir, 0o700))
	bad := filepath.Join(dir, "status")
	garbage := []byte("{\"State\": 1, \"Detail\": \"trunc")
	Must(os.WriteFile(bad, garbage, 0o600))
	called = false
	e1 = (&workceptor.StatusFileData{}).Load(bad)
	e3 = (&workceptor.StatusFileData{}).UpdateFullStatus(bad, func(*workceptor.StatusFileData) { called = true })
	e4 = (&workceptor.StatusFileData{}).UpdateBasicStatus(bad, 2, "y", 3)
	now, _ := os.ReadFile(bad)
	check("unparsable-record", e1 != nil && e3 != nil && e4 != nil && !called && string(now) == string(garbage),
		fmt.Sprintf("on an unparsable record: errors %v %v %v, callback called=%v, bytes changed=%v", e1, e3, e4, called, string(now) != string(garbage)))
	// Save does not read: it replaces the garbage by a whole record
	e2 = (&workceptor.StatusFileData{State: 2, Detail: "saved", StdoutSize: 5, WorkType: "t"}).Save(bad)
	got := &workceptor.StatusFileData{}
	e1 = got.Load(bad)
	check("save-over-garbage", e2 == nil && e1 == nil && got.State == 2 && got.Detail == "saved" && got.StdoutSize == 5 && got.WorkType == "t",
		fmt.Sprintf("Save over an unparsable record then Load: %v %v %+v", e2, e1, got))
	// 3. an empty file: Load fails, an update starts from the receiver's in-memory record
	Must(os.WriteFile(bad, nil, 0o600))
	e1 = (&workceptor.StatusFileData{}).Load(bad)
	mem := &workceptor.StatusFileData{State: 1, Detail: "in memory", StdoutSize: 9, WorkType: "t"}
	var seen workceptor.StatusFileData
	e3 = mem.UpdateFullStatus(bad, func(s *workceptor.StatusFileData) { seen = *s; s.StdoutSize++ })
	got = &workceptor.StatusFileData{}
	e2 = got.Load(bad)
	check("empty-file", e1 != nil && e3 == nil && e2 == nil && seen.Detail == "in memory" && seen.StdoutSize == 9 && got.StdoutSize == 10 && got.Detail == "in memory" && got.WorkType == "t",
		fmt.Sprintf("Load of an empty file: %v; update of an empty file from the in-memory record: %v, callback saw %+v, stored %+v (%v)", e1, e3, seen, got, e2))
	// 4. UpdateBasicStatus with -1 leaves the size alone; LastUpdateError of a unit object reports a failed update
	e4 = (&workceptor.StatusFileData{}).UpdateBasicStatus(bad, 3, "basic", -1)
	got = &workceptor.StatusFileData{}
	_ = got.Load(bad)
	check("basic-keeps-size", e4 == nil && got.State == 3 && got.Detail == "basic" && got.StdoutSize == 10 && got.WorkType == "t",
		fmt.Sprintf("UpdateBasicStatus(3, basic, -1): %v, stored %+v", e4, got))
	u := workceptor.CommandWorkerCfg{WorkType: "cmd", Command: "true"}.NewWorker(nil, workceptor.MainInstance, "no-such-unit", "cmd")
	u.UpdateBasicStatus(1, "x", 0)
	le1 := u.LastUpdateError()
	le2 := u.Load()
	le3 := u.Save()
	check("unit-object-without-directory", le1 != nil && le2 != nil && le3 != nil,
		fmt.Sprintf("a unit object whose directory does not exist: LastUpdateError=%v Load=%v Save=%v", le1, le2, le3))
}

// runSharedObject: ONE BaseWorkUnit object, as the daemon has one per unit: a goroutine updates it
// (UpdateBasicStatus(n, "n", n) and UpdateFullStatus writing the same matching triple) while other
// goroutines of the same process ask it for its status.  Every record a reader is given must be
// one that some update produced: State, Detail and StdoutSize all of the same n - the in-memory
// copy is replaced atomically too ("a reader never sees a mixture").
func runSharedObject(c *Ctx, im *Impl, tmp string) {
	if workceptor.MainInstance == nil {
		nc := netceptor.New(context.Background(), "c14errs")
		w, err := workceptor.New(context.Background(), nc, filepath.Join(tmp, "errs-data"))
		Must(err)
		workceptor.MainInstance = w
	}
	w := workceptor.MainInstance
	rounds, updates := 3, 2500
	if c.Thorough() {
		rounds, updates = 12, 8000
	}
	for round := 0; round < rounds; round++ {
		id := fmt.Sprintf("shared%d", round)
		u := workceptor.CommandWorkerCfg{WorkType: "cmd", Command: "true"}.NewWorker(nil, w, id, "cmd")
		Must(os.MkdirAll(u.UnitDir(), 0o700))
		Must(u.Save())
		u.UpdateBasicStatus(1000, "1000", 1000)
		stop := make(chan struct{})
		var wg sync.WaitGroup
		var mu sync.Mutex
		mixed := ""
		reads := 0
		nReaders := 3 + round%2
		for r := 0; r < nReaders; r++ {
			wg.Add(1)
			go func(r int) {
				defer wg.Done()
				n := 0
				for {
					select {
					case <-stop:
						mu.Lock()
						reads += n
						mu.Unlock()
						return
					default:
					}
					var st *workceptor.StatusFileData
					if (r+n)%2 == 0 {
						st = u.Status()
					} else {
						st = u.UnredactedStatus()
					}
					n++
					if st.Detail != fmt.Sprint(st.State) || st.StdoutSize != int64(st.State) {
						mu.Lock()
						if mixed == "" {
							mixed = fmt.Sprintf("State=%d Detail=%q StdoutSize=%d", st.State, st.Detail, st.StdoutSize)
						}
						mu.Unlock()
					}
				}
			}(r)
		}
		for n := 1001; n < 1001+updates; n++ {
			if n%3 == 0 {
				u.UpdateFullStatus(func(s *workceptor.StatusFileData) {
					s.State, s.Detail, s.StdoutSize = n, fmt.Sprint(n), int64(n)
				})
			} else {
				u.UpdateBasicStatus(n, fmt.Sprint(n), int64(n))
			}
			if err := u.LastUpdateError(); err != nil {
				im.Violate("update of the shared unit object failed: "+err.Error(), "c14-update-error", id)
				break
			}
		}
		close(stop)
		wg.Wait()
		fin := u.Status()
		stored := &workceptor.StatusFileData{}
		_ = stored.Load(filepath.Join(u.UnitDir(), "status"))
		last := 1000 + updates
		if mixed != "" {
			im.Violate(fmt.Sprintf("a reader of the unit object was given %s: a mixture of two updates (every update writes State, Detail and StdoutSize of one n)", mixed), "c14-mixed-in-memory-record", id)
		}
		if fin.State != last || stored.State != last || stored.Detail != fmt.Sprint(last) || stored.StdoutSize != int64(last) {
			im.Violate(fmt.Sprintf("after %d updates the object says State=%d and the file (%d,%q,%d), expected %d", updates, fin.State, stored.State, stored.Detail, stored.StdoutSize, last), "c14-lost-update", id)
		}
		im.Count(fmt.Sprintf("shared-object round %d: %d updates, %d readers, %d reads", round, updates, nReaders, reads), reads >= updates/10)
		im.Hist("shared-object:rounds")
		_ = os.RemoveAll(u.UnitDir())
	}
}
