package main

// C14 on the REAL daemon's launch path: commandUnit.runCommand records the runner's pid in the
// status record while the runner process already writes the same record.  Very short commands are
// submitted in bursts on a loaded scheduler; in a few units the daemon's flock calls are delayed
// (strace attached to the daemon's threads only, delay_enter on flock: pure scheduling) so that
// the runner writes - even finishes - before the daemon records the pid.
// Oracle (property text): no update is lost: every unit ends in the final state of its command
// with its output size, no record stays Pending / "Launching command runner" once the runner has
// finished, and every status write starts from the record the previous one stored.

import (
	"bufio"
	"encoding/json"
	"fmt"
	"os"
	"os/exec"
	"path/filepath"
	"strings"
	"sync"
	"sync/atomic"
	"time"

	. "verifharness/lib"
)

type lsnap struct {
	State      int
	StdoutSize int64
	WorkType   string
	Detail     string
}

type lline struct {
	Pid   int    `json:"pid"`
	File  string `json:"file"`
	Empty bool   `json:"empty"`
	Old   lsnap  `json:"old"`
	New   lsnap  `json:"new"`
}

func readLaunchLog(path string) map[string][]lline {
	out := map[string][]lline{}
	f, err := os.Open(path)
	if err != nil {
		return out
	}
	defer f.Close()
	sc := bufio.NewScanner(f)
	sc.Buffer(make([]byte, 1<<20), 1<<24)
	for sc.Scan() {
		var l lline
		if json.Unmarshal(sc.Bytes(), &l) == nil {
			u := filepath.Base(filepath.Dir(l.File))
			out[u] = append(out[u], l)
		}
	}
	return out
}

type launchKind struct {
	wt    string
	state int
	size  int64
}

var launchKinds = []launchKind{{"ok", 2, 0}, {"ko", 3, 0}, {"echo", 2, 2}, {"echo3", 3, 2}}

func launchWorkTypes() string {
	return "- work-command:\n    worktype: ok\n    command: /bin/true\n" +
		"- work-command:\n    worktype: ko\n    command: /bin/false\n" +
		"- work-command:\n    worktype: echo3\n    command: bash\n    params: \"-c 'echo x; exit 3'\"\n" +
		"- work-command:\n    worktype: echo\n    command: bash\n    params: \"-c 'echo x'\"\n"
}

func launchDisk(n *Node, unit string) (int, int64, string) {
	b, err := os.ReadFile(filepath.Join(n.UnitDir(unit), "status"))
	if err != nil {
		return -1, 0, ""
	}
	var s struct {
		State      int
		StdoutSize int64
		Detail     string
	}
	if json.Unmarshal(b, &s) != nil {
		return -1, 0, ""
	}
	return s.State, s.StdoutSize, s.Detail
}

func runLaunchRace(c *Ctx, im *Impl, tmp string) {
	if c.Bin == "" {
		im.Hist("launch:no-binary")
		return
	}
	n := NewNode(c.Bin, "lr", filepath.Join(tmp, "lr"), launchWorkTypes())
	n.Env = []string{"VERIF_STATUS_LOG=" + filepath.Join(tmp, "lr", "status.log")}
	Must(n.Start())
	defer func() { n.Stop(); n.KillStrays() }()
	// wait until the last configured work type is registered (and warm the daemon's threads up)
	deadline := time.Now().Add(15 * time.Second)
	for {
		unit, _, err := Submit(n.Sock, map[string]interface{}{"worktype": "echo"}, []byte("x"), 20*time.Second)
		if err == nil {
			WaitFor(3*time.Second, func() bool { st, _, _ := launchDisk(n, unit); return st >= 2 })
			_, _ = OneShot(n.Sock, map[string]interface{}{"command": "work", "subcommand": "release", "unitid": unit}, 20*time.Second)
			break
		}
		if !strings.Contains(err.Error(), "unknown work type") || time.Now().After(deadline) {
			Must(fmt.Errorf("daemon does not accept work: %v", err))
		}
		time.Sleep(50 * time.Millisecond)
	}
	type sub struct {
		unit    string
		kind    launchKind
		delayed bool
		err     error
	}
	var subs []*sub
	var mu sync.Mutex
	burst := func(k int, delayed bool) {
		var wg sync.WaitGroup
		mu.Lock()
		base := len(subs)
		mu.Unlock()
		for i := 0; i < k; i++ {
			wg.Add(1)
			go func(i int) {
				defer wg.Done()
				kind := launchKinds[c14rnd(i+base)%len(launchKinds)]
				unit, _, err := Submit(n.Sock, map[string]interface{}{"worktype": kind.wt}, []byte("x"), 60*time.Second)
				mu.Lock()
				subs = append(subs, &sub{unit, kind, delayed, err})
				mu.Unlock()
			}(i)
		}
		wg.Wait()
	}
	// a loaded scheduler: busy goroutines in this process, and busy child processes
	var stopBusy int32
	var bw sync.WaitGroup
	for i := 0; i < 4; i++ {
		bw.Add(1)
		go func() {
			defer bw.Done()
			x := 0
			for atomic.LoadInt32(&stopBusy) == 0 {
				x++
			}
			_ = x
		}()
	}
	var busyProcs []*exec.Cmd
	for i := 0; i < 4; i++ {
		p := exec.Command("bash", "-c", "while :; do :; done")
		if p.Start() == nil {
			busyProcs = append(busyProcs, p)
		}
	}
	bursts, per := 3, 8
	if c.Thorough() {
		bursts, per = 20, 10
	}
	for b := 0; b < bursts; b++ {
		burst(per, false)
	}
	atomic.StoreInt32(&stopBusy, 1)
	bw.Wait()
	for _, p := range busyProcs {
		_ = p.Process.Kill()
		_ = p.Wait()
	}
	// widened: every flock call of the DAEMON (its present threads; children are not followed) waits
	// 150 ms before it is made, so the runner writes and finishes before the daemon records its pid
	var args []string
	ents, _ := os.ReadDir(fmt.Sprintf("/proc/%d/task", n.Cmd.Process.Pid))
	for _, e := range ents {
		args = append(args, "-p", e.Name())
	}
	st := exec.Command("strace", append([]string{"-qq", "-o", "/dev/null", "-e", "trace=flock", "-e", "inject=flock:delay_enter=350000"}, args...)...)
	if err := st.Start(); err == nil {
		time.Sleep(400 * time.Millisecond)
		nd := 5
		if c.Thorough() {
			nd = 14
		}
		for i := 0; i < nd; i++ { // one at a time: the runner starts up quickly, the daemon's pid record waits
			burst(1, true)
		}
		time.Sleep(300 * time.Millisecond)
		_ = st.Process.Signal(os.Interrupt)
		done := make(chan struct{})
		go func() { _ = st.Wait(); close(done) }()
		select {
		case <-done:
		case <-time.After(5 * time.Second):
			_ = st.Process.Kill()
		}
		im.Hist("launch:strace-attached")
	} else {
		im.Hist("launch:strace-unavailable")
	}
	// let everything finish
	WaitFor(15*time.Second, func() bool {
		for _, s := range subs {
			if s.err != nil || s.unit == "" {
				continue
			}
			if st, _, _ := launchDisk(n, s.unit); st < 2 {
				return false
			}
		}
		return true
	})
	time.Sleep(500 * time.Millisecond) // the daemon's waiter goroutines write once more
	logs := readLaunchLog(filepath.Join(tmp, "lr", "status.log"))
	daemon := n.Cmd.Process.Pid
	for _, s := range subs {
		ctx := map[string]interface{}{"scenario": "burst of very short commands on the real daemon", "worktype": s.kind.wt, "unit": s.unit, "daemon_flock_delayed": s.delayed}
		if s.err != nil || s.unit == "" {
			im.Violate(fmt.Sprintf("work submit of a %s unit failed: %v", s.kind.wt, s.err), "c14-launch-submit-failed", ctx)
			continue
		}
		lines := logs[s.unit]
		var fl []string
		runnerFinal, runnerFirst, pidWrite, launchIdx := -1, -1, -1, -1
		prev := lsnap{State: 0, Detail: "Unit Created"}
		chainBad := ""
		for i, l := range lines {
			fl = append(fl, fmt.Sprintf("pid %d: (%d,%d,%q) -> (%d,%d,%q)", l.Pid, l.Old.State, l.Old.StdoutSize, l.Old.Detail, l.New.State, l.New.StdoutSize, l.New.Detail))
			if i == 0 {
				prev.WorkType = l.Old.WorkType
			}
			if l.Old != prev && chainBad == "" {
				chainBad = fmt.Sprintf("status write %d (pid %d) started from (%d,%d,%q) but the previous write stored (%d,%d,%q)", i, l.Pid, l.Old.State, l.Old.StdoutSize, l.Old.Detail, prev.State, prev.StdoutSize, prev.Detail)
			}
			prev = l.New
			if l.Pid != daemon {
				if runnerFirst < 0 {
					runnerFirst = i
				}
				if l.New.State >= 2 {
					runnerFinal = i
				}
			} else if l.New.Detail == "Launching command runner" && l.Old.Detail != l.New.Detail {
				launchIdx = i
			} else if launchIdx >= 0 && pidWrite < 0 && l.New == l.Old {
				pidWrite = i // the first daemon write after the launch that changes nothing visible: the pid
			}
		}
		ctx["status_writes"] = fl
		stt, size, det := launchDisk(n, s.unit)
		if chainBad != "" {
			im.Violate(fmt.Sprintf("unit %s: %s: an update was applied to a stale record, or a write bypassed the read-modify-write", s.unit, chainBad), "c14-launch-stale-write", ctx)
		}
		if stt != s.kind.state || size != s.kind.size {
			what := fmt.Sprintf("unit %s (%s) ended as (%d,%d,%q), expected state %d with %d bytes of output", s.unit, s.kind.wt, stt, size, det, s.kind.state, s.kind.size)
			if stt < 2 {
				what += ": the runner's updates were wiped"
			}
			im.Violate(what, "c14-launch-lost-update", ctx)
		}
		if runnerFinal >= 0 && len(lines) > 0 && lines[len(lines)-1].New.State < 2 {
			im.Violate(fmt.Sprintf("unit %s: the runner recorded its final state but the last status write leaves state %d %q", s.unit, lines[len(lines)-1].New.State, lines[len(lines)-1].New.Detail), "c14-launch-lost-update", ctx)
		}
		// non-trivial: the runner wrote before the daemon had recorded the pid
		raced := runnerFirst >= 0 && pidWrite >= 0 && runnerFirst < pidWrite
		im.Count(fmt.Sprintf("launch %s %v", s.unit, fl), raced)
		im.Hist(fmt.Sprintf("launch:worktype=%s", s.kind.wt))
		if raced {
			im.Hist("launch:runner-wrote-before-the-pid-was-recorded")
		}
		if s.delayed {
			im.Hist("launch:with-delayed-daemon")
		}
	}
	for i, s := range subs {
		if s.delayed && s.err == nil {
			im.Sample(map[string]interface{}{"kind": "launch race (daemon's flock calls delayed)", "worktype": s.kind.wt, "unit": s.unit})
			_ = i
			break
		}
	}
}

func c14rnd(i int) int { return (i*7 + 3) % 97 }
