package main

// C14 — Load() of a LONG-LIVED unit object racing the updates of the SAME object.
//
// The daemon keeps one BaseWorkUnit per unit; its status monitor / remote monitors call Load() on
// it while other goroutines of the daemon call UpdateBasicStatus / UpdateFullStatus on it and the
// runner process writes the file through its own object.  The record exists twice - in the status
// file and in the object's in-memory copy (what `work status` reports and what the unit's own
// goroutines decide on) - and the property ("applied one at a time to the latest stored record, so
// no update is lost") is about both.
//
// A round: the harness takes the flock on status.lock itself (as the runner does for each of its
// updates; in a third of the rounds it does not, and the operations race freely), starts, in a
// random order and with random gaps, 1-3 goroutines calling Load() and three updater goroutines on
// the same object - A: UpdateBasicStatus(n, "n", -1) (owns State/Detail), B: UpdateFullStatus
// StdoutSize++ , C: UpdateFullStatus ExtraData.Pid++ - 1-3 calls each, plus an outside writer D
// with an object of its own (ExtraData.Params = its count), then releases the lock and waits until
// every call has returned.
//
// Oracle (from the property text, nothing else): once all calls have returned,
//   - the stored record holds every update that returned: State = Detail = A's count, StdoutSize =
//     B's count, Pid = C's count, Params = D's count (no lost update, no field wiped);
//   - the in-memory record of the object is a whole record, shows the same values for the fields
//     written through the object (A, B, C: the last of them to run left the stored record in it, and
//     a Load can only replace it by a stored record at least as new), and for D's field a value
//     between D's count at the beginning of the round and the stored one;
//   - an updater that asks the object for its status right after its own update returned is told
//     its own value (it is the only writer of that field);
//   - a Load on its own afterwards makes the in-memory record equal to the stored one in every field.

import (
	"context"
	"fmt"
	"os"
	"path/filepath"
	"strconv"
	"sync"
	"syscall"
	"time"

	. "verifharness/lib"

	"github.com/ansible/receptor/pkg/netceptor"
	"github.com/ansible/receptor/pkg/workceptor"
)

type lrView struct {
	State  int
	Detail string
	Size   int64
	Pid    int
	Params string
	Shape  string // non-empty: ExtraData is not what a command unit keeps
}

func lrProject(s *workceptor.StatusFileData) lrView {
	v := lrView{State: s.State, Detail: s.Detail, Size: s.StdoutSize}
	switch ed := s.ExtraData.(type) {
	case *workceptor.CommandExtraData:
		if ed == nil {
			v.Shape = "nil *CommandExtraData"
		} else {
			v.Pid, v.Params = ed.Pid, ed.Params
		}
	case map[string]interface{}:
		if f, ok := ed["Pid"].(float64); ok {
			v.Pid = int(f)
		}
		v.Params, _ = ed["Params"].(string)
	default:
		v.Shape = fmt.Sprintf("%T", s.ExtraData)
	}
	return v
}

func (v lrView) String() string {
	return fmt.Sprintf("(State=%d Detail=%q StdoutSize=%d Pid=%d Params=%q)", v.State, v.Detail, v.Size, v.Pid, v.Params)
}

type lrPlan struct {
	hold    bool
	holdMs  int
	order   []int // start order of the goroutines: 0..nLoad-1 loads, then A, B, C, D
	gapUs   []int
	nLoad   int
	loadOps []int
	ops     [4]int // A B C D calls this round
}

func runLoadRace(c *Ctx, im *Impl, tmp string) {
	if workceptor.MainInstance == nil {
		nc := netceptor.New(context.Background(), "c14errs")
		w, err := workceptor.New(context.Background(), nc, filepath.Join(tmp, "errs-data"))
		Must(err)
		workceptor.MainInstance = w
	}
	w := workceptor.MainInstance
	r := c.Rng
	objects, rounds := 3, 50
	if c.Thorough() {
		objects, rounds = 12, 250
	}
	reported := map[string]int{}
	violate := func(sig, id, what string) {
		reported[sig]++
		if reported[sig] <= 3 {
			im.Violate(what, sig, id)
		}
	}
	heldRounds, overlapped := 0, 0
	for obj := 0; obj < objects; obj++ {
		id := fmt.Sprintf("loadrace%d", obj)
		u := workceptor.CommandWorkerCfg{WorkType: "cmd", Command: "true"}.NewWorker(nil, w, id, "cmd")
		Must(os.MkdirAll(u.UnitDir(), 0o700))
		Must(u.Save())
		statusFile := filepath.Join(u.UnitDir(), "status")
		lockFd, err := syscall.Open(statusFile+".lock", syscall.O_CREAT|syscall.O_WRONLY|syscall.O_CLOEXEC, 0o600)
		Must(err)
		outside := &workceptor.StatusFileData{ExtraData: &workceptor.CommandExtraData{}}
		var cnt [4]int // updates of A, B, C, D that have returned
		stuck := false
		for round := 0; round < rounds && !stuck; round++ {
			rid := fmt.Sprintf("%s round %d", id, round)
			p := lrPlan{hold: !r.Chance(33), holdMs: r.Range(3, 25), nLoad: r.Range(1, 3)}
			for i := 0; i < p.nLoad; i++ {
				p.loadOps = append(p.loadOps, r.Range(1, 2))
			}
			for k := 0; k < 4; k++ {
				p.ops[k] = r.Range(0, 3)
			}
			if p.ops[0]+p.ops[1]+p.ops[2] == 0 {
				p.ops[r.Intn(3)] = 1
			}
			if r.Chance(60) { // the runner is not always there
				p.ops[3] = 0
			}
			n := p.nLoad + 4
			p.order = r.Perm(n)
			for i := 0; i < n; i++ {
				p.gapUs = append(p.gapUs, []int{0, 0, 200, 1500, 4000}[r.Intn(5)])
			}
			start := cnt
			if p.hold {
				for {
					err := syscall.Flock(lockFd, syscall.LOCK_EX)
					if err == syscall.EINTR {
						continue
					}
					Must(err)
					break
				}
			}
			var wg sync.WaitGroup
			var mu sync.Mutex
			var firstUpdateDone, lastLoadDone time.Time
			problems := []string{}
			problemSig := ""
			note := func(sig, what string) {
				mu.Lock()
				if problemSig == "" {
					problemSig = sig
				}
				problems = append(problems, what)
				mu.Unlock()
			}
			updDone := func() {
				mu.Lock()
				if firstUpdateDone.IsZero() {
					firstUpdateDone = time.Now()
				}
				mu.Unlock()
			}
			launch := func(g int) {
				wg.Add(1)
				go func() {
					defer wg.Done()
					switch {
					case g < p.nLoad:
						for i := 0; i < p.loadOps[g]; i++ {
							if err := u.Load(); err != nil {
								note("c14-load-error", fmt.Sprintf("Load of the unit object: %v", err))
							}
							mu.Lock()
							lastLoadDone = time.Now()
							mu.Unlock()
						}
					case g == p.nLoad: // A
						for i := 0; i < p.ops[0]; i++ {
							v := start[0] + i + 1
							u.UpdateBasicStatus(v, strconv.Itoa(v), -1)
							got := lrProject(u.UnredactedStatus())
							updDone()
							if got.State != v || got.Detail != strconv.Itoa(v) {
								note("c14-own-update-not-reported", fmt.Sprintf("UpdateBasicStatus(%d) has returned and the object then reports State=%d Detail=%q (nobody else writes these fields)", v, got.State, got.Detail))
							}
						}
					case g == p.nLoad+1: // B
						for i := 0; i < p.ops[1]; i++ {
							u.UpdateFullStatus(func(s *workceptor.StatusFileData) { s.StdoutSize++ })
							got := lrProject(u.UnredactedStatus())
							updDone()
							if want := int64(start[1] + i + 1); got.Size != want {
								note("c14-own-update-not-reported", fmt.Sprintf("the %dth StdoutSize++ has returned and the object then reports StdoutSize=%d (nobody else writes this field)", want, got.Size))
							}
						}
					case g == p.nLoad+2: // C
						for i := 0; i < p.ops[2]; i++ {
							u.UpdateFullStatus(func(s *workceptor.StatusFileData) {
								if ed, ok := s.ExtraData.(*workceptor.CommandExtraData); ok && ed != nil {
									ed.Pid++
								}
							})
							got := lrProject(u.UnredactedStatus())
							updDone()
							if want := start[2] + i + 1; got.Pid != want {
								note("c14-own-update-not-reported", fmt.Sprintf("the %dth Pid++ has returned and the object then reports Pid=%d (nobody else writes this field)", want, got.Pid))
							}
						}
					default: // D, the outside writer
						for i := 0; i < p.ops[3]; i++ {
							v := strconv.Itoa(start[3] + i + 1)
							err := outside.UpdateFullStatus(statusFile, func(s *workceptor.StatusFileData) {
								switch ed := s.ExtraData.(type) {
								case *workceptor.CommandExtraData:
									ed.Params = v
								case map[string]interface{}:
									ed["Params"] = v
								}
							})
							if err != nil {
								note("c14-update-error", fmt.Sprintf("update by the outside writer: %v", err))
							}
						}
					}
				}()
			}
			for i, g := range p.order {
				launch(g)
				if p.gapUs[i] > 0 {
					time.Sleep(time.Duration(p.gapUs[i]) * time.Microsecond)
				}
			}
			if p.hold {
				time.Sleep(time.Duration(p.holdMs) * time.Millisecond)
				Must(syscall.Flock(lockFd, syscall.LOCK_UN))
			}
			done := make(chan struct{})
			go func() { wg.Wait(); close(done) }()
			select {
			case <-done:
			case <-time.After(300 * time.Second):
				violate("c14-load-update-stuck", rid, "Load / update calls on one unit object have not returned 300 s after the status file lock was released")
				stuck = true
				continue
			}
			if err := u.LastUpdateError(); err != nil {
				note("c14-update-error", "update of the unit object failed: "+err.Error())
			}
			for k := 0; k < 4; k++ {
				cnt[k] = start[k] + p.ops[k]
			}
			// all calls have returned: stored record, then the object's record
			sfd := &workceptor.StatusFileData{}
			if err := sfd.Load(statusFile); err != nil {
				note("c14-load-error", fmt.Sprintf("reading the stored record: %v", err))
			}
			stored := lrProject(sfd)
			mem := lrProject(u.UnredactedStatus())
			wantParams := ""
			if cnt[3] > 0 {
				wantParams = strconv.Itoa(cnt[3])
			}
			if stored.State != cnt[0] || (cnt[0] > 0 && stored.Detail != strconv.Itoa(cnt[0])) || stored.Size != int64(cnt[1]) || stored.Pid != cnt[2] || stored.Params != wantParams {
				note("c14-lost-update", fmt.Sprintf("all calls have returned (%d basic updates, %d StdoutSize++, %d Pid++, outside writer's Params=%q) and the stored record is %v", cnt[0], cnt[1], cnt[2], wantParams, stored))
			}
			if mem.Shape != "" {
				note("c14-mixed-in-memory-record", "the object's ExtraData is "+mem.Shape)
			}
			if mem.State > 0 && mem.Detail != strconv.Itoa(mem.State) {
				note("c14-mixed-in-memory-record", fmt.Sprintf("the object reports State=%d with Detail=%q: a mixture of two updates", mem.State, mem.Detail))
			}
			if mem.State != stored.State || mem.Detail != stored.Detail || mem.Size != stored.Size || mem.Pid != stored.Pid {
				note("c14-load-undoes-update", fmt.Sprintf("all Load and update calls on the unit object have returned; the stored record is %v but the object reports %v: an update that returned is missing from the in-memory record", stored, mem))
			}
			memP, _ := strconv.Atoi("0" + mem.Params)
			if memP < start[3] || memP > cnt[3] {
				note("c14-load-undoes-update", fmt.Sprintf("the object reports the outside writer's Params=%q; it was %d before this round's calls began and is %d in the stored record", mem.Params, start[3], cnt[3]))
			}
			// a Load on its own brings the object to the stored record
			if err := u.Load(); err != nil {
				note("c14-load-error", fmt.Sprintf("Load of the unit object: %v", err))
			}
			if again := lrProject(u.UnredactedStatus()); again != stored {
				note("c14-load-not-stored-record", fmt.Sprintf("after a Load with nothing else running the object reports %v, the stored record is %v", again, stored))
			}
			if len(problems) > 0 {
				violate(problemSig, rid, fmt.Sprintf("%s (lock held by the harness: %v, %d Load goroutines, updates A/B/C/outside %v): %s", rid, p.hold, p.nLoad, p.ops, problems[0]))
			}
			nUpd := p.ops[0] + p.ops[1] + p.ops[2]
			if p.hold && nUpd > 0 {
				heldRounds++
			}
			if !lastLoadDone.IsZero() && !firstUpdateDone.IsZero() && lastLoadDone.After(firstUpdateDone) {
				overlapped++
				im.Hist("load-race:a Load returned after an update of the same object had")
			}
			im.Hist(fmt.Sprintf("load-race:rounds lock-held=%v", p.hold))
		}
		_ = syscall.Close(lockFd)
		im.Count(fmt.Sprintf("load-race object %d: %d rounds", obj, rounds), !stuck)
		_ = os.RemoveAll(u.UnitDir())
	}
	total := objects * rounds
	im.Count(fmt.Sprintf("load-race: %d rounds, %d with Loads and updates of one object queued behind a held status lock, %d where a Load returned after an update", total, heldRounds, overlapped), heldRounds*3 >= total && overlapped*4 >= total)
	for sig, n := range reported {
		if n > 3 {
			im.Hist(fmt.Sprintf("load-race:%s in %d rounds (first 3 reported)", sig, n))
		}
	}
}
