package main

// A crowded data directory: many units at rest — every final state, several copies, under names
// spread over the sort order of the directory — between entries that cannot be restarted: remote
// units that were acknowledged but never started (the remote node unreachable), status files
// that are not a record, an empty directory, a directory without status file, stray regular
// files; names of the latter sorting first, in the middle and last.  After each of three starts on
// that directory (the first is already a restart on what another daemon left behind, the next two
// follow a SIGKILL) every acknowledged unit must be LISTED with its work type, state, detail and
// size and its output must be fetchable in full, whatever else lies in the directory.
//
// `work list` is asked once, before any `work status <unit>`: a status query makes the daemon look
// for that one unit again, which would hide a start-up scan that did not reach it.

import (
	"bytes"
	"fmt"
	"os"
	"path/filepath"
	"sort"
	"strings"
	"time"

	. "verifharness/lib"
)

func runCrowded(c *Ctx, sh *shared, dir string) {
	rep := map[string]interface{}{"scenario": "crowded-directory"}
	viol := func(sig, what string) {
		sh.mu.Lock()
		sh.im.Violate(what+" [scenario crowded-directory]", sig, rep)
		sh.mu.Unlock()
	}
	if len(residents) == 0 {
		return
	}
	dirA := filepath.Join(dir, "a")
	a := NewNode(c.Bin, "c04crowd", dirA, workCommandYAML(dirA))
	defer func() { a.Stop(); a.KillStrays() }()
	data := filepath.Join(a.DataDir, a.ID)
	// units at rest: copies of the residents under names spread over the sort order
	type copyOf struct {
		name string
		r    resident
	}
	var copies []copyOf
	for i, pre := range []string{"1", "7", "C", "J", "R", "Y", "d", "m", "s", "y"} {
		r := residents[i%len(residents)]
		name := pre + "unit" + fmt.Sprint(i)
		if err := copyDir(r.dir, filepath.Join(data, name)); err != nil {
			viol("harness-scenario", "planting: "+err.Error())
			return
		}
		copies = append(copies, copyOf{name, r})
	}
	// entries that are no units
	junk := []string{}
	mk := func(name string, files map[string]string) {
		p := filepath.Join(data, name)
		if files == nil {
			_ = os.WriteFile(p, []byte("not a unit\n"), 0o600)
		} else {
			_ = os.MkdirAll(p, 0o700)
			for f, content := range files {
				_ = os.WriteFile(filepath.Join(p, f), []byte(content), 0o600)
			}
		}
		junk = append(junk, name)
	}
	for _, pos := range []string{"0", "M", "zz"} {
		mk(pos+"stray", nil)
		mk(pos+"garbage", map[string]string{"status": "{{ this is not a record", "stdout": "abc"})
	}
	mk("0empty", map[string]string{})
	mk("Nnostatus", map[string]string{"stdout": "output without a record"})
	if err := startReady(a); err != nil {
		viol("no-restart:crowded", "the daemon does not start on a crowded data directory: "+err.Error())
		return
	}
	// remote units for a node that cannot be reached: acknowledged, never started
	var ghosts []string
	for i := 0; i < 3; i++ {
		unit, acked, _, reply, err := submit(a.Sock, "c04nowhere", plan{Steps: []string{"w5"}})
		if err != nil || !acked || unit == "" {
			viol("harness-scenario", fmt.Sprintf("remote submit: %v %q", err, reply))
			return
		}
		ghosts = append(ghosts, unit)
	}
	time.Sleep(300 * time.Millisecond)
	type look struct {
		listed  map[string]view // from the one `work list`
		status  map[string]view // from `work status <unit>` afterwards
		results map[string]string
		names   []string
	}
	observe := func() (*look, error) {
		lst, err := WorkList(a.Sock, 10*time.Second)
		if err != nil {
			return nil, err
		}
		l := &look{listed: map[string]view{}, status: map[string]view{}, results: map[string]string{}}
		for k, u := range lst {
			if m, ok := u.(map[string]interface{}); ok {
				l.listed[k] = viewOf(m)
				l.names = append(l.names, k)
			}
		}
		sort.Strings(l.names)
		for _, cp := range copies {
			if st, err := WorkStatus(a.Sock, cp.name, 5*time.Second); err == nil {
				l.status[cp.name] = viewOf(st)
			}
			got, ended, err := WorkResults(a.Sock, cp.name, 0, 20*time.Second)
			switch {
			case err != nil:
				l.results[cp.name] = "error:" + err.Error()
			case !ended:
				l.results[cp.name] = fmt.Sprintf("no-end:%d", len(got))
			case bytes.Equal(got, cp.r.Output):
				l.results[cp.name] = "complete"
			default:
				l.results[cp.name] = fmt.Sprintf("differs:%d-of-%d", len(got), len(cp.r.Output))
			}
		}
		return l, nil
	}
	var looks []*look
	ghostNames := map[string]string{}
	for start := 1; start <= 3; start++ {
		if start > 1 {
			a.Kill()
			time.Sleep(200 * time.Millisecond)
			if start == 2 {
				// the never-started remote units get names sorting first, in the middle and last (a
				// unit's name is the name of its directory, nothing in the record repeats it)
				for i, g := range ghosts {
					nn := []string{"00ghost", "Kghost", "zzzghost"}[i]
					if err := os.Rename(filepath.Join(data, g), filepath.Join(data, nn)); err != nil {
						viol("harness-scenario", "rename: "+err.Error())
						return
					}
					ghostNames[nn] = g
				}
			}
			if err := startReady(a); err != nil {
				viol("no-restart:crowded", fmt.Sprintf("the daemon does not start again on a crowded data directory (start %d): %v", start, err))
				return
			}
		}
		l, err := observe()
		if err != nil {
			viol("query-blocked:crowded", fmt.Sprintf("work list after start %d: %v", start, err))
			return
		}
		looks = append(looks, l)
	}
	ents, _ := os.ReadDir(data)
	var dirNames []string
	for _, e := range ents {
		dirNames = append(dirNames, e.Name())
	}
	rep["directory"] = strings.Join(dirNames, " ")
	sh.mu.Lock()
	defer sh.mu.Unlock()
	im := sh.im
	im.Extra["crowded-directory"] = map[string]interface{}{"entries": len(dirNames), "units_at_rest": len(copies), "never_started_remote": len(ghosts), "other_entries": len(junk),
		"listed_after_each_start": []int{len(looks[0].listed), len(looks[1].listed), len(looks[2].listed)}}
	for k, l := range looks {
		when := fmt.Sprintf("after start %d of 3 on a crowded data directory", k+1)
		rep[fmt.Sprintf("listed_after_start_%d", k+1)] = strings.Join(l.names, " ")
		for _, cp := range copies {
			im.Count(fmt.Sprintf("crowded/%s/start%d", cp.name, k+1), true)
			im.Hist("resident:crowded-" + cp.r.Name)
			v, ok := l.listed[cp.name]
			ref := cp.r.Ref
			switch {
			case !ok:
				how := "unknown to work status too"
				if _, known := l.status[cp.name]; known {
					how = "work status finds it when asked for it by name"
				}
				im.Violate(fmt.Sprintf("finished unit %s (%s, state %d) is not listed %s (%s); listed: %s", cp.name, cp.r.Name, ref.State, when, how, strings.Join(l.names, " ")), "crowded-unit-not-listed:"+cp.r.Name, rep)
			case v.State != ref.State || v.Size != ref.Size || v.Detail != ref.Detail || v.WorkType != ref.WorkType || v.RemoteNode != ref.RemoteNode || v.RemoteUnit != ref.RemoteUnit:
				im.Violate(fmt.Sprintf("finished unit %s (%s: state %d %q, size %d, type %q) is listed with state %d %q, size %d, type %q %s", cp.name, cp.r.Name, ref.State, ref.Detail, ref.Size, ref.WorkType,
					v.State, v.Detail, v.Size, v.WorkType, when), "crowded-outcome-lost:"+cp.r.Name, rep)
			}
			if res := l.results[cp.name]; res != "complete" {
				im.Violate(fmt.Sprintf("the output of finished unit %s (%s) cannot be fetched in full %s: %s", cp.name, cp.r.Name, when, res), "crowded-output-lost:"+cp.r.Name, rep)
			}
		}
		// the acknowledged remote units that never started: still there, as remote units, not running
		for i, g := range ghosts {
			name := g
			if k >= 1 {
				name = []string{"00ghost", "Kghost", "zzzghost"}[i]
			}
			im.Count(fmt.Sprintf("crowded/ghost%d/start%d", i, k+1), true)
			im.Hist("resident:crowded-never-started-remote")
			v, ok := l.listed[name]
			switch {
			case !ok:
				im.Violate(fmt.Sprintf("acknowledged remote unit %s (never started) is not listed %s; listed: %s", name, when, strings.Join(l.names, " ")), "crowded-unit-not-listed:never-started-remote", rep)
			case v.WorkType != "remote" || v.RemoteNode != "c04nowhere" || v.State == 2 || (k >= 1 && v.State != 3):
				im.Violate(fmt.Sprintf("acknowledged remote unit %s (never started) is listed with state %d %q, type %q, node %q %s", name, v.State, v.Detail, v.WorkType, v.RemoteNode, when), "crowded-outcome-lost:never-started-remote", rep)
			}
		}
	}
	// the units at rest as cases for the model's [recover]
	for _, cp := range copies {
		var answers []string
		for _, l := range looks {
			if v, ok := l.listed[cp.name]; ok {
				answers = append(answers, obsView(&v))
			} else {
				answers = append(answers, obsView(nil))
			}
		}
		ref := cp.r.Ref
		extra := "XNone"
		if ref.RemoteNode != "" {
			extra = fmt.Sprintf("(XRemote %s %s %s %s)", HxS(ref.RemoteNode), HxS(ref.RemoteType), HxS(ref.RemoteUnit), CoqBool(ref.Started))
		}
		st := fmt.Sprintf("(mkStatus %d %d %s %s)", ref.State, ref.Size, HxS(ref.WorkType), extra)
		sh.cf.Add(fmt.Sprintf("VCase %s %s %d %s", CoqList([]string{HxS("emit")}), st, len(cp.r.Output), CoqList(answers)),
			fmt.Sprintf("unit at rest %s (%s, state %d size %d) in a crowded data directory (%d entries): listed after each of 3 starts", cp.name, cp.r.Name, ref.State, ref.Size, len(dirNames)))
	}
}
