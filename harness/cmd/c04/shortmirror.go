package main

// The submitting node dies while its copy of a remote unit's output lags behind its record.
//
// For remote work the submitting node keeps two things about the unit: the record (state and
// output size, copied from the executing node by the status mirror) and the output itself
// (fetched afterwards by the output mirror, which only asks for more once the record shows a
// larger size).  Between "final state and size N recorded" and "N bytes stored" the node can be
// killed: what it leaves behind is a unit directory whose record says Succeeded/Failed, size N,
// bound to a started remote unit, with fewer than N bytes of output next to it, while the
// executing node still holds the finished unit.
//
// The scenario produces exactly that data directory for several units at once (both complete
// states; none, part, all but one and all of the bytes stored; the cut taken from the seed): the
// units are run to their end on a second node and mirrored, the submitting daemon is SIGKILLed,
// its copies of the outputs are shortened to what an output mirror that had got so far would have
// stored, and the daemon is started again, twice.  Oracle, from the property text ("a unit that
// had finished reports the same final state and output size and its complete output can still be
// fetched", "still listed with its work type and … the remote node and remote unit it is bound
// to"): after every start each unit is listed with the state, size, work type and binding it had,
// and `work results` from position 0 delivers exactly the N bytes the command wrote and ends.

import (
	"bytes"
	"encoding/json"
	"fmt"
	"os"
	"path/filepath"
	"strings"
	"sync"
	"time"

	. "verifharness/lib"
)

type shortUnit struct {
	Name    string   `json:"name"`
	Plan    plan     `json:"plan"`
	Want    int      `json:"final_state"`
	Unit    string   `json:"unit"`
	Keep    int      `json:"output_bytes_left_on_the_submitting_node"`
	Size    int      `json:"output_size"`
	Ref     view     `json:"before_the_kill"`
	Disk    string   `json:"record_on_disk_before_restart"`
	Views   []view   `json:"after_each_start"`
	Results []string `json:"results_after_each_start"`
	Local   []int    `json:"stored_bytes_after_each_fetch"`
}

type shortViolation struct{ sig, what string }

// shortMirrorOnce runs the scenario once; harnessErr != "" means it could not be set up.
func shortMirrorOnce(c *Ctx, dir string, cuts []int, tag string) (units []*shortUnit, viols []shortViolation, harnessErr string) {
	sc := scenario{Name: "remote-output-behind-record", Kind: "remote-bound"}
	e, err := setup(c, dir, sc, tag)
	if err != nil {
		return nil, nil, "setup: " + err.Error()
	}
	defer e.teardown()
	a, b := e.a, e.b
	if err := startReady(a); err != nil || !waitPing(a.Sock, b.ID, 90*time.Second) {
		return nil, nil, fmt.Sprintf("nodes do not come up: %v", err)
	}
	units = []*shortUnit{
		{Name: "succeeded-part", Plan: plan{Steps: []string{"w30000", "s100", "w30000"}}, Want: 2, Keep: cuts[0]},
		{Name: "succeeded-none", Plan: plan{Steps: []string{"w40000"}}, Want: 2, Keep: 0},
		{Name: "failed-all-but-one", Plan: plan{Steps: []string{"w20000", "x3"}}, Want: 3, Keep: 19999},
		{Name: "failed-part", Plan: plan{Steps: []string{"w900", "s50", "w100", "x3"}}, Want: 3, Keep: cuts[1]},
		{Name: "succeeded-all", Plan: plan{Steps: []string{"w5000"}}, Want: 2, Keep: 5000}, // control: fully mirrored
	}
	var wg sync.WaitGroup
	var mu sync.Mutex
	for _, u := range units {
		u.Size = u.Plan.size()
		wg.Add(1)
		go func(u *shortUnit) {
			defer wg.Done()
			fail := func(s string) {
				mu.Lock()
				if harnessErr == "" {
					harnessErr = "unit " + u.Name + ": " + s
				}
				mu.Unlock()
			}
			unit, acked, replied, reply, err := submit(a.Sock, b.ID, u.Plan)
			if err != nil || !acked || !replied {
				fail(fmt.Sprintf("submit: %v %q", err, reply))
				return
			}
			u.Unit = unit
			// finished and mirrored in full: record and output
			if !waitFor(60*time.Second, func() bool {
				st, err := WorkStatus(a.Sock, unit, 5*time.Second)
				if err != nil {
					return false
				}
				u.Ref = viewOf(st)
				fi, serr := os.Stat(filepath.Join(a.UnitDir(unit), "stdout"))
				return u.Ref.State == u.Want && u.Ref.Size == int64(u.Size) && serr == nil && fi.Size() == int64(u.Size)
			}) {
				fail(fmt.Sprintf("never finished and mirrored: %+v", u.Ref))
			}
		}(u)
	}
	wg.Wait()
	if harnessErr != "" {
		return units, nil, harnessErr
	}
	time.Sleep(1200 * time.Millisecond) // the mirrors' last rewrite
	a.Kill()
	time.Sleep(300 * time.Millisecond)
	// the state a kill between "final record mirrored" and "output mirrored" leaves behind
	for _, u := range units {
		if err := os.Truncate(filepath.Join(a.UnitDir(u.Unit), "stdout"), int64(u.Keep)); err != nil {
			return units, nil, "truncate: " + err.Error()
		}
		raw, _ := os.ReadFile(filepath.Join(a.UnitDir(u.Unit), "status"))
		var rec map[string]interface{}
		if json.Unmarshal(raw, &rec) != nil {
			return units, nil, "the record of " + u.Name + " is not intact after the kill (another crash window, not this scenario)"
		}
		d := viewOf(rec)
		u.Disk = fmt.Sprintf("state %d size %d node %q unit %q started=%v", d.State, d.Size, d.RemoteNode, d.RemoteUnit, d.Started)
		if d.State != u.Want || d.Size != int64(u.Size) || !d.Started || d.RemoteUnit == "" || d.RemoteNode != b.ID {
			return units, nil, "the record of " + u.Name + " on disk is not the final one: " + u.Disk
		}
	}
	add := func(sig, what string) { viols = append(viols, shortViolation{sig, what}) }
	for start := 1; start <= 2 && len(viols) == 0; start++ {
		if start > 1 {
			a.Kill()
			time.Sleep(300 * time.Millisecond)
			// the same window once more (repeated crash/restart cycles): the second kill came when the
			// resumed output mirror had fetched half of what was missing
			for _, u := range units {
				if u.Keep < u.Size {
					_ = os.Truncate(filepath.Join(a.UnitDir(u.Unit), "stdout"), int64(u.Keep+(u.Size-u.Keep)/2))
				}
			}
		}
		if err := startReady(a); err != nil {
			if exitedAtStart(err.Error()) {
				add("no-restart:output-behind-record", fmt.Sprintf("the daemon does not start again (restart %d): %v", start, err))
				return units, viols, ""
			}
			return units, nil, fmt.Sprintf("restart %d: %v", start, err)
		}
		when := fmt.Sprintf("after restart %d of 2", start)
		var rg sync.WaitGroup
		for _, u := range units {
			rg.Add(1)
			go func(u *shortUnit) {
				defer rg.Done()
				v := query(a.Sock, u.Unit)
				got, ended, err := WorkResults(a.Sock, u.Unit, 0, 60*time.Second)
				res := "complete"
				switch {
				case err != nil:
					res = "error:" + err.Error()
				case !ended:
					res = fmt.Sprintf("no-end:%d-of-%d", len(got), u.Size)
				case len(got) != u.Size:
					res = fmt.Sprintf("short:%d-of-%d", len(got), u.Size)
				case !bytes.Equal(got, pattern[:u.Size]):
					res = "wrong-bytes"
				}
				local := -1
				if fi, err := os.Stat(filepath.Join(a.UnitDir(u.Unit), "stdout")); err == nil {
					local = int(fi.Size())
				}
				mu.Lock()
				u.Views = append(u.Views, v)
				u.Results = append(u.Results, res)
				u.Local = append(u.Local, local)
				mu.Unlock()
			}(u)
		}
		rg.Wait()
		for _, u := range units {
			v, res := u.Views[start-1], u.Results[start-1]
			where := fmt.Sprintf("[remote unit %s (%s): record final with state %d size %d, %d bytes of output stored when the submitting node was killed, the executing node holds the finished unit]", u.Unit, u.Name, u.Want, u.Size, u.Keep)
			class := "succeeded"
			if u.Want == 3 {
				class = "failed"
			}
			switch {
			case strings.HasPrefix(v.Err, "work list") || v.Latency > 20:
				add("query-blocked:output-behind-record", fmt.Sprintf("a status query %s took %.1f s (%s) %s", when, v.Latency, v.Err, where))
			case !v.Listed:
				add("output-behind-record-not-listed:"+class, fmt.Sprintf("finished remote unit is not listed %s (%s) %s", when, v.Err, where))
			case v.State != u.Ref.State || v.Size != u.Ref.Size || v.WorkType != u.Ref.WorkType:
				add("output-behind-record-outcome-lost:"+class, fmt.Sprintf("finished remote unit reports state %d %q size %d type %q %s (before the kill: state %d size %d type %q) %s",
					v.State, v.Detail, v.Size, v.WorkType, when, u.Ref.State, u.Ref.Size, u.Ref.WorkType, where))
			case v.RemoteNode != u.Ref.RemoteNode || v.RemoteUnit != u.Ref.RemoteUnit || v.RemoteType != u.Ref.RemoteType || !v.Started:
				add("output-behind-record-binding-lost:"+class, fmt.Sprintf("finished remote unit is bound to node %q unit %q type %q started=%v %s (before: %q %q %q) %s",
					v.RemoteNode, v.RemoteUnit, v.RemoteType, v.Started, when, u.Ref.RemoteNode, u.Ref.RemoteUnit, u.Ref.RemoteType, where))
			}
			if res != "complete" {
				add("output-behind-record-output-lost:"+class, fmt.Sprintf("the complete output of a finished remote unit cannot be fetched %s: work results from 0 gave %s within 60 s (%d bytes stored locally afterwards) %s",
					when, res, u.Local[start-1], where))
			}
		}
	}
	return units, viols, ""
}

func runShortMirror(c *Ctx, sh *shared, dir string) {
	// the cuts come from the seed: anywhere strictly inside the output
	cuts := []int{1 + c.Rng.Intn(59999), 1 + c.Rng.Intn(999)}
	units, viols, herr := shortMirrorOnce(c, filepath.Join(dir, "1"), cuts, "sm")
	if herr != "" {
		sh.mu.Lock()
		sh.im.Violate(herr+" [scenario remote-output-behind-record]", "harness-scenario", units)
		sh.mu.Unlock()
		return
	}
	if len(viols) > 0 {
		// the verdicts rest on something not arriving within a bound: once more from scratch
		sh.mu.Lock()
		sh.im.Hist("rerun-from-scratch:remote-output-behind-record")
		sh.mu.Unlock()
		first := viols
		units, viols, herr = shortMirrorOnce(c, filepath.Join(dir, "2"), cuts, "sn")
		if herr != "" {
			sh.mu.Lock()
			sh.im.Violate(herr+" [scenario remote-output-behind-record, second run after "+first[0].what+"]", "harness-scenario", units)
			sh.mu.Unlock()
			return
		}
	}
	sh.mu.Lock()
	defer sh.mu.Unlock()
	im := sh.im
	rep := map[string]interface{}{"scenario": "remote-output-behind-record", "units": units}
	summary := []string{}
	for _, u := range units {
		for k := range u.Views {
			im.Count(fmt.Sprintf("output-behind-record/%s/keep%d/restart%d", u.Name, u.Keep, k+1), u.Keep < u.Size)
			im.Hist("scenario:remote-output-behind-record")
		}
		summary = append(summary, fmt.Sprintf("%s: %d of %d stored at the kill, results %v, stored afterwards %v", u.Name, u.Keep, u.Size, u.Results, u.Local))
		// the record at rest as a case for the model's [recover] (a started remote unit whose state
		// is final: listed, known, record untouched, whatever the output file holds)
		var answers []string
		for i := range u.Views {
			answers = append(answers, obsView(&u.Views[i]))
		}
		sh.cf.Add(fmt.Sprintf("VCase %s (mkStatus %d %d %s (XRemote %s %s %s true)) %d %s", CoqList([]string{HxS("emit")}), u.Ref.State, u.Ref.Size, HxS("remote"),
			HxS(u.Ref.RemoteNode), HxS(u.Ref.RemoteType), HxS(u.Ref.RemoteUnit), u.Keep, CoqList(answers)),
			fmt.Sprintf("finished remote unit %s, %d of %d bytes stored when the submitting node was killed: answers=%+v", u.Name, u.Keep, u.Size, u.Views))
	}
	im.Extra["remote-output-behind-record"] = summary
	for _, v := range viols {
		im.Violate(v.what+" [scenario remote-output-behind-record; reproduced by a second run from scratch]", v.sig, rep)
	}
}
