package main

// Resident units: every data directory that is killed and restarted also holds one unit in each
// FINAL state the code can record — Succeeded, Failed (command exit status 3), Canceled (cancelled
// while Running) and a Canceled remote unit — made once on a template node and copied into the
// data directory of every experiment before its first start.  "A unit that had finished reports
// the same final state and output size and its complete output can still be fetched": after every
// start (the first one is already a restart on a directory another daemon left behind) each
// resident must answer with the state, detail, size and work type it had when the template
// daemon stopped, and its output must be fetchable in full.

import (
	"bytes"
	"fmt"
	"os"
	"path/filepath"
	"strings"
	"sync"
	"time"

	. "verifharness/lib"
)

type resident struct {
	Name   string `json:"name"` // succeeded | failed | canceled | remote-canceled
	Unit   string `json:"unit"`
	Ref    view   `json:"reference"` // what the template daemon answered last
	Output []byte `json:"-"`
	dir    string // unit directory on the template node
}

// residentObs is what one experiment saw of one resident.
type residentObs struct {
	Name    string   `json:"name"`
	Unit    string   `json:"unit"`
	Ref     view     `json:"reference"`
	Views   []view   `json:"after_each_start"`
	Results []string `json:"results_after_each_restart"`
}

var residents []resident

const emitHang = "h" // script step: ignore nothing, wait to be interrupted

func copyDir(src, dst string) error {
	return filepath.Walk(src, func(p string, fi os.FileInfo, err error) error {
		if err != nil {
			return err
		}
		rel, _ := filepath.Rel(src, p)
		t := filepath.Join(dst, rel)
		if fi.IsDir() {
			return os.MkdirAll(t, 0o700)
		}
		b, err := os.ReadFile(p)
		if err != nil {
			return err
		}
		return os.WriteFile(t, b, 0o600)
	})
}

// plantResidents copies the resident units into the data directory of a node not yet started.
func plantResidents(n *Node) error {
	for _, r := range residents {
		if err := copyDir(r.dir, n.UnitDir(r.Unit)); err != nil {
			return err
		}
	}
	return nil
}

func isResident(unit string) bool {
	for _, r := range residents {
		if r.Unit == unit {
			return true
		}
	}
	return false
}

func waitFor(d time.Duration, cond func() bool) bool {
	for t0 := time.Now(); time.Since(t0) < d; time.Sleep(40 * time.Millisecond) {
		if cond() {
			return true
		}
	}
	return cond()
}

// makeResidents runs the template node(s) once.
func makeResidents(c *Ctx, dir string) error {
	dirA, dirB := filepath.Join(dir, "a"), filepath.Join(dir, "b")
	port := freePort()
	b := NewNode(c.Bin, "c04tplb", dirB, fmt.Sprintf("- tcp-listener:\n    port: %d\n", port)+workCommandYAML(dirB))
	a := NewNode(c.Bin, "c04tpla", dirA, fmt.Sprintf("- tcp-peer:\n    address: 127.0.0.1:%d\n", port)+workCommandYAML(dirA))
	defer func() {
		for _, n := range []*Node{a, b} {
			n.Stop()
			n.KillStrays()
		}
	}()
	if err := startReady(b); err != nil {
		return err
	}
	if err := startReady(a); err != nil {
		return err
	}
	type want struct {
		name, target string
		pl           plan
		cancel       bool
		final        int
	}
	wants := []want{
		{"succeeded", "localhost", plan{Steps: []string{"w20"}}, false, 2},
		{"failed", "localhost", plan{Steps: []string{"w10", "x3"}}, false, 3},
		{"canceled", "localhost", plan{Steps: []string{"w10", "s200", emitHang}}, true, 4},
	}
	if waitPing(a.Sock, b.ID, 60*time.Second) {
		wants = append(wants, want{"remote-canceled", b.ID, plan{Steps: []string{"w10", "s200", emitHang}}, true, 4})
	}
	var mu sync.Mutex
	var wg sync.WaitGroup
	var firstErr error
	for _, w := range wants {
		wg.Add(1)
		go func(w want) {
			defer wg.Done()
			fail := func(err error) {
				mu.Lock()
				if firstErr == nil && w.name != "remote-canceled" { // the remote one is optional
					firstErr = fmt.Errorf("resident %s: %v", w.name, err)
				}
				mu.Unlock()
			}
			unit, acked, replied, reply, err := submit(a.Sock, w.target, w.pl)
			if err != nil || !acked || !replied {
				fail(fmt.Errorf("submit: %v %q", err, reply))
				return
			}
			state := func() view {
				st, err := WorkStatus(a.Sock, unit, 3*time.Second)
				if err != nil {
					return view{State: -1}
				}
				return viewOf(st)
			}
			if w.cancel {
				if !waitFor(15*time.Second, func() bool { v := state(); return v.State == 1 && v.Size == int64(w.pl.size()) }) {
					fail(fmt.Errorf("never seen Running with its output recorded"))
					return
				}
				// a remote unit: its output has to have been mirrored, the remote node will be gone
				if !waitFor(15*time.Second, func() bool {
					fi, err := os.Stat(filepath.Join(a.UnitDir(unit), "stdout"))
					return err == nil && fi.Size() == int64(w.pl.size())
				}) {
					fail(fmt.Errorf("output never arrived"))
					return
				}
				time.Sleep(300 * time.Millisecond)
				if _, err := OneShot(a.Sock, map[string]interface{}{"command": "work", "subcommand": "cancel", "unitid": unit}, 20*time.Second); err != nil {
					fail(err)
					return
				}
			}
			if !waitFor(20*time.Second, func() bool { return state().State == w.final }) {
				fail(fmt.Errorf("never reached state %d (now %+v)", w.final, state()))
				return
			}
			time.Sleep(1200 * time.Millisecond) // the daemon's own last rewrite (runner exit; last status copy)
			v := state()
			if v.State != w.final {
				fail(fmt.Errorf("left state %d again: %+v", w.final, v))
				return
			}
			out, _ := os.ReadFile(filepath.Join(a.UnitDir(unit), "stdout"))
			mu.Lock()
			residents = append(residents, resident{Name: w.name, Unit: unit, Ref: v, Output: out, dir: a.UnitDir(unit)})
			mu.Unlock()
		}(w)
	}
	wg.Wait()
	if firstErr != nil {
		return firstErr
	}
	// the template daemons stop; their runners are gone already.  The copies are taken from the
	// directory at rest.
	a.Stop()
	b.Stop()
	keep := filepath.Join(dir, "units")
	for i := range residents {
		t := filepath.Join(keep, residents[i].Unit)
		if err := copyDir(residents[i].dir, t); err != nil {
			return err
		}
		residents[i].dir = t
	}
	return nil
}

// lookAtResidents asks for every resident after one start; withResults also fetches the output.
func lookAtResidents(sock string, obs []residentObs, withResults bool) {
	var wg sync.WaitGroup
	for i := range obs {
		wg.Add(1)
		go func(o *residentObs, r resident) {
			defer wg.Done()
			o.Views = append(o.Views, query(sock, r.Unit))
			if !withResults {
				return
			}
			got, ended, err := WorkResults(sock, r.Unit, 0, 20*time.Second)
			switch {
			case err != nil:
				o.Results = append(o.Results, "error:"+err.Error())
			case !ended:
				o.Results = append(o.Results, fmt.Sprintf("no-end:%d", len(got)))
			case bytes.Equal(got, r.Output):
				o.Results = append(o.Results, "complete")
			default:
				o.Results = append(o.Results, fmt.Sprintf("differs:%d-of-%d", len(got), len(r.Output)))
			}
		}(&obs[i], residents[i])
	}
	wg.Wait()
}

func newResidentObs() []residentObs {
	out := make([]residentObs, len(residents))
	for i, r := range residents {
		out[i] = residentObs{Name: r.Name, Unit: r.Unit, Ref: r.Ref}
	}
	return out
}

// judgeResidents: the oracle for the residents of one experiment.
func judgeResidents(sh *shared, o *observation) {
	im := sh.im
	for _, r := range o.Residents {
		for k, v := range r.Views {
			im.Count(fmt.Sprintf("resident/%s/%s/%s/start%d", o.Scenario, o.Crash.String(), r.Name, k+1), true)
			im.Hist("resident:" + r.Name)
			when := fmt.Sprintf("after start %d of %d", k+1, len(r.Views))
			where := fmt.Sprintf("[resident %s unit %s, scenario %s, crash at %s]", r.Name, r.Unit, o.Scenario, o.Crash.String())
			switch {
			case strings.HasPrefix(v.Err, "work list") || v.Latency > 20:
				im.Violate(fmt.Sprintf("a status query %s took %.1f s (%s) %s", when, v.Latency, v.Err, where), "query-blocked:resident-"+r.Name, o)
			case !v.Listed:
				im.Violate(fmt.Sprintf("finished unit is not listed %s (%s) %s", when, v.Err, where), "resident-not-listed:"+r.Name, o)
			case v.State != r.Ref.State || v.Size != r.Ref.Size || v.Detail != r.Ref.Detail || v.WorkType != r.Ref.WorkType ||
				v.RemoteNode != r.Ref.RemoteNode || v.RemoteUnit != r.Ref.RemoteUnit:
				im.Violate(fmt.Sprintf("finished unit (state %d %q, size %d, type %q) reports state %d %q, size %d, type %q %s %s",
					r.Ref.State, r.Ref.Detail, r.Ref.Size, r.Ref.WorkType, v.State, v.Detail, v.Size, v.WorkType, when, where), "resident-outcome-lost:"+r.Name, o)
			}
		}
		for k, res := range r.Results {
			if res != "complete" {
				im.Violate(fmt.Sprintf("the output of finished unit %s (%s) cannot be fetched in full after restart %d: %s [scenario %s, crash at %s]",
					r.Unit, r.Name, k+1, res, o.Scenario, o.Crash.String()), "resident-output-lost:"+r.Name, o)
			}
		}
	}
}

// residentCases: every resident of every experiment as a case for the model's [recover].
func residentCases(sh *shared, o *observation) {
	for _, r := range o.Residents {
		if len(r.Views) == 0 {
			continue
		}
		skip := false
		var answers []string
		for i := range r.Views {
			if !r.Views[i].Listed && r.Views[i].Err != "" && !strings.Contains(r.Views[i].Err, "absent") {
				skip = true // the query itself failed: judged by the oracle
			}
			answers = append(answers, obsView(&r.Views[i]))
		}
		if skip {
			continue
		}
		extra := "XNone"
		if r.Ref.RemoteNode != "" {
			extra = fmt.Sprintf("(XRemote %s %s %s %s)", HxS(r.Ref.RemoteNode), HxS(r.Ref.RemoteType), HxS(r.Ref.RemoteUnit), CoqBool(r.Ref.Started))
		}
		st := fmt.Sprintf("(mkStatus %d %d %s %s)", r.Ref.State, r.Ref.Size, HxS(r.Ref.WorkType), extra)
		var out []byte
		for _, x := range residents {
			if x.Unit == r.Unit {
				out = x.Output
			}
		}
		sh.cf.Add(fmt.Sprintf("VCase %s %s %d %s", CoqList([]string{HxS("emit")}), st, len(out), CoqList(answers)),
			fmt.Sprintf("resident %s (state %d %q size %d) in scenario=%s point=%s answers=%+v", r.Name, r.Ref.State, r.Ref.Detail, r.Ref.Size, o.Scenario, o.Crash, r.Views))
	}
}
