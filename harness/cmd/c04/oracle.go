package main

import (
	"fmt"
	"strings"
)

// judge applies the oracle taken from the property text to one experiment.  It knows nothing
// of the model.
//
//	O1  every unit whose ID had been returned to the submitter is listed after the restart with
//	    its work type and, for remote work, the remote node / work type / unit it is bound to
//	O2  a unit that had finished keeps state and size, and its complete output can be fetched
//	O3  a command still running (its runner is alive; remote: RemoteStarted had been recorded) is
//	    followed to completion: finished state, full size, full output
//	O4  a unit that never started is failed, not pending
//	O5  no status query takes more than 5 s
//	O6  one more kill/restart changes nothing
//	O7  once the unit's producer is gone, the daemon's answer (state, detail, size) is the record
//	    on disk and the size of the real stdout file
//
// Signatures: a loss is named after WHERE the process died as well as what was lost, so that the
// known finding (the record is empty after a kill between truncate and write) does not cover a
// loss at any other point or of any other shape.
func judge(sh *shared, o *observation) {
	im := sh.im
	key := o.Scenario + "/" + o.Crash.String()
	im.Count(key, o.Reached && o.Acked)
	im.Hist("scenario:" + o.Scenario)
	im.Hist("crash-point:" + o.Crash.class())
	im.Sample(map[string]interface{}{"scenario": o.Scenario, "crash": o.Crash.String(), "acked": o.Acked, "status_file_at_crash": o.StatusRaw,
		"at_restart": o.AtRestart, "final": o.Final, "results": o.Results})
	if !o.Reached {
		im.Hist("outcome:crash-point-not-reached")
		return
	}
	where := o.Crash.String()
	inWindow := strings.HasSuffix(o.Crash.Point, ".truncated")
	viol := func(symptom, what string) {
		sig := symptom + ":" + where
		im.Violate(fmt.Sprintf("%s [scenario %s, crash at %s, status file at crash: %s]", what, o.Scenario, where, o.StatusRaw), sig, o)
	}
	// O5
	views := map[string]*view{"at restart": &o.AtRestart, "later": &o.Final}
	if o.Cycle2 != nil {
		views["after the second restart"] = o.Cycle2
	}
	for when, v := range views {
		if strings.HasPrefix(v.Err, "daemon does not come back") {
			viol("no-restart", "the daemon does not start again "+when+": "+v.Err)
			return
		}
		if v.Latency > 20 || strings.Contains(v.Err, "timeout") {
			viol("query-blocked", fmt.Sprintf("a status query %s took %.1f s (%s)", when, v.Latency, v.Err))
			return
		}
	}
	// results asked while the restart was in progress: refused, or exact
	if o.DuringRestart != "" {
		im.Hist("results-during-restart:" + strings.SplitN(o.DuringRestart, ":", 2)[0])
		if strings.HasPrefix(o.DuringRestart, "differs") || strings.HasPrefix(o.DuringRestart, "no-end") {
			viol("results-during-restart", "results of a finished unit asked while the daemon was starting: "+o.DuringRestart)
		}
	}
	// a unit directory appearing under a running daemon
	if o.Late != nil {
		r := residents[0].Ref
		switch {
		case o.Late.Latency > 20 || strings.Contains(o.Late.Err, "timeout"):
			viol("query-blocked:rescan", fmt.Sprintf("status of a unit found by rescanning took %.1f s (%s)", o.Late.Latency, o.Late.Err))
		case o.Late.Err != "" || !o.Late.Listed || o.Late.State != r.State || o.Late.Size != r.Size || o.Late.WorkType != r.WorkType:
			viol("rescan-differs", fmt.Sprintf("a unit directory (state %d size %d type %q) found by rescanning is answered listed=%v state %d size %d type %q (%s)",
				r.State, r.Size, r.WorkType, o.Late.Listed, o.Late.State, o.Late.Size, o.Late.WorkType, o.Late.Err))
		}
	}
	if !o.Acked {
		im.Hist("outcome:never-acknowledged")
		return
	}
	if o.Stdin != "" && o.Stdin != "kept" {
		viol("stdin-lost", fmt.Sprintf("the input of unit %s, acknowledged by the final reply of work submit, is not on disk in full: %s", o.Unit, o.Stdin))
		return
	}
	v := o.AtRestart
	wantType := "emit"
	if o.Kind != "local" {
		wantType = "remote"
	}
	// O1
	emptied := o.StatusRaw == "empty"
	switch {
	case !v.Listed:
		viol("not-listed", "acknowledged unit "+o.Unit+" is not listed after the restart ("+v.Err+")")
		return
	case v.WorkType != wantType:
		if inWindow && v.WorkType == "" && (emptied || v.Unknown) {
			// the known shape: the record was empty, recovery rewrote it without its work type
			viol("truncate-window-record-emptied", fmt.Sprintf("unit %s lost its record: listed with WorkType %q, state %d, %q, unknown-worktype=%v (before the crash: %s)",
				o.Unit, v.WorkType, v.State, v.Detail, v.Unknown, beforeText(o)))
		} else {
			viol("worktype-lost", fmt.Sprintf("unit %s is listed with WorkType %q instead of %q", o.Unit, v.WorkType, wantType))
		}
		return
	}
	if o.Kind != "local" {
		wantNode := "c04nowhere"
		if o.Kind == "remote-bound" {
			wantNode = "" // checked against the record seen before the crash
		}
		if v.RemoteType != "emit" || (wantNode != "" && v.RemoteNode != wantNode) ||
			(o.Before != nil && o.Before.RemoteNode != "" && v.RemoteNode != o.Before.RemoteNode) ||
			(o.Before != nil && o.Before.RemoteUnit != "" && v.RemoteUnit != o.Before.RemoteUnit) {
			viol("binding-lost", fmt.Sprintf("remote unit %s is bound to node %q type %q unit %q after the restart (before: %s)", o.Unit, v.RemoteNode, v.RemoteType, v.RemoteUnit, beforeText(o)))
			return
		}
	}
	// RemoteStarted is only ever set by the submit path, so a record that shows it after the
	// restart showed it before the crash
	if o.HeldLate {
		// the held runner was scheduled too late after its release for this run to be the situation
		// it is meant to be (the machine is overloaded): not judged, not a model case
		im.Hist("held-runner:came-back-too-late-not-judged")
		return
	}
	// O7: once nothing writes any more, what the daemon answers is what is on disk — the record
	// and the real stdout file — (and by O6 stays so across a further restart)
	if o.Disk != nil && o.Final.Listed && (o.Final.State != o.Disk.State || o.Final.Size != o.Disk.Size || o.Final.Detail != o.Disk.Detail ||
		(o.Kind == "local" && o.Disk.State == 2 && int64(o.DiskOut) != o.Final.Size)) {
		viol("report-differs-from-record", fmt.Sprintf("unit %s: the daemon answers state %d %q size %d while the record on disk says state %d %q size %d and stdout holds %d bytes (nothing is writing any more)",
			o.Unit, o.Final.State, o.Final.Detail, o.Final.Size, o.Disk.State, o.Disk.Detail, o.Disk.Size, o.DiskOut))
		return
	}
	startedBefore := (o.Before != nil && o.Before.Started) || (o.Replied && o.Kind == "remote-bound" && hasNote(o, "Job Started")) || v.Started
	switch {
	case o.Finished:
		// O2
		im.Hist("phase:finished")
		// (the Detail text of a remote unit that never started is rewritten by every restart —
		// "Failed to restart: remote work had not previously started" replaces e.g. "Work unit
		// expired on …"; state and size, which the property names, are compared, the text recorded)
		detailFree := o.Kind != "local" && !o.Before.Started
		if detailFree && v.Detail != o.Before.Detail {
			im.Hist("observation:detail-of-unstarted-remote-unit-rewritten-at-restart")
		}
		sameDetail := func(a, b string) bool { return detailFree || a == b }
		if v.State != o.Before.State || v.Size != o.Before.Size || !sameDetail(v.Detail, o.Before.Detail) ||
			o.Final.State != o.Before.State || o.Final.Size != o.Before.Size || !sameDetail(o.Final.Detail, o.Before.Detail) {
			viol("outcome-lost", fmt.Sprintf("finished unit %s (state %d %q, size %d) reports state %d %q size %d after the restart, later state %d %q size %d",
				o.Unit, o.Before.State, o.Before.Detail, o.Before.Size, v.State, v.Detail, v.Size, o.Final.State, o.Final.Detail, o.Final.Size))
		} else if o.Cycle2 != nil && o.Cycle2.Listed && o.Cycle2.WorkType != "" &&
			(o.Cycle2.State != o.Before.State || o.Cycle2.Size != o.Before.Size || !sameDetail(o.Cycle2.Detail, o.Before.Detail)) {
			viol("outcome-lost", fmt.Sprintf("finished unit %s (state %d %q, size %d) reports state %d %q size %d after the second restart",
				o.Unit, o.Before.State, o.Before.Detail, o.Before.Size, o.Cycle2.State, o.Cycle2.Detail, o.Cycle2.Size))
		} else if o.Results != "complete" {
			viol("output-lost", "the output of finished unit "+o.Unit+" cannot be fetched in full: "+o.Results)
		} else if o.Results2 != "" && o.Results2 != "complete" && !(o.Cycle2 != nil && o.Cycle2.WorkType == "") {
			viol("output-lost", "the output of finished unit "+o.Unit+" cannot be fetched in full after the second restart: "+o.Results2)
		}
	case o.Kind == "local" && o.RunnerUp, o.Kind == "remote-bound" && startedBefore:
		// O3
		im.Hist("phase:running")
		if !complete(o.Final.State) || o.Final.Size != int64(o.Plan.size()) {
			viol("not-followed", fmt.Sprintf("running unit %s was not followed to completion: state %d size %d (expected a finished state and size %d)", o.Unit, o.Final.State, o.Final.Size, o.Plan.size()))
		} else if o.Results != "complete" {
			viol("output-lost", "the output of unit "+o.Unit+" followed to completion cannot be fetched in full: "+o.Results)
		}
	case o.Kind == "local" && o.Spawned:
		// the command was running but its runner is gone (killed at a crash point of its own)
		im.Hist("phase:runner-killed")
		if !complete(o.Final.State) {
			viol("runner-killed-unit-never-completes", fmt.Sprintf("the runner of unit %s died; the unit stays in state %d (size %d) and is never completed", o.Unit, o.Final.State, o.Final.Size))
		}
	default:
		// O4
		im.Hist("phase:never-started")
		if o.Final.State != 3 {
			viol("left-pending", fmt.Sprintf("unit %s never started and reports state %d (%q) after the restart instead of Failed", o.Unit, o.Final.State, o.Final.Detail))
		}
	}
	// O6
	if o.Cycle2 != nil && complete(o.Final.State) {
		w := o.Cycle2
		if w.Listed && w.WorkType == "" && w.Unknown && o.Final.WorkType != "" {
			// the plain kill of the second cycle happened to fall into a truncate->write window
			viol("truncate-window-record-emptied", fmt.Sprintf("unit %s lost its record at the second kill (a plain SIGKILL that fell between truncation and rewrite): WorkType %q state %d, before: %q state %d", o.Unit, w.WorkType, w.State, o.Final.WorkType, o.Final.State))
		} else if w.Listed != o.Final.Listed || w.WorkType != o.Final.WorkType || w.State != o.Final.State || w.Size != o.Final.Size ||
			w.RemoteNode != o.Final.RemoteNode || w.RemoteUnit != o.Final.RemoteUnit {
			viol("second-restart-differs", fmt.Sprintf("unit %s: state %d size %d type %q before, state %d size %d type %q after one more kill/restart",
				o.Unit, o.Final.State, o.Final.Size, o.Final.WorkType, w.State, w.Size, w.WorkType))
		}
	}
}

func beforeText(o *observation) string {
	if o.Before == nil {
		return "never observed"
	}
	b := o.Before
	return fmt.Sprintf("WorkType %q state %d size %d remote %q/%q", b.WorkType, b.State, b.Size, b.RemoteNode, b.RemoteUnit)
}

func hasNote(o *observation, s string) bool {
	for _, n := range o.Notes {
		if strings.Contains(n, s) {
			return true
		}
	}
	return false
}
