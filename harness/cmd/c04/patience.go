package main

// The harness's patience is not the property.  A daemon that is alive, has logged no error and
// has not answered within the time the harness gives it (a start-up on a busy machine) is not a
// verdict: the experiment is run again from scratch, and if that happens again it is recorded as
// `inconclusive:daemon-start-timeout` and not judged.  A daemon that EXITS during start-up, or
// that answers wrongly, is a verdict.  Bounds that are about the property (a query answered at
// all, a release carried out) have generous margins and are confirmed by a second run from
// scratch before they are reported.

import (
	"fmt"
	"strings"

	. "verifharness/lib"
)

func exitedAtStart(what string) bool {
	return strings.Contains(what, "exited during start-up") || strings.Contains(what, "panic")
}

// startTimeout: a restart of this experiment ended in "daemon does not come back" with the
// process alive (it did not exit).
func startTimeout(o *observation) bool {
	if o == nil {
		return false
	}
	for _, v := range []*view{&o.AtRestart, o.Cycle2} {
		if v != nil && strings.HasPrefix(v.Err, "daemon does not come back") && !exitedAtStart(v.Err) {
			return true
		}
	}
	return false
}

// slowQuery: a status query of this experiment took longer than the oracle allows (a blocked
// daemon, or a busy machine): the experiment is confirmed by running it again before it is judged.
func slowQuery(o *observation) bool {
	if o == nil {
		return false
	}
	for _, v := range []*view{&o.AtRestart, &o.Final, o.Cycle2, o.Late} {
		if v != nil && (v.Latency > 20 || strings.Contains(v.Err, "timeout")) {
			return true
		}
	}
	return false
}

func inconclusive(im *Impl, where, what string) {
	im.Hist("inconclusive:daemon-start-timeout")
	lst, _ := im.Extra["inconclusive"].([]string)
	im.Extra["inconclusive"] = append(lst, where+": "+what)
}

// patienceSig: a report that says the harness could not set its scenario up, or that a daemon did
// not come up in time without having exited.
func patienceSig(sig, what string) bool {
	if exitedAtStart(what) {
		return false
	}
	if strings.HasPrefix(sig, "harness-") {
		return true
	}
	return strings.HasPrefix(sig, "no-restart") && (strings.Contains(what, "did not come up") || strings.Contains(what, "did not finish its initialization"))
}

// timingSig: a bound about the property that a busy machine can exceed: confirmed by a second run.
func timingSig(sig string) bool {
	return strings.HasPrefix(sig, "query-blocked") || strings.HasPrefix(sig, "release-not-resumed")
}

// guarded runs a whole scenario on a result sheet of its own; see the head of this file.
func guarded(sh *shared, name string, run func(s *shared, again string)) {
	for attempt := 0; attempt < 2; attempt++ {
		tmp := &shared{im: NewImpl(sh.im.Property, sh.im.Seed, sh.im.Tier), cf: &CaseFile{}}
		again := ""
		if attempt > 0 {
			again = "-again"
		}
		run(tmp, again)
		nPat, nTiming, nOther := 0, 0, 0
		for _, v := range tmp.im.Violations {
			switch {
			case patienceSig(v.Sig, v.What):
				nPat++
			case timingSig(v.Sig):
				nTiming++
			default:
				nOther++
			}
		}
		if attempt == 0 && nOther == 0 && nPat+nTiming > 0 {
			sh.mu.Lock()
			sh.im.Hist("rerun-from-scratch:" + name)
			sh.mu.Unlock()
			continue
		}
		sh.mu.Lock()
		sh.im.Evaluations += tmp.im.Evaluations
		for k := range tmp.im.Distinct {
			if !sh.im.Distinct[k] {
				sh.im.Distinct[k] = true
				sh.im.NonTrivial++
			}
		}
		for k, n := range tmp.im.Histogram {
			sh.im.Histogram[k] += n
		}
		for k, x := range tmp.im.Extra {
			sh.im.Extra[k] = x
		}
		for _, x := range tmp.im.Samples {
			sh.im.Sample(x)
		}
		for _, v := range tmp.im.Violations {
			if patienceSig(v.Sig, v.What) {
				inconclusive(sh.im, "scenario "+name, fmt.Sprintf("[%s] %s", v.Sig, v.What))
				continue
			}
			sh.im.Violations = append(sh.im.Violations, v)
		}
		for i := range tmp.cf.Cases {
			sh.cf.Add(tmp.cf.Cases[i], tmp.cf.Labels[i])
		}
		sh.obs = append(sh.obs, tmp.obs...)
		sh.mu.Unlock()
		return
	}
}
