package main

// C04 — acknowledged work units survive crash/restart with identity and outcome.
//
// Process level: the real receptor binary (ctx.Bin, built with -tags verif) is killed at every
// crash point its submit path, its status rewrites and its command runner reach
// (VERIF_CRASH=name:n, enumerated first with VERIF_CRASH_LOG) and at plain moments, then started
// again on the same data directory.  What `work list`, `work status` and `work results` answer
// is judged by an oracle taken from the property text (oracle.go) and compared with the
// recovery function of Model/Crash.v on the model's crashed file-system state (cases.go).

import (
	"bufio"
	"encoding/json"
	"fmt"
	"os"
	"path/filepath"
	"sort"
	"strconv"
	"strings"
	"sync"
	"time"

	. "verifharness/lib"
)

func main() { Main("C04", runC04, nil) }

// ---------- the scripted command (same byte pattern as C05) ----------

func patByte(i int) byte { return byte((7*i + i/251) % 256) }

var pattern = func() []byte {
	b := make([]byte, 1<<16)
	for i := range b {
		b[i] = patByte(i)
	}
	return b
}()

const emitScript = `#!/bin/bash
pat=$1; shift
off=0
for st in "$@"; do
  case $st in
    w*) n=${st#w}; tail -c +$((off+1)) "$pat" | head -c "$n"; off=$((off+n));;
    s*) ms=${st#s}; sleep $(printf '%d.%03d' $((ms/1000)) $((ms%1000)));;
    x*) exit ${st#x};;
    h) trap 'exit 130' INT TERM; while :; do sleep 0.05; done;;
  esac
done
exit 0
`

func workCommandYAML(dir string) string {
	_ = os.MkdirAll(dir, 0o755)
	script, pat := filepath.Join(dir, "emit.sh"), filepath.Join(dir, "pattern.bin")
	Must(os.WriteFile(script, []byte(emitScript), 0o755))
	Must(os.WriteFile(pat, pattern, 0o644))
	return fmt.Sprintf("- work-command:\n    worktype: emit\n    command: bash\n    params: \"%s %s\"\n    allowruntimeparams: true\n", script, pat)
}

type plan struct {
	Steps []string `json:"steps"`
}

func (p plan) params() string { return strings.Join(p.Steps, " ") }
func (p plan) size() int {
	n := 0
	for _, s := range p.Steps {
		if s[0] == 'w' {
			v, _ := strconv.Atoi(s[1:])
			n += v
		}
	}
	return n
}
func (p plan) duration() time.Duration {
	var d time.Duration
	for _, s := range p.Steps {
		if s[0] == 's' {
			v, _ := strconv.Atoi(s[1:])
			d += time.Duration(v) * time.Millisecond
		}
	}
	return d
}

// firstWrite is the output the command has produced when it reaches its first pause.
func (p plan) firstWrite() int {
	n := 0
	for _, s := range p.Steps {
		if s[0] == 's' {
			break
		}
		if s[0] == 'w' {
			v, _ := strconv.Atoi(s[1:])
			n += v
		}
	}
	return n
}

// ---------- crash points ----------

// crashSpec says how the daemon (or the runner) dies in one run.
type crashSpec struct {
	Point  string        `json:"point"`            // hook name, or "kill" for a plain SIGKILL of the daemon
	Hit    int           `json:"hit,omitempty"`    // n-th time the process reaches the hook
	Runner bool          `json:"runner,omitempty"` // the hit is reached by the command runner, not the daemon
	After  time.Duration `json:"after,omitempty"`  // for "kill": delay after the submit was answered
	Phase  string        `json:"phase,omitempty"`  // for "kill": "running" or "finished"
	// Pause: the daemon alone dies; its runner, alive, is held (SIGSTOP) from the moment the daemon
	// is gone until the new daemon has scanned the unit, so that the restart finds the record
	// still Pending with a live runner behind it, and then goes on (SIGCONT)
	Pause bool `json:"pause_runner,omitempty"`
}

func (c crashSpec) String() string {
	if c.Point == "kill" {
		return "kill@" + c.Phase
	}
	who := "daemon"
	if c.Runner {
		who = "runner"
	}
	if c.Pause {
		who += "+runner-held"
	}
	return fmt.Sprintf("%s:%d@%s", c.Point, c.Hit, who)
}

func (c crashSpec) env() string {
	if c.Point == "kill" {
		return ""
	}
	return fmt.Sprintf("VERIF_CRASH=%s:%d", c.Point, c.Hit)
}

// role restricts the crash to the daemon or to the command runner (which inherits the environment).
func (c crashSpec) role() string {
	if c.Runner {
		return "VERIF_CRASH_ROLE=runner"
	}
	return "VERIF_CRASH_ROLE=daemon"
}

// class groups crash points for signatures: the two truncate->write windows, the runner, the rest.
func (c crashSpec) class() string {
	who := ""
	if c.Runner {
		who = "runner-"
	}
	return who + c.Point
}

type hit struct {
	Pid  int
	Name string
	N    int
}

func readCrashLog(path string) []hit {
	f, err := os.Open(path)
	if err != nil {
		return nil
	}
	defer f.Close()
	var out []hit
	sc := bufio.NewScanner(f)
	for sc.Scan() {
		var h hit
		if _, err := fmt.Sscanf(sc.Text(), "%d %s %d", &h.Pid, &h.Name, &h.N); err == nil {
			out = append(out, h)
		}
	}
	return out
}

// ---------- observations ----------

// view is what the control service says about one unit at one moment.
type view struct {
	Listed     bool    `json:"listed"`
	State      int     `json:"state"`
	Size       int64   `json:"size"`
	WorkType   string  `json:"worktype"`
	Detail     string  `json:"detail"`
	Unknown    bool    `json:"unknown_worktype"` // ExtraData == "Unknown WorkType"
	RemoteNode string  `json:"remote_node,omitempty"`
	RemoteType string  `json:"remote_type,omitempty"`
	RemoteUnit string  `json:"remote_unit,omitempty"`
	Started    bool    `json:"remote_started,omitempty"`
	Pid        int     `json:"pid,omitempty"`
	Latency    float64 `json:"latency_s"` // slowest of the queries that produced this view
	Err        string  `json:"err,omitempty"`
}

func viewOf(st map[string]interface{}) view {
	v := view{Listed: true, State: -1}
	if f, ok := st["State"].(float64); ok {
		v.State = int(f)
	}
	if f, ok := st["StdoutSize"].(float64); ok {
		v.Size = int64(f)
	}
	v.WorkType, _ = st["WorkType"].(string)
	v.Detail, _ = st["Detail"].(string)
	switch ed := st["ExtraData"].(type) {
	case string:
		v.Unknown = ed == "Unknown WorkType"
	case map[string]interface{}:
		v.RemoteNode, _ = ed["RemoteNode"].(string)
		v.RemoteType, _ = ed["RemoteWorkType"].(string)
		v.RemoteUnit, _ = ed["RemoteUnitID"].(string)
		v.Started, _ = ed["RemoteStarted"].(bool)
		if f, ok := ed["Pid"].(float64); ok {
			v.Pid = int(f)
		}
	}
	return v
}

// query asks `work list` and `work status <unit>`, each bounded by 25 s (an answer later than 20 s
// counts as a blocked daemon; a busy machine answers in well under that).
func query(sock, unit string) view {
	t0 := time.Now()
	lst, err := WorkList(sock, 25*time.Second)
	lat := time.Since(t0).Seconds()
	if err != nil {
		return view{State: -1, Latency: lat, Err: "work list: " + err.Error()}
	}
	u, ok := lst[unit].(map[string]interface{})
	t1 := time.Now()
	st, serr := WorkStatus(sock, unit, 25*time.Second)
	if l2 := time.Since(t1).Seconds(); l2 > lat {
		lat = l2
	}
	if !ok {
		v := view{State: -1, Latency: lat}
		if serr == nil {
			v = viewOf(st) // known to `work status` (found by rescanning) though not listed
			v.Listed = false
			v.Latency = lat
			v.Err = "answered by work status but absent from work list"
		}
		return v
	}
	v := viewOf(u)
	v.Latency = lat
	if serr != nil {
		v.Err = "work status: " + serr.Error()
	}
	return v
}

// observation is one crash/restart experiment on one unit.
type observation struct {
	Scenario      string        `json:"scenario"`
	Kind          string        `json:"kind"` // local | remote-bound | remote-unbound
	Plan          plan          `json:"plan"`
	Crash         crashSpec     `json:"crash"`
	Reached       bool          `json:"crash_reached"`
	Acked         bool          `json:"acked"`   // the unit ID had been returned to the submitter
	Replied       bool          `json:"replied"` // the final reply of `work submit` had arrived
	Unit          string        `json:"unit"`
	Spawned       bool          `json:"runner_spawned"`       // a command runner process existed at some time
	RunnerUp      bool          `json:"runner_alive"`         // ... and was alive when the daemon was started again
	Before        *view         `json:"before,omitempty"`     // last status seen before the crash, if any
	Finished      bool          `json:"finished_before"`      // ... and it was a finished one
	AtRestart     view          `json:"at_restart"`           // first answers after the restart
	Final         view          `json:"final"`                // after waiting for the unit to finish
	Results       string        `json:"results"`              // "complete" | "short:<n>" | "wrong" | "no-end" | "error:…" | "" (not asked)
	Cycle2        *view         `json:"cycle2,omitempty"`     // after one more kill/restart
	StatusRaw     string        `json:"status_file_at_crash"` // "absent" | "empty" | "json"
	StatusDown    string        `json:"status_file_before_restart"`
	LocalOut      int           `json:"stdout_bytes_at_restart"`
	Notes         []string      `json:"notes,omitempty"`
	Results2      string        `json:"results_after_second_restart"`
	Disk          *view         `json:"record_on_disk,omitempty"` // the status file once nothing writes any more
	DiskOut       int           `json:"stdout_bytes_on_disk"`
	HeldState     int           `json:"record_state_when_runner_held"`
	HeldLate      bool          `json:"held_runner_came_back_late,omitempty"`
	Stdin         string        `json:"stdin_on_disk,omitempty"` // "kept" | "differs:…" (only when the final reply had arrived)
	DuringRestart string        `json:"results_during_restart,omitempty"`
	Late          *view         `json:"late_planted_unit,omitempty"`
	Residents     []residentObs `json:"residents,omitempty"`
}

// ---------- run ----------

type shared struct {
	mu  sync.Mutex
	im  *Impl
	cf  *CaseFile
	obs []*observation
}

func runC04(c *Ctx) {
	im := NewImpl("C04", c.Seed, c.Tier)
	im.Rule = "one case = one (scenario, crash point) run of the real binary: the scenario (local command that is never started / still running / finished; remote work bound to a second node / to an unreachable node) is run once with VERIF_CRASH_LOG to enumerate the crash points reached by the daemon and by the command runner, then once per (point, hit) with VERIF_CRASH and at plain SIGKILL moments; the daemon is started again on the same data directory, queried, the unit followed to its end, and killed and restarted once more; non-trivial = the crash was reached after the unit ID had been returned to the submitter; distinct by (scenario, point, hit); remote-output-behind-record: five remote units (Succeeded and Failed) are run to their end on a second node and mirrored, the submitting daemon is SIGKILLed and its copies of the outputs are shortened to what an output mirror lagging behind the status mirror would have stored (none, a seed-chosen part, all but one byte, all = control) while the records stay final with size N; the daemon is started twice on that directory with the executing node alive; each (unit, restart) is one case, non-trivial = fewer than N bytes were stored; after every start the unit must be listed with state, size, work type and binding unchanged and `work results` from 0 must deliver exactly the N bytes and end (60 s; a failure is reported only when a second run from scratch reproduces it)"
	if c.Bin == "" {
		fmt.Fprintln(os.Stderr, "C04 needs the receptor binary (VERIF_BIN)")
		os.Exit(3)
	}
	tmp, err := os.MkdirTemp("", "vh-c04-")
	Must(err)
	if os.Getenv("C04_KEEP") == "" {
		defer os.RemoveAll(tmp)
	} else {
		fmt.Fprintln(os.Stderr, "keeping", tmp)
	}
	sh := &shared{im: im, cf: &CaseFile{Dir: c.Out, Prop: "C04", Imports: []string{"Model.Crash"}, CaseType: "crash_case", CheckFn: "crash_check", PerShard: 60}}
	runAll(c, sh, tmp)
	sort.Slice(sh.obs, func(i, j int) bool {
		a, b := sh.obs[i], sh.obs[j]
		if a.Scenario != b.Scenario {
			return a.Scenario < b.Scenario
		}
		return a.Crash.String() < b.Crash.String()
	})
	for _, o := range sh.obs {
		judge(sh, o)
		judgeResidents(sh, o)
		addCase(sh, o)
		residentCases(sh, o)
	}
	if os.Getenv("C04_DEBUG") != "" {
		for _, o := range sh.obs {
			j, _ := json.Marshal(o)
			fmt.Fprintln(os.Stderr, string(j))
		}
	}
	Must(sh.cf.Write())
	Must(im.Write(c.Out))
}
