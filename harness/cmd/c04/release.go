package main

// A release that is pending when the daemon dies: a remote unit is running on node B; B becomes
// unreachable; `work release` on the submitting node answers "release pending" and records the
// intent (LocalCancelled, LocalReleased) in the unit's record; the submitting daemon is killed and
// restarted, twice, while B is still away — the unit is still listed with its work type and its
// binding and unchanged state; B comes back — the release is carried out on both nodes.

import (
	"fmt"
	"os"
	"path/filepath"
	"strings"
	"time"

	. "verifharness/lib"
)

func runReleasePending(c *Ctx, sh *shared, dir string) {
	rep := map[string]interface{}{"scenario": "remote-release-pending"}
	viol := func(sig, what string) {
		sh.mu.Lock()
		sh.im.Violate(what+" [scenario remote-release-pending]", sig, rep)
		sh.mu.Unlock()
	}
	sc := scenario{Name: "remote-release-pending", Kind: "remote-bound", Plan: plan{Steps: []string{"w100", "s4000", "w50"}}}
	e, err := setup(c, dir, sc, "rp")
	if err != nil {
		viol("harness-scenario", "setup: "+err.Error())
		return
	}
	defer e.teardown()
	a, b := e.a, e.b
	if err := startReady(a); err != nil || !waitPing(a.Sock, b.ID, 90*time.Second) {
		viol("harness-scenario", fmt.Sprintf("nodes do not come up: %v", err))
		return
	}
	unit, acked, replied, reply, err := submit(a.Sock, b.ID, sc.Plan)
	if err != nil || !acked || !replied {
		viol("harness-scenario", fmt.Sprintf("submit: %v %q", err, reply))
		return
	}
	var before view
	if !waitFor(15*time.Second, func() bool {
		st, err := WorkStatus(a.Sock, unit, 3*time.Second)
		if err != nil {
			return false
		}
		before = viewOf(st)
		return before.Started && before.RemoteUnit != "" && before.State == 1
	}) {
		viol("harness-scenario", fmt.Sprintf("the remote unit never showed Running: %+v", before))
		return
	}
	b.Kill() // the remote node is away
	time.Sleep(300 * time.Millisecond)
	ans, err := OneShot(a.Sock, map[string]interface{}{"command": "work", "subcommand": "release", "unitid": unit}, 20*time.Second)
	rep["release_reply"] = ans
	if err != nil || !strings.Contains(ans, "release pending") {
		viol("harness-scenario", fmt.Sprintf("work release with the remote node away answered %q %v", ans, err))
		return
	}
	st, _ := WorkStatus(a.Sock, unit, 3*time.Second)
	before = viewOf(st)
	var answers []view
	for k := 1; k <= 2; k++ {
		a.Kill()
		time.Sleep(300 * time.Millisecond)
		if err := startReady(a); err != nil {
			viol("no-restart:release-pending", "the daemon does not start again: "+err.Error())
			return
		}
		v := query(a.Sock, unit)
		answers = append(answers, v)
		sh.mu.Lock()
		sh.im.Count(fmt.Sprintf("remote-release-pending/restart%d", k), true)
		sh.im.Hist("scenario:remote-release-pending")
		sh.mu.Unlock()
		switch {
		case v.Latency > 20 || strings.Contains(v.Err, "timeout"):
			viol("query-blocked:release-pending", fmt.Sprintf("a status query after restart %d took %.1f s (%s)", k, v.Latency, v.Err))
			return
		case !v.Listed:
			viol("not-listed:release-pending", fmt.Sprintf("unit %s, whose release is pending because the remote node is away, is not listed after restart %d (%s)", unit, k, v.Err))
			return
		case v.WorkType != "remote" || v.RemoteNode != before.RemoteNode || v.RemoteUnit != before.RemoteUnit || v.RemoteType != before.RemoteType || !v.Started:
			viol("binding-lost:release-pending", fmt.Sprintf("unit %s after restart %d: type %q node %q unit %q started=%v (before: node %q unit %q)", unit, k, v.WorkType, v.RemoteNode, v.RemoteUnit, v.Started, before.RemoteNode, before.RemoteUnit))
			return
		case v.State != before.State || v.Size != before.Size:
			viol("outcome-lost:release-pending", fmt.Sprintf("unit %s after restart %d: state %d size %d (before the kill: state %d size %d)", unit, k, v.State, v.Size, before.State, before.Size))
			return
		}
	}
	// the record of the intent, for the model's recover: a started remote unit is left as it is
	sh.mu.Lock()
	sh.cf.Add(fmt.Sprintf("VCase %s (mkStatus %d %d %s (XRemote %s %s %s true)) 0 %s", CoqList([]string{HxS("emit")}), before.State, before.Size, HxS("remote"),
		HxS(before.RemoteNode), HxS(before.RemoteType), HxS(before.RemoteUnit), CoqList([]string{obsView(&answers[0]), obsView(&answers[1])})),
		fmt.Sprintf("remote unit with a pending release: before=%+v answers=%+v", before, answers))
	sh.mu.Unlock()
	// the remote node comes back: the release is carried out
	if err := startReady(b); err != nil {
		viol("harness-scenario", "node B does not come back: "+err.Error())
		return
	}
	t0 := time.Now()
	gone := waitFor(50*time.Second, func() bool {
		lst, err := WorkList(a.Sock, 5*time.Second)
		if err != nil {
			return false
		}
		_, here := lst[unit]
		_, serr := os.Stat(filepath.Join(b.UnitDir(before.RemoteUnit), "status"))
		return !here && serr != nil
	})
	sh.mu.Lock()
	sh.im.Extra["release-pending"] = map[string]interface{}{"released_after_remote_came_back": gone, "after": time.Since(t0).Round(100 * time.Millisecond).String()}
	sh.im.Count("remote-release-pending/resumed", true)
	sh.mu.Unlock()
	if !gone {
		viol("release-not-resumed", fmt.Sprintf("unit %s: the release recorded before two restarts was not carried out within 50 s after the remote node came back", unit))
	}
}
