package main

// Operation-sequence correspondence: the file-system calls the real daemon makes on the unit
// directory during one submission (strace -f -y, up to the start of the command runner or the
// final reply) must be, call for call and in order, the modifying steps of the model's program
// for the submission (Model/Crash.v d_prog, OCase).  A reordered, dropped or added step that no
// crash hook separates shows here.

import (
	"bufio"
	"fmt"
	"os"
	"os/exec"
	"path/filepath"
	"strings"
	"syscall"
	"time"

	. "verifharness/lib"
)

// tag numbers of Model/Crash.v op_tag: 10 mkdir; 20+f create, 30+f open-truncate, 40+f truncate,
// 50+f write, 60+f append; f: 0 status, 1 status.lock, 2 stdin, 3 stdout
func fileID(path string) int {
	switch filepath.Base(path) {
	case "status":
		return 0
	case "status.lock":
		return 1
	case "stdin":
		return 2
	case "stdout":
		return 3
	}
	return -1
}

// parseTrace turns strace lines into tags; it stops at the exec of the command runner.
func parseTrace(path, unitDir string) (tags []int, raw []string) {
	f, err := os.Open(path)
	if err != nil {
		return nil, nil
	}
	defer f.Close()
	sc := bufio.NewScanner(f)
	sc.Buffer(make([]byte, 1<<20), 1<<20)
	inUnit := func(s string) (string, bool) {
		i := strings.Index(s, unitDir)
		if i < 0 {
			return "", false
		}
		rest := s[i:]
		if j := strings.IndexAny(rest, "\">,"); j >= 0 {
			rest = rest[:j]
		}
		return rest, true
	}
	for sc.Scan() {
		l := sc.Text()
		if strings.Contains(l, "resumed>") {
			continue
		}
		if strings.Contains(l, "execve(") && strings.Contains(l, "--command-runner") {
			break
		}
		p, ok := inUnit(l)
		if !ok || strings.Contains(l, "ENOENT") {
			continue
		}
		call := l
		if i := strings.Index(l, " "); i >= 0 {
			call = strings.TrimSpace(l[i:])
		}
		tag := -1
		switch {
		case strings.HasPrefix(call, "mkdirat(") || strings.HasPrefix(call, "mkdir("):
			if p == unitDir {
				tag = 10
			}
		case strings.HasPrefix(call, "openat("):
			id := fileID(p)
			switch {
			case id < 0, id == 1: // the lock file is counted at its ftruncate
			case strings.Contains(call, "O_TRUNC"):
				tag = 30 + id
			case strings.Contains(call, "O_CREAT"):
				tag = 20 + id
			}
		case strings.HasPrefix(call, "ftruncate("):
			if id := fileID(p); id == 1 {
				tag = 31
			} else if id >= 0 {
				tag = 40 + id
			}
		case strings.HasPrefix(call, "write("):
			if id := fileID(p); id == 0 {
				tag = 50
			} else if id >= 2 {
				tag = 60 + id
			}
		case strings.HasPrefix(call, "splice("), strings.HasPrefix(call, "copy_file_range("), strings.HasPrefix(call, "sendfile("):
			if id := fileID(p); id >= 2 {
				tag = 60 + id
			}
		}
		if tag < 0 {
			continue
		}
		// one append of the model may be several write/splice calls
		if tag >= 60 && len(tags) > 0 && tags[len(tags)-1] == tag {
			continue
		}
		tags = append(tags, tag)
		raw = append(raw, l)
	}
	return tags, raw
}

// opSequence runs one submission under strace and adds the OCase.
func opSequence(c *Ctx, sh *shared, dir string, sc scenario) {
	if _, err := exec.LookPath("strace"); err != nil {
		sh.mu.Lock()
		sh.im.Hist("opseq:no-strace")
		sh.mu.Unlock()
		return
	}
	e, err := setup(c, dir, sc, "o"+sc.Name[:1])
	if err != nil {
		return
	}
	defer e.teardown()
	if err := startReady(e.a); err != nil {
		return
	}
	trace := filepath.Join(dir, "strace.txt")
	st := exec.Command("strace", "-f", "-y", "-qq", "-s", "160", "-e", "trace=openat,mkdirat,mkdir,ftruncate,write,splice,copy_file_range,sendfile,execve",
		"-o", trace, "-p", fmt.Sprint(e.a.Cmd.Process.Pid))
	if err := st.Start(); err != nil {
		return
	}
	time.Sleep(1500 * time.Millisecond) // attach
	unit, acked, replied, _, _ := submit(e.a.Sock, e.target, sc.Plan)
	time.Sleep(800 * time.Millisecond)
	_ = st.Process.Signal(syscall.SIGINT)
	done := make(chan struct{})
	go func() { _ = st.Wait(); close(done) }()
	select {
	case <-done:
	case <-time.After(5 * time.Second):
		_ = st.Process.Kill()
	}
	if !acked || !replied || unit == "" {
		sh.mu.Lock()
		sh.im.Hist("opseq:submit-failed")
		sh.mu.Unlock()
		return
	}
	tags, raw := parseTrace(trace, e.a.UnitDir(unit))
	if len(tags) > 0 && tags[0] != 10 {
		sh.mu.Lock()
		sh.im.Hist("opseq:strace-attached-too-late") // an overloaded machine: the first calls were missed
		sh.mu.Unlock()
		return
	}
	if len(tags) == 0 {
		sh.mu.Lock()
		sh.im.Hist("opseq:empty-trace") // ptrace not permitted here
		sh.mu.Unlock()
		return
	}
	remote, types, wtype, n := "None", CoqList([]string{HxS("emit")}), HxS("emit"), 7
	if sc.Kind != "local" {
		remote = fmt.Sprintf("(Some (%s, %s))", HxS(e.target), HxS("emit"))
		wtype = HxS("remote")
	}
	scTerm := fmt.Sprintf("(mkSc 1 %s %s false %s %s [] true 4242 %s true)", wtype, remote, HxS("RUNIT001"), HxS("input\n"), types)
	ts := make([]string, len(tags))
	for i, t := range tags {
		ts[i] = fmt.Sprint(t)
	}
	sh.mu.Lock()
	defer sh.mu.Unlock()
	sh.im.Count("opseq/"+sc.Name, true)
	sh.im.Hist("opseq:" + sc.Kind)
	sh.im.Extra["opseq:"+sc.Name] = strings.Join(ts, " ")
	sh.cf.Add(fmt.Sprintf("OCase %s %s %s", scTerm, CoqNat(n), CoqList(ts)),
		fmt.Sprintf("file-system calls of one %s submission: %s | %s", sc.Kind, strings.Join(ts, " "), strings.Join(raw, " ; ")))
}
