package main

import (
	"fmt"
	"strings"

	. "verifharness/lib"
)

// The model's programs (Model/Crash.v d_prog / r_prog), as far as the harness has to know them
// to say in model terms where a run died:
//
//	local   daemon: 0 mkdir, 1 Save, 2 create stdin, 3 Upd#1, [ID sent] 4 write stdin, 5 Upd#2,
//	                6 Upd#3, 7 runner started, 8 Upd#4 (pid), 9 Upd#5 (after the runner's exit)
//	        runner: 0 Upd#1, 1 create stdout, then per write of the command: append, Upd (tick);
//	                last: Upd (final)
//	remote  daemon: 0 mkdir, 1 Save, 2 Upd#1 (binding), 3 create stdin, 4 Upd#2, [ID sent]
//	                5 write stdin, 6 Upd#3, 7 Upd#4 (remote unit ID), 8 Upd#5 (started);
//	                then the mirror, same shape as the runner's ticks
//
// An idle tick (a status rewrite with no new output) is a write of zero bytes in the model.
var (
	localUpd  = []int{3, 5, 6, 8, 9}
	remoteUpd = []int{2, 4, 6, 7, 8}
)

func cutOf(point string) int {
	switch {
	case strings.HasSuffix(point, ".loaded"):
		return 3
	case strings.HasSuffix(point, ".truncated"):
		return 5
	case strings.HasSuffix(point, ".written"):
		return 6
	}
	return 0
}

func sched(d, r int) string {
	var xs []string
	for i := 0; i < d; i++ {
		xs = append(xs, "true")
	}
	for i := 0; i < r; i++ {
		xs = append(xs, "false")
	}
	return CoqList(xs)
}

// modelPoint maps one run to (chunks of the scenario, schedule, runner-victim, cut, gap); ok=false
// when the run has no counterpart in the model (a hit beyond the modelled prefix).
func modelPoint(o *observation) (chunks [][]byte, sch string, runner bool, cut, gap int, ok bool) {
	pl := o.Plan
	first, total := pl.firstWrite(), pl.size()
	c1, c2 := pattern[:first], pattern[first:total]
	cs := o.Crash
	switch o.Kind {
	case "local":
		chunks = [][]byte{c1, c2}
		rAll := 2 + 2*len(chunks) + 1
		// operations of the runner while the node is down: through its first tick that shows the
		// first write if it is still alive at the restart, all of them if it has finished
		gapFor := func() int {
			switch {
			case !o.Spawned, o.StatusDown == "empty":
				return 0 // no runner, or it had not yet touched the record when the daemon came back
			case o.RunnerUp && !complete(o.AtRestart.State):
				// through its first tick — or, on a slow machine, through its last: the record the
				// restart shows carries the whole output and the runner has not recorded the end yet
				if o.AtRestart.Listed && o.AtRestart.State == 1 && int(o.AtRestart.Size) >= total && total > first {
					return rAll - 1
				}
				return 4
			}
			return rAll
		}
		switch {
		case cs.Point == "kill" && cs.Phase == "stdin":
			return chunks, sched(4, 0), false, 0, 0, true
		case cs.Point == "kill" && cs.Phase == "running" && !o.Finished:
			// on a loaded machine the runner may have finished while the node was down
			g := 0
			if complete(o.AtRestart.State) {
				g = rAll - 4
			}
			return chunks, sched(9, 4), false, 0, g, true
		case cs.Point == "kill":
			return chunks, "(" + sched(9, rAll) + " ++ [true])", false, 0, 0, true
		case cs.Runner:
			// the runner's n-th rewrite: 1 = "not started yet", 2 = first tick, then idle ticks
			n := cs.Hit
			if n == 1 {
				return chunks, sched(9, 0), true, cutOf(cs.Point), 1, true
			}
			chunks = [][]byte{c1}
			for i := 0; i < n-2; i++ {
				chunks = append(chunks, []byte{})
			}
			chunks = append(chunks, c2)
			done := 2 + 2*(n-2) + 1 // r0, create, (append, tick) x (n-2), append
			return chunks, sched(9, done), true, cutOf(cs.Point), 1, true
		case cs.Point == "alloc.mkdir":
			return chunks, sched(1, 0), false, 0, 0, true
		case strings.HasPrefix(cs.Point, "save."):
			return chunks, sched(1, 0), false, map[string]int{"save.locked": 1, "save.truncated": 2, "save.written": 3}[cs.Point], 0, true
		case cs.Point == "alloc.saved":
			return chunks, sched(2, 0), false, 0, 0, true
		case cs.Point == "submit.stdin-created":
			return chunks, sched(3, 0), false, 0, 0, true
		case cs.Pause:
			// the runner was held while the daemon was away: it has done what the files show —
			// nothing, or its first rewrite, or also the command's first write, or a tick
			// Only the runner is held: its command goes on writing, so the output the harness
			// measured when the daemon died may have grown by the time the restarted daemon looks.
			// What is fixed at the restart is the record the held runner left on disk (HeldState, read
			// after the runner was stopped) and the output the restart itself found there (the size it
			// reports for a record it marks Failed; the Go oracle holds that against the file).
			g := 1
			seen := o.LocalOut
			if o.AtRestart.Listed && complete(o.AtRestart.State) && int(o.AtRestart.Size) > seen {
				seen = int(o.AtRestart.Size)
			}
			switch {
			case o.HeldState == 1:
				g = 4
			case seen >= total && total > first:
				// the command ran to its end under a runner that had not yet recorded anything: not a
				// prefix of the runner's program in the model
				return nil, "", false, 0, 0, false
			case seen >= first:
				g = 3
			}
			if cs.Point == "submit.started" {
				return chunks, sched(9, 0), false, 0, g, true
			}
			return chunks, sched(8, 0), false, cutOf(cs.Point), g, true
		case cs.Point == "submit.started":
			return chunks, sched(9, 0), false, 0, gapFor(), true
		case strings.HasPrefix(cs.Point, "update.") && cs.Hit >= 1 && cs.Hit <= 5:
			op := localUpd[cs.Hit-1]
			if cs.Hit == 5 {
				return chunks, sched(9, rAll), false, cutOf(cs.Point), 0, true
			}
			g := 0
			if cs.Hit == 4 {
				g = gapFor()
			}
			return chunks, sched(op, 0), false, cutOf(cs.Point), g, true
		}
	case "remote-bound", "remote-unbound":
		// the stdout mirror and the status mirror are independent goroutines: the bytes the
		// local stdout holds when the node dies are what the harness found there
		l := o.LocalOut
		if l > total {
			l = total
		}
		chunks = [][]byte{{}, c1, c2}
		rAll := 2*len(chunks) + 1
		mirror := func(ticksDone int) [][]byte {
			var cs [][]byte
			for i := 0; i < ticksDone; i++ {
				cs = append(cs, []byte{})
			}
			return append(cs, pattern[:l], pattern[l:total])
		}
		switch {
		case cs.Point == "kill" && cs.Phase == "stdin":
			return chunks, sched(5, 0), false, 0, 0, true
		case o.Scenario == "remote-ttl" && cs.Phase == "running" && !o.Finished:
			return chunks, sched(7, 0), false, 0, 0, true
		case o.Scenario == "remote-ttl":
			return nil, "", false, 0, 0, false // the expiry is no operation of the model's programs: a recover case instead
		case cs.Point == "kill" && cs.Phase == "running" && !o.Finished:
			return mirror(1), sched(9, 3), false, 0, 0, true
		case cs.Point == "kill":
			return chunks, sched(9, rAll), false, 0, 0, true
		case cs.Point == "alloc.mkdir":
			return chunks, sched(1, 0), false, 0, 0, true
		case strings.HasPrefix(cs.Point, "save."):
			return chunks, sched(1, 0), false, map[string]int{"save.locked": 1, "save.truncated": 2, "save.written": 3}[cs.Point], 0, true
		case cs.Point == "alloc.saved":
			return chunks, sched(2, 0), false, 0, 0, true
		case cs.Point == "submit.stdin-created":
			return chunks, sched(4, 0), false, 0, 0, true
		case cs.Point == "submit.started":
			if o.Kind == "remote-unbound" {
				return chunks, sched(7, 0), false, 0, 0, true
			}
			return chunks, sched(9, 0), false, 0, 0, true
		case strings.HasPrefix(cs.Point, "update.") && cs.Hit >= 1 && cs.Hit <= 5:
			return chunks, sched(remoteUpd[cs.Hit-1], 0), false, cutOf(cs.Point), 0, true
		case strings.HasPrefix(cs.Point, "update.") && cs.Hit >= 6 && cs.Hit <= 8:
			// status copies of the mirror: hit 6 is the first
			k := cs.Hit - 6
			return mirror(k), sched(9, 2*k+1), false, cutOf(cs.Point), 0, true
		}
	}
	return nil, "", false, 0, 0, false
}

func obsView(v *view) string {
	if v == nil || !v.Listed {
		return "(mkOv false false [] 0 0 [] false false)"
	}
	st := v.State
	if st < 0 {
		st = 0
	}
	return fmt.Sprintf("(mkOv true %s %s %d %d %s %s %s)", CoqBool(!v.Unknown), HxS(v.WorkType), st, v.Size,
		HxS(v.RemoteNode), CoqBool(v.RemoteUnit != ""), CoqBool(v.Started))
}

// addCase writes one experiment as a Coq case for Model/Crash.v.
func addCase(sh *shared, o *observation) {
	if o.Crash.Runner && o.Crash.Hit > 1 && o.LocalOut > o.Plan.firstWrite() {
		sh.im.Hist("model:no-counterpart") // a slow run: the command went on beyond the history the model case describes
		return
	}
	if !o.Reached || o.HeldLate || o.Unit == "" && o.Acked || strings.HasPrefix(o.AtRestart.Err, "daemon does not come back") ||
		(o.Cycle2 != nil && strings.HasPrefix(o.Cycle2.Err, "daemon does not come back")) {
		return
	}
	if o.Cycle2 != nil && o.Cycle2.Listed && o.Cycle2.WorkType == "" && o.Final.WorkType != "" {
		return // the second, plain kill fell into a window: judged by the oracle, no model counterpart
	}
	chunks, sch, runner, cut, gap, ok := modelPoint(o)
	if !ok {
		if o.Before != nil && o.Finished && o.Cycle2 != nil {
			// a unit at rest: its record before the kill, the answers of the two restarts
			b := o.Before
			extra := "XNone"
			if b.RemoteNode != "" || o.Kind != "local" {
				extra = fmt.Sprintf("(XRemote %s %s %s %s)", HxS(b.RemoteNode), HxS(b.RemoteType), HxS(b.RemoteUnit), CoqBool(b.Started))
			}
			sh.cf.Add(fmt.Sprintf("VCase %s (mkStatus %d %d %s %s) %d %s", CoqList([]string{HxS("emit")}), b.State, b.Size, HxS(b.WorkType), extra, o.LocalOut,
				CoqList([]string{obsView(&o.AtRestart), obsView(o.Cycle2)})),
				fmt.Sprintf("unit at rest scenario=%s point=%s before=%+v restart=%+v again=%+v", o.Scenario, o.Crash, *b, o.AtRestart, *o.Cycle2))
			return
		}
		sh.im.Hist("model:no-counterpart")
		return
	}
	remote, types, wtype := "None", CoqList([]string{HxS("emit")}), HxS("emit")
	reach := o.Kind == "remote-bound"
	if o.Kind != "local" {
		node := "c04nowhere"
		if o.AtRestart.RemoteNode != "" {
			node = o.AtRestart.RemoteNode
		} else if o.Before != nil && o.Before.RemoteNode != "" {
			node = o.Before.RemoteNode
		}
		remote = fmt.Sprintf("(Some (%s, %s))", HxS(node), HxS("emit"))
		wtype = HxS("remote")
	}
	// whether the daemon's in-memory copy had kept up with the runner is not observable directly; it
	// shows when the runner died leaving the file empty: the daemon then rewrites the record from its
	// copy, and a copy that never got past Pending makes the restart say "Pending at restart"
	follow := !(o.Crash.Runner && strings.Contains(o.AtRestart.Detail, "Pending at restart") && o.Crash.Hit > 1)
	sc := fmt.Sprintf("(mkSc 1 %s %s %s %s %s %s true 4242 %s %s)", wtype, remote, CoqBool(reach), HxS("RUNIT001"), HxS("input\n"), CoqBytesList(chunks), types, CoqBool(follow))
	cp := fmt.Sprintf("(mkCp %s %s %s %s)", sch, CoqBool(runner), CoqNat(cut), CoqNat(gap))
	again := o.Cycle2
	if again == nil {
		again = &o.Final // a unit never acknowledged is not taken through the second cycle
	}
	term := fmt.Sprintf("CCase %s %s %s %s %s %s", sc, cp, CoqBool(o.Acked), obsView(&o.AtRestart), obsView(&o.Final), obsView(again))
	sh.cf.Add(term, fmt.Sprintf("crash scenario=%s point=%s acked=%v restart=%+v final=%+v again=%+v", o.Scenario, o.Crash, o.Acked, o.AtRestart, o.Final, o.Cycle2))
}
