package main

import (
	"bytes"
	"encoding/json"
	"fmt"
	"net"
	"os"
	"path/filepath"
	"strings"
	"sync"
	"syscall"
	"time"

	. "verifharness/lib"
)

var (
	planRunning  = plan{Steps: []string{"w100", "s2600", "w50"}} // still running when the daemon dies
	planFinished = plan{Steps: []string{"w70", "s150", "w7"}}    // finished long before
)

type scenario struct {
	Name  string
	Kind  string // local | remote-bound | remote-unbound
	Plan  plan
	Input []byte // the unit's stdin (nil: a few bytes)
	TTL   string // remote work: time to live
}

var scenarios = []scenario{
	{Name: "local-running", Kind: "local", Plan: planRunning},
	{Name: "local-finished", Kind: "local", Plan: planFinished, Input: bigInput},
	{Name: "remote-bound", Kind: "remote-bound", Plan: planRunning, Input: bigInput},
	{Name: "remote-unbound", Kind: "remote-unbound", Plan: planFinished},
	{Name: "remote-ttl", Kind: "remote-unbound", Plan: plan{Steps: []string{"s1"}}, TTL: "3s"},
}

func freePort() int {
	ln, err := net.Listen("tcp", "127.0.0.1:0")
	Must(err)
	defer ln.Close()
	return ln.Addr().(*net.TCPAddr).Port
}

// procsMentioning lists the PIDs whose command line contains s.
func procsMentioning(s string) []int {
	var out []int
	ents, _ := os.ReadDir("/proc")
	for _, e := range ents {
		pid := 0
		if _, err := fmt.Sscanf(e.Name(), "%d", &pid); err != nil || pid <= 1 || pid == os.Getpid() {
			continue
		}
		b, err := os.ReadFile("/proc/" + e.Name() + "/cmdline")
		if err == nil && strings.Contains(string(b), s) {
			out = append(out, pid)
		}
	}
	return out
}

func runnerAlive(unitDir string) bool { return len(procsMentioning("unitdir="+unitDir)) > 0 }

// env is one experiment's set of processes.
type env struct {
	a, b     *Node // a: the node that is crashed; b: the remote executor (remote-bound only)
	crashLog string
	target   string // node name given to work submit
}

func setup(c *Ctx, dir string, sc scenario, tag string) (*env, error) {
	e := &env{crashLog: filepath.Join(dir, "crash.log")}
	dirA := filepath.Join(dir, "a")
	switch sc.Kind {
	case "local":
		e.a = NewNode(c.Bin, "c04a"+tag, dirA, workCommandYAML(dirA))
		e.target = "localhost"
	case "remote-unbound":
		e.a = NewNode(c.Bin, "c04a"+tag, dirA, workCommandYAML(dirA))
		e.target = "c04nowhere"
	case "remote-bound":
		dirB := filepath.Join(dir, "b")
		port := freePort()
		e.b = NewNode(c.Bin, "c04b"+tag, dirB, fmt.Sprintf("- tcp-listener:\n    port: %d\n", port)+workCommandYAML(dirB))
		if err := startReady(e.b); err != nil {
			e.b.Kill()
			e.b.KillStrays()
			return nil, err
		}
		e.a = NewNode(c.Bin, "c04a"+tag, dirA, fmt.Sprintf("- tcp-peer:\n    address: 127.0.0.1:%d\n", port)+workCommandYAML(dirA))
		e.target = e.b.ID
	}
	if err := plantResidents(e.a); err != nil {
		e.teardown()
		return nil, err
	}
	return e, nil
}

// startReady starts a node and waits until it has processed its whole configuration (the
// control service answers before the work types are registered and the data directory scanned).
func startReady(n *Node) error {
	if err := n.Start(); err != nil {
		// on a loaded machine the 15 s the library allows may not be enough: as long as the
		// process lives, keep waiting for its control socket
		ok := false
		for t0 := time.Now(); strings.Contains(err.Error(), "did not come up") && n.Alive() && time.Since(t0) < 120*time.Second; time.Sleep(100 * time.Millisecond) {
			if c, derr := net.DialTimeout("unix", n.Sock, time.Second); derr == nil {
				c.Close()
				ok = true
				break
			}
		}
		if !ok {
			return err
		}
	}
	deadline := time.Now().Add(120 * time.Second)
	for time.Now().Before(deadline) {
		if strings.Contains(n.Log(), "Initialization complete") {
			return nil
		}
		if !n.Alive() {
			return fmt.Errorf("receptor exited during start-up: %s", n.ExitState())
		}
		time.Sleep(20 * time.Millisecond)
	}
	return fmt.Errorf("receptor did not finish its initialization within 120 s")
}

func (e *env) teardown() {
	for _, n := range []*Node{e.a, e.b} {
		if n != nil {
			n.Stop()
			n.KillStrays()
		}
	}
}

func waitPing(sock, target string, timeout time.Duration) bool {
	deadline := time.Now().Add(timeout)
	for time.Now().Before(deadline) {
		l, err := OneShot(sock, map[string]interface{}{"command": "ping", "target": target}, 3*time.Second)
		if err == nil && strings.Contains(l, "Success\":true") {
			return true
		}
		time.Sleep(100 * time.Millisecond)
	}
	return false
}

// submit sends `work submit` and reports how far the exchange got before the daemon died.
func submit(sock, target string, pl plan) (unit string, acked, replied bool, reply string, err error) {
	return submitWith(sock, target, pl, []byte("input\n"), nil, nil)
}

// bigInput: the unit's input when the scenario is about it — 300 KiB that are not the output pattern
var bigInput = func() []byte {
	b := make([]byte, 300<<10)
	x := uint32(2463534242)
	for i := range b {
		x ^= x << 13
		x ^= x >> 17
		x ^= x << 5
		b[i] = byte(x)
	}
	return b
}()

// submitWith sends the input in two parts with a pause between them (the end of the input comes
// late); midway, if given, is called after the first part (it may kill the daemon).
func submitWith(sock, target string, pl plan, input []byte, extra map[string]string, midway func()) (unit string, acked, replied bool, reply string, err error) {
	fields := map[string]interface{}{"command": "work", "subcommand": "submit", "node": target, "worktype": "emit", "params": pl.params()}
	for k, v := range extra {
		fields[k] = v
	}
	req, _ := json.Marshal(fields)
	var c *Ctl
	var l string
	for try := 0; ; try++ {
		c, err = DialCtl(sock, 5*time.Second)
		if err != nil {
			return "", false, false, "", err
		}
		l, err = c.Cmd(string(req), 20*time.Second)
		if err == nil && strings.Contains(l, "unknown work type") && try < 100 {
			c.Close()
			time.Sleep(100 * time.Millisecond)
			continue
		}
		break
	}
	defer c.Close()
	if err != nil || !strings.Contains(l, "with ID ") {
		return "", false, false, l, nil
	}
	unit = strings.TrimSuffix(strings.Fields(l[strings.Index(l, "with ID ")+8:])[0], ".")
	half := len(input) / 2
	_ = c.Send(input[:half])
	if midway != nil {
		time.Sleep(100 * time.Millisecond)
		midway()
	}
	if len(input) > 100 {
		time.Sleep(150 * time.Millisecond)
	}
	_ = c.Send(input[half:])
	if c.CloseWrite() != nil {
		return unit, true, false, "", nil
	}
	l, err = c.ReadLine(20 * time.Second)
	if err != nil {
		return unit, true, false, "", nil
	}
	return unit, true, true, l, nil
}

// theOnlyUnit finds the unit directory of a node that holds at most one unit.
func theOnlyUnit(n *Node) string {
	ents, _ := os.ReadDir(filepath.Join(n.DataDir, n.ID))
	for _, e := range ents {
		if e.IsDir() && !isResident(e.Name()) {
			return e.Name()
		}
	}
	return ""
}

func complete(state int) bool { return state == 2 || state == 3 }

// final: the states in which a unit is at rest for good (Canceled included)
func final(state int) bool { return state == 2 || state == 3 || state == 4 }

// experiment runs one scenario with one crash (cs == nil: no crash, enumerate the crash points).
func experiment(c *Ctx, dir string, sc scenario, cs *crashSpec, tag string) (*observation, []hit, int, error) {
	o := &observation{Scenario: sc.Name, Kind: sc.Kind, Plan: sc.Plan}
	e, err := setup(c, dir, sc, tag)
	if err != nil {
		return nil, nil, 0, err
	}
	defer e.teardown()
	a := e.a
	a.Env = []string{"VERIF_CRASH_LOG=" + e.crashLog}
	if cs != nil {
		o.Crash = *cs
		if s := cs.env(); s != "" {
			a.Env = append(a.Env, s, cs.role())
		}
	}
	if err := startReady(a); err != nil {
		return nil, nil, 0, fmt.Errorf("node does not start: %v", err)
	}
	daemonPid := a.Cmd.Process.Pid
	o.Residents = newResidentObs()
	lookAtResidents(a.Sock, o.Residents, false)
	if e.b != nil && !waitPing(a.Sock, e.b.ID, 90*time.Second) {
		return nil, nil, 0, fmt.Errorf("node A never reaches node B")
	}
	var reply string
	input := sc.Input
	if input == nil {
		input = []byte("input\n")
	}
	var extra map[string]string
	if sc.TTL != "" {
		extra = map[string]string{"ttl": sc.TTL}
	}
	var midway func()
	if cs != nil && cs.Point == "kill" && cs.Phase == "stdin" {
		midway = func() { a.Kill() } // the daemon dies while the unit's input is still arriving
	}
	o.Unit, o.Acked, o.Replied, reply, err = submitWith(a.Sock, e.target, sc.Plan, input, extra, midway)
	if err != nil {
		return nil, nil, 0, fmt.Errorf("submit: %v", err)
	}
	if o.Replied {
		o.Notes = append(o.Notes, "reply: "+reply)
	}
	tReplied := time.Now()
	span := sc.Plan.duration() + 1500*time.Millisecond // the unit's life, generously
	// watch the unit until the daemon is gone (or the scenario is over)
	watch := func(until func() bool, limit time.Duration) {
		deadline := time.Now().Add(limit)
		for time.Now().Before(deadline) && a.Alive() && !until() {
			if o.Unit != "" {
				if st, err := WorkStatus(a.Sock, o.Unit, 2*time.Second); err == nil {
					v := viewOf(st)
					o.Before = &v
					if complete(v.State) {
						o.Finished = true
					}
				}
			}
			time.Sleep(40 * time.Millisecond)
		}
	}
	var held []int // runner processes stopped with SIGSTOP
	runnerDiedAtHook := func() bool {
		for _, h := range readCrashLog(e.crashLog) {
			if h.Pid != daemonPid && h.Name == cs.Point && h.N == cs.Hit {
				return true
			}
		}
		return false
	}
	switch {
	case cs == nil:
		watch(func() bool { return o.Finished && time.Since(tReplied) > span }, span+8*time.Second)
		time.Sleep(500 * time.Millisecond)
		hits := readCrashLog(e.crashLog)
		return o, hits, daemonPid, nil
	case cs.Point == "kill" && cs.Phase == "stdin":
		o.Reached = !a.Alive() && o.Acked
	case cs.Point == "kill":
		if cs.Phase == "finished" {
			watch(func() bool { return o.Finished }, span+8*time.Second)
			time.Sleep(700 * time.Millisecond)
		} else {
			watch(func() bool { return time.Since(tReplied) > cs.After }, cs.After+time.Second)
		}
		o.Reached = a.Alive()
		a.Kill()
	case cs.Runner:
		watch(runnerDiedAtHook, span+3*time.Second)
		o.Reached = runnerDiedAtHook()
		time.Sleep(400 * time.Millisecond)
		if !a.Alive() {
			o.Notes = append(o.Notes, "the daemon died too: "+a.ExitState())
		}
		a.Kill()
	default:
		watch(func() bool { return false }, span+4*time.Second)
		o.Reached = !a.Alive()
		if a.Alive() {
			a.Kill()
		}
		if cs.Pause && o.Reached && o.Unit != "" {
			held = procsMentioning("unitdir=" + a.UnitDir(o.Unit))
			for _, pid := range held {
				_ = syscall.Kill(pid, syscall.SIGSTOP)
			}
			o.HeldState = -1
			if b, err := os.ReadFile(filepath.Join(a.UnitDir(o.Unit), "status")); err == nil {
				var st map[string]interface{}
				if json.Unmarshal(b, &st) == nil {
					o.HeldState = viewOf(st).State
				}
			}
		}
	}
	release := func() {
		for _, pid := range held {
			_ = syscall.Kill(pid, syscall.SIGCONT)
		}
		held = nil
	}
	defer release()
	if o.Unit == "" {
		o.Unit = theOnlyUnit(a) // never acknowledged: nothing is owed, but the restart must cope
	}
	unitDir := ""
	if o.Unit != "" {
		unitDir = a.UnitDir(o.Unit)
		for _, h := range readCrashLog(e.crashLog) {
			if h.Pid != daemonPid {
				o.Spawned = true
			}
		}
		if b, err := os.ReadFile(filepath.Join(unitDir, "status")); err != nil {
			o.StatusRaw = "absent"
		} else if len(b) == 0 {
			o.StatusRaw = "empty"
		} else {
			o.StatusRaw = "json"
		}
	}
	// the interval during which the node is down: at least 600 ms, and while a runner is alive
	// until its record shows the command's first write (so that what the new daemon finds does
	// not depend on the runner's start-up time)
	if len(held) == 0 {
		time.Sleep(600 * time.Millisecond)
	}
	if unitDir != "" {
		for t0 := time.Now(); len(held) == 0 && time.Since(t0) < 4*time.Second && runnerAlive(unitDir); time.Sleep(50 * time.Millisecond) {
			b, _ := os.ReadFile(filepath.Join(unitDir, "status"))
			var st map[string]interface{}
			if json.Unmarshal(b, &st) == nil {
				if v := viewOf(st); v.State == 1 && v.Size == int64(sc.Plan.firstWrite()) {
					break
				}
			}
		}
		o.RunnerUp = runnerAlive(unitDir)
		if o.RunnerUp {
			o.Spawned = true
		}
		if fi, err := os.Stat(filepath.Join(unitDir, "stdout")); err == nil {
			o.LocalOut = int(fi.Size())
		}
		if b, err := os.ReadFile(filepath.Join(unitDir, "status")); err != nil {
			o.StatusDown = "absent"
		} else if len(b) == 0 {
			o.StatusDown = "empty"
		} else {
			o.StatusDown = "json"
		}
	}
	a.Env = []string{"VERIF_CRASH_LOG=" + e.crashLog + ".2"}
	daemonUp := make(chan struct{})
	// `work results` of a finished resident asked while the restart is in progress: from the
	// moment the control socket accepts, before the configuration has been processed.  It may be
	// refused; if it streams, it streams exactly the output and ends.
	if len(residents) > 0 {
		duringDone := make(chan struct{})
		defer func() { <-duringDone }()
		go func() {
			defer close(duringDone)
			r := residents[0]
			for t0 := time.Now(); time.Since(t0) < 20*time.Second; time.Sleep(5 * time.Millisecond) {
				cn, err := net.DialTimeout("unix", a.Sock, 200*time.Millisecond)
				if err != nil {
					continue
				}
				cn.Close()
				got, ended, err := WorkResults(a.Sock, r.Unit, 0, 20*time.Second)
				switch {
				case err != nil:
					o.DuringRestart = "refused:" + err.Error()
				case !ended:
					o.DuringRestart = fmt.Sprintf("no-end:%d", len(got))
				case bytes.Equal(got, r.Output):
					o.DuringRestart = "complete"
				default:
					o.DuringRestart = fmt.Sprintf("differs:%d-of-%d", len(got), len(r.Output))
				}
				return
			}
		}()
	}
	err = startReady(a)
	close(daemonUp)
	if err != nil {
		o.AtRestart = view{State: -1, Err: "daemon does not come back: " + err.Error()}
		return o, nil, daemonPid, nil
	}
	if o.Unit == "" {
		// nothing to ask about; the listing must still answer
		t0 := time.Now()
		_, err := WorkList(a.Sock, 5*time.Second)
		o.AtRestart = view{State: -1, Latency: time.Since(t0).Seconds()}
		if err != nil {
			o.AtRestart.Err = "work list: " + err.Error()
		}
		lookAtResidents(a.Sock, o.Residents, true)
		o.Final = o.AtRestart
		return o, nil, daemonPid, nil
	}
	o.AtRestart = query(a.Sock, o.Unit)
	if len(held) > 0 {
		// the held runner goes on now that the new daemon has scanned the unit and answered.  The
		// restarted daemon's monitor gives a unit it has just marked failed one second from its mark;
		// if on an overloaded machine the runner's next rewrite comes later than that, this run is
		// another situation than the one it is about: not judged (and tried again).
		var tMark time.Time
		if fi, err := os.Stat(filepath.Join(unitDir, "status")); err == nil {
			tMark = fi.ModTime()
		}
		mark, _ := os.ReadFile(filepath.Join(unitDir, "status"))
		release()
		for t0 := time.Now(); time.Since(t0) < 5*time.Second; time.Sleep(5 * time.Millisecond) {
			b, _ := os.ReadFile(filepath.Join(unitDir, "status"))
			if len(b) > 0 && !bytes.Equal(b, mark) {
				break
			}
		}
		if bytes.Contains(mark, []byte("Pending at restart")) && time.Since(tMark) > 700*time.Millisecond {
			o.HeldLate = true
		}
	}
	lookAtResidents(a.Sock, o.Residents, true)
	// follow the unit to its end
	follow := o.RunnerUp || (sc.Kind == "remote-bound" && o.AtRestart.Started)
	limit := 700 * time.Millisecond
	if follow {
		limit = span + 25*time.Second // generous: a loaded machine, a mesh that has to come back
	}
	deadline := time.Now().Add(limit)
	for {
		o.Final = query(a.Sock, o.Unit)
		if time.Now().After(deadline) || (follow && complete(o.Final.State) && o.Final.Size == int64(sc.Plan.size())) {
			break
		}
		time.Sleep(100 * time.Millisecond)
	}
	// what is on disk once nothing writes any more, against what the daemon answers
	for try := 0; try < 4 && unitDir != "" && !runnerAlive(unitDir); try++ {
		b, err := os.ReadFile(filepath.Join(unitDir, "status"))
		var st map[string]interface{}
		if err != nil || json.Unmarshal(b, &st) != nil {
			break
		}
		v := viewOf(st)
		o.Disk = &v
		if fi, err := os.Stat(filepath.Join(unitDir, "stdout")); err == nil {
			o.DiskOut = int(fi.Size())
		}
		if v.State == o.Final.State && v.Size == o.Final.Size && v.Detail == o.Final.Detail {
			break
		}
		time.Sleep(400 * time.Millisecond) // the daemon's copy may be one reload behind
		o.Final = query(a.Sock, o.Unit)
	}
	if o.Final.Listed || o.AtRestart.Listed {
		wantOut := pattern[:sc.Plan.size()]
		if o.Finished || complete(o.Final.State) {
			got, ended, err := WorkResults(a.Sock, o.Unit, 0, 20*time.Second)
			switch {
			case err != nil:
				o.Results = "error:" + err.Error()
			case !ended:
				o.Results = fmt.Sprintf("no-end:%d", len(got))
			case bytes.Equal(got, wantOut):
				o.Results = "complete"
			case bytes.HasPrefix(wantOut, got):
				o.Results = fmt.Sprintf("short:%d", len(got))
			default:
				o.Results = "wrong"
			}
		}
	}
	// the unit's input: what the submitter sent before it got its final reply is on disk, whole
	if o.Replied && unitDir != "" {
		o.Stdin = "kept"
		if b, err := os.ReadFile(filepath.Join(unitDir, "stdin")); err != nil || !bytes.Equal(b, input) {
			o.Stdin = fmt.Sprintf("differs:%d-of-%d", len(b), len(input))
		}
		if e.b != nil && o.AtRestart.RemoteUnit != "" && (o.AtRestart.Started || (o.Before != nil && o.Before.Started)) {
			if b, err := os.ReadFile(filepath.Join(e.b.UnitDir(o.AtRestart.RemoteUnit), "stdin")); err != nil || !bytes.Equal(b, input) {
				o.Stdin = fmt.Sprintf("remote-differs:%d-of-%d", len(b), len(input))
			}
		}
	}
	// one more cycle: kill and start again, nothing new may happen (asked only for units the
	// submitter knows of; the kill comes when the unit is at rest — a remote unit's status
	// mirror makes its last copy up to a second after the unit has finished)
	if !o.Acked {
		return o, nil, daemonPid, nil
	}
	if sc.Kind == "remote-bound" && o.AtRestart.Started {
		time.Sleep(1300 * time.Millisecond)
	}
	a.Kill()
	time.Sleep(200 * time.Millisecond)
	if err := startReady(a); err == nil {
		v := query(a.Sock, o.Unit)
		o.Cycle2 = &v
		lookAtResidents(a.Sock, o.Residents, true)
		if o.Results != "" {
			wantOut := pattern[:sc.Plan.size()]
			got, ended, err := WorkResults(a.Sock, o.Unit, 0, 20*time.Second)
			switch {
			case err != nil:
				o.Results2 = "error:" + err.Error()
			case !ended:
				o.Results2 = fmt.Sprintf("no-end:%d", len(got))
			case bytes.Equal(got, wantOut):
				o.Results2 = "complete"
			default:
				o.Results2 = fmt.Sprintf("differs:%d-of-%d", len(got), len(wantOut))
			}
		}
		// a unit directory that appears while the daemon runs (findUnit rescans the data directory
		// for an ID it does not know): answered with its record, then listed
		if len(residents) > 0 {
			late := "LatePlanted1"
			if copyDir(residents[0].dir, a.UnitDir(late)) == nil {
				t0 := time.Now()
				st, err := WorkStatus(a.Sock, late, 5*time.Second)
				v := view{State: -1, Latency: time.Since(t0).Seconds()}
				if err != nil {
					v.Err = err.Error()
				} else {
					v = viewOf(st)
					v.Latency = time.Since(t0).Seconds()
					if lst, lerr := WorkList(a.Sock, 5*time.Second); lerr != nil {
						v.Err = "work list: " + lerr.Error()
					} else if _, ok := lst[late]; !ok {
						v.Listed = false
					}
				}
				o.Late = &v
			}
		}
	} else {
		o.Cycle2 = &view{State: -1, Err: "daemon does not come back: " + err.Error()}
	}
	return o, nil, daemonPid, nil
}

// crashPlan derives the crash specs of a scenario from the hooks its crash-free run reached.
func crashPlan(sc scenario, hits []hit, daemonPid int, thorough bool) []crashSpec {
	var out []crashSpec
	seen := map[string]bool{}
	maxDaemon := map[string]int{}
	for _, h := range hits {
		if h.Pid == daemonPid {
			if h.N > maxDaemon[h.Name] {
				maxDaemon[h.Name] = h.N
			}
		}
	}
	for _, h := range hits {
		if h.Pid != daemonPid {
			continue
		}
		limit := 9
		if sc.Kind == "remote-bound" && !thorough {
			limit = 7 // the status copies made once per second repeat from here on
		}
		if h.N > limit {
			continue
		}
		k := fmt.Sprintf("%s:%d", h.Name, h.N)
		if !seen[k] {
			seen[k] = true
			out = append(out, crashSpec{Point: h.Name, Hit: h.N})
		}
	}
	if sc.Name == "local-finished" {
		// the submit path is the same as in local-running: keep what differs (the unit is
		// finished when the daemon clears the runner's PID from the record)
		var keep []crashSpec
		for _, cs := range out {
			if strings.HasPrefix(cs.Point, "update.") && cs.Hit >= 5 {
				keep = append(keep, cs)
			}
		}
		out = append(keep, crashSpec{Point: "kill", Phase: "finished"})
	}
	if sc.Name == "local-running" {
		for _, cs := range []crashSpec{{Point: "update.truncated", Hit: 1}, {Point: "update.loaded", Hit: 3}, {Point: "update.truncated", Hit: 3}, {Point: "update.written", Hit: 3}} {
			cs.Runner = true
			out = append(out, cs)
		}
		out = append(out, crashSpec{Point: "kill", Phase: "running", After: 700 * time.Millisecond})
		// the daemon alone dies right after it has launched the runner; the restart finds the record
		// still Pending and a live runner behind it
		out = append(out, crashSpec{Point: "submit.started", Hit: 1, Pause: true}, crashSpec{Point: "update.written", Hit: 4, Pause: true})
	}
	if sc.Name == "remote-ttl" {
		// remote work with a time to live for a node that is not there: killed while the time runs,
		// and after it has run out (the unit Failed "Work unit expired")
		out = []crashSpec{{Point: "kill", Phase: "running", After: 500 * time.Millisecond}, {Point: "kill", Phase: "finished"}}
	}
	if sc.Name == "local-running" {
		out = append(out, crashSpec{Point: "kill", Phase: "stdin"})
	}
	if !thorough {
		// quick tier: a fixed sample of the enumerated points — every kind of step once, every
		// truncate->write window after the ID has been returned, the runner's own
		quick := map[string][]string{
			"local-running": {"save.truncated:1", "alloc.saved:1", "submit.stdin-created:1", "update.truncated:1", "update.loaded:2",
				"update.truncated:2", "update.written:2", "update.truncated:3", "update.truncated:4", "update.written:4", "submit.started:1",
				"update.loaded:5", "update.truncated:5", "update.written:5", "kill@running",
				"update.truncated:1@runner", "update.truncated:3@runner", "update.written:3@runner",
				"submit.started:1@daemon+runner-held", "update.written:4@daemon+runner-held", "kill@stdin"},
			"remote-ttl":     {"kill@running", "kill@finished"},
			"local-finished": {"update.truncated:5", "kill@finished"},
			"remote-bound":   {"update.truncated:1", "update.truncated:3", "update.truncated:4", "update.written:4", "update.truncated:5", "update.written:5", "update.truncated:6", "update.written:6"},
			"remote-unbound": {"update.truncated:3", "submit.started:1"},
		}
		var keep []crashSpec
		for _, cs := range out {
			name := cs.String()
			for _, q := range quick[sc.Name] {
				if name == q+"@daemon" || name == q {
					keep = append(keep, cs)
				}
			}
		}
		out = keep
	}
	if sc.Kind == "remote-bound" {
		out = append(out, crashSpec{Point: "kill", Phase: "running", After: 900 * time.Millisecond},
			crashSpec{Point: "kill", Phase: "finished"}, crashSpec{Point: "kill", Phase: "stdin"})
	}
	return out
}

func runAll(c *Ctx, sh *shared, tmp string) {
	type job struct {
		sc scenario
		cs crashSpec
		i  int
	}
	var jobs []job
	var mu sync.Mutex
	var wg sync.WaitGroup
	only := os.Getenv("C04_ONLY")
	err := makeResidents(c, filepath.Join(tmp, "template"))
	if err != nil {
		residents = nil
		err = makeResidents(c, filepath.Join(tmp, "template-again"))
	}
	if err != nil {
		inconclusive(sh.im, "the resident units (one per final state) could not be made", err.Error())
		return
	}
	names := []string{}
	for _, r := range residents {
		names = append(names, fmt.Sprintf("%s(state %d %q size %d)", r.Name, r.Ref.State, r.Ref.Detail, r.Ref.Size))
	}
	sh.im.Extra["residents"] = strings.Join(names, ", ")
	// enumeration runs, one per scenario, in parallel
	for si, sc := range scenarios {
		if only != "" && !strings.Contains(sc.Name, only) {
			continue
		}
		wg.Add(1)
		go func(si int, sc scenario) {
			defer wg.Done()
			_, hits, pid, err := experiment(c, filepath.Join(tmp, sc.Name, "enum"), sc, nil, fmt.Sprintf("e%d", si))
			if err != nil {
				_, hits, pid, err = experiment(c, filepath.Join(tmp, sc.Name, "enum-again"), sc, nil, fmt.Sprintf("f%d", si))
			}
			if err != nil {
				sh.mu.Lock()
				inconclusive(sh.im, "enumeration of scenario "+sc.Name, err.Error())
				sh.mu.Unlock()
				return
			}
			specs := crashPlan(sc, hits, pid, c.Thorough())
			if f := os.Getenv("C04_SPEC"); f != "" { // development aid: only the crash specs whose name contains f
				var keep []crashSpec
				for _, cs := range specs {
					if strings.Contains(cs.String(), f) {
						keep = append(keep, cs)
					}
				}
				specs = keep
			}
			mu.Lock()
			for i, cs := range specs {
				jobs = append(jobs, job{sc, cs, si*1000 + i})
			}
			sh.im.Extra["crash-points:"+sc.Name] = fmt.Sprint(specs)
			mu.Unlock()
		}(si, sc)
	}
	if only == "" || strings.Contains("remote-release-pending", only) {
		var rwg sync.WaitGroup
		rwg.Add(1)
		go func() {
			defer rwg.Done()
			guarded(sh, "remote-release-pending", func(s *shared, again string) {
				runReleasePending(c, s, filepath.Join(tmp, "release-pending"+again))
			})
		}()
		defer rwg.Wait()
	}
	if only == "" || strings.Contains("crowded-directory", only) {
		var cwg sync.WaitGroup
		cwg.Add(1)
		go func() {
			defer cwg.Done()
			guarded(sh, "crowded-directory", func(s *shared, again string) { runCrowded(c, s, filepath.Join(tmp, "crowded"+again)) })
		}()
		defer cwg.Wait()
	}
	if only == "" || strings.Contains("remote-output-behind-record", only) {
		var swg sync.WaitGroup
		swg.Add(1)
		go func() {
			defer swg.Done()
			guarded(sh, "remote-output-behind-record", func(s *shared, again string) {
				runShortMirror(c, s, filepath.Join(tmp, "output-behind-record"+again))
			})
		}()
		defer swg.Wait()
	}
	// the file-system calls of one submission under strace, for a local and for a remote unit
	for _, sc := range scenarios {
		if (sc.Name == "local-finished" || sc.Name == "remote-unbound") && (only == "" || strings.Contains(sc.Name, only)) {
			wg.Add(1)
			go func(sc scenario) {
				defer wg.Done()
				opSequence(c, sh, filepath.Join(tmp, sc.Name, "opseq"), sc)
			}(sc)
		}
	}
	wg.Wait()
	sem := make(chan struct{}, 10)
	for _, j := range jobs {
		wg.Add(1)
		go func(j job) {
			defer wg.Done()
			sem <- struct{}{}
			defer func() { <-sem }()
			dir := filepath.Join(tmp, j.sc.Name, fmt.Sprintf("run%d", j.i))
			o, _, _, err := experiment(c, dir, j.sc, &j.cs, fmt.Sprintf("r%d", j.i))
			for try := 0; try < 2 && (err != nil || !o.Reached || o.HeldLate || startTimeout(o) || slowQuery(o)); try++ {
				// a loaded machine can make a run miss its crash point, or its timing, or keep a daemon
				// from answering in the time the harness gives it: again, from scratch
				o, _, _, err = experiment(c, fmt.Sprintf("%s-again%d", dir, try), j.sc, &j.cs, fmt.Sprintf("s%d%d", j.i, try))
			}
			sh.mu.Lock()
			defer sh.mu.Unlock()
			if err != nil {
				if exitedAtStart(err.Error()) {
					sh.im.Violate(fmt.Sprintf("scenario %s crash %s: %v", j.sc.Name, j.cs, err), "daemon-exits-at-start", j.cs)
					return
				}
				// the harness could not run the experiment (its own setup): not a verdict
				inconclusive(sh.im, fmt.Sprintf("scenario %s crash %s", j.sc.Name, j.cs), err.Error())
				return
			}
			if startTimeout(o) {
				// the daemon was alive, had logged no error and did not answer in the harness's time
				inconclusive(sh.im, fmt.Sprintf("scenario %s crash %s", j.sc.Name, j.cs), o.AtRestart.Err)
				return
			}
			sh.obs = append(sh.obs, o)
		}(j)
	}
	wg.Wait()
}
