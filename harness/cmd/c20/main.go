package main

// C20 — issued certificates carry exactly the requested names and verify as those IDs.
// Correspondence: MakeReceptorSAN / ReceptorNames byte-exact against Model/San.v.
// Independent oracle: encode→decode round trip on the implementation, and end to end
// CreateCertReq → SignCertReq → parse → names / chain / ReceptorVerifyFunc.

import (
	"bytes"
	"crypto/rsa"
	"crypto/tls"
	"crypto/x509"
	"crypto/x509/pkix"
	"fmt"
	"io"
	"net"
	"os"
	"path/filepath"
	"sort"
	"strings"
	"time"
	"unicode/utf8"

	. "verifharness/lib"

	"github.com/ansible/receptor/pkg/certificates"
	"github.com/ansible/receptor/pkg/logger"
	"github.com/ansible/receptor/pkg/netceptor"
	"github.com/ansible/receptor/pkg/utils"
)

func main() { Main("C20", runC20, nil) }

func genUTF8(r *Rng, n int) string {
	// a valid UTF-8 string of exactly n bytes, mixing 1..4-byte runes
	var sb strings.Builder
	for sb.Len() < n {
		left := n - sb.Len()
		k := 1 + r.Intn(4)
		if k > left {
			k = left
		}
		if r.Chance(60) {
			k = 1
		}
		var ru rune
		switch k {
		case 1:
			ru = rune(0x20 + r.Intn(0x5f))
			if r.Chance(5) {
				ru = rune(r.Intn(0x80))
			}
		case 2:
			ru = rune(0x80 + r.Intn(0x800-0x80))
		case 3:
			for {
				ru = rune(0x800 + r.Intn(0x10000-0x800))
				if ru < 0xD800 || ru > 0xDFFF {
					break
				}
			}
		default:
			ru = rune(0x10000 + r.Intn(0x110000-0x10000))
		}
		sb.WriteRune(ru)
	}
	return sb.String()
}

var c20Lens = []int{0, 1, 2, 50, 100, 110, 111, 112, 113, 114, 115, 116, 117, 118, 119, 120, 121, 122, 123, 124, 125, 126, 127, 128, 129, 130,
	200, 240, 241, 242, 243, 244, 245, 246, 247, 248, 249, 250, 251, 252, 253, 254, 255, 256, 257, 258, 259, 260, 1000}

func genIDLen(r *Rng, thorough bool) int {
	switch {
	case r.Chance(45):
		return c20Lens[r.Intn(len(c20Lens))]
	case r.Chance(50):
		return r.Intn(40)
	case thorough && r.Chance(10):
		return 65000 + r.Intn(1100)
	default:
		return r.Intn(400)
	}
}

func genID(r *Rng, thorough bool) string {
	n := genIDLen(r, thorough)
	if r.Chance(6) { // malformed stream: invalid UTF-8
		b := r.Bytes(n + 1)
		b[r.Intn(len(b))] = 0xff
		return string(b)
	}
	return genUTF8(r, n)
}

func genDNS(r *Rng) string {
	labels := 1 + r.Intn(3)
	parts := make([]string, labels)
	for i := range parts {
		l := 1 + r.Intn(12)
		b := make([]byte, l)
		for j := range b {
			b[j] = "abcdefghijklmnopqrstuvwxyz0123456789"[r.Intn(36)]
		}
		parts[i] = string(b)
	}
	return strings.Join(parts, ".")
}

func genIP(r *Rng) net.IP {
	switch r.Intn(3) {
	case 0:
		return net.IP(r.Bytes(4))
	case 1:
		b := r.Bytes(16)
		b[0] = 0x20
		return net.IP(b)
	default:
		return net.IPv4(byte(r.U64()), byte(r.U64()), byte(r.U64()), byte(r.U64())) // 16-byte v4-mapped
	}
}

func normIP(ip net.IP) []byte {
	if v4 := ip.To4(); v4 != nil {
		return v4
	}
	return ip
}

type c20Enc struct {
	DNS []string `json:"dns"`
	IPs []string `json:"ips_hex"`
	IDs []string `json:"ids_hex"`
}

func hexs(xs [][]byte) []string {
	o := make([]string, len(xs))
	for i, x := range xs {
		o[i] = fmt.Sprintf("%x", x)
	}
	return o
}

func sameStrings(a, b []string) bool {
	if len(a) != len(b) {
		return false
	}
	for i := range a {
		if a[i] != b[i] {
			return false
		}
	}
	return true
}

func c20EncodeCase(im *Impl, cf *CaseFile, dns []string, ips []net.IP, ids []string) []byte {
	ext, err := utils.MakeReceptorSAN(dns, ips, ids)
	ipb := make([][]byte, len(ips))
	for i, ip := range ips {
		ipb[i] = normIP(ip)
	}
	idb := make([][]byte, len(ids))
	for i, id := range ids {
		idb[i] = []byte(id)
	}
	out := "OErr"
	var val []byte
	if err == nil {
		val = ext.Value
		out = "(OOk " + Hx(val) + ")"
	}
	rec := c20Enc{dns, hexs(ipb), hexs(idb)}
	cf.Add(fmt.Sprintf("CEnc %s %s %s %s", CoqStrList(dns), CoqBytesList(ipb), CoqBytesList(idb), out),
		fmt.Sprintf("enc %+v", rec))
	maxl, allValid := 0, true
	for _, id := range ids {
		if len(id) > maxl {
			maxl = len(id)
		}
		if !utf8.ValidString(id) {
			allValid = false
		}
	}
	switch {
	case !allValid:
		im.Hist("enc:invalid-utf8")
	case maxl >= 113:
		im.Hist("enc:id>=113")
	case len(ids) == 0:
		im.Hist("enc:no-ids")
	default:
		im.Hist("enc:id<113")
	}
	im.Count(fmt.Sprintf("enc %v", rec), len(ids) > 0)
	im.Sample(map[string]interface{}{"kind": "encode", "case": rec, "impl_ok": err == nil})
	// independent oracle: what was encoded is what is read back
	if allValid {
		if err != nil {
			im.Violate("MakeReceptorSAN refuses valid UTF-8 node IDs: "+err.Error(), "san-encode-error", rec)
			return nil
		}
		names, derr := utils.ReceptorNames([]pkix.Extension{*ext})
		if derr != nil || !sameStrings(names, ids) {
			sig := "san-roundtrip"
			if maxl >= 113 {
				sig = "san-roundtrip-id>=113"
			}
			what := fmt.Sprintf("ReceptorNames(MakeReceptorSAN(ids)) != ids (max id length %d): err=%v", maxl, derr)
			if derr == nil {
				what = fmt.Sprintf("ReceptorNames(MakeReceptorSAN(ids)) returns DIFFERENT names (max id length %d)", maxl)
				sig = "san-misnamed"
			}
			im.Violate(what, sig, rec)
		}
	} else if err == nil {
		// outside the property's quantifier (IDs are UTF-8): still, never a different name
		names, derr := utils.ReceptorNames([]pkix.Extension{*ext})
		if derr == nil && !sameStrings(names, ids) {
			im.Violate("ReceptorNames returns different names for an encoder output", "san-misnamed", rec)
		}
	}
	return val
}

func c20DecodeCase(im *Impl, cf *CaseFile, v []byte, kind string) {
	names, err := utils.ReceptorNames([]pkix.Extension{{Id: utils.OIDSubjectAltName, Value: v}})
	out := "OErr"
	if err == nil {
		nb := make([][]byte, len(names))
		for i, n := range names {
			nb[i] = []byte(n)
		}
		out = "(OOk " + CoqBytesList(nb) + ")"
	}
	cf.Add(fmt.Sprintf("CDec %s %s", Hx(v), out), fmt.Sprintf("dec %s %x", kind, v))
	im.Hist("dec:" + kind)
	if err != nil {
		im.Hist("dec-result:error")
	} else {
		im.Hist(fmt.Sprintf("dec-result:%d-names", len(names)))
	}
	im.Count(fmt.Sprintf("dec %x", v), len(v) > 2)
}

func mutate(r *Rng, v []byte) []byte {
	w := append([]byte{}, v...)
	if len(w) == 0 {
		return []byte{byte(r.U64())}
	}
	switch r.Intn(6) {
	case 0: // flip a byte, biased to the headers at the front
		i := r.Intn(len(w))
		if r.Chance(60) && len(w) > 24 {
			i = r.Intn(24)
		}
		w[i] ^= byte(1 << r.Intn(8))
	case 1: // truncate
		w = w[:r.Intn(len(w))]
	case 2: // set a byte to an interesting value
		i := r.Intn(len(w))
		w[i] = []byte{0x00, 0x80, 0x81, 0x82, 0xa0, 0x30, 0x0c, 0x06, 0x7f, 0xff, 0x13, 0x16}[r.Intn(12)]
	case 3: // insert a byte
		i := r.Intn(len(w) + 1)
		w = append(w[:i], append([]byte{byte(r.U64())}, w[i:]...)...)
	case 4: // delete a byte
		i := r.Intn(len(w))
		w = append(w[:i], w[i+1:]...)
	default: // append junk
		w = append(w, r.Bytes(1+r.Intn(4))...)
	}
	return w
}

func runC20(c *Ctx) {
	im := NewImpl("C20", c.Seed, c.Tier)
	im.Rule = "encode cases: (dns, ips, ids) generated from one splitmix64 stream with ID lengths biased to the DER thresholds 111-130 and 240-260; non-trivial = at least one node ID; decode cases: encoder outputs and single-edit mutations of them, non-trivial = more than 2 bytes; distinct by full input"
	cf := &CaseFile{Dir: c.Out, Prop: "C20", Imports: []string{"Model.San"}, CaseType: "san_case", CheckFn: "san_check", PerShard: 250}
	r := c.Rng
	nEnc, nMut := 500, 1200
	if c.Thorough() {
		nEnc, nMut = 3000, 9000
	}
	var encoded [][]byte
	// corpus first: the historical failure and its neighbours
	for _, n := range []int{112, 113, 127, 128, 251, 252, 256} {
		if v := c20EncodeCase(im, cf, nil, nil, []string{strings.Repeat("n", n)}); v != nil {
			encoded = append(encoded, v)
		}
	}
	for i := 0; i < nEnc; i++ {
		var dns []string
		var ips []net.IP
		var ids []string
		for k := r.Intn(3); k > 0; k-- {
			dns = append(dns, genDNS(r))
		}
		for k := r.Intn(3); k > 0; k-- {
			ips = append(ips, genIP(r))
		}
		nid := r.Intn(4)
		if r.Chance(70) && nid == 0 {
			nid = 1
		}
		for k := nid; k > 0; k-- {
			id := genID(r, c.Thorough())
			ids = append(ids, id)
			if r.Chance(10) {
				ids = append(ids, id) // duplicates
			}
		}
		if v := c20EncodeCase(im, cf, dns, ips, ids); v != nil && len(v) < 3000 {
			encoded = append(encoded, v)
		}
	}
	for _, v := range encoded {
		if len(v) < 700 {
			c20DecodeCase(im, cf, v, "encoder-image")
		}
	}
	for i := 0; i < nMut && len(encoded) > 0; i++ {
		v := encoded[r.Intn(len(encoded))]
		if len(v) > 700 {
			continue
		}
		w := mutate(r, v)
		if r.Chance(25) {
			w = mutate(r, w)
		}
		c20DecodeCase(im, cf, w, "mutated")
	}
	c20EndToEnd(c, im)
	Must(cf.Write())
	Must(im.Write(c.Out))
}

// ---------- end to end through the built-in CA tooling ----------

type memOS struct{ files map[string][]byte }

func (m *memOS) ReadFile(name string) ([]byte, error) {
	b, ok := m.files[name]
	if !ok {
		return nil, os.ErrNotExist
	}
	return b, nil
}

func (m *memOS) WriteFile(name string, data []byte, _ os.FileMode) error {
	m.files[name] = append([]byte{}, data...)
	return nil
}

func c20EndToEnd(c *Ctx, im *Impl) {
	r := c.Rng
	tmp, err := os.MkdirTemp("", "vh-c20-")
	Must(err)
	defer os.RemoveAll(tmp)
	osw := &certificates.OsWrapper{}
	caCrt, caKey := filepath.Join(tmp, "ca.crt"), filepath.Join(tmp, "ca.key")
	Must(certificates.InitCAConfig{CommonName: "verif CA", Bits: 2048, OutCert: caCrt, OutKey: caKey}.Run())
	caCert, err := certificates.LoadCertificate(caCrt, osw)
	Must(err)
	pool := x509.NewCertPool()
	pool.AddCert(caCert)
	// verification functions built NOW and used at the very end, on a certificate issued later: a certificate
	// carries its names for whoever checks it, also a verifier that has existed for a while (a node builds its
	// TLS configurations once, at start-up, and certificates are issued afterwards)
	earlyLg := logger.NewReceptorLogger("")
	earlyLg.SetOutput(io.Discard)
	earlyBuilt := time.Now()
	earlyIDs := []string{"late-node", "Late-Node", "other-late"}
	early := map[string]func([][]byte, [][]*x509.Certificate) error{}
	for _, id := range earlyIDs {
		early[id] = netceptor.ReceptorVerifyFunc(&tls.Config{RootCAs: pool, ClientCAs: pool}, nil, id, netceptor.ExpectedHostnameTypeReceptor, netceptor.VerifyServer, earlyLg)
	}
	// a second, unrelated CA: its certificates must not verify
	otherCA, err := certificates.CreateCA(&certificates.CertOptions{CommonName: "other CA", Bits: 2048}, &certificates.RsaWrapper{})
	Must(err)
	// one reused key ("pre-existing key" path)
	keyFile := filepath.Join(tmp, "reuse.key")
	{
		_, key, err := certificates.CreateCertReqWithKey(&certificates.CertOptions{CommonName: "k", Bits: 2048})
		Must(err)
		Must(certificates.SaveToPEMFile(keyFile, []interface{}{key}, osw))
	}
	n := 40
	if c.Thorough() {
		n = 200
	}
	now := time.Now()
	lg := logger.NewReceptorLogger("")
	lg.SetOutput(io.Discard)
	logger.SetGlobalQuietMode()
	for i := 0; i < n; i++ {
		var ids, dns []string
		var ips []net.IP
		for k := 1 + r.Intn(3); k > 0; k-- {
			ids = append(ids, genUTF8(r, genIDLen(r, false)))
		}
		if i == 0 {
			ids = []string{strings.Repeat("x", 113), "short"}
		}
		if i == 1 {
			ids = []string{"Controller-01", "kiosk-7"}
		}
		// names that any "tidying" on the way into the request or the certificate would change: white space
		// at either end (ASCII and Unicode), composed vs decomposed letters, invisible characters, repeated
		// and case-variant IDs, a trailing dot
		switch i {
		case 2:
			ids = []string{" node1", "tab\t", "\u00a0nbsp", "trail\u00a0", "\nline", "in ner"}
		case 3:
			ids = []string{"e\u0301", "\u00e9", "a\u200bb", "ab", "\ufeffbom"}
		case 4:
			ids = []string{"dup", "Dup", "DUP", "dup.", "dup"}
		case 5:
			ids = []string{" ", "\t", "x"}
			dns = []string{"Host.Example.COM", "host.example.com.", "xn--bcher-kva.example"}
		case 6:
			ids = []string{"zz", "aa", "mm"} // order must be kept as requested
			ips = []net.IP{net.ParseIP("10.0.0.1").To4(), net.ParseIP("::ffff:10.0.0.1"), net.ParseIP("fe80::1"), net.ParseIP("10.0.0.1").To4()}
		}
		for k := r.Intn(3); k > 0; k-- {
			dns = append(dns, genDNS(r))
		}
		for k := r.Intn(3); k > 0; k-- {
			ips = append(ips, genIP(r))
		}
		window := r.Intn(4) // 0 default, 1 valid explicit, 2 expired, 3 not yet valid
		genKey := i%6 == 5  // most cases reuse the key (RSA generation is slow)
		rec := map[string]interface{}{"ids_hex": hexs(strsToBytes(ids)), "dns": dns, "ips": fmt.Sprint(ips), "window": window, "generated_key": genKey}
		im.Hist(fmt.Sprintf("e2e:window=%d", window))
		opts := &certificates.CertOptions{CommonName: "cn", CertNames: certificates.CertNames{DNSNames: dns, NodeIDs: ids, IPAddresses: ips}}
		reqFile, crtFile := filepath.Join(tmp, "r.req"), filepath.Join(tmp, "r.crt")
		viaCLI := i%2 == 0 // through the command-line layer (cert-makereq / cert-signreq Run methods)
		rec["via_cli_layer"] = viaCLI
		if viaCLI {
			mr := certificates.MakeReqConfig{CommonName: "cn", DNSName: dns, NodeID: ids, OutReq: reqFile}
			for _, ip := range ips {
				mr.IPAddress = append(mr.IPAddress, ip.String())
			}
			if genKey {
				mr.Bits, mr.OutKey = 2048, filepath.Join(tmp, "gen.key")
			} else {
				mr.InKey = keyFile
			}
			if err = mr.Prepare(); err == nil {
				err = mr.Run()
			}
		} else if genKey {
			opts.Bits = 2048
			err = certificates.MakeReq(opts, "", filepath.Join(tmp, "gen.key"), reqFile, osw)
		} else {
			err = certificates.MakeReq(opts, keyFile, "", reqFile, osw)
		}
		im.Count(fmt.Sprintf("e2e %v", rec), true)
		if err != nil {
			im.Violate("cert-makereq fails for valid names: "+err.Error(), "e2e-makereq", rec)
			continue
		}
		sopts := &certificates.CertOptions{}
		switch window {
		case 1:
			sopts.NotBefore, sopts.NotAfter = now.Add(-time.Hour), now.Add(time.Hour)
		case 2:
			sopts.NotBefore, sopts.NotAfter = now.Add(-48*time.Hour), now.Add(-24*time.Hour)
		case 3:
			sopts.NotBefore, sopts.NotAfter = now.Add(24*time.Hour), now.Add(48*time.Hour)
		}
		if viaCLI {
			sr := certificates.SignReqConfig{Req: reqFile, CACert: caCrt, CAKey: caKey, OutCert: crtFile, Verify: true}
			if window >= 1 {
				sr.NotBefore, sr.NotAfter = sopts.NotBefore.Format(time.RFC3339), sopts.NotAfter.Format(time.RFC3339)
			}
			err = sr.Run()
		} else {
			err = certificates.SignReq(sopts, caCrt, caKey, reqFile, crtFile, true, osw)
		}
		if err != nil {
			sig := "e2e-signreq"
			if maxLen(ids) >= 113 {
				sig = "e2e-signreq-id>=113"
			}
			im.Violate("cert-signreq fails for a request made by cert-makereq: "+err.Error(), sig, rec)
			continue
		}
		cert, err := certificates.LoadCertificate(crtFile, osw)
		Must(err)
		// names in the certificate
		got, err := utils.ReceptorNames(cert.Extensions)
		if err != nil || !sameStrings(got, ids) {
			im.Violate(fmt.Sprintf("certificate node IDs differ from the requested ones (err=%v)", err), "e2e-names", rec)
		}
		if !sameStrings(cert.DNSNames, dns) && !(len(cert.DNSNames) == 0 && len(dns) == 0) {
			im.Violate("certificate DNS names differ from the requested ones", "e2e-dns", rec)
		}
		var wantIP, gotIP []string
		for _, ip := range ips {
			wantIP = append(wantIP, fmt.Sprintf("%x", normIP(ip)))
		}
		for _, ip := range cert.IPAddresses {
			gotIP = append(gotIP, fmt.Sprintf("%x", normIP(ip)))
		}
		if !sameStrings(wantIP, gotIP) {
			im.Violate("certificate IP addresses differ from the requested ones", "e2e-ip", rec)
		}
		// chain
		// chain: signed by the CA; inside the window the whole chain verifies
		cerr := cert.CheckSignatureFrom(caCert)
		if cerr == nil && window <= 1 {
			_, cerr = cert.Verify(x509.VerifyOptions{Roots: pool, CurrentTime: time.Now().Add(time.Second), KeyUsages: []x509.ExtKeyUsage{x509.ExtKeyUsageAny}})
		}
		if cerr != nil {
			im.Violate("issued certificate does not chain to the signing CA: "+cerr.Error(), "e2e-chain", rec)
		}
		if window >= 1 && (!cert.NotBefore.Equal(sopts.NotBefore.Truncate(time.Second)) || !cert.NotAfter.Equal(sopts.NotAfter.Truncate(time.Second))) {
			im.Violate("validity window of the certificate differs from the requested one", "e2e-window", rec)
		}
		// receptor's own verification: each requested ID accepted inside the window, every other refused
		inWindow := window <= 1
		cands := append([]string{}, ids...)
		cands = append(cands, "not-"+ids[0], ids[0]+"x", "", strings.ToUpper(ids[0])+"_")
		for _, id := range ids { // what a normalising step would turn a requested ID into
			cands = append(cands, strings.TrimSpace(id), " "+id, id+" ", strings.TrimRight(id, "."), id+".", strings.ReplaceAll(id, "\u200b", ""))
		}
		// near misses that differ from a requested ID only by letter case / Unicode case folding
		for _, id := range ids {
			for _, v := range []string{strings.ToUpper(id), strings.ToLower(id), strings.Title(strings.ToLower(id)),
				strings.Replace(id, "k", "\u212a", 1), strings.Replace(id, "s", "\u017f", 1)} {
				cands = append(cands, v)
			}
		}
		if len(ids[0]) > 1 {
			cands = append(cands, ids[0][:len(ids[0])-1])
		}
		for _, vt := range []netceptor.VerifyType{netceptor.VerifyServer, netceptor.VerifyClient} {
			cfg := &tls.Config{RootCAs: pool, ClientCAs: pool}
			for _, cand := range cands {
				f := netceptor.ReceptorVerifyFunc(cfg, nil, cand, netceptor.ExpectedHostnameTypeReceptor, vt, lg)
				verr := f([][]byte{cert.Raw}, nil)
				requested := false
				for _, id := range ids {
					if id == cand {
						requested = true
					}
				}
				want := requested && inWindow
				if (verr == nil) != want {
					im.Violate(fmt.Sprintf("ReceptorVerifyFunc(expected=%q) = %v, want accept=%v (requested=%v, inside validity window=%v)", cand, verr, want, requested, inWindow),
						"e2e-verify", rec)
				}
			}
			// a certificate with the same names from another CA must be refused
		}
		_ = otherCA
		im.Sample(map[string]interface{}{"kind": "end-to-end", "case": rec})
	}
	// a certificate issued now, judged by the verifiers built at the start
	{
		if d := time.Since(earlyBuilt); d < 2500*time.Millisecond { // the validity starts at a whole second
			time.Sleep(2500*time.Millisecond - d)
		}
		reqFile, crtFile := filepath.Join(tmp, "late.req"), filepath.Join(tmp, "late.crt")
		ids := []string{"late-node", "other-late"}
		err := certificates.MakeReq(&certificates.CertOptions{CommonName: "cn", CertNames: certificates.CertNames{NodeIDs: ids}}, keyFile, "", reqFile, osw)
		if err == nil {
			err = certificates.SignReq(&certificates.CertOptions{}, caCrt, caKey, reqFile, crtFile, true, osw)
		}
		im.Count("e2e late certificate, early verifier", true)
		im.Hist("e2e:late-certificate-early-verifier")
		if err != nil {
			im.Violate("issuing a certificate with default validity fails: "+err.Error(), "e2e-makereq", ids)
		} else {
			cert, err := certificates.LoadCertificate(crtFile, osw)
			Must(err)
			for _, id := range earlyIDs {
				verr := early[id]([][]byte{cert.Raw}, nil)
				want := id == "late-node" || id == "other-late"
				if (verr == nil) != want {
					im.Violate(fmt.Sprintf("a verifier built %v before the certificate was issued: ReceptorVerifyFunc(expected=%q) = %v, want accept=%v (certificate names %q, valid from %v)",
						time.Since(earlyBuilt).Round(time.Second), id, verr, want, ids, cert.NotBefore.Format(time.RFC3339)), "e2e-verify", ids)
				}
			}
		}
	}
	// same names, other authority
	{
		ids := []string{"node-a"}
		key, err := rsa.GenerateKey(zeroReader{r}, 2048)
		if err != nil {
			return
		}
		req, err := certificates.CreateCertReq(&certificates.CertOptions{CommonName: "cn", CertNames: certificates.CertNames{NodeIDs: ids}}, key)
		Must(err)
		cert, err := certificates.SignCertReq(req, otherCA, &certificates.CertOptions{})
		Must(err)
		f := netceptor.ReceptorVerifyFunc(&tls.Config{RootCAs: pool}, nil, "node-a", netceptor.ExpectedHostnameTypeReceptor, netceptor.VerifyServer, lg)
		im.Count("e2e other-ca", true)
		if f([][]byte{cert.Raw}, nil) == nil {
			im.Violate("certificate of an unrelated CA accepted", "e2e-other-ca", ids)
		}
	}
}

type zeroReader struct{ r *Rng }

func (z zeroReader) Read(p []byte) (int, error) {
	for i := range p {
		p[i] = byte(z.r.U64())
	}
	return len(p), nil
}

func strsToBytes(xs []string) [][]byte {
	o := make([][]byte, len(xs))
	for i, x := range xs {
		o[i] = []byte(x)
	}
	return o
}

func maxLen(xs []string) int {
	m := 0
	for _, x := range xs {
		if len(x) > m {
			m = len(x)
		}
	}
	return m
}

var _ = sort.Strings
var _ = bytes.Equal
